// C35 correspondence suite: SuRecord rule cache (Put / Get / Delete / Invalidate / Copy /
// observers / GetDeps) with generated pure rules installed as Rule_<field> globals, against the
// Lean record machine Gsu.Model.RecRules (driver drv_c35), plus direct oracles of the property on
// the implementation:
//   - value: a rule field equals the rule evaluated on the record's current field values;
//   - observer set: with every field read (so everything is cached and valid), a change of field
//     k notifies exactly k and every rule field that (transitively) reads k, each once;
//   - independence: an operation on one record never changes the recorded dependencies of a
//     copy / of the record it was copied from.
//
// Fields are f0..f3 (plain) and f4..f11 (rule fields; a rule only reads lower-numbered fields, so
// rules are acyclic). Conventions from the design (DESIGN.md C35): Copy() does not copy attached
// rules, hence global rules; an explicitly assigned rule field is overridden once a dependency
// changes, hence the main stream writes plain fields only (it does delete rule members: that
// leaves the specification value unchanged) and a separate small stream assigns rule fields
// (replayed by the model, no value oracle). One history in five has guarded rules
// (`if guard > 0 { return body }`: a rule that yields nothing keeps whatever the field had):
// replayed by the model, observer-set oracle with lower/upper bounds, no value oracle.
package main

import (
	"fmt"
	"math/rand"
	"sort"
	"strconv"
	"strings"

	"github.com/apmckinlay/gsuneido/compile"
	. "github.com/apmckinlay/gsuneido/core"
	"verif/harness/lib"
)

const nPlain, nFields = 4, 12

type expr struct {
	op   byte // 'l' literal, 'f' field, '+', '-', '*'
	n    int
	a, b *expr
}

func (e *expr) src() string {
	switch e.op {
	case 'l':
		return strconv.Itoa(e.n)
	case 'f':
		return ".f" + strconv.Itoa(e.n)
	}
	return "(" + e.a.src() + " " + string(e.op) + " " + e.b.src() + ")"
}

func (e *expr) rpn() string {
	switch e.op {
	case 'l':
		return strconv.Itoa(e.n)
	case 'f':
		return "f" + strconv.Itoa(e.n)
	}
	return e.a.rpn() + " " + e.b.rpn() + " " + string(e.op)
}

func (e *expr) refs(m map[int]bool) {
	switch e.op {
	case 'l':
	case 'f':
		m[e.n] = true
	default:
		e.a.refs(m)
		e.b.refs(m)
	}
}

type rule struct {
	guard *expr // nil: unconditional
	body  *expr
}

func (ru *rule) src() string {
	if ru.guard == nil {
		return "function () { return " + ru.body.src() + " }"
	}
	return "function () { if (" + ru.guard.src() + " > 0) { return " + ru.body.src() + " } }"
}

func (ru *rule) rpn() string {
	if ru.guard == nil {
		return ru.body.rpn()
	}
	return ru.guard.rpn() + " ? " + ru.body.rpn()
}

// alwaysRead: the fields read by every evaluation of the rule
func (ru *rule) alwaysRead() map[int]bool {
	m := map[int]bool{}
	if ru.guard != nil {
		ru.guard.refs(m)
	} else {
		ru.body.refs(m)
	}
	return m
}

func (ru *rule) allRefs() map[int]bool {
	m := map[int]bool{}
	if ru.guard != nil {
		ru.guard.refs(m)
	}
	ru.body.refs(m)
	return m
}

func genLeaf(r *rand.Rand, below int) *expr {
	if r.Intn(5) == 0 {
		return &expr{op: 'l', n: 1 + r.Intn(3)} // not 0: the compiler folds 0*x to 0 without reading x
	}
	// prefer rule fields to get chains
	if below > nPlain && r.Intn(2) == 0 {
		return &expr{op: 'f', n: nPlain + r.Intn(below-nPlain)}
	}
	return &expr{op: 'f', n: r.Intn(below)}
}

func genExpr(r *rand.Rand, below, depth int) *expr {
	if depth == 0 || r.Intn(3) == 0 {
		return genLeaf(r, below)
	}
	return genBin(r, below, depth)
}

func genBin(r *rand.Rand, below, depth int) *expr {
	a, b := genExpr(r, below, depth-1), genExpr(r, below, depth-1)
	if a.op == 'l' && b.op == 'l' { // constant subexpressions are folded (3-3 = 0, then 0*x = 0)
		b = &expr{op: 'f', n: r.Intn(below)}
	}
	return &expr{op: "+-*+"[r.Intn(4)], a: a, b: b}
}

// magBound is an upper bound of |e| given bounds of the fields it reads
func magBound(e *expr, bounds map[int]float64) float64 {
	switch e.op {
	case 'l':
		if e.n < 0 {
			return float64(-e.n)
		}
		return float64(e.n)
	case 'f':
		return bounds[e.n] // 0 for a rule-less field that is never set to more than a plain value
	}
	x, y := magBound(e.a, bounds), magBound(e.b, bounds)
	if e.op == '*' {
		return x * y
	}
	return x + y
}

// tameMul turns the first multiplication of e into an addition
func tameMul(e *expr) bool {
	if e.op == 'l' || e.op == 'f' {
		return false
	}
	if e.op == '*' {
		e.op = '+'
		return true
	}
	return tameMul(e.a) || tameMul(e.b)
}

// spec: the value the rule would compute from the record's current plain field values
type spec struct {
	rules map[int]*rule
	plain map[int]int
}

// field returns the value of f and whether it is a number (false: "", the record default).
// Only used in histories without guarded rules.
func (s *spec) field(f int) (int, bool) {
	if ru, ok := s.rules[f]; ok {
		return s.eval(ru.body)
	}
	v, ok := s.plain[f]
	return v, ok
}

func (s *spec) eval(e *expr) (int, bool) {
	switch e.op {
	case 'l':
		return e.n, true
	case 'f':
		return s.field(e.n) // a rule that is just `.f` returns the raw value, possibly ""
	}
	x, _ := s.eval(e.a) // "" is 0 in arithmetic
	y, _ := s.eval(e.b)
	switch e.op {
	case '+':
		return x + y, true
	case '-':
		return x - y, true
	}
	return x * y, true
}

// closure: the rule fields that (transitively) read k; refs selects the edges
func (s *spec) closure(k int, refs func(*rule) map[int]bool) map[int]bool {
	out := map[int]bool{}
	for changed := true; changed; {
		changed = false
		for f, ru := range s.rules {
			if out[f] {
				continue
			}
			for g := range refs(ru) {
				if g == k || out[g] {
					out[f] = true
					changed = true
					break
				}
			}
		}
	}
	return out
}

func fname(f int) Value { return SuStr("f" + strconv.Itoa(f)) }

func valText(v Value) string {
	if v == nil || v == EmptyStr {
		return "-"
	}
	if i, ok := v.IfInt(); ok {
		return strconv.Itoa(i)
	}
	return "?" + v.String()
}

func fieldsText(l []int) string {
	if len(l) == 0 {
		return "-"
	}
	ss := make([]string, len(l))
	for j, f := range l {
		ss[j] = strconv.Itoa(f)
	}
	return strings.Join(ss, ",")
}

type slot struct {
	rec     *SuRecord
	plain   map[int]int  // current plain values (the specification state)
	tainted map[int]bool // rule fields that were assigned explicitly (no value oracle)
	log     *[]int
}

type history struct {
	t       *lib.Trace
	r       *rand.Rand
	th      *Thread
	sp      *spec
	slots   []*slot
	hist    []string
	guarded bool // some rule has a guard
	assigns bool // the stream that also assigns rule fields
}

func (h *history) q(op, out string) {
	h.hist = append(h.hist, op+" -> "+out)
	h.t.Q(op, out)
}

func (h *history) fail(sig, desc string) {
	hh := h.hist
	if len(hh) > 90 {
		hh = hh[len(hh)-90:]
	}
	h.t.Fail(sig, desc+" | history: "+strings.Join(hh, "; "))
}

func (h *history) valueOracle(s *slot) bool {
	return !h.guarded && !h.assigns && len(s.tainted) == 0
}

// depsText: the recorded dependencies of every rule field (GetDeps has no side effects)
func depsText(s *slot) string {
	var sb strings.Builder
	for f := nPlain; f < nFields; f++ {
		d := strings.Split(ToStr(s.rec.GetDeps("f"+strconv.Itoa(f))), ",")
		sort.Strings(d)
		sb.WriteString(strconv.Itoa(f) + ":" + strings.Join(d, ",") + " ")
	}
	return sb.String()
}

// around runs op on slot i and checks that the other record's dependencies are untouched
func (h *history) around(i int, what string, op func()) {
	o := h.slots[1-i]
	before := depsText(o)
	op()
	if after := depsText(o); after != before {
		h.fail("copy-shares-dependents", fmt.Sprintf("%s on record %d changed the recorded dependencies of record %d from {%s} to {%s}",
			what, i, 1-i, before, after))
	}
}

func (h *history) attach(i int) {
	s := h.slots[i]
	if s.log != nil {
		return
	}
	lg := &[]int{}
	s.log = lg
	s.rec.Observer(&SuBuiltin1{Fn: func(m Value) Value {
		f, _ := strconv.Atoi(ToStr(m)[1:])
		*lg = append(*lg, f)
		return nil
	}, BuiltinParams: BuiltinParams{ParamSpec: ParamSpec{Nparams: 1, Flags: []Flag{0},
		Names: []string{"member"}}}})
	h.q(fmt.Sprintf("obs %d", i), "ok")
}

// takeLog replays the observer log and checks "exactly once per change".
// full: every field was read just before the change, so the notified set is determined by the
// rule texts alone.
func (h *history) takeLog(i int, changed int, isChange, full bool) {
	s := h.slots[i]
	if s.log == nil {
		return
	}
	l := append([]int(nil), *s.log...)
	*s.log = (*s.log)[:0]
	h.q(fmt.Sprintf("log %d", i), fieldsText(l))
	seen := map[int]bool{}
	clean := !h.assigns && len(s.tainted) == 0
	max := h.sp.closure(changed, (*rule).allRefs)
	for _, f := range l {
		if seen[f] {
			h.fail("observer-twice", fmt.Sprintf("observer told twice about f%d for one change of f%d: %v", f, changed, l))
		}
		seen[f] = true
		if f != changed && !max[f] && clean {
			h.fail("observer-unrelated", fmt.Sprintf("observer told about f%d which does not depend on the changed f%d: %v", f, changed, l))
		}
	}
	if isChange && !seen[changed] {
		h.fail("observer-missed", fmt.Sprintf("observer not told about the changed field f%d: %v", changed, l))
	}
	if !isChange && len(l) > 0 {
		h.fail("observer-spurious", fmt.Sprintf("observer told %v although f%d did not change", l, changed))
	}
	if full && isChange && clean {
		for f := range h.sp.closure(changed, (*rule).alwaysRead) {
			if !seen[f] {
				h.fail("observer-missed-dependent", fmt.Sprintf(
					"all fields were read (cached and valid); then f%d changed: the observer was told %v but not about f%d, whose rule reads f%d (transitively)",
					changed, l, f, changed))
			}
		}
		h.t.Count("oracle=observer-set")
	}
}

func (h *history) put(i, f, v int, full bool) {
	s := h.slots[i]
	old, had := s.plain[f]
	var cached Value
	if f >= nPlain {
		cached = s.rec.ToObject().GetIfPresent(nil, fname(f))
	}
	h.around(i, "Put", func() {
		if msg := lib.Catch(func() { s.rec.Put(h.th, fname(f), IntVal(v)) }); msg != "" {
			h.fail("put-panic", msg)
		}
	})
	h.q(fmt.Sprintf("put %d %d %d", i, f, v), "ok")
	isChange := !(had && old == v)
	if f >= nPlain {
		if _, isRule := h.sp.rules[f]; isRule {
			s.tainted[f] = true
		} else {
			s.plain[f] = v
		}
		isChange = cached == nil || !cached.Equal(IntVal(v))
		h.t.Count("op=put-rulefield")
	} else {
		s.plain[f] = v
		h.t.Count("op=put")
	}
	if !isChange {
		h.t.Count("op=put-same-value")
	}
	h.takeLog(i, f, isChange, full)
}

func (h *history) get(i, f int, sig string) {
	s := h.slots[i]
	var got Value
	var msg string
	h.around(i, "Get", func() { msg = lib.Catch(func() { got = s.rec.Get(h.th, fname(f)) }) })
	if msg != "" {
		h.fail("get-panic", msg)
		return
	}
	out := valText(got)
	h.q(fmt.Sprintf("get %d %d", i, f), out)
	if h.valueOracle(s) {
		h.sp.plain = s.plain
		exp, ok := h.sp.field(f)
		expText := "-"
		if ok {
			expText = strconv.Itoa(exp)
		}
		if out != expText {
			if f < nPlain {
				sig = "field-value"
			}
			h.fail(sig, fmt.Sprintf("get f%d of record %d = %s but the rule on the current fields %v gives %s", f, i, out, s.plain, expText))
		}
		h.t.Count("oracle=rule-current")
	}
	if _, isRule := h.sp.rules[f]; isRule {
		h.t.Count("op=get-rule")
	} else {
		h.t.Count("op=get-plain")
	}
}

func (h *history) readAll(i int) {
	for f := 0; f < nFields; f++ {
		h.get(i, f, "rule-stale")
	}
	if s := h.slots[i]; s.log != nil && len(*s.log) > 0 {
		h.fail("observer-on-get", fmt.Sprintf("reading fields notified the observer: %v", *s.log))
		*s.log = (*s.log)[:0]
	}
}

func (h *history) del(i, f int, full bool) {
	s := h.slots[i]
	var res bool
	h.around(i, "Delete", func() {
		if msg := lib.Catch(func() { res = s.rec.Delete(h.th, fname(f)) }); msg != "" {
			h.fail("delete-panic", msg)
		}
	})
	h.q(fmt.Sprintf("del %d %d", i, f), lib.B(res))
	if _, isRule := h.sp.rules[f]; !isRule {
		_, had := s.plain[f]
		if res != had {
			h.fail("delete-result", fmt.Sprintf("delete f%d returned %v, present=%v", f, res, had))
		}
		delete(s.plain, f)
		h.t.Count("op=delete")
	} else {
		// deleting the cached value of a rule field leaves the specification value unchanged
		delete(s.tainted, f)
		h.t.Count("op=delete-rulefield")
	}
	h.takeLog(i, f, res, full && res)
}

func (h *history) invalidate(i, f int, full bool) {
	s := h.slots[i]
	h.around(i, "Invalidate", func() {
		if msg := lib.Catch(func() { s.rec.Invalidate(h.th, "f"+strconv.Itoa(f)) }); msg != "" {
			h.fail("invalidate-panic", msg)
		}
	})
	h.q(fmt.Sprintf("inv %d %d", i, f), "ok")
	h.takeLog(i, f, true, full)
	h.t.Count("op=invalidate")
}

func (h *history) copyTo(i int) {
	s := h.slots[i]
	d := 1 - i
	c := s.rec.Copy().(*SuRecord)
	ns := &slot{rec: c, plain: map[int]int{}, tainted: map[int]bool{}}
	for a, b := range s.plain {
		ns.plain[a] = b
	}
	for a := range s.tainted {
		ns.tainted[a] = true
	}
	h.slots[d] = ns
	h.q(fmt.Sprintf("copy %d %d", i, d), "ok")
	if depsText(ns) != depsText(s) {
		h.fail("copy-deps-differ", "Copy() does not carry the recorded dependencies")
	}
	h.t.Count("op=copy")
}

func (h *history) getDeps(i, f int) {
	s := h.slots[i]
	d := ToStr(s.rec.GetDeps("f" + strconv.Itoa(f)))
	var fs []int
	for _, x := range strings.Split(d, ",") {
		if x != "" {
			g, _ := strconv.Atoi(x[1:])
			fs = append(fs, g)
		}
	}
	sort.Ints(fs)
	h.q(fmt.Sprintf("deps %d %d", i, f), fieldsText(fs))
	// every recorded dependency is a field the rule really reads
	if ru, ok := h.sp.rules[f]; ok {
		m := ru.allRefs()
		for _, g := range fs {
			if !m[g] {
				h.fail("deps-extra", fmt.Sprintf("GetDeps(f%d) lists f%d which the rule %s does not read", f, g, ru.src()))
			}
		}
	}
	h.t.Count("op=getdeps")
}

// change performs one change of field k (put of a new value / delete / Invalidate) after reading
// every field, so that the observer-set oracle applies
func (h *history) fullChange(i int) {
	s := h.slots[i]
	h.attach(i)
	h.readAll(i)
	switch h.r.Intn(4) {
	case 0:
		h.invalidate(i, h.r.Intn(nFields), true) // incl. fields without a stored value
	case 1:
		var present []int
		for f := range s.plain {
			if f < nPlain {
				present = append(present, f)
			}
		}
		sort.Ints(present)
		if len(present) > 0 {
			h.del(i, present[h.r.Intn(len(present))], true)
			break
		}
		fallthrough
	default:
		f := h.r.Intn(nPlain)
		v := h.r.Intn(5)
		if old, had := s.plain[f]; had && old == v {
			v = (v + 1) % 5
		}
		h.put(i, f, v, true)
	}
	h.readAll(i)
}

func main() {
	t := lib.Open()
	defer t.Close()
	r := lib.Rand()
	n := lib.N(1200)
	th := NewThread(nil)
	for hn := 0; hn < n; hn++ {
		h := &history{t: t, r: r, th: th, sp: &spec{rules: map[int]*rule{}}}
		h.q("reset", "ok")
		h.assigns = r.Intn(10) == 0
		h.guarded = !h.assigns && r.Intn(5) == 0
		hub := -1 // hub mode: (almost) every rule reads one plain field directly
		if r.Intn(3) == 0 {
			hub = r.Intn(nPlain)
			t.Count("history=hub")
		}
		bounds := map[int]float64{}
		for f := 0; f < nPlain; f++ {
			bounds[f] = 100 // generous bound on the plain values the histories put
		}
		for f := nPlain; f < nFields; f++ {
			name := "Rule_f" + strconv.Itoa(f)
			if r.Intn(8) == 0 {
				Global.TestDef(name, nil) // no rule: an ordinary field
				t.Count("rulefield=norule")
				bounds[f] = 100
				continue
			}
			ru := &rule{body: genExpr(r, f, 1+r.Intn(2))}
			if hub >= 0 && r.Intn(8) != 0 {
				ru.body = &expr{op: "+-"[r.Intn(2)], a: &expr{op: 'f', n: hub}, b: ru.body}
			}
			// keep every rule value exactly representable (below 10^14 in magnitude for any
			// plain field values the histories use): beyond 16 digits the implementation
			// continues in decimal floating point, which the exact-integer model and the
			// reference evaluator do not follow (that is C26/C27's subject, not C35's)
			for bounds[f] = magBound(ru.body, bounds); bounds[f] > 1e13; bounds[f] = magBound(ru.body, bounds) {
				if !tameMul(ru.body) {
					ru.body = &expr{op: 'f', n: r.Intn(nPlain)} // sums alone got too big: fall back to a plain field
				}
				t.Count("rule=tamed-magnitude")
			}
			if h.guarded && r.Intn(2) == 0 {
				ru.guard = genBin(r, f, 1) // always arithmetic: a number, never ""
				t.Count("rule=guarded")
			}
			h.sp.rules[f] = ru
			Global.TestDef(name, compile.Constant(ru.src()))
			h.q(fmt.Sprintf("rule %d %s", f, ru.rpn()), "ok")
			chain := false
			for g := range ru.allRefs() {
				if g >= nPlain {
					chain = true
				}
			}
			if chain {
				t.Count("rule=reads-rule-field")
			} else {
				t.Count("rule=reads-plain-only")
			}
		}
		mk := func() *slot {
			return &slot{rec: NewSuRecord(), plain: map[int]int{}, tainted: map[int]bool{}}
		}
		h.slots = []*slot{mk(), mk()}
		if r.Intn(2) == 0 {
			h.attach(0)
			t.Count("history=with-observer")
		}
		// scripted opening (one history in three): evaluate some rules, copy, let the copy and
		// the original each discover further dependencies, then change fields in both
		if r.Intn(3) == 0 {
			for f := 0; f < nPlain; f++ {
				if r.Intn(4) != 0 {
					h.put(0, f, r.Intn(5), false)
				}
			}
			perm := r.Perm(nFields - nPlain)
			k := 1 + r.Intn(len(perm)-1)
			for _, p := range perm[:k] {
				h.get(0, nPlain+p, "rule-stale")
			}
			h.copyTo(0)
			for j, p := range perm[k:] { // alternate: copy first, then original
				h.get(1-j%2, nPlain+p, "rule-stale")
			}
			for _, i := range []int{1, 0} {
				f := r.Intn(nPlain)
				if hub >= 0 {
					f = hub
				}
				h.put(i, f, 5+r.Intn(3), false) // a value the field did not have
				h.readAll(i)
			}
			t.Count("history=copy-divergence")
		}
		steps := 15 + r.Intn(40)
		for st := 0; st < steps; st++ {
			i := 0
			if r.Intn(4) == 0 {
				i = 1
			}
			switch k := r.Intn(22); {
			case k < 6:
				f := r.Intn(nPlain)
				if h.assigns && r.Intn(3) == 0 {
					f = nPlain + r.Intn(nFields-nPlain)
				}
				h.put(i, f, r.Intn(5), false)
			case k < 13:
				h.get(i, r.Intn(nFields), "rule-stale")
			case k < 15:
				f := r.Intn(nPlain)
				if !h.assigns && r.Intn(3) == 0 {
					f = nPlain + r.Intn(nFields-nPlain) // drop a cached rule value
				}
				h.del(i, f, false)
			case k < 16:
				h.copyTo(i)
			case k < 17:
				h.invalidate(i, r.Intn(nFields), false)
			case k < 18:
				h.getDeps(i, nPlain+r.Intn(nFields-nPlain))
			case k < 20:
				if !h.assigns {
					h.fullChange(i)
				}
			default:
				if h.slots[i].log == nil {
					h.attach(i)
					t.Count("op=observer")
				}
			}
		}
		// final sweep: every field of every record is current
		for i := range h.slots {
			for f := nFields - 1; f >= 0; f-- {
				h.get(i, f, "rule-stale")
			}
		}
		switch {
		case h.assigns:
			t.Count("history=assigns-rule-fields")
		case h.guarded:
			t.Count("history=guarded-rules")
		default:
			t.Count("history=plain-writes-only")
		}
		if hn < 2 {
			t.Sample(strings.Join(h.hist, "; "))
		}
	}
}
