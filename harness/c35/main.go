// C35 correspondence suite: SuRecord rule cache (Put / Get / Delete / Invalidate / Copy /
// observers / GetDeps) with generated pure rules installed as Rule_<field> globals, against the
// Lean record machine Gsu.Model.RecRules (driver drv_c35), plus the direct oracle of the property:
// the value of a rule field equals the rule evaluated on the record's current field values, and an
// attached observer is told about every invalidation exactly once per change.
//
// Fields are f0..f3 (plain) and f4..f8 (rule fields; a rule only reads lower-numbered fields, so
// rules are acyclic chains). Conventions from the design (DESIGN.md C35): Copy() does not copy
// attached rules, hence global rules; an explicitly assigned rule field is overridden once a
// dependency changes, hence the generator writes and deletes plain fields only (plus a separate
// small stream that assigns rule fields, replayed by the model but without the direct oracle).
package main

import (
	"fmt"
	"math/rand"
	"sort"
	"strconv"
	"strings"

	"github.com/apmckinlay/gsuneido/compile"
	. "github.com/apmckinlay/gsuneido/core"
	"verif/harness/lib"
)

const nPlain, nFields = 4, 9

type expr struct {
	op   byte // 'l' literal, 'f' field, '+', '-', '*'
	n    int
	a, b *expr
}

func (e *expr) src() string {
	switch e.op {
	case 'l':
		return strconv.Itoa(e.n)
	case 'f':
		return ".f" + strconv.Itoa(e.n)
	}
	return "(" + e.a.src() + " " + string(e.op) + " " + e.b.src() + ")"
}

func (e *expr) rpn() string {
	switch e.op {
	case 'l':
		return strconv.Itoa(e.n)
	case 'f':
		return "f" + strconv.Itoa(e.n)
	}
	return e.a.rpn() + " " + e.b.rpn() + " " + string(e.op)
}

func (e *expr) refs(m map[int]bool) {
	switch e.op {
	case 'l':
	case 'f':
		m[e.n] = true
	default:
		e.a.refs(m)
		e.b.refs(m)
	}
}

func genExpr(r *rand.Rand, below, depth int) *expr {
	if depth == 0 || r.Intn(3) == 0 {
		if r.Intn(5) == 0 {
			return &expr{op: 'l', n: 1 + r.Intn(3)} // not 0: the compiler folds 0*x to 0 without reading x
		}
		// prefer the directly preceding rule field to get chains
		if below > nPlain && r.Intn(2) == 0 {
			return &expr{op: 'f', n: nPlain + r.Intn(below-nPlain)}
		}
		return &expr{op: 'f', n: r.Intn(below)}
	}
	a, b := genExpr(r, below, depth-1), genExpr(r, below, depth-1)
	if a.op == 'l' && b.op == 'l' { // constant subexpressions are folded (3-3 = 0, then 0*x = 0)
		b = &expr{op: 'f', n: r.Intn(below)}
	}
	return &expr{op: "+-*+"[r.Intn(4)], a: a, b: b}
}

// spec: the value the rule would compute from the record's current plain field values
type spec struct {
	rules map[int]*expr
	plain map[int]int
}

// field returns the value of f and whether it is a number (false: "", the record default)
func (s *spec) field(f int) (int, bool) {
	if e, ok := s.rules[f]; ok {
		return s.eval(e)
	}
	v, ok := s.plain[f]
	return v, ok
}

func (s *spec) eval(e *expr) (int, bool) {
	switch e.op {
	case 'l':
		return e.n, true
	case 'f':
		return s.field(e.n) // a rule that is just `.f` returns the raw value, possibly ""
	}
	x, _ := s.eval(e.a) // "" is 0 in arithmetic
	y, _ := s.eval(e.b)
	switch e.op {
	case '+':
		return x + y, true
	case '-':
		return x - y, true
	}
	return x * y, true
}

// dependsOn: does rule field k (transitively) read f
func (s *spec) dependsOn(k, f int) bool {
	e, ok := s.rules[k]
	if !ok {
		return false
	}
	m := map[int]bool{}
	e.refs(m)
	for g := range m {
		if g == f || s.dependsOn(g, f) {
			return true
		}
	}
	return false
}

func fname(f int) Value { return SuStr("f" + strconv.Itoa(f)) }

func valText(v Value) string {
	if v == nil || v == EmptyStr {
		return "-"
	}
	if i, ok := v.IfInt(); ok {
		return strconv.Itoa(i)
	}
	return "?" + v.String()
}

type slot struct {
	rec     *SuRecord
	plain   map[int]int  // current plain values (the specification state)
	tainted map[int]bool // rule fields that were assigned explicitly (no direct oracle)
	log     *[]int
}

func main() {
	t := lib.Open()
	defer t.Close()
	r := lib.Rand()
	n := lib.N(1500)
	th := NewThread(nil)
	var hist []string
	q := func(op, out string) {
		hist = append(hist, op+" -> "+out)
		t.Q(op, out)
	}
	fail := func(sig, desc string) {
		h := hist
		if len(h) > 80 {
			h = h[len(h)-80:]
		}
		t.Fail(sig, desc+" | history: "+strings.Join(h, "; "))
	}
	for h := 0; h < n; h++ {
		hist = hist[:0]
		q("reset", "ok")
		sp := &spec{rules: map[int]*expr{}}
		assignRules := r.Intn(8) == 0 // the stream that also assigns rule fields
		for f := nPlain; f < nFields; f++ {
			if r.Intn(6) == 0 {
				Global.TestDef("Rule_f"+strconv.Itoa(f), nil) // no rule: an ordinary field
				t.Count("rulefield=norule")
				continue
			}
			e := genExpr(r, f, 1+r.Intn(2))
			sp.rules[f] = e
			Global.TestDef("Rule_f"+strconv.Itoa(f), compile.Constant("function () { return "+e.src()+" }"))
			q(fmt.Sprintf("rule %d %s", f, e.rpn()), "ok")
			m := map[int]bool{}
			e.refs(m)
			chain := false
			for g := range m {
				if g >= nPlain {
					chain = true
				}
			}
			if chain {
				t.Count("rule=reads-rule-field")
			} else {
				t.Count("rule=reads-plain-only")
			}
		}
		mk := func() *slot {
			return &slot{rec: NewSuRecord(), plain: map[int]int{}, tainted: map[int]bool{}}
		}
		slots := []*slot{mk(), mk()}
		attach := func(i int) {
			s := slots[i]
			lg := &[]int{}
			s.log = lg
			s.rec.Observer(&SuBuiltin1{Fn: func(m Value) Value {
				f, _ := strconv.Atoi(ToStr(m)[1:])
				*lg = append(*lg, f)
				return nil
			}, BuiltinParams: BuiltinParams{ParamSpec: ParamSpec{Nparams: 1, Flags: []Flag{0},
				Names: []string{"member"}}}})
			q(fmt.Sprintf("obs %d", i), "ok")
		}
		if r.Intn(2) == 0 {
			attach(0)
			t.Count("history=with-observer")
		}
		// takeLog replays the observer log and checks "exactly once per change"
		takeLog := func(i int, changed int, isChange bool) {
			s := slots[i]
			if s.log == nil {
				return
			}
			l := *s.log
			*s.log = (*s.log)[:0]
			out := "-"
			if len(l) > 0 {
				ss := make([]string, len(l))
				for j, f := range l {
					ss[j] = strconv.Itoa(f)
				}
				out = strings.Join(ss, ",")
			}
			q(fmt.Sprintf("log %d", i), out)
			seen := map[int]bool{}
			for _, f := range l {
				if seen[f] {
					fail("observer-twice", fmt.Sprintf("observer told twice about f%d for one change of f%d: %v", f, changed, l))
				}
				seen[f] = true
				if f != changed && !sp.dependsOn(f, changed) && len(s.tainted) == 0 && !assignRules {
					fail("observer-unrelated", fmt.Sprintf("observer told about f%d which does not depend on the changed f%d: %v", f, changed, l))
				}
			}
			if isChange && !seen[changed] {
				fail("observer-missed", fmt.Sprintf("observer not told about the changed field f%d: %v", changed, l))
			}
			if !isChange && len(l) > 0 {
				fail("observer-spurious", fmt.Sprintf("observer told %v although f%d was set to its old value", l, changed))
			}
		}
		steps := 15 + r.Intn(40)
		for st := 0; st < steps; st++ {
			i := 0
			if r.Intn(4) == 0 {
				i = 1
			}
			s := slots[i]
			switch k := r.Intn(20); {
			case k < 6: // set a plain field
				f := r.Intn(nPlain)
				if assignRules && r.Intn(3) == 0 {
					f = nPlain + r.Intn(nFields-nPlain)
				}
				v := r.Intn(5)
				old, had := s.plain[f]
				var cached Value
				if f >= nPlain {
					cached = s.rec.ToObject().GetIfPresent(nil, fname(f))
				}
				msg := lib.Catch(func() { s.rec.Put(th, fname(f), IntVal(v)) })
				if msg != "" {
					fail("put-panic", msg)
				}
				q(fmt.Sprintf("put %d %d %d", i, f, v), "ok")
				isChange := !(had && old == v)
				if f >= nPlain {
					if _, isRule := sp.rules[f]; isRule {
						s.tainted[f] = true
					} else {
						s.plain[f] = v
					}
					isChange = cached == nil || !cached.Equal(IntVal(v))
					t.Count("op=put-rulefield")
				} else {
					s.plain[f] = v
					t.Count("op=put")
				}
				if !isChange {
					t.Count("op=put-same-value")
				}
				takeLog(i, f, isChange)
			case k < 14: // get
				f := r.Intn(nFields)
				var got Value
				msg := lib.Catch(func() { got = s.rec.Get(th, fname(f)) })
				if msg != "" {
					fail("get-panic", msg)
					continue
				}
				out := valText(got)
				q(fmt.Sprintf("get %d %d", i, f), out)
				// direct oracle: the rule evaluated on the current field values
				clean := len(s.tainted) == 0
				if clean {
					sp.plain = s.plain
					exp, ok := sp.field(f)
					expText := "-"
					if ok {
						expText = strconv.Itoa(exp)
					}
					if out != expText {
						sig := "rule-stale"
						if f < nPlain {
							sig = "field-value"
						}
						fail(sig, fmt.Sprintf("get f%d = %s but the rule on the current fields %v gives %s", f, out, s.plain, expText))
					}
					t.Count("oracle=rule-current")
				}
				if _, isRule := sp.rules[f]; isRule {
					t.Count("op=get-rule")
				} else {
					t.Count("op=get-plain")
				}
			case k < 16: // delete a plain field
				f := r.Intn(nPlain)
				var res bool
				msg := lib.Catch(func() { res = s.rec.Delete(th, fname(f)) })
				if msg != "" {
					fail("delete-panic", msg)
				}
				q(fmt.Sprintf("del %d %d", i, f), lib.B(res))
				_, had := s.plain[f]
				if res != had {
					fail("delete-result", fmt.Sprintf("delete f%d returned %v, present=%v", f, res, had))
				}
				delete(s.plain, f)
				takeLog(i, f, had)
				t.Count("op=delete")
			case k < 17: // copy into the other slot
				d := 1 - i
				c := s.rec.Copy().(*SuRecord)
				ns := &slot{rec: c, plain: map[int]int{}, tainted: map[int]bool{}}
				for a, b := range s.plain {
					ns.plain[a] = b
				}
				for a := range s.tainted {
					ns.tainted[a] = true
				}
				slots[d] = ns
				q(fmt.Sprintf("copy %d %d", i, d), "ok")
				t.Count("op=copy")
			case k < 18: // Invalidate a rule field
				f := nPlain + r.Intn(nFields-nPlain)
				msg := lib.Catch(func() { s.rec.Invalidate(th, "f"+strconv.Itoa(f)) })
				if msg != "" {
					fail("invalidate-panic", msg)
				}
				q(fmt.Sprintf("inv %d %d", i, f), "ok")
				if s.log != nil {
					l := *s.log
					*s.log = (*s.log)[:0]
					out := "-"
					if len(l) > 0 {
						ss := make([]string, len(l))
						for j, g := range l {
							ss[j] = strconv.Itoa(g)
						}
						out = strings.Join(ss, ",")
					}
					q(fmt.Sprintf("log %d", i), out)
				}
				t.Count("op=invalidate")
			case k < 19: // GetDeps
				f := nPlain + r.Intn(nFields-nPlain)
				d := ToStr(s.rec.GetDeps("f" + strconv.Itoa(f)))
				var fs []int
				for _, x := range strings.Split(d, ",") {
					if x != "" {
						g, _ := strconv.Atoi(x[1:])
						fs = append(fs, g)
					}
				}
				sort.Ints(fs)
				out := "-"
				if len(fs) > 0 {
					ss := make([]string, len(fs))
					for j, g := range fs {
						ss[j] = strconv.Itoa(g)
					}
					out = strings.Join(ss, ",")
				}
				q(fmt.Sprintf("deps %d %d", i, f), out)
				// every recorded dependency is a field the rule really reads
				if e, ok := sp.rules[f]; ok {
					m := map[int]bool{}
					e.refs(m)
					for _, g := range fs {
						if !m[g] {
							fail("deps-extra", fmt.Sprintf("GetDeps(f%d) lists f%d which the rule %s does not read", f, g, e.src()))
						}
					}
				}
				t.Count("op=getdeps")
			default:
				if s.log == nil {
					attach(i)
					t.Count("op=observer")
				}
			}
		}
		// final sweep: every rule field of every slot is current
		for i, s := range slots {
			if len(s.tainted) > 0 {
				continue
			}
			sp.plain = s.plain
			for f := nFields - 1; f >= 0; f-- {
				got := valText(s.rec.Get(th, fname(f)))
				q(fmt.Sprintf("get %d %d", i, f), got)
				exp, ok := sp.field(f)
				expText := "-"
				if ok {
					expText = strconv.Itoa(exp)
				}
				if got != expText {
					fail("rule-stale", fmt.Sprintf("final get f%d = %s, rule on current fields %v gives %s", f, got, s.plain, expText))
				}
			}
			if s.log != nil {
				*s.log = (*s.log)[:0]
			}
		}
		if assignRules {
			t.Count("history=assigns-rule-fields")
		} else {
			t.Count("history=plain-writes-only")
		}
		if h < 2 {
			t.Sample(strings.Join(hist, "; "))
		}
	}
}
