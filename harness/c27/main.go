// C27 correspondence suite: util/dnum New/FromInt/ToInt64/Add/Sub/Mul/Div/Neg/Compare/String/
// FromStr against the Lean mirror Gsu.Model.Dnum (digit for digit), plus the direct oracles of
// the property with exact rational arithmetic (math/big).
package main

import (
	"fmt"
	"math/big"
	"math/rand"
	"strings"

	"github.com/apmckinlay/gsuneido/util/dnum"
	"verif/harness/lib"
)

func enc(d dnum.Dnum) string { return fmt.Sprintf("%d,%d,%d", d.Sign(), d.Coef(), d.Exp()) }

func pow10(e int) *big.Rat {
	n := e
	if n < 0 {
		n = -n
	}
	p := new(big.Rat).SetInt(new(big.Int).Exp(big.NewInt(10), big.NewInt(int64(n)), nil))
	if e < 0 {
		p.Inv(p)
	}
	return p
}

// val is the exact value sign * coef * 10^(exp-16)
func val(d dnum.Dnum) *big.Rat {
	r := new(big.Rat).SetInt(new(big.Int).SetUint64(d.Coef()))
	r.Mul(r, pow10(d.Exp()-16))
	if d.Sign() < 0 {
		r.Neg(r)
	}
	return r
}

// ulp is one unit of the 16th significant digit of d
func ulp(d dnum.Dnum) *big.Rat { return pow10(d.Exp() - 16) }

var specialCoefs = []uint64{1, 9, 99, 9999999999999999, 1000000000000000, 5, 4999999999999999, 5000000000000000,
	9999999999999995, 9999999999999994, 1000000000000001, 3333333333333333, 6666666666666667, 1234567890123456}

func genCoef(r *rand.Rand) uint64 {
	if r.Intn(6) == 0 {
		return specialCoefs[r.Intn(len(specialCoefs))]
	}
	nd := 1 + r.Intn(16)
	var c uint64
	for i := 0; i < nd; i++ {
		c = c*10 + uint64(r.Intn(10))
	}
	if c == 0 {
		c = 1
	}
	return c
}

func genExp(r *rand.Rand) int {
	switch r.Intn(20) {
	case 0:
		return r.Intn(256) - 128
	case 1:
		return []int{-128, -127, 127, 126, -126, 0, 16, 17}[r.Intn(8)]
	}
	return r.Intn(41) - 20
}

func genDnum(r *rand.Rand) dnum.Dnum {
	switch r.Intn(40) {
	case 0:
		return dnum.Zero
	case 1:
		return dnum.PosInf
	case 2:
		return dnum.NegInf
	}
	return dnum.New(int8(1-2*r.Intn(2)), genCoef(r), genExp(r))
}

func genNumStr(r *rand.Rand) string {
	var sb strings.Builder
	if r.Intn(3) == 0 {
		sb.WriteByte("-+"[r.Intn(2)])
	}
	switch r.Intn(12) {
	case 0:
		sb.WriteString("inf")
		return sb.String()
	case 1: // malformed
		return sb.String() + []string{"", ".", "e5", "1e", "1e+", "1.2.3", "1x", "..", "-", "1e5x", "0x10", "in", "infx", " 1", "1\x00"}[r.Intn(15)]
	}
	digits := func(n int, zeros bool) {
		for i := 0; i < n; i++ {
			if zeros && r.Intn(2) == 0 {
				sb.WriteByte('0')
			} else {
				sb.WriteByte(byte('0' + r.Intn(10)))
			}
		}
	}
	ni := []int{0, 0, 1, 1, 2, 5, 16, 17, 20}[r.Intn(9)]
	digits(ni, r.Intn(3) == 0)
	nf := 0
	if r.Intn(2) == 0 {
		sb.WriteByte('.')
		nf = []int{0, 1, 2, 5, 16, 18}[r.Intn(6)]
		digits(nf, r.Intn(3) == 0)
	}
	if ni+nf == 0 && r.Intn(4) != 0 {
		sb.WriteByte(byte('0' + r.Intn(10)))
	}
	if r.Intn(3) == 0 {
		sb.WriteByte("eE"[r.Intn(2)])
		if r.Intn(2) == 0 {
			sb.WriteByte("-+"[r.Intn(2)])
		}
		sb.WriteString(fmt.Sprint([]int{0, 1, 5, 20, 126, 127, 128, 129, 144, 300}[r.Intn(10)]))
	}
	return sb.String()
}

func main() {
	t := lib.Open()
	defer t.Close()
	r := lib.Rand()
	n := lib.N(4000)
	half := big.NewRat(1, 2)
	for i := 0; i < n; i++ {
		// ---- New: rounding of coefficients of up to 20 digits, overflow, underflow
		{
			sign := int8(1 - 2*r.Intn(2))
			c := genCoef(r)
			switch r.Intn(4) {
			case 0:
				c = c*10 + uint64(r.Intn(10)) // 17 digits
			case 1:
				c = r.Uint64() % 18446744073709551600 // up to 20 digits
			case 2:
				c = []uint64{99999999999999995, 99999999999999994, 10000000000000000, 99999999999999999, 999999999999999949,
					999999999999999950, 18446744073709551610}[r.Intn(7)]
			}
			e := genExp(r)
			if r.Intn(10) == 0 {
				e = []int{127, 128, 126, -128, -129, 140, 124, 125}[r.Intn(8)]
			}
			d := dnum.New(sign, c, e)
			t.Q(fmt.Sprintf("new %d %d %d", sign, c, e), enc(d))
			t.Count("op:new")
			if !d.IsInf() && !d.IsZero() {
				exact := new(big.Rat).SetInt(new(big.Int).SetUint64(c))
				exact.Mul(exact, pow10(e-16))
				if sign < 0 {
					exact.Neg(exact)
				}
				err := new(big.Rat).Sub(val(d), exact)
				err.Abs(err)
				// half an ulp (+ 1/18 ulp for the repeated half-up rounding of 18-20 digit coefficients)
				bound := new(big.Rat).Mul(ulp(d), half)
				if c >= 100000000000000000 {
					bound.Mul(ulp(d), big.NewRat(5, 9))
				}
				if err.Cmp(bound) > 0 && d.Exp() > e+30 {
					// the normalising shift took exp below -128 and int8(exp) wrapped around
					t.Fail("underflow-wrap:new", fmt.Sprintf("New(%d, %d, %d) = %s instead of 0", sign, c, e, enc(d)))
				} else if err.Cmp(bound) > 0 {
					t.Fail("new-round", fmt.Sprintf("New(%d, %d, %d) = %s error %s ulp", sign, c, e, enc(d),
						new(big.Rat).Quo(err, ulp(d)).FloatString(4)))
				}
			} else {
				t.Count("new:" + map[bool]string{true: "inf", false: "zero"}[d.IsInf()])
			}
		}
		x, y := genDnum(r), genDnum(r)
		if r.Intn(5) == 0 { // close exponents: cancellation and carries
			y = dnum.New(int8(1-2*r.Intn(2)), genCoef(r), x.Exp()+r.Intn(5)-2)
		}
		if r.Intn(30) == 0 {
			y = x.Neg()
		}
		if r.Intn(25) == 0 { // near the underflow limit: cancellation / quotient below 1e-128
			x = dnum.New(1, 1000000000000000+uint64(r.Intn(3)), -127+r.Intn(3))
			y = dnum.New(1, 1000000000000000, x.Exp())
			if r.Intn(2) == 0 {
				x = dnum.New(1, genCoef(r), -99-r.Intn(3))
				y = dnum.New(1, 3000000000000000+uint64(r.Intn(1000)), 29)
			}
			t.Count("gen:near-underflow")
		}
		ex, ey := enc(x), enc(y)
		finite := !x.IsInf() && !y.IsInf()
		// ---- compare
		c := dnum.Compare(x, y)
		t.Q("cmp "+ex+" "+ey, fmt.Sprint(c))
		if finite && c != val(x).Cmp(val(y)) {
			t.Fail("compare-exact", fmt.Sprintf("Compare(%s, %s) = %d", ex, ey, c))
		}
		// ---- add / sub
		for _, op := range []string{"add", "sub"} {
			var z dnum.Dnum
			var exact *big.Rat
			if op == "add" {
				z, exact = dnum.Add(x, y), new(big.Rat).Add(val(x), val(y))
			} else {
				z, exact = dnum.Sub(x, y), new(big.Rat).Sub(val(x), val(y))
			}
			t.Q(op+" "+ex+" "+ey, enc(z))
			t.Count("op:" + op)
			if finite && z.IsZero() && exact.Sign() != 0 && new(big.Rat).Abs(exact).Cmp(pow10(-129)) < 0 {
				t.Count("underflow-to-zero:" + op) // allowed: below the smallest normalised magnitude
			} else if finite && !z.IsInf() {
				err := new(big.Rat).Sub(val(z), exact)
				err.Abs(err)
				// one unit of the 16th digit of max(|x|, |y|, |result|)
				u := new(big.Rat)
				for _, d := range []dnum.Dnum{x, y, z} {
					if !d.IsZero() && ulp(d).Cmp(u) > 0 {
						u = ulp(d)
					}
				}
				if err.Cmp(u) > 0 && z.Exp() > 100 && x.Exp() < -100 {
					t.Fail("underflow-wrap:"+op, fmt.Sprintf("%s(%s, %s) = %s instead of 0", op, ex, ey, enc(z)))
				} else if err.Cmp(u) > 0 {
					t.Fail(op+"-ulp", fmt.Sprintf("%s(%s, %s) = %s", op, ex, ey, enc(z)))
				}
			}
		}
		// ---- mul / div
		for _, op := range []string{"mul", "div"} {
			var z dnum.Dnum
			var exact *big.Rat
			if op == "mul" {
				z = dnum.Mul(x, y)
				exact = new(big.Rat).Mul(val(x), val(y))
			} else {
				z = dnum.Div(x, y)
				if !y.IsZero() && finite {
					exact = new(big.Rat).Quo(val(x), val(y))
				}
			}
			t.Q(op+" "+ex+" "+ey, enc(z))
			t.Count("op:" + op)
			if finite && exact != nil && !z.IsInf() && !z.IsZero() {
				err := new(big.Rat).Sub(val(z), exact)
				err.Abs(err)
				if err.Cmp(ulp(z)) > 0 && z.Exp() > 100 && new(big.Rat).Abs(exact).Cmp(pow10(-100)) < 0 {
					t.Fail("underflow-wrap:"+op, fmt.Sprintf("%s(%s, %s) = %s instead of 0", op, ex, ey, enc(z)))
				} else if err.Cmp(ulp(z)) > 0 {
					t.Fail(op+"-ulp", fmt.Sprintf("%s(%s, %s) = %s", op, ex, ey, enc(z)))
				}
			} else if finite && exact != nil && z.IsInf() {
				// overflow only when the exact result is out of range
				lim := pow10(127 - 1) // smallest magnitude with exp 127 is 0.1e127
				if new(big.Rat).Abs(exact).Cmp(lim) < 0 {
					t.Fail(op+"-overflow", fmt.Sprintf("%s(%s, %s) = inf", op, ex, ey))
				}
			}
		}
		// ---- String / FromStr round trip
		s := x.String()
		t.Q("str "+ex, s)
		t.Count("op:str")
		var back dnum.Dnum
		if msg := lib.Catch(func() { back = dnum.FromStr(s) }); msg != "" || !dnum.Equal(back, x) {
			sig := "string-roundtrip"
			if x.Exp() == -128 {
				sig = "string-roundtrip:exp-128" // finding 14
			}
			t.Fail(sig, fmt.Sprintf("FromStr(String(%s) = %q) = %s %s", ex, s, enc(back), msg))
		}
		// ---- FromStr on generated text (valid and malformed)
		{
			s := genNumStr(r)
			var d dnum.Dnum
			out := "!invalid"
			if msg := lib.Catch(func() { d = dnum.FromStr(s) }); msg == "" {
				out = enc(d)
			} else {
				t.Count("fromstr:invalid")
			}
			t.Q("fromstr "+lib.X(s), out)
			t.Count("op:fromstr")
		}
		// ---- FromInt / ToInt64
		{
			k := int64(r.Uint64()) >> uint(r.Intn(64))
			d := dnum.FromInt(k)
			t.Q(fmt.Sprintf("fromint %d", k), enc(d))
			out := "!no"
			if v, ok := x.ToInt64(); ok {
				out = fmt.Sprint(v)
				if finite && val(x).Cmp(new(big.Rat).SetInt64(v)) != 0 {
					t.Fail("toint64-value", fmt.Sprintf("ToInt64(%s) = %d", ex, v))
				}
			}
			t.Q("toint64 "+ex, out)
		}
		if i < 3 {
			t.Sample("x=" + ex + " y=" + ey)
		}
	}
}
