// C14 correspondence suite (external part): core.RecordBuilder/Record, stor.Writer/Reader and
// small offsets against the Lean models Gsu.Model.RecEnc / StorEnc, plus the direct oracles of
// the property on the implementation (what was written reads back identically).
package main

import (
	"fmt"
	"math/rand"
	"strings"

	"github.com/apmckinlay/gsuneido/core"
	"github.com/apmckinlay/gsuneido/db19/stor"
	"verif/harness/lib"
)

func cksum(s string) uint32 {
	h := uint64(7)
	for i := 0; i < len(s); i++ {
		h = (h*31 + uint64(s[i])) % 4294967296
	}
	return uint32(h)
}

func patField(i, sz int) string {
	b := make([]byte, sz)
	for p := range b {
		b[p] = byte(i + p)
	}
	return string(b)
}

func patFields(cnt, sz int) []string {
	fs := make([]string, cnt)
	for i := range fs {
		fs[i] = patField(i, sz)
	}
	return fs
}

// buildRec returns the record or an error class
func buildRec(fs []string) (rec core.Record, errc string) {
	msg := lib.Catch(func() {
		var b core.RecordBuilder
		for _, f := range fs {
			b.AddRaw(f)
		}
		rec = b.Build()
	})
	switch {
	case msg == "":
		return rec, ""
	case strings.Contains(msg, "too many values"):
		return "", "!toomany"
	case strings.Contains(msg, "record too large"):
		return "", "!toolarge"
	}
	return "", "!other:" + msg
}

func optInt(f func() int) string {
	var n int
	if msg := lib.Catch(func() { n = f() }); msg != "" {
		return "!panic"
	}
	return fmt.Sprint(n)
}

func getRaw(r core.Record, i int) (s string, out string) {
	if msg := lib.Catch(func() { s = r.GetRaw(i) }); msg != "" {
		return "", "!panic"
	}
	return s, lib.X(s)
}

func truncate(r core.Record, n int) (t core.Record, out string) {
	msg := lib.Catch(func() { t = r.Truncate(n) })
	switch {
	case msg == "":
		return t, lib.X(string(t))
	case strings.Contains(msg, "too many values"):
		return "", "!toomany"
	case strings.Contains(msg, "record too large"):
		return "", "!toolarge"
	}
	return "", "!panic"
}

var t *lib.Trace

// checkRec: the direct oracles on a built record
func checkRec(fs []string, rec core.Record, where string) {
	n := len(fs)
	if rec.Count() != n {
		t.Fail("record-count", fmt.Sprintf("%s: %d fields built, Count()=%d", where, n, rec.Count()))
	}
	if rec.Len() != len(rec) || core.RecLen([]byte(rec)) != len(rec) {
		t.Fail("record-len", fmt.Sprintf("%s: len=%d Len()=%d RecLen=%d", where, len(rec), rec.Len(), core.RecLen([]byte(rec))))
	}
	for i := 0; i < n; i++ {
		if got := rec.GetRaw(i); got != fs[i] {
			t.Fail("record-getraw", fmt.Sprintf("%s: field %d of %d (sizes %s): built len %d read len %d",
				where, i, n, sizes(fs), len(fs[i]), len(got)))
			break
		}
	}
	if rec.GetRaw(n) != "" || rec.GetRaw(-1) != "" {
		t.Fail("record-getraw-outside", where)
	}
}

func sizes(fs []string) string {
	var sb strings.Builder
	for i, f := range fs {
		if i > 8 {
			sb.WriteString("…")
			break
		}
		fmt.Fprintf(&sb, "%d,", len(f))
	}
	return sb.String()
}

// checkTrunc: Truncate(n) keeps exactly the leading n fields
func checkTrunc(fs []string, rec core.Record, n int, tr core.Record, where string) {
	for i := 0; i < len(fs)+1; i++ {
		want := ""
		if i < n && i < len(fs) {
			want = fs[i]
		}
		if got := tr.GetRaw(i); got != want {
			t.Fail("record-truncate", fmt.Sprintf("%s: Truncate(%d) of %d fields (sizes %s): field %d differs",
				where, n, len(fs), sizes(fs), i))
			return
		}
	}
	if tr.Count() > n && tr.Count() != len(fs) {
		t.Fail("record-truncate-count", fmt.Sprintf("%s: Truncate(%d) has %d fields", where, n, tr.Count()))
	}
	if n >= len(fs) && tr != rec {
		t.Fail("record-truncate-noop", where)
	}
}

var alphabet = []byte{0, 1, 2, 0xff, 'a', 0x80}

func randStr(r *rand.Rand, n int) string {
	b := make([]byte, n)
	for i := range b {
		if r.Intn(3) == 0 {
			b[i] = byte(r.Intn(256))
		} else {
			b[i] = alphabet[r.Intn(len(alphabet))]
		}
	}
	return string(b)
}

func fieldSize(r *rand.Rand) int {
	switch r.Intn(10) {
	case 0, 1, 2:
		return 0
	case 3, 4:
		return 1
	case 5, 6:
		return 2 + r.Intn(4)
	case 7, 8:
		return r.Intn(40)
	}
	return r.Intn(300)
}

func records(r *rand.Rand, n int) {
	// 1. random small/medium records, explicit bytes
	for c := 0; c < n; c++ {
		nf := r.Intn(9)
		if r.Intn(20) == 0 {
			nf = 9 + r.Intn(60)
		}
		fs := make([]string, nf)
		for i := range fs {
			fs[i] = randStr(r, fieldSize(r))
		}
		if r.Intn(4) == 0 { // trailing empties (Truncate trims them)
			for i := nf - 1; i >= 0 && r.Intn(3) != 0; i-- {
				fs[i] = ""
			}
		}
		rec, errc := buildRec(fs)
		if errc != "" {
			t.Q("build "+lib.Xs(fs), errc)
			continue
		}
		t.Q(strings.TrimSpace("build "+lib.Xs(fs)), lib.X(string(rec)))
		t.Count(fmt.Sprintf("rec.mode=%d", rec[0]>>6))
		t.Count(fmt.Sprintf("rec.nfields=%s", bucket(nf)))
		checkRec(fs, rec, "random")
		t.Q("count "+lib.X(string(rec)), optInt(rec.Count))
		t.Q("len "+lib.X(string(rec)), optInt(rec.Len))
		i := r.Intn(nf + 2)
		_, o := getRaw(rec, i)
		t.Q(fmt.Sprintf("getraw %s %d", lib.X(string(rec)), i), o)
		tn := r.Intn(nf + 2)
		tr, o := truncate(rec, tn)
		t.Q(fmt.Sprintf("trunc %s %d", lib.X(string(rec)), tn), o)
		if !strings.HasPrefix(o, "!") {
			checkTrunc(fs, rec, tn, tr, "random")
		}
		if c < 2 {
			t.Sample(fmt.Sprintf("fields=%q record=%q trunc(%d)=%q", fs, string(rec), tn, string(tr)))
		}
	}
	// 2. totals straddling the 8/16 and 16/32 bit boundaries (every total from boundary-4 to +4)
	for _, cnt := range []int{1, 2, 3, 7} {
		for _, w := range []int{1, 2} {
			boundary := 0x100
			if w == 2 {
				boundary = 0x10000
			}
			for d := -6; d <= 6; d++ {
				// total with width w = 2 + w*(1+cnt) + data
				data := boundary + d - 2 - w*(1+cnt)
				sz := data / cnt
				fs := patFields(cnt, sz)
				fs[cnt-1] += patField(99, data-sz*cnt) // last field takes the remainder
				rec, errc := buildRec(fs)
				if errc != "" {
					t.Fail("record-build-panic", fmt.Sprintf("boundary cnt=%d data=%d: %s", cnt, data, errc))
					continue
				}
				t.Count(fmt.Sprintf("rec.boundary.mode=%d", rec[0]>>6))
				checkRec(fs, rec, fmt.Sprintf("boundary %#x%+d cnt=%d", boundary, d, cnt))
				if w == 1 || (cnt == 3 && d%3 == 0) {
					t.Q("build "+lib.Xs(fs), lib.X(string(rec)))
					i := r.Intn(cnt)
					_, o := getRaw(rec, i)
					t.Q(fmt.Sprintf("getraw %s %d", lib.X(string(rec)), i), o)
				}
				tn := r.Intn(cnt)
				tr, o := truncate(rec, tn)
				if !strings.HasPrefix(o, "!") {
					checkTrunc(fs, rec, tn, tr, "boundary")
				}
			}
		}
	}
	// 3. uniform pattern records replayed by size only (large), including the limits
	type pn struct{ cnt, sz int }
	pats := []pn{{0, 0}, {1, 0}, {3, 100}, {1, 0xfa}, {1, 0xfb}, {1, 0xfc}, {2, 0x7b}, {2, 0x7c},
		{1, 0xfff9}, {1, 0xfffa}, {1, 0xfffb}, {2, 0x7ffb}, {2, 0x7ffc}, {3, 30000}, {40, 1638}, {40, 1639},
		{16383, 0}, {16384, 0}, {16383, 1}, {16383, 2}, {20000, 3},
		{1, 999990}, {1, 999991}, {4, 249995}, {4, 249996}, {1000, 995}, {1000, 1000}}
	for c := 0; c < n/100; c++ {
		pats = append(pats, pn{1 + r.Intn(50), r.Intn(3000)})
	}
	for _, p := range pats {
		fs := patFields(p.cnt, p.sz)
		rec, errc := buildRec(fs)
		if errc != "" {
			t.Q(fmt.Sprintf("buildn %d %d", p.cnt, p.sz), errc)
			t.Count("rec.pattern." + errc)
			// the guards must be exactly the documented limits
			tooMany := p.cnt > core.MaxValues
			if (errc == "!toomany") != tooMany {
				t.Fail("record-guard", fmt.Sprintf("cnt=%d sz=%d: %s", p.cnt, p.sz, errc))
			}
			continue
		}
		t.Count(fmt.Sprintf("rec.pattern.mode=%d", rec[0]>>6))
		t.Q(fmt.Sprintf("buildn %d %d", p.cnt, p.sz),
			fmt.Sprintf("%d %s %s %d", len(rec), optInt(rec.Count), optInt(rec.Len), cksum(string(rec))))
		checkRec(fs, rec, fmt.Sprintf("pattern %d x %d", p.cnt, p.sz))
		if p.cnt > 0 {
			i := r.Intn(p.cnt + 1)
			f, o := getRaw(rec, i)
			if o != "!panic" {
				o = fmt.Sprintf("%d %d", len(f), cksum(f))
			}
			t.Q(fmt.Sprintf("getn %d %d %d", p.cnt, p.sz, i), o)
			tn := r.Intn(min(p.cnt, 40) + 1) // the model's Truncate is quadratic: keep n small here
			tr, o := truncate(rec, tn)
			if !strings.HasPrefix(o, "!") {
				checkTrunc(fs, rec, tn, tr, "pattern")
				o = fmt.Sprintf("%d %s %d", len(tr), optInt(tr.Count), cksum(string(tr)))
			}
			t.Q(fmt.Sprintf("truncn %d %d %d", p.cnt, p.sz, tn), o)
		}
	}
	// 4. malformed stream: random bytes and damaged valid records; panics are outcomes
	for c := 0; c < n; c++ {
		var s string
		switch r.Intn(3) {
		case 0:
			s = randStr(r, r.Intn(12))
		default:
			nf := 1 + r.Intn(4)
			fs := make([]string, nf)
			for i := range fs {
				fs[i] = randStr(r, r.Intn(6))
			}
			rec, _ := buildRec(fs)
			b := []byte(rec)
			switch r.Intn(3) {
			case 0:
				b[r.Intn(len(b))] ^= byte(1 << uint(r.Intn(8)))
			case 1:
				b = b[:r.Intn(len(b))]
			case 2:
				b[r.Intn(len(b))] = byte(r.Intn(256))
			}
			s = string(b)
		}
		rec := core.Record(s)
		x := lib.X(s)
		o := optInt(rec.Count)
		t.Q("count "+x, o)
		t.Q("len "+x, optInt(rec.Len))
		i := r.Intn(5)
		_, o2 := getRaw(rec, i)
		t.Q(fmt.Sprintf("getraw %s %d", x, i), o2)
		tn := r.Intn(4)
		_, o3 := truncate(rec, tn)
		t.Q(fmt.Sprintf("trunc %s %d", x, tn), o3)
		if o2 == "!panic" || o3 == "!panic" || o == "!panic" {
			t.Count("rec.malformed.panic")
		} else {
			t.Count("rec.malformed.ok")
		}
	}
}

func bucket(n int) string {
	switch {
	case n == 0:
		return "0"
	case n <= 2:
		return "1-2"
	case n <= 8:
		return "3-8"
	}
	return "9+"
}

// ---------------------------------------------------------------- stor

func writerBytes(f func(w *stor.Writer)) (out string, errc string) {
	buf := make([]byte, 0, 1<<17+64)
	var n int
	msg := lib.Catch(func() {
		w := stor.NewWriter(buf)
		f(w)
		n = w.Len()
	})
	if msg != "" {
		if strings.Contains(msg, "value outside range") {
			return "", "!range"
		}
		return "", "!other:" + msg
	}
	if n > cap(buf) {
		panic("harness buffer too small")
	}
	return string(buf[:n]), ""
}

func put(k int, n int64) (string, string) {
	return writerBytes(func(w *stor.Writer) {
		switch k {
		case 1:
			w.Put1(int(n))
		case 2:
			w.Put2(int(n))
		case 3:
			w.Put3(int(n))
		case 4:
			w.Put4(int(n))
		case 5:
			w.Put5(n)
		}
	})
}

func get(k int, b string) (n int64, rest string, errc string) {
	msg := lib.Catch(func() {
		r := stor.NewReader([]byte(b))
		switch k {
		case 1:
			n = int64(r.Get1())
		case 2:
			n = int64(r.Get2())
		case 3:
			n = int64(r.Get3())
		case 4:
			n = int64(r.Get4())
		case 5:
			n = r.Get5()
		}
		rest = b[len(b)-r.Remaining():]
	})
	if msg != "" {
		return 0, "", "!short"
	}
	return n, rest, ""
}

func storSuite(r *rand.Rand, n int) {
	for k := 1; k <= 5; k++ {
		lim := int64(1) << uint(8*k)
		vals := []int64{0, 1, 0x7f, 0x80, 0xff, 0x100, lim - 1, lim, lim + 1, -1, -lim, lim / 2, lim/2 - 1, 1 << 62}
		for c := 0; c < n/10; c++ {
			switch r.Intn(6) {
			case 0:
				vals = append(vals, r.Int63())
			case 1:
				vals = append(vals, -r.Int63n(lim))
			default:
				vals = append(vals, r.Int63n(lim))
			}
		}
		for _, v := range vals {
			if k < 5 && (v > 1<<40 || v < -(1<<40)) {
				continue // Put1..4 take an int: same on 64 bit, keep the values moderate
			}
			b, errc := put(k, v)
			inRange := v >= 0 && v < lim
			if (errc == "") != inRange {
				t.Fail("stor-put-guard", fmt.Sprintf("Put%d(%d): %q", k, v, errc))
			}
			if errc != "" {
				t.Q(fmt.Sprintf("sput %d %d", k, v), errc)
				t.Count("stor.put." + errc)
				continue
			}
			t.Count(fmt.Sprintf("stor.put%d", k))
			t.Q(fmt.Sprintf("sput %d %d", k, v), lib.X(b))
			suffix := randStr(r, r.Intn(3))
			got, rest, e2 := get(k, b+suffix)
			if e2 != "" || got != v || rest != suffix || len(b) != k {
				t.Fail("stor-putget", fmt.Sprintf("Put%d(%d) wrote %x, Get%d read %d rest %q (%s)", k, v, b, k, got, rest, e2))
			}
			t.Q(fmt.Sprintf("sget %d %s", k, lib.X(b+suffix)), fmt.Sprintf("%d %s", got, lib.X(rest)))
		}
		for c := 0; c < n/20; c++ { // malformed: arbitrary, often short, buffers
			b := randStr(r, r.Intn(8))
			got, rest, e2 := get(k, b)
			if e2 != "" {
				t.Q(fmt.Sprintf("sget %d %s", k, lib.X(b)), e2)
				t.Count("stor.get.!short")
			} else {
				t.Q(fmt.Sprintf("sget %d %s", k, lib.X(b)), fmt.Sprintf("%d %s", got, lib.X(rest)))
			}
		}
	}
	// strings
	for c := 0; c < n/4; c++ {
		s := randStr(r, r.Intn(30))
		b, errc := writerBytes(func(w *stor.Writer) { w.PutStr(s) })
		if errc != "" {
			t.Fail("stor-putstr-panic", fmt.Sprintf("%q: %s", s, errc))
			continue
		}
		t.Q("sputstr "+lib.X(s), lib.X(b))
		if len(b) != stor.LenStr(s) {
			t.Fail("stor-lenstr", fmt.Sprintf("%q", s))
		}
		suffix := randStr(r, r.Intn(3))
		var got, rest string
		msg := lib.Catch(func() {
			rd := stor.NewReader([]byte(b + suffix))
			got = rd.GetStr()
			rest = (b + suffix)[len(b)+len(suffix)-rd.Remaining():]
		})
		if msg != "" || got != s || rest != suffix {
			t.Fail("stor-putget-str", fmt.Sprintf("PutStr(%q) → %x → GetStr %q rest %q %s", s, b, got, rest, msg))
		}
		t.Q("sgetstr "+lib.X(b+suffix), lib.X(got)+" "+lib.X(rest))
		// malformed
		m := randStr(r, r.Intn(6))
		var g2, r2 string
		msg = lib.Catch(func() {
			rd := stor.NewReader([]byte(m))
			g2 = rd.GetStr()
			r2 = m[len(m)-rd.Remaining():]
		})
		if msg != "" {
			t.Q("sgetstr "+lib.X(m), "!short")
		} else {
			t.Q("sgetstr "+lib.X(m), lib.X(g2)+" "+lib.X(r2))
		}
		t.Count("stor.str")
	}
	for _, sz := range []int{0, 1, 255, 256, 65534, 65535, 65536, 65537, 100000} {
		s := patField(0, sz)
		b, errc := writerBytes(func(w *stor.Writer) { w.PutStr(s) })
		if (errc == "") != (sz < 65536) {
			t.Fail("stor-putstr-guard", fmt.Sprintf("len %d: %q", sz, errc))
		}
		if errc != "" {
			t.Q(fmt.Sprintf("sputstrn %d", sz), errc)
			continue
		}
		t.Q(fmt.Sprintf("sputstrn %d", sz), fmt.Sprintf("%d %d", len(b), cksum(b)))
		if got := stor.NewReader([]byte(b)).GetStr(); got != s {
			t.Fail("stor-putget-str", fmt.Sprintf("len %d", sz))
		}
		t.Count("stor.str.big")
	}
	for c := 0; c < n/8; c++ {
		ss := make([]string, r.Intn(5))
		for i := range ss {
			ss[i] = randStr(r, r.Intn(6))
		}
		b, errc := writerBytes(func(w *stor.Writer) { w.PutStrs(ss) })
		if errc != "" {
			t.Fail("stor-putstrs-panic", errc)
			continue
		}
		t.Q(strings.TrimSpace("sputstrs "+lib.Xs(ss)), lib.X(b))
		if len(b) != stor.LenStrs(ss) {
			t.Fail("stor-lenstrs", fmt.Sprintf("%q", ss))
		}
		suffix := randStr(r, r.Intn(3))
		rd := stor.NewReader([]byte(b + suffix))
		got := rd.GetStrs()
		if !eqStrs(got, ss) || rd.Remaining() != len(suffix) {
			t.Fail("stor-putget-strs", fmt.Sprintf("%q → %x → %q", ss, b, got))
		}
		t.Q("sgetstrs "+lib.X(b+suffix), strings.TrimSpace(fmt.Sprintf("%d %s", len(got), lib.Xs(got)))+" "+lib.X(suffix))
		// malformed (count limited to one byte so a wrong count cannot allocate much)
		m := string([]byte{byte(r.Intn(4)), 0}) + randStr(r, r.Intn(8))
		var g2 []string
		var rem int
		msg := lib.Catch(func() {
			rd := stor.NewReader([]byte(m))
			g2 = rd.GetStrs()
			rem = rd.Remaining()
		})
		if msg != "" {
			t.Q("sgetstrs "+lib.X(m), "!short")
		} else {
			t.Q("sgetstrs "+lib.X(m), strings.TrimSpace(fmt.Sprintf("%d %s", len(g2), lib.Xs(g2)))+" "+lib.X(m[len(m)-rem:]))
		}
		t.Count("stor.strs")
	}
	// small offsets
	offs := []uint64{0, 1, 0xff, 0x100, 1<<32 - 1, 1 << 32, stor.MaxSmallOffset - 1, stor.MaxSmallOffset,
		stor.MaxSmallOffset + 1, 1<<63 + 5, 1<<64 - 1}
	for c := 0; c < n/4; c++ {
		if r.Intn(8) == 0 {
			offs = append(offs, r.Uint64())
		} else {
			offs = append(offs, r.Uint64()>>uint(24+r.Intn(40)))
		}
	}
	for _, off := range offs {
		buf := make([]byte, stor.SmallOffsetLen)
		stor.WriteSmallOffset(buf, off)
		t.Q(fmt.Sprintf("smallw %d", off), lib.X(string(buf)))
		ap := stor.AppendSmallOffset([]byte{9}, off)
		if string(ap[1:]) != string(buf) || ap[0] != 9 {
			t.Fail("smalloffset-append", fmt.Sprintf("%d", off))
		}
		got := stor.ReadSmallOffset(buf)
		t.Q("smallr "+lib.X(string(buf)), fmt.Sprint(got))
		if off <= stor.MaxSmallOffset {
			t.Count("stor.smalloffset.inrange")
			if got != off {
				t.Fail("smalloffset-roundtrip", fmt.Sprintf("Write(%d) → %x → Read %d", off, buf, got))
			}
		} else {
			t.Count("stor.smalloffset.truncated")
		}
	}
	for c := 0; c < n/20; c++ {
		m := randStr(r, r.Intn(8))
		var got uint64
		if msg := lib.Catch(func() { got = stor.ReadSmallOffset([]byte(m)) }); msg != "" {
			t.Q("smallr "+lib.X(m), "!short")
		} else {
			t.Q("smallr "+lib.X(m), fmt.Sprint(got))
		}
	}
}

func eqStrs(a, b []string) bool {
	if len(a) != len(b) {
		return false
	}
	for i := range a {
		if a[i] != b[i] {
			return false
		}
	}
	return true
}

func main() {
	t = lib.Open()
	defer t.Close()
	r := lib.Rand()
	n := lib.N(2000)
	records(r, n)
	storSuite(r, n)
}
