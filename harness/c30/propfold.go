package main

// PropFold part of the C30 suite: statement programs with locals that are assigned constants
// once (final: the assignment is removed and the constant propagated), twice, or also modified
// by a loop header, a catch clause, ++ or +=, and then read inside and after loops / branches /
// regex matches. Metamorphic oracle: the same program with every assigned constant passed as an
// argument (`a = p3`: nothing is final, nothing is propagated) must give the same result.

import (
	"fmt"
	"math/rand"
	"os"
	"strings"

	"github.com/apmckinlay/gsuneido/core"
	"verif/harness/lib"
)

type pfGen struct {
	r      *rand.Rand
	consts []string // constants that become parameters in program B
	inited map[string]bool
	isStr  map[string]bool // name may hold a non-number
	isOb   map[string]bool // name may hold an object / record
	a, b   strings.Builder // program A (constants inline) / B (constants as parameters)
	busy   map[string]bool // loop-control variables of the loop being generated: never assigned in its body
}

var pfPool = []string{"a", "b", "c", "d"}

func (g *pfGen) emit(sa, sb string) {
	g.a.WriteString(sa)
	g.b.WriteString(sb)
}

func (g *pfGen) both(s string) { g.emit(s, s) }

// assign emits `name = <constant>`
func (g *pfGen) assign(name, c string) {
	g.consts = append(g.consts, c)
	g.emit(fmt.Sprintf("%s = %s\n", name, c), fmt.Sprintf("%s = p%d\n", name, len(g.consts)-1))
	g.inited[name] = true
	if strings.HasPrefix(c, "'") || c == "true" || c == "false" {
		g.isStr[name] = true
	}
	if strings.HasPrefix(c, "#") {
		g.isStr[name] = true
		g.isOb[name] = true
	}
}

// container constants: an object and a record with the same contents are Equal but not the same
// kind (a missing member of a record reads as "", of an object it throws)
var pfContainers = []string{"#()", "#{}", "#(a: 1)", "#{a: 1}", "#(1)", "#{x: 'y'}", "#(x: 'y')"}

func (g *pfGen) intConst() string { return []string{"0", "1", "2", "5", "10", "100"}[g.r.Intn(6)] }

func (g *pfGen) anyInited() string {
	var ns []string
	for _, n := range []string{"a", "b", "c", "d", "i", "k", "v", "pat"} {
		if g.inited[n] {
			ns = append(ns, n)
		}
	}
	if len(ns) == 0 {
		return "0"
	}
	return ns[g.r.Intn(len(ns))]
}

// obs appends an observation of some locals to the trace string t
func (g *pfGen) obs() {
	x, y := g.anyInited(), g.anyInited()
	var e string
	switch g.r.Intn(6) {
	case 0:
		if !g.isStr[x] {
			e = "(" + x + " + 1)"
			break
		}
		fallthrough
	case 1:
		e = "(" + x + " is " + y + ")"
	case 2:
		e = "(" + x + " in (1, " + y + ", 10))"
	case 3:
		e = "(" + x + " $ " + y + ")"
	default:
		e = x
	}
	if g.isOb[x] || g.isOb[y] {
		// containers cannot be concatenated: observe their kind through a missing member
		ob := x
		if !g.isOb[ob] {
			ob = y
		}
		g.both("try\nt = t $ '|' $ " + ob + ".zz $ (" + x + " is " + y + ")\ncatch (err)\nt = t $ '|!'\n")
		return
	}
	g.both("t = t $ '|' $ " + e + "\n")
}

func (g *pfGen) loopVar() string {
	n := []string{"a", "b", "c", "d", "i", "k", "v"}[g.r.Intn(7)]
	return n
}

func (g *pfGen) body(open bool) {
	if open {
		g.both("{\n")
	}
	for i, n := 0, 1+g.r.Intn(2); i < n; i++ {
		g.obs()
	}
	if x := pfPool[g.r.Intn(4)]; g.r.Intn(5) == 0 && !g.busy[x] {
		g.assign(x, g.intConst())
	}
	if open {
		g.both("}\n")
	}
}

func (g *pfGen) control(t *lib.Trace) {
	switch k := g.r.Intn(13); k {
	case 0:
		v := g.loopVar()
		t.Count("pf:for-classic")
		g.both(fmt.Sprintf("for (%s = 0; %s < 3; ++%s)\n", v, v, v))
		g.inited[v] = true
		g.busy = map[string]bool{v: true}
		g.body(true)
		g.busy = nil
	case 1:
		v := g.loopVar()
		t.Count("pf:for-in")
		g.both(fmt.Sprintf("for %s in #(10, 20, 30)\n", v))
		g.inited[v] = true
		g.body(true)
	case 2, 3:
		k1, v1 := g.loopVar(), g.loopVar()
		if k1 == v1 {
			v1 = "v"
			if k1 == "v" {
				k1 = "k"
			}
		}
		t.Count("pf:for-in-two-variables")
		ob := []string{"#(10, 20, 30)", "#(7)", "#(m: 4)"}[g.r.Intn(3)]
		g.both(fmt.Sprintf("for %s, %s in %s\n", k1, v1, ob))
		g.inited[k1], g.inited[v1] = true, true
		g.isStr[k1] = true
		g.body(true)
	case 4:
		t.Count("pf:while")
		g.both("j = 0\nwhile j < 2\n{\nj = j + 1\n")
		g.body(false)
		g.both("}\n")
	case 5:
		t.Count("pf:do-while")
		g.both("j = 0\ndo\n{\nj++\n")
		g.body(false)
		g.both("} while j < 2\n")
	case 6:
		t.Count("pf:forever-break")
		g.both("j = 0\nforever\n{\nif ++j > 2\nbreak\n")
		g.body(false)
		g.both("}\n")
	case 7:
		t.Count("pf:if-else")
		x := g.anyInited()
		g.both("if " + x + " is 1\n")
		g.body(true)
		g.both("else\n")
		g.body(true)
	case 8:
		t.Count("pf:try-catch")
		e := []string{"a", "b", "e"}[g.r.Intn(3)]
		g.both("try\n{\nthrow 'boom'\n}\ncatch (" + e + ")\n")
		g.inited[e] = true
		g.isStr[e] = true
		g.body(true)
	case 11:
		t.Count("pf:switch")
		x := g.anyInited()
		if g.isOb[x] {
			x = "j"
			g.both("j = 1\n")
		}
		g.both("switch " + x + "\n{\n")
		var caseOnly []string
		for _, c := range []string{"0", "1", "5"} {
			g.both("case " + c + ":\n")
			if g.r.Intn(3) == 0 {
				// a local that gets its only (constant) value inside one case and is read in
				// the following ones (not after the switch: that is rejected statically)
				for _, n := range []string{"a", "b", "c", "d", "i", "k", "v"} {
					if !g.inited[n] {
						g.assign(n, g.intConst())
						caseOnly = append(caseOnly, n)
						break
					}
				}
			}
			g.body(false)
		}
		g.both("default:\n")
		g.body(false)
		g.both("}\n")
		for _, n := range caseOnly {
			g.inited[n] = false
		}
	case 9:
		t.Count("pf:modify")
		x := pfPool[g.r.Intn(4)]
		if g.inited[x] && !g.isStr[x] {
			g.both([]string{"++" + x, x + " += 2", x + "--", x + " *= 3"}[g.r.Intn(4)] + "\n")
		}
	default:
		t.Count("pf:regex-with-local-pattern")
		if !g.inited["pat"] {
			g.assign("pat", []string{"'ab'", "'^x'", "'a.y'", "'q'"}[g.r.Intn(4)])
		}
		g.both("if s " + []string{"=~", "!~"}[g.r.Intn(2)] + " pat\n")
		g.body(true)
		g.both("t = t $ '/' $ pat\n")
	}
}

func pfErrClass(msg string) string {
	if strings.Contains(msg, "possibly uninitialized") {
		return "static-uninitialized"
	}
	if strings.Contains(msg, "uninitialized variable") {
		return "uninitialized"
	}
	return errClass(msg)
}

func propfoldCase(t *lib.Trace, r *rand.Rand) {
	g := &pfGen{r: r, inited: map[string]bool{}, isStr: map[string]bool{}, isOb: map[string]bool{}}
	for _, n := range pfPool {
		if r.Intn(5) != 0 {
			c := g.intConst()
			if r.Intn(6) == 0 {
				c = []string{"'x'", "'ab'", "true"}[r.Intn(3)]
			} else if r.Intn(6) == 0 {
				c = pfContainers[r.Intn(len(pfContainers))]
			}
			g.assign(n, c)
		}
	}
	if r.Intn(3) == 0 {
		g.assign([]string{"i", "k", "v"}[r.Intn(3)], g.intConst())
	}
	g.both("t = ''\n")
	g.obs()
	for i, n := 0, 1+r.Intn(3); i < n; i++ {
		g.control(t)
		if r.Intn(3) == 0 {
			g.obs()
		}
		if r.Intn(5) == 0 { // a second assignment: the local is not final
			g.assign(pfPool[r.Intn(4)], g.intConst())
		}
	}
	ret := "return t"
	for _, n := range []string{"a", "b", "c", "d", "i", "k", "v", "pat"} {
		if g.inited[n] && !g.isOb[n] {
			ret += " $ ',' $ " + n
		}
	}
	g.both(ret + "\n")
	params := []string{"s"}
	args := []core.Value{core.SuStr("xaby")}
	for i, c := range g.consts {
		params = append(params, fmt.Sprintf("p%d", i))
		args = append(args, constant(c))
	}
	if len(args) > 30 {
		t.Count("pf:skipped-too-many-constants")
		return
	}
	hdr := "function(" + strings.Join(params, ",") + ") {\n"
	progA := hdr + g.a.String() + "}"
	progB := hdr + g.b.String() + "}"
	a, b := runProg(progA, args), runProg(progB, args)
	t.Count("pf:programs")
	if os.Getenv("VERIF_DEBUG_PF") != "" && strings.Contains(progA, "switch") {
		fmt.Fprintf(os.Stderr, "%s\n  A=%s\n  B=%s\n", strings.ReplaceAll(progA, "\n", "; "), a, b)
	}
	if b.phase == "compile" {
		t.Fail("generator-invalid-program", strings.ReplaceAll(progB, "\n", "; ")+" : "+b.err)
		return
	}
	if a.err != "" && pfErrClass(a.err) == "static-uninitialized" {
		// PropFold's static check on final locals; run time would say "uninitialized variable"
		// or not reach the read at all
		t.Count("pf:by-design:possibly-uninitialized")
		return
	}
	one := func(s string) string { return strings.ReplaceAll(s, "\n", "; ") }
	switch diffKind(a, b) {
	case "value/value":
		t.Fail("propfold-value-differs", fmt.Sprintf("%s => %s ; with the constants passed as arguments => %s", one(progA), a, b))
	case "throw/value":
		t.Fail("propfold-throws-vs-value:"+pfErrClass(a.err), fmt.Sprintf("%s => %s ; with the constants passed as arguments => %s", one(progA), a, b))
	case "value/throw":
		t.Fail("propfold-value-vs-throws:"+pfErrClass(b.err), fmt.Sprintf("%s => %s ; with the constants passed as arguments => %s", one(progA), a, b))
	default:
		if a.err != "" {
			t.Count("pf:both-throw")
		} else {
			t.Count("pf:same-value")
		}
	}
}
