// C30 correspondence + metamorphic suite: constant folding preserves program meaning.
//
// For every generated expression e two programs are compiled and run on a fresh Thread:
//
//	A  function(p…){ e }   a random subset of the constant leaves stays inline (the folder sees them),
//	                       the rest are parameters
//	B  function(p…){ e }   every constant leaf is a parameter (nothing to fold: run-time semantics)
//
// Direct oracle (F lines): result of A == result of B, or both throw. The differences are
// classified into stable signatures (see classify).
// Model replay (Q lines, boolean/integer/string fragment only):
//
//	fold <A's tree>          the real folded AST (compile.NewParser(src).Function()) vs Gsu.LangFold.foldE
//	evf <env> <A's tree>     outcome of A vs eval (foldE e)
//	ev  <env> <B's tree>     outcome of B vs eval e
//	dadd a b                 dnum.Add on one-fractional-digit numbers vs Gsu.LangFold.dec16add
package main

import (
	"encoding/hex"
	"fmt"
	"math"
	"math/rand"
	"strconv"
	"strings"

	"github.com/apmckinlay/gsuneido/compile"
	"github.com/apmckinlay/gsuneido/compile/ast"
	tok "github.com/apmckinlay/gsuneido/compile/tokens"
	"github.com/apmckinlay/gsuneido/core"
	"github.com/apmckinlay/gsuneido/util/dnum"
	"verif/harness/lib"
)

type kind int

const (
	kLeaf kind = iota
	kUnary
	kBinary
	kTri
	kIn
	kNary
	kParen
)

// E is the generator's AST; it is exactly the tree the parser builds for src(E)
// (every compound operand is wrapped in an explicit paren node).
type E struct {
	k    kind
	op   string // source operator
	lop  string // model operator name
	kids []*E
	text string // leaf: constant source text
	leaf int    // leaf index
}

type cval struct {
	text string // Suneido source
	num  bool   // Number literal
}

var fragConsts = []cval{
	{"0", true}, {"0", true}, {"1", true}, {"1", true}, {"2", true}, {"3", true}, {"5", true},
	{"7", true}, {"10", true}, {"12", true}, {"100", true}, {"255", true}, {"-1", true},
	{"-2", true}, {"-7", true}, {"4294967295", true}, {"4294967296", true},
	{"true", false}, {"true", false}, {"false", false}, {"false", false},
	{"''", false}, {"'a'", false}, {"'b'", false}, {"'ab'", false}, {"'10'", false},
}

var wideConsts = []cval{
	{"0", true}, {"1", true}, {"2", true}, {"-1", true}, {"3", true}, {"10", true},
	{"100000", true}, {"1e5", true}, {".5", true}, {".5", true}, {"1.5", true}, {"-2.25", true},
	{".1", true}, {"3", true}, {"7", true}, {"4294967296", true}, {"9223372036854775807", true},
	{"1e15", true}, {"1000000000000000", true}, {"''", false}, {"'a'", false}, {"'b'", false},
	{"'10'", false}, {"true", false}, {"false", false}, {"#20200101", false}, {"#(1)", false},
	{"1e200", true}, {"1e-200", true}, {"0xff", true}, {"0xffffffff", true}, {"1e16", true},
	{"9999999999999999", true},
}

// pairs of constants that are Equal at run time without being the same representation
var equalPairs = [][2]cval{
	{{"1000", true}, {"1e3", true}}, {{"1", true}, {"1.0", true}}, {{"100000", true}, {"1e5", true}},
	{{"#(1)", false}, {"#(1)", false}}, {{"1000000000000000", true}, {"1e15", true}},
	{{"'a'", false}, {"'a'", false}}, {{"#20200101", false}, {"#20200101", false}},
	{{".5", true}, {"0.50", true}}, {{"#(a: 1)", false}, {"#(a: 1)", false}},
}

type opinfo struct{ src, lean string }

var fragBin = []opinfo{{"is", "is"}, {"isnt", "isnt"}, {"<", "lt"}, {"<=", "lte"}, {">", "gt"},
	{">=", "gte"}, {"%", "mod"}}
var wideBin = []opinfo{{"is", "is"}, {"isnt", "isnt"}, {"<", "lt"}, {"<=", "lte"}, {">", "gt"},
	{">=", "gte"}, {"%", "mod"}, {"<<", ""}, {">>", ""}, {"=~", ""}, {"!~", ""}}
var naryOps = []opinfo{{"+", "add"}, {"+", "add"}, {"*", "mul"}, {"|", "bitor"}, {"&", "bitand"},
	{"^", "bitxor"}, {"or", "or"}, {"and", "and"}, {"$", "cat"}}
var unOps = []opinfo{{"+", "plus"}, {"-", "minus"}, {"not", "not"}, {"~", "bitnot"}}

type gen struct {
	r      *rand.Rand
	wide   bool
	leaves []cval
	hasDiv bool // a frag expression with a division: only its folded AST is replayed
	noInline []int // leaves that must be passed as arguments in program A too
}

// types the generator aims at (mostly well-typed programs, some deliberately ill-typed)
const (
	wAny = iota
	wNum
	wBool
	wStr
)

func ctype(c cval) int {
	switch {
	case c.num:
		return wNum
	case c.text == "true" || c.text == "false":
		return wBool
	case strings.HasPrefix(c.text, "'"):
		return wStr
	}
	return wAny
}

func (g *gen) leafOf(want int) *E {
	cs := fragConsts
	if g.wide {
		cs = wideConsts
	}
	c := cs[g.r.Intn(len(cs))]
	if want != wAny && g.r.Intn(8) != 0 {
		for k := 0; k < 20 && ctype(c) != want; k++ {
			c = cs[g.r.Intn(len(cs))]
		}
	}
	g.leaves = append(g.leaves, c)
	return &E{k: kLeaf, text: c.text, leaf: len(g.leaves) - 1}
}

func (g *gen) leaf() *E { return g.leafOf(wAny) }

func (g *gen) leafText(c cval) *E {
	g.leaves = append(g.leaves, c)
	return &E{k: kLeaf, text: c.text, leaf: len(g.leaves) - 1}
}

// equalPattern: `x in (…, y, …)`, `x is y`, `x isnt y`, `x <= y` … with x and y Equal constants of
// different representation (integer vs decimal literal, separately built objects)
func (g *gen) equalPattern() *E {
	p := equalPairs[g.r.Intn(len(equalPairs))]
	if g.r.Intn(2) == 0 {
		p[0], p[1] = p[1], p[0]
	}
	x := g.leafText(p[0])
	if g.r.Intn(3) == 0 {
		ops := []string{"is", "isnt", "<=", ">=", "<", ">"}
		return &E{k: kBinary, op: ops[g.r.Intn(len(ops))], kids: []*E{x, g.leafText(p[1])}}
	}
	n := 1 + g.r.Intn(3)
	pos := g.r.Intn(n + 1)
	kids := []*E{x}
	for i := 0; i <= n; i++ {
		if i == pos {
			kids = append(kids, g.leafText(p[1]))
		} else {
			kids = append(kids, g.leafOf(wNum))
		}
	}
	return &E{k: kIn, kids: kids}
}

// operand returns a sub-expression usable as an operand: leaves bare, compounds parenthesised
func (g *gen) operand(depth, want int) *E {
	e := g.expr(depth, want)
	if e.k == kLeaf || e.k == kParen {
		return e
	}
	return &E{k: kParen, kids: []*E{e}}
}

func (g *gen) nary(depth int, o opinfo, kidw int) *E {
	n := 2 + g.r.Intn(3)
	if g.r.Intn(8) == 0 {
		n++
	}
	e := &E{k: kNary, op: o.src, lop: o.lean}
	for i := 0; i < n; i++ {
		d := depth - 1
		if g.r.Intn(2) == 0 {
			d = 0
		}
		k := g.operand(d, kidw)
		if i > 0 && g.r.Intn(4) == 0 {
			if o.lean == "add" {
				// a - b is the operand Unary(Sub, b) of the Add list
				k = &E{k: kUnary, op: "-", lop: "minus", kids: []*E{k}}
			} else if o.lean == "mul" && (g.wide || g.r.Intn(2) == 0) {
				// reciprocal operand: a / b is the operand Unary(Div, b) of the Mul list
				if !g.wide {
					// replayed fragment: the divisor is a leaf, and it stays a literal only when it
					// is 1 or -1 (compile-time division must be exact for the integer model)
					k = g.leafOf(wNum)
					if k.text != "1" && k.text != "-1" {
						g.noInline = append(g.noInline, k.leaf)
					}
				}
				k = &E{k: kUnary, op: "/", lop: "div", kids: []*E{k}}
				g.hasDiv = true
			}
		}
		e.kids = append(e.kids, k)
	}
	return e
}

func (g *gen) expr(depth, want int) *E {
	if depth <= 0 || g.r.Intn(5) == 0 {
		return g.leafOf(want)
	}
	if want == wAny || g.r.Intn(7) == 0 {
		want = 1 + g.r.Intn(3)
	}
	d := depth - 1
	bin := func(ops []opinfo, w int) *E {
		b := ops[g.r.Intn(len(ops))]
		return &E{k: kBinary, op: b.src, lop: b.lean, kids: []*E{g.operand(d, w), g.operand(d, w)}}
	}
	if g.r.Intn(9) == 0 {
		return &E{k: kTri, kids: []*E{g.operand(d, wBool), g.operand(d, want), g.operand(d, want)}}
	}
	switch want {
	case wNum:
		switch g.r.Intn(8) {
		case 0:
			u := []opinfo{{"+", "plus"}, {"-", "minus"}, {"~", "bitnot"}}[g.r.Intn(3)]
			return &E{k: kUnary, op: u.src, lop: u.lean, kids: []*E{g.operand(d, wNum)}}
		case 1:
			if g.wide {
				return bin([]opinfo{{"%", "mod"}, {"<<", ""}, {">>", ""}}, wNum)
			}
			return bin([]opinfo{{"%", "mod"}}, wNum)
		default:
			return g.nary(depth, naryOps[g.r.Intn(6)], wNum)
		}
	case wBool:
		switch g.r.Intn(8) {
		case 0:
			return &E{k: kUnary, op: "not", lop: "not", kids: []*E{g.operand(d, wBool)}}
		case 1, 2, 3:
			w := 1 + g.r.Intn(3)
			if g.wide && g.r.Intn(8) == 0 {
				return bin([]opinfo{{"=~", ""}, {"!~", ""}}, wStr)
			}
			return bin(fragBin[:6], w)
		case 4:
			w := 1 + g.r.Intn(3)
			kids := []*E{g.operand(d, w)}
			for i, n := 0, 1+g.r.Intn(3); i < n; i++ {
				kids = append(kids, g.operand(0, w))
			}
			return &E{k: kIn, kids: kids}
		default:
			return g.nary(depth, naryOps[6+g.r.Intn(2)], wBool)
		}
	default:
		if g.r.Intn(2) == 0 {
			return g.leafOf(wStr)
		}
		return g.nary(depth, naryOps[8], wAny)
	}
}

// rangePattern builds `x > c and x < d` / `x is c or x is d or x is e` with bare comparisons,
// so that foldRanges / foldOrToIn fire (wide profile, direct oracle only)
func (g *gen) rangePattern() *E {
	x := g.leaf()
	mk := func(op string) *E {
		xx := &E{k: kLeaf, text: x.text, leaf: x.leaf}
		return &E{k: kBinary, op: op, kids: []*E{xx, g.leaf()}}
	}
	if g.r.Intn(2) == 0 {
		lo := []string{">", ">="}[g.r.Intn(2)]
		hi := []string{"<", "<="}[g.r.Intn(2)]
		e := &E{k: kNary, op: "and", kids: []*E{mk(lo), mk(hi)}}
		if g.r.Intn(3) == 0 {
			e.kids = append(e.kids, g.operand(1, wBool))
		}
		return e
	}
	e := &E{k: kNary, op: "or", kids: []*E{mk("is"), mk("is")}}
	if g.r.Intn(2) == 0 {
		e.kids = append(e.kids, mk("is"))
	}
	if g.r.Intn(3) == 0 {
		e.kids = append(e.kids, g.operand(1, wBool))
	}
	return e
}

// notFree makes src render `not e` as `(e) is false`: same meaning for boolean e, but out of
// reach of the folder's `not (a < b)` => `a >= b` rewrite (which fires without any constant)
var notFree bool

// src renders the program text; inline[i] says whether leaf i stays a literal
func src(e *E, inline []bool, sb *strings.Builder) {
	switch e.k {
	case kLeaf:
		if inline[e.leaf] {
			if strings.HasPrefix(e.text, "-") {
				sb.WriteString("(" + e.text + ")")
			} else {
				sb.WriteString(e.text)
			}
		} else {
			fmt.Fprintf(sb, "p%d", e.leaf)
		}
	case kParen:
		sb.WriteString("(")
		src(e.kids[0], inline, sb)
		sb.WriteString(")")
	case kUnary:
		if notFree && e.op == "not" {
			sb.WriteString("(")
			src(e.kids[0], inline, sb)
			sb.WriteString(") is false")
			return
		}
		sb.WriteString(e.op + " ")
		src(e.kids[0], inline, sb)
	case kBinary:
		src(e.kids[0], inline, sb)
		sb.WriteString(" " + e.op + " ")
		src(e.kids[1], inline, sb)
	case kTri:
		src(e.kids[0], inline, sb)
		sb.WriteString(" ? ")
		src(e.kids[1], inline, sb)
		sb.WriteString(" : ")
		src(e.kids[2], inline, sb)
	case kIn:
		src(e.kids[0], inline, sb)
		sb.WriteString(" in (")
		for i, k := range e.kids[1:] {
			if i > 0 {
				sb.WriteString(", ")
			}
			src(k, inline, sb)
		}
		sb.WriteString(")")
	case kNary:
		for i, k := range e.kids {
			if i > 0 && k.k == kUnary && (k.op == "-" && e.op == "+" || k.op == "/" && e.op == "*") {
				sb.WriteString(" " + k.op + " ")
				src(k.kids[0], inline, sb)
				continue
			}
			if i > 0 {
				sb.WriteString(" " + e.op + " ")
			}
			src(k, inline, sb)
		}
	}
}

func leanConst(text string) string {
	switch {
	case text == "true":
		return "t"
	case text == "false":
		return "f"
	case strings.HasPrefix(text, "'"):
		return "s" + hex.EncodeToString([]byte(strings.Trim(text, "'")))
	}
	return "i" + text
}

// lean renders the tree for the model
func lean(e *E, inline []bool, sb *strings.Builder) {
	switch e.k {
	case kLeaf:
		if inline[e.leaf] {
			if strings.HasPrefix(e.text, "-") {
				sb.WriteString("( u paren " + leanConst(e.text) + " )")
			} else {
				sb.WriteString(leanConst(e.text))
			}
		} else {
			fmt.Fprintf(sb, "v%d", e.leaf)
		}
	case kParen:
		sb.WriteString("( u paren ")
		lean(e.kids[0], inline, sb)
		sb.WriteString(" )")
	case kUnary:
		sb.WriteString("( u " + e.lop + " ")
		lean(e.kids[0], inline, sb)
		sb.WriteString(" )")
	case kBinary:
		sb.WriteString("( b " + e.lop + " ")
		lean(e.kids[0], inline, sb)
		sb.WriteString(" ")
		lean(e.kids[1], inline, sb)
		sb.WriteString(" )")
	case kTri:
		sb.WriteString("( q")
		for _, k := range e.kids {
			sb.WriteString(" ")
			lean(k, inline, sb)
		}
		sb.WriteString(" )")
	case kIn:
		sb.WriteString("( in")
		for _, k := range e.kids {
			sb.WriteString(" ")
			lean(k, inline, sb)
		}
		sb.WriteString(" )")
	case kNary:
		sb.WriteString("( n " + e.lop)
		for _, k := range e.kids {
			sb.WriteString(" ")
			lean(k, inline, sb)
		}
		sb.WriteString(" )")
	}
}

// directLiteral: a math operator has an inline non-number literal as a direct operand.
// The folder's "cannot do math on … literal" is then a deliberate static check.
func directLiteral(e *E, inline []bool, leaves []cval) bool {
	math := false
	switch e.k {
	case kUnary:
		math = e.op == "+" || e.op == "-" || e.op == "~" || e.op == "/"
	case kBinary:
		math = e.op == "%" || e.op == "<<" || e.op == ">>"
	case kNary:
		math = e.op == "+" || e.op == "*" || e.op == "|" || e.op == "&" || e.op == "^"
	}
	for _, k := range e.kids {
		if math && k.k == kLeaf && inline[k.leaf] && !leaves[k.leaf].num {
			return true
		}
		if directLiteral(k, inline, leaves) {
			return true
		}
	}
	return false
}

// mag bounds |value| of any intermediate result (frag profile) so the exact-integer model applies
func mag(e *E, leaves []cval) float64 {
	switch e.k {
	case kLeaf:
		if leaves[e.leaf].num {
			f, _ := strconv.ParseFloat(leaves[e.leaf].text, 64)
			return math.Abs(f)
		}
		return 0
	case kParen:
		return mag(e.kids[0], leaves)
	case kUnary:
		return mag(e.kids[0], leaves) + 1
	case kNary:
		if e.lop == "mul" {
			p := 1.0
			for _, k := range e.kids {
				p *= math.Max(1, mag(k, leaves))
			}
			return p
		}
		if e.lop == "add" {
			s := 0.0
			for _, k := range e.kids {
				s += mag(k, leaves)
			}
			return s
		}
		fallthrough
	default:
		m := 0.0
		for _, k := range e.kids {
			m = math.Max(m, mag(k, leaves))
		}
		if e.k == kNary && (e.lop == "bitor" || e.lop == "bitand" || e.lop == "bitxor") {
			// a folded bit operation of negative constants comes out as a 32-bit pattern (2^32 - k)
			return math.Max(2*m+1, 4294967296)
		}
		return m
	}
}

type outcome struct {
	val   core.Value
	err   string // "" when a value was returned
	phase string // "compile" / "run"
}

func (o outcome) String() string {
	if o.err != "" {
		return "throws(" + o.phase + "): " + o.err
	}
	if o.val == nil {
		return "nil"
	}
	return o.val.String()
}

var constCache = map[string]core.Value{}

func constant(text string) core.Value {
	if v, ok := constCache[text]; ok {
		return v
	}
	v := compile.Constant(text)
	constCache[text] = v
	return v
}

func runProg(text string, args []core.Value) (o outcome) {
	var fn core.Value
	if msg := lib.Catch(func() { fn = compile.Constant(text) }); msg != "" {
		return outcome{err: msg, phase: "compile"}
	}
	th := core.NewThread(nil)
	if msg := lib.Catch(func() { o.val = th.PushCall(fn, nil, &core.ArgSpec{Nargs: byte(len(args))}, args...) }); msg != "" {
		return outcome{err: msg, phase: "run"}
	}
	return o
}

func errClass(msg string) string {
	switch {
	case strings.Contains(msg, "literal"):
		return "literal"
	case strings.Contains(msg, "conditionals require"), strings.Contains(msg, "?: requires boolean"),
		strings.Contains(msg, "if requires boolean"):
		return "cond"
	case strings.Contains(msg, "not requires boolean"):
		return "notbool"
	case strings.Contains(msg, "can't convert"):
		return "conv"
	case strings.Contains(msg, "divide by zero"), strings.Contains(msg, "division by zero"):
		return "divzero"
	case strings.Contains(msg, "shift"):
		return "shift"
	case strings.Contains(msg, "regex"):
		return "regex"
	case strings.Contains(msg, "StrictCompare"):
		return "strict"
	}
	w := strings.Fields(msg)
	if len(w) > 3 {
		w = w[:3]
	}
	return "other:" + strings.Join(w, "_")
}

// classify names the way A (partly folded) differs from B (run time). "" = consistent.
var inexact = map[string]bool{".5": true, "1.5": true, "-2.25": true, ".1": true, "1e5": true,
	"4294967296": true, "9223372036854775807": true, "1e15": true, "1000000000000000": true,
	"1e200": true, "1e-200": true, "1e16": true, "9999999999999999": true, "0xffffffff": true}

// localize finds a smallest sub-expression of e on which the partly constant program and the
// all-run-time program already differ in the same way (value/value, throw/value, value/throw)
// while none of its operands does; the difference is then named after that node's operator
// instead of after the whole program (so a wrong `in` next to a `+` is not taken for rounding).
func localize(e *E, inline, none []bool, hdr string, args []core.Value, kindOf func(a, b outcome) string, want string) *E {
	for _, k := range e.kids {
		if k.k == kLeaf {
			continue
		}
		var sa, sb strings.Builder
		src(k, inline, &sa)
		src(k, none, &sb)
		a := runProg(hdr+sa.String()+" }", args)
		b := runProg(hdr+sb.String()+" }", args)
		if kindOf(a, b) == want {
			return localize(k, inline, none, hdr, args, kindOf, want)
		}
	}
	return e
}

func diffKind(a, b outcome) string {
	switch {
	case a.err == "" && b.err == "":
		if a.String() == b.String() {
			return "same"
		}
		return "value/value"
	case a.err != "" && b.err == "":
		return "throw/value"
	case a.err == "" && b.err != "":
		return "value/throw"
	}
	return "same"
}

// leafInexact: a number whose sums/products can leave the range where both the int64 fast path
// and the 16-digit decimal are exact (fraction, exponent form, or magnitude >= 2^31)
func leafInexact(text string) bool {
	if inexact[text] {
		return true
	}
	if strings.HasPrefix(text, "0x") {
		n, err := strconv.ParseInt(text[2:], 16, 64)
		return err != nil || n >= 1<<31
	}
	f, err := strconv.ParseFloat(text, 64)
	if err != nil {
		return false
	}
	return f != math.Floor(f) || math.Abs(f) >= 1<<31 || strings.ContainsAny(text, "eE")
}

func hasInexactLeaf(e *E, inline []bool) bool {
	if e.k == kLeaf {
		return leafInexact(e.text)
	}
	for _, k := range e.kids {
		if hasInexactLeaf(k, inline) {
			return true
		}
	}
	return false
}

// classifyAt names a value/value difference located at node x
func classifyAt(x *E, inline []bool) string {
	for x.k == kParen {
		x = x.kids[0]
	}
	if x.k == kNary {
		switch x.op {
		case "|", "&":
			return "fold-bitop-32bit-constant"
		case "+", "*":
			if x.op == "*" {
				for _, k := range x.kids {
					if k.k == kUnary && k.op == "/" {
						// foldMul regroups the constant factors and divisors of a * / chain around
						// the non-constant ones; decimal division is not exact, so e.g. 7 / 7 / x
						// (run time 7 / (7 * x)) and its folded form 1 / x differ in the last digit
						return "fold-reassoc-muldiv"
					}
				}
			}
			if hasInexactLeaf(x, inline) {
				return "fold-reassoc-decimal"
			}
		}
	}
	if x.k == kTri || (x.k == kNary && x.op == "$") {
		// localize stopped at a node none of whose operands differs on its own and that does
		// no arithmetic itself: the difference exists only in the context of the whole function
		// (known cause: codegen's constant pool handing out an Equal constant of another kind)
		return "fold-differs-only-in-context"
	}
	return "fold-value-differs"
}

func classify(prog string, leaves []string, a, b outcome, direct bool) string {
	switch {
	case a.err == "" && b.err == "":
		if a.String() == b.String() {
			return ""
		}
		// Named by the feature of the program that explains the difference (the final values may
		// have gone through further operators): the 32-bit all-ones constant of the bit operators,
		// or constants outside the exact small-integer range (16-digit decimal rounding order,
		// int64 wrap-around of merged constants = C26).
		if strings.Contains(prog, " | ") || strings.Contains(prog, " & ") {
			return "fold-bitop-32bit-constant"
		}
		if strings.Contains(prog, " / ") {
			return "fold-reassoc-muldiv"
		}
		for _, l := range leaves {
			if inexact[l] {
				return "fold-reassoc-decimal"
			}
		}
		return "fold-value-differs"
	case a.err != "" && b.err == "":
		c := errClass(a.err)
		if c == "literal" {
			if direct {
				return "literal-check-direct" // by design, not reported
			}
			return "fold-literal-check-on-intermediate"
		}
		return "fold-eager-exception:" + c
	case a.err == "" && b.err != "":
		switch errClass(b.err) {
		case "cond":
			return "fold-absorbs-nonboolean"
		case "conv":
			return "fold-absorbs-nonnumber"
		}
		for _, op := range []string{" and ", " or ", " * ", " & ", " | "} {
			if strings.Contains(prog, op) {
				// the absorbing constant (false / true / 0 / 0xffffffff, possibly itself the result
				// of folding) also hides an operand that throws
				return "fold-absorbs-throwing-operand:" + errClass(b.err)
			}
		}
		return "fold-value-vs-exception:" + errClass(b.err)
	}
	return ""
}

// ---- the real folded AST, printed like Gsu.LangFold / Drive.C30.showE

func showConst(v core.Value) string {
	switch x := v.(type) {
	case core.SuBool:
		if x == core.True {
			return "t"
		}
		return "f"
	case core.SuStr:
		return "s" + hex.EncodeToString([]byte(string(x)))
	}
	if s, ok := v.ToStr(); ok {
		return "s" + hex.EncodeToString([]byte(s))
	}
	if dn, ok := v.ToDnum(); ok {
		if n, ok := dn.ToInt64(); ok {
			return "i" + strconv.FormatInt(n, 10)
		}
	}
	return "?const:" + strings.ReplaceAll(v.String(), " ", "_")
}

var utoks = map[tok.Token]string{tok.Add: "plus", tok.Sub: "minus", tok.Not: "not", tok.BitNot: "bitnot", tok.LParen: "paren", tok.Div: "div"}
var btoks = map[tok.Token]string{tok.Is: "is", tok.Isnt: "isnt", tok.Lt: "lt", tok.Lte: "lte", tok.Gt: "gt", tok.Gte: "gte", tok.Mod: "mod"}
var ntoks = map[tok.Token]string{tok.Add: "add", tok.Mul: "mul", tok.BitOr: "bitor", tok.BitAnd: "bitand", tok.BitXor: "bitxor", tok.Or: "or", tok.And: "and", tok.Cat: "cat"}

func name(m map[tok.Token]string, t tok.Token) string {
	if s, ok := m[t]; ok {
		return s
	}
	return "?" + t.String()
}

func showAst(e ast.Expr) string {
	switch e := e.(type) {
	case *ast.Constant:
		return showConst(e.Val)
	case *ast.Ident:
		return "v" + strings.TrimPrefix(e.Name, "p")
	case *ast.Unary:
		return "( u " + name(utoks, e.Tok) + " " + showAst(e.E) + " )"
	case *ast.Binary:
		return "( b " + name(btoks, e.Tok) + " " + showAst(e.Lhs) + " " + showAst(e.Rhs) + " )"
	case *ast.Trinary:
		return "( q " + showAst(e.Cond) + " " + showAst(e.T) + " " + showAst(e.F) + " )"
	case *ast.In:
		s := "( in " + showAst(e.E)
		for _, x := range e.Exprs {
			s += " " + showAst(x)
		}
		return s + " )"
	case *ast.Nary:
		s := "( n " + name(ntoks, e.Tok)
		for _, x := range e.Exprs {
			s += " " + showAst(x)
		}
		return s + " )"
	}
	return fmt.Sprintf("?%T", e)
}

func foldedAst(text string) (res string) {
	msg := lib.Catch(func() {
		f := compile.NewParser(text).Function()
		if len(f.Body) != 1 {
			res = "?body"
			return
		}
		switch s := f.Body[0].(type) {
		case *ast.ExprStmt:
			res = showAst(s.E)
		case *ast.Return:
			if len(s.Exprs) == 1 {
				res = showAst(s.Exprs[0])
			} else {
				res = "?return"
			}
		default:
			res = fmt.Sprintf("?%T", s)
		}
	})
	if msg != "" {
		if errClass(msg) == "literal" {
			return "!literal"
		}
		return "!err"
	}
	return res
}

func leafTexts(cs []cval) []string {
	r := make([]string, len(cs))
	for i, c := range cs {
		r[i] = c.text
	}
	return r
}

func showOutcome(o outcome) string {
	if o.err != "" {
		return "!err"
	}
	if o.val == nil {
		return "?nil"
	}
	return showConst(o.val)
}

func tenths(n int64) string {
	s := ""
	if n < 0 {
		s = "-"
		n = -n
	}
	return fmt.Sprintf("%s%d.%d", s, n/10, n%10)
}

func daddCase(t *lib.Trace, r *rand.Rand) {
	var a int64
	switch r.Intn(3) {
	case 0:
		a = (1000000000000000 + r.Int63n(8000000000000000)) * 10 // 16 integer digits
		t.Count("dadd:a=16digits")
	case 1:
		a = r.Int63n(100000000000000)
		t.Count("dadd:a<1e13")
	default:
		a = []int64{10000000000000000, 10000000000000010, 89999999999999990, 5, 0}[r.Intn(5)]
		t.Count("dadd:a=boundary")
	}
	b := r.Int63n(1000)
	if r.Intn(4) == 0 {
		b = []int64{0, 4, 5, 6, 9, 10, 14, 15, 16, 95, 995, 999}[r.Intn(12)]
	}
	if r.Intn(2) == 0 {
		a = -a
	}
	if r.Intn(2) == 0 {
		b = -b
	}
	if r.Intn(2) == 0 {
		a, b = b, a
	}
	x, y := dnum.FromStr(tenths(a)), dnum.FromStr(tenths(b))
	sum := dnum.Mul(dnum.Add(x, y), dnum.FromInt(10))
	n, ok := sum.ToInt64()
	out := strconv.FormatInt(n, 10)
	if !ok {
		out = "?" + sum.String()
	}
	t.Qf(out, "dadd %d %d", a, b)
}

// pinned: the minimal inputs of the recorded findings, run first on every run.
// {i} is leaf i; inline leaves keep their text in program A.
type pin struct {
	expr   string
	leaves []string
	inline []bool
}

// pinSig: the signature a difference of a pinned program gets when classify's text based naming
// would be wrong for it
var pinSig = map[string]string{"{0} ? {1} : ({2} + {3})": "fold-differs-only-in-context"}

var pinned = []pin{
	{"{0} + {1} + {2}", []string{"1e15", ".5", ".5"}, []bool{false, true, true}},
	{"~ ({0} in ({1}, {2}))", []string{"1", "2", "3"}, []bool{true, true, true}},
	{"({0} is {1}) and (not {2}) and {3}", []string{"#20200101", "10", "#(1)", "2"}, []bool{true, true, true, true}},
	{"({0} << {1}) or ({2} > {3})", []string{"0", "100000", "#20200101", "100000"}, []bool{true, true, true, true}},
	{"{0} and {1}", []string{"1", "false"}, []bool{false, true}},
	{"{0} | {1}", []string{"4294967296", "0xffffffff"}, []bool{false, true}},
	{"{0} & {1} & {2}", []string{"4294967296", "4294967296", "0xffffffff"}, []bool{false, false, true}},
	{"{0} * {1}", []string{"'a'", "0"}, []bool{false, true}},
	{"{0} & {1}", []string{"'a'", "0"}, []bool{false, true}},
	{"{0} * {1} * {2}", []string{".1", "3", "7"}, []bool{false, true, true}},
	{"{0} / {1} / {2}", []string{"7", "7", "7"}, []bool{true, true, false}},
	// the constant pool of a function must keep an integer and a decimal constant apart
	{"{0} ? {1} : ({2} + {3})", []string{"false", "10000000000000000", "1e16", "1"},
		[]bool{false, true, true, false}},
}

func runPinned(t *lib.Trace) {
	for _, p := range pinned {
		ea, eb := p.expr, p.expr
		params := make([]string, len(p.leaves))
		args := make([]core.Value, len(p.leaves))
		for i, l := range p.leaves {
			ph := fmt.Sprintf("{%d}", i)
			params[i] = fmt.Sprintf("p%d", i)
			args[i] = constant(l)
			if p.inline[i] {
				ea = strings.ReplaceAll(ea, ph, l)
			} else {
				ea = strings.ReplaceAll(ea, ph, params[i])
			}
			eb = strings.ReplaceAll(eb, ph, params[i])
		}
		hdr := "function(" + strings.Join(params, ",") + "){ "
		progA, progB := hdr+ea+" }", hdr+eb+" }"
		a, b := runProg(progA, args), runProg(progB, args)
		t.Count("pinned")
		if sig := classify(progA, p.leaves, a, b, false); sig != "" {
			if ps := pinSig[p.expr]; ps != "" {
				sig = ps
			}
			t.Fail(sig, fmt.Sprintf("%s with (%s): partly constant => %s ; all run time => %s",
				progA, strings.Join(p.leaves, ", "), a, b))
		}
	}
}

// runStructural: the two folder rewrites that fire without any constant folding —
// `not (a op b)` => `a inverse(op) b` and `c op x` => `x reverse(op) c` — on every comparison
// operator, with equal and unequal operands, against spellings the folder leaves alone.
func runStructural(t *lib.Trace) {
	for _, op := range []string{"<", "<=", ">", ">=", "is", "isnt"} {
		for _, vals := range [][2]string{{"1", "1"}, {"1", "2"}, {"2", "1"}, {"'a'", "1"}} {
			args := []core.Value{constant(vals[0]), constant(vals[1])}
			plain := runProg("function(p0,p1){ p0 "+op+" p1 }", args)
			neg := runProg("function(p0,p1){ not (p0 "+op+" p1) }", args)
			ref := runProg("function(p0,p1){ (p0 "+op+" p1) is false }", args)
			swapped := runProg("function(p0,p1){ "+vals[0]+" "+op+" p1 }", args)
			t.Count("structural")
			if neg.String() != ref.String() {
				t.Fail("fold-not-inversion-differs", fmt.Sprintf("not (%s %s %s) => %s but (%s %s %s) is false => %s",
					vals[0], op, vals[1], neg, vals[0], op, vals[1], ref))
			}
			if swapped.String() != plain.String() {
				t.Fail("fold-operand-swap-differs", fmt.Sprintf("%s %s p1 with p1 = %s => %s but p0 %s p1 => %s",
					vals[0], op, vals[1], swapped, op, plain))
			}
		}
	}
}

func main() {
	t := lib.Open()
	defer t.Close()
	r := lib.Rand()
	n := lib.N(3000)
	runPinned(t)
	runStructural(t)

	for i := 0; i < n; i++ {
		wide := i%2 == 1
		g := &gen{r: r, wide: wide}
		var e *E
		if wide && r.Intn(12) == 0 {
			e = g.rangePattern()
			t.Count("shape:range-or-in-pattern")
		} else if wide && r.Intn(12) == 0 {
			e = g.equalPattern()
			if r.Intn(2) == 0 {
				e = &E{k: kNary, op: "$", kids: []*E{g.operand(1, wAny), &E{k: kParen, kids: []*E{e}}}}
			}
			t.Count("shape:equal-constants-of-different-representation")
		} else {
			e = g.expr(2+r.Intn(2), wAny)
		}
		nl := len(g.leaves)
		if nl > 8 || e.k == kLeaf {
			t.Count("skipped:leaves>8-or-trivial")
			continue
		}
		inline := make([]bool, nl)
		none := make([]bool, nl)
		ninl := 0
		mode := r.Intn(4)
		for j := range inline {
			inline[j] = mode == 0 || (mode < 3 && r.Intn(2) == 0) || (mode == 3 && r.Intn(4) != 0)
			if inline[j] {
				ninl++
			}
		}
		// a leaf that occurs more than once (range pattern variable) must be a parameter
		seen := map[int]int{}
		var walk func(*E)
		walk = func(x *E) {
			if x.k == kLeaf {
				seen[x.leaf]++
			}
			for _, k := range x.kids {
				walk(k)
			}
		}
		walk(e)
		for l, c := range seen {
			if c > 1 {
				inline[l] = false
			}
		}
		for _, l := range g.noInline {
			inline[l] = false
		}
		params := make([]string, nl)
		args := make([]core.Value, nl)
		for j, c := range g.leaves {
			params[j] = fmt.Sprintf("p%d", j)
			args[j] = constant(c.text)
		}
		var sa, sb strings.Builder
		src(e, inline, &sa)
		src(e, none, &sb)
		hdr := "function(" + strings.Join(params, ",") + "){ "
		progA := hdr + sa.String() + " }"
		progB := hdr + sb.String() + " }"
		a := runProg(progA, args)
		b := runProg(progB, args)
		prof := "frag"
		if wide {
			prof = "wide"
		}
		t.Count("profile:" + prof)
		t.Count(fmt.Sprintf("inline-leaves=%d/%d", ninl, nl))
		t.Count("top:" + map[kind]string{kUnary: "unary", kBinary: "binary", kTri: "trinary", kIn: "in", kNary: "nary" + e.op, kParen: "paren"}[e.k])
		if b.err != "" {
			t.Count("B:throws:" + errClass(b.err))
		} else {
			t.Count("B:value")
		}
		if b.phase == "compile" {
			// nothing is constant in B; a compile error there means the generator is wrong
			t.Fail("generator-invalid-program", progB+" : "+b.err)
			continue
		}
		if b.err == "" && strings.Contains(progB, "not ") {
			// structural rewrite oracle: the `not`-free spelling must give the same value
			var sc strings.Builder
			notFree = true
			src(e, none, &sc)
			notFree = false
			progC := hdr + sc.String() + " }"
			if c := runProg(progC, args); c.err == "" && c.String() != b.String() {
				t.Count("oracle:fold-not-inversion-differs")
				t.Fail("fold-not-inversion-differs", fmt.Sprintf("%s => %s but %s => %s with (%s)",
					progB, b, progC, c, strings.Join(leafTexts(g.leaves), ", ")))
			}
			t.Count("not-free-variant-compared")
		}
		direct := directLiteral(e, inline, g.leaves)
		sig := classify(progA, leafTexts(g.leaves), a, b, direct)
		if diffKind(a, b) == "value/value" {
			at := localize(e, inline, none, hdr, args, diffKind, "value/value")
			sig = classifyAt(at, inline)
			var sl strings.Builder
			src(at, inline, &sl)
			progA += " [differs at: " + sl.String() + "]"
		}
		if a.err != "" && b.err != "" && errClass(a.err) != errClass(b.err) {
			t.Count("both-throw-different-message:" + errClass(a.err) + "/" + errClass(b.err))
		}
		switch sig {
		case "":
		case "literal-check-direct":
			t.Count("by-design:literal-check-direct")
		default:
			t.Count("oracle:" + sig)
			argtxt := make([]string, nl)
			for j, c := range g.leaves {
				argtxt[j] = c.text
			}
			t.Fail(sig, fmt.Sprintf("%s with (%s): partly constant => %s ; all run time => %s",
				progA, strings.Join(argtxt, ", "), a, b))
		}
		if i < 4 {
			t.Sample(fmt.Sprintf("%s => %s | %s => %s", progA, a, progB, b))
		}
		// model replay on the fragment
		if !wide {
			if mag(e, g.leaves) > 1e14 {
				t.Count("frag:skipped-magnitude")
				continue
			}
			var la, lb, env strings.Builder
			lean(e, inline, &la)
			lean(e, none, &lb)
			fmt.Fprintf(&env, "%d", nl)
			for _, c := range g.leaves {
				env.WriteString(" " + leanConst(c.text))
			}
			fa := foldedAst(progA)
			if g.hasDiv {
				// division is exact only where the int fast path applies: replay the folded AST when
				// every folded constant is still an integer, never the values
				if strings.Contains(fa, "?const") {
					t.Count("frag:division-inexact-constant-not-replayed")
				} else {
					t.Q("fold "+la.String(), fa)
					t.Count("frag:fold-with-division")
				}
				continue
			}
			t.Q("fold "+la.String(), fa)
			t.Q("evf "+env.String()+" "+la.String(), showOutcome(a))
			t.Q("ev "+env.String()+" "+lb.String(), showOutcome(b))
			if strings.HasPrefix(fa, "!") {
				t.Count("fold:" + fa)
			} else if fa == la.String() {
				t.Count("fold:unchanged")
			} else {
				t.Count("fold:changed")
			}
		}
		if i%10 == 0 {
			daddCase(t, r)
		}
		if i%4 == 0 {
			propfoldCase(t, r)
		}
	}
}
