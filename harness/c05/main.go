// C05 crash-cut suite (fault enumeration as support for the correspondence).
//
// Parent: builds databases in real files (several persists, one to three sessions so that old
// shutdown markers lie inside the file), records every persisted state's offset and the
// contents at that state, then enumerates crash cuts: a window around every state boundary,
// page boundaries, a stride elsewhere × {truncate, zero-fill, random-fill}. The cases are run
// by worker subprocesses (this same binary, "worker <jobfile> <outfile>"), at most 4 at a
// time, each in its own directory, because every open maps 64 MB and a crash of the
// implementation (e.g. SIGBUS) must not take the suite down.
//
// Per case the worker runs the real startup sequence: OpenDatabase must fail unless the cut file
// ends in the shutdown marker; Repair must return (no panic, bounded time); OpenDatabase must
// then succeed; contents must equal the snapshot of the latest state that ends at or below the
// cut; CheckDatabase(full) must pass. Q lines: the open decision (`opentail`), the state
// predicted by the Lean mirror of repair.search over the crash model (`crash`), the shape of the
// repaired file (`fix`).
package main

import (
	"bufio"
	"bytes"
	"encoding/json"
	"fmt"
	"math/rand"
	"os"
	"os/exec"
	"path/filepath"
	"regexp"
	"sort"
	"strings"
	"sync"
	"time"

	"github.com/apmckinlay/gsuneido/core"
	"github.com/apmckinlay/gsuneido/db19"
	"github.com/apmckinlay/gsuneido/db19/index"
	"github.com/apmckinlay/gsuneido/db19/meta/schema"
	"verif/harness/lib"
)

const (
	stateLen = 36
	tailSize = 8
	shutdown = "\x2b\xc1\x85\x63\x8d\x71\x65\x6d"
	magic1   = "\x01\x23\x45\x67\x89\xab\xcd\xef"
)

var hexaddr = regexp.MustCompile(`0x[0-9a-f]+`)

type stateInfo struct {
	Off  uint64
	Snap string
}

type job struct {
	ID   int
	Db   int
	File string // full database file
	Cut  int
	Fill string // none | zero | garbage
	Seed int64
}

type result struct {
	ID        int
	Open      string // ok | corrupt | notshutdown | other:<msg> | panic:<msg>
	OpenOff   uint64
	Repair    string // "" (not needed) | ok | none | err:<msg> | panic:<msg>
	Reopen    string // ok | err:<msg> | panic:<msg>
	StateOff  uint64
	Snap      string
	Check     string // ok | err:<msg> | panic:<msg>
	SizeAfter int64
	TailOK    bool
	Millis    int64
}

func mkrec(args ...string) core.Record {
	var b core.RecordBuilder
	for _, a := range args {
		b.Add(core.SuStr(a))
	}
	return b.Build()
}

func snapshot(db *db19.Database) string {
	rt := db.NewReadTran()
	var names []string
	for _, ts := range rt.GetAllSchema() {
		names = append(names, ts.Table)
	}
	sort.Strings(names)
	var sb strings.Builder
	for _, name := range names {
		sb.WriteString(db.Schema(name))
		sb.WriteString("{")
		it := index.NewOverIter(name, 0)
		for it.Next(rt); !it.Eof(); it.Next(rt) {
			rec := rt.GetRecord(it.CurOff())
			for i := 0; i < rec.Count(); i++ {
				s := rec.GetStr(i)
				if len(s) > 12 {
					s = fmt.Sprintf("%s..%d", s[:12], len(s))
				}
				sb.WriteString(s)
				sb.WriteByte(',')
			}
			sb.WriteByte(';')
		}
		sb.WriteString("}")
	}
	return sb.String()
}

// ---------------------------------------------------------------- worker

func classify(err error) string {
	if err == nil {
		return "ok"
	}
	s := err.Error()
	switch {
	case strings.Contains(s, "corruption previously detected"):
		return "corrupt"
	case strings.Contains(s, "not shut down properly"):
		return "notshutdown"
	case strings.Contains(s, "no valid states"):
		return "none"
	}
	if len(s) > 100 {
		s = s[:100]
	}
	return "other:" + s
}

func runCase(j job) (res result) {
	res.ID = j.ID
	t0 := time.Now()
	defer func() { res.Millis = time.Since(t0).Milliseconds() }()
	full, err := os.ReadFile(j.File)
	if err != nil {
		panic(err)
	}
	data := append([]byte{}, full[:j.Cut]...)
	switch j.Fill {
	case "zero":
		data = append(data, make([]byte, 64)...)
	case "garbage":
		g := make([]byte, 64)
		rand.New(rand.NewSource(j.Seed)).Read(g)
		data = append(data, g...)
	case "corruptmark": // what Database.Corrupt() appends when a check fails in a running server
		data = append(data, bytes.Repeat([]byte{0xff}, tailSize)...)
	}
	const name = "c.db"
	os.Remove(name)
	os.Remove(name + ".bak")
	if err := os.WriteFile(name, data, 0644); err != nil {
		panic(err)
	}
	var db *db19.Database
	var openErr error
	if msg := lib.Catch(func() { db, openErr = db19.OpenDatabase(name) }); msg != "" {
		res.Open = "panic:" + msg
		return
	}
	res.Open = classify(openErr)
	if openErr == nil {
		res.OpenOff = db.GetState().Off
		res.StateOff = res.OpenOff
		res.Snap = snapshot(db)
		db.Close()
		res.Reopen = "ok"
	} else {
		var rerr error
		if msg := lib.Catch(func() { _, rerr = db19.Repair(name, openErr) }); msg != "" {
			res.Repair = "panic:" + msg
			return
		}
		if rerr != nil {
			c := classify(rerr)
			if c != "none" {
				c = "err:" + rerr.Error()
			}
			res.Repair = c
			return
		}
		res.Repair = "ok"
		if b, err := os.ReadFile(name); err == nil {
			// fixHead writes the marker in place and may leave zero bytes behind it; they are
			// stripped on open (MmapStor), so the file is taken modulo trailing zeros
			b = bytes.TrimRight(b, "\x00")
			res.SizeAfter = int64(len(b))
			res.TailOK = bytes.HasSuffix(b, []byte(shutdown))
		}
		if msg := lib.Catch(func() { db, openErr = db19.OpenDatabase(name) }); msg != "" {
			res.Reopen = "panic:" + msg
			return
		}
		if openErr != nil {
			res.Reopen = "err:" + openErr.Error()
			return
		}
		res.Reopen = "ok"
		res.StateOff = db.GetState().Off
		res.Snap = snapshot(db)
		db.Close()
	}
	var cerr error
	if msg := lib.Catch(func() { cerr = db19.CheckDatabase(name, true) }); msg != "" {
		res.Check = "panic:" + msg
	} else if cerr != nil {
		res.Check = "err:" + cerr.Error()
	} else {
		res.Check = "ok"
	}
	return
}

func worker(jobfile, outfile string) {
	var jobs []job
	b, err := os.ReadFile(jobfile)
	if err != nil {
		panic(err)
	}
	if err := json.Unmarshal(b, &jobs); err != nil {
		panic(err)
	}
	out, err := os.OpenFile(outfile, os.O_APPEND|os.O_CREATE|os.O_WRONLY, 0644)
	if err != nil {
		panic(err)
	}
	// the implementation prints progress lines; keep them out of the way
	devnull, _ := os.OpenFile(os.DevNull, os.O_WRONLY, 0)
	os.Stdout = devnull
	for _, j := range jobs {
		fmt.Fprintf(out, "START %d\n", j.ID)
		done := make(chan result, 1)
		go func() { done <- runCase(j) }()
		select {
		case r := <-done:
			js, _ := json.Marshal(r)
			fmt.Fprintf(out, "DONE %s\n", js)
		case <-time.After(120 * time.Second):
			// open / repair / check did not return (bounded time is part of the property)
			fmt.Fprintf(os.Stderr, "HANG: case %d did not finish within 120 s\n", j.ID)
			out.Close()
			os.Exit(3)
		}
	}
	out.Close()
}

// ---------------------------------------------------------------- parent

type dbInfo struct {
	file   string
	full   []byte
	states []stateInfo
}

func buildDb(dir string, r *rand.Rand, t *lib.Trace) *dbInfo {
	os.MkdirAll(dir, 0755)
	file := filepath.Join(dir, "x.db")
	info := &dbInfo{file: file}
	nsessions := 1 + r.Intn(3)
	t.Count(fmt.Sprintf("sessions=%d", nsessions))
	keys := map[string][]string{}
	nkey := 0
	tables := []string{}
	for s := 0; s < nsessions; s++ {
		var db *db19.Database
		var err error
		if s == 0 {
			db, err = db19.CreateDatabase(file)
		} else {
			db, err = db19.OpenDatabase(file)
		}
		if err != nil {
			panic(err)
		}
		db19.StartConcur(db, time.Hour)
		npersist := 1 + r.Intn(4)
		if s == 0 && r.Intn(4) == 0 {
			npersist = 5 + r.Intn(8)
		}
		for p := 0; p < npersist; p++ {
			nops := 1 + r.Intn(6)
			for o := 0; o < nops; o++ {
				if len(tables) == 0 || (len(tables) < 3 && r.Intn(8) == 0) {
					name := fmt.Sprintf("t%d", len(tables))
					db.Create(&schema.Schema{Table: name, Columns: []string{"k", "a", "b"},
						Indexes: []schema.Index{{Mode: 'k', Columns: []string{"k"}},
							{Mode: 'i', Columns: []string{"a"}}}})
					tables = append(tables, name)
					t.Count("op=create")
					continue
				}
				tb := tables[r.Intn(len(tables))]
				ut := db.NewUpdateTran()
				switch x := r.Intn(10); {
				case x < 6 || len(keys[tb]) == 0:
					nkey++
					k := fmt.Sprintf("k%05d", nkey)
					fill := strings.Repeat("y", []int{0, 5, 40, 400, 3000}[r.Intn(5)])
					ut.Output(nil, tb, mkrec(k, fmt.Sprint("a", r.Intn(4)), fill))
					keys[tb] = append(keys[tb], k)
					t.Count("op=insert")
				case x < 8:
					i := r.Intn(len(keys[tb]))
					k := keys[tb][i]
					rec := ut.Lookup(tb, 0, string(mkrec(k).GetRaw(0)))
					ut.Delete(nil, tb, rec.Off)
					keys[tb] = append(keys[tb][:i], keys[tb][i+1:]...)
					t.Count("op=delete")
				default:
					k := keys[tb][r.Intn(len(keys[tb]))]
					rec := ut.Lookup(tb, 0, string(mkrec(k).GetRaw(0)))
					ut.Update(nil, tb, rec.Off, mkrec(k, fmt.Sprint("a", r.Intn(4)), fmt.Sprint("u", r.Intn(1000))))
					t.Count("op=update")
				}
				if s := ut.Complete(); s != "" {
					panic("commit failed: " + s)
				}
			}
			st := db.Persist()
			info.states = append(info.states, stateInfo{Off: st.Off, Snap: snapshot(db)})
		}
		last := snapshot(db)
		db.Close()
		full, err := os.ReadFile(file)
		if err != nil {
			panic(err)
		}
		// the state written by Close lies just before the shutdown marker
		off := uint64(len(full) - tailSize - stateLen)
		if string(full[off:off+8]) != magic1 || string(full[len(full)-tailSize:]) != shutdown {
			panic("closed file does not end in state + shutdown marker")
		}
		if off != info.states[len(info.states)-1].Off {
			info.states = append(info.states, stateInfo{Off: off, Snap: last})
		}
		info.full = full
	}
	t.Count(fmt.Sprintf("states=%d", min(len(info.states), 12)))
	return info
}

// buildPageEdge builds a database whose first persisted state record straddles a 4 KB page
// boundary (the record starts 20 bytes before it): Repair maps the file read-only, so bytes of a
// cut-short record that lie beyond the last page of the file do not exist.
func buildPageEdge(dir string, t *lib.Trace) *dbInfo {
	os.MkdirAll(dir, 0755)
	file := filepath.Join(dir, "x.db")
	build := func(fill int) *dbInfo {
		os.Remove(file)
		info := &dbInfo{file: file}
		db, err := db19.CreateDatabase(file)
		if err != nil {
			panic(err)
		}
		db19.StartConcur(db, time.Hour)
		db.Create(&schema.Schema{Table: "t0", Columns: []string{"k", "a", "b"},
			Indexes: []schema.Index{{Mode: 'k', Columns: []string{"k"}}, {Mode: 'i', Columns: []string{"a"}}}})
		for i, f := range []int{fill, 6} {
			ut := db.NewUpdateTran()
			ut.Output(nil, "t0", mkrec(fmt.Sprintf("k%05d", i), "a1", strings.Repeat("y", f)))
			if s := ut.Complete(); s != "" {
				panic(s)
			}
			st := db.Persist()
			info.states = append(info.states, stateInfo{Off: st.Off, Snap: snapshot(db)})
		}
		last := snapshot(db)
		db.Close()
		full, _ := os.ReadFile(file)
		off := uint64(len(full) - tailSize - stateLen)
		if off != info.states[len(info.states)-1].Off {
			info.states = append(info.states, stateInfo{Off: off, Snap: last})
		}
		info.full = full
		return info
	}
	a := build(1000)
	d := (2*4096 - 20 - int(a.states[0].Off%4096)) % 4096
	b := build(1000 + d)
	if b.states[0].Off%4096 == 4096-20 {
		t.Count("page-edge-db=hit")
	} else {
		t.Count("page-edge-db=miss")
	}
	return b
}

func main() {
	if len(os.Args) >= 4 && os.Args[1] == "worker" {
		worker(os.Args[2], os.Args[3])
		return
	}
	db19.MakeSuTran = func(ut *db19.UpdateTran) *core.SuTran { return core.NewSuTran(nil, true) }
	t := lib.Open()
	defer t.Close()
	r := lib.Rand()
	total := lib.N(330)
	scratch := os.Getenv("VERIF_SCRATCH")
	if scratch == "" {
		scratch, _ = os.MkdirTemp("", "c05")
		defer os.RemoveAll(scratch)
	}
	scratch, _ = filepath.Abs(scratch)
	ndb := 3
	if lib.Tier() == "thorough" {
		ndb = 12
	}
	var jobs []job
	var dbs []*dbInfo

	// database 0: the file has the magic but no state yet (crash before the first persist)
	{
		dir := filepath.Join(scratch, "db-empty")
		os.MkdirAll(dir, 0755)
		f := filepath.Join(dir, "x.db")
		body := append([]byte("gsndo004"), bytes.Repeat([]byte("some record bytes but no state yet "), 4)...)
		os.WriteFile(f, body, 0644)
		dbs = append(dbs, &dbInfo{file: f, full: body})
		for _, cut := range []int{8, 9, 40, len(body)} {
			for _, fill := range []string{"none", "zero", "garbage"} {
				jobs = append(jobs, job{Db: 0, File: f, Cut: cut, Fill: fill, Seed: r.Int63()})
			}
		}
	}
	stdout := os.Stdout
	devnull, _ := os.OpenFile(os.DevNull, os.O_WRONLY, 0)
	os.Stdout = devnull
	for d := 1; d <= ndb; d++ {
		dbs = append(dbs, buildDb(filepath.Join(scratch, fmt.Sprintf("db%d", d)), r, t))
	}
	pe := buildPageEdge(filepath.Join(scratch, "db-pageedge"), t)
	os.Stdout = stdout
	{
		o := int(pe.states[0].Off)
		P := (o/4096 + 1) * 4096
		for _, c := range []int{o + 7, o + 8, P - 8, P - 4, P - 1, P, P + 1, o + 35, o + 36} {
			for _, fill := range []string{"none", "zero", "garbage"} {
				jobs = append(jobs, job{Db: ndb + 1, File: pe.file, Cut: c, Fill: fill, Seed: r.Int63()})
			}
		}
	}
	per := (total - len(jobs)) / (ndb * 3)
	for d := 1; d <= ndb; d++ {
		info := dbs[d]
		n := len(info.full)
		cutset := map[int]bool{}
		var near []int
		for _, s := range info.states {
			o := int(s.Off)
			for _, c := range []int{o - 1, o, o + 1, o + 7, o + 8, o + 9, o + 20, o + 27, o + 28, o + 29, o + 35,
				o + 36, o + 37, o + 43, o + 44, o + 45} {
				if c >= 8 && c <= n {
					near = append(near, c)
				}
			}
		}
		for p := 4096; p <= n; p += 4096 { // page boundaries (read mode maps beyond end of file)
			near = append(near, p-1, p, p+1)
		}
		near = append(near, 8, 9, n-1, n)
		r.Shuffle(len(near), func(i, j int) { near[i], near[j] = near[j], near[i] })
		// always keep the cuts right at each state's end and inside each state record
		for _, s := range info.states {
			e := int(s.Off) + stateLen
			cutset[e] = true
			// a state written by Close is followed by the shutdown marker: cut inside and right
			// after the marker (the latter is an intact closed file and must open directly)
			if e+tailSize <= n && string(info.full[e:e+tailSize]) == shutdown {
				cutset[e+tailSize] = true
				cutset[e+3] = true
			}
		}
		for _, c := range near {
			if len(cutset) >= per*3/4 {
				break
			}
			if c >= 8 && c <= n {
				cutset[c] = true
			}
		}
		for len(cutset) < min(per, n-7) { // (a small file has fewer than `per` possible cuts)
			cutset[8+r.Intn(n-7)] = true
		}
		var cuts []int
		for c := range cutset {
			cuts = append(cuts, c)
		}
		sort.Ints(cuts)
		for _, c := range cuts {
			for _, fill := range []string{"none", "zero", "garbage"} {
				jobs = append(jobs, job{Db: d, File: info.file, Cut: c, Fill: fill, Seed: r.Int63()})
			}
		}
		// the corrupt marker after a state (and after a state + shutdown marker)
		for i := 0; i < 2 && len(info.states) > 0; i++ {
			e := int(info.states[r.Intn(len(info.states))].Off) + stateLen
			jobs = append(jobs, job{Db: d, File: info.file, Cut: e, Fill: "corruptmark", Seed: r.Int63()})
		}
		jobs = append(jobs, job{Db: d, File: info.file, Cut: n, Fill: "corruptmark", Seed: r.Int63()})
	}
	dbs = append(dbs, pe) // index ndb+1
	for i := range jobs {
		jobs[i].ID = i
	}

	// ---- run the jobs in worker subprocesses, at most 4 at a time
	results := make([]*result, len(jobs))
	crashed := make([]string, len(jobs))
	const batch = 30
	var batches [][]job
	for i := 0; i < len(jobs); i += batch {
		batches = append(batches, jobs[i:min(i+batch, len(jobs))])
	}
	sem := make(chan struct{}, 4)
	var wg sync.WaitGroup
	var mu sync.Mutex
	for bi, b := range batches {
		wg.Add(1)
		sem <- struct{}{}
		go func(bi int, b []job) {
			defer wg.Done()
			defer func() { <-sem }()
			dir := filepath.Join(scratch, fmt.Sprintf("w%d", bi))
			os.MkdirAll(dir, 0755)
			todo := b
			for attempt := 0; len(todo) > 0 && attempt <= len(b); attempt++ {
				jf := filepath.Join(dir, fmt.Sprintf("jobs%d.json", attempt))
				of := filepath.Join(dir, fmt.Sprintf("out%d.txt", attempt))
				js, _ := json.Marshal(todo)
				os.WriteFile(jf, js, 0644)
				os.Remove(of)
				cmd := exec.Command(os.Args[0], "worker", jf, of)
				cmd.Dir = dir
				var stderr bytes.Buffer
				cmd.Stderr = &stderr
				done := make(chan error, 1)
				cmd.Start()
				go func() { done <- cmd.Wait() }()
				var werr error
				select {
				case werr = <-done:
				case <-time.After(time.Duration(20*len(todo)+60) * time.Second):
					cmd.Process.Kill()
					werr = fmt.Errorf("timeout")
					<-done
				}
				// read what was completed
				started := -1
				ndone := 0
				if f, err := os.Open(of); err == nil {
					sc := bufio.NewScanner(f)
					sc.Buffer(make([]byte, 1<<20), 1<<26)
					for sc.Scan() {
						line := sc.Text()
						if strings.HasPrefix(line, "START ") {
							fmt.Sscanf(line, "START %d", &started)
						} else if strings.HasPrefix(line, "DONE ") {
							var res result
							if json.Unmarshal([]byte(line[5:]), &res) == nil {
								mu.Lock()
								results[res.ID] = &res
								mu.Unlock()
								ndone++
								started = -1
							}
						}
					}
					f.Close()
				}
				if ndone >= len(todo) {
					break
				}
				// the worker died in case `started` (or before starting one)
				msg := fmt.Sprint(werr)
				if s := stderr.String(); s != "" {
					first := strings.SplitN(strings.TrimSpace(s), "\n", 4)
					msg += " | " + hexaddr.ReplaceAllString(strings.Join(first[:min(3, len(first))], " | "), "0x..")
				}
				if len(msg) > 300 {
					msg = msg[:300]
				}
				if started >= 0 {
					mu.Lock()
					crashed[started] = msg
					mu.Unlock()
					todo = todo[ndone+1:]
				} else {
					mu.Lock()
					crashed[todo[ndone].ID] = "worker could not run: " + msg
					mu.Unlock()
					todo = todo[ndone+1:]
				}
			}
		}(bi, b)
	}
	wg.Wait()

	// ---- evaluate
	for _, j := range jobs {
		info := dbs[j.Db]
		res := results[j.ID]
		t.Count("fill=" + j.Fill)
		var ends []int
		var endsS []string
		for _, s := range info.states {
			ends = append(ends, int(s.Off)+stateLen)
			endsS = append(endsS, fmt.Sprint(int(s.Off)+stateLen))
		}
		endsArg := "-"
		if len(endsS) > 0 {
			endsArg = strings.Join(endsS, ",")
		}
		// the bytes the implementation saw
		data := append([]byte{}, info.full[:j.Cut]...)
		switch j.Fill {
		case "zero":
			data = append(data, make([]byte, 64)...)
		case "garbage":
			g := make([]byte, 64)
			rand.New(rand.NewSource(j.Seed)).Read(g)
			data = append(data, g...)
		case "corruptmark":
			data = append(data, bytes.Repeat([]byte{0xff}, tailSize)...)
		}
		// what is really intact: the fill may by chance continue the original bytes (a zero
		// where the file has a zero, a random byte equal to the original one - 1 in 256 per
		// byte), so the effective cut is the length of the common prefix of the damaged and
		// the original file: a state is completely on disk iff it ends at or below THAT
		effCut := j.Cut
		for effCut < len(data) && effCut < len(info.full) && data[effCut] == info.full[effCut] {
			effCut++
		}
		if effCut != j.Cut {
			t.Count("fill-continues-original-bytes")
		}
		// expected (direct): the latest state ending at or below the effective cut
		exp := -1
		for i, e := range ends {
			if e <= effCut {
				exp = i
			}
		}
		desc := fmt.Sprintf("db%d (%d bytes, state ends %s) cut=%d (intact prefix %d) fill=%s seed=%d", j.Db, len(info.full), endsArg, j.Cut, effCut, j.Fill, j.Seed)
		if crashed[j.ID] != "" || res == nil {
			sig := "process-crash"
			if strings.Contains(crashed[j.ID], "SIGBUS") || strings.Contains(crashed[j.ID], "fault") {
				sig = "process-crash-sigbus"
			} else if strings.Contains(crashed[j.ID], "HANG") {
				sig = "repair-hang"
			}
			t.Fail(sig, desc+" : the process running OpenDatabase/Repair/CheckDatabase died: "+crashed[j.ID])
			t.Count("outcome=process-crash")
			continue
		}
		stripped := bytes.TrimRight(data, "\x00")
		// enough of the end of the file for the open decision: at least 128 bytes, and at
		// least one non-zero byte (the model pads the front with non-zero bytes)
		w := 128
		for w < len(data) && len(bytes.TrimRight(data[len(data)-w:], "\x00")) < 16 {
			w *= 2
		}
		tail := data
		if len(tail) > w {
			tail = tail[len(tail)-w:]
		}
		endsInShutdown := bytes.HasSuffix(stripped, []byte(shutdown))

		// Q: the open decision
		openOut := res.Open
		switch {
		case res.Open == "ok":
			openOut = fmt.Sprintf("state %d", res.OpenOff)
		case strings.HasPrefix(res.Open, "other:") || strings.HasPrefix(res.Open, "panic:"):
			openOut = "!" + strings.SplitN(res.Open, ":", 2)[0]
		}
		t.Qf(openOut, "opentail %d %s", len(data)-len(tail), lib.X(string(tail)))
		if res.Open == "ok" && !endsInShutdown {
			t.Fail("open-accepted-damaged", desc+" : OpenDatabase succeeded on a file that does not end in the shutdown marker")
		}
		if strings.HasPrefix(res.Open, "panic:") {
			t.Fail("open-panic", desc+" : "+res.Open)
			continue
		}
		if strings.HasPrefix(res.Open, "other:") && !endsInShutdown {
			t.Fail("open-unclear-error", desc+" : "+res.Open)
		}

		// Q: the state recovered (numbered from the oldest), from the Lean mirror of search
		idx := -1
		for i, s := range info.states {
			if s.Off == res.StateOff && res.Reopen == "ok" {
				idx = i
			}
		}
		crashOut := fmt.Sprint(idx)
		switch {
		case res.Repair == "none":
			crashOut = "none"
		case strings.HasPrefix(res.Repair, "panic:"):
			crashOut = "!panic"
		case strings.HasPrefix(res.Repair, "err:"):
			crashOut = "!error"
		case res.Reopen != "ok":
			crashOut = "!reopen"
		case idx < 0:
			crashOut = "!unknown-state"
		}
		t.Qf(crashOut, "crash %d %s", effCut, endsArg)

		// direct oracles
		switch {
		case strings.HasPrefix(res.Repair, "panic:"):
			sig := "repair-panic"
			if len(ends) == 0 || exp < 0 {
				sig = "repair-panic-no-states"
			}
			t.Fail(sig, desc+" : Repair "+res.Repair)
			t.Count("outcome=repair-panic")
			continue
		case res.Repair == "none":
			if exp >= 0 {
				t.Fail("repair-no-state-found", desc+fmt.Sprintf(" : Repair found no valid state although state #%d ends below the cut", exp))
			}
			t.Count("outcome=no-valid-state")
			continue
		case strings.HasPrefix(res.Repair, "err:"):
			t.Fail("repair-error", desc+" : Repair "+res.Repair)
			continue
		}
		if res.Reopen != "ok" {
			t.Fail("reopen-failed", desc+" : after Repair, OpenDatabase "+res.Reopen)
			continue
		}
		if exp < 0 {
			t.Fail("restored-without-state", desc+fmt.Sprintf(" : no state ends below the cut but state at %d was restored", res.StateOff))
			continue
		}
		if res.StateOff != info.states[exp].Off || res.Snap != info.states[exp].Snap {
			t.Fail("restored-wrong-state", desc+fmt.Sprintf(" : expected state #%d (off %d), got state at %d (#%d); contents equal: %v",
				exp, info.states[exp].Off, res.StateOff, idx, res.Snap == info.states[exp].Snap))
		}
		if res.Check != "ok" {
			t.Fail("check-after-repair", desc+" : CheckDatabase(full) "+res.Check)
		}
		if res.Repair == "ok" {
			t.Qf(fmt.Sprintf("%d state %d", res.SizeAfter, res.StateOff), "fix %d %d", len(stripped), res.StateOff)
			if !res.TailOK {
				t.Fail("repaired-without-marker", desc+" : repaired file does not end in the shutdown marker")
			}
			t.Count("outcome=repaired")
		} else {
			t.Count("outcome=opened-directly")
		}
		if res.Millis > 30000 {
			t.Fail("repair-slow", desc+fmt.Sprintf(" : %d ms", res.Millis))
		}
		if len(info.states) > 0 {
			t.Count(fmt.Sprintf("restored=%s", map[bool]string{true: "newest", false: "older"}[exp == len(info.states)-1]))
		}
	}
	t.Sample(fmt.Sprintf("jobs=%d dbs=%d", len(jobs), len(dbs)))
}
