// C33 correspondence suite: core.NewDate / Plus / NormalizeDate / MinusDays / MinusMs / Compare /
// String / DateFromLiteral against the Lean model Gsu.Model.Date, plus the direct oracles of the
// property on the implementation (additions vs an independent calendar reference, differences
// consistent with additions, chronological order, literal round trip).
package main

import (
	"fmt"
	"math/rand"
	"strings"
	"time"

	. "github.com/apmckinlay/gsuneido/core"
	"verif/harness/lib"
)

var t *lib.Trace
var r *rand.Rand

// fail records a direct-oracle failure, at most maxPerSig lines per signature (lib.Trace keeps
// only the first 200 F lines of a run; one noisy signature must not hide another)
const maxPerSig = 8

var sigCount = map[string]int{}

func fail(sig, desc string) {
	sigCount[sig]++
	t.Count("F:" + sig)
	if sigCount[sig] <= maxPerSig {
		t.Fail(sig, desc)
	}
}

type fields [7]int // yr mon day hr min sec ms

func (f fields) String() string {
	return fmt.Sprintf("%d %d %d %d %d %d %d", f[0], f[1], f[2], f[3], f[4], f[5], f[6])
}

func fieldsOf(d SuDate) fields {
	return fields{d.Year(), d.Month(), d.Day(), d.Hour(), d.Minute(), d.Second(), d.Millisecond()}
}

func mk(f fields) SuDate { return NewDate(f[0], f[1], f[2], f[3], f[4], f[5], f[6]) }

// ---- independent calendar reference (no package time) ---------------------------------

func leap(y int) bool { return (y%4 == 0 && y%100 != 0) || y%400 == 0 }

func dim(y, m int) int {
	switch m {
	case 2:
		if leap(y) {
			return 29
		}
		return 28
	case 4, 6, 9, 11:
		return 30
	}
	return 31
}

func fdiv(a, b int) int { // floor division, b > 0
	q := a / b
	if a%b < 0 {
		q--
	}
	return q
}

// dayNo counts days from 0001-01-01 by whole years and months (valid for y >= 1)
func dayNo(y, m, d int) int {
	y1 := y - 1
	n := y1*365 + fdiv(y1, 4) - fdiv(y1, 100) + fdiv(y1, 400)
	for i := 1; i < m; i++ {
		n += dim(y, i)
	}
	return n + d - 1
}

// civilOf inverts dayNo by stepping (year estimate, then walk)
func civilOf(n int) (y, m, d int) {
	y = fdiv(n*400, 146097) + 1
	for dayNo(y+1, 1, 1) <= n {
		y++
	}
	for dayNo(y, 1, 1) > n {
		y--
	}
	n -= dayNo(y, 1, 1)
	m = 1
	for n >= dim(y, m) {
		n -= dim(y, m)
		m++
	}
	return y, m, n + 1
}

func refValid(f fields) bool {
	if f[0] == 3000 && (f[1] != 1 || f[2] != 1 || f[3] != 0 || f[4] != 0 || f[5] != 0 || f[6] != 0) {
		return false
	}
	return 0 <= f[0] && f[0] <= 3000 && 1 <= f[1] && f[1] <= 12 && 1 <= f[2] && f[2] <= dim(f[0], f[1]) &&
		0 <= f[3] && f[3] <= 23 && 0 <= f[4] && f[4] <= 59 && 0 <= f[5] && f[5] <= 59 && 0 <= f[6] && f[6] <= 999
}

// refNormalize: proleptic Gregorian normalisation of overflowed fields; ok=false if the
// result is outside what SuDate can hold
func refNormalize(f fields) (fields, bool) {
	ms := f[6]
	sec := f[5] + fdiv(ms, 1000)
	ms -= fdiv(ms, 1000) * 1000
	min := f[4] + fdiv(sec, 60)
	sec -= fdiv(sec, 60) * 60
	hr := f[3] + fdiv(min, 60)
	min -= fdiv(min, 60) * 60
	dc := fdiv(hr, 24)
	hr -= dc * 24
	y := f[0] + fdiv(f[1]-1, 12)
	mon := f[1] - 1 - fdiv(f[1]-1, 12)*12 + 1
	if y < 1 {
		return fields{}, false
	}
	n := dayNo(y, mon, 1) + f[2] - 1 + dc
	if n < 0 {
		return fields{}, false
	}
	yy, mm, dd := civilOf(n)
	res := fields{yy, mm, dd, hr, min, sec, ms}
	return res, refValid(res)
}

// ---- generators ----------------------------------------------------------------------

var yearsEdge = []int{1700, 1701, 1799, 1800, 1899, 1900, 1901, 1999, 2000, 2001, 2023, 2024, 2100, 2399, 2400, 2401, 2996, 2999}

func genDate() fields {
	for {
		var f fields
		f[0] = 1700 + r.Intn(1300)
		if r.Intn(3) == 0 {
			f[0] = yearsEdge[r.Intn(len(yearsEdge))]
		}
		f[1] = 1 + r.Intn(12)
		if r.Intn(4) == 0 {
			f[1] = []int{1, 2, 2, 3, 12}[r.Intn(5)]
		}
		f[2] = 1 + r.Intn(28)
		if r.Intn(3) == 0 {
			f[2] = []int{1, 28, 29, 30, 31}[r.Intn(5)]
		}
		switch r.Intn(5) {
		case 0:
		case 1:
			f[3], f[4] = r.Intn(24), r.Intn(60)
		case 2:
			f[3], f[4], f[5] = r.Intn(24), r.Intn(60), r.Intn(60)
		case 3:
			f[3], f[4], f[5], f[6] = 23, 59, 59, 999
		default:
			f[3], f[4], f[5], f[6] = r.Intn(24), r.Intn(60), r.Intn(60), r.Intn(1000)
		}
		if r.Intn(60) == 0 {
			f = fields{3000, 1, 1, 0, 0, 0, 0}
		}
		if mk(f) != NilDate {
			return f
		}
		t.Count("gen:nonexistent-day-skipped")
	}
}

func mag(limit int) int {
	switch r.Intn(4) {
	case 0:
		return r.Intn(3) - 1
	case 1:
		return r.Intn(201) - 100
	default:
		return r.Intn(2*limit+1) - limit
	}
}

func genOffset() (off fields, kind string) {
	switch r.Intn(9) {
	case 0:
		off[0] = mag(1300)
		kind = "years"
	case 1:
		off[1] = mag(20000)
		kind = "months"
	case 2:
		off[2] = mag(500000)
		kind = "days"
	case 3:
		off[3] = mag(12000000)
		kind = "hours"
	case 4:
		off[4] = mag(700000000)
		kind = "minutes"
	case 5:
		off[5] = mag(40000000000)
		kind = "seconds"
	case 6:
		off[6] = mag([]int{100000, 100000000000, 9000000000000, 9000000000000, 40000000000000}[r.Intn(5)])
		kind = "ms"
	default:
		kind = "mixed"
		off = fields{mag(50), mag(100), mag(5000), mag(100000), mag(1000000), mag(10000000), mag(1000000000)}
	}
	return
}

// ---- checks --------------------------------------------------------------------------

func plusImpl(d SuDate, off fields) (res SuDate, ok bool) {
	e := lib.Catch(func() { res = d.Plus(off[0], off[1], off[2], off[3], off[4], off[5], off[6]) })
	return res, e == ""
}

func cmpFields(a, b fields) int {
	for i := range a {
		if a[i] != b[i] {
			if a[i] < b[i] {
				return -1
			}
			return 1
		}
	}
	return 0
}

func sgn(n int) int {
	if n < 0 {
		return -1
	}
	if n > 0 {
		return 1
	}
	return 0
}

func checkCase() {
	f := genDate()
	d := mk(f)
	t.Q("new "+f.String(), fmt.Sprintf("%d %d", f[0]<<9|f[1]<<5|f[2], f[3]<<22|f[4]<<16|f[5]<<10|f[6]))
	if g := fieldsOf(d); g != f {
		fail("getters", fmt.Sprintf("NewDate(%v) has fields %v", f, g))
	}
	t.Q(fmt.Sprintf("fields %d %d", f[0]<<9|f[1]<<5|f[2], f[3]<<22|f[4]<<16|f[5]<<10|f[6]), fieldsOf(d).String())

	// --- sibling operations of the anchored code
	wd := d.WeekDay()
	t.Q("wday "+f.String(), fmt.Sprint(wd))
	if want := ((dayNo(f[0], f[1], f[2])+1)%7 + 7) % 7; wd != want { // 0001-01-01 was a Monday
		fail("weekday-vs-reference", fmt.Sprintf("%v.WeekDay() = %d, calendar reference %d", f, wd, want))
	}
	if back := SuDateFromUnixMilli(d.UnixMilli()); back != d {
		fail("unixmilli-roundtrip", fmt.Sprintf("SuDateFromUnixMilli(%v.UnixMilli()) = %v", f, fieldsOf(back)))
	}
	if w := d.WithoutMs(); fieldsOf(w) != (fields{f[0], f[1], f[2], f[3], f[4], f[5], 0}) {
		fail("withoutms", fmt.Sprintf("%v.WithoutMs() = %v", f, fieldsOf(w)))
	}
	if f[0] < 3000 {
		k := 1 + r.Intn(99)
		if f[6]+k >= 1000 {
			t.Count("addms:carry")
		}
		var a SuDate
		if e := lib.Catch(func() { a = d.AddMs(k) }); e == "" {
			// AddMs is only required to move forward by at least 1 ms and at most k ms
			// (its slow path adds a single millisecond)
			if diff := a.MinusMs(d); diff < 1 || diff > int64(k) {
				fail("addms", fmt.Sprintf("%v.AddMs(%d) = %v (difference %d ms)", f, k, fieldsOf(a), diff))
			}
		}
	}
	// --- addition
	off, kind := genOffset()
	t.Count("offset:" + kind)
	e, ok := plusImpl(d, off)
	var sum fields
	for i := range sum {
		sum[i] = f[i] + off[i]
	}
	ref, refok := refNormalize(sum)
	// NormalizeDate computes ms*1000000 nanoseconds in int64
	overflow := sum[6] > 9223372036854 || sum[6] < -9223372036854
	if overflow {
		t.Count("plus:ms-beyond-int64-ns")
		if !ok && refok || ok && (!refok || fieldsOf(e) != ref) {
			fail("plus-ms-overflow", fmt.Sprintf("%v.Plus(%v): implementation %v (ok=%v), calendar reference %v (valid %v)",
				f, off, fieldsOf(e), ok, ref, refok))
			if ok {
				t.Q(fmt.Sprintf("plus %v %v", f, off), fieldsOf(e).String())
			} else {
				t.Q(fmt.Sprintf("plus %v %v", f, off), "!bad")
			}
			return
		}
	}
	if !ok {
		t.Count("plus:out-of-range")
		t.Q(fmt.Sprintf("plus %v %v", f, off), "!bad")
		if refok {
			fail("plus-vs-reference", fmt.Sprintf("%v.Plus(%v) panics but the calendar result %v is a valid date", f, off, ref))
		}
	} else {
		t.Count("plus:ok")
		ef := fieldsOf(e)
		t.Q(fmt.Sprintf("plus %v %v", f, off), ef.String())
		if !refok || ref != ef {
			fail("plus-vs-reference", fmt.Sprintf("%v.Plus(%v) = %v, calendar reference %v (valid %v)", f, off, ef, ref, refok))
		}
		// differences consistent with additions
		if kind == "days" {
			if got := e.MinusDays(d); got != off[2] {
				fail("plus-days-minusdays", fmt.Sprintf("%v.Plus(days %d) = %v but MinusDays = %d", f, off[2], ef, got))
			}
		}
		if kind == "ms" || kind == "seconds" || kind == "minutes" || kind == "hours" {
			want := int64(off[6]) + 1000*(int64(off[5])+60*(int64(off[4])+60*int64(off[3])))
			if got := e.MinusMs(d); got != want {
				fail("plus-ms-minusms", fmt.Sprintf("%v.Plus(%v) = %v but MinusMs = %d want %d", f, off, ef, got, want))
			}
		}
		t.Q(fmt.Sprintf("mdays %v %v", ef, f), fmt.Sprint(e.MinusDays(d)))
		t.Q(fmt.Sprintf("mms %v %v", ef, f), fmt.Sprint(e.MinusMs(d)))
		// positive total offset <=> later date
		if kind != "mixed" && kind != "months" && kind != "years" {
			s := 0
			for _, x := range off {
				s += sgn(x)
			}
			if sgn(e.Compare(d)) != sgn(s) {
				fail("plus-order", fmt.Sprintf("%v.Plus(%v) = %v compares %d", f, off, ef, e.Compare(d)))
			}
		}
		// day additions compose
		if kind == "days" {
			k := r.Intn(2001) - 1000
			if e2, ok2 := plusImpl(e, fields{0, 0, k, 0, 0, 0, 0}); ok2 {
				if e3, ok3 := plusImpl(d, fields{0, 0, off[2] + k, 0, 0, 0, 0}); !ok3 || e3 != e2 {
					fail("plus-compose", fmt.Sprintf("%v + %d days + %d days = %v but + %d days = %v", f, off[2], k, fieldsOf(e2), off[2]+k, fieldsOf(e3)))
				}
			}
		}
		// month addition and subtraction from a day that exists in every month
		if kind == "months" && f[2] <= 28 {
			if back, ok2 := plusImpl(e, fields{0, -off[1], 0, 0, 0, 0, 0}); !ok2 || back != d {
				fail("plus-months-inverse", fmt.Sprintf("%v + %d months - %d months = %v", f, off[1], off[1], fieldsOf(back)))
			}
		}
		// order: Compare = chronological = packed bytes
		c := sgn(d.Compare(e))
		t.Q(fmt.Sprintf("cmp %v %v", f, ef), fmt.Sprint(c))
		if c != cmpFields(f, ef) {
			fail("order-chronological", fmt.Sprintf("Compare(%v, %v) = %d, fields compare %d", f, ef, c, cmpFields(f, ef)))
		}
		if cb := strings.Compare(PackValue(d), PackValue(e)); cb != c {
			fail("order-packed", fmt.Sprintf("Compare(%v, %v) = %d, packed bytes compare %d", f, ef, c, cb))
		}
	}
	// NormalizeDate directly on overflowed fields
	nd := NormalizeDate(sum[0], sum[1], sum[2], sum[3], sum[4], sum[5], sum[6])
	if nd == NilDate {
		t.Q("norm "+sum.String(), "!nil")
	} else {
		t.Q("norm "+sum.String(), fieldsOf(nd).String())
	}
	// a second independent date: differences and order
	g := genDate()
	if r.Intn(3) == 0 && f[0] != 3000 { // same day, other time
		g[0], g[1], g[2] = f[0], f[1], f[2]
	}
	d2 := mk(g)
	t.Q(fmt.Sprintf("mdays %v %v", f, g), fmt.Sprint(d.MinusDays(d2)))
	t.Q(fmt.Sprintf("mms %v %v", f, g), fmt.Sprint(d.MinusMs(d2)))
	if want := dayNo(f[0], f[1], f[2]) - dayNo(g[0], g[1], g[2]); d.MinusDays(d2) != want {
		fail("minusdays-vs-reference", fmt.Sprintf("%v.MinusDays(%v) = %d, calendar reference %d", f, g, d.MinusDays(d2), want))
	}
	wantMs := int64(dayNo(f[0], f[1], f[2])-dayNo(g[0], g[1], g[2]))*86400000 +
		int64(f[6]-g[6]) + 1000*(int64(f[5]-g[5])+60*(int64(f[4]-g[4])+60*int64(f[3]-g[3])))
	if d.MinusMs(d2) != wantMs {
		fail("minusms-vs-reference", fmt.Sprintf("%v.MinusMs(%v) = %d, calendar reference %d", f, g, d.MinusMs(d2), wantMs))
	}
	if back, ok := plusImpl(d2, fields{0, 0, d.MinusDays(d2), 0, 0, 0, 0}); ok {
		bf := fieldsOf(back)
		if bf[0] != f[0] || bf[1] != f[1] || bf[2] != f[2] {
			fail("minusdays-plus", fmt.Sprintf("%v + (%v - %v in days) = %v", g, f, g, bf))
		}
	}
	c := sgn(d.Compare(d2))
	t.Q(fmt.Sprintf("cmp %v %v", f, g), fmt.Sprint(c))
	if c != cmpFields(f, g) {
		fail("order-chronological", fmt.Sprintf("Compare(%v, %v) = %d, fields compare %d", f, g, c, cmpFields(f, g)))
	}
	// --- literal round trip
	s := d.String()
	t.Q("str "+f.String(), lib.X(s))
	switch len(s) {
	case 9:
		t.Count("literal:date")
	case 14:
		t.Count("literal:hhmm")
	case 16:
		t.Count("literal:hhmmss")
	default:
		t.Count("literal:full")
	}
	checkLiteral(s, d, "literal-roundtrip")
	checkLiteral(s[1:], d, "literal-roundtrip") // without the #
	// timestamp
	extra := 1 + r.Intn(255)
	if r.Intn(4) == 0 {
		extra = []int{1, 255}[r.Intn(2)]
	}
	lit := fmt.Sprintf("#%04d%02d%02d.%02d%02d%02d%03d%03d", f[0], f[1], f[2], f[3], f[4], f[5], f[6], extra)
	ts := DateFromLiteral(lit)
	t.Q("lit "+lib.X(lit), litOut(ts))
	if st, ok := ts.(SuTimestamp); !ok || st.SuDate != d || st.String() != lit {
		fail("ts-literal-roundtrip", fmt.Sprintf("DateFromLiteral(%s) = %v", lit, ts))
	} else {
		t.Q(fmt.Sprintf("tsstr %v %d", f, extra), lib.X(st.String()))
		// a timestamp sorts just after its date and before the next millisecond
		if sgn(d.Compare(st)) != -1 || sgn(st.Compare(d)) != 1 {
			fail("ts-order", fmt.Sprintf("Compare(%v, %v) = %d", d, st, d.Compare(st)))
		}
		x2 := 1 + r.Intn(255)
		lit2 := fmt.Sprintf("%s%03d", lit[:19], x2)
		if st2, ok := DateFromLiteral(lit2).(SuTimestamp); ok {
			t.Q(fmt.Sprintf("cmpts %v %d %v %d", f, extra, f, x2), fmt.Sprint(sgn(st.Compare(st2))))
			if sgn(st.Compare(st2)) != sgn(extra-x2) {
				fail("ts-order", fmt.Sprintf("Compare(%v, %v) = %d", st, st2, st.Compare(st2)))
			}
		}
	}
}

func litOut(v Value) string {
	switch x := v.(type) {
	case SuDate:
		if x == NilDate {
			return "!nil"
		}
		return "d " + fieldsOf(x).String()
	case SuTimestamp:
		s := x.String()
		extra := 0
		fmt.Sscanf(s[len(s)-3:], "%d", &extra)
		return fmt.Sprintf("t %v %d", fieldsOf(x.SuDate), extra)
	}
	return "?"
}

func checkLiteral(s string, d SuDate, sig string) {
	var v Value
	if e := lib.Catch(func() { v = DateFromLiteral(s) }); e != "" {
		fail(sig, fmt.Sprintf("DateFromLiteral(%q) panics: %s", s, e))
		return
	}
	t.Q("lit "+lib.X(s), litOut(v))
	if v != Value(d) {
		fail(sig, fmt.Sprintf("DateFromLiteral(%q) = %v, want %v", s, v, d))
	}
}

// malformed stream: NewDate with out-of-range fields, DateFromLiteral with bad text
func malformed() {
	f := genDate()
	switch r.Intn(12) {
	case 0:
		f[1] = []int{0, 13, -1}[r.Intn(3)]
	case 1:
		f[2] = []int{0, 32, -1}[r.Intn(3)]
	case 2:
		f[1], f[2] = 2, 29+r.Intn(3)
	case 3:
		f[1], f[2] = []int{4, 6, 9, 11}[r.Intn(4)], 31
	case 4:
		f[3] = 24
	case 5:
		f[4] = 60
	case 6:
		f[5] = 60
	case 7:
		f[6] = 1000
	case 8:
		f[0] = []int{-1, 3001, 3000}[r.Intn(3)]
	case 9:
		f[0], f[1], f[2] = []int{1700, 1900, 2100, 2000, 2400}[r.Intn(5)], 2, 29
	case 10:
		f[0] = r.Intn(1700)
	default:
		f[6] = -1
	}
	d := mk(f)
	valid := d != NilDate
	if valid {
		t.Count("malformed-new:valid")
		t.Q("new "+f.String(), fmt.Sprintf("%d %d", f[0]<<9|f[1]<<5|f[2], f[3]<<22|f[4]<<16|f[5]<<10|f[6]))
	} else {
		t.Count("malformed-new:nil")
		t.Q("new "+f.String(), "!nil")
	}
	if valid != refValid(f) {
		fail("valid-vs-calendar", fmt.Sprintf("NewDate(%v) valid=%v, calendar says %v", f, valid, refValid(f)))
	}
	// literal text
	g := genDate()
	lit := fmt.Sprintf("%04d%02d%02d.%02d%02d%02d%03d", g[0], g[1], g[2], g[3], g[4], g[5], g[6])
	switch r.Intn(9) {
	case 0:
		lit = lit[:r.Intn(len(lit))+1]
	case 1:
		b := []byte(lit)
		b[r.Intn(len(b))] = "x:/ a"[r.Intn(5)]
		lit = string(b)
	case 2:
		lit += fmt.Sprintf("%03d", []int{0, 256, 999, 1, 255, 100}[r.Intn(6)])
	case 3:
		lit = lit[:8] + lit[9:]
	case 4:
		lit = fmt.Sprintf("%04d%02d%02d.%02d%02d", g[0], 13, g[2], g[3], g[4])
	case 5:
		lit = fmt.Sprintf("%04d%02d%02d.%02d%02d", g[0], 2, 30, g[3], 60)
	case 6:
		lit = fmt.Sprintf("%04d%02d%02d.%02d%02d%02d%03d%03d", g[0], 2, 31, g[3], g[4], g[5], g[6], 7) // timestamp of a bad date
	case 7:
		lit = lit + "0"
	default:
		lit = "#" + lit[:8] + "." + lit[9:13]
	}
	if r.Intn(2) == 0 && !strings.HasPrefix(lit, "#") {
		lit = "#" + lit
	}
	if lit == "" || lit == "#" {
		return
	}
	var v Value
	if e := lib.Catch(func() { v = DateFromLiteral(lit) }); e != "" {
		t.Count("malformed-lit:panic")
		return // not modelled (index out of range on degenerate text)
	}
	t.Count("malformed-lit:" + strings.SplitN(litOut(v), " ", 2)[0])
	t.Q("lit "+lib.X(lit), litOut(v))
}

func main() {
	time.Local = time.UTC // valid()/UnixMilli go through time.Local; keep the run zone independent
	t = lib.Open()
	defer t.Close()
	r = lib.Rand()
	n := lib.N(3000)
	// fixed cases: every month end of leap / non-leap / century years plus one day, minus one day
	for _, y := range []int{1700, 1900, 2000, 2023, 2024, 2100, 2400, 2999} {
		for m := 1; m <= 12; m++ {
			f := fields{y, m, dim(y, m), 23, 59, 59, 999}
			d := mk(f)
			for _, off := range []fields{{0, 0, 1, 0, 0, 0, 0}, {0, 0, 0, 0, 0, 0, 1}, {0, 1, 0, 0, 0, 0, 0}, {1, 0, 0, 0, 0, 0, 0}, {0, 0, -dim(y, m), 0, 0, 0, 0}} {
				var sum fields
				for i := range sum {
					sum[i] = f[i] + off[i]
				}
				ref, refok := refNormalize(sum)
				e, ok := plusImpl(d, off)
				if ok != refok || (ok && fieldsOf(e) != ref) {
					fail("plus-vs-reference", fmt.Sprintf("%v.Plus(%v) = %v ok=%v, reference %v ok=%v", f, off, fieldsOf(e), ok, ref, refok))
				}
				if ok {
					t.Q(fmt.Sprintf("plus %v %v", f, off), fieldsOf(e).String())
				} else {
					t.Q(fmt.Sprintf("plus %v %v", f, off), "!bad")
				}
			}
			t.Q(fmt.Sprintf("jdn %d %d %d", y, m, f[2]), fmt.Sprint(mk(f).MinusDays(mk(fields{2000, 1, 1, 0, 0, 0, 0}))+2451545))
		}
	}
	for i := 0; i < n; i++ {
		checkCase()
		if i%3 == 0 {
			malformed()
		}
	}
}
