// C29 correspondence suite: closures and blocks follow the documented scoping model.
//
// Generated programs of a mini block language (nesting <= 3, block parameters, assignments,
// blocks stored in variables and called, blocks escaping from their creator, recursion through
// shared names) are compiled with compile.Constant and run on a fresh Thread.
//
//	Q run <arg> <program>   result (integer | BLOCK | exception) vs the Lean reference semantics
//	Q caf <program>         Block.CompileAsFunction of every block after ast.Blocks (pre-order)
//	                        vs the model's sharing analysis
//	F scoping-…             direct oracle: the result differs from the Go reference interpreter of
//	                        the documented rules (same rules as the Lean model, written independently
//	                        with maps and pointers), or a block compiled as a plain function
//	                        changes the result (the program is re-run with every block forced
//	                        to be a closure by an extra shared variable)
package main

import (
	"fmt"
	"math/rand"
	"strings"

	"github.com/apmckinlay/gsuneido/compile"
	"github.com/apmckinlay/gsuneido/compile/ast"
	"github.com/apmckinlay/gsuneido/core"
	"verif/harness/lib"
)

type Scope struct {
	id     int
	parent *Scope // enclosing scope sharing names with this one (nil for functions)
	isFn   bool   // nested function literal: a scoping root
	params []string
	body   []*Stmt
	result *Expr
	uses   map[string]bool
	avoid  string   // a name of the enclosing scopes that this block mentions only as its catch variable
	kids   []*Scope // blocks written directly in this scope (not nested functions)
	fns    []*Scope // nested function literals written directly in this scope
}
type Stmt struct {
	kind  string // "=" assign, "?" if (c) is 0 { name = e }, "t" try { name = e } catch (catch) { }, "r" return e
	name  string
	e     *Expr
	c     *Expr
	catch string
}
type Expr struct {
	kind string // num var add call block fn
	n    int
	name string
	a, b *Expr
	blk  *Scope
}

var r *rand.Rand
var nscope int
var names = []string{"x", "y", "z", "f", "g", "e"} // e: mostly a catch variable / conditionally assigned

func nameIdx(s string) int {
	for i, n := range names {
		if n == s {
			return i
		}
	}
	return 9
}

func isParam(s *Scope, v string) bool {
	for _, p := range s.params {
		if p == v {
			return true
		}
	}
	return false
}

func genScope(parent *Scope, depth int, nparams int, isFn bool) *Scope {
	nscope++
	s := &Scope{id: nscope, parent: parent, isFn: isFn, uses: map[string]bool{}}
	if isFn {
		s.parent = nil
		if parent != nil {
			parent.fns = append(parent.fns, s)
		}
	} else if parent != nil {
		parent.kids = append(parent.kids, s)
	}
	if !isFn && parent != nil && r.Intn(4) == 0 {
		// "only mention is the catch clause": pick a value name an enclosing scope uses
		var cands []string
		for _, n := range []string{"x", "y", "z", "e"} {
			for q := parent; q != nil; q = q.parent {
				if q.uses[n] {
					cands = append(cands, n)
					break
				}
			}
		}
		if len(cands) > 0 {
			s.avoid = cands[r.Intn(len(cands))]
		}
	}
	for i := 0; i < nparams; i++ {
		p := names[r.Intn(3)]
		if p == s.avoid {
			continue
		}
		if !isParam(s, p) {
			s.params = append(s.params, p)
			s.uses[p] = true
		}
	}
	for _, nm := range names[:5] {
		if r.Intn(3) == 0 && !isParam(s, nm) && nm != s.avoid {
			var e *Expr
			if nm == "f" || nm == "g" {
				if depth > 0 {
					e = genLiteral(s, depth, 1)
				} else {
					continue
				}
			} else {
				e = &Expr{kind: "num", n: r.Intn(5)}
			}
			s.uses[nm] = true
			s.body = append(s.body, &Stmt{kind: "=", name: nm, e: e})
		}
	}
	if isFn && parent != nil && depth > 0 && r.Intn(2) == 0 {
		// a nested function that calls a block of its own containing `return`
		// (early return out of the block must leave exactly this function)
		fname := names[3+r.Intn(2)]
		blk := genScope(s, depth-1, 1, false)
		hasRet := false
		for _, st := range blk.body {
			hasRet = hasRet || st.kind == "r"
		}
		if !hasRet {
			at := r.Intn(len(blk.body) + 1)
			st := &Stmt{kind: "r", e: genExpr(blk, 0, false)}
			blk.body = append(blk.body[:at], append([]*Stmt{st}, blk.body[at:]...)...)
		}
		s.uses[fname] = true
		s.body = append(s.body, &Stmt{kind: "=", name: fname, e: &Expr{kind: "block", blk: blk}})
		v := []string{"x", "y", "z", "e"}[r.Intn(4)]
		s.uses[v] = true
		s.body = append(s.body, &Stmt{kind: "=", name: v,
			e: &Expr{kind: "call", name: fname, a: &Expr{kind: "num", n: r.Intn(5)}}})
	}
	n := 1 + r.Intn(4)
	readNext := ""
	for i := 0; i < n; i++ {
		// mostly value names; f and g mostly hold blocks / functions so that calls succeed
		name := []string{"x", "y", "z", "e"}[r.Intn(4)]
		for name == s.avoid {
			name = []string{"x", "y", "z", "e"}[r.Intn(4)]
		}
		st := &Stmt{kind: "=", name: name}
		if s.avoid != "" && i == 0 {
			// try { name = <fails> } catch (avoid) { }
			fname := names[3+r.Intn(2)]
			s.uses[fname] = true
			st.kind = "t"
			st.e = &Expr{kind: "add", a: &Expr{kind: "num", n: r.Intn(5)}, b: &Expr{kind: "var", name: fname}}
			st.catch = s.avoid
			s.uses[s.avoid] = true
			s.uses[name] = true
			s.body = append(s.body, st)
			continue
		}
		switch k := r.Intn(20); {
		case k < 3:
			// conditional assignment: a later call can find the name uninitialized
			st.kind = "?"
			if len(s.params) > 0 && r.Intn(2) == 0 {
				st.c = &Expr{kind: "var", name: s.params[0]}
			} else {
				st.c = genExpr(s, depth, false)
			}
			st.e = genExpr(s, depth, false)
			if r.Intn(2) == 0 {
				readNext = name
			}
		case k < 6:
			st.kind = "t"
			if r.Intn(2) == 0 {
				// an addition that fails when f / g holds a block (or is not set)
				fname := names[3+r.Intn(2)]
				s.uses[fname] = true
				st.e = &Expr{kind: "add", a: &Expr{kind: "num", n: r.Intn(5)}, b: &Expr{kind: "var", name: fname}}
			} else {
				st.e = genExpr(s, depth, true)
			}
			st.catch = names[r.Intn(3)]
			if r.Intn(2) == 0 {
				st.catch = "e"
			}
			s.uses[st.catch] = true
		case k < 8 || (k < 10 && parent != nil && !isFn):
			st.kind = "r"
			st.e = genExpr(s, depth, false)
			s.body = append(s.body, st)
			continue
		case k < 10 && depth > 0:
			st.name = names[3+r.Intn(2)]
			st.e = genLiteral(s, depth, 1)
		case k < 11 && s.avoid == "":
			st.name = names[r.Intn(len(names))]
			st.e = genExpr(s, depth, true)
		default:
			st.e = genExpr(s, depth, true)
		}
		s.uses[st.name] = true
		s.body = append(s.body, st)
	}
	if readNext != "" {
		// read the conditionally assigned name afterwards
		s.result = &Expr{kind: "var", name: readNext}
	} else {
		s.result = genExpr(s, depth, true)
	}
	return s
}

// genLiteral: a block, or (1 in 6) a nested function literal
func genLiteral(s *Scope, depth, nparams int) *Expr {
	if r.Intn(3) == 0 {
		return &Expr{kind: "fn", blk: genScope(s, depth-1, nparams, true)}
	}
	return &Expr{kind: "block", blk: genScope(s, depth-1, nparams, false)}
}

// pick prefers (4 times out of 5) a name already used in this scope or an enclosing one, so that
// most programs run without "uninitialized variable"
func pick(s *Scope, from []string) string {
	if s.avoid != "" {
		var f2 []string
		for _, n := range from {
			if n != s.avoid {
				f2 = append(f2, n)
			}
		}
		from = f2
	}
	if r.Intn(5) != 0 {
		var known []string
		for _, n := range from {
			for p := s; p != nil; p = p.parent {
				if p.uses[n] {
					known = append(known, n)
					break
				}
			}
		}
		if len(known) > 0 {
			return known[r.Intn(len(known))]
		}
	}
	return from[r.Intn(len(from))]
}

// genExpr: lit says whether a block / function literal may stand here (right-hand side, call
// argument, result) — not as an operand of +, which would only throw
func genExpr(s *Scope, depth int, lit bool) *Expr {
	switch k := r.Intn(10); {
	case k < 2:
		return &Expr{kind: "num", n: r.Intn(5)}
	case k < 5:
		name := pick(s, []string{"x", "y", "z", "e"})
		if r.Intn(8) == 0 {
			name = pick(s, names)
		}
		s.uses[name] = true
		return &Expr{kind: "var", name: name}
	case k < 6:
		return &Expr{kind: "add", a: genExpr(s, depth, false), b: genExpr(s, depth, false)}
	case k < 8:
		name := pick(s, names[3:5])
		s.uses[name] = true
		return &Expr{kind: "call", name: name, a: genExpr(s, depth, true)}
	default:
		if depth <= 0 || !lit {
			return &Expr{kind: "num", n: 7}
		}
		return genLiteral(s, depth, r.Intn(2))
	}
}

func (e *Expr) src(force bool) string {
	switch e.kind {
	case "num":
		return fmt.Sprint(e.n)
	case "var":
		return e.name
	case "add":
		return "(" + e.a.src(force) + " + " + e.b.src(force) + ")"
	case "call":
		return e.name + "(" + e.a.src(force) + ")"
	case "block", "fn":
		return e.blk.src(force)
	}
	panic("?")
}

// src renders the program; force adds `qq = 0` to the function and `qq` reads to every block,
// which makes every block share a variable with the outermost function (=> all closures)
func (s *Scope) src(force bool) string {
	var sb strings.Builder
	fn := s.parent == nil
	if fn {
		sb.WriteString("function (" + strings.Join(s.params, ", ") + ") { ")
		if force {
			sb.WriteString("qq = 0; ")
		}
	} else {
		sb.WriteString("{|" + strings.Join(s.params, ", ") + "| ")
		if force {
			sb.WriteString("qq; ")
		}
	}
	for _, st := range s.body {
		switch st.kind {
		case "=":
			sb.WriteString(st.name + " = " + st.e.src(force) + "; ")
		case "?":
			sb.WriteString("if ((" + st.c.src(force) + ") is 0) { " + st.name + " = " + st.e.src(force) + " }; ")
		case "t":
			sb.WriteString("try { " + st.name + " = " + st.e.src(force) + " } catch (" + st.catch + ") { }; ")
		case "r":
			sb.WriteString("return " + st.e.src(force) + "; ")
		}
	}
	if fn {
		sb.WriteString("return " + s.result.src(force) + " }")
	} else {
		sb.WriteString(s.result.src(force) + " }")
	}
	return sb.String()
}

func (e *Expr) lean(sb *strings.Builder) {
	switch e.kind {
	case "num":
		fmt.Fprintf(sb, "n%d", e.n)
	case "var":
		fmt.Fprintf(sb, "v%d", nameIdx(e.name))
	case "add":
		sb.WriteString("( + ")
		e.a.lean(sb)
		sb.WriteString(" ")
		e.b.lean(sb)
		sb.WriteString(" )")
	case "call":
		fmt.Fprintf(sb, "( c %d ", nameIdx(e.name))
		e.a.lean(sb)
		sb.WriteString(" )")
	case "block":
		e.blk.lean(sb)
	case "fn":
		sb.WriteString("( F ")
		e.blk.lean(sb)
		sb.WriteString(" )")
	}
}

func (s *Scope) lean(sb *strings.Builder) {
	fmt.Fprintf(sb, "( s %d %d", s.id, len(s.params))
	for _, p := range s.params {
		fmt.Fprintf(sb, " %d", nameIdx(p))
	}
	fmt.Fprintf(sb, " %d", len(s.body))
	for _, st := range s.body {
		switch st.kind {
		case "=":
			fmt.Fprintf(sb, " = %d ", nameIdx(st.name))
			st.e.lean(sb)
		case "?":
			sb.WriteString(" ? ")
			st.c.lean(sb)
			fmt.Fprintf(sb, " %d ", nameIdx(st.name))
			st.e.lean(sb)
		case "t":
			fmt.Fprintf(sb, " t %d ", nameIdx(st.name))
			st.e.lean(sb)
			fmt.Fprintf(sb, " %d", nameIdx(st.catch))
		case "r":
			sb.WriteString(" r ")
			st.e.lean(sb)
		}
	}
	sb.WriteString(" ")
	s.result.lean(sb)
	sb.WriteString(" )")
}

// ---------- Go reference interpreter of the documented rules
type cell struct {
	v   any
	set bool
}
type activation struct {
	store  map[string]*cell // shared cells of this call of a function
	active bool
}
type closure struct {
	s   *Scope
	act *activation
}
type function struct{ s *Scope }
type excStr struct{}

// blockReturn unwinds to the function activation that lexically contains the `return`
type blockReturn struct {
	act *activation
	v   any
}

// undefinedProgram: a `return` in a block whose function has already returned (the
// implementation's behaviour then depends on frame reuse; not covered by the documented model)
type undefinedProgram struct{}

func binding(s *Scope, v string) *Scope {
	if isParam(s, v) {
		return s
	}
	for p := s.parent; p != nil; p = p.parent {
		if p.uses[v] {
			return binding(p, v)
		}
	}
	return s
}

func shared(P *Scope, v string) bool {
	var walk func(s *Scope) bool
	walk = func(s *Scope) bool {
		for _, k := range s.kids {
			if k.uses[v] && binding(k, v) == P {
				return true
			}
			if walk(k) {
				return true
			}
		}
		return false
	}
	return walk(P)
}

type frame struct {
	s      *Scope
	locals map[string]*cell
	act    *activation
}

func (f *frame) cellOf(v string) *cell {
	P := binding(f.s, v)
	if P != f.s || shared(P, v) {
		key := fmt.Sprint(P.id, ":", v)
		c := f.act.store[key]
		if c == nil {
			c = &cell{}
			f.act.store[key] = c
		}
		return c
	}
	c := f.locals[v]
	if c == nil {
		c = &cell{}
		f.locals[v] = c
	}
	return c
}

var steps int

// invoke runs one call of a block (act = its creator's activation) or of a function (act == nil)
func invoke(s *Scope, act *activation, args []any) (result any) {
	if steps++; steps > 1500 {
		panic("too many steps")
	}
	isFn := act == nil
	if isFn {
		act = &activation{store: map[string]*cell{}, active: true}
		defer func() {
			act.active = false
			if e := recover(); e != nil {
				if br, ok := e.(blockReturn); ok && br.act == act {
					result = br.v
					return
				}
				panic(e)
			}
		}()
	}
	f := &frame{s: s, locals: map[string]*cell{}, act: act}
	if len(args) != len(s.params) {
		panic("wrong number of arguments")
	}
	for i, p := range s.params {
		c := f.cellOf(p)
		c.v, c.set = args[i], true
	}
	set := func(name string, v any) {
		c := f.cellOf(name)
		c.v, c.set = v, true
	}
	for _, st := range s.body {
		switch st.kind {
		case "=":
			set(st.name, eval(f, st.e))
		case "?":
			if c, ok := eval(f, st.c).(int); ok && c == 0 {
				set(st.name, eval(f, st.e))
			}
		case "t":
			func() {
				defer func() {
					if e := recover(); e != nil {
						switch e.(type) {
						case blockReturn, undefinedProgram:
							panic(e)
						}
						if msg, ok := e.(string); ok && msg == "too many steps" {
							panic(e)
						}
						set(st.catch, excStr{})
					}
				}()
				set(st.name, eval(f, st.e))
			}()
		case "r":
			v := eval(f, st.e)
			if !act.active {
				panic(undefinedProgram{})
			}
			panic(blockReturn{act, v})
		}
	}
	return eval(f, s.result)
}

func eval(f *frame, e *Expr) any {
	switch e.kind {
	case "num":
		return e.n
	case "var":
		c := f.cellOf(e.name)
		if !c.set {
			panic("uninitialized variable: " + e.name)
		}
		return c.v
	case "add":
		// the compiler flattens parenthesised nested additions into one left-to-right chain and
		// merges their literals: a + (b + c) checks a + b before c is evaluated
		ops := foldAdd(e)
		acc := eval(f, ops[0])
		for _, o := range ops[1:] {
			v := eval(f, o)
			x, ok1 := acc.(int)
			y, ok2 := v.(int)
			if !ok1 || !ok2 {
				panic("can't convert to number")
			}
			acc = x + y
		}
		return acc
	case "call":
		arg := eval(f, e.a)
		c := f.cellOf(e.name)
		if !c.set {
			panic("uninitialized variable: " + e.name)
		}
		switch cl := c.v.(type) {
		case *closure:
			if len(cl.s.params) != 1 {
				panic("wrong number of arguments")
			}
			return invoke(cl.s, cl.act, []any{arg})
		case *function:
			if len(cl.s.params) != 1 {
				panic("wrong number of arguments")
			}
			return invoke(cl.s, nil, []any{arg})
		}
		panic("can't call")
	case "block":
		return &closure{s: e.blk, act: f.act}
	case "fn":
		return &function{s: e.blk}
	}
	panic("?")
}

// foldAdd: the operand chain the compiler really evaluates for a (nested, parenthesised) addition.
// The folder works bottom-up (compile/ast/folder.go commutative): at each `a + b` a number literal
// 0 is dropped, other literals are added into the position of the first one, an operand that is
// itself a folded addition is spliced in as it is (its own literal is not merged again), a chain
// left with one non-constant operand gets `+ 0` back, and an addition of literals only is a
// literal. Values are unaffected (exact integers); the order in which operands are evaluated and
// checked is.
func foldAdd(e *Expr) []*Expr {
	var pre, post []*Expr
	var k *int
	keep := func(x *Expr) {
		if k == nil {
			pre = append(pre, x)
		} else {
			post = append(post, x)
		}
	}
	for _, it := range []*Expr{e.a, e.b} {
		if it.kind == "add" {
			ops := foldAdd(it)
			if !(len(ops) == 1 && ops[0].kind == "num") {
				for _, o := range ops {
					keep(o)
				}
				continue
			}
			it = ops[0]
		}
		if it.kind == "num" {
			if it.n == 0 {
				continue
			}
			if k == nil {
				v := it.n
				k = &v
			} else {
				*k += it.n
			}
			continue
		}
		keep(it)
	}
	if k != nil {
		out := append([]*Expr{}, pre...)
		out = append(out, &Expr{kind: "num", n: *k})
		return append(out, post...)
	}
	switch len(pre) {
	case 0:
		return []*Expr{{kind: "num", n: 0}}
	case 1:
		return []*Expr{pre[0], {kind: "num", n: 0}}
	}
	return pre
}

func refRun(s *Scope, arg int) (res string) {
	defer func() {
		if e := recover(); e != nil {
			if _, ok := e.(undefinedProgram); ok {
				res = "UNDEFINED"
				return
			}
			if _, ok := e.(blockReturn); ok {
				res = "UNDEFINED"
				return
			}
			res = "ERR " + fmt.Sprint(e)
		}
	}()
	steps = 0
	args := []any{}
	for range s.params {
		args = append(args, arg)
	}
	switch v := invoke(s, nil, args).(type) {
	case int:
		return fmt.Sprint(v)
	case excStr:
		return "STR"
	default:
		return "BLOCK"
	}
}

func realRun(src string, nparams, arg int) (res string) {
	defer func() {
		if e := recover(); e != nil {
			res = "ERR " + fmt.Sprint(e)
		}
	}()
	fn := compile.Constant(src)
	var args []core.Value
	for i := 0; i < nparams; i++ {
		args = append(args, core.IntVal(arg))
	}
	th := core.NewThread(nil) // a panicked call leaves its frames on the thread
	v := th.Call(fn, args...)
	if v == nil {
		return "nil"
	}
	if _, ok := v.(*core.SuExcept); ok {
		return "STR"
	}
	if _, ok := v.ToStr(); ok {
		return "STR"
	}
	if _, ok := v.ToInt(); ok {
		return v.String()
	}
	return "BLOCK"
}

func class(s string) string {
	if strings.HasPrefix(s, "ERR") {
		if strings.Contains(s, "too many steps") || strings.Contains(s, "overflow") || strings.Contains(s, "nesting") {
			return "ERR-loop"
		}
		return "ERR"
	}
	return s
}

func canon(s string) string {
	switch c := class(s); c {
	case "ERR", "ERR-loop":
		return "!err"
	case "BLOCK", "STR":
		return c
	default:
		return "i" + c
	}
}

// cafTable: CompileAsFunction of every block, pre-order, as ast.Blocks decides
func cafTable(src string, s *Scope) (res string) {
	defer func() {
		if e := recover(); e != nil {
			res = "!err"
		}
	}()
	f := compile.NewParser(src).Function()
	if f.HasBlocks {
		ast.Blocks(f)
	}
	var flags []bool
	var visit func(n ast.Node) ast.Node
	visit = func(n ast.Node) ast.Node {
		if b, ok := n.(*ast.Block); ok {
			flags = append(flags, b.CompileAsFunction)
		}
		n.Children(visit)
		return n
	}
	f.Children(visit)
	var ids []int
	var pre func(*Scope)
	pre = func(x *Scope) {
		for _, k := range x.kids {
			ids = append(ids, k.id)
			pre(k)
		}
	}
	pre(s)
	if len(ids) != len(flags) {
		return fmt.Sprintf("?blocks %d/%d", len(flags), len(ids))
	}
	if len(ids) == 0 {
		return "-"
	}
	parts := make([]string, len(ids))
	for i := range ids {
		c := "c"
		if flags[i] {
			c = "f"
		}
		parts[i] = fmt.Sprintf("%d:%s", ids[i], c)
	}
	return strings.Join(parts, " ")
}

func depthOf(s *Scope) int {
	d := 0
	for _, k := range s.kids {
		if x := depthOf(k) + 1; x > d {
			d = x
		}
	}
	return d
}

func main() {
	t := lib.Open()
	defer t.Close()
	r = lib.Rand()
	n := lib.N(4000)
	for i := 0; i < n; i++ {
		nscope = 0
		s := genScope(nil, 2+r.Intn(2), r.Intn(2), true)
		src := s.src(false)
		ref := refRun(s, 3)
		if class(ref) == "ERR-loop" {
			t.Count("skipped:unbounded-recursion")
			continue
		}
		if ref == "UNDEFINED" {
			t.Count("skipped:return-from-block-of-finished-function")
			continue
		}
		real := realRun(src, len(s.params), 3)
		if strings.Contains(real, "possibly uninitialized") || strings.Contains(real, "cannot do math on") ||
			strings.Contains(real, "nested try not supported") {
			// deliberate static checks of the compiler (PropFold, folder, parser)
			t.Count("skipped:rejected-statically")
			continue
		}
		if strings.Contains(real, "compile error") || strings.Contains(real, "syntax error") {
			t.Fail("scoping-program-does-not-compile", fmt.Sprintf("%s: %s (documented rules: %s)", src, real, ref))
			continue
		}
		if class(real) == "ERR-loop" {
			t.Count("skipped:unbounded-recursion")
			continue
		}
		t.Count(fmt.Sprintf("nesting=%d", depthOf(s)))
		t.Count(fmt.Sprintf("blocks=%d", min(nscope-1, 8)))
		switch class(ref) {
		case "ERR":
			t.Count("outcome:exception")
		case "BLOCK":
			t.Count("outcome:block-escapes")
		case "STR":
			t.Count("outcome:caught-exception-value")
		default:
			t.Count("outcome:integer")
		}
		if class(ref) != class(real) {
			t.Fail("scoping-differs-from-documented-model",
				fmt.Sprintf("%s with every parameter 3: implementation %s, documented rules %s", src, real, ref))
		}
		// closure vs plain function: forcing every block to be a closure must not change the result
		caf := cafTable(src, s)
		if strings.Contains(caf, ":f") {
			t.Count("has-block-compiled-as-function")
			forced := realRun(s.src(true), len(s.params), 3)
			if strings.Contains(forced, "compile error") {
				// `qq = 0` makes PropFold run, whose static "possibly uninitialized" check rejects it
				t.Count("forced-variant-rejected-statically")
			} else if class(forced) != class(real) {
				t.Fail("scoping-closure-vs-function",
					fmt.Sprintf("%s: as compiled %s, with every block a closure %s", src, real, forced))
			}
		}
		var sb strings.Builder
		s.lean(&sb)
		t.Q("run 3 "+sb.String(), canon(real))
		t.Q("caf "+sb.String(), caf)
		if i < 3 {
			t.Sample(src + " => " + real)
		}
	}
}
