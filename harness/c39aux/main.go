// C39Aux correspondence suite: the secondary containers of property C39
// (util/sortlist, util/bloom, util/roaring, util/lrucache, util/cache, util/shmap) against
// the Lean mirrors in Gsu.Model.Containers (driver C39Aux), plus direct oracles against plain
// Go reference structures (map / sorted slice).
package main

import (
	"fmt"
	"math/rand"
	"os"
	"sort"
	"strconv"
	"strings"

	"github.com/apmckinlay/gsuneido/util/bloom"
	"github.com/apmckinlay/gsuneido/util/sortlist"
	"verif/harness/lib"
)

const slBlock = 4096 // sortlist.blockSize (unexported); only used to place sizes at the boundaries

func u64s(a []uint64) string {
	if len(a) == 0 {
		return "-"
	}
	var sb strings.Builder
	for i, x := range a {
		if i > 0 {
			sb.WriteByte(',')
		}
		sb.WriteString(strconv.FormatUint(x, 10))
	}
	return sb.String()
}

// ---------------------------------------------------------------- sortlist

type slKey struct {
	sh  uint
	rev bool
}

func (k slKey) key(x uint64) uint64 {
	y := x >> k.sh
	if k.rev {
		return (1<<40 - 1) - y
	}
	return y
}
func (k slKey) less(x, y uint64) bool { return k.key(x) < k.key(y) }

func isZero(x uint64) bool { return x == 0 }

// slGen makes n non-zero values. Kinds:
//
//	dups:   few distinct values, key = whole value (equal keys are equal values)
//	rand:   random 20 bit values, key = whole value
//	blk:    key = x>>8 distinct inside each block of slBlock consecutive values but overlapping
//	        between blocks, low byte = block number+1 (so the tie rule of merge is observable)
//	asc/desc/steps: already ordered input / reverse / ascending blocks that touch (shortcut path)
func slGen(r *rand.Rand, n int, kind string) ([]uint64, slKey) {
	xs := make([]uint64, n)
	k := slKey{}
	switch kind {
	case "dups":
		m := 1 + r.Intn(20)
		for i := range xs {
			xs[i] = uint64(1 + r.Intn(m))
		}
	case "rand":
		for i := range xs {
			xs[i] = uint64(1 + r.Intn(1<<20))
		}
	case "asc":
		v := uint64(1)
		for i := range xs {
			v += uint64(r.Intn(3))
			xs[i] = v
		}
	case "desc":
		v := uint64(3*n + 5)
		for i := range xs {
			v -= uint64(r.Intn(3))
			xs[i] = v
		}
	case "blk", "steps":
		k.sh = 8
		nblk := (n + slBlock - 1) / slBlock
		rng := slBlock + r.Intn(2*slBlock)
		for b := 0; b < nblk; b++ {
			lo, hi := b*slBlock, min(n, (b+1)*slBlock)
			p := r.Perm(rng)[:hi-lo]
			if kind == "steps" {
				// block b holds keys b*(slBlock-1) .. : ascending blocks whose ends touch
				sort.Ints(p)
				for i := range p {
					p[i] = b*(slBlock-1) + i
				}
				if r.Intn(2) == 0 { // shuffle inside the block
					r.Shuffle(len(p), func(i, j int) { p[i], p[j] = p[j], p[i] })
				}
			}
			for i := lo; i < hi; i++ {
				xs[i] = uint64(p[i-lo]+1)<<8 | uint64(b+1)
			}
		}
	}
	return xs, k
}

func slCheck(t *lib.Trace, what string, k slKey, in, out []uint64) {
	if len(out) != len(in) {
		t.Fail("sortlist-not-perm", fmt.Sprintf("%s: %d values in, %d out; sh=%d rev=%v in=%s", what, len(in), len(out), k.sh, k.rev, short(in)))
		return
	}
	for i := 1; i < len(out); i++ {
		if k.less(out[i], out[i-1]) {
			t.Fail("sortlist-not-sorted", fmt.Sprintf("%s: out[%d]=%d > out[%d]=%d; n=%d sh=%d rev=%v in=%s", what, i-1, out[i-1], i, out[i], len(in), k.sh, k.rev, short(in)))
			return
		}
	}
	a := append([]uint64(nil), in...)
	b := append([]uint64(nil), out...)
	sort.Slice(a, func(i, j int) bool { return a[i] < a[j] })
	sort.Slice(b, func(i, j int) bool { return b[i] < b[j] })
	for i := range a {
		if a[i] != b[i] {
			t.Fail("sortlist-not-perm", fmt.Sprintf("%s: multiset differs at rank %d (%d vs %d); n=%d sh=%d rev=%v in=%s", what, i, a[i], b[i], len(in), k.sh, k.rev, short(in)))
			return
		}
	}
}

func short(a []uint64) string {
	if len(a) > 40 {
		return u64s(a[:40]) + ",…"
	}
	return u64s(a)
}

func slSizes(r *rand.Rand, big bool) int {
	if !big {
		return r.Intn(40)
	}
	b := []int{slBlock - 1, slBlock, slBlock + 1, 2*slBlock - 1, 2 * slBlock, 2*slBlock + 1,
		3 * slBlock, 3*slBlock + 1, 4 * slBlock, 4*slBlock + 1, 5*slBlock + 7}
	if r.Intn(3) == 0 {
		return slBlock/2 + r.Intn(5*slBlock)
	}
	return b[r.Intn(len(b))]
}

func sortlistCase(t *lib.Trace, r *rand.Rand, big bool) {
	kinds := []string{"dups", "rand", "asc", "desc", "blk", "blk", "steps"}
	kind := kinds[r.Intn(len(kinds))]
	n := slSizes(r, big)
	xs, k := slGen(r, n, kind)
	t.Count("sortlist kind " + kind)
	t.Count(fmt.Sprintf("sortlist blocks %d%s", n/slBlock, map[bool]string{true: "", false: "+partial"}[n%slBlock == 0]))
	qop := func(k slKey, in []uint64) string {
		return fmt.Sprintf("sl %d %s %s", k.sh, lib.B(k.rev), u64s(in))
	}
	if r.Intn(2) == 0 {
		// path 1 (tempindex): NewSorting, Add…, Finish, List.Iter
		t.Count("sortlist path sorting")
		var out []uint64
		var seekBad string
		msg := lib.Catch(func() {
			b := sortlist.NewSorting(isZero, k.less)
			for _, x := range xs {
				b.Add(x)
			}
			list := b.Finish()
			it := list.Iter(func(x uint64, key []string) bool {
				kv, _ := strconv.ParseUint(key[0], 10, 64)
				return k.key(x) < kv
			})
			it.Rewind()
			for it.Next(); !it.Eof(); it.Next() {
				out = append(out, it.Cur())
			}
			// Prev traversal is the reverse
			var back []uint64
			it.Rewind()
			for it.Prev(); !it.Eof(); it.Prev() {
				back = append(back, it.Cur())
			}
			for i := range back {
				if len(back) != len(out) || back[i] != out[len(out)-1-i] {
					seekBad = fmt.Sprintf("Prev traversal differs from reversed Next traversal at %d", i)
					break
				}
			}
			// Seek = first element with key >= probe
			for p := 0; p < 6 && len(out) > 0 && seekBad == ""; p++ {
				probe := k.key(out[r.Intn(len(out))]) + uint64(r.Intn(3)) - 1
				if p == 0 {
					probe = 0
				}
				if p == 1 {
					probe = k.key(out[len(out)-1]) + 1
				}
				want := sort.Search(len(out), func(i int) bool { return k.key(out[i]) >= probe })
				it.Seek([]string{strconv.FormatUint(probe, 10)})
				if want == len(out) {
					if !it.Eof() {
						seekBad = fmt.Sprintf("Seek(%d) past the end is not eof", probe)
					}
				} else if it.Eof() || it.Cur() != out[want] {
					seekBad = fmt.Sprintf("Seek(%d) not at first element >= key (index %d)", probe, want)
				}
				t.Count("sortlist seek probes")
			}
		})
		if msg != "" {
			t.Fail("sortlist-panic", fmt.Sprintf("NewSorting/Add/Finish panicked: %s; n=%d kind=%s in=%s", msg, n, kind, short(xs)))
			return
		}
		if seekBad != "" {
			t.Fail("sortlist-iter", fmt.Sprintf("%s; n=%d kind=%s sh=%d in=%s", seekBad, n, kind, k.sh, short(xs)))
		}
		slCheck(t, "NewSorting/Finish", k, xs, out)
		t.Q(qop(k, xs), u64s(out))
		return
	}
	// path 2 (load/compact index building): NewUnsorted, Add…, Finish, Sort(less), Builder.Iter, re-Sort
	t.Count("sortlist path unsorted+Sort")
	var out1, out2 []uint64
	k2 := slKey{sh: 0, rev: r.Intn(2) == 0}
	msg := lib.Catch(func() {
		b := sortlist.NewUnsorted(isZero)
		for _, x := range xs {
			b.Add(x)
		}
		b.Finish()
		read := func() (out []uint64) {
			it := b.Iter()
			for x := it(); x != 0; x = it() {
				out = append(out, x)
			}
			return
		}
		b.Sort(k.less)
		out1 = read()
		b.Sort(k2.less)
		out2 = read()
	})
	if msg != "" {
		t.Fail("sortlist-panic", fmt.Sprintf("NewUnsorted/Sort panicked: %s; n=%d kind=%s in=%s", msg, n, kind, short(xs)))
		return
	}
	slCheck(t, "Sort", k, xs, out1)
	t.Q(qop(k, xs), u64s(out1))
	slCheck(t, "re-Sort", k2, out1, out2)
	t.Q(qop(k2, out1), u64s(out2))
}

// ---------------------------------------------------------------- bloom

func bloomHash(r *rand.Rand) uint64 {
	switch r.Intn(8) {
	case 0:
		return []uint64{0, 1, 1<<32 - 1, 1 << 32, 1<<64 - 1, 1<<63 + 1, 63, 64}[r.Intn(8)]
	case 1:
		return uint64(r.Intn(100)) // h2 = 0: all k positions coincide
	case 2:
		return uint64(r.Intn(4))<<32 | uint64(r.Intn(200))
	}
	return r.Uint64()
}

func bloomCase(t *lib.Trace, r *rand.Rand) {
	ms := []int{1, 63, 64, 65, 100, 128, 1000, 4096, 50000}
	m := ms[r.Intn(len(ms))]
	k := r.Intn(9)
	if r.Intn(40) == 0 {
		m = 0
	}
	t.Count(fmt.Sprintf("bloom m=%d", m))
	t.Count(fmt.Sprintf("bloom k=%d", k))
	t.Q("reset", "ok")
	t.Qf("ok", "bnew %d %d", m, k)
	b := bloom.New(m, k)
	var added []uint64
	nops := 1 + r.Intn(60)
	for i := 0; i < nops; i++ {
		if r.Intn(2) == 0 {
			h := bloomHash(r)
			msg := lib.Catch(func() { b.Add(h) })
			if msg != "" {
				t.Qf("!div0", "badd %d", h)
				t.Count("bloom add panic (m=0)")
				continue
			}
			added = append(added, h)
			t.Qf("ok", "badd %d", h)
			t.Count("bloom add")
			if !b.Test(h) {
				t.Fail("bloom-false-negative", fmt.Sprintf("New(%d,%d) after Add(%d) Test is false; adds so far %s", m, k, h, u64s(added)))
			}
		} else {
			h := bloomHash(r)
			if len(added) > 0 && r.Intn(2) == 0 {
				h = added[r.Intn(len(added))]
			}
			var res bool
			msg := lib.Catch(func() { res = b.Test(h) })
			if msg != "" {
				t.Qf("!div0", "btest %d", h)
				continue
			}
			t.Qf(lib.B(res), "btest %d", h)
			t.Count("bloom test " + lib.B(res))
		}
	}
	for _, h := range added {
		if !b.Test(h) {
			t.Fail("bloom-false-negative", fmt.Sprintf("New(%d,%d): added %d tests false at the end; adds %s", m, k, h, u64s(added)))
			break
		}
	}
}

func main() {
	t := lib.Open()
	defer t.Close()
	r := lib.Rand()
	n := lib.N(300)
	if len(os.Args) > 1 && os.Args[1] == "recycle" {
		roaringRecycle(t, r)
		return
	}
	// sortlist: n small lists, n/12 big ones (crossing block boundaries)
	for i := 0; i < n; i++ {
		sortlistCase(t, r, false)
	}
	for i := 0; i < n/12; i++ {
		sortlistCase(t, r, true)
	}
	for i := 0; i < n; i++ {
		bloomCase(t, r)
	}
	auxCases(t, r, n)
}
