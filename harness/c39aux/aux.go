package main

import (
	"fmt"
	"math/rand"
	"runtime"
	"runtime/debug"
	"sort"
	"strings"

	"github.com/apmckinlay/gsuneido/util/cache"
	"github.com/apmckinlay/gsuneido/util/lrucache"
	"github.com/apmckinlay/gsuneido/util/roaring"
	"github.com/apmckinlay/gsuneido/util/shmap"
	"verif/harness/lib"
)

// ---------------------------------------------------------------- roaring

const roArrMax = 4096 // array container capacity (literal in roaring.go), used to place sizes

func roaringCase(t *lib.Trace, r *rand.Rand, big bool) {
	var b roaring.Bitmap
	ref := map[uint64]bool{}
	t.Q("reset", "ok")
	nbases := 1 + r.Intn(4)
	bases := make([]uint64, nbases)
	for i := range bases {
		switch r.Intn(4) {
		case 0:
			bases[i] = uint64(r.Intn(4))
		case 1:
			bases[i] = 1<<32 - 1 - uint64(r.Intn(3)) // top of the 48 bit range
		default:
			bases[i] = uint64(r.Intn(1 << 20))
		}
	}
	add := func(x uint64) {
		msg := lib.Catch(func() { b.Add(x) })
		if x >= 1<<48 {
			if msg == "" {
				t.Fail("roaring-range", fmt.Sprintf("Add(%d) >= 1<<48 did not panic", x))
			}
			t.Qf("!big", "radd %d", x)
			t.Count("roaring add too large")
			return
		}
		if msg != "" {
			t.Fail("roaring-panic", fmt.Sprintf("Add(%d) panicked: %s (%d values so far)", x, msg, len(ref)))
			return
		}
		ref[x] = true
		t.Qf("ok", "radd %d", x)
		if !b.Has(x) {
			t.Fail("roaring-membership", fmt.Sprintf("Has(%d) false right after Add (%d values in bitmap)", x, len(ref)))
		}
	}
	has := func(x uint64) {
		var res bool
		msg := lib.Catch(func() { res = b.Has(x) })
		if msg != "" {
			t.Qf("!big", "rhas %d", x)
			return
		}
		t.Qf(lib.B(res), "rhas %d", x)
		t.Count("roaring has " + lib.B(res))
		if res != ref[x] {
			t.Fail("roaring-membership", fmt.Sprintf("Has(%d)=%v but reference says %v (%d values in bitmap)", x, res, ref[x], len(ref)))
		}
	}
	probe := func() uint64 {
		base := bases[r.Intn(len(bases))]
		if r.Intn(8) == 0 {
			base += uint64(r.Intn(3))
		}
		return base<<16 | uint64(r.Intn(1<<16))
	}
	if big {
		// roaring recycles converted array blocks through a package level sync.Pool; two GC
		// cycles empty the pool, so this history does not depend on earlier ones (or on GC
		// timing). What a recycled block does is the business of roaringRecycle below.
		runtime.GC()
		runtime.GC()
		// drive one container across the array→bitmap conversion
		base := bases[0]
		mode := r.Intn(3)
		n := roArrMax - 3 + r.Intn(300)
		t.Count(fmt.Sprintf("roaring big fill mode %d", mode))
		perm := r.Perm(1 << 16)[:n]
		switch mode {
		case 0:
			sort.Ints(perm) // ascending: append path
		case 1:
			sort.Sort(sort.Reverse(sort.IntSlice(perm))) // descending: insert path
		}
		for i, v := range perm {
			add(base<<16 | uint64(v))
			if i >= roArrMax-4 && i <= roArrMax+4 {
				// around the conversion every earlier value must still be there
				for _, j := range []int{0, i / 2, i - 1, i} {
					has(base<<16 | uint64(perm[max(j, 0)]))
				}
				has(probe())
			}
			if r.Intn(40) == 0 {
				add(base<<16 | uint64(perm[r.Intn(i+1)])) // duplicate
			}
		}
		t.Count("roaring crossed array max")
	}
	nops := 20 + r.Intn(200)
	for i := 0; i < nops; i++ {
		switch r.Intn(10) {
		case 0, 1, 2, 3:
			add(probe())
			t.Count("roaring add")
		case 4:
			if r.Intn(10) == 0 {
				add(1<<48 + uint64(r.Intn(5)))
			} else {
				add(1<<48 - 1 - uint64(r.Intn(3)))
			}
		default:
			x := probe()
			has(x)
		}
	}
	// final sweep: every added value is present, neighbours agree with the reference
	keys := make([]uint64, 0, len(ref))
	for x := range ref {
		keys = append(keys, x)
	}
	sort.Slice(keys, func(i, j int) bool { return keys[i] < keys[j] })
	for _, x := range keys {
		if !b.Has(x) {
			t.Fail("roaring-membership", fmt.Sprintf("added value %d missing at the end (%d values)", x, len(ref)))
			break
		}
	}
	for i := 0; i < 30 && len(keys) > 0; i++ {
		x := keys[r.Intn(len(keys))] + uint64(r.Intn(3)) - 1
		if x < 1<<48 {
			has(x)
		}
	}
}

// roaringRecycle: two array→bitmap conversions with no GC in between, so that the second
// conversion takes the block the first one put into the pool. Direct oracle only (no model
// replay): membership must equal the reference set.
func roaringRecycle(t *lib.Trace, r *rand.Rand) {
	old := debug.SetGCPercent(-1)
	defer debug.SetGCPercent(old)
	runtime.GC()
	runtime.GC()
	var b roaring.Bitmap
	ref := map[uint64]bool{}
	add := func(x uint64) { b.Add(x); ref[x] = true }
	// container 0: values 0..roArrMax (ascending) -> converts, its array goes to the pool
	for v := 0; v <= roArrMax; v++ {
		add(uint64(v))
	}
	// container 1: roArrMax+1 values from 30000 up -> converts using the recycled block
	for v := 0; v <= roArrMax; v++ {
		add(1<<16 | uint64(30000+v))
	}
	t.Count("roaring recycle scenario")
	check := func(x uint64) bool {
		if got := b.Has(x); got != ref[x] {
			t.Fail("roaring-membership:recycled-block", fmt.Sprintf(
				"Bitmap: Add 0..%d (container 0 converts to bitmap), Add 65536+30000..65536+%d (container 1 converts); Has(%d)=%v but it was %s",
				roArrMax, 30000+roArrMax, x, got, map[bool]string{true: "added", false: "never added"}[ref[x]]))
			return false
		}
		return true
	}
	for v := 0; v < 1<<16; v++ {
		if !check(1<<16 | uint64(v)) {
			break
		}
	}
	for i := 0; i < 2000; i++ {
		if !check(uint64(r.Intn(2 << 16))) {
			break
		}
	}
}

// ---------------------------------------------------------------- lrucache

type lk int

var lkHashMode int

func (k lk) Hash() uint64 {
	switch lkHashMode {
	case 0:
		return uint64(k) * 0x9E3779B97F4A7C15
	case 1:
		return uint64(k) % 5 // heavy collisions
	}
	return uint64(k)
}
func (k lk) Equal(o any) bool { k2, ok := o.(lk); return ok && k == k2 }

func lruExpectSize(req int) int {
	for _, n := range []int{6, 13, 27, 55, 111, 223} {
		if req <= n {
			return n
		}
	}
	return 223
}

func lruCase(t *lib.Trace, r *rand.Rand) {
	reqs := []int{0, 1, 6, 7, 13, 14, 27, 28, 55, 56, 111, 112, 223, 224, 1000}
	req := reqs[r.Intn(len(reqs))]
	if r.Intn(2) == 0 {
		req = reqs[r.Intn(6)] // small caches: more evictions per op
	}
	size := lruExpectSize(req)
	lkHashMode = r.Intn(3)
	t.Count(fmt.Sprintf("lru size %d", size))
	t.Q("reset", "ok")
	t.Qf("ok", "lnew %d", req)
	c := lrucache.New[lk, int](req)
	last := map[lk]int{} // value of the latest Put per key
	nkeys := size + 1 + r.Intn(size+2)
	if r.Intn(4) == 0 {
		nkeys = max(2, size/2)
	}
	dupPut := r.Intn(3) == 0 // plain Put of keys that may already be cached
	nops := size*3 + r.Intn(size*4)
	resetHist := r.Intn(3) == 0 // several Resets, each followed by a refill beyond capacity
	if resetHist {
		nops *= 2
		t.Count("lru reset history")
	}
	serial := 0
	entries := func() (n int, s string) {
		var sb strings.Builder
		for k, v := range c.Entries() {
			if n > 0 {
				sb.WriteByte(',')
			}
			fmt.Fprintf(&sb, "%d:%d", int(k), v)
			n++
		}
		if n == 0 {
			return 0, "-"
		}
		return n, sb.String()
	}
	checkHit := func(op string, k lk, v int) {
		if want, ok := last[k]; !ok || want != v {
			t.Fail("lru-stale-value", fmt.Sprintf("%s(%d) returned %d but the latest Put stored %d (known=%v); size=%d", op, int(k), v, want, ok, size))
		}
	}
	// the key of the previous Put is at (or near) the newest end: the next Put must not evict it
	// eviction oracle: every Put and every Get hit moves the older entries by at most one position, so an
	// entry can only be evicted after at least size-1 such operations since it was Put
	opno := 0
	putAt := map[lk]int{}
	resident := func() map[lk]bool {
		m := map[lk]bool{}
		for k2 := range c.Entries() {
			m[k2] = true
		}
		return m
	}
	checkEvict := func(before map[lk]bool, k lk) {
		for k2 := range before {
			if k2 == k {
				continue
			}
			found := false
			for k3 := range c.Entries() {
				if k3 == k2 {
					found = true
					break
				}
			}
			if !found {
				if at, ok := putAt[k2]; ok && opno-at < size-1 {
					t.Fail("lru-evicts-recent", fmt.Sprintf("Put(%d) evicted key %d that was Put only %d moving operations ago; capacity %d", int(k), int(k2), opno-at, size))
				}
				delete(putAt, k2)
			}
		}
	}
	// (superseded: "the next Put must not evict the key of the previous Put" ignored the Get hits in
	// between, which legitimately age an entry; the eviction oracle above counts every moving operation)
	prevPut := lk(-1)
	afterPut := func(k lk) { prevPut = k }
	_ = prevPut
	for i := 0; i < nops; i++ {
		k := lk(r.Intn(nkeys))
		switch x := r.Intn(20); {
		case x < 8:
			v, ok := c.Get(k)
			if ok {
				opno++
				checkHit("Get", k, v)
				t.Qf(fmt.Sprint(v), "lget %d", int(k))
				t.Count("lru get hit")
			} else {
				t.Qf("-", "lget %d", int(k))
				t.Count("lru get miss")
			}
		case x < 14:
			serial++
			fv := int(k)*1000 + serial%1000
			called := false
			beforeSet := resident()
			v := c.GetPut(k, func(lk) int { called = true; return fv })
			opno++
			if called {
				last[k] = fv
				putAt[k] = opno
				checkEvict(beforeSet, k)
				afterPut(k)
				t.Count("lru getput miss")
			} else {
				t.Count("lru getput hit")
			}
			checkHit("GetPut", k, v)
			t.Qf(fmt.Sprint(v), "lgetput %d %d", int(k), fv)
		case x < 17:
			if !dupPut {
				// the way the callers use it: Put only after a miss
				if v, ok := c.Get(k); ok {
					opno++
					checkHit("Get", k, v)
					t.Qf(fmt.Sprint(v), "lget %d", int(k))
					continue
				}
				t.Qf("-", "lget %d", int(k))
			} else {
				t.Count("lru put (maybe duplicate key)")
			}
			serial++
			v := int(k)*1000 + serial%1000
			beforeSet := resident()
			c.Put(k, v)
			opno++
			last[k] = v
			putAt[k] = opno
			if !dupPut {
				checkEvict(beforeSet, k)
			}
			afterPut(k)
			t.Qf("ok", "lput %d %d", int(k), v)
			t.Count("lru put")
			opno++
			if got, ok := c.Get(k); !ok || got != v {
				t.Fail("lru-get-after-put", fmt.Sprintf("Put(%d,%d) then Get = (%d,%v); size=%d", int(k), v, got, ok, size))
			}
			t.Qf(fmt.Sprint(v), "lget %d", int(k))
		case x < 18:
			h, m := c.Stats()
			t.Qf(fmt.Sprintf("%d %d", h, m), "lstats")
		case x < 19:
			n, s := entries()
			if n > size {
				t.Fail("lru-capacity", fmt.Sprintf("%d entries in a cache of capacity %d (req %d)", n, size, req))
			}
			t.Q("lentries", s)
			if n == size {
				t.Count("lru full")
			}
		default:
			// Reset after the order has been stirred, then the cache is refilled beyond its capacity by the
			// following operations (the reset histories run 2x as long)
			if resetHist && r.Intn(2) == 0 || r.Intn(6) == 0 {
				c.Reset()
				prevPut = -1
				last = map[lk]int{}
				putAt = map[lk]int{}
				t.Q("lreset", "ok")
				t.Count("lru reset")
				if h, m := c.Stats(); h != 0 || m != 0 {
					t.Fail("lru-reset", fmt.Sprintf("Stats after Reset = %d %d", h, m))
				}
				if n, _ := entries(); n != 0 {
					t.Fail("lru-reset", fmt.Sprintf("%d entries after Reset", n))
				}
			}
		}
	}
	n, s := entries()
	if n > size {
		t.Fail("lru-capacity", fmt.Sprintf("%d entries in a cache of capacity %d (req %d)", n, size, req))
	}
	t.Q("lentries", s)
}

// ---------------------------------------------------------------- cache (8 slots)

func cacheCase(t *lib.Trace, r *rand.Rand) {
	t.Q("reset", "ok")
	ncalls := 0
	failNext := false // the next getter call panics (the caller recovers, as core/thread.go callers do)
	nest := -1        // the next getter call re-enters the cache with Get(nest)
	var innerV int
	var innerCalled, innerDone bool
	produced := map[int]map[int]bool{} // key -> values the getter successfully returned for it
	var c *cache.Cache[int, int]
	c = cache.New(func(k int) int {
		ncalls++
		my := ncalls
		if failNext {
			failNext = false
			panic("getter failed")
		}
		if nest >= 0 {
			k2 := nest
			nest = -1
			before := ncalls
			innerV = c.Get(k2)
			innerCalled = ncalls != before
			innerDone = true
		}
		v := k*100000 + my
		if produced[k] == nil {
			produced[k] = map[int]bool{}
		}
		produced[k][v] = true
		return v
	})
	check := func(what string, k, v int) {
		if !produced[k][v] {
			t.Fail("cache-wrong-value", fmt.Sprintf("%s(%d) returned %d which the getter never returned for that key (it encodes key %d, call %d of %d)", what, k, v, v/100000, v%100000, ncalls))
		}
	}
	nkeys := []int{3, 8, 9, 12, 30}[r.Intn(5)]
	t.Count(fmt.Sprintf("cache keys %d", nkeys))
	special := r.Intn(3) != 0 // histories with failing / re-entrant getters
	prev := -1
	for i := 0; i < 40+r.Intn(100); i++ {
		k := r.Intn(nkeys)
		if r.Intn(5) == 0 && prev >= 0 {
			k = prev
		}
		before := ncalls
		x := r.Intn(10)
		switch {
		case special && x == 0: // the getter panics
			failNext = true
			var v int
			msg := lib.Catch(func() { v = c.Get(k) })
			failNext = false
			if msg != "" {
				t.Qf("!panic", "cgetfail %d", k)
				t.Count("cache get getter-panics miss")
				prev = -1 // nothing may have been cached for k
				// the very next Get of that key must go to the getter again (or at least return a real value)
				if r.Intn(2) == 0 {
					b2 := ncalls
					v2 := c.Get(k)
					check("Get after failed getter", k, v2)
					t.Qf(fmt.Sprintf("%d %s", v2, lib.B(ncalls != b2)), "cget %d %d", k, k*100000+b2+1)
					prev = k
				}
			} else {
				check("Get", k, v)
				t.Qf(fmt.Sprintf("%d f", v), "cgetfail %d", k)
				t.Count("cache get getter-panics hit")
				prev = k
			}
			continue
		case special && x == 1: // the getter re-enters the cache
			k2 := r.Intn(nkeys)
			nest = k2
			innerDone = false
			v := c.Get(k)
			nest = -1
			called := ncalls != before
			check("Get", k, v)
			out := fmt.Sprintf("%d %s", v, lib.B(called))
			if innerDone {
				check("nested Get", k2, innerV)
				out += fmt.Sprintf(" %d %s", innerV, lib.B(innerCalled))
				t.Count("cache get re-entrant miss inner-called=" + lib.B(innerCalled))
			} else {
				t.Count("cache get re-entrant hit")
			}
			t.Qf(out, "cgetnest %d %d %d %d", k, k2, k2*100000+before+2, k*100000+before+1)
			prev = -1
			continue
		}
		v := c.Get(k)
		called := ncalls != before
		check("Get", k, v)
		if called && k == prev {
			t.Fail("cache-refetch", fmt.Sprintf("Get(%d) twice in a row called the getter again", k))
		}
		if ncalls-before > 1 {
			t.Fail("cache-refetch", fmt.Sprintf("Get(%d) called the getter %d times", k, ncalls-before))
		}
		t.Qf(fmt.Sprintf("%d %s", v, lib.B(called)), "cget %d %d", k, k*100000+before+1)
		t.Count("cache get called=" + lib.B(called))
		prev = k
	}
}

// ---------------------------------------------------------------- shmap

func shmapCase(t *lib.Trace, r *rand.Rand) {
	mode := r.Intn(6)
	hfn := func(k int) uint64 {
		switch mode {
		case 0:
			return uint64(k) * 0x9E3779B97F4A7C15
		case 1:
			return uint64(k)
		case 2:
			return 0 // everything collides (same group sequence, same h2)
		case 3:
			return uint64(k) & 0x7f // same home group, different h2
		case 4:
			return uint64(k) << 7 // same h2, consecutive home groups
		}
		return uint64(k%3)<<7 | uint64(k%2)
	}
	t.Count(fmt.Sprintf("shmap hash mode %d", mode))
	m := shmap.NewMapFuncs[int, int](hfn, func(x, y int) bool { return x == y })
	ref := map[int]int{}
	t.Q("reset", "ok")
	nkeys := []int{4, 9, 20, 60, 130, 300}[r.Intn(6)]
	if mode == 2 || mode == 5 {
		nkeys = min(nkeys, 130)
	}
	nops := nkeys*3 + r.Intn(nkeys*3)
	maxSize := 0
	bad := func(sig, desc string) {
		t.Fail(sig, fmt.Sprintf("%s; hash mode %d, %d keys, size %d", desc, mode, nkeys, len(ref)))
	}
	phaseDel := false
	for i := 0; i < nops; i++ {
		k := r.Intn(nkeys)
		if i%(nkeys+1) == nkeys {
			phaseDel = !phaseDel // alternate grow / shrink phases so tombstones get reused
		}
		x := r.Intn(20)
		if phaseDel && x < 6 {
			x = 12
		}
		msg := lib.Catch(func() {
			switch {
			case x < 8:
				v := r.Intn(1000)
				m.Put(k, v)
				ref[k] = v
				t.Qf("ok", "mput %d %d", k, v)
				t.Count("shmap put")
			case x < 12:
				v, ok := m.Get(k)
				rv, rok := ref[k]
				if ok != rok || v != rv {
					bad("shmap-get", fmt.Sprintf("Get(%d)=(%d,%v) reference (%d,%v)", k, v, ok, rv, rok))
				}
				if m.Has(k) != rok {
					bad("shmap-get", fmt.Sprintf("Has(%d)=%v reference %v", k, m.Has(k), rok))
				}
				if ok {
					t.Qf(fmt.Sprint(v), "mget %d", k)
				} else {
					t.Qf("-", "mget %d", k)
				}
				t.Count("shmap get " + lib.B(ok))
			case x < 16:
				v, ok := m.Del(k)
				rv, rok := ref[k]
				delete(ref, k)
				if ok != rok || v != rv {
					bad("shmap-del", fmt.Sprintf("Del(%d)=(%d,%v) reference (%d,%v)", k, v, ok, rv, rok))
				}
				if ok {
					t.Qf(fmt.Sprint(v), "mdel %d", k)
				} else {
					t.Qf("-", "mdel %d", k)
				}
				t.Count("shmap del " + lib.B(ok))
			case x < 17:
				k2, existed := m.GetInit(k)
				_, rok := ref[k]
				if !rok {
					ref[k] = 0
				}
				if existed != rok || k2 != k {
					bad("shmap-getinit", fmt.Sprintf("GetInit(%d)=(%d,%v) reference existed=%v", k, k2, existed, rok))
				}
				t.Qf(lib.B(existed), "mgetinit %d", k)
			case x < 18:
				if m.Size() != len(ref) {
					bad("shmap-size", fmt.Sprintf("Size()=%d reference %d", m.Size(), len(ref)))
				}
				t.Qf(fmt.Sprint(m.Size()), "msize")
			case x < 19:
				// iteration yields exactly the entries (as a set); also through a Copy
				mm := m
				if r.Intn(2) == 0 {
					mm = m.Copy()
				}
				var es [][2]int
				it := mm.Iter()
				for k, v, ok := it(); ok; k, v, ok = it() {
					es = append(es, [2]int{k, v})
				}
				sort.Slice(es, func(i, j int) bool { return es[i][0] < es[j][0] })
				var sb strings.Builder
				okAll := len(es) == len(ref)
				for i, e := range es {
					if i > 0 {
						sb.WriteByte(',')
					}
					fmt.Fprintf(&sb, "%d:%d", e[0], e[1])
					if rv, rok := ref[e[0]]; !rok || rv != e[1] || (i > 0 && es[i-1][0] == e[0]) {
						okAll = false
					}
				}
				if !okAll {
					bad("shmap-iter", fmt.Sprintf("Iter yields %d entries %s, reference has %d", len(es), sb.String(), len(ref)))
				}
				s := sb.String()
				if s == "" {
					s = "-"
				}
				t.Q("miter", s)
				t.Count("shmap iter")
			default:
				if r.Intn(8) == 0 {
					m.Clear()
					ref = map[int]int{}
					t.Q("mclear", "ok")
					t.Count("shmap clear")
				}
			}
		})
		if msg != "" {
			bad("shmap-panic", fmt.Sprintf("op %d on key %d panicked: %s", x, k, msg))
			return
		}
		maxSize = max(maxSize, len(ref))
	}
	switch {
	case maxSize > 56:
		t.Count("shmap max size >56 (>=4 growths)")
	case maxSize > 14:
		t.Count("shmap max size 15..56")
	case maxSize > 7:
		t.Count("shmap max size 8..14 (one growth)")
	default:
		t.Count("shmap max size <=7 (single group)")
	}
	// final sweep
	for k := 0; k < nkeys; k++ {
		v, ok := m.Get(k)
		rv, rok := ref[k]
		if ok != rok || v != rv {
			bad("shmap-get", fmt.Sprintf("final Get(%d)=(%d,%v) reference (%d,%v)", k, v, ok, rv, rok))
			break
		}
	}
	t.Qf(fmt.Sprint(m.Size()), "msize")
}

func auxCases(t *lib.Trace, r *rand.Rand, n int) {
	for i := 0; i < n/3; i++ {
		roaringCase(t, r, false)
	}
	for i := 0; i < max(3, n/60); i++ {
		roaringCase(t, r, true)
	}
	for i := 0; i < n/3; i++ {
		if msg := lib.Catch(func() { lruCase(t, r) }); msg != "" {
			t.Fail("lru-panic", "an lrucache operation panicked: "+msg)
		}
	}
	for i := 0; i < n/2; i++ {
		cacheCase(t, r)
	}
	for i := 0; i < n/2; i++ {
		shmapCase(t, r)
	}
}
