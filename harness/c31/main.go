// C31 correspondence suite (external, core + compile):
//   - strings over all bytes x every Display quote mode: the displayed text is replayed by the
//     Lean mirror of sustr.escapeStr, lexed by lexer.NewLexer (one String item with the original
//     bytes) and compiled by compile.Constant (Equal to the original);
//   - generated nested values (strings, numbers, dates, booleans, objects and records with named
//     and unnamed members): v.String() → compile.Constant → Equal;
//   - member names: lexer.IsIdentifier / core.Unquoted against the mirror, and directly: a name
//     IsIdentifier accepts must lex (followed by `:`) as one identifier item with that text;
//   - malformed stream: every proper prefix of a displayed string (an unterminated literal, with
//     or without escapes) through the lexer (compared with the mirror) and compile.Constant —
//     it must be a syntax error, never a value.
package main

import (
	"fmt"
	"math/rand"
	"strings"

	"github.com/apmckinlay/gsuneido/compile"
	"github.com/apmckinlay/gsuneido/compile/lexer"
	tok "github.com/apmckinlay/gsuneido/compile/tokens"
	"github.com/apmckinlay/gsuneido/core"
	"github.com/apmckinlay/gsuneido/util/dnum"
	"verif/harness/lib"
)

func rstr(r *rand.Rand, max int) string {
	n := r.Intn(max + 1)
	b := make([]byte, n)
	for i := range b {
		switch r.Intn(7) {
		case 0:
			b[i] = byte(r.Intn(256))
		case 1, 2:
			b[i] = "\"'`\\\n\t\r\x00\x7f\xff\x1f ~\x80"[r.Intn(14)]
		default:
			b[i] = byte('a' + r.Intn(4))
		}
	}
	return string(b)
}

func rname(r *rand.Rand) string {
	switch r.Intn(8) {
	case 0:
		return []string{"_", "?", "!", "_a", "a?", "a!", "true", "false", "default", "is", "if", "_1", "__", "a?b", "1a", ""}[r.Intn(16)]
	case 1:
		return rstr(r, 3)
	default:
		n := 1 + r.Intn(3)
		b := make([]byte, n)
		for i := range b {
			b[i] = "abcXY_019?!"[r.Intn(11)]
		}
		return string(b)
	}
}

func rnum(r *rand.Rand) core.Value {
	switch r.Intn(5) {
	case 0:
		return core.IntVal(r.Intn(200) - 100)
	case 1:
		return []core.Value{core.IntVal(32767), core.IntVal(32768), core.IntVal(-32768), core.IntVal(-32769),
			core.IntVal(1 << 62), core.IntVal(9999999999999999), core.IntVal(0)}[r.Intn(7)]
	default:
		nd := 1 + r.Intn(16)
		var c uint64
		for i := 0; i < nd; i++ {
			c = c*10 + uint64(r.Intn(10))
		}
		if c == 0 {
			c = 1
		}
		sign := int8(1)
		if r.Intn(2) == 0 {
			sign = -1
		}
		return core.SuDnum{Dnum: dnum.New(sign, c, r.Intn(30)-10)}
	}
}

func rdate(r *rand.Rand) core.Value {
	if r.Intn(3) == 0 {
		return core.NewDate(1700+r.Intn(1300), 1+r.Intn(12), 1+r.Intn(28), 0, 0, 0, 0)
	}
	return core.NewDate(1700+r.Intn(1300), 1+r.Intn(12), 1+r.Intn(28), r.Intn(24), r.Intn(60), r.Intn(60), r.Intn(1000))
}

var badNames = map[string]bool{"_": true, "?": true, "!": true}

// rval returns a value; hasBad reports whether it has a member named _ ? or !
func rval(r *rand.Rand, depth int, t *lib.Trace, hasBad *bool) core.Value {
	switch r.Intn(8) {
	case 0:
		t.Count("val.bool")
		return core.SuBool(r.Intn(2) == 0)
	case 1, 2:
		t.Count("val.number")
		return rnum(r)
	case 3, 4:
		t.Count("val.string")
		return core.SuStr(rstr(r, 6))
	case 5:
		t.Count("val.date")
		return rdate(r)
	default:
		if depth <= 0 {
			t.Count("val.string")
			return core.SuStr(rstr(r, 6))
		}
		var ob interface {
			core.Value
			Add(core.Value)
			Set(core.Value, core.Value)
		}
		if r.Intn(3) == 0 {
			t.Count("val.record")
			ob = core.NewSuRecord()
		} else {
			t.Count("val.object")
			ob = &core.SuObject{}
		}
		for i := r.Intn(3); i > 0; i-- {
			ob.Add(rval(r, depth-1, t, hasBad))
		}
		for i := r.Intn(3); i > 0; i-- {
			var k core.Value
			switch r.Intn(6) {
			case 0:
				// integer keys as the compiler builds them (an integer-valued SuDnum key is
				// DESIGN §6 finding 2 / C28, not a display question), else a true fraction
				if r.Intn(2) == 0 {
					k = core.IntVal([]int{0, 1, 7, 32767, 32768, 100000, 462315100, -5}[r.Intn(8)])
				} else {
					k = core.SuDnum{Dnum: dnum.FromStr(fmt.Sprintf("%d.%d", r.Intn(1000), 1+r.Intn(9)))}
				}
				t.Count("key.number")
			case 1:
				k = rdate(r)
				t.Count("key.date")
			default:
				name := rname(r)
				if badNames[name] {
					*hasBad = true
				}
				k = core.SuStr(name)
				t.Count("key.string")
			}
			ob.Set(k, rval(r, depth-1, t, hasBad))
		}
		return ob
	}
}

type outcome struct {
	val core.Value
	err string
}

func constant(src string) (o outcome) {
	if msg := lib.Catch(func() { o.val = compile.Constant(src) }); msg != "" {
		o.err = msg
	}
	return
}

func showItems(src string) string {
	lx := lexer.NewLexer(src)
	var sb strings.Builder
	for k := 0; k < len(src)+5; k++ {
		it := lx.Next()
		if k > 0 {
			sb.WriteByte(' ')
		}
		fmt.Fprintf(&sb, "%s@%d:%s", it.Token.String(), it.Pos, lib.X(it.Text))
		if it.Token == tok.Eof {
			break
		}
	}
	return sb.String()
}

func main() {
	t := lib.Open()
	defer t.Close()
	r := lib.Rand()
	n := lib.N(3000)

	// ---- member names: all strings of length <= 3 over the identifier alphabet, then random
	var names []string
	alpha := "a_1?!Z"
	names = append(names, "")
	for _, a := range alpha {
		names = append(names, string(a))
		for _, b := range alpha {
			names = append(names, string(a)+string(b))
			for _, c := range alpha {
				names = append(names, string(a)+string(b)+string(c))
			}
		}
	}
	names = append(names, "true", "false", "default", "unused", "a b", "a:", "é")
	for _, name := range names {
		isid := lexer.IsIdentifier(name)
		unq := core.Unquoted(core.SuStr(name)) != ""
		t.Q("isident "+lib.X(name), lib.B(isid))
		t.Q("unq "+lib.X(name), lib.B(unq))
		t.Count("name.isident=" + lib.B(isid))
		if unq { // the bare name followed by ':' must come back as one identifier item
			lx := lexer.NewLexer(name + ":")
			it := lx.Next()
			it2 := lx.Next()
			if !it.Token.IsIdent() || it.Text != name || it2.Token != tok.Colon {
				t.Fail("member-name-not-an-identifier", fmt.Sprintf(
					"core.Unquoted(%q) writes the name bare but the lexer reads %q as %s %q then %s",
					name, name+":", it.Token, it.Text, it2.Token))
			}
		}
	}

	for i := 0; i < n; i++ {
		// ---- strings, every quote mode
		s := rstr(r, 8)
		th := &core.Thread{}
		for mode := 0; mode < 4; mode++ {
			var d string
			which, dsq := mode, false
			switch mode {
			case 0:
				d = core.SuStr(s).String()
			case 1, 2:
				th.Quote = mode
				d = core.SuStr(s).Display(th)
			case 3:
				which, dsq = 0, true
				core.DefaultSingleQuotes = true
				d = core.SuStr(s).String()
				core.DefaultSingleQuotes = false
			}
			t.Q(fmt.Sprintf("esc %s %d %s", lib.X(s), which, lib.B(dsq)), lib.X(d))
			t.Count("quote=" + d[:1])
			t.Q("lex c "+lib.X(d), showItems(d))
			o := constant(d)
			if o.err != "" || o.val == nil || !o.val.Equal(core.SuStr(s)) {
				t.Fail("display-roundtrip-string", fmt.Sprintf("string %q displays as %q which compiles to %v %s", s, d, o.val, o.err))
			}
			if i < 2 && mode == 0 {
				t.Sample(fmt.Sprintf("%q displays as %s", s, d))
			}
			// ---- malformed stream: every proper prefix is an unterminated literal
			if mode == 3 {
				continue
			}
			for cut := 1; cut < len(d); cut++ {
				p := d[:cut]
				if cut > 12 && r.Intn(3) != 0 {
					continue
				}
				t.Count("truncated")
				t.Q("lex c "+lib.X(p), showItems(p))
				if o := constant(p); o.err == "" {
					t.Fail("unterminated-string-accepted", fmt.Sprintf(
						"compile.Constant(%q) (a truncated literal) returned %v instead of a syntax error", p, o.val))
				} else if !strings.HasPrefix(o.err, "syntax error") {
					t.Count("truncated.other-error")
				}
			}
		}

		// ---- nested values
		hasBad := false
		v := rval(r, 2, t, &hasBad)
		var d string
		if msg := lib.Catch(func() { d = v.String() }); msg != "" {
			t.Count("display.panic")
			continue
		}
		o := constant(d)
		if o.err != "" || o.val == nil || !o.val.Equal(v) || !v.Equal(o.val) {
			sig := "display-roundtrip-value"
			if hasBad {
				sig = "display-roundtrip-member-name"
			}
			t.Fail(sig, fmt.Sprintf("value displays as %q which compiles to %v %s", d, o.val, o.err))
		}
		if i < 3 {
			t.Sample("value " + d)
		}
	}
}
