// C38 correspondence suite: util/tr (Replace, New), util/str (ToLower, ToUpper, CmpLower,
// EqualCI, Capitalize, UnCapitalize, CommonPrefixLen, Subi, Subn, Split, Join, Doesc) and
// util/ascii (all 256 bytes) against the Lean mirrors in Gsu.Model.Str / Gsu.Model.Ascii,
// plus direct oracles: independent reference implementations written from the documentation
// (tr: map / squeeze / delete; ranges), bytes.Compare of lower-cased strings, Join∘Split = id.
package main

import (
	"bytes"
	"fmt"
	"math/rand"
	"strings"

	"github.com/apmckinlay/gsuneido/util/ascii"
	"github.com/apmckinlay/gsuneido/util/str"
	"github.com/apmckinlay/gsuneido/util/tr"
	"verif/harness/lib"
)

var alpha = []byte("abcdABCZz-^ _09@[`{\x00\xff\x7f")

func rbytes(r *rand.Rand, max int, alphabet []byte) string {
	n := r.Intn(max + 1)
	b := make([]byte, n)
	for i := range b {
		if r.Intn(12) == 0 {
			b[i] = byte(r.Intn(256))
		} else {
			b[i] = alphabet[r.Intn(len(alphabet))]
		}
	}
	return string(b)
}

// genSet makes a tr set: optional ^, singles, ranges (also reversed and touching 0xff)
func genSet(r *rand.Rand, t *lib.Trace) string {
	var sb strings.Builder
	if r.Intn(4) == 0 {
		sb.WriteByte('^')
		t.Count("set.caret")
	}
	for k := r.Intn(4); k > 0; k-- {
		switch r.Intn(6) {
		case 0, 1:
			lo := byte('a' + r.Intn(6))
			hi := lo + byte(r.Intn(5))
			sb.WriteByte(lo)
			sb.WriteByte('-')
			sb.WriteByte(hi)
			t.Count("set.range")
		case 2:
			a, b := alpha[r.Intn(len(alpha))], alpha[r.Intn(len(alpha))]
			sb.WriteByte(a)
			sb.WriteByte('-')
			sb.WriteByte(b)
			t.Count("set.range-any")
		case 3:
			sb.WriteByte('-')
			t.Count("set.dash")
		default:
			sb.WriteByte(alpha[r.Intn(len(alpha))])
		}
	}
	return sb.String()
}

// refExpand: documentation of tr.New — optional ^, then a-b ranges (inclusive, increasing)
func refExpand(s string) string {
	var out []byte
	if len(s) > 0 && s[0] == '^' {
		out = append(out, '^')
		s = s[1:]
	}
	for i := 0; i < len(s); {
		if i+2 < len(s) && s[i+1] == '-' {
			for c := int(s[i]); c <= int(s[i+2]); c++ {
				out = append(out, byte(c))
			}
			i += 3
		} else {
			out = append(out, s[i])
			i++
		}
	}
	return string(out)
}

// refReplace: documentation of tr.Replace, one pass, no early exits
func refReplace(src, from, to string) string {
	if from == "" {
		return src
	}
	allbut := from[0] == '^'
	if allbut {
		from = from[1:]
	}
	pad := allbut || len(to) < len(from)
	var out []byte
	prevSq := false
	for i := 0; i < len(src); i++ {
		c := src[i]
		idx := strings.IndexByte(from, c)
		in := (idx >= 0) != allbut
		switch {
		case !in:
			out = append(out, c)
			prevSq = false
		case to == "":
			prevSq = false
		default:
			if allbut {
				idx = len(to)
			}
			if pad && idx >= len(to)-1 {
				if !prevSq {
					out = append(out, to[len(to)-1])
				}
				prevSq = true
			} else {
				out = append(out, to[idx])
				prevSq = false
			}
		}
	}
	return string(out)
}

func lowerRef(s string) string {
	b := []byte(s)
	for i, c := range b {
		if 'A' <= c && c <= 'Z' {
			b[i] = c + 32
		}
	}
	return string(b)
}

func upperRef(s string) string {
	b := []byte(s)
	for i, c := range b {
		if 'a' <= c && c <= 'z' {
			b[i] = c - 32
		}
	}
	return string(b)
}

func catch(f func() string) (res string) {
	if msg := lib.Catch(func() { res = f() }); msg != "" {
		return "!panic"
	}
	return res
}

func main() {
	t := lib.Open()
	defer t.Close()
	r := lib.Rand()
	n := lib.N(4000)

	// ascii: all 256 bytes
	for c := 0; c < 256; c++ {
		b := byte(c)
		t.Q(fmt.Sprintf("ascii %d", c), fmt.Sprintf("%s %s %s %s %s %s %d %d %d %d",
			lib.B(ascii.IsLower(b)), lib.B(ascii.IsUpper(b)), lib.B(ascii.IsLetter(b)),
			lib.B(ascii.IsDigit(b)), lib.B(ascii.IsSpace(b)), lib.B(ascii.IsHexDigit(b)),
			ascii.ToLower(b), ascii.ToUpper(b), ascii.Digit(b, 16), ascii.Digit(b, 10)))
		// direct oracle: ASCII letters only, involutive on letters
		if (ascii.ToLower(b) != b) != ('A' <= b && b <= 'Z') || (ascii.ToUpper(b) != b) != ('a' <= b && b <= 'z') ||
			ascii.ToUpper(ascii.ToLower(b)) != ascii.ToUpper(b) {
			t.Fail("ascii-case", fmt.Sprintf("byte %d: ToLower=%d ToUpper=%d", c, ascii.ToLower(b), ascii.ToUpper(b)))
		}
	}
	t.CountN("ascii.bytes", 256)

	for i := 0; i < n; i++ {
		// ---- tr
		src := rbytes(r, 12, alpha)
		rawFrom, rawTo := genSet(r, t), genSet(r, t)
		switch r.Intn(5) {
		case 0:
			rawTo = ""
			t.Count("tr.delete")
		case 1:
			if len(rawTo) > 1 {
				rawTo = rawTo[:1]
			}
			t.Count("tr.to-short")
		}
		from, to := tr.New(rawFrom), tr.New(rawTo)
		t.Q("trnew "+lib.X(rawFrom), lib.X(string(from)))
		t.Q("trnew "+lib.X(rawTo), lib.X(string(to)))
		if e := refExpand(rawFrom); e != string(from) {
			t.Fail("tr-new-ref", fmt.Sprintf("New(%q) = %q, reference %q", rawFrom, from, e))
		}
		if r.Intn(3) == 0 { // make the source hit the set
			if s := strings.TrimPrefix(string(from), "^"); len(s) > 0 {
				b := []byte(src)
				for k := range b {
					if r.Intn(2) == 0 {
						b[k] = s[r.Intn(len(s))]
					}
				}
				src = string(b)
			}
		}
		got := catch(func() string { return lib.X(tr.Replace(src, from, to)) })
		t.Q(fmt.Sprintf("tr %s %s %s", lib.X(src), lib.X(string(from)), lib.X(string(to))), got)
		switch {
		case len(to) == 0:
			t.Count("tr.class=delete")
		case len(from) > 0 && from[0] == '^':
			t.Count("tr.class=complement")
		case len(to) < len(from):
			t.Count("tr.class=squeeze")
		default:
			t.Count("tr.class=map")
		}
		if want := lib.X(refReplace(src, string(from), string(to))); want != got {
			t.Fail("tr-replace-ref", fmt.Sprintf("Replace(%q, %q, %q) = %s, reference %s", src, from, to, got, want))
		}
		if got != lib.X(src) {
			t.Count("tr.changed")
		}
		if i < 3 {
			t.Sample(fmt.Sprintf("tr.Replace(%q, New(%q)=%q, New(%q)=%q) = %s", src, rawFrom, from, rawTo, to, got))
		}
		// identity translation: a set without duplicates and without ^ translated to itself
		if len(from) > 0 && from[0] != '^' && !hasDup(string(from)) {
			if out := tr.Replace(src, from, from); out != src {
				t.Fail("tr-identity", fmt.Sprintf("Replace(%q, %q, same) = %q", src, from, out))
			}
		}

		// ---- str: case
		a := rbytes(r, 8, alpha)
		b := a
		switch r.Intn(4) {
		case 0:
			b = rbytes(r, 8, alpha)
		case 1: // same letters, other case
			bb := []byte(a)
			for k := range bb {
				if r.Intn(2) == 0 {
					bb[k] = ascii.ToUpper(bb[k])
				} else {
					bb[k] = ascii.ToLower(bb[k])
				}
			}
			b = string(bb)
			t.Count("str.case-variant")
		case 2: // prefix
			b = a[:r.Intn(len(a)+1)]
			t.Count("str.prefix")
		}
		switch r.Intn(6) {
		case 0: // same length, some bytes differ only in bit 5 (the letter-case bit) — letters or not
			bb := []byte(a)
			for k := range bb {
				if r.Intn(3) == 0 {
					bb[k] ^= 0x20
				}
			}
			b = string(bb)
			t.Count("str.bit5-variant")
		case 1: // common prefix, then two bytes around the edges of the letter ranges
			edge := "@AZ[\\]^_`az{ 0\x00\x7f\xc1\xe1"
			pre := a[:r.Intn(len(a)+1)]
			a = pre + string(edge[r.Intn(len(edge))]) + rbytes(r, 2, alpha)
			b = pre + string(edge[r.Intn(len(edge))]) + rbytes(r, 2, alpha)
			t.Count("str.edge-pair")
		}
		lo, up := str.ToLower(a), str.ToUpper(a)
		t.Q("lower "+lib.X(a), lib.X(lo))
		t.Q("upper "+lib.X(a), lib.X(up))
		if lo != lowerRef(a) || up != upperRef(a) {
			t.Fail("str-tolower-ref", fmt.Sprintf("ToLower(%q)=%q ToUpper=%q", a, lo, up))
		}
		c := str.CmpLower(a, b)
		t.Q(fmt.Sprintf("cmplower %s %s", lib.X(a), lib.X(b)), fmt.Sprint(c))
		if want := bytes.Compare([]byte(lowerRef(a)), []byte(lowerRef(b))); want != c {
			t.Fail("str-cmplower-ref", fmt.Sprintf("CmpLower(%q, %q) = %d, compare of lower-cased = %d", a, b, c, want))
		}
		if str.CmpLower(b, a) != -c {
			t.Fail("str-cmplower-antisym", fmt.Sprintf("CmpLower(%q, %q) = %d but swapped %d", a, b, c, str.CmpLower(b, a)))
		}
		eq := str.EqualCI(a, b)
		t.Q(fmt.Sprintf("eqci %s %s", lib.X(a), lib.X(b)), lib.B(eq))
		if eq != (c == 0) {
			t.Fail("str-equalci", fmt.Sprintf("EqualCI(%q, %q) = %v, CmpLower = %d", a, b, eq, c))
		}
		t.Count(fmt.Sprintf("str.cmp=%d", c))
		t.Q("cap "+lib.X(a), lib.X(str.Capitalize(a)))
		t.Q("uncap "+lib.X(a), lib.X(str.UnCapitalize(a)))
		cpl := str.CommonPrefixLen(a, b)
		t.Q(fmt.Sprintf("cpl %s %s", lib.X(a), lib.X(b)), fmt.Sprint(cpl))
		if str.CommonPrefix(a, b) != a[:cpl] || !strings.HasPrefix(b, a[:cpl]) ||
			(cpl < len(a) && cpl < len(b) && a[cpl] == b[cpl]) {
			t.Fail("str-commonprefix", fmt.Sprintf("CommonPrefixLen(%q, %q) = %d", a, b, cpl))
		}
		si, sj := r.Intn(len(a)+3), r.Intn(len(a)+3)
		if si > sj {
			si, sj = sj, si
		}
		t.Q(fmt.Sprintf("subi %s %d %d", lib.X(a), si, sj), lib.X(str.Subi(a, si, sj)))
		t.Q(fmt.Sprintf("subn %s %d %d", lib.X(a), si, sj), lib.X(str.Subn(a, si, sj)))
		if len(a) > 0 {
			di := r.Intn(len(a))
			ch, ni := str.Doesc(a, di)
			t.Q(fmt.Sprintf("doesc %s %d", lib.X(a), di), fmt.Sprintf("%d %d", ch, ni))
		}
		if r.Intn(4) == 0 { // escape sequences for Doesc
			e := "\\" + string("ntr\\\"'xq0"[r.Intn(9)]) + rbytes(r, 3, []byte("0123456789abcdefABCDEFg"))
			ch, ni := str.Doesc(e, 0)
			t.Q(fmt.Sprintf("doesc %s 0", lib.X(e)), fmt.Sprintf("%d %d", ch, ni))
			t.Count("str.doesc-escape")
		}

		// ---- str: split / join
		sepAlpha := []byte(",;ab")
		sep := rbytes(r, 2, sepAlpha)
		if sep == "" {
			sep = ","
		}
		s := rbytes(r, 10, append([]byte("xy"), sepAlpha...))
		parts := str.Split(s, sep)
		t.Q(fmt.Sprintf("split %s %s", lib.X(s), lib.X(sep)),
			strings.TrimSpace(fmt.Sprintf("%d %s", len(parts), lib.Xs(parts))))
		t.Count(fmt.Sprintf("split.pieces=%d", min(len(parts), 5)))
		if strings.ContainsAny(sep[:1], "({[") { // Join would take it as a delimiter pair
			t.Count("split.sep-bracket")
		} else if back := str.Join(sep, parts); back != s {
			t.Fail("str-split-join", fmt.Sprintf("Join(%q, Split(%q, %q)=%q) = %q", sep, s, sep, parts, back))
		}
		for _, p := range parts {
			if strings.Contains(p, sep) {
				t.Fail("str-split-piece", fmt.Sprintf("Split(%q, %q) piece %q contains the separator", s, sep, p))
			}
		}
		// Join with formats, incl. delimiters
		fmts := []string{"", ",", ", ", "(,)", "[,]", "{;}", "()", "(", "[", "(x", "ab"}
		f := fmts[r.Intn(len(fmts))]
		list := make([]string, r.Intn(4))
		for k := range list {
			list[k] = rbytes(r, 3, []byte("xy,"))
		}
		jo := catch(func() string { return lib.X(str.Join(f, list)) })
		t.Q(strings.TrimSpace(fmt.Sprintf("join %s %s", lib.X(f), lib.Xs(list))), jo)
		if jo == "!panic" {
			t.Count("join.panic")
		}
	}
}

func hasDup(s string) bool {
	var seen [256]bool
	for i := 0; i < len(s); i++ {
		if seen[s[i]] {
			return true
		}
		seen[s[i]] = true
	}
	return false
}
