// C18 schedule exploration on the REAL code: db19/stor/stor.go of the tree under test is
// instrumented mechanically (a yield point before every statement of Stor.Alloc / Stor.extend
// that touches s.size, s.allocChunk or s.chunks; s.lock.Lock() becomes "yield, TryLock, repeat"),
// copied with heapstor.go into a scratch module, and an explorer program runs 2-3 goroutines
// through Alloc under a deterministic scheduler: exactly one goroutine runs between two yield
// points, the scheduler picks who (seeded random schedules with few preemptions). After every
// schedule the direct oracles of the property are evaluated on the returned ranges (overlap,
// straddle, beyond Size(), data intact); a violation is reported with the schedule that produced
// it. Nothing is replaced in /repo; the instrumented copy lives under $VERIF_SCRATCH.
package main

import (
	"bufio"
	"bytes"
	"fmt"
	"go/ast"
	"go/parser"
	"go/printer"
	"go/token"
	"os"
	"os/exec"
	"path/filepath"
	"strings"

	"verif/harness/lib"
)

func shared(e ast.Node) bool {
	found := false
	ast.Inspect(e, func(n ast.Node) bool {
		sel, ok := n.(*ast.SelectorExpr)
		if !ok {
			return true
		}
		// s.<field>.<Method>
		inner, ok := sel.X.(*ast.SelectorExpr)
		if !ok {
			return true
		}
		if id, ok := inner.X.(*ast.Ident); ok && id.Name == "s" {
			switch inner.Sel.Name {
			case "size", "allocChunk", "chunks":
				found = true
			}
		}
		return true
	})
	return found
}

func callStmt(name string, args ...ast.Expr) ast.Stmt {
	return &ast.ExprStmt{X: &ast.CallExpr{Fun: ast.NewIdent(name), Args: args}}
}

// instrument rewrites a statement list; returns the number of yield points inserted
func instrument(list []ast.Stmt, fset *token.FileSet, count *int) []ast.Stmt {
	var out []ast.Stmt
	for _, st := range list {
		own := false // does the statement itself (not its nested blocks) touch shared state?
		switch s := st.(type) {
		case *ast.ExprStmt:
			var buf bytes.Buffer
			printer.Fprint(&buf, fset, s.X)
			if buf.String() == "s.lock.Lock()" {
				*count++
				out = append(out, callStmt("verifLock", &ast.UnaryExpr{Op: token.AND, X: &ast.SelectorExpr{X: ast.NewIdent("s"), Sel: ast.NewIdent("lock")}}))
				continue
			}
			own = shared(s)
		case *ast.IfStmt:
			if s.Init != nil && shared(s.Init) {
				own = true
			}
			if shared(s.Cond) {
				own = true
			}
			s.Body.List = instrument(s.Body.List, fset, count)
			for e := s.Else; e != nil; {
				switch x := e.(type) {
				case *ast.BlockStmt:
					x.List = instrument(x.List, fset, count)
					e = nil
				case *ast.IfStmt:
					if shared(x.Cond) {
						own = true // evaluated as part of the chain
					}
					x.Body.List = instrument(x.Body.List, fset, count)
					e = x.Else
				default:
					e = nil
				}
			}
		case *ast.ForStmt:
			if (s.Cond != nil && shared(s.Cond)) || (s.Init != nil && shared(s.Init)) || (s.Post != nil && shared(s.Post)) {
				own = true
			}
			s.Body.List = instrument(s.Body.List, fset, count)
		case *ast.RangeStmt:
			own = shared(s.X)
			s.Body.List = instrument(s.Body.List, fset, count)
		case *ast.BlockStmt:
			s.List = instrument(s.List, fset, count)
		case *ast.DeferStmt:
			// deferred unlock runs at return, inside the last step
		case *ast.ReturnStmt:
			// `return offset, s.Data(offset)[:n:n]` reads s.chunks only through Data: no yield
		default:
			own = shared(st)
		}
		if own {
			*count++
			out = append(out, callStmt("verifYield"))
		}
		out = append(out, st)
	}
	return out
}

const hooksSrc = `package stor

import "sync"

// VerifYield is called before every statement of Alloc/extend that touches shared state.
var VerifYield = func() {}

func verifYield() { VerifYield() }

// verifLock is s.lock.Lock() under the deterministic scheduler: the step is enabled only
// while the mutex is free
func verifLock(m *sync.Mutex) {
	for {
		VerifYield()
		if m.TryLock() {
			return
		}
	}
}
`

func main() {
	t := lib.Open()
	defer t.Close()
	repo := os.Getenv("VERIF_REPO")
	if repo == "" {
		repo = "/repo"
	}
	scratch := os.Getenv("VERIF_SCRATCH")
	if scratch == "" {
		scratch, _ = os.MkdirTemp("", "c18x")
		defer os.RemoveAll(scratch)
	}
	dir := filepath.Join(scratch, "x")
	fail := func(what string, err any) {
		t.Fail("explore-setup", fmt.Sprintf("%s: %v", what, err))
	}
	if err := os.MkdirAll(filepath.Join(dir, "stor"), 0o755); err != nil {
		fail("mkdir", err)
		return
	}
	// 1. instrument stor.go
	fset := token.NewFileSet()
	f, err := parser.ParseFile(fset, filepath.Join(repo, "db19/stor/stor.go"), nil, 0)
	if err != nil {
		fail("parse stor.go", err)
		return
	}
	points := 0
	for _, d := range f.Decls {
		fd, ok := d.(*ast.FuncDecl)
		if !ok || fd.Recv == nil || fd.Body == nil || (fd.Name.Name != "Alloc" && fd.Name.Name != "extend") {
			continue
		}
		fd.Body.List = instrument(fd.Body.List, fset, &points)
	}
	if points < 6 {
		fail("instrument", fmt.Sprintf("only %d yield points found in Stor.Alloc/extend", points))
		return
	}
	t.CountN("explore-yield-points", points)
	var buf bytes.Buffer
	if err := printer.Fprint(&buf, fset, f); err != nil {
		fail("print", err)
		return
	}
	os.WriteFile(filepath.Join(dir, "stor", "stor.go"), buf.Bytes(), 0o644)
	hs, err := os.ReadFile(filepath.Join(repo, "db19/stor/heapstor.go"))
	if err != nil {
		fail("read heapstor.go", err)
		return
	}
	os.WriteFile(filepath.Join(dir, "stor", "heapstor.go"), hs, 0o644)
	os.WriteFile(filepath.Join(dir, "stor", "zz_hooks.go"), []byte(hooksSrc), 0o644)
	// 2. the scratch module
	verif := os.Getenv("VERIF_ROOT")
	if verif == "" {
		verif = "/verif"
	}
	hmod, err := os.ReadFile(filepath.Join(verif, "harness", "go.mod"))
	if err != nil {
		fail("read harness go.mod", err)
		return
	}
	mod := strings.Replace(string(hmod), "module verif/harness", "module verifx", 1)
	mod = strings.Replace(mod, "=> /repo", "=> "+repo, 1)
	os.WriteFile(filepath.Join(dir, "go.mod"), []byte(mod), 0o644)
	if sum, err := os.ReadFile(filepath.Join(verif, "harness", "go.sum")); err == nil {
		os.WriteFile(filepath.Join(dir, "go.sum"), sum, 0o644)
	}
	os.WriteFile(filepath.Join(dir, "main.go"), []byte(explorerSrc), 0o644)
	// 3. build and run the explorer
	exe := filepath.Join(dir, "explorer")
	cmd := exec.Command("go", "build", "-o", exe, ".")
	cmd.Dir = dir
	cmd.Env = append(os.Environ(), "GOFLAGS=-mod=mod", "GOPROXY=off")
	if out, err := cmd.CombinedOutput(); err != nil {
		fail("the instrumented copy of db19/stor does not build", string(out))
		return
	}
	run := exec.Command(exe)
	run.Env = append(os.Environ(), fmt.Sprintf("VERIF_SEED=%d", lib.Seed()), fmt.Sprintf("VERIF_N=%d", lib.N(60000)))
	run.Stderr = nil
	stdout, _ := run.StdoutPipe()
	if err := run.Start(); err != nil {
		fail("start explorer", err)
		return
	}
	sc := bufio.NewScanner(stdout)
	sc.Buffer(make([]byte, 1<<20), 1<<20)
	for sc.Scan() {
		p := strings.SplitN(sc.Text(), "\t", 3)
		switch {
		case len(p) == 3 && p[0] == "F":
			t.Fail(p[1], p[2])
		case len(p) == 3 && p[0] == "C":
			n := 0
			fmt.Sscan(p[2], &n)
			t.CountN(p[1], n)
		case len(p) >= 2 && p[0] == "S":
			t.Sample(p[1])
		}
	}
	if err := run.Wait(); err != nil {
		t.Fail("explore-crash", fmt.Sprintf("the explorer died: %v", err))
	}
}
