package main

// explorerSrc is the program built against the instrumented copy of db19/stor (module verifx).
const explorerSrc = `package main

import (
	"fmt"
	"math/rand"
	"os"
	"sort"
	"strconv"
	"strings"

	"verifx/stor"
)

type ev struct {
	tid  int
	done bool
}

var (
	cur    = -1
	grant  []chan struct{}
	events = make(chan ev)
)

func yield() {
	t := cur
	if t < 0 {
		return // not under the scheduler (set-up allocation)
	}
	events <- ev{t, false}
	<-grant[t]
}

type alloc struct {
	off uint64
	n   int
	who int
}

var fails = map[string]int{}

func fail(sig, desc string) {
	fails[sig]++
	if fails[sig] <= 6 {
		fmt.Printf("F\t%s\t%s\n", sig, desc)
	}
}

func catch(f func()) (msg string) {
	defer func() {
		if e := recover(); e != nil {
			msg = fmt.Sprint(e)
			if i := strings.IndexByte(msg, '\n'); i >= 0 {
				msg = msg[:i]
			}
		}
	}()
	f()
	return ""
}

func envInt(k string, def int) int {
	if n, err := strconv.Atoi(os.Getenv(k)); err == nil && n > 0 {
		return n
	}
	return def
}

func main() {
	stor.VerifYield = yield
	rng := rand.New(rand.NewSource(int64(envInt("VERIF_SEED", 1))))
	runs := envInt("VERIF_N", 60000)
	counts := map[string]int{}
	for run := 0; run < runs; run++ {
		cs := []int{8, 16, 32}[rng.Intn(3)]
		st := stor.HeapStor(cs)
		// set-up allocation (the storage must have a chunk): leaves size w, near the chunk end
		w := cs - rng.Intn(5)
		if rng.Intn(4) == 0 {
			w = 1 + rng.Intn(cs)
		}
		if msg := catch(func() { st.Alloc(w) }); msg != "" {
			fail("sequential-panic", fmt.Sprintf("the first Alloc(%d) on an empty heap stor (chunksize %d) panicked: %s", w, cs, msg))
			continue
		}
		nt := 2 + rng.Intn(2)
		sizes := make([][]int, nt)
		for t := range sizes {
			k := 1 + rng.Intn(3)
			for i := 0; i < k; i++ {
				n := 1 + rng.Intn(4)
				if rng.Intn(10) == 0 {
					n = 1 + rng.Intn(cs)
				}
				sizes[t] = append(sizes[t], n)
			}
		}
		grant = make([]chan struct{}, nt)
		res := make([][]alloc, nt)
		panics := make([]string, nt)
		for t := 0; t < nt; t++ {
			grant[t] = make(chan struct{})
			go func(t int) {
				<-grant[t]
				for _, n := range sizes[t] {
					var o uint64
					var b []byte
					if msg := catch(func() { o, b = st.Alloc(n) }); msg != "" {
						panics[t] = msg
						break
					}
					if len(b) != n || cap(b) != n {
						panics[t] = fmt.Sprintf("slice-len: Alloc(%d) returned len %d cap %d", n, len(b), cap(b))
						break
					}
					for i := range b {
						b[i] = byte(t + 1)
					}
					res[t] = append(res[t], alloc{o, n, t})
				}
				events <- ev{t, true}
			}(t)
		}
		done := make([]bool, nt)
		alive := nt
		c := rng.Intn(nt)
		switchPct := []int{5, 15, 30, 50}[rng.Intn(4)]
		var sched []byte
		steps := 0
		for alive > 0 {
			if done[c] || rng.Intn(100) < switchPct {
				for {
					c = rng.Intn(nt)
					if !done[c] {
						break
					}
				}
			}
			cur = c
			grant[c] <- struct{}{}
			e := <-events
			if e.done {
				done[c] = true
				alive--
			}
			sched = append(sched, byte('0'+c))
			steps++
			if steps > 4000 {
				fmt.Printf("F\texplore-hang\tAlloc neither returned nor panicked within 4000 scheduled steps: chunksize %d, first Alloc(%d), per-goroutine sizes %v, schedule %s...\n", cs, w, sizes, sched[:200])
				os.Stdout.Sync()
				os.Exit(0)
			}
		}
		cur = -1
		ctx := fmt.Sprintf("deterministic schedule on the instrumented real code: chunksize %d, first Alloc(%d), then goroutine sizes %v, schedule (goroutine per step) %s", cs, w, sizes, sched)
		var all []alloc
		for t := range res {
			all = append(all, res[t]...)
			switch {
			case panics[t] == "":
			case strings.Contains(panics[t], "too many retries"):
				counts["explore-panic-retries"]++
			case strings.HasPrefix(panics[t], "slice-len"):
				fail("slice-len", panics[t]+"; "+ctx)
			default:
				fail("concurrent-panic", fmt.Sprintf("Alloc panicked with %q; %s", panics[t], ctx))
			}
		}
		sort.Slice(all, func(i, j int) bool { return all[i].off < all[j].off })
		size := st.Size()
		// the set-up allocation occupies [0,w)
		prevEnd, prevWho := uint64(w), -1
		for _, a := range all {
			end := a.off + uint64(a.n)
			if a.off/uint64(cs) != (end-1)/uint64(cs) {
				fail("straddle", fmt.Sprintf("allocation [%d,%d) of goroutine %d crosses a chunk boundary; %s", a.off, end, a.who, ctx))
			}
			if end > size {
				fail("beyond-size", fmt.Sprintf("allocation [%d,%d) of goroutine %d ends beyond Size()=%d; %s", a.off, end, a.who, size, ctx))
			}
			if a.off < prevEnd {
				fail("overlap", fmt.Sprintf("allocation [%d,%d) of goroutine %d overlaps the allocation of goroutine %d ending at %d (-1 = the first allocation); %s", a.off, end, a.who, prevWho, prevEnd, ctx))
			}
			if end > prevEnd {
				prevEnd, prevWho = end, a.who
			}
			if msg := catch(func() {
				d := st.Data(a.off)
				for k := 0; k < a.n && k < len(d); k++ {
					if d[k] != byte(a.who+1) {
						fail("overlap", fmt.Sprintf("byte %d of allocation [%d,%d) of goroutine %d was overwritten (found %d); %s", k, a.off, end, a.who, d[k], ctx))
						break
					}
				}
			}); msg != "" {
				fail("beyond-size", fmt.Sprintf("Data(%d) of a returned allocation panics: %s; %s", a.off, msg, ctx))
			}
		}
		counts["explore-schedules"]++
		counts["explore-steps"] += steps
		counts[fmt.Sprintf("explore-goroutines-%d", nt)]++
		if size/uint64(cs) > 0 {
			counts["explore-schedules-crossing-chunk"]++
		}
		if run == 0 {
			fmt.Printf("S\t%s\n", ctx)
		}
	}
	for k, v := range counts {
		fmt.Printf("C\t%s\t%d\n", k, v)
	}
}
`
