// C28 correspondence suite: Compare / Equal / Hash / Order / object Get over values of every
// comparable type and representation (bool; *smi, SuInt64, SuDnum; SuStr, SuConcat, SuExcept;
// SuDate, SuTimestamp; SuObject, SuRecord built in different insertion orders) against the Lean
// model Gsu.Model.Value, plus the direct oracles of the property on the implementation.
package main

import (
	"fmt"
	"math/rand"
	"sort"
	"strings"

	. "github.com/apmckinlay/gsuneido/core"
	"github.com/apmckinlay/gsuneido/util/dnum"
	"verif/harness/lib"
)

// alt is one representation of a value: how to build it and how the model reads it
type alt struct {
	mk  func() Value
	enc string
}

// class = the representations of one abstract value (all pairwise Equal by the property)
type class []alt

func encNum(v Value) string {
	switch x := v.(type) {
	case SuInt64:
		n, _ := x.ToInt()
		return fmt.Sprintf("l%d", n)
	case SuDnum:
		return fmt.Sprintf("d%d,%d,%d", x.Sign(), x.Coef(), x.Exp())
	}
	n, _ := SuIntToInt(v)
	return fmt.Sprintf("s%d", n)
}

func numAlt(v Value) alt { return alt{func() Value { return v }, encNum(v)} }

func intClass(n int64, withDnum bool) class {
	c := class{numAlt(IntVal(int(n)))}
	if n == 32767 || n == -32768 {
		c = append(c, numAlt(Int64Val(n)))
	}
	if withDnum {
		c = append(c, numAlt(SuDnum{Dnum: dnum.FromInt(n)}))
	}
	return c
}

// liveConcats are the SuConcat values created in the current case; their (possibly shared)
// buffers are extended by later concatenations before the oracles run
var liveConcats []SuConcat

// storedKeys remembers the very key values members were stored under
var storedKeys []struct {
	ob, k, v Value
	desc     string
}

func track(c SuConcat) Value {
	liveConcats = append(liveConcats, c)
	return c
}

func strClass(s string) class {
	x := lib.X(s)[1:]
	h := len(s) / 2
	c := class{
		{func() Value { return SuStr(s) }, "S" + x},
		{func() Value { return track(NewSuConcat().Add(s)) }, "C" + x},
		{func() Value { return &SuExcept{SuStr: SuStr(s)} }, "E" + x},
		// built in two steps: shares its buffer with its own prefix value
		{func() Value { c0 := NewSuConcat().Add(s[:h]); track(c0); return track(c0.Add(s[h:])) }, "C" + x},
		// already extended by a derived concatenation when it is first used
		{func() Value { c := NewSuConcat().Add(s); track(c.Add("tail")); return track(c) }, "C" + x},
		// the prefix of a longer value whose buffer it shares, after a sibling took the buffer over
		{func() Value {
			c := NewSuConcat().Add(s)
			d := c.Add("x")
			track(c.Add("y")) // copies: d owns the tail of the shared buffer
			track(d)
			return track(c)
		}, "C" + x},
		// exception text produced by concatenation (cat3 keeps the exception)
		{func() Value { return OpCat(&SuExcept{SuStr: SuStr(s[:h])}, SuStr(s[h:])) }, "E" + x},
	}
	if len(s) >= 256 {
		// what `a $ b` produces for long strings, and the same after `(a $ b) $ c`
		c = append(c, alt{func() Value {
			v := OpCat(SuStr(s[:h]), SuStr(s[h:]))
			if cc, ok := v.(SuConcat); ok {
				track(cc)
			}
			return v
		}, "C" + x})
		c = append(c, alt{func() Value {
			v := OpCat(SuStr(s[:h]), SuStr(s[h:]))
			if cc, ok := v.(SuConcat); ok {
				track(cc)
				if d, ok := OpCat(v, SuStr("more")).(SuConcat); ok {
					track(d)
				}
			}
			return v
		}, "C" + x})
	}
	return c
}

func dateClass(y, m, d, h, mi, s, ms, extra int) class {
	date := uint32(y<<9) | uint32(m<<5) | uint32(d)
	tm := uint32(h<<22) | uint32(mi<<16) | uint32(s<<10) | uint32(ms)
	if extra == 0 {
		return class{{func() Value { return NewDate(y, m, d, h, mi, s, ms) }, fmt.Sprintf("D%d.%d", date, tm)}}
	}
	lit := fmt.Sprintf("#%04d%02d%02d.%02d%02d%02d%03d%03d", y, m, d, h, mi, s, ms, extra)
	return class{{func() Value { return DateFromLiteral(lit) }, fmt.Sprintf("T%d.%d.%d", date, tm, extra)}}
}

var scalars []class

func init() {
	scalars = append(scalars, class{{func() Value { return True }, "b1"}}, class{{func() Value { return False }, "b0"}})
	for _, n := range []int64{0, 1, -1, 5, -3, 200, 32767, -32768, 32768, 40000, 100000, 200000, 1 << 40,
		1e15, 9999999999999999} {
		scalars = append(scalars, intClass(n, true))
	}
	// ints of more than 16 digits: the decimal twin exists only when FromInt is exact
	scalars = append(scalars, intClass(1e16, true), intClass(1e17, true), intClass(1e16+1, false),
		intClass(1e17+1, false), intClass(9223372036854775807, false), intClass(9223372036854775806, false),
		intClass(-9223372036854775808, false))
	for _, s := range []string{"2.5", "-2.5", ".1", "1e30", "-1e30", "1.5e17", "9223372036854776000", "1e-20"} {
		scalars = append(scalars, class{numAlt(SuDnum{Dnum: dnum.FromStr(s)})})
	}
	scalars = append(scalars, class{numAlt(SuDnum{Dnum: dnum.PosInf})}, class{numAlt(SuDnum{Dnum: dnum.NegInf})})
	for _, s := range []string{"", "a", "b", "ab", "A", "a\x00", "\xff", "k"} {
		scalars = append(scalars, strClass(s))
	}
	scalars = append(scalars, strClass(strings.Repeat("x", 70)), strClass(strings.Repeat("x", 70)+"y"),
		strClass(strings.Repeat("ab", 150)), strClass(strings.Repeat("ab", 150)+"c"))
	scalars = append(scalars, dateClass(2020, 1, 1, 0, 0, 0, 0, 0), dateClass(2020, 1, 1, 0, 0, 0, 0, 1),
		dateClass(2020, 1, 1, 0, 0, 0, 0, 2), dateClass(2020, 1, 1, 0, 0, 1, 0, 0), dateClass(2020, 1, 2, 0, 0, 0, 0, 0),
		dateClass(2019, 12, 31, 23, 59, 59, 999, 0), dateClass(2019, 12, 31, 23, 59, 59, 999, 255),
		dateClass(2020, 1, 1, 0, 0, 0, 1, 0), dateClass(2020, 1, 1, 0, 0, 0, 1, 3), dateClass(2020, 1, 1, 0, 0, 0, 2, 0))
}

// groups of neighbours around a 16-digit rounding boundary
var near [][]class

func init() {
	for _, k := range []int64{1e16, 1e17, 9223372036854775807 - 807, 123456789012345600} {
		near = append(near, []class{intClass(k, true), intClass(k+1, false), intClass(k-1, false),
			{numAlt(SuDnum{Dnum: dnum.FromInt(k)})}})
	}
	near = append(near, []class{intClass(9223372036854775807, false), intClass(9223372036854775806, false),
		{numAlt(SuDnum{Dnum: dnum.FromStr("9223372036854776000")})}})
}

// node is a generated abstract value: it can be realised in several (Equal) ways
type node struct {
	cls   class  // scalar
	list  []node // object
	named [][2]node
	isObj bool
	rec   bool
}

func gen(r *rand.Rand, depth int) node {
	if depth > 0 && r.Intn(3) == 0 {
		n := node{isObj: true, rec: r.Intn(5) == 0}
		if !n.rec {
			for i := r.Intn(4); i > 0; i-- {
				n.list = append(n.list, gen(r, depth-1))
			}
		}
		used := map[string]bool{}
		for i := []int{0, 0, 1, 2, 3, 4, 5, 7}[r.Intn(8)]; i > 0; i-- {
			var k node
			if n.rec || r.Intn(4) != 0 {
				k = node{cls: scalars[r.Intn(len(scalars))]}
			} else {
				k = gen(r, depth-1)
			}
			if !k.isObj {
				// skip keys that would land in (or migrate to) the list part
				if v, ok := k.cls[0].mk().IfInt(); ok && v >= 0 && v < 50 {
					continue
				}
			}
			id := k.id()
			if used[id] {
				continue
			}
			used[id] = true
			n.named = append(n.named, [2]node{k, gen(r, depth-1)})
		}
		return n
	}
	return node{cls: scalars[r.Intn(len(scalars))]}
}

// id identifies the abstract value (first representation, canonical member order)
func (n node) id() string {
	_, e := n.realize(nil)
	// a record and an object with the same members are Equal (deepEqual): same abstract value
	return strings.ReplaceAll(e, "R(", "O(")
}

// realize builds one representation; r == nil gives the canonical one (first alternatives,
// members inserted in generation order)
func (n node) realize(r *rand.Rand) (Value, string) {
	if !n.isObj {
		a := n.cls[0]
		if r != nil {
			a = n.cls[r.Intn(len(n.cls))]
		}
		return a.mk(), a.enc
	}
	var le []string
	var lv []Value
	for _, c := range n.list {
		v, e := c.realize(r)
		lv = append(lv, v)
		le = append(le, e)
	}
	type kv struct {
		k, v   Value
		ke, ve string
	}
	var kvs []kv
	for _, m := range n.named {
		k, ke := m[0].realize(r)
		v, ve := m[1].realize(r)
		kvs = append(kvs, kv{k, v, ke, ve})
	}
	if r != nil {
		r.Shuffle(len(kvs), func(i, j int) { kvs[i], kvs[j] = kvs[j], kvs[i] })
	}
	var res Value
	tag := "O("
	if n.rec {
		rec := NewSuRecord()
		for _, m := range kvs {
			rec.Set(m.k, m.v)
		}
		res = rec
		tag = "R("
	} else {
		ob := &SuObject{}
		for _, v := range lv {
			ob.Add(v)
		}
		for _, m := range kvs {
			ob.Set(m.k, m.v)
		}
		res = ob
	}
	if r != nil {
		for _, m := range kvs {
			storedKeys = append(storedKeys, struct {
				ob, k, v Value
				desc     string
			}{res, m.k, m.v, m.ke})
		}
	}
	// the model reads the members in a canonical (sorted) order: Compare/Equal/Hash must not
	// depend on it
	var ne []string
	for _, m := range kvs {
		ne = append(ne, m.ke+"="+m.ve)
	}
	sort.Strings(ne)
	return res, tag + strings.Join(le, ";") + "|" + strings.Join(ne, ";") + ")"
}

func sgn(i int) int {
	if i < 0 {
		return -1
	} else if i > 0 {
		return 1
	}
	return 0
}

func hasStr(e string) bool { return strings.ContainsAny(e, "SCE") }

// int17 reports an int of more than 16 digits somewhere in the encoding
func int17(e string) bool {
	for _, f := range strings.FieldsFunc(e, func(c rune) bool { return strings.ContainsRune("();|=", c) }) {
		if len(f) > 1 && f[0] == 'l' {
			d := strings.TrimPrefix(f[1:], "-")
			if len(d) > 16 {
				return true
			}
		}
	}
	return false
}
func hasDnum(e string) bool { return strings.Contains(e, "d1,") || strings.Contains(e, "d-1,") }

func main() {
	t := lib.Open()
	defer t.Close()
	r := lib.Rand()
	n := lib.N(3000)
	for i := 0; i < n; i++ {
		depth := []int{0, 0, 1, 2, 2}[r.Intn(5)]
		var nodes [3]node
		for j := range nodes {
			nodes[j] = gen(r, depth)
		}
		if r.Intn(12) == 0 {
			// ints of more than 16 digits next to the decimal they round to
			g := near[r.Intn(len(near))]
			for j := range nodes {
				nodes[j] = node{cls: g[r.Intn(len(g))]}
			}
			r.Shuffle(3, func(i, j int) { nodes[i], nodes[j] = nodes[j], nodes[i] })
			t.Count("gen:near-int17")
		}
		if r.Intn(4) == 0 {
			nodes[1] = nodes[0] // same abstract value, other representation
		}
		if r.Intn(6) == 0 {
			nodes[2] = nodes[1]
		}
		var v [3]Value
		var e [3]string
		liveConcats, storedKeys = liveConcats[:0], storedKeys[:0]
		for j := range nodes {
			v[j], e[j] = nodes[j].realize(r)
			if nodes[j].isObj {
				t.Count("gen:object")
			} else {
				t.Count("gen:" + e[j][:1])
			}
		}
		if r.Intn(2) == 0 && len(liveConcats) > 0 {
			// later concatenations derived from the values in use extend their shared buffers;
			// the values themselves are unchanged and everything below must still hold
			for _, c := range liveConcats {
				c.Add("+ext")
				OpCat(c, SuStr(strings.Repeat("z", 300)))
			}
			t.Count("gen:concat-buffers-extended")
		}
		msg := lib.Catch(func() {
			// the very key a member was stored under still finds it
			for _, sk := range storedKeys {
				got := sk.ob.Get(nil, sk.k)
				if got == nil || !got.Equal(sk.v) {
					sig := "get-stored-key"
					if _, ok := sk.k.(SuConcat); ok {
						sig += ":concat"
					}
					t.Fail(sig, fmt.Sprintf("member stored under %s is not found by that same key value (got %v)", sk.desc, got))
				}
				t.Count("get:stored-key")
			}
			// ---- model replay
			for _, p := range [][2]int{{0, 1}, {1, 2}, {0, 2}, {1, 0}} {
				t.Q("cmp "+e[p[0]]+" "+e[p[1]], fmt.Sprint(sgn(v[p[0]].Compare(v[p[1]]))))
				t.Q("eq "+e[p[0]]+" "+e[p[1]], lib.B(v[p[0]].Equal(v[p[1]])))
			}
			for j := 0; j < 3; j++ {
				if !hasStr(e[j]) {
					t.Q("hash "+e[j], fmt.Sprint(v[j].Hash()))
				}
				t.Q("ord "+e[j], fmt.Sprint(int(Order(v[j]))))
			}
			// ---- direct oracles
			c01, c10 := sgn(v[0].Compare(v[1])), sgn(v[1].Compare(v[0]))
			c12, c02 := sgn(v[1].Compare(v[2])), sgn(v[0].Compare(v[2]))
			mixed := ""
			if (int17(e[0]) || int17(e[1]) || int17(e[2])) && (hasDnum(e[0]) || hasDnum(e[1]) || hasDnum(e[2])) {
				mixed = ":int17-dnum"
			}
			if c01 != -c10 {
				t.Fail("antisym"+mixed, fmt.Sprintf("Compare(%s, %s) = %d but reverse = %d", e[0], e[1], c01, c10))
			}
			if c01 <= 0 && c12 <= 0 && c02 > 0 {
				t.Fail("trans"+mixed, fmt.Sprintf("%s <= %s <= %s but Compare(first, last) = %d", e[0], e[1], e[2], c02))
			}
			if c01 >= 0 && c12 >= 0 && c02 < 0 {
				t.Fail("trans"+mixed, fmt.Sprintf("%s >= %s >= %s but Compare(first, last) = %d", e[0], e[1], e[2], c02))
			}
			if o0, o1 := Order(v[0]), Order(v[1]); o0 != o1 && c01 != sgn(int(o0)-int(o1)) {
				t.Fail("type-order", fmt.Sprintf("Compare(%s, %s) = %d against type order %v %v", e[0], e[1], c01, o0, o1))
			}
			for _, p := range [][2]int{{0, 1}, {1, 2}, {0, 2}} {
				x, y, ex, ey := v[p[0]], v[p[1]], e[p[0]], e[p[1]]
				eq := x.Equal(y)
				repmix := ""
				if hasDnum(ex) || hasDnum(ey) {
					repmix = ":int-dnum"
				}
				if eq != y.Equal(x) {
					t.Fail("equal-asym"+mixed, fmt.Sprintf("%s Equal %s = %v but reverse = %v", ex, ey, eq, !eq))
				}
				if eq && x.Compare(y) != 0 {
					t.Fail("equal-compare", fmt.Sprintf("%s Equal %s but Compare = %d", ex, ey, x.Compare(y)))
				}
				if eq && x.Hash() != y.Hash() {
					sig := "equal-hash" + repmix
					if !nodes[p[0]].isObj && (ex[0] == 'C' || ey[0] == 'C') {
						sig = "equal-hash:concat"
					}
					if nodes[p[0]].isObj && (repmix == "" || ex == ey) {
						sig = "equal-hash:object-order" // same members, other insertion order
					}
					t.Fail(sig, fmt.Sprintf("%s Equal %s but Hash %x != %x", ex, ey, x.Hash(), y.Hash()))
				}
				// same abstract value => must be Equal
				if nodes[p[0]].id() == nodes[p[1]].id() && !eq {
					sig := "same-value-not-equal" + repmix
					if strings.Contains(ex+ey, "9223372036854775,19") {
						// Dnum.ToInt64 refuses coef == MaxInt64/1000 although it fits
						sig = "same-value-not-equal:toint64-boundary"
					}
					if repmix == "" && nodes[p[0]].isObj {
						sig = "same-value-not-equal:object-key"
					}
					t.Fail(sig, fmt.Sprintf("%s and %s denote the same value but Equal = false", ex, ey))
				}
				if eq {
					t.Count("pair:equal")
				}
			}
			// ---- object members are found by any key Equal to the one used to store them
			if nodes[0].isObj && len(nodes[0].named) > 0 {
				m := nodes[0].named[r.Intn(len(nodes[0].named))]
				k, ke := m[0].realize(r)
				want, _ := m[1].realize(nil)
				got := v[0].Get(nil, k)
				out := "!nil"
				if got != nil {
					out = encVal(got)
				}
				if out != "?" {
					t.Q("get "+e[0]+" "+ke, out)
				}
				t.Count("get:named")
				if got == nil || !got.Equal(want) {
					sig := "get-equal-key"
					if hasDnum(ke) || hasDnum(e[0]) {
						sig += ":int-dnum"
					} else if m[0].isObj {
						sig += ":object-key"
					}
					t.Fail(sig, fmt.Sprintf("%s: member stored under a key Equal to %s not found (got %v)", e[0], ke, got))
				}
			}
		})
		if msg != "" {
			t.Fail("panic", fmt.Sprintf("%s %s %s: %s", e[0], e[1], e[2], msg))
		}
		if i < 3 {
			t.Sample(e[0] + " " + e[1] + " " + e[2])
		}
	}
}

// encVal encodes a scalar result of Get ("?" for containers: skipped, the oracle still applies)
func encVal(v Value) string {
	switch x := v.(type) {
	case SuBool:
		if x {
			return "b1"
		}
		return "b0"
	case SuStr:
		return "S" + lib.X(string(x))[1:]
	case SuConcat:
		return "C" + lib.X(AsStr(x))[1:]
	case *SuExcept:
		return "E" + lib.X(string(x.SuStr))[1:]
	case SuDate, SuTimestamp, *SuObject, *SuRecord:
		return "?"
	}
	return encNum(v)
}
