// C17 correspondence suite: util/queue.PriorityQueue against the Lean mirror Gsu.Model.Pq
// (sequential histories, Q lines replayed by drv_c17) plus the direct oracles of the property
// on the implementation: per-transaction FIFO, exactly-once, priority rule, boundedness
// (the 9th Put blocks until a Get), no lost wake-up (a blocked Put/Get is released), and a real
// multi-goroutine run (several producers, one consumer) with the FIFO/exactly-once oracles.
package main

import (
	"fmt"
	"math/rand"
	"time"

	"github.com/apmckinlay/gsuneido/util/queue"
	"verif/harness/lib"
)

const bufSize = 8 // the model's value is regenerated; a different value shows as !full disagreements

type item struct {
	id, prio, tran int
}

func (it item) String() string { return fmt.Sprintf("%d %d %d", it.id, it.prio, it.tran) }

var prios = []int{0, 1, 2, 3, 1, 2, 3, 2, -1, 7, 1 << 40, -(1 << 40)}
var trans = []int{0, 1, 2, 3, 1, 2, 0, 5, -1, 1 << 33, 7}

type shadow struct {
	pending []item // put and not yet delivered, in put order (bookkeeping for the oracles)
}

// checkGet evaluates the property on one Get result
func (sh *shadow) checkGet(t *lib.Trace, g item, ctx string) {
	pos := -1
	for i, p := range sh.pending {
		if p == g {
			pos = i
			break
		}
	}
	if pos < 0 {
		t.Fail("exactly-once:not-pending", fmt.Sprintf("Get returned %v which is not pending (lost, invented or delivered twice); %s", g, ctx))
		return
	}
	for i := 0; i < pos; i++ {
		if sh.pending[i].tran == g.tran {
			t.Fail("fifo:overtaken", fmt.Sprintf("Get returned %v before the older message %v of the same transaction; %s", g, sh.pending[i], ctx))
			break
		}
	}
	// heads = oldest pending per tran
	seen := map[int]bool{}
	for i, p := range sh.pending {
		if seen[p.tran] {
			continue
		}
		seen[p.tran] = true
		if p.prio > g.prio {
			t.Fail("priority:not-max", fmt.Sprintf("Get returned %v although %v (oldest of its transaction) has higher priority; %s", g, p, ctx))
			break
		}
		// ties between equal priorities are NOT part of the property ("the highest-priority
		// one is delivered first"); which of two equal-priority heads comes first is only
		// compared with the Lean mirror (a model disagreement), never reported as a failing input
		if p.prio == g.prio && i < pos {
			t.Count("tie-broken-by-position")
		}
	}
	sh.pending = append(sh.pending[:pos:pos], sh.pending[pos+1:]...)
}

func (sh *shadow) ctx() string {
	return fmt.Sprint("pending(id prio tran)=", sh.pending)
}

const blockProbe = 3 * time.Millisecond
const releaseTimeout = 20 * time.Second

func sequential(t *lib.Trace, r *rand.Rand, nextID *int) {
	pq := queue.NewPriorityQueue()
	sh := &shadow{}
	t.Q("reset", "ok")
	nops := 10 + r.Intn(60)
	// bias: phases of filling and draining so that full and empty are both reached
	fillBias := 50
	mk := func() item {
		*nextID++
		it := item{id: *nextID, prio: prios[r.Intn(len(prios))], tran: trans[r.Intn(len(trans))]}
		if r.Intn(4) == 0 {
			it.prio = r.Intn(4)
			it.tran = r.Intn(3)
		}
		return it
	}
	doGet := func() {
		g := pq.Get().(item)
		ctx := sh.ctx()
		t.Q("get", g.String())
		sh.checkGet(t, g, ctx)
	}
	for op := 0; op < nops; op++ {
		if op%16 == 0 {
			fillBias = []int{85, 50, 25, 70}[r.Intn(4)]
		}
		if r.Intn(100) < fillBias {
			it := mk()
			if len(sh.pending) < bufSize {
				pq.Put(it.prio, it.tran, it)
				t.Qf("ok", "put %d %d %d", it.prio, it.tran, it.id)
				sh.pending = append(sh.pending, it)
				t.Count("put")
				continue
			}
			// full queue: the Put must block until a Get makes room
			t.Count("put-on-full")
			done := make(chan struct{})
			go func() {
				pq.Put(it.prio, it.tran, it)
				close(done)
			}()
			select {
			case <-done:
				t.Fail("bounded:put-did-not-block", fmt.Sprintf("Put on a queue holding %d elements returned without a Get; %s", len(sh.pending), sh.ctx()))
				sh.pending = append(sh.pending, it)
				t.Qf("ok", "put %d %d %d", it.prio, it.tran, it.id)
				continue
			case <-time.After(blockProbe):
			}
			t.Qf("!full", "put %d %d %d", it.prio, it.tran, it.id)
			doGet() // must not see `it`: the producer is still parked or re-checking
			select {
			case <-done:
			case <-time.After(releaseTimeout):
				t.Fail("lost-wakeup:producer", "a Put blocked on a full queue was not released by the following Get; "+sh.ctx())
				return
			}
			t.Qf("ok", "put %d %d %d", it.prio, it.tran, it.id)
			sh.pending = append(sh.pending, it)
		} else {
			if len(sh.pending) > 0 {
				t.Count("get")
				doGet()
				continue
			}
			// empty queue: the Get must block until a Put
			t.Count("get-on-empty")
			res := make(chan item, 1)
			go func() { res <- pq.Get().(item) }()
			select {
			case g := <-res:
				t.Fail("exactly-once:get-on-empty-returned", fmt.Sprintf("Get on an empty queue returned %v", g))
				continue
			case <-time.After(blockProbe):
			}
			t.Q("get", "!empty")
			it := mk()
			pq.Put(it.prio, it.tran, it)
			t.Qf("ok", "put %d %d %d", it.prio, it.tran, it.id)
			sh.pending = append(sh.pending, it)
			select {
			case g := <-res:
				ctx := sh.ctx()
				t.Q("get", g.String())
				sh.checkGet(t, g, ctx)
			case <-time.After(releaseTimeout):
				t.Fail("lost-wakeup:consumer", "a Get blocked on an empty queue was not released by the following Put")
				return
			}
		}
	}
	// drain: everything put must come out
	t.Qf(fmt.Sprint(len(sh.pending)), "len")
	for len(sh.pending) > 0 {
		n := len(sh.pending)
		doGet()
		if len(sh.pending) == n {
			return // oracle already reported
		}
	}
}

// concurrent runs several producers against one consumer; every transaction id is owned by
// one producer (as in the database: one goroutine sends a transaction's messages in order).
func concurrent(t *lib.Trace, r *rand.Rand, round int) {
	np := 2 + r.Intn(5)
	per := 20 + r.Intn(200)
	msgs := make([][]item, np)
	total := 0
	for p := range msgs {
		for k := 0; k < per; k++ {
			msgs[p] = append(msgs[p], item{id: p*100000 + k, prio: r.Intn(4), tran: p*10 + r.Intn(3)})
		}
		total += per
	}
	t.Count(fmt.Sprintf("concurrent-producers-%d", np))
	pq := queue.NewPriorityQueue()
	got := make([]item, 0, total)
	done := make(chan struct{})
	go func() {
		for i := 0; i < total; i++ {
			got = append(got, pq.Get().(item))
		}
		close(done)
	}()
	pdone := make(chan struct{}, np)
	for p := range msgs {
		go func(ms []item) {
			for _, it := range ms {
				pq.Put(it.prio, it.tran, it)
			}
			pdone <- struct{}{}
		}(msgs[p])
	}
	select {
	case <-done:
	case <-time.After(60 * time.Second):
		t.Fail("lost-wakeup:deadlock", fmt.Sprintf("round %d: %d producers x %d messages and one consumer did not finish in 60 s", round, np, per))
		return
	}
	for range msgs {
		<-pdone
	}
	// exactly once
	seen := map[int]int{}
	for _, g := range got {
		seen[g.id]++
	}
	for p := range msgs {
		for _, it := range msgs[p] {
			if seen[it.id] != 1 {
				t.Fail("exactly-once:concurrent", fmt.Sprintf("round %d: message %v delivered %d times (%d producers)", round, it, seen[it.id], np))
				return
			}
		}
	}
	if len(seen) != total {
		t.Fail("exactly-once:concurrent", fmt.Sprintf("round %d: %d distinct messages delivered, %d sent", round, len(seen), total))
	}
	// per-tran FIFO: ids of one tran increase in delivery order (they were put in id order)
	last := map[int]item{}
	for _, g := range got {
		if l, ok := last[g.tran]; ok && l.id > g.id {
			t.Fail("fifo:overtaken", fmt.Sprintf("round %d (concurrent, %d producers): %v delivered after the younger %v of the same transaction", round, np, g, l))
			return
		}
		last[g.tran] = g
	}
	t.CountN("concurrent-messages", total)
}

func main() {
	t := lib.Open()
	defer t.Close()
	r := lib.Rand()
	n := lib.N(300)
	id := 0
	for h := 0; h < n; h++ {
		sequential(t, r, &id)
	}
	rounds := n/10 + 1
	for k := 0; k < rounds; k++ {
		concurrent(t, r, k)
	}
	t.Sample(fmt.Sprintf("%d sequential histories, %d concurrent rounds", n, rounds))
}
