// C13 correspondence suite: core.Pack / Unpack / Compare / Equal / PackSize for values of every
// scalar representation (smi, SuInt64, SuDnum, SuStr, SuConcat, SuBool, SuDate, SuTimestamp) and
// nested containers, against the Lean model Gsu.Model.Pack, plus the direct oracles of the
// property on the implementation: round trip, canonical bytes for equal scalars, byte order =
// value order, empty string smallest, PackSize = length.
package main

import (
	"fmt"
	"math"
	"math/rand"
	"sort"
	"strings"
	"time"

	. "github.com/apmckinlay/gsuneido/core"
	"github.com/apmckinlay/gsuneido/util/dnum"
	"verif/harness/lib"
)

var t *lib.Trace
var r *rand.Rand

// fail records a direct-oracle failure, at most maxPerSig lines per signature: lib.Trace keeps
// only the first 200 F lines of a run, and the two open known findings alone produce more than
// that, which would hide any later (new) failing input.
const maxPerSig = 6

var sigCount = map[string]int{}

func fail(sig, desc string) {
	sigCount[sig]++
	t.Count("F:" + sig)
	if sigCount[sig] <= maxPerSig {
		t.Fail(sig, desc)
	}
}

func sgn(n int) int {
	if n < 0 {
		return -1
	}
	if n > 0 {
		return 1
	}
	return 0
}

// numStr is the line-protocol form of a number value: i:<n> | d:<sign>:<coef>:<exp>
func numStr(v Value) string {
	switch x := v.(type) {
	case SuDnum:
		return fmt.Sprintf("d:%d:%d:%d", x.Sign(), x.Coef(), x.Exp())
	default:
		if n, ok := v.ToInt(); ok {
			return fmt.Sprintf("i:%d", n)
		}
	}
	return "?"
}

// valStr is the line-protocol form of an unpacked value (driver op `unpack`)
func valStr(u Value) string {
	switch x := u.(type) {
	case SuStr:
		return "s " + lib.X(string(x))
	case SuBool:
		return "b " + lib.B(bool(x))
	case SuDate:
		return fmt.Sprintf("D %d %d", x.Year()<<9|x.Month()<<5|x.Day(),
			x.Hour()<<22|x.Minute()<<16|x.Second()<<10|x.Millisecond())
	case SuTimestamp:
		str := x.String()
		extra := 0
		fmt.Sscanf(str[len(str)-3:], "%d", &extra)
		return fmt.Sprintf("T %d %d %d", x.Year()<<9|x.Month()<<5|x.Day(),
			x.Hour()<<22|x.Minute()<<16|x.Second()<<10|x.Millisecond(), extra)
	}
	if isNum(u) {
		return numStr(u)
	}
	return "?"
}

func isNum(v Value) bool {
	switch v.(type) {
	case SuDnum, SuInt64:
		return true
	}
	_, ok := v.(interface{ IfInt() (int, bool) })
	if _, isStr := v.(SuStr); isStr {
		return false
	}
	if _, isC := v.(SuConcat); isC {
		return false
	}
	return ok && v.Type().String() == "Number"
}

// ---- generators ----------------------------------------------------------------------

var boundaryInts = []int64{0, 1, -1, 9, 10, 99, 100, 101, 127, 128, 255, 256, 1000, 10000,
	32766, 32767, 32768, 32769, -32767, -32768, -32769, -32770,
	65535, 65536, 99999999, 100000000, 4294967295, 4294967296,
	999999999999999, 1000000000000000, 9999999999999999, 10000000000000000, 10000000000000001,
	-9999999999999999, -10000000000000000, -10000000000000001, 99999999999999995, 123456789012345678,
	1000000000000000000, -1000000000000000000,
	math.MaxInt64, math.MaxInt64 - 1, math.MaxInt64 - 7, 9223372036854775800, 9223372036854775000,
	math.MinInt64, math.MinInt64 + 1, math.MinInt64 + 8, -9223372036854775800, -9223372036854775000,
	-9223372036854770000, -9223372036854700000, -9223372036850000000, -9223372036800000000,
	-9223372000000000000, -9223370000000000000, -9223300000000000000, -9220000000000000000,
	-9200000000000000000, -9000000000000000000, 9200000000000000000, 9000000000000000000,
	-922337203685477580, -92233720368547758, 922337203685477580}

func genInt64() int64 {
	switch r.Intn(8) {
	case 0:
		t.Count("int:boundary")
		return boundaryInts[r.Intn(len(boundaryInts))]
	case 1:
		t.Count("int:small")
		return int64(r.Intn(400) - 200)
	case 2:
		t.Count("int:int16edge")
		return int64([]int{32767, -32768}[r.Intn(2)] + r.Intn(5) - 2)
	case 3:
		t.Count("int:pow10edge")
		p := int64(1)
		for i := r.Intn(19); i > 0; i-- {
			p *= 10
		}
		n := p + int64(r.Intn(3)-1)
		if r.Intn(2) == 0 {
			n = -n
		}
		return n
	case 4:
		t.Count("int:trailing0")
		n := int64(r.Intn(100000))
		for i := r.Intn(14); i > 0; i-- {
			n *= 10
		}
		if r.Intn(2) == 0 {
			n = -n
		}
		return n
	case 5:
		t.Count("int:nearlimit")
		d := int64(r.Intn(2000))
		if r.Intn(2) == 0 {
			return math.MaxInt64 - d
		}
		return math.MinInt64 + d
	default:
		t.Count("int:random")
		n := r.Int63() >> uint(r.Intn(63))
		if r.Intn(2) == 0 {
			n = -n
		}
		return n
	}
}

func genDnum() dnum.Dnum {
	switch r.Intn(12) {
	case 0:
		t.Count("dnum:inf")
		if r.Intn(2) == 0 {
			return dnum.PosInf
		}
		return dnum.NegInf
	case 1:
		t.Count("dnum:zero")
		return dnum.Zero
	case 2, 4:
		// exact exponent after normalisation (16 digit coefficient, so New does not shift)
		e := []int{-128, -128, -127, -126, -125, 125, 126, 127, 127, 0, 1, 16, 17, 19, 20}[r.Intn(15)]
		t.Count(fmt.Sprintf("dnum:exp=%d", e))
		return dnum.New(int8(1-2*r.Intn(2)), coef16(), e)
	case 5:
		// beyond the representable exponents: New gives zero / infinity
		t.Count("dnum:exp-overflow")
		return dnum.New(int8(1-2*r.Intn(2)), coef16(), []int{-130, -129, 128, 129, 140}[r.Intn(5)])
	case 3:
		t.Count("dnum:fromint")
		return dnum.FromInt(genInt64())
	}
	t.Count("dnum:digits")
	nd := 1 + r.Intn(16)
	var c uint64
	for i := 0; i < nd; i++ {
		c = c*10 + uint64(r.Intn(10))
	}
	if c == 0 {
		c = 1
	}
	sign := int8(1)
	if r.Intn(2) == 0 {
		sign = -1
	}
	return dnum.New(sign, c, r.Intn(44)-12)
}

// coef16 returns a normalised (16 digit) coefficient: extremes, few significant pairs, random
func coef16() uint64 {
	switch r.Intn(6) {
	case 0:
		return 1000000000000000
	case 1:
		return 9999999999999999
	case 2:
		return uint64(10+r.Intn(90)) * 100000000000000 // one digit pair
	case 3:
		return uint64(1000+r.Intn(9000)) * 1000000000000 // two pairs
	case 4:
		return 1000000000000000 + uint64(r.Intn(100)) // long run of zero pairs inside
	}
	return 1000000000000000 + uint64(r.Int63n(9000000000000000))
}

// related returns a number close to / digit-prefix-related with x (to hit order corner cases)
func relatedDnum(x dnum.Dnum) dnum.Dnum {
	if x.IsInf() || x.IsZero() {
		return genDnum()
	}
	sign, coef, exp := int8(x.Sign()), x.Coef(), x.Exp()
	switch r.Intn(7) {
	case 0: // append digits below the last non-zero pair
		t.Count("rel:append")
		p := uint64(1)
		for coef%(p*10) == 0 && p < 1e15 {
			p *= 10
		}
		if p > 1 {
			add := uint64(1 + r.Intn(9))
			for q := p / 10; q > 1 && r.Intn(2) == 0; q /= 10 {
				add *= 10
			}
			if add < p {
				coef += add
			} else {
				coef += p / 10
			}
		}
	case 1: // drop trailing digits (prefix)
		t.Count("rel:truncate")
		p := uint64(1)
		for i := r.Intn(15); i > 0; i-- {
			p *= 10
		}
		coef -= coef % p
	case 2:
		t.Count("rel:ulp")
		if r.Intn(2) == 0 && coef < 9999999999999999 {
			coef++
		} else if coef > 1000000000000000 {
			coef--
		}
	case 3:
		t.Count("rel:exp")
		exp += r.Intn(3) - 1
	case 4:
		t.Count("rel:neg")
		sign = -sign
	case 5:
		t.Count("rel:same")
	default:
		t.Count("rel:pair")
		p := uint64(100)
		for i := r.Intn(7); i > 0; i-- {
			p *= 100
		}
		coef -= coef % p
	}
	if exp > 127 {
		exp = 127
	}
	if exp < -128 {
		exp = -128
	}
	return dnum.New(sign, coef, exp)
}

type sval struct {
	v    Value
	kind string // smi int64 dnum str concat bool date ts
	op   string // model op producing the packed bytes ("" if none)
}

func intVal(n int64) sval {
	if math.MinInt16 <= n && n <= math.MaxInt16 {
		if (n == math.MinInt16 || n == math.MaxInt16) && r.Intn(2) == 0 {
			// Int64Val keeps the two int16 limits as SuInt64
			t.Count("repr:int64-small")
			return sval{Int64Val(n), "int64", fmt.Sprintf("packint %d", n)}
		}
		t.Count("repr:smi")
		return sval{IntVal(int(n)), "smi", fmt.Sprintf("packsmi %d", n)}
	}
	t.Count("repr:int64")
	return sval{IntVal(int(n)), "int64", fmt.Sprintf("packint %d", n)}
}

func dnumVal(d dnum.Dnum) sval {
	t.Count("repr:dnum")
	return sval{SuDnum{Dnum: d}, "dnum", fmt.Sprintf("packdnum %d %d %d", d.Sign(), d.Coef(), d.Exp())}
}

func genNum() sval {
	if r.Intn(2) == 0 {
		return intVal(genInt64())
	}
	return dnumVal(genDnum())
}

func genStr() string {
	n := 0
	switch r.Intn(6) {
	case 0:
		n = 0
	case 1, 2:
		n = 1
	case 3:
		n = 2
	default:
		n = r.Intn(8)
	}
	switch r.Intn(150) {
	case 0, 1, 2:
		// member sizes 127/128/129…: the varint length prefix inside containers grows to two
		// bytes (packValue moves the packed member to make room)
		n = []int{125, 126, 127, 128, 129, 200, 300}[r.Intn(7)]
		t.Count("str:len~128")
	case 3:
		n = []int{16382, 16383, 16384, 17000}[r.Intn(4)] // three byte varint
		t.Count("str:len~16384")
	}
	b := make([]byte, n)
	for i := range b {
		switch r.Intn(4) {
		case 0:
			b[i] = byte(r.Intn(256))
		case 1:
			b[i] = []byte{0, 1, 2, 3, 4, 5, 6, 7, 0xff, 0x80}[r.Intn(10)]
		default:
			b[i] = byte('a' + r.Intn(3))
		}
	}
	return string(b)
}

func strVal(s string) sval {
	if r.Intn(4) == 0 {
		t.Count("repr:concat")
		c := NewSuConcat()
		k := 0
		if len(s) > 0 {
			k = r.Intn(len(s) + 1)
		}
		c = c.Add(s[:k]).Add(s[k:])
		switch r.Intn(4) {
		case 0:
			// another concatenation extends the shared buffer in place: c is now a proper
			// prefix of its buffer
			t.Count("repr:concat-buffer-extended")
			_ = c.Add("+" + genStr())
		case 1:
			// twice: the second Add must copy (buffer no longer ends at c)
			t.Count("repr:concat-buffer-extended-twice")
			d := c.Add("x")
			_ = c.Add("yy" + genStr())
			_ = d
		case 2:
			// c itself is the extension of an earlier (shorter) concat that stays alive
			t.Count("repr:concat-extension-of-shared")
			base := NewSuConcat().Add(s[:k])
			_ = base.Add("zzz")
			c = base.Add(s[k:]) // copies because base's buffer was extended
		}
		return sval{c, "concat", "packstr " + lib.X(s)}
	}
	if r.Intn(12) == 0 {
		t.Count("repr:except")
		return sval{BuiltinSuExcept(s), "except", "packstr " + lib.X(s)}
	}
	t.Count("repr:str")
	return sval{SuStr(s), "str", "packstr " + lib.X(s)}
}

var yearsEdge = []int{1700, 1701, 1899, 1900, 1999, 2000, 2001, 2024, 2100, 2400, 2999}

func genDateFields() (y, mo, d, h, mi, s, ms int) {
	y = 1700 + r.Intn(1300)
	if r.Intn(3) == 0 {
		y = yearsEdge[r.Intn(len(yearsEdge))]
	}
	mo = 1 + r.Intn(12)
	d = 1 + r.Intn(28)
	if r.Intn(4) == 0 {
		d = []int{1, 28, 29, 30, 31}[r.Intn(5)]
	}
	switch r.Intn(4) {
	case 0:
	case 1:
		h, mi = r.Intn(24), r.Intn(60)
	case 2:
		h, mi, s = r.Intn(24), r.Intn(60), r.Intn(60)
	default:
		h, mi, s, ms = r.Intn(24), r.Intn(60), r.Intn(60), r.Intn(1000)
		if r.Intn(4) == 0 {
			h, mi, s, ms = 23, 59, 59, 999
		}
	}
	return
}

func genDate() sval {
	for {
		y, mo, d, h, mi, s, ms := genDateFields()
		if r.Intn(50) == 0 {
			y, mo, d, h, mi, s, ms = 3000, 1, 1, 0, 0, 0, 0
		}
		dt := NewDate(y, mo, d, h, mi, s, ms)
		if dt == NilDate {
			t.Count("date:invalid-skipped")
			continue
		}
		date := y<<9 | mo<<5 | d
		tm := h<<22 | mi<<16 | s<<10 | ms
		if r.Intn(3) == 0 {
			extra := 1 + r.Intn(255)
			if r.Intn(4) == 0 {
				extra = []int{1, 255}[r.Intn(2)]
			}
			lit := fmt.Sprintf("#%04d%02d%02d.%02d%02d%02d%03d%03d", y, mo, d, h, mi, s, ms, extra)
			ts := DateFromLiteral(lit)
			if _, ok := ts.(SuTimestamp); !ok {
				fail("ts-literal", "DateFromLiteral("+lit+") is not a timestamp")
				continue
			}
			t.Count("repr:timestamp")
			return sval{ts, "ts", fmt.Sprintf("packts %d %d %d", date, tm, extra)}
		}
		t.Count("repr:date")
		return sval{dt, "date", fmt.Sprintf("packdate %d %d", date, tm)}
	}
}

func genScalar() sval {
	switch r.Intn(10) {
	case 0:
		t.Count("repr:bool")
		b := r.Intn(2) == 0
		return sval{SuBool(b), "bool", "packbool " + lib.B(b)}
	case 1, 2, 3, 4:
		return genNum()
	case 5, 6:
		return strVal(genStr())
	default:
		return genDate()
	}
}

// relatedScalar returns a scalar likely to be ordered close to x
func relatedScalar(x sval) sval {
	switch x.kind {
	case "smi", "int64":
		n, _ := x.v.ToInt()
		switch r.Intn(5) {
		case 0:
			d, _ := x.v.ToDnum()
			return dnumVal(relatedDnum(d))
		case 1:
			if n > math.MinInt64+10 && n < math.MaxInt64-10 {
				return intVal(int64(n + r.Intn(5) - 2))
			}
		case 2:
			if n > -900000000000000000 && n < 900000000000000000 {
				return intVal(int64(n*10 + r.Intn(10)))
			}
		case 3:
			return intVal(int64(n / 10))
		}
		return intVal(int64(n))
	case "dnum":
		d := relatedDnum(x.v.(SuDnum).Dnum)
		if n, ok := d.ToInt64(); ok && r.Intn(2) == 0 {
			return intVal(n)
		}
		return dnumVal(d)
	case "str", "concat", "except":
		s := ToStr(x.v)
		switch r.Intn(4) {
		case 0:
			return strVal(s + genStr())
		case 1:
			if len(s) > 0 {
				return strVal(s[:r.Intn(len(s))])
			}
		case 2:
			if len(s) > 0 {
				b := []byte(s)
				b[r.Intn(len(b))] += byte(r.Intn(3) - 1)
				return strVal(string(b))
			}
		}
		return strVal(s)
	case "date", "ts":
		if r.Intn(2) == 0 {
			// same instant, other representation or other extra
			var d SuDate
			if ts, ok := x.v.(SuTimestamp); ok {
				d = ts.SuDate
			} else {
				d = x.v.(SuDate)
			}
			date := d.Year()<<9 | d.Month()<<5 | d.Day()
			tm := d.Hour()<<22 | d.Minute()<<16 | d.Second()<<10 | d.Millisecond()
			if r.Intn(2) == 0 {
				return sval{d, "date", fmt.Sprintf("packdate %d %d", date, tm)}
			}
			extra := 1 + r.Intn(255)
			lit := fmt.Sprintf("%s%03d", SuTimestamp{SuDate: d}.String()[:19], extra)
			ts := DateFromLiteral(lit)
			if _, ok := ts.(SuTimestamp); ok {
				return sval{ts, "ts", fmt.Sprintf("packts %d %d %d", date, tm, extra)}
			}
		}
		return genDate()
	}
	return genScalar()
}

// ---- oracles -------------------------------------------------------------------------

func isNegNum(v Value) bool {
	if d, ok := v.(SuDnum); ok {
		return d.Sign() < 0
	}
	if isNum(v) {
		n, _ := v.ToInt()
		return n < 0
	}
	return false
}

func bigInt(v Value) bool {
	if _, ok := v.(SuInt64); ok {
		n, _ := v.ToInt()
		return n > 9999999999999999 || n < -9999999999999999
	}
	return false
}

// roundTrip unpacks p = Pack(v) and evaluates the round-trip oracle on a scalar.
// Returns the unpacked value (nil if Unpack panicked), and a failure signature + description.
func roundTrip(v Value, p string) (u Value, sig, desc string) {
	_, isInt64 := v.(SuInt64)
	minprefix := isInt64 && len(p) > 1 && len(p) < len(PackedMinInt64) && strings.HasPrefix(PackedMinInt64, p)
	if e := lib.Catch(func() { u = Unpack(p) }); e != "" {
		sig = "rt-panic-" + kindOf(v)
		if minprefix {
			sig = "rt-int-minprefix"
		}
		return nil, sig, fmt.Sprintf("Unpack(Pack(%v)) panics: %s (packed %x)", v, e, p)
	}
	e1, e2 := u.Equal(v), v.Equal(u)
	if e1 && e2 {
		return u, "", ""
	}
	sig = "rt-" + kindOf(v)
	if minprefix {
		sig = "rt-int-minprefix"
	} else if e1 != e2 && isNum(u) && isNum(v) {
		sig = "equal-asym-int64-dnum"
	}
	return u, sig, fmt.Sprintf("Unpack(Pack(%v)) = %v (%T): unpacked.Equal(orig)=%v orig.Equal(unpacked)=%v (packed %x)",
		v, u, u, e1, e2, p)
}

func kindOf(v Value) string {
	switch v.(type) {
	case SuInt64:
		return "int64"
	case SuDnum:
		return "dnum"
	case SuStr:
		return "str"
	case SuConcat:
		return "concat"
	case *SuExcept:
		return "except"
	case SuBool:
		return "bool"
	case SuDate:
		return "date"
	case SuTimestamp:
		return "ts"
	case *SuObject:
		return "object"
	case *SuRecord:
		return "record"
	}
	if isNum(v) {
		return "smi"
	}
	return "other"
}

// taint looks for a leaf of a container that by itself explains a failed container round trip:
// a scalar that does not round trip, or a named key that is an integer-valued SuDnum outside the
// int16 range (it unpacks as SuInt64, whose hash differs: DESIGN §6 finding 2).
func taint(v Value, isKey bool) string {
	if c, ok := v.ToContainer(); ok {
		for i := 0; i < c.ListSize(); i++ {
			if s := taint(c.ListGet(i), false); s != "" {
				return s
			}
		}
		it := c.ArgsIter()
		for i := 0; i < c.ListSize(); i++ {
			it()
		}
		for k, x := it(); k != nil; k, x = it() {
			if s := taint(k, true); s != "" {
				return s
			}
			if s := taint(x, false); s != "" {
				return s
			}
		}
		return ""
	}
	if d, ok := v.(SuDnum); ok && isKey {
		if n, ok := d.ToInt64(); ok && (n < math.MinInt16 || n > math.MaxInt16) {
			return "rt-container-dnum-int-key"
		}
	}
	var p string
	if e := lib.Catch(func() { p = PackValue(v) }); e != "" {
		return ""
	}
	if _, ok := v.(SuInt64); ok && isKey && len(p) > 1 && len(p) < len(PackedMinInt64) && strings.HasPrefix(PackedMinInt64, p) {
		return "rt-int-minprefix" // unpacks as SuDnum (intable range test), whose hash differs
	}
	_, sig, _ := roundTrip(v, p)
	return sig
}

// checkScalar: pack, model op, size, unpack, round trip, canonical re-pack. Returns packed bytes.
func checkScalar(x sval) (p string, ok bool) {
	var size int
	if e := lib.Catch(func() { p = PackValue(x.v); size = PackSize(x.v) }); e != "" {
		fail("pack-panic-"+x.kind, fmt.Sprintf("PackValue(%v) panics: %s", x.v, e))
		return "", false
	}
	if size != len(p) {
		fail("packsize-"+x.kind, fmt.Sprintf("PackSize(%v)=%d but len(Pack)=%d", x.v, size, len(p)))
	}
	if e := lib.Catch(func() {
		if PackedOrd(p) != Order(x.v) {
			fail("packedord-"+x.kind, fmt.Sprintf("PackedOrd(Pack(%v)) = %d but Order = %d", x.v, PackedOrd(p), Order(x.v)))
		}
	}); e != "" {
		fail("packedord-panic", fmt.Sprintf("PackedOrd(Pack(%v)): %s", x.v, e))
	}
	if b, ok := x.v.(SuBool); ok {
		if PackBool(bool(b)) != p || UnpackBool(p) != x.v {
			fail("packbool", fmt.Sprintf("PackBool/UnpackBool disagree with Pack for %v", x.v))
		}
	}
	switch x.kind {
	case "smi", "int64", "dnum":
		t.Q(x.op, fmt.Sprintf("%s %d", lib.X(p), size))
	default:
		t.Q(x.op, lib.X(p))
	}
	numeric := x.kind == "smi" || x.kind == "int64" || x.kind == "dnum"
	u, sig, desc := roundTrip(x.v, p)
	if numeric {
		if u == nil {
			t.Q("unpacknum "+lib.X(p), "!panic")
		} else {
			t.Q("unpacknum "+lib.X(p), numStr(u))
		}
	}
	if u == nil {
		t.Q("unpack "+lib.X(p), "!panic")
	} else {
		t.Q("unpack "+lib.X(p), valStr(u))
	}
	if sig != "" {
		fail(sig, desc)
	}
	if u == nil {
		return p, true
	}
	var p2 string
	if e := lib.Catch(func() { p2 = PackValue(u) }); e != "" || p2 != p {
		fail("canon-repack-"+x.kind, fmt.Sprintf("Pack(Unpack(Pack(%v))) = %x, first pack %x %s", x.v, p2, p, e))
	}
	// canonical across representations of the same number
	switch x.kind {
	case "smi", "int64":
		n, _ := x.v.ToInt()
		if n > -10000000000000000 && n < 10000000000000000 {
			t.Count("canon:int-vs-dnum")
			pd := PackValue(SuDnum{Dnum: dnum.FromInt(int64(n))})
			if pd != p {
				fail("canon-int-dnum", fmt.Sprintf("Pack(int %d)=%x but Pack(dnum %d)=%x", n, p, n, pd))
			}
			t.Q(fmt.Sprintf("fromint %d", n), numStr(SuDnum{Dnum: dnum.FromInt(int64(n))}))
		}
	case "dnum":
		if n, ok := x.v.(SuDnum).ToInt64(); ok {
			t.Count("canon:dnum-vs-int")
			pi := PackValue(IntVal(int(n)))
			if pi != p {
				fail("canon-int-dnum", fmt.Sprintf("Pack(dnum %v)=%x but Pack(int %d)=%x", x.v, p, n, pi))
			}
		}
	}
	return p, true
}

func checkPair(x, y sval) {
	px, ok1 := checkScalar(x)
	py, ok2 := checkScalar(y)
	if !ok1 || !ok2 {
		return
	}
	cb := strings.Compare(px, py)
	t.Q(fmt.Sprintf("cmpb %s %s", lib.X(px), lib.X(py)), fmt.Sprint(cb))
	var cv int
	var eq bool
	if e := lib.Catch(func() { cv = sgn(x.v.Compare(y.v)); eq = x.v.Equal(y.v) }); e != "" {
		fail("compare-panic", fmt.Sprintf("Compare(%v, %v) panics: %s", x.v, y.v, e))
		return
	}
	xn, yn := isNum(x.v), isNum(y.v)
	if xn && yn {
		t.Q(fmt.Sprintf("cmpnum %s %s", numStr(x.v), numStr(y.v)), fmt.Sprint(cv))
	}
	desc := fmt.Sprintf("x=%v (%s, packed %x) y=%v (%s, packed %x): Compare=%d bytes=%d Equal=%v",
		x.v, x.kind, px, y.v, y.kind, py, cv, cb, eq)
	// equal scalars <-> identical bytes
	if eq != (px == py) {
		if xn && yn && y.v.Equal(x.v) != eq {
			fail("equal-asym-int64-dnum", desc+fmt.Sprintf(" y.Equal(x)=%v", y.v.Equal(x.v)))
		} else {
			fail("canon-equal-"+x.kind+"-"+y.kind, desc)
		}
	}
	// the empty string packs to the smallest encoding
	if px == "" || py == "" {
		t.Count("order:with-empty")
		if (px == "" && py != "" && cb >= 0) || (py == "" && px != "" && cb <= 0) {
			fail("empty-smallest", desc)
		}
		return
	}
	if cv == cb {
		t.Count("order:agree")
		return
	}
	switch {
	case xn && yn && cv == 0 && !eq && (bigInt(x.v) || bigInt(y.v)) && x.kind != y.kind:
		// Compare converts the int64 to a 16 digit dnum (rounding); the packed bytes keep all digits
		fail("order-int64-dnum-rounding", desc)
	case xn && yn && isNegNum(x.v) && isNegNum(y.v) && (strings.HasPrefix(px, py) || strings.HasPrefix(py, px)):
		fail("order-neg-prefix", desc)
	default:
		fail("order-"+x.kind+"-"+y.kind, desc)
	}
}

// ---- containers ----------------------------------------------------------------------

func genValue(depth int) Value {
	if depth > 0 && r.Intn(3) == 0 {
		return genContainer(depth - 1)
	}
	return genScalar().v
}

func genContainer(depth int) Value {
	nl, nn := r.Intn(4), r.Intn(4)
	if r.Intn(6) == 0 {
		nl, nn = 0, 0
	}
	if r.Intn(40) == 0 {
		nl = 130 // two byte varint count
	}
	if r.Intn(12) == 0 {
		// a lazy sequence over a list: packs by instantiating
		ob := &SuObject{}
		for i := 0; i < nl; i++ {
			ob.Add(genValue(depth))
		}
		t.Count("repr:sequence")
		return NewSuSequence(ob.Iter())
	}
	if r.Intn(2) == 0 {
		ob := &SuObject{}
		for i := 0; i < nl; i++ {
			ob.Add(genValue(depth))
		}
		for i := 0; i < nn; i++ {
			ob.Set(genValue(0), genValue(depth))
		}
		t.Count("repr:object")
		return ob
	}
	rec := NewSuRecord()
	for i := 0; i < nl; i++ {
		rec.Add(genValue(depth))
	}
	for i := 0; i < nn; i++ {
		rec.Set(SuStr("k"+genStr()), genValue(depth))
	}
	t.Count("repr:record")
	return rec
}

func nestDepth(depth int) Value {
	ob := &SuObject{}
	cur := ob
	for i := 1; i < depth; i++ {
		n := &SuObject{}
		cur.Add(n)
		cur = n
	}
	cur.Add(IntVal(1))
	return ob
}

type memb struct{ k, v string }

// members returns the packed members of a container value (list in order, named sorted by key)
func members(c Container) (list []string, named []memb) {
	for i := 0; i < c.ListSize(); i++ {
		list = append(list, PackValue(c.ListGet(i)))
	}
	it := c.ArgsIter()
	for i := 0; i < c.ListSize(); i++ {
		it()
	}
	for k, v := it(); k != nil; k, v = it() {
		named = append(named, memb{PackValue(k), PackValue(v)})
	}
	sort.Slice(named, func(i, j int) bool { return named[i].k < named[j].k })
	return
}

func membStr(list []string, named []memb) string {
	var sb strings.Builder
	for _, m := range list {
		sb.WriteString(lib.X(m))
		sb.WriteByte(' ')
	}
	sb.WriteString("|")
	for _, m := range named {
		sb.WriteString(" " + lib.X(m.k) + " " + lib.X(m.v))
	}
	return sb.String()
}

func checkContainer(v Value) {
	var p string
	var size int
	if e := lib.Catch(func() { p = PackValue(v); size = PackSize(v) }); e != "" {
		fail("pack-panic-container", fmt.Sprintf("PackValue(%v) panics: %s", v, e))
		return
	}
	if size != len(p) {
		fail("packsize-container", fmt.Sprintf("PackSize(%v)=%d len=%d", v, size, len(p)))
	}
	var u Value
	if e := lib.Catch(func() { u = Unpack(p) }); e != "" {
		sig := taint(v, false)
		if sig == "" {
			sig = "rt-panic-container"
		}
		fail(sig, fmt.Sprintf("Unpack(Pack(%v)) panics: %s", v, e))
		return
	}
	if !u.Equal(v) || !v.Equal(u) {
		sig := taint(v, false)
		if sig == "" {
			sig = "rt-container"
		}
		fail(sig, fmt.Sprintf("Unpack(Pack(%v)) = %v: unpacked.Equal(orig)=%v orig.Equal(unpacked)=%v", v, u, u.Equal(v), v.Equal(u)))
	}
	if _, isRec := v.(*SuRecord); isRec != (p[0] == PackRecord) {
		fail("rt-container-tag", fmt.Sprintf("%v packed with tag %d", v, p[0]))
	}
	c, _ := u.ToContainer()
	list, named := members(c)
	// the model unframes the packed bytes; the implementation's Unpack + re-pack of the members
	// must give the same member encodings (named members compared as a sorted multiset)
	ml, mn, okm := unframe(p)
	if !okm {
		fail("container-frame", fmt.Sprintf("cannot unframe Pack(%v) = %x", v, p))
		return
	}
	sort.Slice(mn, func(i, j int) bool { return mn[i].k < mn[j].k })
	if membStr(ml, mn) != membStr(list, named) {
		fail("container-members", fmt.Sprintf("members of Pack(%v) differ from packed members of Unpack: %s vs %s",
			v, membStr(ml, mn), membStr(list, named)))
	}
	// model: objun on the real bytes, in packed order (no sorting needed: model output is in
	// packed order and so is unframe)
	ml2, mn2, _ := unframe(p)
	t.Q("objun "+lib.X(p), membStr(ml2, mn2))
	if p[0] == PackRecord {
		t.Q("unpack "+lib.X(p), "R "+membStr(ml2, mn2))
	} else {
		t.Q("unpack "+lib.X(p), "O "+membStr(ml2, mn2))
	}
	// model: objpk of the members in the order the implementation wrote them gives the bytes
	op := fmt.Sprintf("objpk %d", p[0])
	for _, m := range ml2 {
		op += " " + lib.X(m)
	}
	op += " |"
	for _, m := range mn2 {
		op += " " + lib.X(m.k) + " " + lib.X(m.v)
	}
	t.Q(op, lib.X(p))
	// every member is itself a packed value: recurse through Unpack
	for _, m := range ml2 {
		checkPacked(m)
	}
	for _, m := range mn2 {
		checkPacked(m.k)
		checkPacked(m.v)
	}
}

// checkPacked: a member encoding found inside a container must unpack and re-pack to itself
func checkPacked(m string) {
	var u Value
	if e := lib.Catch(func() { u = Unpack(m) }); e != "" {
		fail("member-unpack-panic", fmt.Sprintf("Unpack(%x) panics: %s", m, e))
		return
	}
	if _, ok := u.ToContainer(); ok {
		return // order of named members may differ
	}
	if p2 := PackValue(u); p2 != m {
		fail("member-canon", fmt.Sprintf("member %x re-packs to %x", m, p2))
	}
	if len(m) > 0 && (m[0] == PackPlus || m[0] == PackMinus) {
		t.Q("unpacknum "+lib.X(m), numStr(u))
	}
}

// unframe splits a packed container into member encodings, reading the format with
// encoding/binary-like varints (independent of core.Unpack)
func unframe(p string) (list []string, named []memb, ok bool) {
	defer func() {
		if recover() != nil {
			ok = false
		}
	}()
	if len(p) <= 1 {
		return nil, nil, true
	}
	s := p[1:]
	varint := func() int {
		n, sh := 0, uint(0)
		for {
			b := s[0]
			s = s[1:]
			n |= int(b&0x7f) << sh
			if b < 0x80 {
				return n
			}
			sh += 7
		}
	}
	get := func() string {
		n := varint()
		m := s[:n]
		s = s[n:]
		return m
	}
	n := varint()
	for i := 0; i < n; i++ {
		list = append(list, get())
	}
	n = varint()
	for i := 0; i < n; i++ {
		k := get()
		v := get()
		named = append(named, memb{k, v})
	}
	return list, named, len(s) == 0
}

// ---- malformed stream ----------------------------------------------------------------

func malformedNum() {
	n := []int{0, 1, 2, 3, 3, 4, 5, 6, 8, 10, 11, 12, 13, 14}[r.Intn(14)]
	b := make([]byte, n)
	neg := r.Intn(2) == 0
	for i := range b {
		switch {
		case i == 0:
			b[i] = PackPlus
			if neg {
				b[i] = PackMinus
			}
		case i == 1:
			e := byte(0x80 + r.Intn(24) - 2)
			if r.Intn(4) == 0 {
				e = byte(r.Intn(256))
			}
			if neg {
				e = ^e
			}
			b[i] = e
		default:
			d := byte(r.Intn(100))
			switch r.Intn(8) {
			case 0:
				d = byte(r.Intn(256))
			case 1:
				d = byte(r.Intn(10) * 10)
			case 2:
				d = 0
			}
			if neg {
				d = ^d
			}
			b[i] = d
		}
	}
	// sometimes a prefix / variation of the int64 limits
	if r.Intn(6) == 0 {
		lim := PackedMaxInt64
		if r.Intn(2) == 0 {
			lim = PackedMinInt64
		}
		k := 2 + r.Intn(len(lim)-1)
		b = []byte(lim[:k])
		if r.Intn(2) == 0 {
			b[len(b)-1] += byte(r.Intn(3) - 1)
		}
		t.Count("malformed:limit-prefix")
	}
	s := string(b)
	var u Value
	e := lib.Catch(func() { u = UnpackNumber(s) })
	if e != "" {
		t.Count("malformed:panic")
		t.Q("unpacknum "+lib.X(s), "!panic")
		return
	}
	t.Count("malformed:value")
	t.Q("unpacknum "+lib.X(s), numStr(u))
}

func malformedAny() {
	n := []int{1, 2, 5, 8, 9, 9, 10, 10, 11}[r.Intn(9)]
	b := make([]byte, n)
	for i := range b {
		b[i] = byte(r.Intn(256))
		if r.Intn(3) == 0 {
			b[i] = 0
		}
	}
	b[0] = []byte{PackFalse, PackTrue, PackString, PackDate, PackDate, PackDate}[r.Intn(6)]
	if n >= 10 && b[9] == 0 {
		b[9] = 7 // extra == 0 trips an assert that logs a stack trace; not interesting
	}
	s := string(b)
	var u Value
	if e := lib.Catch(func() { u = Unpack(s) }); e != "" {
		t.Count("malformed-any:panic")
		t.Q("unpack "+lib.X(s), "!panic")
		return
	}
	t.Count("malformed-any:value")
	t.Q("unpack "+lib.X(s), valStr(u))
}

// ---- main ----------------------------------------------------------------------------

func main() {
	time.Local = time.UTC // NewDate validates through time.Local; keep the run zone independent
	t = lib.Open()
	defer t.Close()
	r = lib.Rand()
	n := lib.N(3000)

	// fixed boundary part: every boundary int in every representation, pairwise neighbours
	for _, b := range boundaryInts {
		x := intVal(b)
		checkScalar(x)
		d := dnumVal(dnum.FromInt(b))
		checkPair(x, d)
	}
	// the known negative-prefix witness and its neighbours
	for _, pr := range [][2]string{{"-1.5", "-1.55"}, {"-1", "-1.01"}, {"-2", "-1.55"}, {"1.5", "1.55"},
		{"-15", "-15.5"}, {"-1e-5", "-1.0001e-5"}, {"-100", "-100.01"}} {
		checkPair(dnumVal(dnum.FromStr(pr[0])), dnumVal(dnum.FromStr(pr[1])))
	}
	// exponent extremes, both signs, against their neighbours and the infinities
	for _, sign := range []int8{1, -1} {
		inf := dnumVal(dnum.Inf(sign))
		for _, e := range []int{-128, -127, -126, 125, 126, 127} {
			for _, c := range []uint64{1000000000000000, 9999999999999999, 1234500000000000, 9900000000000000} {
				x := dnumVal(dnum.Raw(sign, c, e))
				checkPair(x, inf)
				if e < 127 {
					checkPair(x, dnumVal(dnum.Raw(sign, c, e+1)))
				}
				checkPair(x, dnumVal(dnum.Raw(sign, c+1, e)))
				checkPair(x, dnumVal(dnum.Raw(-sign, c, e)))
			}
		}
	}
	for _, str := range []string{"1e126", "9.999999999999999e126", "-1e126", "-9.9e126", "1e-129", "-1e-129", "1e127", "-1e127", "1e-130"} {
		checkScalar(dnumVal(dnum.FromStr(str)))
	}
	for i := 0; i < n; i++ {
		x := genScalar()
		var y sval
		if r.Intn(2) == 0 {
			t.Count("pair:related")
			y = relatedScalar(x)
		} else {
			t.Count("pair:independent")
			y = genScalar()
		}
		checkPair(x, y)
		if i < 3 {
			t.Sample(fmt.Sprintf("%v (%s) vs %v (%s)", x.v, x.kind, y.v, y.kind))
		}
		if i%4 == 0 {
			checkContainer(genContainer(2))
		}
		if i%3 == 0 {
			malformedNum()
		}
		if i%10 == 0 {
			malformedAny()
		}
		// a numeric pair that is close together / digit-prefix related
		t.Count("pair:numeric-related")
		xn := genNum()
		checkPair(xn, relatedScalar(xn))
	}
	// nesting limit: depth 16 packs, depth 17 is refused with a panic (never a wrong encoding)
	checkContainer(nestDepth(15))
	checkContainer(nestDepth(16))
	if e := lib.Catch(func() { PackValue(nestDepth(17)) }); !strings.Contains(e, "nesting") {
		fail("nesting-limit", "packing 17 nested objects: "+e)
	}
}
