// C20 suite: tools.Dump / DumpDbTable / LoadDatabase / LoadTable / Compact on generated databases
// (deleted columns, renamed columns, empty trailing fields, large records, a cascading foreign
// key, views, an empty table), logical state compared before/after (direct oracles), and the
// pieces the Lean model mirrors replayed through it: the row as dump writes it (`dumprow`), the
// row as compact copies it (`compactrow`), the bytes of a single-table dump file (`tablefile`),
// the records load reads back (`readrecs`), and the duplicate refusal of load on crafted
// single-table dumps (`loadtable`).
package main

import (
	"bytes"
	"encoding/binary"
	"fmt"
	"math/rand"
	"os"
	"sort"
	"strings"
	"time"

	"github.com/apmckinlay/gsuneido/core"
	"github.com/apmckinlay/gsuneido/db19"
	"github.com/apmckinlay/gsuneido/db19/index"
	"github.com/apmckinlay/gsuneido/db19/tools"
	qry "github.com/apmckinlay/gsuneido/dbms/query"
	"verif/harness/lib"
)

const version = "Suneido dump 3\n"
const prefix = "====== "

func rmAll(names ...string) {
	for _, f := range names {
		os.Remove(f)
		os.Remove(f + ".bak")
	}
}

// logical content by column name (deleted columns invisible, trailing empties invisible)
func logical(db *db19.Database, only string) string {
	var out []string
	rt := db.NewReadTran()
	schemas := rt.GetAllSchema()
	sort.Slice(schemas, func(i, j int) bool { return schemas[i].Table < schemas[j].Table })
	for _, ts := range schemas {
		if only != "" && ts.Table != only {
			continue
		}
		// dump writes the smallest key first, so load may reorder the indexes of a table:
		// the schema is compared with its indexes in canonical order
		var ixs []string
		for i := range ts.Indexes {
			ixs = append(ixs, ts.Indexes[i].String())
		}
		sort.Strings(ixs)
		var live []string
		for _, c := range ts.Columns {
			if c != "-" {
				live = append(live, c)
			}
		}
		out = append(out, "SCHEMA "+ts.Table+" ("+strings.Join(append(live, ts.Derived...), ",")+") "+strings.Join(ixs, " "))
		it := index.NewOverIter(ts.Table, 0)
		var rows []string
		for it.Next(rt); !it.Eof(); it.Next(rt) {
			rows = append(rows, rowString(ts.Columns, rt.GetRecord(it.CurOff())))
		}
		out = append(out, fmt.Sprintf("ROWS %s n=%d nrows=%d", ts.Table, len(rows), rt.GetInfo(ts.Table).Nrows))
		sortedRows := append([]string{}, rows...)
		sort.Strings(sortedRows)
		out = append(out, sortedRows...)
		for i := range ts.Indexes {
			// every index must enumerate exactly the rows of the table, in the order of ITS key,
			// and a key index must find each row by its key
			ix := &ts.Indexes[i]
			it := index.NewOverIter(ts.Table, i)
			var got []string
			prev, first := "", true
			for it.Next(rt); !it.Eof(); it.Next(rt) {
				off := it.CurOff()
				rec := rt.GetRecord(off)
				got = append(got, rowString(ts.Columns, rec))
				key := ix.Ixspec.Key(rec)
				if !first && !(prev < key) {
					out = append(out, fmt.Sprintf("INDEX ORDER MISMATCH %s %s: entries not in the order of the index's own key", ts.Table, ix.String()))
					break
				}
				prev, first = key, false
				if ix.Mode == 'k' {
					if dr := rt.Lookup(ts.Table, i, key); dr == nil || dr.Off != off {
						out = append(out, fmt.Sprintf("INDEX LOOKUP MISMATCH %s %s: a row is not found by its key", ts.Table, ix.String()))
						break
					}
				}
			}
			sort.Strings(got)
			if strings.Join(got, "\n") != strings.Join(sortedRows, "\n") {
				out = append(out, fmt.Sprintf("INDEX CONTENT MISMATCH %s %s: %d entries, table has %d rows", ts.Table, ix.String(), len(got), len(rows)))
			}
		}
	}
	if only == "" {
		views := rt.GetAllViews()
		var vs []string
		for i := 0; i+1 < len(views); i += 2 {
			vs = append(vs, views[i]+"="+views[i+1])
		}
		sort.Strings(vs)
		out = append(out, "VIEWS "+strings.Join(vs, "|"))
	}
	return strings.Join(out, "\n")
}

func rowString(cols []string, rec core.Record) string {
	var flds []string
	for i, col := range cols {
		if col == "-" {
			continue
		}
		raw := rec.GetRaw(i)
		if len(raw) > 40 {
			raw = fmt.Sprintf("%s..%d.%x", raw[:20], len(raw), raw[len(raw)-8:])
		}
		flds = append(flds, fmt.Sprintf("%s=%x", col, raw))
	}
	return strings.Join(flds, ",")
}

type physTable struct {
	name string
	cols []string   // physical, "-" = deleted
	rows [][]string // fields 0..Count-1 of each record, in key order
	fkey bool
	firstIdx int // the index dump and compact iterate (SmallestKeyIndex)
	idxs []string // index texts in schema order
}

func physical(db *db19.Database) []physTable {
	var res []physTable
	rt := db.NewReadTran()
	for _, ts := range rt.GetAllSchema() {
		pt := physTable{name: ts.Table, cols: append([]string{}, ts.Columns...), fkey: ts.HasFkey()}
		ixi := rt.GetInfo(ts.Table).SmallestKeyIndex(ts.Indexes)
		it := index.NewOverIter(ts.Table, ixi)
		for it.Next(rt); !it.Eof(); it.Next(rt) {
			rec := rt.GetRecord(it.CurOff())
			pt.rows = append(pt.rows, fields(rec))
		}
		pt.firstIdx = ixi
		for i := range ts.Indexes {
			pt.idxs = append(pt.idxs, ts.Indexes[i].String())
		}
		res = append(res, pt)
	}
	sort.Slice(res, func(i, j int) bool { return res[i].name < res[j].name })
	return res
}

func fields(rec core.Record) []string {
	var f []string
	for i := 0; i < rec.Count(); i++ {
		f = append(f, rec.GetRaw(i))
	}
	return f
}

func showRow(f []string) string {
	if len(f) == 0 {
		return "."
	}
	var p []string
	for _, s := range f {
		p = append(p, lib.X(s))
	}
	return strings.Join(p, "|")
}

func colsArg(cols []string) string {
	if len(cols) == 0 {
		return "-"
	}
	return strings.Join(cols, ",")
}

// parseTableFile splits a single-table dump file into schema line and raw records
func parseTableFile(b []byte) (schema string, recs []string, ok bool) {
	if !bytes.HasPrefix(b, []byte(version+prefix)) {
		return "", nil, false
	}
	b = b[len(version+prefix):]
	i := bytes.IndexByte(b, '\n')
	if i < 0 {
		return "", nil, false
	}
	schema = string(b[:i])
	b = b[i+1:]
	for {
		if len(b) < 4 {
			return schema, recs, false
		}
		n := int(binary.BigEndian.Uint32(b))
		b = b[4:]
		if n == 0 {
			return schema, recs, len(b) == 0
		}
		if len(b) < n {
			return schema, recs, false
		}
		recs = append(recs, string(b[:n]))
		b = b[n:]
	}
}

func try(f func()) string { return lib.Catch(f) }

func cycle(t *lib.Trace, r *rand.Rand, cyc int) {
	th := &core.Thread{}
	rmAll("x.db", "y.db", "z.db", "d.su")
	db, err := db19.CreateDatabase("x.db")
	if err != nil {
		panic(err)
	}
	db19.StartConcur(db, time.Hour)
	var hist []string
	admin := func(cmd string) {
		e := try(func() { qry.DoAdmin(db, cmd, nil) })
		if e == "" {
			hist = append(hist, cmd)
			t.Count("admin=" + strings.SplitN(cmd, " ", 2)[0])
		}
	}
	action := func(cmd string) {
		e := try(func() {
			ut := db.NewUpdateTran()
			qry.DoAction(th, ut, cmd)
			if s := ut.Complete(); s != "" {
				panic(s)
			}
		})
		if e == "" {
			c := cmd
			if len(c) > 60 {
				c = c[:60] + "…"
			}
			hist = append(hist, c)
		}
	}
	admin("create tgt (c, x) key(c)")
	admin("create t1 (a, b, c, d, e) key(a) index(b) index unique(d) index(c) in tgt cascade")
	admin("create t2 (k, big, z) key(k)")
	admin("create t3 (k, v) key(k)") // stays empty
	// a table whose name is a prefix / extension of the words the dump format reserves
	odd := []string{"viewsx", "views2", "view", "tables", "columns", "indexes", "viewsviews"}[r.Intn(7)]
	admin(fmt.Sprintf("create %s (k, v) key(k) index(v)", odd))
	for x := r.Intn(4); x > 0; x-- {
		action(fmt.Sprintf("insert { k: %d, v: 'odd%d' } into %s", x, 9-x, odd))
	}
	defer rmAll(odd + ".su")
	// several keys; the smallest key (fewest columns) is NOT the first index
	admin("create t4 (r, n, code, v) key(r,n) index(v) key(code) index unique(v,code)")
	// 0-5 views (mostly two or more) with definitions of different lengths
	nviews := []int{0, 1, 2, 2, 3, 4, 5}[r.Intn(7)]
	for v := 0; v < nviews; v++ {
		def := []string{"t1 where a > 1", "t2 join tgt", "tgt", "t1 where a > 3 and a < 17 and b isnt 2",
			"t2 where k > 10"}[r.Intn(5)]
		for x := r.Intn(4); x > 0; x-- {
			def += fmt.Sprintf(" where %s isnt %d", []string{"a", "k", "c"}[r.Intn(3)], r.Intn(100000))
		}
		admin(fmt.Sprintf("view v%d_%s = %s", v, strings.Repeat("n", r.Intn(12)), def))
	}
	t.Count(fmt.Sprintf("views=%d", nviews))
	if cyc%4 == 0 {
		// row counts around the block size of the sort used by load / compact
		nrows := []int{4096, 4095, 4097, 8192}[(cyc/4)%4]
		admin("create t5 (k, s) key(k) index(s)")
		e := try(func() {
			for base := 0; base < nrows; base += 512 {
				ut := db.NewUpdateTran()
				for j := base; j < base+512 && j < nrows; j++ {
					var rb core.RecordBuilder
					rb.Add(core.IntVal(j))
					rb.Add(core.SuStr(fmt.Sprintf("s%05d", (j*7919)%nrows))) // another order than k
					ut.Output(th, "t5", rb.Build())
				}
				if s := ut.Complete(); s != "" {
					panic(s)
				}
			}
		})
		if e != "" {
			panic("t5: " + e)
		}
		hist = append(hist, fmt.Sprintf("%d rows {k: j, s: perm(j)} into t5", nrows))
		t.Count(fmt.Sprintf("blocksize-table rows=%d", nrows))
		defer rmAll("t5.su")
	}
	nsteps := 25 + r.Intn(30)
	for step := 0; step < nsteps; step++ {
		switch r.Intn(16) {
		case 0:
			admin("alter t1 drop index(b)")
		case 1:
			admin("alter t1 drop (b)")
		case 2:
			admin("alter t1 create (f)")
		case 3:
			admin("alter t1 rename e to ee")
		case 4:
			admin("alter t2 drop (big)")
		case 5:
			admin("alter t2 create (big)")
		case 6:
			action(fmt.Sprintf("insert { c: %d, x: 'x' } into tgt", r.Intn(5)))
		case 7, 8:
			size := []int{0, 10, 300, 70000}[r.Intn(4)]
			if r.Intn(40) == 0 {
				size = 900000
			}
			big := strings.Repeat("z", size)
			z := ""
			if r.Intn(2) == 0 {
				z = ", z: 'tail'"
			}
			if r.Intn(4) == 0 {
				// a stored record with explicit empty trailing fields (not trimmed)
				k := 100 + r.Intn(60)
				e := try(func() {
					var rb core.RecordBuilder
					rb.Add(core.IntVal(k))
					for n := 1 + r.Intn(3); n > 0; n-- {
						rb.Add(core.SuStr(""))
					}
					ut := db.NewUpdateTran()
					ut.Output(th, "t2", rb.Build())
					if s := ut.Complete(); s != "" {
						panic(s)
					}
				})
				if e == "" {
					hist = append(hist, fmt.Sprintf("output untrimmed {k: %d, '', …} into t2", k))
					t.Count("untrimmed-record")
				}
				continue
			}
			action(fmt.Sprintf("insert { k: %d, big: '%s'%s } into t2", r.Intn(60), big, z))
			t.Count(fmt.Sprintf("recsize=%d", size))
		case 9:
			if r.Intn(2) == 0 {
				action(fmt.Sprintf("delete t4 where code = %d", r.Intn(40)))
				continue
			}
			action(fmt.Sprintf("delete t1 where a = %d", r.Intn(20)))
		case 10:
			action(fmt.Sprintf("update t1 where a = %d set d = ''", r.Intn(20))) // trailing fields become empty
		case 11, 12:
			// code runs against (r,n) so the two key orders differ
			action(fmt.Sprintf("insert { r: 'r%d', n: %d, code: %d, v: 'v%d' } into t4", r.Intn(4), r.Intn(12), 40-r.Intn(40), r.Intn(6)))
			t.Count("insert-multikey")
		default:
			var flds []string
			flds = append(flds, fmt.Sprintf("a: %d", r.Intn(20)))
			if r.Intn(2) == 0 {
				flds = append(flds, fmt.Sprintf("b: %d", r.Intn(5)))
			}
			if r.Intn(2) == 0 {
				flds = append(flds, fmt.Sprintf("c: %d", r.Intn(5)))
			}
			if r.Intn(2) == 0 {
				flds = append(flds, fmt.Sprintf("d: %d", r.Intn(30)))
			}
			if r.Intn(3) == 0 {
				flds = append(flds, "e: 'e'", "ee: 'e'", "f: ''")
			}
			action("insert { " + strings.Join(flds, ", ") + " } into t1")
		}
	}
	desc := fmt.Sprintf("cycle %d: %s", cyc, strings.Join(hist, "; "))
	if len(desc) > 1500 {
		desc = desc[:1500] + "…"
	}
	orig := logical(db, "")
	if strings.Contains(orig, "MISMATCH") {
		t.Fail("orig-index-mismatch", desc)
	}
	phys := physical(db)
	perTable := map[string]string{}
	for _, pt := range phys {
		perTable[pt.name] = logical(db, pt.name)
		if strings.Contains(strings.Join(pt.cols, ","), "-") {
			t.Count("table-with-deleted-column")
		}
	}

	// ---- dump whole database + every table
	var derr error
	if e := try(func() { _, _, derr = tools.Dump(db, "d.su", "") }); e != "" || derr != nil {
		t.Fail("dump-error", fmt.Sprint(desc, " : ", e, derr))
		db.Close()
		return
	}
	dumped := map[string][]string{}
	for _, pt := range phys {
		file := pt.name + ".su"
		rmAll(file)
		var n int
		if e := try(func() { n, derr = tools.DumpDbTable(db, pt.name, file, "") }); e != "" || derr != nil {
			t.Fail("dumptable-error", fmt.Sprint(desc, " table ", pt.name, " : ", e, derr))
			continue
		}
		b, _ := os.ReadFile(file)
		schema, recs, ok := parseTableFile(b)
		if !ok || n != len(pt.rows) || len(recs) != len(pt.rows) {
			t.Fail("dumptable-malformed", fmt.Sprintf("%s table %s: parsed ok=%v, returned %d, records %d, rows %d", desc, pt.name, ok, n, len(recs), len(pt.rows)))
			continue
		}
		dumped[pt.name] = recs
		// the order in which dump printed the indexes (the smallest key first)
		if len(pt.idxs) > 0 {
			type pos struct{ i, at int }
			var ps []pos
			okpos := true
			for i, ixs := range pt.idxs {
				at := strings.Index(schema, ixs)
				for at > 0 && schema[at-1] != ' ' { // not inside another index
					nx := strings.Index(schema[at+1:], ixs)
					if nx < 0 {
						at = -1
						break
					}
					at += 1 + nx
				}
				if at < 0 {
					okpos = false
				}
				ps = append(ps, pos{i, at})
			}
			if okpos {
				sort.Slice(ps, func(a, b int) bool { return ps[a].at < ps[b].at })
				var order []string
				for _, q := range ps {
					order = append(order, fmt.Sprint(q.i))
				}
				t.Qf(strings.Join(order, ","), "indexorder %d %d", len(pt.idxs), pt.firstIdx)
				if pt.firstIdx != 0 {
					t.Count("dump-first-index-not-0")
				}
			} else {
				t.Fail("dump-schema-index-missing", fmt.Sprintf("%s table %s: schema line %q does not contain every index", desc, pt.name, schema))
			}
		}
		// Q: every row as dump writes it (sample), and the file bytes
		for j, row := range pt.rows {
			if j >= 12 && j < len(pt.rows)-2 {
				continue
			}
			if len(recs[j]) > 2000 {
				t.Count("big-row-not-traced")
				continue
			}
			t.Qf(showRow(fields(core.Record(recs[j]))), "dumprow %s %s", colsArg(pt.cols), showRow(row))
		}
		if len(b) < 6000 {
			var rs []string
			for _, rc := range recs {
				rs = append(rs, lib.X(rc))
			}
			t.Qf(lib.X(string(b)), "tablefile %s %s", lib.X(schema), strings.Join(rs, " "))
		}
		t.Count("dumptable")
	}

	// ---- load a dumped table back into the OPEN database after more data-only persists
	// (LoadDbTable / Database.Load), then close and reopen: the loaded table must still be there
	{
		nper := r.Intn(9)
		for i := 0; i < nper; i++ {
			action(fmt.Sprintf("insert { k: %d, big: 'later' } into t2", 1000+r.Intn(1000)))
			action(fmt.Sprintf("insert { c: %d, x: 'y' } into tgt", 100+r.Intn(100)))
			db.Persist()
		}
		cand := []string{}
		for _, pt := range phys {
			if _, ok := dumped[pt.name]; ok && !pt.fkey && pt.name != "tgt" {
				cand = append(cand, pt.name)
			}
		}
		if len(cand) > 0 {
			name := cand[r.Intn(len(cand))]
			// make the table differ from its dump, so that the load is visible
			switch name {
			case "t2":
				action(fmt.Sprintf("insert { k: %d, big: 'afterdump' } into t2", 5000+r.Intn(1000)))
			case "t3":
				action(fmt.Sprintf("insert { k: %d, v: 'afterdump' } into t3", r.Intn(1000)))
			case "t4":
				action(fmt.Sprintf("insert { r: 'rz', n: %d, code: %d, v: 'afterdump' } into t4", r.Intn(1000), 500+r.Intn(1000)))
			}
			// let the merger finish the commits on this table first: LoadDbTable replaces the
			// table's info, and a merge still queued for it then dies in the merger goroutine
			// ("FATAL: in merger: slice bounds out of range", findings/C20.md) - a schedule
			// dependent defect of its own that would make this suite nondeterministic
			db.Persist()
			var n int
			var lerr error
			e := try(func() { n, lerr = tools.LoadDbTable(name, name+".su", "", "", db) })
			if e != "" || lerr != nil {
				t.Fail("loaddbtable-error", fmt.Sprint(desc, " table ", name, " : ", e, lerr))
			} else {
				if got := logical(db, name); got != perTable[name] || n != len(dumped[name]) {
					t.Fail("loaddbtable-diff", desc+" table "+name+" : "+firstDiff(perTable[name], got))
				}
				for i := r.Intn(3); i > 0; i-- {
					action(fmt.Sprintf("insert { c: %d, x: 'z' } into tgt", 300+r.Intn(100)))
					db.Persist()
				}
				hist = append(hist, fmt.Sprintf("%d data-only persists; load %s into the open database", nper, name))
				t.Count(fmt.Sprintf("loaddbtable after persists=%d", min(nper, 4)))
			}
		}
		desc = fmt.Sprintf("cycle %d: %s", cyc, strings.Join(hist, "; "))
		if len(desc) > 1800 {
			desc = desc[:900] + " … " + desc[len(desc)-900:]
		}
	}
	beforeClose := logical(db, "")
	phys = physical(db)
	db.Close()
	if dbr, err := db19.OpenDatabase("x.db"); err != nil {
		t.Fail("reopen-error", fmt.Sprint(desc, " : ", err))
		return
	} else {
		reopened := logical(dbr, "")
		dbr.Close()
		if reopened != beforeClose {
			t.Fail("close-reopen-diff", desc+" : after close and reopen "+firstDiff(beforeClose, reopened))
		}
	}

	// ---- load the whole dump
	var lerr error
	if e := try(func() { _, _, lerr = tools.LoadDatabase("d.su", "y.db", "", "") }); e != "" || lerr != nil {
		t.Fail("load-error", fmt.Sprint(desc, " : ", e, lerr))
	} else {
		if ce := db19.CheckDatabase("y.db", true); ce != nil {
			t.Fail("check-loaded", fmt.Sprint(desc, " : ", ce))
		}
		if db2, err := db19.OpenDatabase("y.db"); err != nil {
			t.Fail("open-loaded", fmt.Sprint(desc, " : ", err))
		} else {
			loaded := logical(db2, "")
			db2.Close()
			if loaded != orig {
				t.Fail("dump-load-diff", desc+" : "+firstDiff(orig, loaded))
			}
			t.Count("dump+load")
		}
	}

	// ---- load single tables into a fresh database
	for _, pt := range phys {
		recs, ok := dumped[pt.name]
		if !ok {
			continue
		}
		rmAll("z.db") // (a refused LoadTable into a new file leaves a file without any state)
		var n int
		var terr error
		e := try(func() { n, terr = tools.LoadTable(pt.name, "z.db") })
		if pt.fkey {
			if e == "" && terr == nil {
				t.Fail("loadtable-accepted-fkey", desc+" table "+pt.name)
			}
			t.Count("loadtable=refused-fkey")
			continue
		}
		if e != "" || terr != nil {
			t.Fail("loadtable-error", fmt.Sprint(desc, " table ", pt.name, " : ", e, terr))
			continue
		}
		dbz, err := db19.OpenDatabase("z.db")
		if err != nil {
			t.Fail("loadtable-open", fmt.Sprint(desc, " : ", err))
			continue
		}
		got := logical(dbz, pt.name)
		// the records load stored, in key order
		var stored []string
		rt := dbz.NewReadTran()
		it := index.NewOverIter(pt.name, 0)
		for it.Next(rt); !it.Eof(); it.Next(rt) {
			stored = append(stored, string(rt.GetRecord(it.CurOff())))
		}
		dbz.Close()
		if got != perTable[pt.name] || n != len(recs) {
			t.Fail("table-load-diff", desc+" table "+pt.name+" : "+firstDiff(perTable[pt.name], got))
		}
		body := frames(recs)
		if len(body) < 6000 {
			out := []string{fmt.Sprint(len(stored))}
			for _, s := range stored {
				out = append(out, lib.X(s))
			}
			t.Qf(strings.Join(out, " "), "readrecs %s", lib.X(body))
		}
		t.Count("loadtable=ok")
	}

	// ---- compact
	var cerr error
	if e := try(func() { _, _, _, _, cerr = tools.Compact("x.db") }); e != "" || cerr != nil {
		t.Fail("compact-error", fmt.Sprint(desc, " : ", e, cerr))
		return
	}
	if ce := db19.CheckDatabase("x.db", true); ce != nil {
		t.Fail("check-compacted", fmt.Sprint(desc, " : ", ce))
	}
	db3, err := db19.OpenDatabase("x.db")
	if err != nil {
		t.Fail("open-compacted", fmt.Sprint(desc, " : ", err))
		return
	}
	compacted := logical(db3, "")
	phys3 := physical(db3)
	db3.Close()
	if compacted != beforeClose {
		t.Fail("compact-diff", desc+" : "+firstDiff(beforeClose, compacted))
	}
	for i, pt := range phys {
		if i >= len(phys3) || phys3[i].name != pt.name || len(phys3[i].rows) != len(pt.rows) {
			continue // reported by compact-diff
		}
		for j, row := range pt.rows {
			if j >= 12 && j < len(pt.rows)-2 {
				continue
			}
			n := 0
			for _, f := range row {
				n += len(f)
			}
			if n > 2000 {
				continue
			}
			t.Qf(showRow(phys3[i].rows[j]), "compactrow %s %s", colsArg(pt.cols), showRow(row))
		}
	}
	t.Count("compact")

	// thorough tier only (2 s per cycle): the file-level entry points on the compacted file
	if lib.Tier() == "thorough" {
		rmAll("d2.su", "y2.db")
		var e2 error
		if e := try(func() { _, _, e2 = tools.DumpDatabase("x.db", "d2.su") }); e != "" || e2 != nil {
			t.Fail("dumpdatabase-error", fmt.Sprint(desc, " : ", e, e2))
			return
		}
		if e := try(func() { _, _, e2 = tools.LoadDatabase("d2.su", "y2.db", "", "") }); e != "" || e2 != nil {
			t.Fail("load-error", fmt.Sprint(desc, " (dump of the compacted file) : ", e, e2))
			return
		}
		if db4, err := db19.OpenDatabase("y2.db"); err == nil {
			got := logical(db4, "")
			db4.Close()
			if got != beforeClose {
				t.Fail("dump-load-diff", desc+" (DumpDatabase of the compacted file) : "+firstDiff(beforeClose, got))
			}
		} else {
			t.Fail("open-loaded", fmt.Sprint(desc, " : ", err))
		}
		rmAll("d2.su", "y2.db")
		t.Count("dumpdatabase+load")
	}
}

func frames(recs []string) string {
	var sb strings.Builder
	var b [4]byte
	for _, rc := range recs {
		binary.BigEndian.PutUint32(b[:], uint32(len(rc)))
		sb.Write(b[:])
		sb.WriteString(rc)
	}
	sb.Write([]byte{0, 0, 0, 0})
	return sb.String()
}

func firstDiff(a, b string) string {
	la, lb := strings.Split(a, "\n"), strings.Split(b, "\n")
	for i := 0; i < len(la) || i < len(lb); i++ {
		x, y := "<none>", "<none>"
		if i < len(la) {
			x = la[i]
		}
		if i < len(lb) {
			y = lb[i]
		}
		if x != y {
			if len(x) > 300 {
				x = x[:300]
			}
			if len(y) > 300 {
				y = y[:300]
			}
			return fmt.Sprintf("first difference: before %q after %q", x, y)
		}
	}
	return "no difference?"
}

// crafted single-table dumps with possibly duplicate key / unique values
func crafted(t *lib.Trace, r *rand.Rand, i int) {
	type row struct{ k, a, b string }
	pk := func(s string) string {
		if s == "" {
			return ""
		}
		var rb core.RecordBuilder
		rb.Add(core.SuStr(s))
		return rb.Build().GetRaw(0)
	}
	m := r.Intn(7)
	var rows []row
	for j := 0; j < m; j++ {
		a := ""
		if r.Intn(3) != 0 {
			a = fmt.Sprint("a", r.Intn(9))
		}
		b := ""
		if r.Intn(2) == 0 {
			b = fmt.Sprint("b", r.Intn(3))
		}
		rows = append(rows, row{pk(fmt.Sprint("k", r.Intn(8))), pk(a), pk(b)})
	}
	sort.SliceStable(rows, func(x, y int) bool { return rows[x].k < rows[y].k })
	var recs []string
	var rowArgs []string
	for _, rw := range rows {
		var rb core.RecordBuilder
		rb.AddRaw(rw.k)
		rb.AddRaw(rw.a)
		rb.AddRaw(rw.b)
		if r.Intn(2) == 0 {
			rb.Trim()
		}
		rec := rb.Build()
		recs = append(recs, string(rec))
		rowArgs = append(rowArgs, showRow(fields(rec)))
	}
	schema := "(k,a,b) key(k) index unique(a) index(b)"
	file := version + prefix + schema + "\n" + frames(recs)
	rmAll("ct.su", "cl.db")
	os.WriteFile("ct.su", []byte(file), 0644)
	var n int
	var err error
	e := try(func() { n, err = tools.LoadTable("ct", "cl.db") })
	out := fmt.Sprintf("ok %d", n)
	msg := e
	if err != nil {
		msg = err.Error()
	}
	if msg != "" {
		if strings.Contains(msg, "duplicate") {
			out = "!dup"
		} else {
			out = "!error"
			t.Fail("crafted-load-error", fmt.Sprintf("crafted %d rows %v: %s", i, rowArgs, msg))
		}
	}
	t.Qf(out, "loadtable k,a,b key:k;unique:a;index:b %s", strings.Join(rowArgs, " "))
	// direct oracle
	dup := false
	seenK, seenA := map[string]bool{}, map[string]bool{}
	for _, rw := range rows {
		if seenK[rw.k] || (rw.a != "" && seenA[rw.a]) {
			dup = true
		}
		seenK[rw.k] = true
		seenA[rw.a] = true
	}
	if dup && out != "!dup" {
		t.Fail("load-accepted-duplicate", fmt.Sprintf("crafted %d: schema %s rows %v loaded (%s) although a key or unique value repeats", i, schema, rowArgs, out))
	}
	if !dup && out == "!dup" {
		t.Fail("load-refused-valid", fmt.Sprintf("crafted %d: schema %s rows %v refused: %s", i, schema, rowArgs, msg))
	}
	if !dup && msg == "" {
		if db, err := db19.OpenDatabase("cl.db"); err == nil {
			if got := db.NewReadTran().GetInfo("ct").Nrows; got != len(rows) {
				t.Fail("crafted-load-count", fmt.Sprintf("crafted %d: %d rows loaded, expected %d", i, got, len(rows)))
			}
			db.Close()
		}
	}
	t.Count(fmt.Sprintf("crafted=%s", strings.SplitN(out, " ", 2)[0]))
}

// craftedDb builds a whole-database dump file by hand (as another program, an older version or a
// damaged file would provide it): several tables, possibly a key violation in one of them, in
// particular in the LAST and LARGE one whose index build is still running when the reader
// reaches the end of the file. LoadDatabase must refuse it; if it reports success every table
// of the dump must exist with all its rows.
func craftedDb(t *lib.Trace, r *rand.Rand, i int) {
	ntables := 2 + r.Intn(3)
	dupTable := -1
	if r.Intn(2) == 0 {
		dupTable = ntables - 1 // mostly the last one
		if r.Intn(4) == 0 {
			dupTable = r.Intn(ntables)
		}
	}
	var sb strings.Builder
	sb.WriteString(version)
	sb.WriteString(prefix + "views (view_name,view_definition) key(view_name)\n")
	sb.Write([]byte{0, 0, 0, 0})
	sizes := make([]int, ntables)
	var what []string
	// table names, some near the words the format reserves; in name order as dump writes them
	pool := []string{"cr0", "cr1", "cr2", "cr3", "columns", "indexes", "tables", "view", "views2", "viewsx", "viewsviews"}
	r.Shuffle(len(pool), func(a, b int) { pool[a], pool[b] = pool[b], pool[a] })
	names := append([]string{}, pool[:ntables]...)
	sort.Strings(names)
	for ti := 0; ti < ntables; ti++ {
		n := []int{0, 3, 50, 2000, 4095, 4096, 4097, 8192}[r.Intn(8)]
		if ti == ntables-1 && r.Intn(2) == 0 {
			n = 20000 + r.Intn(20000)
			if r.Intn(3) == 0 {
				n = 4096 * (5 + r.Intn(4)) // a multiple of the sort block size
			}
		}
		if ti == dupTable && n < 2 {
			n = 2
		}
		sizes[ti] = n
		fmt.Fprintf(&sb, "%s%s (k,a) key(k) index(a)\n", prefix, names[ti])
		var recs []string
		for j := 0; j < n; j++ {
			var rb core.RecordBuilder
			rb.Add(core.SuStr(fmt.Sprintf("k%07d", j)))
			rb.Add(core.SuStr(fmt.Sprint("a", (j*31)%97))) // secondary index in another order
			recs = append(recs, string(rb.Build()))
		}
		if ti == dupTable {
			// the duplicate key sits at the very end (or somewhere, for small tables)
			at := n - 1
			if n < 100 {
				at = 1 + r.Intn(n-1)
			}
			recs[at] = recs[at-1]
		}
		sb.WriteString(frames(recs))
		what = append(what, fmt.Sprintf("%s:%d rows", names[ti], n))
	}
	rmAll("cd.su", "cd.db")
	os.WriteFile("cd.su", []byte(sb.String()), 0644)
	var nt int
	var err error
	e := try(func() { nt, _, err = tools.LoadDatabase("cd.su", "cd.db", "", "") })
	desc := fmt.Sprintf("crafted database dump %d: tables %s, duplicate key in table %d (-1 = none)", i, strings.Join(what, ", "), dupTable)
	failed := e != "" || err != nil
	t.Count(fmt.Sprintf("crafteddb dup=%v last-big=%v", dupTable >= 0, sizes[ntables-1] >= 20000))
	if dupTable < 0 && failed {
		t.Fail("loaddb-refused-valid", fmt.Sprint(desc, " : ", e, err))
		return
	}
	if failed {
		if !strings.Contains(fmt.Sprint(e, err), "duplicate") {
			t.Fail("loaddb-unclear-error", fmt.Sprint(desc, " : ", e, err))
		}
		return
	}
	// LoadDatabase reported success: the database must contain every table of the dump, complete
	problem := ""
	if dupTable >= 0 {
		problem = "LoadDatabase reported success although the dump violates a key"
	}
	if nt != ntables && problem == "" {
		problem = fmt.Sprintf("LoadDatabase returned %d tables", nt)
	}
	if db, oerr := db19.OpenDatabase("cd.db"); oerr != nil {
		problem += fmt.Sprint("; the loaded database does not open: ", oerr)
	} else {
		rt := db.NewReadTran()
		for ti := 0; ti < ntables; ti++ {
			info := rt.GetInfo(names[ti])
			if info == nil {
				problem += fmt.Sprintf("; table %s is missing from the loaded database", names[ti])
			} else if info.Nrows != sizes[ti] {
				problem += fmt.Sprintf("; table %s has %d rows", names[ti], info.Nrows)
			}
		}
		db.Close()
	}
	if ce := db19.CheckDatabase("cd.db", true); ce != nil && problem == "" {
		problem = "CheckDatabase(full) of the loaded database: " + ce.Error()
	}
	if problem != "" {
		sig := "loaddb-incomplete"
		if dupTable >= 0 {
			sig = "loaddb-accepted-duplicate"
		}
		t.Fail(sig, desc+" : "+problem)
	}
}

func main() {
	db19.MakeSuTran = func(ut *db19.UpdateTran) *core.SuTran { return core.NewSuTran(nil, true) }
	qry.MakeSuTran = func(qt qry.QueryTran) *core.SuTran { return nil }
	t := lib.Open()
	defer t.Close()
	r := lib.Rand()
	n := lib.N(8)
	if s := os.Getenv("VERIF_SCRATCH"); s != "" {
		os.Chdir(s)
	}
	for c := 0; c < n; c++ {
		cycle(t, r, c)
	}
	for i := 0; i < n*8; i++ {
		crafted(t, r, i)
	}
	for i := 0; i < n; i++ {
		craftedDb(t, r, i)
	}
	rmAll("x.db", "y.db", "z.db", "d.su", "ct.su", "cl.db", "tgt.su", "t1.su", "t2.su", "t3.su", "t4.su", "cd.su", "cd.db")
}
