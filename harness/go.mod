module verif/harness

go 1.26.5

require github.com/apmckinlay/gsuneido v0.0.0

require (
	github.com/ProtonMail/go-crypto v1.4.1 // indirect
	github.com/cloudflare/circl v1.6.4 // indirect
	golang.org/x/crypto v0.54.0 // indirect
	golang.org/x/exp v0.0.0-20260611194520-c48552f49976 // indirect
	golang.org/x/sys v0.47.0 // indirect
	golang.org/x/text v0.40.0 // indirect
	golang.org/x/time v0.15.0 // indirect
)

replace github.com/apmckinlay/gsuneido => /repo
