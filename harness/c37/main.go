// C37 correspondence suite: util/regex against (a) the Lean matcher Gsu.Model.LangRegex (Q lines:
// pattern AST + subject -> match span + captures) and (b) Go's regexp as direct oracle (F lines),
// on generated patterns of the common subset x short subjects, with a time bound per match.
package main

import (
	"fmt"
	"math/rand"
	"regexp"
	"strings"
	"time"

	"github.com/apmckinlay/gsuneido/util/regex"
	"verif/harness/lib"
)

type re struct {
	kind   string // chr any cls bol eol bos eos seq alt star plus opt group
	c      byte
	neg    bool
	ranges [][2]byte
	text   string // class source text
	greedy bool
	n      int
	a, b   *re
}

type gen struct {
	r       *rand.Rand
	ngroups int
}

var classes = []re{
	{kind: "cls", text: "[ab]", ranges: [][2]byte{{'a', 'a'}, {'b', 'b'}}},
	{kind: "cls", text: "[^a]", neg: true, ranges: [][2]byte{{'a', 'a'}}},
	{kind: "cls", text: "[a-c]", ranges: [][2]byte{{'a', 'c'}}},
	{kind: "cls", text: "[^b-x]", neg: true, ranges: [][2]byte{{'b', 'x'}}},
	{kind: "cls", text: `\d`, ranges: [][2]byte{{'0', '9'}}},
	{kind: "cls", text: `\w`, ranges: [][2]byte{{'_', '_'}, {'0', '9'}, {'a', 'z'}, {'A', 'Z'}}},
	{kind: "cls", text: `\s`, ranges: [][2]byte{{' ', ' '}, {'\t', '\t'}, {'\r', '\r'}, {'\n', '\n'}}},
	{kind: "cls", text: `\D`, neg: true, ranges: [][2]byte{{'0', '9'}}},
	{kind: "cls", text: "[xyz]", ranges: [][2]byte{{'x', 'x'}, {'y', 'y'}, {'z', 'z'}}},
	{kind: "cls", text: "[abz]", ranges: [][2]byte{{'a', 'a'}, {'b', 'b'}, {'z', 'z'}}},
	{kind: "cls", text: "[A-Z]", ranges: [][2]byte{{'A', 'Z'}}},
	{kind: "cls", text: "[a-z]", ranges: [][2]byte{{'a', 'z'}}},
	{kind: "cls", text: "[^a-z]", neg: true, ranges: [][2]byte{{'a', 'z'}}},
	{kind: "cls", text: "[m-zA]", ranges: [][2]byte{{'m', 'z'}, {'A', 'A'}}},
	{kind: "cls", text: "[bc]", ranges: [][2]byte{{'b', 'b'}, {'c', 'c'}}},
}

const litChars = "abcxzZA1"

func (g *gen) atom() *re {
	switch k := g.r.Intn(10); {
	case k < 5:
		return &re{kind: "chr", c: litChars[g.r.Intn(len(litChars))]}
	case k < 6:
		return &re{kind: "any"}
	default:
		c := classes[g.r.Intn(len(classes))]
		return &c
	}
}

func (g *gen) group(x *re) *re {
	g.ngroups++
	// the group number is the order of its opening parenthesis: assigned by number() afterwards
	return &re{kind: "group", a: x}
}

func (g *gen) gen(depth int) *re {
	if depth <= 0 || g.r.Intn(3) == 0 {
		return g.atom()
	}
	switch g.r.Intn(8) {
	case 0, 1:
		return &re{kind: "seq", a: g.gen(depth - 1), b: g.gen(depth - 1)}
	case 2:
		return g.group(g.gen(depth - 1))
	case 3:
		return g.group(&re{kind: "alt", a: g.gen(depth - 1), b: g.gen(depth - 1)})
	case 4, 5:
		q := []string{"star", "plus", "opt"}[g.r.Intn(3)]
		return &re{kind: q, greedy: g.r.Intn(3) != 0, a: g.group(g.gen(depth - 1))}
	default:
		q := []string{"star", "plus", "opt"}[g.r.Intn(3)]
		return &re{kind: q, greedy: g.r.Intn(3) != 0, a: g.atom()}
	}
}

// overlap builds patterns whose alternatives / optional parts start with overlapping first
// characters (a small class and one of its own members): the cases in which a matcher must not
// commit to a branch on the first character (one-pass eligibility, literal prefixes)
func (g *gen) overlap() (*re, string) {
	small := []int{0, 8, 9, 14} // [ab] [xyz] [abz] [bc]
	c := classes[small[g.r.Intn(len(small))]]
	m := c.ranges[g.r.Intn(len(c.ranges))][0]
	alpha := ""
	for _, r := range c.ranges {
		alpha += string(r[0])
	}
	alpha += string("c1"[g.r.Intn(2)])
	cls := func() *re { cc := c; return &cc }
	tail := &re{kind: "chr", c: alpha[g.r.Intn(len(alpha))]}
	var x *re
	switch g.r.Intn(4) {
	case 0:
		x = g.group(&re{kind: "alt", a: cls(), b: &re{kind: "seq", a: &re{kind: "chr", c: m}, b: tail}})
	case 1:
		x = g.group(&re{kind: "alt", a: &re{kind: "seq", a: &re{kind: "chr", c: m}, b: tail}, b: cls()})
	case 2:
		x = &re{kind: "seq", a: &re{kind: "opt", greedy: g.r.Intn(2) == 0, a: cls()}, b: &re{kind: "seq", a: &re{kind: "chr", c: m}, b: tail}}
	default:
		x = &re{kind: "seq", a: &re{kind: "star", greedy: g.r.Intn(2) == 0, a: cls()}, b: &re{kind: "chr", c: m}}
	}
	return x, alpha
}

func number(x *re, n *int) {
	if x == nil {
		return
	}
	if x.kind == "group" {
		*n++
		x.n = *n
	}
	number(x.a, n)
	number(x.b, n)
}

func nullable(x *re) bool {
	switch x.kind {
	case "chr", "any", "cls":
		return false
	case "bol", "eol", "bos", "eos", "star", "opt":
		return true
	case "seq":
		return nullable(x.a) && nullable(x.b)
	case "alt":
		return nullable(x.a) || nullable(x.b)
	case "plus", "group":
		return nullable(x.a)
	}
	return false
}

func nullableLoop(x *re) bool {
	if x == nil {
		return false
	}
	if (x.kind == "star" || x.kind == "plus") && nullable(x.a) {
		return true
	}
	return nullableLoop(x.a) || nullableLoop(x.b)
}

func (x *re) src(sb *strings.Builder) {
	switch x.kind {
	case "chr":
		sb.WriteByte(x.c)
	case "any":
		sb.WriteByte('.')
	case "cls":
		sb.WriteString(x.text)
	case "bol":
		sb.WriteByte('^')
	case "eol":
		sb.WriteByte('$')
	case "bos":
		sb.WriteString(`\A`)
	case "eos":
		sb.WriteString(`\Z`)
	case "seq":
		x.a.src(sb)
		x.b.src(sb)
	case "alt":
		x.a.src(sb)
		sb.WriteByte('|')
		x.b.src(sb)
	case "group":
		sb.WriteByte('(')
		x.a.src(sb)
		sb.WriteByte(')')
	case "star", "plus", "opt":
		x.a.src(sb)
		sb.WriteString(map[string]string{"star": "*", "plus": "+", "opt": "?"}[x.kind])
		if !x.greedy {
			sb.WriteByte('?')
		}
	}
}

func b01(b bool) string {
	if b {
		return "1"
	}
	return "0"
}

func (x *re) lean(sb *strings.Builder) {
	switch x.kind {
	case "chr":
		fmt.Fprintf(sb, "c%d", x.c)
	case "any":
		sb.WriteString(".")
	case "bol":
		sb.WriteString("^")
	case "eol":
		sb.WriteString("$")
	case "bos":
		sb.WriteString("A")
	case "eos":
		sb.WriteString("Z")
	case "cls":
		fmt.Fprintf(sb, "( k %s %d", b01(x.neg), len(x.ranges))
		for _, r := range x.ranges {
			fmt.Fprintf(sb, " %d %d", r[0], r[1])
		}
		sb.WriteString(" )")
	case "seq", "alt":
		sb.WriteString("( " + map[string]string{"seq": "s", "alt": "a"}[x.kind] + " ")
		x.a.lean(sb)
		sb.WriteString(" ")
		x.b.lean(sb)
		sb.WriteString(" )")
	case "star", "plus", "opt":
		sb.WriteString("( " + map[string]string{"star": "*", "plus": "+", "opt": "?"}[x.kind] + " " + b01(x.greedy) + " ")
		x.a.lean(sb)
		sb.WriteString(" )")
	case "group":
		fmt.Fprintf(sb, "( g %d ", x.n)
		x.a.lean(sb)
		sb.WriteString(" )")
	}
}

// sigFor names a difference from the reference engine. When the whole match is the same and only
// group spans differ, and the pattern repeats a body that can match the empty string (`(x?)*`,
// `(a*)+` …), the pattern has several parses with empty iterations and engines legitimately
// choose different ones (Go drops empty iterations, util/regex keeps the first): own signature.
func sigFor(base string, x *re, got, ref string) string {
	if !nullableLoop(x) || got == "-" || ref == "-" {
		return base
	}
	g, r := strings.Fields(got), strings.Fields(ref)
	if len(g) >= 2 && len(r) >= 2 && g[0] == r[0] && g[1] == r[1] {
		return "regex-captures-differ-under-nullable-loop"
	}
	return base
}

func capString(matched bool, cap *regex.Captures, ng int) string {
	if !matched {
		return "-"
	}
	parts := []string{fmt.Sprint(cap[0]), fmt.Sprint(cap[1])}
	for gi := 1; gi <= ng; gi++ {
		if cap[2*gi] < 0 {
			parts = append(parts, "-1", "-1")
		} else {
			parts = append(parts, fmt.Sprint(cap[2*gi]), fmt.Sprint(cap[2*gi+1]))
		}
	}
	return strings.Join(parts, " ")
}

// goAt: the reference engine's match of the pattern starting exactly at offset i of the whole
// subject (anchors see the whole subject): \A(?s:.{i})(?:pattern)
type goRef struct {
	pat   string // Go spelling of the pattern (with (?i) if in effect)
	cache map[int]*regexp.Regexp
}

func (g *goRef) at(s string, i, ng int) string {
	re := g.cache[i]
	if re == nil {
		re = regexp.MustCompile(fmt.Sprintf(`(?m)\A(?s:.{%d})(?:%s)`, i, g.pat))
		g.cache[i] = re
	}
	m := re.FindStringSubmatchIndex(s)
	if m == nil {
		return "-"
	}
	parts := []string{fmt.Sprint(i), fmt.Sprint(m[1])}
	for gi := 1; gi <= ng; gi++ {
		if m[2*gi] < 0 {
			parts = append(parts, "-1", "-1")
		} else {
			parts = append(parts, fmt.Sprint(m[2*gi]), fmt.Sprint(m[2*gi+1]))
		}
	}
	return strings.Join(parts, " ")
}

func (g *goRef) first(s string, pos, ng int) string {
	for i := pos; i <= len(s); i++ {
		if r := g.at(s, i, ng); r != "-" {
			return r
		}
	}
	return "-"
}

func (g *goRef) last(s string, pos, ng int) string {
	for i := pos; i >= 0; i-- {
		if r := g.at(s, i, ng); r != "-" {
			return r
		}
	}
	return "-"
}

func main() {
	t := lib.Open()
	defer t.Close()
	r := lib.Rand()
	n := lib.N(5000)
	for i := 0; i < n; i++ {
		g := &gen{r: r}
		var x *re
		forceAlpha := ""
		if r.Intn(8) == 0 {
			// all-literal pattern: the literal fast paths (equal / prefix / suffix / substring)
			x = &re{kind: "chr", c: litChars[r.Intn(4)]}
			for k := r.Intn(3); k > 0; k-- {
				x = &re{kind: "seq", a: x, b: &re{kind: "chr", c: litChars[r.Intn(4)]}}
			}
			t.Count("shape:all-literal")
		} else if r.Intn(8) == 0 {
			x, forceAlpha = g.overlap()
			t.Count("shape:overlapping-first-characters")
		} else {
			x = g.gen(2 + r.Intn(3))
		}
		// anchors only at the ends of the whole pattern (a quantified anchor differs from Go by design)
		switch r.Intn(10) {
		case 0, 1:
			x = &re{kind: "seq", a: &re{kind: "bol"}, b: x}
		case 2, 3, 4:
			x = &re{kind: "seq", a: &re{kind: "bos"}, b: x}
			t.Count("anchor:\\A")
		}
		switch r.Intn(10) {
		case 0, 1:
			x = &re{kind: "seq", a: x, b: &re{kind: "eol"}}
		case 2, 3:
			x = &re{kind: "seq", a: x, b: &re{kind: "eos"}}
			t.Count("anchor:\\Z")
		}
		ng := 0
		number(x, &ng)
		if ng > 9 {
			t.Count("skipped:more-than-9-groups")
			continue
		}
		var sb strings.Builder
		x.src(&sb)
		pat := sb.String()
		ic := r.Intn(4) == 0
		icp, icf := "", "0"
		if ic {
			icp, icf = "(?i)", "1"
			t.Count("flag:(?i)")
		}
		alphabet := "abcx1 \n"
		withCR := false
		switch r.Intn(6) {
		case 0:
			alphabet = "abc\r\n1"
			withCR = true
		case 1:
			// bytes >= 0x80: Go works on runes, so only the Lean matcher is the reference here
			alphabet = "ab\x80\xe9\xffz"
			withCR = true
			t.Count("subject:high-bytes")
		case 2:
			alphabet = "abzZAB"
		case 3:
			alphabet = "ab"
		}
		if forceAlpha != "" && !withCR && r.Intn(4) != 0 {
			alphabet = forceAlpha
		}
		ln := r.Intn(8)
		if forceAlpha != "" {
			ln = r.Intn(4)
		}
		subj := make([]byte, ln)
		for j := range subj {
			subj[j] = alphabet[r.Intn(len(alphabet))]
		}
		s := string(subj)

		var cap regex.Captures
		var p regex.Pattern
		matched := false
		start := time.Now()
		msg := lib.Catch(func() {
			p = regex.Compile(icp + pat)
			matched = p.Match(s, &cap)
		})
		el := time.Since(start)
		if msg != "" {
			t.Fail("regex-panic", fmt.Sprintf("pattern %q subject %q: %s", icp+pat, s, msg))
			continue
		}
		if el > 5*time.Second {
			t.Fail("regex-slow", fmt.Sprintf("pattern %q subject %q took %v", icp+pat, s, el))
		}
		out := capString(matched, &cap, ng)
		if matched {
			t.Count("outcome:match")
		} else {
			t.Count("outcome:no-match")
		}
		t.Count(fmt.Sprintf("groups=%d", ng))
		t.Count(fmt.Sprintf("subject-len=%d", ln))

		// the other entry points: FirstMatch(s, pos), LastMatch(s, pos), All(s)
		pos := r.Intn(ln + 1)
		var firstOut, lastOut, allOut string
		msg = lib.Catch(func() {
			var c2 regex.Captures
			firstOut = capString(p.FirstMatch(s, pos, &c2), &c2, ng)
			var c3 regex.Captures
			lastOut = capString(p.LastMatch(s, pos, &c3), &c3, ng)
			var spans []string
			cnt := 0
			for c := range p.All(s) {
				spans = append(spans, fmt.Sprintf("%d:%d", c[0], c[1]))
				if cnt++; cnt > 50 {
					spans = append(spans, "runaway")
					break
				}
			}
			allOut = "-"
			if len(spans) > 0 {
				allOut = strings.Join(spans, " ")
			}
		})
		if msg != "" {
			t.Fail("regex-panic", fmt.Sprintf("pattern %q subject %q FirstMatch/LastMatch/All at %d: %s", icp+pat, s, pos, msg))
			continue
		}

		// direct oracle: Go regexp (multi-line as Suneido's default, \Z spelled \z; subjects without \r)
		if !withCR {
			gpat := strings.ReplaceAll(pat, `\Z`, `\z`)
			gp, err := regexp.Compile("(?m)" + icp + gpat)
			if err != nil {
				t.Fail("generator-invalid-pattern", pat+": "+err.Error())
				continue
			}
			m2 := gp.FindStringSubmatchIndex(s)
			gout := "-"
			if m2 != nil {
				parts := []string{}
				for _, v := range m2 {
					parts = append(parts, fmt.Sprint(v))
				}
				gout = strings.Join(parts, " ")
			}
			if gout != out {
				t.Fail(sigFor("regex-differs-from-reference", x, out, gout), fmt.Sprintf("pattern %q subject %q: suneido [%s] go [%s]", icp+pat, s, out, gout))
			}
			ref := &goRef{pat: icp + gpat, cache: map[int]*regexp.Regexp{}}
			if g1 := ref.first(s, pos, ng); g1 != firstOut {
				t.Fail(sigFor("regex-firstmatch-differs-from-reference", x, firstOut, g1), fmt.Sprintf("pattern %q subject %q FirstMatch from %d: suneido [%s] reference [%s]", icp+pat, s, pos, firstOut, g1))
			}
			if g2 := ref.last(s, pos, ng); g2 != lastOut {
				t.Fail(sigFor("regex-lastmatch-differs-from-reference", x, lastOut, g2), fmt.Sprintf("pattern %q subject %q LastMatch from %d: suneido [%s] reference [%s]", icp+pat, s, pos, lastOut, g2))
			}
			var spans []string
			for k := 0; k <= len(s); {
				m := ref.first(s, k, 0)
				if m == "-" {
					break
				}
				var a, b int
				fmt.Sscanf(m, "%d %d", &a, &b)
				spans = append(spans, fmt.Sprintf("%d:%d", a, b))
				k = max(b, a+1)
			}
			gall := "-"
			if len(spans) > 0 {
				gall = strings.Join(spans, " ")
			}
			if gall != allOut {
				t.Fail("regex-all-differs-from-reference", fmt.Sprintf("pattern %q subject %q All: suneido [%s] reference [%s]", icp+pat, s, allOut, gall))
			}
			t.Count("oracle:go-regexp")
		}
		if nullableLoop(x) {
			t.Count("model:skipped-nullable-loop-body")
			continue
		}
		var lb strings.Builder
		x.lean(&lb)
		t.Q(fmt.Sprintf("match %s %d %s %s", icf, ng, lib.X(s), lb.String()), out)
		t.Q(fmt.Sprintf("first %s %d %d %s %s", icf, ng, pos, lib.X(s), lb.String()), firstOut)
		t.Q(fmt.Sprintf("last %s %d %d %s %s", icf, ng, pos, lib.X(s), lb.String()), lastOut)
		t.Q(fmt.Sprintf("all %s %s %s", icf, lib.X(s), lb.String()), allOut)
		if i < 4 {
			t.Sample(fmt.Sprintf("%q on %q => %s", icp+pat, s, out))
		}
	}
}
