// C37 correspondence suite: util/regex against (a) the Lean matcher Gsu.Model.LangRegex (Q lines:
// pattern AST + subject -> match span + captures) and (b) Go's regexp as direct oracle (F lines),
// on generated patterns of the common subset x short subjects, with a time bound per match.
package main

import (
	"fmt"
	"math/rand"
	"regexp"
	"strings"
	"time"

	"github.com/apmckinlay/gsuneido/util/regex"
	"verif/harness/lib"
)

type re struct {
	kind   string // chr any cls bol eol seq alt star plus opt group
	c      byte
	neg    bool
	ranges [][2]byte
	text   string // class source text
	greedy bool
	n      int
	a, b   *re
}

type gen struct {
	r       *rand.Rand
	ngroups int
}

var classes = []re{
	{kind: "cls", text: "[ab]", ranges: [][2]byte{{'a', 'a'}, {'b', 'b'}}},
	{kind: "cls", text: "[^a]", neg: true, ranges: [][2]byte{{'a', 'a'}}},
	{kind: "cls", text: "[a-c]", ranges: [][2]byte{{'a', 'c'}}},
	{kind: "cls", text: "[^b-x]", neg: true, ranges: [][2]byte{{'b', 'x'}}},
	{kind: "cls", text: `\d`, ranges: [][2]byte{{'0', '9'}}},
	{kind: "cls", text: `\w`, ranges: [][2]byte{{'_', '_'}, {'0', '9'}, {'a', 'z'}, {'A', 'Z'}}},
	{kind: "cls", text: `\s`, ranges: [][2]byte{{' ', ' '}, {'\t', '\t'}, {'\r', '\r'}, {'\n', '\n'}}},
	{kind: "cls", text: `\D`, neg: true, ranges: [][2]byte{{'0', '9'}}},
}

func (g *gen) atom() *re {
	switch k := g.r.Intn(10); {
	case k < 5:
		return &re{kind: "chr", c: "abcx1"[g.r.Intn(5)]}
	case k < 6:
		return &re{kind: "any"}
	default:
		c := classes[g.r.Intn(len(classes))]
		return &c
	}
}

func (g *gen) group(x *re) *re {
	g.ngroups++
	// the group number is the order of its opening parenthesis: assigned by number() afterwards
	return &re{kind: "group", a: x}
}

func (g *gen) gen(depth int) *re {
	if depth <= 0 || g.r.Intn(3) == 0 {
		return g.atom()
	}
	switch g.r.Intn(8) {
	case 0, 1:
		return &re{kind: "seq", a: g.gen(depth - 1), b: g.gen(depth - 1)}
	case 2:
		return g.group(g.gen(depth - 1))
	case 3:
		return g.group(&re{kind: "alt", a: g.gen(depth - 1), b: g.gen(depth - 1)})
	case 4, 5:
		q := []string{"star", "plus", "opt"}[g.r.Intn(3)]
		return &re{kind: q, greedy: g.r.Intn(3) != 0, a: g.group(g.gen(depth - 1))}
	default:
		q := []string{"star", "plus", "opt"}[g.r.Intn(3)]
		return &re{kind: q, greedy: g.r.Intn(3) != 0, a: g.atom()}
	}
}

func number(x *re, n *int) {
	if x == nil {
		return
	}
	if x.kind == "group" {
		*n++
		x.n = *n
	}
	number(x.a, n)
	number(x.b, n)
}

func nullable(x *re) bool {
	switch x.kind {
	case "chr", "any", "cls":
		return false
	case "bol", "eol", "star", "opt":
		return true
	case "seq":
		return nullable(x.a) && nullable(x.b)
	case "alt":
		return nullable(x.a) || nullable(x.b)
	case "plus", "group":
		return nullable(x.a)
	}
	return false
}

func nullableLoop(x *re) bool {
	if x == nil {
		return false
	}
	if (x.kind == "star" || x.kind == "plus") && nullable(x.a) {
		return true
	}
	return nullableLoop(x.a) || nullableLoop(x.b)
}

func (x *re) src(sb *strings.Builder) {
	switch x.kind {
	case "chr":
		sb.WriteByte(x.c)
	case "any":
		sb.WriteByte('.')
	case "cls":
		sb.WriteString(x.text)
	case "bol":
		sb.WriteByte('^')
	case "eol":
		sb.WriteByte('$')
	case "seq":
		x.a.src(sb)
		x.b.src(sb)
	case "alt":
		x.a.src(sb)
		sb.WriteByte('|')
		x.b.src(sb)
	case "group":
		sb.WriteByte('(')
		x.a.src(sb)
		sb.WriteByte(')')
	case "star", "plus", "opt":
		x.a.src(sb)
		sb.WriteString(map[string]string{"star": "*", "plus": "+", "opt": "?"}[x.kind])
		if !x.greedy {
			sb.WriteByte('?')
		}
	}
}

func b01(b bool) string {
	if b {
		return "1"
	}
	return "0"
}

func (x *re) lean(sb *strings.Builder) {
	switch x.kind {
	case "chr":
		fmt.Fprintf(sb, "c%d", x.c)
	case "any":
		sb.WriteString(".")
	case "bol":
		sb.WriteString("^")
	case "eol":
		sb.WriteString("$")
	case "cls":
		fmt.Fprintf(sb, "( k %s %d", b01(x.neg), len(x.ranges))
		for _, r := range x.ranges {
			fmt.Fprintf(sb, " %d %d", r[0], r[1])
		}
		sb.WriteString(" )")
	case "seq", "alt":
		sb.WriteString("( " + map[string]string{"seq": "s", "alt": "a"}[x.kind] + " ")
		x.a.lean(sb)
		sb.WriteString(" ")
		x.b.lean(sb)
		sb.WriteString(" )")
	case "star", "plus", "opt":
		sb.WriteString("( " + map[string]string{"star": "*", "plus": "+", "opt": "?"}[x.kind] + " " + b01(x.greedy) + " ")
		x.a.lean(sb)
		sb.WriteString(" )")
	case "group":
		fmt.Fprintf(sb, "( g %d ", x.n)
		x.a.lean(sb)
		sb.WriteString(" )")
	}
}

func main() {
	t := lib.Open()
	defer t.Close()
	r := lib.Rand()
	n := lib.N(5000)
	for i := 0; i < n; i++ {
		g := &gen{r: r}
		x := g.gen(2 + r.Intn(3))
		// anchors only at the ends of the whole pattern (a quantified anchor differs from Go by design)
		if r.Intn(4) == 0 {
			x = &re{kind: "seq", a: &re{kind: "bol"}, b: x}
		}
		if r.Intn(4) == 0 {
			x = &re{kind: "seq", a: x, b: &re{kind: "eol"}}
		}
		ng := 0
		number(x, &ng)
		if ng > 9 {
			t.Count("skipped:more-than-9-groups")
			continue
		}
		var sb strings.Builder
		x.src(&sb)
		pat := sb.String()
		alphabet := "abcx1 \n"
		withCR := r.Intn(6) == 0
		if withCR {
			alphabet = "abc\r\n1"
		}
		ln := r.Intn(8)
		subj := make([]byte, ln)
		for j := range subj {
			subj[j] = alphabet[r.Intn(len(alphabet))]
		}
		s := string(subj)

		var cap regex.Captures
		for j := range cap {
			cap[j] = -1
		}
		matched := false
		start := time.Now()
		msg := lib.Catch(func() {
			p := regex.Compile(pat)
			matched = p.Match(s, &cap)
		})
		el := time.Since(start)
		if msg != "" {
			t.Fail("regex-panic", fmt.Sprintf("pattern %q subject %q: %s", pat, s, msg))
			continue
		}
		if el > 5*time.Second {
			t.Fail("regex-slow", fmt.Sprintf("pattern %q subject %q took %v", pat, s, el))
		}
		out := "-"
		if matched {
			parts := []string{fmt.Sprint(cap[0]), fmt.Sprint(cap[1])}
			for gi := 1; gi <= ng; gi++ {
				if cap[2*gi] < 0 {
					parts = append(parts, "-1", "-1")
				} else {
					parts = append(parts, fmt.Sprint(cap[2*gi]), fmt.Sprint(cap[2*gi+1]))
				}
			}
			out = strings.Join(parts, " ")
			t.Count("outcome:match")
		} else {
			t.Count("outcome:no-match")
		}
		t.Count(fmt.Sprintf("groups=%d", ng))
		t.Count(fmt.Sprintf("subject-len=%d", ln))
		// direct oracle: Go regexp (multi-line, as Suneido's default; subjects without \r)
		if !withCR {
			gp, err := regexp.Compile("(?m)" + pat)
			if err != nil {
				t.Fail("generator-invalid-pattern", pat+": "+err.Error())
				continue
			}
			m2 := gp.FindStringSubmatchIndex(s)
			gout := "-"
			if m2 != nil {
				parts := []string{}
				for _, v := range m2 {
					parts = append(parts, fmt.Sprint(v))
				}
				gout = strings.Join(parts, " ")
			}
			if gout != out {
				t.Fail("regex-differs-from-reference", fmt.Sprintf("pattern %q subject %q: suneido [%s] go [%s]", pat, s, out, gout))
			}
			t.Count("oracle:go-regexp")
		}
		if nullableLoop(x) {
			t.Count("model:skipped-nullable-loop-body")
			continue
		}
		var lb strings.Builder
		x.lean(&lb)
		t.Q(fmt.Sprintf("match %d %s %s", ng, lib.X(s), lb.String()), out)
		if i < 4 {
			t.Sample(fmt.Sprintf("%q on %q => %s", pat, s, out))
		}
	}
}
