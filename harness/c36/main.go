// C36 correspondence suite: SuObject / SuRecord container operations against the Lean container
// machine Gsu.Model.Container (driver drv_c36), plus direct oracles of the property on the
// implementation (map laws of Put/Erase/Add, list = maximal prefix of integer keys, size =
// members, Find, stable sort, Unique, read-only rejection, copy independence).
//
// Op lines (slot numbers 0..3, keys i<int> | s<text>, values k | k~t):
//
//	reset | new s | add s v | set s k v | ins s at v | del s k | erase s k | popf s | popl s
//	sort s | sortlt s | uniq s | rev s | clear s | ro s | get s k | has s k | find s v | size s
//	mem s | slice s d n | rto s d from to | rlen s d from n | dump s
package main

import (
	"fmt"
	"math/rand"
	"sort"
	"strconv"
	"strings"

	. "github.com/apmckinlay/gsuneido/core"
	"verif/harness/lib"
)

// ---- canonical keys and values

type key struct {
	v    Value
	text string // i<int> or s<text>
}

func intKey(i int) key { return key{IntVal(i), "i" + strconv.Itoa(i)} }

// dnumKey is an integer-valued decimal (a different Go type than IntVal, same key)
func dnumKey(i int) key { return key{NumFromString(strconv.Itoa(i) + ".0"), "i" + strconv.Itoa(i)} }

var otherKeys = []key{
	{SuStr("a"), "sa"}, {SuStr("b"), "sb"}, {SuStr("c"), "sc"},
	{SuStr("1"), "s1"}, {SuStr(""), "s"}, // strings that look like numbers / empty
	{NumFromString("1.5"), "sn1.5"}, {NumFromString("-.5"), "sn-.5"},
	{True, "s#true"},
}

func keyText(k Value) string {
	if i, ok := k.IfInt(); ok {
		return "i" + strconv.Itoa(i)
	}
	for _, o := range otherKeys {
		if o.v.Equal(k) && o.v.Type() == k.Type() {
			return o.text
		}
	}
	return "s?" + k.String()
}

type val struct{ k, t int }

func (v val) String() string {
	if v.t == 0 {
		return strconv.Itoa(v.k)
	}
	return fmt.Sprintf("%d~%d", v.k, v.t)
}

func mkVal(v val) Value {
	if v.t == 0 {
		return IntVal(v.k)
	}
	ob := SuObjectOf(IntVal(v.k))
	ob.Set(SuStr("t"), IntVal(v.t))
	return ob
}

func valText(x Value) string {
	if x == nil {
		return "-"
	}
	if c, ok := x.ToContainer(); ok {
		if c.ListSize() == 1 {
			if t := c.GetIfPresent(nil, SuStr("t")); t != nil {
				return fmt.Sprintf("%d~%d", ToInt(c.ListGet(0)), ToInt(t))
			}
		}
		return "?" + x.String()
	}
	if i, ok := x.IfInt(); ok {
		return strconv.Itoa(i)
	}
	return "?" + x.String()
}

func keyLess(a, b string) bool { // ints (numerically) before strings (bytewise)
	if a[0] != b[0] {
		return a[0] == 'i'
	}
	if a[0] == 'i' {
		x, _ := strconv.Atoi(a[1:])
		y, _ := strconv.Atoi(b[1:])
		return x < y
	}
	return a < b
}

// ---- observations of the implementation

func dump(c Container) string {
	var sb strings.Builder
	sb.WriteString("L[")
	n := c.ListSize()
	for i := 0; i < n; i++ {
		if i > 0 {
			sb.WriteByte(',')
		}
		sb.WriteString(valText(c.ListGet(i)))
	}
	sb.WriteString("] N{")
	var ks []string
	m := map[string]string{}
	it := c.Iter2(false, true)
	for k, v := it(); k != nil; k, v = it() {
		kt := keyText(k)
		ks = append(ks, kt)
		m[kt] = valText(v)
	}
	sort.Slice(ks, func(i, j int) bool { return keyLess(ks[i], ks[j]) })
	for i, k := range ks {
		if i > 0 {
			sb.WriteByte(',')
		}
		sb.WriteString(k + "=" + m[k])
	}
	sb.WriteString("} ")
	if c.IsReadOnly() {
		sb.WriteString("r")
	} else {
		sb.WriteString("w")
	}
	return sb.String()
}

func members(c Container) (list []string, named []string) {
	it := c.Iter2(true, false)
	for k, _ := it(); k != nil; k, _ = it() {
		list = append(list, keyText(k))
	}
	it = c.Iter2(false, true)
	for k, _ := it(); k != nil; k, _ = it() {
		named = append(named, keyText(k))
	}
	sort.Slice(named, func(i, j int) bool { return keyLess(named[i], named[j]) })
	return
}

// universe of keys the map-law oracles observe
var universe = func() []key {
	var u []key
	for i := -3; i <= 80; i++ {
		u = append(u, intKey(i))
	}
	u = append(u, intKey(1000), intKey(-1000), intKey(100), intKey(-5))
	u = append(u, otherKeys...)
	return u
}()

// snapshot is the observable map: key text -> value text for every key of the universe
func snapshot(c Container) map[string]string {
	m := map[string]string{}
	for _, k := range universe {
		if x := c.GetIfPresent(nil, k.v); x != nil {
			m[k.text] = valText(x)
		}
	}
	return m
}

func mapStr(m map[string]string) string {
	var ks []string
	for k := range m {
		ks = append(ks, k)
	}
	sort.Slice(ks, func(i, j int) bool { return keyLess(ks[i], ks[j]) })
	var sb strings.Builder
	for _, k := range ks {
		sb.WriteString(k + "=" + m[k] + " ")
	}
	return sb.String()
}

var inUniverse = func() map[string]bool {
	m := map[string]bool{}
	for _, k := range universe {
		m[k.text] = true
	}
	return m
}()

// sameMap compares an observed snapshot with the expected map restricted to the universe
func sameMap(a, b map[string]string) bool {
	for k := range b {
		if !inUniverse[k] {
			delete(b, k)
		}
	}
	if len(a) != len(b) {
		return false
	}
	for k, v := range a {
		if b[k] != v {
			return false
		}
	}
	return true
}

func clone(m map[string]string) map[string]string {
	r := map[string]string{}
	for k, v := range m {
		r[k] = v
	}
	return r
}

func outcome(msg string) string {
	switch {
	case msg == "":
		return ""
	case strings.Contains(msg, "readonly"):
		return "!readonly"
	default:
		return "!panic:" + strings.ReplaceAll(msg, " ", "_")
	}
}

// the Sort(lt) callable: descending by the leading integer
func ltDesc() Value {
	keyOf := func(x Value) int {
		if c, ok := x.ToContainer(); ok {
			return ToInt(c.ListGet(0))
		}
		return ToInt(x)
	}
	return &SuBuiltin2{Fn: func(x, y Value) Value { return SuBool(keyOf(x) > keyOf(y)) },
		BuiltinParams: BuiltinParams{ParamSpec: ParamSpec{Nparams: 2, Flags: []Flag{0, 0},
			Names: []string{"x", "y"}}}}
}

type suite struct {
	t     *lib.Trace
	r     *rand.Rand
	slots [4]Container
	isRec [4]bool
	th    *Thread
	hist  []string
}

func (s *suite) newSlot(i int, rec bool) {
	if rec {
		s.slots[i] = NewSuRecord()
	} else {
		s.slots[i] = &SuObject{}
	}
	s.isRec[i] = rec
}

func (s *suite) fail(sig, desc string) {
	h := s.hist
	if len(h) > 60 {
		h = h[len(h)-60:]
	}
	s.t.Fail(sig, desc+" | history: "+strings.Join(h, "; "))
}

func (s *suite) q(op, out string) {
	s.hist = append(s.hist, op+" -> "+out)
	s.t.Q(op, out)
}

func (s *suite) genKey(c Container) key {
	n := c.ListSize()
	switch s.r.Intn(12) {
	case 0, 1:
		return otherKeys[s.r.Intn(len(otherKeys))]
	case 2:
		return intKey(-1 - s.r.Intn(3))
	case 3:
		return dnumKey(n + s.r.Intn(3) - 1) // integer-valued decimal around the list size
	case 4:
		return intKey(n) // exactly the next list index
	case 5:
		return intKey(n + 1)
	case 6:
		return intKey(n + 2 + s.r.Intn(3))
	case 7:
		if n > 0 {
			return intKey(s.r.Intn(n))
		}
		return intKey(0)
	case 8:
		return intKey([]int{1000, -1000}[s.r.Intn(2)])
	default:
		return intKey(s.r.Intn(12))
	}
}

func (s *suite) genVal() val {
	v := val{k: s.r.Intn(6)}
	if s.r.Intn(3) == 0 {
		v.t = 1 + s.r.Intn(3)
	}
	return v
}

// listVals returns the list part as text
func listVals(c Container) []string {
	n := c.ListSize()
	l := make([]string, n)
	for i := range l {
		l[i] = valText(c.ListGet(i))
	}
	return l
}

func parseVal(s string) val {
	var v val
	if i := strings.IndexByte(s, '~'); i >= 0 {
		v.k, _ = strconv.Atoi(s[:i])
		v.t, _ = strconv.Atoi(s[i+1:])
	} else {
		v.k, _ = strconv.Atoi(s)
	}
	return v
}

// cmpVal is the specification of Value.Compare on the canonical values
func cmpVal(a, b val) int {
	switch {
	case a.t == 0 && b.t != 0:
		return -1
	case a.t != 0 && b.t == 0:
		return 1
	case a.k < b.k:
		return -1
	case a.k > b.k:
		return 1
	}
	return 0
}

// checkInvariants: oracles that hold in every state
func (s *suite) checkInvariants(i int) {
	c := s.slots[i]
	n := c.ListSize()
	// the list is the maximal prefix of integer keys: 0..n-1 present, n absent
	for j := 0; j < n; j++ {
		if c.GetIfPresent(nil, IntVal(j)) == nil || !c.HasKey(IntVal(j)) {
			s.fail("list-prefix", fmt.Sprintf("list index %d of %d not present", j, n))
		}
	}
	if c.GetIfPresent(nil, IntVal(n)) != nil || c.HasKey(IntVal(n)) {
		s.fail("migrate", fmt.Sprintf("key %d == ListSize is present as a named member (not migrated): %s", n, dump(c)))
	}
	list, named := members(c)
	if len(list) != n {
		s.fail("members-list", fmt.Sprintf("Iter2(list) yields %d keys, ListSize %d", len(list), n))
	}
	size := c.ToObject().Size()
	if size != n+c.NamedSize() || size != len(list)+len(named) {
		s.fail("size", fmt.Sprintf("Size %d ListSize %d NamedSize %d members %d+%d", size, n, c.NamedSize(), len(list), len(named)))
	}
	seen := map[string]bool{}
	for _, k := range append(list, named...) {
		if seen[k] {
			s.fail("members-dup", "member "+k+" listed twice: "+dump(c))
		}
		seen[k] = true
	}
	it := c.Iter2(true, true)
	for k, v := it(); k != nil; k, v = it() {
		g := c.GetIfPresent(nil, k)
		if g == nil || !g.Equal(v) || !c.HasKey(k) {
			s.fail("members-get", "member "+keyText(k)+" iterated but Get differs: "+dump(c))
		}
	}
}

func (s *suite) others(i int) [4]string {
	var d [4]string
	for j := range s.slots {
		if j != i {
			d[j] = dump(s.slots[j])
		}
	}
	return d
}

func (s *suite) checkOthers(i int, before [4]string, op string) {
	for j := range s.slots {
		if j != i && dump(s.slots[j]) != before[j] {
			s.fail("copy-aliasing", fmt.Sprintf("%s on slot %d changed slot %d from %s to %s", op, i, j, before[j], dump(s.slots[j])))
		}
	}
}

// mutate performs one mutating op on slot i with the direct oracles around it
func (s *suite) mutate(i int) {
	c := s.slots[i]
	ob := c.ToObject()
	ro := c.IsReadOnly()
	before := snapshot(c)
	dumpBefore := dump(c)
	othersBefore := s.others(i)
	nBefore := c.ListSize()
	listBefore := listVals(c)
	var op, out string
	expect := map[string]string(nil) // expected snapshot if the op is a pure map update
	kind := s.r.Intn(100)
	if !ro && s.r.Intn(25) == 0 {
		s.fillAndSort(i)
		return
	}
	switch {
	case kind < 14:
		v := s.genVal()
		op = fmt.Sprintf("add %d %s", i, v)
		out = outcome(lib.Catch(func() { c.Add(mkVal(v)) }))
		expect = clone(before)
		expect["i"+strconv.Itoa(nBefore)] = v.String()
		s.t.Count("op=add")
	case kind < 36:
		k, v := s.genKey(c), s.genVal()
		op = fmt.Sprintf("set %d %s %s", i, k.text, v)
		out = outcome(lib.Catch(func() { c.Put(nil, k.v, mkVal(v)) }))
		expect = clone(before)
		expect[k.text] = v.String()
		s.t.Count("op=set")
		s.countKey(k, nBefore)
	case kind < 46:
		at := s.r.Intn(nBefore+4) - 1
		if s.r.Intn(10) == 0 {
			at = []int{-5, 100}[s.r.Intn(2)]
		}
		v := s.genVal()
		op = fmt.Sprintf("ins %d %d %s", i, at, v)
		out = outcome(lib.Catch(func() { c.Insert(at, mkVal(v)) }))
		if at < 0 || at > nBefore {
			expect = clone(before)
			expect["i"+strconv.Itoa(at)] = v.String()
			s.t.Count("op=insert-outside")
		} else {
			// list insert: members at and after `at` move up by one; the old list size
			// becomes a list index, so nothing else is visible through the map
			expect = clone(before)
			for j := nBefore; j > at; j-- {
				expect["i"+strconv.Itoa(j)] = listBefore[j-1]
			}
			expect["i"+strconv.Itoa(at)] = v.String()
			s.t.Count("op=insert-inside")
		}
	case kind < 58:
		k := s.genKey(c)
		op = fmt.Sprintf("del %d %s", i, k.text)
		var res bool
		out = outcome(lib.Catch(func() { res = c.Delete(nil, k.v) }))
		if out == "" {
			out = lib.B(res)
			_, had := before[k.text]
			if res != had {
				s.fail("delete-result", fmt.Sprintf("%s returned %v but key present=%v in %s", op, res, had, dumpBefore))
			}
		}
		if ii, ok := k.v.IfInt(); !ok || ii < 0 || ii >= nBefore {
			expect = clone(before)
			delete(expect, k.text)
		} else {
			// list delete: following list members move down, named members stay
			expect = clone(before)
			for j := ii; j < nBefore-1; j++ {
				expect["i"+strconv.Itoa(j)] = listBefore[j+1]
			}
			delete(expect, "i"+strconv.Itoa(nBefore-1))
		}
		s.t.Count("op=delete")
		s.countKey(k, nBefore)
	case kind < 68:
		k := s.genKey(c)
		op = fmt.Sprintf("erase %d %s", i, k.text)
		var res bool
		out = outcome(lib.Catch(func() { res = c.Erase(nil, k.v) }))
		if out == "" {
			out = lib.B(res)
			_, had := before[k.text]
			if res != had {
				s.fail("erase-result", fmt.Sprintf("%s returned %v but key present=%v in %s", op, res, had, dumpBefore))
			}
		}
		expect = clone(before) // erase is the pure map delete for every key
		delete(expect, k.text)
		s.t.Count("op=erase")
		s.countKey(k, nBefore)
	case kind < 72:
		op = fmt.Sprintf("popf %d", i)
		var x Value
		out = outcome(lib.Catch(func() { x = ob.PopFirst() }))
		if out == "" {
			out = valText(x)
		}
		s.t.Count("op=popfirst")
	case kind < 76:
		op = fmt.Sprintf("popl %d", i)
		var x Value
		out = outcome(lib.Catch(func() { x = ob.PopLast() }))
		if out == "" {
			out = valText(x)
		}
		s.t.Count("op=poplast")
	case kind < 83:
		if s.r.Intn(3) == 0 {
			op = fmt.Sprintf("sortlt %d", i)
			out = outcome(lib.Catch(func() { ob.Sort(s.th, ltDesc()) }))
			if out == "" {
				s.checkSorted(c, listBefore, func(a, b val) int { return b.k - a.k }, op)
			}
			s.t.Count("op=sort-lt")
		} else {
			op = fmt.Sprintf("sort %d", i)
			out = outcome(lib.Catch(func() { ob.Sort(nil, False) }))
			if out == "" {
				s.checkSorted(c, listBefore, cmpVal, op)
			}
			s.t.Count("op=sort")
		}
	case kind < 88:
		op = fmt.Sprintf("uniq %d", i)
		out = outcome(lib.Catch(func() { ob.Unique() }))
		if out == "" {
			s.checkUnique(c, listBefore, op)
		}
		s.t.Count("op=unique")
	case kind < 91:
		op = fmt.Sprintf("rev %d", i)
		out = outcome(lib.Catch(func() { ob.Reverse() }))
		if out == "" {
			l := listVals(c)
			for j := range l {
				if len(l) != len(listBefore) || l[j] != listBefore[len(l)-1-j] {
					s.fail("reverse", fmt.Sprintf("%s: %v -> %v", op, listBefore, l))
					break
				}
			}
		}
		s.t.Count("op=reverse")
	case kind < 93:
		op = fmt.Sprintf("clear %d", i)
		out = outcome(lib.Catch(func() { c.DeleteAll() }))
		expect = map[string]string{}
		s.t.Count("op=deleteall")
	case kind < 96:
		op = fmt.Sprintf("ro %d", i)
		out = outcome(lib.Catch(func() { c.SetReadOnly() }))
		expect = clone(before)
		ro = false // SetReadOnly itself is allowed
		s.t.Count("op=setreadonly")
	default:
		// copy / slice / range into another slot
		d := (i + 1 + s.r.Intn(3)) % 4
		switch s.r.Intn(4) {
		case 0:
			n := s.r.Intn(nBefore + 2)
			op = fmt.Sprintf("slice %d %d %d", i, d, n)
			out = outcome(lib.Catch(func() { s.slots[d] = c.Slice(n); s.isRec[d] = s.isRec[i] }))
			s.t.Count("op=slice")
		case 1:
			op = fmt.Sprintf("slice %d %d 0", i, d)
			out = outcome(lib.Catch(func() { s.slots[d] = c.Copy(); s.isRec[d] = s.isRec[i] }))
			s.t.Count("op=copy")
		case 2:
			f, t := s.r.Intn(2*nBefore+5)-nBefore-2, s.r.Intn(2*nBefore+5)-nBefore-2
			op = fmt.Sprintf("rto %d %d %d %d", i, d, f, t)
			out = outcome(lib.Catch(func() { s.slots[d] = ob.RangeTo(f, t).(Container); s.isRec[d] = false }))
			s.checkRange(s.slots[d], listBefore, f, t, true, op)
			s.t.Count("op=rangeto")
		default:
			f, n := s.r.Intn(2*nBefore+5)-nBefore-2, s.r.Intn(nBefore+4)-1
			op = fmt.Sprintf("rlen %d %d %d %d", i, d, f, n)
			out = outcome(lib.Catch(func() { s.slots[d] = ob.RangeLen(f, n).(Container); s.isRec[d] = false }))
			s.checkRange(s.slots[d], listBefore, f, n, false, op)
			s.t.Count("op=rangelen")
		}
		if out == "" {
			out = "ok"
		}
		s.q(op, out)
		if dump(c) != dumpBefore {
			s.fail("copy-mutates-source", op+" changed the source from "+dumpBefore+" to "+dump(c))
		}
		s.q(fmt.Sprintf("dump %d", d), dump(s.slots[d]))
		s.checkInvariants(d)
		return
	}
	if out == "" {
		out = "ok"
	}
	s.q(op, out)
	after := snapshot(c)
	// read-only objects reject every mutation: error and no change
	if ro {
		emptyPop := (strings.HasPrefix(op, "popf") || strings.HasPrefix(op, "popl")) && nBefore == 0
		if !emptyPop && out != "!readonly" {
			s.fail("readonly-accepts", op+" on a read-only container answered "+out)
		}
		if dump(c) != dumpBefore {
			s.fail("readonly-mutated", op+" changed a read-only container from "+dumpBefore+" to "+dump(c))
		}
		s.t.Count("readonly-attempt")
	} else if strings.HasPrefix(out, "!") {
		s.fail("unexpected-error", op+" on "+dumpBefore+" answered "+out)
	} else if expect != nil && !sameMap(after, expect) {
		sig := strings.Fields(op)[0]
		s.fail("maplaw-"+sig, fmt.Sprintf("%s on %s: observable map is {%s} expected {%s}", op, dumpBefore, mapStr(after), mapStr(expect)))
	}
	s.checkOthers(i, othersBefore, op)
	s.checkInvariants(i)
	s.q(fmt.Sprintf("dump %d", i), dump(c))
}

// fillAndSort grows the list to 13-60 members drawn from few comparison classes with many
// distinguishable ties (tagged values that compare equal but are not Equal) and sorts it, with
// the default comparison or with the lt callable. Go's unstable pdqsort is an insertion sort
// (stable) up to 12 elements, so stability is only observable on longer lists.
func (s *suite) fillAndSort(i int) {
	c := s.slots[i]
	ob := c.ToObject()
	target := 13 + s.r.Intn(48)
	classes := 1 + s.r.Intn(4)
	for c.ListSize() < target {
		v := val{k: s.r.Intn(classes), t: 1 + s.r.Intn(9)}
		if s.r.Intn(6) == 0 {
			v.t = 0
		}
		op := fmt.Sprintf("add %d %s", i, v)
		out := outcome(lib.Catch(func() { c.Add(mkVal(v)) }))
		if out == "" {
			out = "ok"
		}
		s.q(op, out)
	}
	s.q(fmt.Sprintf("dump %d", i), dump(c))
	listBefore := listVals(c)
	var op, out string
	if s.r.Intn(3) == 0 {
		op = fmt.Sprintf("sortlt %d", i)
		out = outcome(lib.Catch(func() { ob.Sort(s.th, ltDesc()) }))
		if out == "" {
			s.checkSorted(c, listBefore, func(a, b val) int { return b.k - a.k }, op)
		}
		s.t.Count("op=fill+sort-lt")
	} else {
		op = fmt.Sprintf("sort %d", i)
		out = outcome(lib.Catch(func() { ob.Sort(nil, False) }))
		if out == "" {
			s.checkSorted(c, listBefore, cmpVal, op)
		}
		s.t.Count("op=fill+sort")
	}
	if out == "" {
		out = "ok"
	}
	s.q(op, out)
	s.t.Count(fmt.Sprintf("sorted-list-size>12"))
	s.checkInvariants(i)
	s.q(fmt.Sprintf("dump %d", i), dump(c))
}

func (s *suite) countKey(k key, n int) {
	if i, ok := k.v.IfInt(); ok {
		switch {
		case i < 0:
			s.t.Count("key=negative")
		case i < n:
			s.t.Count("key=in-list")
		case i == n:
			s.t.Count("key=at-size")
		default:
			s.t.Count("key=beyond-size")
		}
		if _, isDnum := k.v.(SuDnum); isDnum {
			s.t.Count("key=integer-valued-decimal")
		}
	} else {
		s.t.Count("key=non-integer")
	}
}

func (s *suite) checkSorted(c Container, before []string, cmp func(a, b val) int, op string) {
	l := listVals(c)
	if len(l) != len(before) {
		s.fail("sort-perm", fmt.Sprintf("%s: %v -> %v", op, before, l))
		return
	}
	cnt := map[string]int{}
	for _, x := range before {
		cnt[x]++
	}
	for _, x := range l {
		cnt[x]--
	}
	for _, n := range cnt {
		if n != 0 {
			s.fail("sort-perm", fmt.Sprintf("%s: %v -> %v is not a permutation", op, before, l))
			return
		}
	}
	for j := 1; j < len(l); j++ {
		if cmp(parseVal(l[j-1]), parseVal(l[j])) > 0 {
			s.fail("sort-order", fmt.Sprintf("%s: %v -> %v not ordered at %d", op, before, l, j))
			return
		}
	}
	// stable: elements that compare equal keep their relative order
	for _, x := range l {
		var a, b []string
		for _, y := range before {
			if cmp(parseVal(x), parseVal(y)) == 0 {
				a = append(a, y)
			}
		}
		for _, y := range l {
			if cmp(parseVal(x), parseVal(y)) == 0 {
				b = append(b, y)
			}
		}
		if strings.Join(a, ",") != strings.Join(b, ",") {
			s.fail("sort-stable", fmt.Sprintf("%s: %v -> %v: equal elements reordered (%v -> %v)", op, before, l, a, b))
			return
		}
		if len(a) > 1 {
			s.t.Count("sort-with-ties")
		}
	}
}

func (s *suite) checkUnique(c Container, before []string, op string) {
	l := listVals(c)
	var exp []string
	for j, x := range before {
		if j == 0 || x != before[j-1] {
			exp = append(exp, x)
		}
	}
	if strings.Join(l, ",") != strings.Join(exp, ",") {
		s.fail("unique", fmt.Sprintf("%s: %v -> %v expected %v", op, before, l, exp))
	}
}

// checkRange: the specification of ob[from..to] / ob[from::n] on the list
func (s *suite) checkRange(res Container, list []string, f, x int, isTo bool, op string) {
	n := len(list)
	from := f
	if from < 0 {
		from += n
		if from < 0 {
			from = 0
		}
	}
	if from > n {
		from = n
	}
	var to int
	if isTo {
		to = x
		if to < 0 {
			to += n
		}
	} else {
		if x < 0 {
			x = 0
		}
		to = from + x
	}
	if to < from {
		to = from
	}
	if to > n {
		to = n
	}
	exp := list[from:to]
	got := listVals(res)
	if strings.Join(got, ",") != strings.Join(exp, ",") || res.NamedSize() != 0 {
		s.fail("range", fmt.Sprintf("%s of %v: got %s expected %v", op, list, dump(res), exp))
	}
}

func (s *suite) query(i int) {
	c := s.slots[i]
	switch s.r.Intn(5) {
	case 0, 1:
		k := s.genKey(c)
		s.q(fmt.Sprintf("get %d %s", i, k.text), valText(c.GetIfPresent(nil, k.v)))
		s.q(fmt.Sprintf("has %d %s", i, k.text), lib.B(c.HasKey(k.v)))
		s.t.Count("op=get")
	case 2:
		v := s.genVal()
		res := c.ToObject().Find(mkVal(v))
		out := "f"
		if res != False {
			out = keyText(res)
			g := c.GetIfPresent(nil, res)
			if g == nil || valText(g) != v.String() {
				s.fail("find-wrong", fmt.Sprintf("find %s in %s returned %s", v, dump(c), out))
			}
			if ii, ok := res.IfInt(); ok && ii < c.ListSize() {
				for j := 0; j < ii; j++ {
					if valText(c.ListGet(j)) == v.String() {
						s.fail("find-not-first", fmt.Sprintf("find %s in %s returned %s", v, dump(c), out))
					}
				}
			}
			if out[0] != 'i' || func() bool { ii, _ := res.IfInt(); return ii >= c.ListSize() || ii < 0 }() {
				// a named member: which one is found depends on the hash order when several
				// hold the value; the model returns the first in its own order. Only replay
				// when the value occurs once among the named members.
				cnt := 0
				it := c.Iter2(false, true)
				for k, x := it(); k != nil; k, x = it() {
					if valText(x) == v.String() {
						cnt++
					}
				}
				if cnt > 1 {
					s.t.Count("find-ambiguous-skipped")
					return
				}
			}
		} else {
			it := c.Iter2(true, true)
			for k, x := it(); k != nil; k, x = it() {
				if valText(x) == v.String() {
					s.fail("find-missed", fmt.Sprintf("find %s in %s returned false", v, dump(c)))
				}
			}
		}
		s.q(fmt.Sprintf("find %d %s", i, v), out)
		s.t.Count("op=find")
	case 3:
		s.q(fmt.Sprintf("size %d", i), fmt.Sprintf("%d %d %d", c.ToObject().Size(), c.ListSize(), c.NamedSize()))
		s.t.Count("op=size")
	default:
		list, named := members(c)
		all := append(list, named...)
		out := "-"
		if len(all) > 0 {
			out = strings.Join(all, ",")
		}
		s.q(fmt.Sprintf("mem %d", i), out)
		s.t.Count("op=members")
	}
}

func main() {
	t := lib.Open()
	defer t.Close()
	s := &suite{t: t, r: lib.Rand(), th: NewThread(nil)}
	n := lib.N(2000)
	for h := 0; h < n; h++ {
		s.hist = s.hist[:0]
		s.q("reset", "ok")
		rec := s.r.Intn(3) == 0
		for i := range s.slots {
			s.newSlot(i, rec)
		}
		if rec {
			t.Count("history=record")
		} else {
			t.Count("history=object")
		}
		steps := 10 + s.r.Intn(40)
		for st := 0; st < steps; st++ {
			i := 0
			if s.r.Intn(4) == 0 {
				i = s.r.Intn(4)
			}
			if s.r.Intn(4) == 0 {
				s.query(i)
			} else {
				s.mutate(i)
			}
		}
		if h < 2 {
			t.Sample(strings.Join(s.hist, "; "))
		}
	}
}
