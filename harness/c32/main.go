// C32 correspondence suite (external): byte strings (grammar-directed mutations, truncations,
// unbalanced brackets, stray bytes, literal-focused streams) through
//   - lexer.NewLexer / NewQueryLexer: the whole token stream (token kind, position, Item.Text)
//     is replayed by the Lean mirror Gsu.Model.Lexer; direct oracles: positions strictly
//     increase from 0, the last item is Eof at len(src), source-text tokens equal their span
//     (the spans tile the input), a String token is a closed literal;
//   - compile.Constant (code parser): outcome class only — a value, or a panic carrying a
//     message (syntax error / compile error); never a Go runtime error, bounded time.
package main

import (
	"fmt"
	"os"
	"runtime"
	"strings"
	"time"

	"github.com/apmckinlay/gsuneido/compile"
	"github.com/apmckinlay/gsuneido/compile/lexer"
	tok "github.com/apmckinlay/gsuneido/compile/tokens"
	"verif/harness/lib"
)

type item struct {
	tok  tok.Token
	pos  int
	text string
}

func lexAll(lx *lexer.Lexer, n int) (items []item, looped bool) {
	for k := 0; ; k++ {
		it := lx.Next()
		items = append(items, item{it.Token, int(it.Pos), it.Text})
		if it.Token == tok.Eof {
			return items, false
		}
		if k > n+5 {
			return items, true
		}
	}
}

func show(items []item) string {
	var sb strings.Builder
	for i, it := range items {
		if i > 0 {
			sb.WriteByte(' ')
		}
		fmt.Fprintf(&sb, "%s@%d:%s", it.tok.String(), it.pos, lib.X(it.text))
	}
	return sb.String()
}

// textOK: Item.Text against the source span of the token
func textOK(t tok.Token, text, span string) bool {
	switch t {
	case tok.Error, tok.String:
		return true // message or unescaped value; String is checked separately
	case tok.Identifier:
		return text == span || (span == "_" && text == "unused")
	case tok.Number:
		return text == strings.ReplaceAll(span, "_", "")
	case tok.Symbol:
		return "#"+text == span
	}
	return text == span // whitespace, comments, punctuation, operators, keywords
}

func checkStream(t *lib.Trace, kind, src string, items []item, looped bool) {
	if looped {
		t.Fail("lexer-no-eof", fmt.Sprintf("%s lexer on %q: no Eof after %d items", kind, src, len(items)))
		return
	}
	prev := -1
	for i, it := range items {
		if it.pos <= prev && !(it.tok == tok.Eof && i == 0) {
			t.Fail("lexer-position-not-increasing", fmt.Sprintf("%s lexer on %q: item %d %s at %d after %d",
				kind, src, i, it.tok, it.pos, prev))
			return
		}
		if i == 0 && it.pos != 0 {
			t.Fail("lexer-tiling", fmt.Sprintf("%s lexer on %q: first item at %d", kind, src, it.pos))
			return
		}
		prev = it.pos
		if it.tok == tok.Eof {
			if it.pos != len(src) {
				t.Fail("lexer-tiling", fmt.Sprintf("%s lexer on %q: Eof at %d, len %d", kind, src, it.pos, len(src)))
			}
			break
		}
		end := items[i+1].pos
		if end > len(src) || end <= it.pos {
			continue // reported by the position oracle at the next item
		}
		span := src[it.pos:end]
		if !textOK(it.tok, it.text, span) {
			t.Fail("lexer-tiling", fmt.Sprintf("%s lexer on %q: %s at %d has text %q but spans %q",
				kind, src, it.tok, it.pos, it.text, span))
		}
		if it.tok == tok.String {
			q := span[0]
			if len(span) < 2 || span[len(span)-1] != q || (q != '"' && q != '\'' && q != '`') {
				t.Fail("lexer-unterminated-string-accepted", fmt.Sprintf(
					"%s lexer on %q: String token %q spans %q which has no closing quote", kind, src, it.text, span))
			}
		}
	}
}

// parse runs the code parser; returns the outcome class
func parse(src string) (class string, detail string) {
	defer func() {
		if e := recover(); e != nil {
			if re, ok := e.(runtime.Error); ok {
				class, detail = "runtime-error", re.Error()
				return
			}
			s := fmt.Sprint(e)
			if strings.HasPrefix(s, "syntax error") {
				class = "syntax-error"
			} else {
				class, detail = "compile-error", s
			}
		}
	}()
	compile.Constant(src)
	return "ok", ""
}

// runParse: the code parser's outcome class with a time bound; false = gave up (hang)
func runParse(t *lib.Trace, src string, slowest *time.Duration) bool {
	done := make(chan [2]string, 1)
	start := time.Now()
	go func() {
		c, d := parse(src)
		done <- [2]string{c, d}
	}()
	select {
	case res := <-done:
		if el := time.Since(start); el > *slowest {
			*slowest = el
		}
		t.Count("parse." + res[0])
		if res[0] == "runtime-error" {
			t.Fail("parser-runtime-panic", fmt.Sprintf("compile.Constant(%q) panicked with a Go runtime error: %s", src, res[1]))
		}
	case <-time.After(20 * time.Second):
		t.Fail("parser-hang", fmt.Sprintf("compile.Constant(%q) did not return within 20 s", src))
		t.Close()
		os.Exit(0)
	}
	return true
}

func main() {
	t := lib.Open()
	defer t.Close()
	r := lib.Rand()
	n := lib.N(6000)
	count := func(k string) { t.Count(k) }
	var slowest time.Duration
	for i := 0; i < n; i++ {
		src := lib.LangSrc(r, count)
		t.Count(fmt.Sprintf("len<=%d", (len(src)/16+1)*16))

		items, looped := lexAll(lexer.NewLexer(src), len(src))
		if !looped {
			t.Q("lex c "+lib.X(src), show(items))
		}
		checkStream(t, "code", src, items, looped)
		for _, it := range items {
			t.Count("tok." + it.tok.String())
		}
		if i%3 == 0 {
			qitems, qlooped := lexAll(lexer.NewQueryLexer(src), len(src))
			if !qlooped {
				t.Q("lex q "+lib.X(src), show(qitems))
			}
			checkStream(t, "query", src, qitems, qlooped)
		}
		if i < 3 {
			t.Sample(fmt.Sprintf("%q => %s", src, show(items)))
		}

		if !runParse(t, src, &slowest) {
			return
		}
	}

	// grammar-directed programs (statements, multi-assignment to every kind of target, named /
	// shortcut / @ arguments, class bodies), each cut at EVERY byte (hence every token boundary)
	// and with empty-string tokens substituted: parser outcome class on all of them, token
	// streams (mirror + direct oracles) on the program and a sample of its cuts
	for i := 0; i < n/10; i++ {
		prog := lib.LangProgram(r, count)
		cuts := lib.LangCuts(r, prog, count)
		t.CountN("cuts.inputs", len(cuts))
		for k, src := range cuts {
			items, looped := lexAll(lexer.NewLexer(src), len(src))
			checkStream(t, "code", src, items, looped)
			if !looped && (k == 0 || r.Intn(24) == 0) {
				t.Q("lex c "+lib.X(src), show(items))
			}
			if !runParse(t, src, &slowest) {
				return
			}
		}
		if i < 2 {
			t.Sample("program: " + prog)
		}
	}
	if slowest > 2*time.Second { // informational only: wall-clock must not decide the verdict
		t.Count("parse.slowest>2s")
	}
}
