//go:build verif

package dnum

// C27 in-package suite: the unexported div128 (Knuth-D on 32 bit halves) against its
// specification a*10^16/b, which is how the Lean model defines it.
//
// The quotient-correction branches of divide128 are rare for random coefficients (the overflow
// of the partial remainder in the high-half loop: about 3 in 10^7), so the generator does not
// rely on volume: operand pairs are DERIVED from the algorithm (divisors whose normalised high
// half is just below 2^32, dividends whose top 64 bits are q1*v1 + r with a remainder r in the
// window where the first estimate is too large and the corrected remainder leaves 32 bits) and
// an instrumented re-implementation (`classify`) names the branches a pair takes; the suite
// keeps a quota per branch and writes the per-branch counts into the histogram.

import (
	"fmt"
	"math/big"
	"math/bits"
	"math/rand"
	"testing"

	lib "github.com/apmckinlay/gsuneido/util/zzverif"
)

type divPath struct {
	q1corr, q0corr   int  // decrements of the two quotient halves
	q1break, q0break bool // loop left because the partial remainder no longer fits 32 bits
	q1more, q0more   bool // ... and the (truncated) loop condition would still have been true
}

func (p divPath) keys() []string {
	ks := []string{fmt.Sprintf("branch:q1corr=%d", p.q1corr), fmt.Sprintf("branch:q0corr=%d", p.q0corr)}
	if p.q1break {
		ks = append(ks, "branch:q1break")
	}
	if p.q1more {
		ks = append(ks, "branch:q1break-cond-still-true")
	}
	if p.q0break {
		ks = append(ks, "branch:q0break")
	}
	if p.q0more {
		ks = append(ks, "branch:q0break-cond-still-true")
	}
	return ks
}

// dividend128 is a * 10^16 as (hi, lo)
func dividend128(a uint64) (uint64, uint64) { return bits.Mul64(a, e16) }

// classify follows divide128 step by step (same arithmetic) and records the path
func classify(a, divisor uint64) divPath {
	var p divPath
	hi, lo := dividend128(a)
	shift := uint(bits.LeadingZeros64(divisor))
	divisor <<= shift
	v1, v0 := divisor>>32, divisor&longMask
	dls := lo << shift
	u1, u0 := uint32(dls>>32), uint32(dls&longMask)
	tmp1 := (hi << shift) | (lo >> (64 - shift))
	var q1, r1 uint64
	if v1 == 1 {
		q1, r1 = tmp1, 0
	} else {
		q1, r1 = tmp1/v1, tmp1%v1
	}
	for q1*v0 > make64(uint32(r1), u1) {
		q1--
		r1 += v1
		p.q1corr++
		if r1 >= divNumBase {
			p.q1break = true
			p.q1more = q1*v0 > make64(uint32(r1), u1)
			break
		}
	}
	u2 := tmp1 & longMask
	tmp2 := mulsub(uint32(u2), uint32(u1), uint32(v1), uint32(v0), q1)
	var q0, r2 uint64
	if v1 == 1 {
		q0, r2 = tmp2, 0
	} else {
		q0, r2 = tmp2/v1, tmp2%v1
	}
	for q0*v0 > make64(uint32(r2), u0) {
		q0--
		r2 += v1
		p.q0corr++
		if r2 >= divNumBase {
			p.q0break = true
			p.q0more = q0*v0 > make64(uint32(r2), u0)
			break
		}
	}
	return p
}

var bigE16 = new(big.Int).Exp(big.NewInt(10), big.NewInt(16), nil)

// derived builds a pair aimed at the high-half correction: divisor just below 2^k (so the
// normalised high half v1 = 2^32 - g with small g), top 64 dividend bits = q1*v1 + r with
// g <= r < q1*v0/2^32: the estimate q1 is too large and the corrected remainder r + v1 >= 2^32.
func derived(r *rand.Rand) (a, b uint64) {
	k := uint(50 + r.Intn(4))
	var d uint64
	switch r.Intn(3) {
	case 0:
		d = 1 + uint64(r.Int63n(1<<uint(k-32))) // g = 1
	case 1:
		d = 1 + uint64(r.Int63n(1<<uint(k-32+8))) // g up to 2^8
	default:
		d = 1 + uint64(r.Int63n(1<<uint(k-32+20))) // g up to 2^20
	}
	b = uint64(1)<<k - d
	if b < coefMin || b > coefMax {
		return 0, 0
	}
	shift := uint(bits.LeadingZeros64(b))
	v := b << shift
	v1, v0 := v>>32, v&longMask
	g := divNumBase - v1
	// quotient range so that a is a 16 digit coefficient: q1 ~ a*10^16/b / 2^32
	lo := new(big.Int).Quo(new(big.Int).Mul(big.NewInt(coefMin), bigE16), new(big.Int).SetUint64(b))
	hi := new(big.Int).Quo(new(big.Int).Mul(big.NewInt(coefMax), bigE16), new(big.Int).SetUint64(b))
	qlo, qhi := lo.Rsh(lo, 32).Uint64()+1, hi.Rsh(hi, 32).Uint64()
	if qhi <= qlo {
		return 0, 0
	}
	q1 := qlo + uint64(r.Int63n(int64(qhi-qlo)))
	win := (q1 * v0) >> 32 // remainders below this need a correction
	var rem uint64
	switch {
	case win > g && r.Intn(4) != 0:
		rem = g + uint64(r.Int63n(int64(win-g))) // correction and overflow of the remainder
	case win > 0:
		rem = uint64(r.Int63n(int64(win))) // correction without overflow (or none when rem is large)
	}
	if r.Intn(6) == 0 {
		rem = win + uint64(r.Intn(3)) - 1 // the edge of the window (u1 decides)
	}
	if rem >= v1 {
		return 0, 0
	}
	tmp1 := new(big.Int).SetUint64(q1)
	tmp1.Mul(tmp1, new(big.Int).SetUint64(v1)).Add(tmp1, new(big.Int).SetUint64(rem))
	// smallest a with floor(a*10^16 * 2^shift / 2^64) >= tmp1
	num := tmp1.Lsh(tmp1, 64-shift)
	num.Add(num, new(big.Int).Sub(bigE16, big.NewInt(1)))
	num.Quo(num, bigE16)
	if !num.IsUint64() {
		return 0, 0
	}
	a = num.Uint64() + uint64(r.Intn(2))
	return a, b
}

func TestVerifC27Div128(t *testing.T) {
	tr := lib.Open()
	defer tr.Close()
	r := lib.Rand()
	n := lib.N(20000)
	quota := n / 10 // per branch, for the derived stream
	have := map[string]int{}
	check := func(a, b uint64, src string) {
		if b < coefMin || b > coefMax || a < coefMin || a > coefMax {
			return
		}
		p := classify(a, b)
		for _, k := range p.keys() {
			tr.Count(k)
			have[k]++
		}
		tr.Count("src:" + src)
		q := div128(a, b)
		tr.Q(fmt.Sprintf("div128 %d %d", a, b), fmt.Sprint(q))
		want := new(big.Int).Mul(new(big.Int).SetUint64(a), bigE16)
		want.Quo(want, new(big.Int).SetUint64(b))
		if want.Cmp(new(big.Int).SetUint64(q)) != 0 {
			sig := "div128-spec"
			if p.q1break {
				sig = "div128-spec:q1-remainder-overflow"
			} else if p.q0break {
				sig = "div128-spec:q0-remainder-overflow"
			}
			tr.Fail(sig, fmt.Sprintf("div128(%d, %d) = %d, a*10^16/b = %s (path %+v)", a, b, q, want, p))
		}
		// the public operation on the same coefficients
		z := Div(Dnum{a, signPos, 1}, Dnum{b, signPos, 1})
		exp := New(signPos, want.Uint64(), 0)
		if !Equal(z, exp) {
			tr.Fail("div-coef", fmt.Sprintf("Div(.%d, .%d) = %v, expected %v", a, b, z, exp))
		}
	}
	// witnesses of the remainder-overflow path and their neighbourhood
	for _, w := range [][2]uint64{{7399277442958125, 1124878057708072}, {4556062839348134, 4503504567342440}} {
		check(w[0], w[1], "witness")
		for i := 0; i < 20; i++ {
			check(w[0]+uint64(r.Intn(2000))-1000, w[1], "witness-neighbour")
		}
	}
	// derived stream: keep a pair when one of its branches is still below quota
	// (a second decrement of q1 is impossible here: the quotient is below 10^17 < 2^57, so q1 < 2^25
	// and q1*v0 < 2^57 can never exceed a corrected remainder (r + v1) * 2^32 >= 2^63)
	rare := []string{"branch:q1break", "branch:q1break-cond-still-true", "branch:q1corr=1",
		"branch:q0break", "branch:q0break-cond-still-true", "branch:q0corr=2"}
	for tries := 0; tries < 40*n; tries++ {
		full := true
		for _, k := range rare[:3] {
			if have[k] < quota {
				full = false
			}
		}
		if full {
			break
		}
		a, b := derived(r)
		if a == 0 || b < coefMin || b > coefMax || a < coefMin || a > coefMax {
			continue
		}
		p := classify(a, b)
		keep := false
		for _, k := range p.keys() {
			for _, rk := range rare {
				if k == rk && have[k] < quota {
					keep = true
				}
			}
		}
		if keep {
			check(a, b, "derived")
		}
	}
	// general stream
	for i := 0; i < n; i++ {
		var a, b uint64
		switch r.Intn(7) {
		case 0: // normalised coefficients
			a = coefMin + uint64(r.Int63n(coefMax-coefMin+1))
			b = coefMin + uint64(r.Int63n(coefMax-coefMin+1))
		case 1: // divisor with all-ones low half
			a = coefMin + uint64(r.Int63n(coefMax-coefMin+1))
			b = (coefMin+uint64(r.Int63n(coefMax-coefMin+1)))&^0xffffffff | 0xffffffff
		case 2: // divisor slightly above a multiple of 2^32
			a = coefMin + uint64(r.Int63n(coefMax-coefMin+1))
			b = (coefMin+uint64(r.Int63n(coefMax-coefMin+1)))&^0xffffffff + uint64(r.Intn(4))
		case 3: // near equal
			a = coefMin + uint64(r.Int63n(coefMax-coefMin+1))
			b = a + uint64(r.Intn(5)) - 2
		case 4:
			a = []uint64{coefMin, coefMax, coefMin + 1, coefMax - 1}[r.Intn(4)]
			b = []uint64{coefMin, coefMax, coefMin + 1, coefMax - 1}[r.Intn(4)]
		case 5: // divisor just below a power of two: normalised high half close to 2^32
			a = coefMin + uint64(r.Int63n(coefMax-coefMin+1))
			b = uint64(1)<<uint(50+r.Intn(4)) - 1 - uint64(r.Int63n(1<<uint(20+r.Intn(24))))
		default:
			a = coefMin + uint64(r.Int63n(coefMax-coefMin+1))
			b = uint64(1)<<uint(50+r.Intn(4)) + uint64(r.Int63n(1<<32))
		}
		check(a, b, "general")
	}
	for _, k := range rare {
		if have[k] == 0 {
			tr.Count("branch-never-reached:" + k)
		}
	}
}
