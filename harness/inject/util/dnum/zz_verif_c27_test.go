//go:build verif

package dnum

// C27 in-package suite: the unexported div128 (Knuth-D on 32 bit halves) against its
// specification a*10^16/b, which is how the Lean model defines it. The generator aims at the
// quotient-correction loops (divisors with a large low half, quotient digits near 2^32).

import (
	"fmt"
	"math/big"
	"testing"

	lib "github.com/apmckinlay/gsuneido/util/zzverif"
)

func TestVerifC27Div128(t *testing.T) {
	tr := lib.Open()
	defer tr.Close()
	r := lib.Rand()
	n := lib.N(20000)
	e16 := new(big.Int).Exp(big.NewInt(10), big.NewInt(16), nil)
	for i := 0; i < n; i++ {
		var a, b uint64
		switch r.Intn(6) {
		case 0: // normalised coefficients
			a = coefMin + uint64(r.Int63n(coefMax-coefMin+1))
			b = coefMin + uint64(r.Int63n(coefMax-coefMin+1))
		case 1: // divisor with all-ones low half
			a = coefMin + uint64(r.Int63n(coefMax-coefMin+1))
			b = (coefMin+uint64(r.Int63n(coefMax-coefMin+1)))&^0xffffffff | 0xffffffff
		case 2: // divisor slightly above a multiple of 2^32
			a = coefMin + uint64(r.Int63n(coefMax-coefMin+1))
			b = (coefMin+uint64(r.Int63n(coefMax-coefMin+1)))&^0xffffffff + uint64(r.Intn(4))
		case 3: // near equal
			a = coefMin + uint64(r.Int63n(coefMax-coefMin+1))
			b = a + uint64(r.Intn(5)) - 2
		case 4:
			a = []uint64{coefMin, coefMax, coefMin + 1, coefMax - 1}[r.Intn(4)]
			b = []uint64{coefMin, coefMax, coefMin + 1, coefMax - 1}[r.Intn(4)]
		default:
			a = coefMin + uint64(r.Int63n(coefMax-coefMin+1))
			b = uint64(1)<<uint(50+r.Intn(4)) + uint64(r.Int63n(1<<32))
		}
		if b < coefMin || b > coefMax || a < coefMin || a > coefMax {
			continue
		}
		q := div128(a, b)
		tr.Q(fmt.Sprintf("div128 %d %d", a, b), fmt.Sprint(q))
		want := new(big.Int).Mul(new(big.Int).SetUint64(a), e16)
		want.Quo(want, new(big.Int).SetUint64(b))
		if want.Cmp(new(big.Int).SetUint64(q)) != 0 {
			tr.Fail("div128-spec", fmt.Sprintf("div128(%d, %d) = %d, a*10^16/b = %s", a, b, q, want))
		}
		tr.Count(fmt.Sprintf("div128:case%d", i%1))
	}
}
