//go:build verif

package hamt

// C15 correspondence suite, hamt level: a test Item whose hash is chosen by the generator
// (forced prefix collisions down to the overflow nodes), every frozen version re-read after
// every operation, WriteChain/ReadChain cycles on a heap stor, sometimes continuing from the
// re-read chain. Q lines are replayed by lean/Drive/C15.lean; F lines are direct oracles.

import (
	"fmt"
	"math/rand"
	"sort"
	"strings"
	"testing"

	"github.com/apmckinlay/gsuneido/db19/stor"
	lib "github.com/apmckinlay/gsuneido/util/zzverif"
)

var c15hash []uint64

type c15Item struct {
	key  int
	val  int
	mod  int
	tomb bool
}

func (it *c15Item) Key() int         { return it.key }
func (*c15Item) Hash(k int) uint64   { return c15hash[k] }
func (it *c15Item) Cksum() uint32    { return uint32(it.key*31 + it.val) }
func (it *c15Item) StorSize() int    { return 9 }
func (it *c15Item) IsTomb() bool     { return it.tomb }
func (it *c15Item) LastMod() int     { return it.mod }
func (it *c15Item) SetLastMod(m int) { it.mod = m }
func (it *c15Item) Write(w *stor.Writer) {
	t := 0
	if it.tomb {
		t = 1
	}
	w.Put4(it.key).Put4(it.val).Put1(t)
}

func c15read(_ *stor.Stor, r *stor.Reader) *c15Item {
	return &c15Item{key: r.Get4(), val: r.Get4(), tomb: r.Get1() == 1}
}

func c15show(it *c15Item) string {
	t := "L"
	if it.tomb {
		t = "T"
	}
	return fmt.Sprintf("%d:%d:%s:%d", it.key, it.val, t, it.mod)
}

func c15dump(h Hamt[int, *c15Item]) string {
	var out []string
	for it := range h.All() {
		out = append(out, c15show(it))
	}
	if len(out) == 0 {
		return "-"
	}
	return strings.Join(out, ",")
}

// live entries, sorted: the map the hamt denotes
func c15live(h Hamt[int, *c15Item]) string {
	var out []string
	for it := range h.All() {
		if !it.tomb {
			out = append(out, fmt.Sprintf("%d=%d", it.key, it.val))
		}
	}
	sort.Strings(out)
	return strings.Join(out, " ")
}

func c15model(m map[int]int) string {
	var out []string
	for k, v := range m {
		out = append(out, fmt.Sprintf("%d=%d", k, v))
	}
	sort.Strings(out)
	return strings.Join(out, " ")
}

// c15hashes picks a hash per key: every key shares d (0..7) five-bit digits with a common
// 35-bit pattern, so collisions occur at every level and (d = 7) in the overflow nodes.
func c15hashes(r *rand.Rand, nkeys int, t *lib.Trace) []uint64 {
	hs := make([]uint64, nkeys)
	pat := r.Uint64()
	style := r.Intn(4)
	for i := range hs {
		d := 0
		switch style {
		case 0: // deep collisions
			d = 4 + r.Intn(4)
		case 1: // uniform
			d = r.Intn(8)
		case 2: // mostly full collisions
			d = 7
			if r.Intn(4) == 0 {
				d = r.Intn(8)
			}
		case 3: // shallow
			d = r.Intn(3)
		}
		t.Count(fmt.Sprintf("hash.shared-digits=%d", d))
		if d >= 7 {
			// same low 35 bits; the bits above are ignored by the trie
			hs[i] = pat&(1<<35-1) | uint64(r.Intn(4))<<35
			continue
		}
		low := pat & (1<<(5*uint(d)) - 1)
		// differ in digit d
		dig := (pat>>(5*uint(d)))&31 ^ uint64(1+r.Intn(31))
		hi := r.Uint64() << (5 * uint(d+1))
		hs[i] = low | dig<<(5*uint(d)) | hi
	}
	return hs
}

func c15chain(ids map[uint64]int, c *Chain[int, *c15Item]) string {
	var is, as []string
	for i, off := range c.Offs {
		if _, ok := ids[off]; !ok {
			ids[off] = len(ids) + 1
		}
		is = append(is, fmt.Sprint(ids[off]))
		as = append(as, fmt.Sprint(c.Ages[i]))
	}
	return fmt.Sprintf("ids=%s ages=%s clock=%d", strings.Join(is, ","), strings.Join(as, ","), c.Clock)
}

func TestVerifC15Hamt(t *testing.T) {
	tr := lib.Open()
	defer tr.Close()
	r := lib.Rand()
	n := lib.N(1500)
	for h := 0; h < n; h++ {
		c15history(tr, r, h)
	}
}

func c15history(tr *lib.Trace, r *rand.Rand, hno int) {
	nkeys := 8 + r.Intn(40)
	if r.Intn(5) == 0 {
		nkeys = 1 + r.Intn(3) // tiny key space: the chain often has nothing live
		tr.Count("history.tiny")
	}
	c15hash = c15hashes(r, nkeys, tr)
	hs := make([]string, nkeys)
	for i, h := range c15hash {
		hs[i] = fmt.Sprint(h)
	}
	tr.Q("reset "+strings.Join(hs, ","), "ok")
	st := stor.HeapStor(64 * 1024)
	st.Alloc(1)
	chain := Chain[int, *c15Item]{}
	model := map[int]int{}   // live entries
	created := map[int]int{} // meta's protocol: clock at creation, 0 = needs a tombstone
	ids := map[uint64]int{}
	dirty := false // mutated since the last write
	rogue := false // a persisted key was deleted without tombstone: read-back oracle is off
	type ver struct {
		h    Hamt[int, *c15Item]
		dump string
	}
	var versions []ver
	var hist []string
	fail := func(sig, what string) {
		tr.Fail(sig, fmt.Sprintf("%s; history %d: reset(%d keys) %s", what, hno, nkeys, strings.Join(hist, "; ")))
	}
	nsteps := 20 + r.Intn(60)
	pWrite := 15 + r.Intn(25)
	for step := 0; step < nsteps; step++ {
		x := r.Intn(100)
		switch {
		case x < 100-pWrite-8: // a batch of mutations, then freeze
			mut := chain.Hamt.Mutable()
			dirty = true
			nops := r.Intn(4) + 1
			clear := r.Intn(25) == 0 // remove every live key
			var live []int
			if clear {
				for k := range model {
					live = append(live, k)
				}
				sort.Ints(live)
				nops = len(live)
				tr.Count("op.clear-all")
			}
			for i := 0; i < nops; i++ {
				k := r.Intn(nkeys)
				if clear {
					k = live[i]
				}
				if clear || r.Intn(3) == 0 {
					_, live := model[k]
					if !live && r.Intn(4) != 0 {
						continue
					}
					old, present := mut.Get(k)
					switch {
					case live && created[k] != 0 && created[k] == chain.Clock:
						// never persisted: plain delete (meta.Drop's "no need for tombstone")
						ok := mut.Delete(k)
						hist = append(hist, fmt.Sprintf("del %d", k))
						tr.Q(fmt.Sprintf("del %d", k), lib.B(ok))
						tr.Count("op.del")
						if !ok {
							fail("c15-map-delete", fmt.Sprintf("Delete(%d) of a live key returned false", k))
						}
					case live:
						mut.Put(&c15Item{key: k, tomb: true, mod: chain.Clock})
						hist = append(hist, fmt.Sprintf("tomb %d", k))
						tr.Q(fmt.Sprintf("tomb %d", k), "ok")
						tr.Count("op.tomb")
					case present && old.tomb && r.Intn(2) == 0:
						// delete of an in-memory tombstone whose key may be on disk: outside the
						// protocol (malformed stream) – model replay only
						ok := mut.Delete(k)
						hist = append(hist, fmt.Sprintf("del %d (rogue)", k))
						tr.Q(fmt.Sprintf("del %d", k), lib.B(ok))
						tr.Count("op.del-rogue")
						rogue = true
					case present:
						continue // an in-memory tombstone stays
					default:
						ok := mut.Delete(k) // absent key
						hist = append(hist, fmt.Sprintf("del %d (absent)", k))
						tr.Q(fmt.Sprintf("del %d", k), lib.B(ok))
						tr.Count("op.del-absent")
						if ok != present {
							fail("c15-map-delete", fmt.Sprintf("Delete(%d) = %v but present = %v", k, ok, present))
						}
					}
					delete(model, k)
					delete(created, k)
				} else {
					v := r.Intn(1000)
					old, present := mut.Get(k)
					if !present {
						created[k] = chain.Clock
					} else if old.tomb {
						created[k] = 0
					}
					mut.Put(&c15Item{key: k, val: v, mod: chain.Clock})
					model[k] = v
					hist = append(hist, fmt.Sprintf("put %d %d", k, v))
					tr.Q(fmt.Sprintf("put %d %d", k, v), "ok")
					tr.Count("op.put")
				}
			}
			chain.Hamt = mut.Freeze()
			d := c15dump(chain.Hamt)
			tr.Q("freeze", d)
			hist = append(hist, "freeze")
			if got, exp := c15live(chain.Hamt), c15model(model); got != exp {
				fail("c15-map-semantics", fmt.Sprintf("hamt holds {%s}, a map holds {%s}", got, exp))
				return
			}
			versions = append(versions, ver{chain.Hamt, d})
			// older versions must be unaffected: all of them directly, two through the model
			for i, v := range versions {
				if got := c15dump(v.h); got != v.dump {
					fail("c15-version-changed", fmt.Sprintf("frozen version %d changed from %s to %s", i, v.dump, got))
					return
				}
			}
			for j := 0; j < 2 && len(versions) > 1; j++ {
				i := r.Intn(len(versions))
				tr.Q(fmt.Sprintf("ver %d", i), c15dump(versions[i].h))
			}
			k := r.Intn(nkeys)
			if it, ok := chain.Hamt.Get(k); ok {
				tr.Q(fmt.Sprintf("get %d", k), c15show(it))
				if v, live := model[k]; it.tomb == live || (live && v != it.val) {
					fail("c15-map-get", fmt.Sprintf("Get(%d) = %s, map has %v %v", k, c15show(it), v, live))
				}
			} else {
				tr.Q(fmt.Sprintf("get %d", k), "-")
				if _, live := model[k]; live {
					fail("c15-map-get", fmt.Sprintf("Get(%d) not found, map has it", k))
				}
			}
		case x < 100-8: // write, then read back
			no := len(chain.Offs)
			lastOff := uint64(0)
			if no > 0 {
				lastOff = chain.Offs[no-1]
			}
			off, c2 := chain.WriteChain(st)
			written := off != 0 && off != lastOff
			hist = append(hist, fmt.Sprintf("write(no=%d clock=%d)", no, chain.Clock))
			tr.Count(fmt.Sprintf("write.no=%d", no))
			if len(c2.Offs) < no+1 && written {
				tr.Count(fmt.Sprintf("write.merged=%d", no+1-len(c2.Offs)))
			}
			if !written {
				tr.Count("write.nothing-written")
			}
			var rd Chain[int, *c15Item]
			msg := lib.Catch(func() { rd = ReadChain(st, off, c15read) })
			if no > 0 && nmerge(no, chain.Clock) == no && c15live(chain.Hamt) == "" && len(c2.Offs) > 0 {
				// finding 21: a flatten with nothing live must yield the empty chain
				got := "?"
				if msg == "" {
					got = c15live(rd.Hamt)
				}
				if got == "" {
					// the kept chain holds only tombstones: harmless, but not the repaired behaviour
					tr.Count("write.f21-kept-chain-of-tombstones")
					return
				}
				fail("c15-f21-flatten-resurrect", fmt.Sprintf(
					"nothing live in memory, WriteChain kept the old chain %v and ReadChain yields {%s}", c2.Offs, got))
				return
			}
			if !rogue {
				if msg != "" {
					if strings.Contains(msg, "checksum") {
						fail("c15-chain-cksum", "ReadChain after WriteChain: "+msg)
					} else {
						fail("c15-chain-read-panic", "ReadChain after WriteChain: "+msg)
					}
					return
				}
				if got, exp := c15live(rd.Hamt), c15model(model); got != exp {
					fail("c15-chain-roundtrip", fmt.Sprintf("ReadChain yields {%s}, memory holds {%s}", got, exp))
					return
				}
				if fmt.Sprint(rd.Offs) != fmt.Sprint(c2.Offs) {
					fail("c15-chain-offs", fmt.Sprintf("prev links %v differ from Offs %v", rd.Offs, c2.Offs))
					return
				}
				for i := 1; i < len(c2.Ages); i++ {
					if c2.Ages[i-1] > c2.Ages[i] {
						fail("c15-ages-sorted", fmt.Sprintf("ages %v", c2.Ages))
						return
					}
				}
				for it := range c2.Hamt.All() {
					if it.mod > c2.Clock {
						fail("c15-lastmod-clock", fmt.Sprintf("item %s newer than clock %d", c15show(it), c2.Clock))
						return
					}
				}
			}
			w := "n "
			if written {
				w = "w "
			}
			chain = c2
			dirty = false
			tr.Q("write", w+c15chain(ids, &chain))
			if msg != "" {
				tr.Q("read", "!cksum")
				tr.Count("read.cksum-mismatch(rogue)")
			} else {
				tr.Q("read", c15dump(rd.Hamt)+" "+c15chain(ids, &rd))
			}
		default: // reopen: continue from the re-read chain
			no := len(chain.Offs)
			off := uint64(0)
			if no > 0 {
				off = chain.Offs[no-1]
			}
			// only what is on disk survives: skip unless memory is clean
			if dirty {
				continue // there are unsaved changes; a write step will come
			}
			var rd Chain[int, *c15Item]
			msg := lib.Catch(func() { rd = ReadChain(st, off, c15read) })
			if msg != "" {
				if !rogue {
					fail("c15-chain-cksum", "ReadChain: "+msg)
					return
				}
				tr.Q("adopt", "!cksum")
				continue
			}
			hist = append(hist, "adopt")
			tr.Q("adopt", "ok")
			tr.Count("op.adopt")
			chain = rd
			versions = nil
			created = map[int]int{}
			if rogue {
				// the re-read chain is the truth from here on
				rogue = false
				model = map[int]int{}
				for it := range rd.Hamt.All() {
					if !it.tomb {
						model[it.key] = it.val
					}
				}
			}
		}
	}
}
