//go:build verif

package hamt

// C02 (sharing structure of the persistent hash trie): Delete of an entry whose slot also has a
// child node pulls a value up out of the child chain (node.pullUp).  Every node it writes must be
// a copy made in the current generation; the frozen older version must be untouched.
//
// The scenario is the one Gsu.Share.scenPullUp builds in the Lean heap model: root {A, child},
// `depth` chain nodes {one value, one child}, a leaf with `nvals` values; Delete(A) in a new
// generation.  Q: sharing signature (is the child of the new root the child of the old root),
// old version unchanged, which item was pulled up, size of the new version.
// F (model free): the older version still holds exactly its items.

import (
	"fmt"
	"sort"
	"testing"

	"github.com/apmckinlay/gsuneido/db19/stor"
	lib "github.com/apmckinlay/gsuneido/util/zzverif"
)

type vShItem struct {
	key int
	mod int
}

func (it *vShItem) Key() int             { return it.key }
func (*vShItem) Hash(key int) uint64     { return uint64(key) }
func (it *vShItem) Cksum() uint32        { return uint32(it.key) }
func (*vShItem) StorSize() int           { return 4 }
func (*vShItem) IsTomb() bool            { return false }
func (it *vShItem) LastMod() int         { return it.mod }
func (it *vShItem) SetLastMod(mod int)   { it.mod = mod }
func (it *vShItem) Write(w *stor.Writer) { w.Put4(it.key) }

func vShKeys(ht Hamt[int, *vShItem]) []int {
	var ks []int
	for it := range ht.All() {
		ks = append(ks, it.key)
	}
	sort.Ints(ks)
	return ks
}

func TestVerifC02HamtShare(t *testing.T) {
	tr := lib.Open()
	defer tr.Close()
	r := lib.Rand()
	n := lib.N(200)
	const s, d = 3, 5
	for i := 0; i < n; i++ {
		nvals := 1 + r.Intn(4)
		depth := r.Intn(3)
		name := map[int]int{s: 100} // key -> number in the model's scenario
		keys := []int{s}
		prefix, pow := s, 32
		for l := 1; l <= depth; l++ {
			prefix += d * pow
			pow *= 32
			keys = append(keys, prefix)
			name[prefix] = 300 + (depth - l)
		}
		for j := 0; j < nvals; j++ {
			k := prefix + (7+j)*pow
			keys = append(keys, k)
			name[k] = 200 + j
		}
		var old Hamt[int, *vShItem]
		if msg := lib.Catch(func() {
			ht := Hamt[int, *vShItem]{}.Mutable()
			for _, k := range keys {
				ht.Put(&vShItem{key: k})
			}
			old = ht.Freeze()
		}); msg != "" {
			tr.Fail("impl-panic", fmt.Sprintf("hamt build nvals=%d depth=%d: %s", nvals, depth, msg))
			continue
		}
		before := vShKeys(old)
		var oldChild *node[int, *vShItem]
		if len(old.root.ptrs) == 1 {
			oldChild = old.root.ptrs[0]
		}
		m := old.Mutable()
		msg := lib.Catch(func() { m.Delete(s) })
		nw := m.Freeze()
		if msg != "" {
			tr.Fail("hamt-delete-panic", fmt.Sprintf("nvals=%d depth=%d: %s", nvals, depth, msg))
			continue
		}
		after := vShKeys(old)
		unchanged := fmt.Sprint(before) == fmt.Sprint(after)
		shared := len(nw.root.ptrs) == 1 && nw.root.ptrs[0] == oldChild
		pulled := -1
		if len(nw.root.vals) == 1 {
			pulled = name[nw.root.vals[0].key]
		}
		tr.Q(fmt.Sprintf("sh-pullup %d %d", nvals, depth),
			fmt.Sprintf("child-shared=%s old-unchanged=%s pulled=%d new-count=%d", lib.B(shared), lib.B(unchanged), pulled, len(vShKeys(nw))))
		tr.Count(fmt.Sprintf("sh-pullup nvals=%d depth=%d", nvals, depth))
		if !unchanged {
			tr.Fail("snapshot-changed", fmt.Sprintf("hamt: Delete(%d) in a new generation changed the frozen older version: it held %v, now holds %v (root{A, child}, %d chain nodes, leaf with %d values)",
				s, before, after, depth, nvals))
		}
	}
}
