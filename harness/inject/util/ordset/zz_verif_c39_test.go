//go:build verif

package ordset

// C39 (ordset): util/ordset against the array mirror Gsu.Model.Ordset (every Insert / Contains /
// AnyInRange / Empty result and, through `odump`, the internal arrays INCLUDING stale slots)
// and against a plain sorted-slice reference (direct oracles).

import (
	"fmt"
	"math/rand"
	"sort"
	"strings"
	"testing"

	lib "github.com/apmckinlay/gsuneido/util/zzverif"
)

func c39hashKey(h uint32, k string) uint32 {
	for i := 0; i < len(k); i++ {
		h = h*131 + uint32(k[i]) + 1
	}
	return h * 131
}

func c39leafStr(sep *string, l *leafNode) string {
	h := uint32(0)
	for i := range l.slots {
		h = c39hashKey(h, l.slots[i])
	}
	s := ""
	if sep != nil {
		s = lib.X(*sep) + ":"
	}
	return fmt.Sprintf("%s%d:%d", s, l.size, h)
}

func c39dump(set *Set) string {
	if set.tree == nil {
		return "S " + c39leafStr(nil, &set.leaf)
	}
	var sb strings.Builder
	fmt.Fprintf(&sb, "T %d", set.tree.size)
	for i := 0; i < set.tree.size; i++ {
		sb.WriteByte(' ')
		sb.WriteString(c39leafStr(&set.tree.slots[i].key, set.tree.slots[i].leaf))
	}
	return sb.String()
}

// reference: sorted slice of distinct keys
type c39ref struct{ keys []string }

func (m *c39ref) has(k string) bool {
	i := sort.SearchStrings(m.keys, k)
	return i < len(m.keys) && m.keys[i] == k
}
func (m *c39ref) add(k string) {
	i := sort.SearchStrings(m.keys, k)
	if i < len(m.keys) && m.keys[i] == k {
		return
	}
	m.keys = append(m.keys, "")
	copy(m.keys[i+1:], m.keys[i:])
	m.keys[i] = k
}
func (m *c39ref) any(f, t string) bool {
	i := sort.SearchStrings(m.keys, f)
	return i < len(m.keys) && m.keys[i] <= t
}

func TestVerifC39Ordset(t *testing.T) {
	tr := lib.Open()
	defer tr.Close()
	r := lib.Rand()
	n := lib.N(60)
	for h := 0; h < n; h++ {
		kind := h % 10
		if h < 3 {
			kind = 7 + h // make sure each capacity history runs at least once
		}
		c39history(tr, r, kind)
	}
}

func c39history(tr *lib.Trace, r *rand.Rand, kind int) {
	var set Set
	ref := &c39ref{}
	tr.Q("oreset", "ok")
	nops := 0
	emptyMissing := func() bool { return ref.has("") && !set.Contains("") }
	emptyReported := false
	fail := func(sig, desc string) {
		if emptyMissing() {
			// consequences of the lost "" key are one defect: report it once per history
			if emptyReported {
				return
			}
			emptyReported = true
			sig = "ordset-empty-key"
		}
		tr.Fail(sig, desc)
	}
	dump := func() { tr.Q("odump", c39dump(&set)) }
	insert := func(k string) bool {
		nops++
		var ok bool
		before := ""
		if p := lib.Catch(func() {
			if set.tree != nil && set.tree.size >= nodeSize { // only then can Insert refuse
				before = c39dump(&set)
			}
			ok = set.Insert(k)
		}); p != "" {
			tr.Q("oins "+lib.X(k), "!panic")
			tr.Fail("ordset-panic", fmt.Sprintf("Insert(%q) panicked: %s after %d keys", k, p, len(ref.keys)))
			return false
		}
		tr.Q("oins "+lib.X(k), lib.B(ok))
		if ok {
			ref.add(k)
			if !set.Contains(k) {
				fail("ordset-contains", fmt.Sprintf("Insert(%q) returned true but Contains is false (set had %d keys)", k, len(ref.keys)-1))
			}
		} else {
			tr.Count("o-insert-false")
			if len(ref.keys) < nodeSize*(nodeSize/4) {
				fail("ordset-capacity", fmt.Sprintf("Insert(%q) refused with only %d keys", k, len(ref.keys)))
			}
			if before == "" {
				fail("ordset-capacity", fmt.Sprintf("Insert(%q) refused although the tree is not full", k))
			} else if c39dump(&set) != before {
				fail("ordset-false-changed", fmt.Sprintf("refused Insert(%q) changed the set", k))
			}
		}
		return ok
	}
	has := func(k string) {
		got := set.Contains(k)
		tr.Q("ohas "+lib.X(k), lib.B(got))
		if got != ref.has(k) {
			fail("ordset-contains", fmt.Sprintf("Contains(%q)=%v, reference %v (%d keys)", k, got, ref.has(k), len(ref.keys)))
		}
	}
	anyr := func(f, t string) {
		got := set.AnyInRange(f, t)
		tr.Q("oany "+lib.X(f)+" "+lib.X(t), lib.B(got))
		if got != ref.any(f, t) {
			fail("ordset-anyinrange", fmt.Sprintf("AnyInRange(%q,%q)=%v, reference %v (%d keys)", f, t, got, ref.any(f, t), len(ref.keys)))
		}
	}
	empty := func() {
		got := set.Empty()
		tr.Q("oempty", lib.B(got))
		if got != (len(ref.keys) == 0) {
			fail("ordset-empty", fmt.Sprintf("Empty()=%v with %d keys", got, len(ref.keys)))
		}
	}
	alpha := []byte{0, 1, 'a', 'b', 0xff}
	short := func() string {
		b := make([]byte, r.Intn(4))
		for i := range b {
			b[i] = alpha[r.Intn(len(alpha))]
		}
		return string(b)
	}
	num := func(i int) string { return fmt.Sprintf("%05d", i) }
	// a key close to an existing one (equal, just below, just above, extended)
	near := func(def string) string {
		if len(ref.keys) == 0 {
			return def
		}
		k := ref.keys[r.Intn(len(ref.keys))]
		switch r.Intn(5) {
		case 0:
			return k
		case 1:
			return k + "\x00"
		case 2:
			if len(k) > 0 {
				return k[:len(k)-1]
			}
			return k
		case 3:
			if len(k) > 0 && k[len(k)-1] > 0 {
				return k[:len(k)-1] + string([]byte{k[len(k)-1] - 1}) + "\xff"
			}
			return k
		}
		return k + "0"
	}
	queries := func(def func() string) {
		for q := r.Intn(4); q > 0; q-- {
			k := def()
			if r.Intn(2) == 0 {
				k = near(k)
			}
			has(k)
		}
		for q := r.Intn(4); q > 0; q-- {
			f := near(def())
			var to string
			switch r.Intn(4) {
			case 0:
				to = f
			case 1:
				to = near(def())
			case 2:
				to = f + "\x00\x00"
			default:
				to = def()
			}
			anyr(f, to)
		}
	}
	switch kind {
	case 0: // "" is the first key (finding 1)
		tr.Count("o-kind-emptyfirst")
		empty()
		insert("")
		has("")
		anyr("", "")
		anyr("", "zzz")
		empty()
		for i := r.Intn(10); i > 0; i-- {
			insert(short())
			queries(short)
		}
		has("")
	case 1, 2: // short keys over a tiny alphabet, "" included
		tr.Count("o-kind-short")
		for i := 1 + r.Intn(150); i > 0; i-- {
			insert(short())
			if r.Intn(3) == 0 {
				queries(short)
			}
		}
	case 3, 4, 5: // up to a few thousand numeric keys (several leaves, all three split points)
		tr.Count("o-kind-medium")
		dom := 200 + r.Intn(3000)
		cnt := 100 + r.Intn(2500)
		mode := r.Intn(4)
		for i := 0; i < cnt; i++ {
			var k string
			switch mode {
			case 0:
				k = num(r.Intn(dom))
			case 1: // ascending runs
				k = num(i)
			case 2: // descending runs
				k = num(cnt - i)
			default: // mixture + near keys
				if r.Intn(3) == 0 {
					k = near(num(r.Intn(dom)))
				} else {
					k = num(r.Intn(dom))
				}
			}
			if r.Intn(200) == 0 {
				k = ""
			}
			insert(k)
			if i%17 == 0 {
				queries(func() string { return num(r.Intn(dom + 5)) })
			}
			if i%500 == 499 {
				dump()
			}
		}
	case 6: // stale slots: fill the root leaf, split, then probe around the separator
		tr.Count("o-kind-stale")
		base := r.Intn(3)
		for i := 0; i < nodeSize; i++ {
			insert(num(10 * (i + 1)))
		}
		dump()
		switch base {
		case 0:
			insert(num(5)) // below the first: split at 1/4
		case 1:
			insert(num(10*nodeSize + 5)) // above the last: split at 3/4
		default:
			insert(num(10*(nodeSize/2) + 5))
		}
		dump()
		for i := 0; i < 300; i++ {
			k := near(num(r.Intn(10 * (nodeSize + 2))))
			if r.Intn(3) == 0 {
				insert(k)
			} else {
				has(k)
				anyr(k, near(k))
			}
		}
	default: // 7,8,9: to capacity ascending / descending / random
		mode := kind - 7
		tr.Count(fmt.Sprintf("o-kind-capacity-%d", mode))
		refused := 0
		for i := 0; refused < 20 && i < 3*nodeSize*nodeSize; i++ {
			var k string
			switch mode {
			case 0:
				k = num(i)
			case 1:
				k = num(99999 - i)
			default:
				k = num(r.Intn(100000))
			}
			if refused > 0 && r.Intn(2) == 0 {
				k = near(k) // after the first refusal also try existing keys and other leaves
			}
			if !insert(k) {
				refused++
			}
			if i%97 == 0 {
				queries(func() string { return num(r.Intn(100000)) })
			}
			if i%2000 == 1999 {
				dump()
			}
		}
		tr.Count(fmt.Sprintf("o-capacity-keys-%dk", len(ref.keys)/1000))
	}
	dump()
	// final: everything inserted is contained, AnyInRange on each key and on the gaps (oracle only)
	for i, k := range ref.keys {
		if !set.Contains(k) {
			fail("ordset-contains", fmt.Sprintf("final: inserted key %q not contained (%d keys)", k, len(ref.keys)))
			break
		}
		if !set.AnyInRange(k, k) {
			fail("ordset-anyinrange", fmt.Sprintf("final: AnyInRange(%q,%q) false", k, k))
			break
		}
		if i+1 < len(ref.keys) {
			g := k + "\x00"
			if g < ref.keys[i+1] {
				if set.AnyInRange(g, g) || set.Contains(g) {
					fail("ordset-anyinrange", fmt.Sprintf("final: gap key %q reported present", g))
					break
				}
			}
		}
	}
	tr.CountN("o-inserts", nops)
	if set.tree != nil {
		tr.Count(fmt.Sprintf("o-leaves-%d", (set.tree.size+15)/16*16))
	} else {
		tr.Count("o-leaves-1")
	}
}
