//go:build verif

package ranges

// C39 (ranges): util/ranges against the array mirror Gsu.Model.Ranges (every Insert result incl.
// the merge count, every Contains, and through `rdump` the internal arrays INCLUDING stale slots)
// and against a coverage reference + the structural invariants (direct oracles).

import (
	"fmt"
	"math/rand"
	"sort"
	"strings"
	"testing"

	lib "github.com/apmckinlay/gsuneido/util/zzverif"
)

func c39hashKey(h uint32, k string) uint32 {
	for i := 0; i < len(k); i++ {
		h = h*131 + uint32(k[i]) + 1
	}
	return h * 131
}

func c39leafStr(sep *string, l *leafNode) string {
	h := uint32(0)
	for i := range l.slots {
		h = c39hashKey(c39hashKey(h, l.slots[i].from), l.slots[i].to)
	}
	s := ""
	if sep != nil {
		s = lib.X(*sep) + ":"
	}
	return fmt.Sprintf("%s%d:%d", s, l.size, h)
}

func c39dump(rs *Ranges) string {
	if rs.tree == nil {
		return "S " + c39leafStr(nil, &rs.leaf)
	}
	var sb strings.Builder
	fmt.Fprintf(&sb, "T %d", rs.tree.size)
	for i := 0; i < rs.tree.size; i++ {
		sb.WriteByte(' ')
		sb.WriteString(c39leafStr(&rs.tree.slots[i].val, rs.tree.slots[i].leaf))
	}
	return sb.String()
}

func c39count(rs *Ranges) int {
	if rs.tree == nil {
		return rs.leaf.size
	}
	n := 0
	for i := 0; i < rs.tree.size; i++ {
		n += rs.tree.slots[i].leaf.size
	}
	return n
}

// c39inv checks the structural invariants (DESIGN A.3); "" when they hold
func c39inv(rs *Ranges) string {
	var prev *leafSlot
	chk := func(l *leafNode) string {
		if l.size < 0 || l.size > nodeSize {
			return fmt.Sprintf("leaf size %d", l.size)
		}
		for i := 0; i < l.size; i++ {
			s := &l.slots[i]
			if s.from > s.to {
				return fmt.Sprintf("slot %q->%q has from > to", s.from, s.to)
			}
			if prev != nil && !(prev.to < s.from) {
				return fmt.Sprintf("slots %q->%q and %q->%q overlap or are out of order", prev.from, prev.to, s.from, s.to)
			}
			prev = s
		}
		return ""
	}
	if rs.tree == nil {
		return chk(&rs.leaf)
	}
	if rs.tree.size < 1 || rs.tree.size > nodeSize {
		return fmt.Sprintf("tree size %d", rs.tree.size)
	}
	if rs.tree.slots[0].leaf != &rs.leaf {
		return "tree slot 0 is not the embedded leaf"
	}
	for ti := 0; ti < rs.tree.size; ti++ {
		l := rs.tree.slots[ti].leaf
		if ti > 0 && l.size == 0 {
			return fmt.Sprintf("empty leaf %d in tree", ti)
		}
		if ti == 0 && rs.tree.slots[0].val != "" {
			return "separator 0 is not empty"
		}
		if ti > 0 && rs.tree.slots[ti].val != l.slots[0].from {
			return fmt.Sprintf("separator %d is %q but leaf starts at %q", ti, rs.tree.slots[ti].val, l.slots[0].from)
		}
		if e := chk(l); e != "" {
			return e
		}
	}
	return ""
}

type c39rg struct{ f, t string }

func TestVerifC39Ranges(t *testing.T) {
	tr := lib.Open()
	defer tr.Close()
	r := lib.Rand()
	n := lib.N(60)
	for h := 0; h < n; h++ {
		kind := h % 10
		if h < 3 {
			kind = 7 + h
		}
		c39history(tr, r, kind)
	}
}

func c39history(tr *lib.Trace, r *rand.Rand, kind int) {
	var rs Ranges
	tr.Q("rreset", "ok")
	const dom = 100000
	cov := make([]bool, dom+1) // coverage of numeric keys
	var other []c39rg        // inserted ranges with a non-numeric end point
	wellformed := true        // false after a from > to insert: oracles off, model compare only
	num := func(i int) string { return fmt.Sprintf("%05d", i) }
	isnum := func(s string) (int, bool) {
		if len(s) != 5 {
			return 0, false
		}
		v := 0
		for i := 0; i < 5; i++ {
			if s[i] < '0' || s[i] > '9' {
				return 0, false
			}
			v = v*10 + int(s[i]-'0')
		}
		return v, true
	}
	link := make([]bool, dom+1) // link[i]: one inserted numeric range covers both i and i+1
	covered := func(v string) bool {
		if i, ok := isnum(v); ok {
			if cov[i] {
				return true
			}
		} else {
			// num(i) < v < num(i+1): covered by a numeric range iff one spans i..i+1
			i := sort.Search(dom+1, func(i int) bool { return num(i) > v }) - 1
			if i >= 0 && i < dom && link[i] {
				return true
			}
		}
		for _, x := range other {
			if x.f <= v && v <= x.t {
				return true
			}
		}
		return false
	}
	nins, nfull := 0, 0
	dump := func() { tr.Q("rdump", c39dump(&rs)) }
	insert := func(f, t string) int {
		nins++
		before := c39count(&rs)
		var res int
		if p := lib.Catch(func() { res = rs.Insert(f, t) }); p != "" {
			tr.Q("rins "+lib.X(f)+" "+lib.X(t), "!panic")
			tr.Fail("ranges-panic", fmt.Sprintf("Insert(%q,%q) panicked: %s", f, t, p))
			return Full
		}
		if res >= Full {
			nfull++
			tr.Q("rins "+lib.X(f)+" "+lib.X(t), "!full")
			if wellformed && before < nodeSize*(nodeSize/4) {
				tr.Fail("ranges-full-early", fmt.Sprintf("Insert(%q,%q) = Full with only %d ranges", f, t, before))
			}
			return res
		}
		tr.Q("rins "+lib.X(f)+" "+lib.X(t), fmt.Sprint(res))
		if f > t {
			wellformed = false
			tr.Count("r-malformed-insert")
		}
		if !wellformed {
			return res
		}
		a, ok1 := isnum(f)
		b, ok2 := isnum(t)
		if ok1 && ok2 {
			for i := a; i <= b; i++ {
				cov[i] = true
				if i < b {
					link[i] = true
				}
			}
		} else {
			other = append(other, c39rg{f, t})
		}
		if after := c39count(&rs); res != after-before {
			tr.Fail("ranges-inc", fmt.Sprintf("Insert(%q,%q) returned %d but the number of ranges went %d -> %d", f, t, res, before, after))
		}
		if e := c39inv(&rs); e != "" {
			tr.Fail("ranges-invariant", fmt.Sprintf("after Insert(%q,%q): %s", f, t, e))
		}
		if !rs.Contains(f) || !rs.Contains(t) {
			tr.Fail("ranges-contains", fmt.Sprintf("after Insert(%q,%q) an end point is not contained", f, t))
		}
		switch {
		case res == 1:
			tr.Count("r-res-added")
		case res == 0:
			tr.Count("r-res-existed-or-merged1")
		default:
			tr.Count("r-res-merged-many")
		}
		return res
	}
	has := func(v string) {
		got := rs.Contains(v)
		tr.Q("rhas "+lib.X(v), lib.B(got))
		if wellformed && got != covered(v) {
			tr.Fail("ranges-contains", fmt.Sprintf("Contains(%q)=%v, reference %v (%d inserts)", v, got, covered(v), nins))
		}
	}
	probe := func(d int) {
		for q := 1 + r.Intn(5); q > 0; q-- {
			v := num(r.Intn(d + 3))
			switch r.Intn(8) {
			case 0:
				v = ""
			case 1:
				v += "\x00"
			case 2:
				v = v[:4]
			}
			has(v)
		}
	}
	switch kind {
	case 0, 1: // tiny domain: heavy coalescing inside one leaf, "" end points, from == to
		tr.Count("r-kind-tiny")
		d := 20 + r.Intn(60)
		for i := 5 + r.Intn(300); i > 0; i-- {
			a := r.Intn(d)
			b := a + r.Intn(3)
			if r.Intn(10) == 0 {
				b = a + r.Intn(d/2)
			}
			f, t := num(a), num(b)
			switch r.Intn(25) {
			case 0:
				f = ""
			case 1:
				f, t = "", ""
			case 2:
				t += "\x00"
			case 3:
				f = f[:4]
			}
			insert(f, t)
			probe(d)
		}
	case 2: // malformed stream: some from > to (model comparison only afterwards)
		tr.Count("r-kind-malformed")
		d := 50
		for i := 5 + r.Intn(80); i > 0; i-- {
			a, b := r.Intn(d), r.Intn(d)
			if r.Intn(4) != 0 && a > b {
				a, b = b, a
			}
			insert(num(a), num(b))
			probe(d)
		}
	case 3, 4, 5, 6: // many small disjoint ranges (tree, splits), then wide ranges swallowing leaves
		tr.Count("r-kind-medium")
		d := 500 + r.Intn(20000)
		cnt := 200 + r.Intn(3000)
		mode := r.Intn(3)
		for i := 0; i < cnt; i++ {
			var a int
			switch mode {
			case 0:
				a = r.Intn(d)
			case 1:
				a = (3 * i) % d
			default:
				a = d - (3*i)%d
			}
			b := a + r.Intn(2)
			if r.Intn(40) == 0 {
				b = a + r.Intn(30)
			}
			if r.Intn(400) == 0 {
				b = a + r.Intn(d/2+1) // swallows many slots, possibly whole leaves
			}
			if b > dom {
				b = dom
			}
			f := num(a)
			if r.Intn(300) == 0 {
				f = ""
			}
			insert(f, num(b))
			if i%13 == 0 {
				probe(d)
			}
			if i%500 == 499 {
				dump()
			}
		}
		// finally a few very wide ranges
		for i := r.Intn(4); i > 0; i-- {
			a := r.Intn(d)
			b := a + r.Intn(d)
			if b > dom {
				b = dom
			}
			insert(num(a), num(b))
			probe(d)
			dump()
		}
	default: // 7,8,9: disjoint singletons to capacity, ascending / descending / random; then wide merges
		mode := kind - 7
		tr.Count(fmt.Sprintf("r-kind-capacity-%d", mode))
		full := 0
		for i := 0; full < 10 && i < 49000; i++ {
			var a int
			switch mode {
			case 0:
				a = 2 * i
			case 1:
				a = 99998 - 2*i
			default:
				a = 2 * r.Intn(50000)
			}
			if insert(num(a), num(a)) >= Full {
				full++
			}
			if i%97 == 0 {
				probe(dom)
			}
			if i%2000 == 1999 {
				dump()
			}
		}
		tr.Count(fmt.Sprintf("r-capacity-ranges-%dk", c39count(&rs)/1000))
		dump()
		// wide inserts over the full structure: removes whole leaves from the tree
		for i := 0; i < 6; i++ {
			a := r.Intn(dom)
			b := a + r.Intn(dom/4)
			if b > dom {
				b = dom
			}
			insert(num(a), num(b))
			probe(dom)
			dump()
		}
	}
	dump()
	// final sweep of the numeric domain against the coverage (oracle only)
	if wellformed {
		for i := 0; i <= dom; i += 1 + r.Intn(7) {
			if got := rs.Contains(num(i)); got != covered(num(i)) {
				tr.Fail("ranges-contains", fmt.Sprintf("final: Contains(%q)=%v, reference %v", num(i), got, !got))
				break
			}
		}
	}
	tr.CountN("r-inserts", nins)
	tr.CountN("r-full", nfull)
	if rs.tree != nil {
		tr.Count(fmt.Sprintf("r-leaves-%d", (rs.tree.size+15)/16*16))
	} else {
		tr.Count("r-leaves-1")
	}
}
