//go:build verif

package core

// C43: shared containers, records and closure slots hammered from several goroutines.
// Quick tier: consistency oracles (no lost updates, nothing lost or duplicated, no panics,
// SetConcurrent propagation) and a deterministic probe of the unlock window of Unique.
// Thorough tier: the same under the race detector (`race: true` in checks/C43.json).
// No model replay (there is no Lean driver for this property).

import (
	"fmt"
	"sort"
	"strings"
	"sync"
	"testing"

	lib "github.com/apmckinlay/gsuneido/util/zzverif"
)

// verifProbe is a value whose Equal runs a callback (user code reached from Unique)
type verifProbe struct {
	ValueBase[verifProbe]
	fn func()
}

func (p *verifProbe) Equal(other any) bool {
	if p.fn != nil {
		p.fn()
	}
	return p == other
}
func (p *verifProbe) SetConcurrent() {}
func (p *verifProbe) String() string { return "P" }

func verifListText(ob *SuObject) string {
	n := ob.ListSize()
	s := make([]string, 0, n)
	for i := 0; i < n; i++ {
		var x Value
		msg := lib.Catch(func() { x = ob.ListGet(i) })
		switch {
		case msg != "":
			s = append(s, "!"+msg)
		case x == nil:
			s = append(s, "nil")
		default:
			s = append(s, x.String())
		}
	}
	return strings.Join(s, ",")
}

func TestVerifC43Shared(t *testing.T) {
	tr := lib.Open()
	defer tr.Close()
	r := lib.Rand()
	rounds := lib.N(60)
	const G = 4
	for round := 0; round < rounds; round++ {
		K := 50 + r.Intn(150)
		// ---- shared object
		ob := &SuObject{}
		ob.Set(SuStr("n"), Zero)
		child := &SuObject{}
		ob.Set(SuStr("child"), child)
		ob.SetConcurrent()
		if child.IsConcurrent() != True {
			tr.Fail("setconcurrent-child", "member of a shared object is not marked concurrent")
		}
		// ---- shared record
		rec := NewSuRecord()
		rec.Put(nil, SuStr("n"), Zero)
		rec.SetConcurrent()
		// ---- shared closure slots
		sh := &Shared{values: []Value{Zero, Zero}}
		sh.concurrent = true
		var wg sync.WaitGroup
		var mu sync.Mutex
		var panics []string
		seeds := make([]int64, G)
		for g := range seeds {
			seeds[g] = r.Int63()
		}
		for g := 0; g < G; g++ {
			wg.Add(1)
			go func(g int) {
				defer wg.Done()
				msg := lib.Catch(func() {
					fr := &Frame{shared: sh}
					for i := 0; i < K; i++ {
						ob.GetPut(nil, SuStr("n"), One, OpAdd, false)
						ob.Add(IntVal(g*100000 + i))
						rec.GetPut(nil, SuStr("n"), One, OpAdd, false)
						rec.Put(nil, IntVal(g*100000+i), IntVal(i))
						fr.getSetSlot(SharedSlotStart, One, OpAdd, false)
						fr.setSlot(SharedSlotStart+1, IntVal(i))
						_ = fr.getSlot(SharedSlotStart + 1)
						switch (i + g) % 8 {
						case 0:
							_ = ob.Size()
							_ = ob.Get(nil, SuStr("n"))
						case 1:
							c := ob.Copy()
							c.Add(One) // copy-on-write must not disturb the original
						case 2:
							_ = ob.Find(IntVal(g*100000 + i))
							_ = ob.Hash()
						case 3:
							// iteration may legitimately report a concurrent modification
							it := ob.Iter2(true, true)
							m := lib.Catch(func() {
								for k, _ := it(); k != nil; k, _ = it() {
								}
							})
							if m != "" && !strings.Contains(m, "modified during iteration") {
								panic(m)
							}
						case 4:
							nested := &SuObject{}
							nested.Add(One)
							ob.Put(nil, IntVal(-1-g), nested) // publishes nested: must become concurrent
							if nested.IsConcurrent() != True {
								panic("verif: value stored into a shared object not marked concurrent")
							}
						case 5:
							_ = rec.Get(nil, SuStr("n"))
							_ = rec.Copy()
						case 6:
							_ = ob.Equal(child)
							_ = ob.HasKey(IntVal(i))
						case 7:
							child.Add(IntVal(i))
							if child.ListSize() > 20 {
								child.PopFirst()
							}
						}
					}
				})
				if msg != "" {
					mu.Lock()
					panics = append(panics, msg)
					mu.Unlock()
				}
			}(g)
		}
		wg.Wait()
		tr.Count("rounds")
		tr.CountN("operations", G*K*7)
		for _, p := range panics {
			tr.Fail("panic", "panic under concurrent use: "+p)
		}
		// no lost updates
		if got := ToInt(ob.Get(nil, SuStr("n"))); got != G*K {
			tr.Fail("lost-update-object", fmt.Sprintf("shared object counter %d after %d increments", got, G*K))
		}
		if got := ToInt(rec.Get(nil, SuStr("n"))); got != G*K {
			tr.Fail("lost-update-record", fmt.Sprintf("shared record counter %d after %d increments", got, G*K))
		}
		if got := ToInt(sh.values[0]); got != G*K {
			tr.Fail("lost-update-closure", fmt.Sprintf("shared closure slot %d after %d increments", got, G*K))
		}
		// nothing lost or duplicated among the appended members
		if ob.ListSize() != G*K {
			tr.Fail("lost-add", fmt.Sprintf("list size %d after %d adds", ob.ListSize(), G*K))
		} else {
			vals := make([]int, G*K)
			for i := range vals {
				vals[i] = ToInt(ob.ListGet(i))
			}
			sort.Ints(vals)
			for g := 0; g < G; g++ {
				for i := 0; i < K; i++ {
					if vals[g*K+i] != g*100000+i {
						tr.Fail("lost-add", fmt.Sprintf("appended members wrong at %d: %d", g*K+i, vals[g*K+i]))
						g, i = G, K
					}
				}
			}
		}
		if n := rec.ToObject().Size(); n != G*K+1 {
			tr.Fail("lost-put-record", fmt.Sprintf("record has %d members after %d distinct puts", n, G*K+1))
		}
	}

	verifPropagation(tr)
	verifObserverCow(tr)

	// ---- deterministic probe: a reader during the unlock window of Unique
	// Unique on a concurrent object releases the lock while it compacts ob.list in place
	// (it calls Equal of the members). A reader that runs in that window must see the list as
	// it was before or as it is after, never a state in between.
	for _, shared := range []bool{false, true} {
		ob := &SuObject{}
		var seen []string
		probe := &verifProbe{}
		ob.Add(IntVal(1))
		ob.Add(IntVal(1))
		ob.Add(IntVal(2))
		ob.Add(probe)
		if shared {
			ob.SetConcurrent()
		}
		before := verifListText(ob)
		probe.fn = func() {
			if !shared {
				return // a private object cannot be read by another thread
			}
			done := make(chan string)
			go func() { done <- verifListText(ob) }()
			seen = append(seen, <-done)
		}
		msg := lib.Catch(func() { ob.Unique() })
		probe.fn = nil
		after := verifListText(ob)
		if msg != "" {
			tr.Fail("unique-probe-panic", msg)
		}
		if after != "1,2,P" {
			tr.Fail("unique-result", "Unique gave "+after)
		}
		for _, s := range seen {
			tr.Count("unique-window-reads")
			if s != before && s != after {
				tr.Fail("unique-window-torn-read", fmt.Sprintf(
					"a reader running while Unique() has released the lock saw the list [%s]; before [%s], after [%s]", s, before, after))
				break
			}
		}
	}
}

// verifPropagation: every value that is stored into a shared (concurrent) container, record or
// closure through any storing method must itself be made concurrent, otherwise a second thread
// reaches it without locking.
func verifPropagation(tr *lib.Trace) {
	fresh := func() *SuObject { o := &SuObject{}; o.Add(One); return o }
	check := func(what string, vals ...*SuObject) {
		tr.Count("propagation-checks")
		for _, v := range vals {
			if v.IsConcurrent() != True {
				tr.Fail("setconcurrent-"+strings.Fields(what)[0], what+": the stored value is reachable from a shared value but was not made concurrent")
			}
		}
	}
	for _, pre := range []int{0, 3} { // empty list / list with members
		newOb := func() *SuObject {
			ob := &SuObject{}
			for i := 0; i < pre; i++ {
				ob.Add(IntVal(i))
			}
			ob.SetConcurrent()
			return ob
		}
		var v, k *SuObject
		ob := newOb()
		v = fresh()
		ob.Add(v)
		check("Add", v)
		for _, at := range []int{0, pre, pre / 2} {
			ob, v = newOb(), fresh()
			ob.Insert(at, v)
			check(fmt.Sprintf("Insert at %d of %d (inside the list)", at, pre), v)
		}
		for _, at := range []int{-1, pre + 5} {
			ob, v = newOb(), fresh()
			ob.Insert(at, v)
			check(fmt.Sprintf("Insert at %d of %d (outside the list)", at, pre), v)
		}
		for _, key := range []Value{IntVal(0), IntVal(pre), IntVal(pre + 7), SuStr("name")} {
			ob, v = newOb(), fresh()
			ob.Put(nil, key, v)
			check("Put "+key.String(), v)
			ob, v = newOb(), fresh()
			ob.Set(key, v)
			check("Set "+key.String(), v)
		}
		ob, v, k = newOb(), fresh(), fresh()
		ob.Put(nil, k, v)
		check("Put object key", k, v)
		ob, v = newOb(), fresh()
		ob.Set(SuStr("x"), One)
		ob.CompareAndSet(SuStr("x"), v, One)
		check("CompareAndSet", v)
		ob, v = newOb(), fresh()
		ob.Set(SuStr("x"), One)
		ob.GetPut(nil, SuStr("x"), One, func(x, y Value) Value { return v }, false)
		check("GetPut", v)
		ob, v = newOb(), fresh()
		ob.SetDefault(v)
		check("SetDefault", v)
		// values already inside when the container is shared
		inner, dflt, kk := fresh(), fresh(), fresh()
		ob = &SuObject{}
		ob.Add(inner)
		ob.Set(kk, fresh())
		ob.SetDefault(dflt)
		ob.SetConcurrent()
		check("SetConcurrent of a container with members", inner, dflt, kk)
	}
	// records
	newRec := func() *SuRecord { r := NewSuRecord(); r.SetConcurrent(); return r }
	rec, v := newRec(), fresh()
	rec.Put(nil, SuStr("a"), v)
	check("record Put", v)
	rec, v = newRec(), fresh()
	rec.Set(SuStr("a"), v)
	check("record Set", v)
	rec, v = newRec(), fresh()
	rec.Add(v)
	check("record Add", v)
	rec, v = newRec(), fresh()
	rec.Insert(0, v)
	check("record Insert", v)
	rec, v = newRec(), fresh()
	rec.PreSet(SuStr("a"), v)
	check("record PreSet", v)
	rec, v = newRec(), fresh()
	rec.Observer(v)
	check("record Observer", v)
	rec, v = newRec(), fresh()
	rec.AttachRule(SuStr("a"), v)
	check("record AttachRule", v)
	rec, v = NewSuRecord(), fresh()
	rule, obs := fresh(), fresh()
	rec.Put(nil, SuStr("a"), v)
	rec.AttachRule(SuStr("r"), rule)
	rec.Observer(obs)
	rec.SetConcurrent()
	check("SetConcurrent of a record with members, rules and observers", v, rule, obs)
	// closures: `this` and the shared variables
	for _, withShared := range []bool{false, true} {
		this, sv := fresh(), fresh()
		c := &SuClosure{this: this, SuFunc: &SuFunc{}}
		if withShared {
			c.shared = &Shared{values: []Value{sv, nil}}
		}
		c.SetConcurrent()
		check(fmt.Sprintf("closure SetConcurrent (shared variables: %v): this", withShared), this)
		if withShared {
			check("closure SetConcurrent: shared variable", sv)
			if !c.shared.concurrent {
				tr.Fail("setconcurrent-closure-shared", "closure made concurrent but its shared slots are not locked")
			}
		}
		// a closure stored into a shared container
		this = fresh()
		c = &SuClosure{this: this, SuFunc: &SuFunc{}}
		ob := &SuObject{}
		ob.SetConcurrent()
		ob.Add(c)
		check("closure stored into a shared object: this", this)
	}
}

// verifObserverCow: the observer list is copy-on-write, so observers that add or remove
// observers while a notification round is running do not disturb that round: every observer that
// was registered when the round started is called exactly once.
func verifObserverCow(tr *lib.Trace) {
	th := NewThread(nil)
	for _, shared := range []bool{false, true} {
		for victim := 0; victim < 3; victim++ {
			rec := NewSuRecord()
			var calls []string
			obs := make([]Value, 3)
			names := []string{"A", "B", "C"}
			for i := range obs {
				i := i
				obs[i] = &SuBuiltin1{Fn: func(m Value) Value {
					calls = append(calls, names[i])
					if i == 0 && len(calls) == 1 {
						rec.RemoveObserver(obs[victim]) // an observer unregisters one of them
					}
					return nil
				}, BuiltinParams: BuiltinParams{ParamSpec: ParamSpec{Nparams: 1, Flags: []Flag{0},
					Names: []string{"member"}}}}
				rec.Observer(obs[i])
			}
			if shared {
				rec.SetConcurrent()
			}
			msg := lib.Catch(func() { rec.Put(th, SuStr("x"), One) })
			tr.Count("observer-cow-rounds")
			got := strings.Join(calls, "")
			if msg != "" || got != "ABC" {
				tr.Fail("observer-list-not-cow", fmt.Sprintf(
					"observers A,B,C; A removes %s during the round (shared=%v): called %q %s; every observer registered at the start of the round must be called once",
					names[victim], shared, got, msg))
			}
			calls = nil
			msg = lib.Catch(func() { rec.Put(th, SuStr("x"), IntVal(2)) })
			want := strings.Replace("ABC", names[victim], "", 1)
			if got := strings.Join(calls, ""); msg != "" || got != want {
				tr.Fail("observer-remove", fmt.Sprintf("after removing %s the next round called %q %s", names[victim], got, msg))
			}
		}
	}
}
