//go:build verif

package builtin

// C42: generated Suneido functions that call Transaction(update:) with a block whose body
// inserts rows and then leaves in every way (normal / return / throw / break / continue),
// optionally ending the transaction itself first (t.Complete() / t.Rollback()), optionally
// using it after that, optionally with a conflicting transaction so that the commit fails.
// The functions run on a real Thread against a local dbms; afterwards the table is inspected.
//
// Q: blk <status at exit> <exit> <commitOk>  ->  committed|rolledback none|same|completefailed
// Direct oracles (F): txn-block:<exit>:<what> — rows present although the block threw / absent
// although it finished, exception swallowed or changed, transaction left open.

import (
	"fmt"
	"strings"
	"testing"
	"time"

	"github.com/apmckinlay/gsuneido/compile"
	. "github.com/apmckinlay/gsuneido/core"
	"github.com/apmckinlay/gsuneido/db19"
	"github.com/apmckinlay/gsuneido/db19/stor"
	"github.com/apmckinlay/gsuneido/dbms"
	qry "github.com/apmckinlay/gsuneido/dbms/query"
	lib "github.com/apmckinlay/gsuneido/util/zzverif"
)

func TestVerifC42TxnBlock(t *testing.T) {
	tr := lib.Open()
	defer tr.Close()
	r := lib.Rand()
	n := lib.N(300)
	db := db19.CreateDb(stor.HeapStor(64 * 1024))
	db19.StartConcur(db, time.Hour)
	defer db.Close()
	d := dbms.NewDbmsLocal(db)
	GetDbms = func() IDbms { return d }
	qry.DoAdmin(db, "create tt (k, v) key(k)", nil)
	qry.DoAdmin(db, "create hot (k, v) key(k)", nil)
	{
		ut := db.NewUpdateTran()
		qry.DoAction(nil, ut, "insert { k: 0, v: 0 } into hot")
		ut.Commit()
	}
	nfail := map[string]int{}
	fail := func(sig, desc string) {
		nfail[sig]++
		tr.Count("F:" + sig)
		if nfail[sig] <= 3 {
			tr.Fail(sig, desc)
		}
	}
	countRows := func(lo, hi int) int {
		rt := d.Transaction(false)
		defer rt.Complete()
		q := rt.Query(fmt.Sprintf("tt where k >= %d and k < %d", lo, hi), nil)
		defer q.Close()
		c := 0
		th := &Thread{}
		for {
			row, _ := q.Get(th, Next)
			if row == nil {
				return c
			}
			c++
		}
	}
	hotV := func() int {
		rt := d.Transaction(false)
		defer rt.Complete()
		row, hdr, _ := rt.Get(&Thread{}, SuObjectOf(SuStr("hot")), Only)
		if row == nil {
			return -1
		}
		return ToInt(row.GetVal(hdr, "v", nil, nil))
	}
	// "rterr": the body fails with a runtime / builtin error (a Go string or error panic, not a
	// Suneido exception value): unknown method, nonexistent table, readonly object, bad call
	exits := []string{"normal", "return", "throw", "break", "continue", "rterr"}
	rterrs := [][2]string{
		{"t.NoSuchMethod()", "method not found"},
		{"t.QueryDo('insert { k: 1 } into nosuchtable')", "nonexistent table"},
		{"#(1, 2).Add(3)", "readonly"},
		{"(123)()", "can't call"},
		{"t.Query1('tt where')", "syntax error"},
		{"Object().x.y", "member not found"},
	}
	ends := []string{"active", "active", "active", "completed", "aborted"}
	for i := 0; i < n; i++ {
		exit := exits[i%len(exits)]
		end := ends[(i/len(exits))%len(ends)]
		if i >= 50 {
			exit = exits[r.Intn(len(exits))]
			end = ends[r.Intn(len(ends))]
		}
		conflict := end == "active" && r.Intn(5) == 0
		useAfterEnd := end != "active" && r.Intn(4) == 0
		nested := r.Intn(6) == 0 // the block sits inside another block / function level
		base := (i + 1) * 100
		nrows := 1 + r.Intn(4)
		var body strings.Builder
		for j := 0; j < nrows; j++ {
			fmt.Fprintf(&body, "t.QueryDo('insert { k: %d, v: ' $ Display(i) $ ' } into tt'); ", base+j)
		}
		if conflict {
			// last thing before leaving: read a row, then another transaction tries to change it.
			// The checker aborts one of the two; which one is its business (C01). If the other
			// one committed (hot.v changed) our commit must fail, otherwise it must succeed.
			body.WriteString("t.Query1('hot where k = 0'); ")
			body.WriteString(fmt.Sprintf("try Transaction(update:) {|t2| t2.QueryDo('update hot set v = %d') } catch (unused) { }; ", i+1))
		}
		switch end {
		case "completed":
			body.WriteString("t.Complete(); ")
		case "aborted":
			body.WriteString("t.Rollback(); ")
		}
		if useAfterEnd {
			// using an ended transaction throws: the exit becomes a throw whatever follows
			fmt.Fprintf(&body, "t.QueryDo('insert { k: %d, v: 1 } into tt'); ", base+50)
		}
		var leave, wantVal string
		var rt [2]string
		switch exit {
		case "normal":
			leave, wantVal = "77", `"after:77"`
		case "return":
			leave, wantVal = "return 55", "55"
		case "throw":
			leave = `throw "boom"`
		case "break":
			leave = "break"
		case "continue":
			leave = "continue"
		case "rterr":
			rt = rterrs[r.Intn(len(rterrs))]
			leave = rt[0]
		}
		src := fmt.Sprintf(`function () { i = 1; r = Transaction(update:) {|t| %s%s }; return "after:" $ Display(r) }`,
			body.String(), leave)
		if nested {
			src = fmt.Sprintf(`function () { i = 1; f = function (i) { r = Transaction(update:) {|t| %s%s }; return "after:" $ Display(r) }; return f(i) }`,
				body.String(), leave)
		}
		th := NewThread(nil)
		var val Value
		exc := lib.Catch(func() {
			fn := compile.Constant(src)
			val = th.Call(fn)
		})
		th.Close()
		rows := countRows(base, base+100)
		effExit := exit
		if useAfterEnd || exit == "rterr" {
			effExit = "throw"
		}
		// classify what the implementation did
		dbOut := "rolledback"
		if rows == nrows {
			dbOut = "committed"
		} else if rows != 0 {
			fail("txn-block:"+exit+":partial", fmt.Sprintf("%d of %d rows present after %s", rows, nrows, src))
		}
		raised := "none"
		switch {
		case exc == "":
			if effExit == "return" && val != nil && val.String() == wantVal {
				raised = "same" // the return propagated to the enclosing function
			} else if effExit == "normal" && val != nil && val.String() == wantVal {
				raised = "none"
			} else {
				raised = "swallowed"
			}
		case strings.Contains(exc, "transaction.Complete failed"):
			raised = "completefailed"
		case exit == "rterr" && !useAfterEnd && (strings.Contains(exc, rt[1]) ||
			end != "active" && strings.HasPrefix(rt[0], "t.") && strings.Contains(exc, "ended")),
			exit == "throw" && !useAfterEnd && strings.Contains(exc, "boom"),
			useAfterEnd && strings.Contains(exc, "ended"),
			effExit == "break" && strings.Contains(exc, "block:break"),
			effExit == "continue" && strings.Contains(exc, "block:continue"):
			raised = "same"
		default:
			raised = "other:" + exc
		}
		commitOk := true
		if conflict {
			if hotV() == i+1 {
				commitOk = false
				tr.Count("conflict:other-committed")
			} else {
				tr.Count("conflict:other-aborted")
			}
		}
		tr.Q(fmt.Sprintf("blk %s %s %s", end, effExit, lib.B(commitOk)), dbOut+" "+raised)
		tr.Count(fmt.Sprintf("blk:%s:%s:conflict=%v:nested=%v", end, effExit, conflict, nested))
		if exit == "rterr" {
			tr.Count("rterr:" + rt[1])
		}
		tr.Sample(src)
		// direct oracle: the property as worded (independent of the model)
		if end == "active" {
			finishes := effExit == "normal" || effExit == "return"
			switch {
			case finishes && commitOk && dbOut != "committed":
				fail("txn-block:"+effExit+":not-committed", src)
			case !finishes && dbOut != "rolledback":
				fail("txn-block:"+effExit+":committed-despite-exception", src)
			case !finishes && raised != "same":
				fail("txn-block:"+effExit+":exception-lost", fmt.Sprintf("%s -> %s / %v", src, exc, val))
			case finishes && !commitOk && (dbOut != "rolledback" || raised != "completefailed"):
				fail("txn-block:"+effExit+":failed-commit-not-reported", fmt.Sprintf("%s -> %s %s", src, dbOut, raised))
			}
		}
		if end != "active" {
			// the block ended the transaction itself: the database follows that, and whatever
			// leaves the block afterwards (exception, return, break, continue) still propagates
			want := "committed"
			if end == "aborted" {
				want = "rolledback"
			}
			switch {
			case dbOut != want:
				fail("txn-block:"+effExit+":explicit-end-overridden", fmt.Sprintf("%s -> %s", src, dbOut))
			case effExit != "normal" && raised != "same":
				fail("txn-block:"+effExit+":exception-lost", fmt.Sprintf("(after explicit %s) %s -> %s / %v", end, src, exc, val))
			case effExit == "normal" && raised != "none":
				fail("txn-block:normal:spurious-exception", fmt.Sprintf("%s -> %s", src, exc))
			}
		}
		// no transaction may be left open
		if nt := d.Transactions().Size(); nt != 0 {
			fail("txn-block:"+effExit+":left-open", fmt.Sprintf("%d transactions still open after %s", nt, src))
		}
	}
}
