//go:build verif

package builtin

// C44, "A disabled trigger is not called until it is re-enabled as many times as it was disabled":
// the language-level entry point DoWithoutTriggers(tables, block) (builtin/database.go).
// Random programs of nested DoWithoutTriggers calls over two tables (the table lists overlap and
// repeat), inserts at every level, blocks that return and blocks that THROW, exceptions caught at
// a random enclosing level. Entering a call is a `dis` of its tables for the Lean model
// (Gsu.Model.LDb), leaving it - normally or by exception - an `ena`; every insert is replayed by
// the model (was the trigger called?). Direct oracles on the implementation:
//   trigger-called-while-disabled   an insert inside a DoWithoutTriggers block of that table called its trigger
//   trigger-disabled-after-block    an insert outside every block of that table did not call its trigger

import (
	"fmt"
	"math/rand"
	"strings"
	"testing"
	"time"

	. "github.com/apmckinlay/gsuneido/core"
	"github.com/apmckinlay/gsuneido/db19"
	"github.com/apmckinlay/gsuneido/db19/stor"
	"github.com/apmckinlay/gsuneido/dbms"
	"github.com/apmckinlay/gsuneido/dbms/query"
	lib "github.com/apmckinlay/gsuneido/util/zzverif"
)

type vbNode struct {
	insert int // >= 0: insert into table
	update int // >= 0 (with insert < 0 and no tables): `update <table> set c1 = c1 $ 'x'`
	tables []int
	body   []*vbNode
	throws bool
	catch  bool // the caller of this DoWithoutTriggers catches its exception
}

func vbGen(r *rand.Rand, depth int) []*vbNode {
	n := 1 + r.Intn(3)
	var out []*vbNode
	for i := 0; i < n; i++ {
		if depth == 0 || r.Intn(3) == 0 {
			if r.Intn(4) == 0 {
				out = append(out, &vbNode{insert: -1, update: r.Intn(2)})
			} else {
				out = append(out, &vbNode{insert: r.Intn(2), update: -1})
			}
			continue
		}
		nd := &vbNode{insert: -1, update: -1, throws: r.Intn(3) == 0, catch: r.Intn(2) == 0}
		for k := 1 + r.Intn(3); k > 0; k-- {
			nd.tables = append(nd.tables, r.Intn(2)) // repeats allowed: disabled twice, enabled twice
		}
		nd.body = vbGen(r, depth-1)
		out = append(out, nd)
	}
	return out
}

var vbTables = []string{"zzv44a", "zzv44b"}

type vbRun struct {
	tr     *lib.Trace
	db     *db19.Database
	th     *Thread
	depth  [2]int // how often each table is disabled according to the program
	calls  []string
	nkey   int
	rows   [2][][2]string // rows of each table (key, value) as the program made them
	hist   string
	failed bool
}

func (g *vbRun) fail(sig, desc string) {
	g.failed = true
	g.tr.Fail(sig, desc+" program: "+g.hist)
}

func (g *vbRun) insert(t int) {
	g.nkey++
	k := fmt.Sprint("k", g.nkey)
	g.calls = nil
	ut := g.db.NewUpdateTran()
	g.tr.Q("begin", "ok")
	msg := lib.Catch(func() {
		query.DoAction(g.th, ut, fmt.Sprintf("insert { c0: %q, c1: 'v' } into %s", k, vbTables[t]))
	})
	g.hist += fmt.Sprintf(" insert(%s)", vbTables[t])
	out := "ok"
	for _, c := range g.calls {
		out += " " + c
	}
	if msg != "" {
		out = "!other:" + msg
	}
	g.tr.Q(fmt.Sprintf("out %d %s %s", t, lib.X(k), lib.X("v")), out)
	if res := ut.Complete(); res != "" {
		g.tr.Q("commit", "!"+res)
	} else {
		g.tr.Q("commit", "ok")
	}
	if msg == "" {
		g.rows[t] = append(g.rows[t], [2]string{k, "v"})
	}
	g.tr.Count(fmt.Sprint("insert at disable depth ", g.depth[t]))
	if g.depth[t] > 0 && len(g.calls) > 0 {
		g.fail("trigger-called-while-disabled", fmt.Sprintf("insert into %s inside %d DoWithoutTriggers of it called the trigger;", vbTables[t], g.depth[t]))
	}
	if g.depth[t] == 0 && len(g.calls) != 1 {
		g.fail("trigger-disabled-after-block", fmt.Sprintf("insert into %s outside every DoWithoutTriggers block of it made %d trigger calls (expected 1);", vbTables[t], len(g.calls)))
	}
}

// updateAll: a query statement that changes every row of the table: one call per row, with old and new
func (g *vbRun) updateAll(t int) {
	g.calls = nil
	ut := g.db.NewUpdateTran()
	g.tr.Q("begin", "ok")
	n := 0
	msg := lib.Catch(func() {
		n = query.DoAction(g.th, ut, fmt.Sprintf("update %s set c1 = c1 $ 'x'", vbTables[t]))
	})
	g.hist += fmt.Sprintf(" update(%s)", vbTables[t])
	if msg != "" || n != len(g.rows[t]) {
		g.fail("update-statement", fmt.Sprintf("update of %d rows of %s: count %d error %q;", len(g.rows[t]), vbTables[t], n, msg))
		ut.Abort()
		g.tr.Q("abort", "ok")
		return
	}
	for i, row := range g.rows[t] {
		nv := row[1] + "x"
		out := "ok"
		for _, c := range g.calls {
			if strings.HasPrefix(c, fmt.Sprintf("%d:%s,", t, lib.X(row[0]))) {
				out += " " + c
			}
		}
		g.tr.Q(fmt.Sprintf("upd %d 2 %s %s %s %s", t, lib.X(row[0]), lib.X(row[1]), lib.X(row[0]), lib.X(nv)), out)
		g.rows[t][i][1] = nv
	}
	if res := ut.Complete(); res != "" {
		g.tr.Q("commit", "!"+res)
	} else {
		g.tr.Q("commit", "ok")
	}
	g.tr.Count(fmt.Sprint("update statement at disable depth ", g.depth[t]))
	g.tr.CountN("rows updated by statements", len(g.rows[t]))
	if g.depth[t] > 0 && len(g.calls) > 0 {
		g.fail("trigger-called-while-disabled", fmt.Sprintf("update of %s inside %d DoWithoutTriggers of it called the trigger;", vbTables[t], g.depth[t]))
	}
	if g.depth[t] == 0 && len(g.calls) != len(g.rows[t]) {
		g.fail("trigger-disabled-after-block", fmt.Sprintf("update of %d rows of %s outside every DoWithoutTriggers block of it made %d trigger calls;", len(g.rows[t]), vbTables[t], len(g.calls)))
	}
}

// exec runs the nodes; a panic of a non-catching DoWithoutTriggers propagates to the caller
func (g *vbRun) exec(nodes []*vbNode) {
	for _, nd := range nodes {
		if g.failed {
			return
		}
		if nd.insert >= 0 {
			g.insert(nd.insert)
			continue
		}
		if nd.update >= 0 {
			g.updateAll(nd.update)
			continue
		}
		g.without(nd)
	}
}

func (g *vbRun) without(nd *vbNode) {
	tables := &SuObject{}
	for _, t := range nd.tables {
		tables.Add(SuStr(vbTables[t]))
	}
	block := &SuBuiltin0{Fn: func() Value {
		g.exec(nd.body)
		if nd.throws {
			g.hist += " throw"
			g.tr.Count("block throws")
			panic("block failed")
		}
		return nil
	}, BuiltinParams: BuiltinParams{ParamSpec: ParamSpec0}}
	call := func() {
		// by the property: disabled once per listed table for the duration of the block,
		// re-enabled as many times when the block is left - normally or by an exception
		for _, t := range nd.tables {
			g.depth[t]++
			g.tr.Q(fmt.Sprintf("dis %d", t), "ok")
		}
		g.hist += fmt.Sprintf(" DoWithoutTriggers(%v){", nd.tables)
		defer func() {
			for _, t := range nd.tables {
				g.depth[t]--
				g.tr.Q(fmt.Sprintf("ena %d", t), "ok")
			}
			g.hist += " }"
		}()
		DoWithoutTriggers(g.th, []Value{tables, block})
	}
	if nd.catch {
		if msg := lib.Catch(call); msg != "" {
			g.hist += " caught"
			g.tr.Count("exception caught by the caller")
		}
	} else {
		call()
	}
}

func TestVerifC44DoWithoutTriggers(t *testing.T) {
	tr := lib.Open()
	defer tr.Close()
	r := lib.Rand()
	n := lib.N(150)
	g := &vbRun{tr: tr, th: NewThread(nil)}
	for i, tb := range vbTables {
		i := i
		Global.TestDef("Trigger_"+tb, &SuBuiltin{Fn: func(th *Thread, args []Value) Value {
			show := func(v Value) string {
				if v == False {
					return "-"
				}
				rec := v.(*SuRecord)
				return lib.X(ToStr(rec.Get(th, SuStr("c0")))) + "," + lib.X(ToStr(rec.Get(th, SuStr("c1"))))
			}
			g.calls = append(g.calls, fmt.Sprintf("%d:%s>%s", i, show(args[1]), show(args[2])))
			return nil
		}, BuiltinParams: BuiltinParams{ParamSpec: ParamSpec{Nparams: 3,
			Flags: []Flag{0, 0, 0}, Names: []string{"t", "oldrec", "newrec"}}}})
	}
	prevGetDbms := GetDbms
	defer func() { GetDbms = prevGetDbms }()
	for hi := 0; hi < n; hi++ {
		db := db19.CreateDb(stor.HeapStor(64 * 1024))
		db19.StartConcur(db, time.Hour)
		d := dbms.NewDbmsLocal(db)
		GetDbms = func() IDbms { return d }
		g.db, g.th, g.depth, g.hist, g.failed = db, NewThread(nil), [2]int{}, "", false
		g.rows = [2][][2]string{}
		for _, tb := range vbTables {
			query.DoAdmin(db, "create "+tb+" (c0, c1) key(c0)", nil)
		}
		tr.Q("reset 2/0:0:- 2/0:0:-", "ok")
		tr.Q("trig 0 1", "ok")
		tr.Q("trig 1 1", "ok")
		prog := vbGen(r, 3)
		// the outermost level always catches
		lib.Catch(func() { g.exec(prog) })
		// afterwards every trigger must fire again
		if !g.failed {
			g.hist += " ; finally"
			g.insert(0)
		}
		if !g.failed {
			g.insert(1)
		}
		if hi < 3 {
			tr.Sample(g.hist)
		}
		db.Close()
	}
}
