//go:build verif

package query

// C02 at the query level: what a transaction reads THROUGH QUERIES.
//
// The query layer keeps state of its own between reads (n:1 join / intersect / minus lookup
// caches, iterators, cursors re-bound to new transactions).  That state must never make a query
// show anything but the transaction's own view:
//
//	A. inside an UPDATE transaction a query (joins, leftjoins, intersect, minus) is read row by
//	   row, interleaved with the transaction's own inserts / updates / deletes on the joined
//	   tables; every row returned must be a row of the query recomputed at that moment from the
//	   transaction's own base-table scans (`join-stale-own-write`), and a fresh read at the end
//	   must equal the recomputation exactly.
//	B. a CURSOR (query set up once, SetTran for every transaction) read in transaction 1, then —
//	   after other transactions committed changes — in a new transaction 2 must return exactly
//	   the recomputation from transaction 2's base tables (`cursor-stale-across-transactions`),
//	   and read again in transaction 1 must still return transaction 1's result
//	   (`join-read-not-repeatable`).
//
// The recomputation uses only single-table scans through the same transaction and a nested loop
// in the harness (no query operator, no cache).  Direct oracles only (no model replay).

import (
	"fmt"
	"math/rand"
	"sort"
	"strings"
	"testing"

	. "github.com/apmckinlay/gsuneido/core"
	"github.com/apmckinlay/gsuneido/db19"
	"github.com/apmckinlay/gsuneido/db19/stor"
	lib "github.com/apmckinlay/gsuneido/util/zzverif"
)

type c2qRow map[string]string

func c2qShow(cols []string, r c2qRow) string {
	cs := append([]string{}, cols...)
	sort.Strings(cs)
	var sb strings.Builder
	for _, c := range cs {
		fmt.Fprintf(&sb, "%s=%s ", c, r[c])
	}
	return sb.String()
}

// c2qScan: a single table through the transaction (no joins, no caches)
func c2qScan(tran QueryTran, table string, mode Mode) []c2qRow {
	q := ParseQuery(table, tran, nil)
	q, _, _ = Setup(q, mode, tran)
	hdr := q.Header()
	th := &Thread{}
	var rows []c2qRow
	for row := q.Get(th, Next); row != nil; row = q.Get(th, Next) {
		r := c2qRow{}
		for _, c := range hdr.Columns {
			r[c] = ToStr(row.GetVal(hdr, c, th, nil))
		}
		rows = append(rows, r)
		if len(rows) > 10000 {
			panic("scan does not terminate")
		}
	}
	return rows
}

type c2qQuery struct {
	text  string
	outer string // the table the query iterates (joins are not reversed: joinRev = impossible); the others are looked up
	eval  func(cus, ord, grp []c2qRow) []c2qRow
}

func c2qMerge(a, b c2qRow) c2qRow {
	m := c2qRow{}
	for k, v := range a {
		m[k] = v
	}
	for k, v := range b {
		m[k] = v
	}
	return m
}

func c2qJoin(l, r []c2qRow, on string, left bool, rcols []string) []c2qRow {
	var out []c2qRow
	for _, x := range l {
		matched := false
		for _, y := range r {
			if x[on] == y[on] {
				out = append(out, c2qMerge(x, y))
				matched = true
			}
		}
		if !matched && left {
			m := c2qMerge(x, nil)
			for _, c := range rcols {
				if _, ok := m[c]; !ok {
					m[c] = ""
				}
			}
			out = append(out, m)
		}
	}
	return out
}

func c2qIds(rows []c2qRow) map[string]bool {
	m := map[string]bool{}
	for _, r := range rows {
		m[r["id"]] = true
	}
	return m
}

var c2qQueries = []c2qQuery{
	{"ord join cus", "ord", func(cus, ord, grp []c2qRow) []c2qRow { return c2qJoin(ord, cus, "id", false, nil) }},
	{"ord leftjoin cus", "ord", func(cus, ord, grp []c2qRow) []c2qRow {
		return c2qJoin(ord, cus, "id", true, []string{"name", "g"})
	}},
	{"cus join grp", "cus", func(cus, ord, grp []c2qRow) []c2qRow { return c2qJoin(cus, grp, "g", false, nil) }},
	{"ord join cus join grp", "ord", func(cus, ord, grp []c2qRow) []c2qRow {
		return c2qJoin(c2qJoin(ord, cus, "id", false, nil), grp, "g", false, nil)
	}},
	{"ord join cus leftjoin grp", "ord", func(cus, ord, grp []c2qRow) []c2qRow {
		return c2qJoin(c2qJoin(ord, cus, "id", false, nil), grp, "g", true, []string{"gname"})
	}},
	{"(ord project id) intersect (cus project id)", "ord", func(cus, ord, grp []c2qRow) []c2qRow {
		var out []c2qRow
		c := c2qIds(cus)
		for id := range c2qIds(ord) {
			if c[id] {
				out = append(out, c2qRow{"id": id})
			}
		}
		return out
	}},
	{"(cus project id) minus (ord project id)", "cus", func(cus, ord, grp []c2qRow) []c2qRow {
		var out []c2qRow
		o := c2qIds(ord)
		for id := range c2qIds(cus) {
			if !o[id] {
				out = append(out, c2qRow{"id": id})
			}
		}
		return out
	}},
}

// c2qExpect recomputes the query from the transaction's own base tables
func c2qExpect(qq c2qQuery, tran QueryTran, mode Mode, cols []string) []string {
	return c2qExpectOuter(qq, tran, mode, cols, nil)
}

// c2qExpectOuter: as c2qExpect but with the given rows for the outer (iterated) table
func c2qExpectOuter(qq c2qQuery, tran QueryTran, mode Mode, cols []string, outer []c2qRow) []string {
	tabs := map[string][]c2qRow{"cus": c2qScan(tran, "cus", mode), "ord": c2qScan(tran, "ord", mode), "grp": c2qScan(tran, "grp", mode)}
	if outer != nil {
		tabs[qq.outer] = outer
	}
	rows := qq.eval(tabs["cus"], tabs["ord"], tabs["grp"])
	out := make([]string, len(rows))
	for i, r := range rows {
		out[i] = c2qShow(cols, r)
	}
	sort.Strings(out)
	return out
}

func c2qReadAll(q Query, th *Thread) []string {
	hdr := q.Header()
	var out []string
	for row := q.Get(th, Next); row != nil; row = q.Get(th, Next) {
		r := c2qRow{}
		for _, c := range hdr.Columns {
			r[c] = ToStr(row.GetVal(hdr, c, th, nil))
		}
		out = append(out, c2qShow(hdr.Columns, r))
		if len(out) > 10000 {
			panic("query does not terminate")
		}
	}
	sort.Strings(out)
	return out
}

type c2qHist struct {
	tr   *lib.Trace
	r    *rand.Rand
	db   *db19.Database
	hid  int
	log  []string
	no   int
	bad  bool
	dead bool // the current update transaction was aborted by the implementation
}

func (h *c2qHist) note(f string, a ...any) { h.log = append(h.log, fmt.Sprintf(f, a...)) }

func (h *c2qHist) fail(sig, msg string) {
	if h.bad {
		return
	}
	h.bad = true
	hist := strings.Join(h.log, "; ")
	if len(hist) > 1800 {
		hist = "…" + hist[len(hist)-1800:]
	}
	h.tr.Fail(sig, fmt.Sprintf("seed %d history %d: %s | steps: %s", lib.Seed(), h.hid, msg, hist))
}

var c2qIdsV = []string{"a", "b", "c", "d"}
var c2qGrps = []string{"g1", "g2", "g3"}

// action: one write on the joined tables (text of a Suneido action)
func (h *c2qHist) action() string {
	id := c2qIdsV[h.r.Intn(len(c2qIdsV))]
	g := c2qGrps[h.r.Intn(len(c2qGrps))]
	h.no++
	switch h.r.Intn(9) {
	case 0:
		return fmt.Sprintf("insert { id: '%s', name: 'n%d', g: '%s' } into cus", id, h.no, g)
	case 1, 2:
		return fmt.Sprintf("update cus where id is '%s' set name = 'N%d'", id, h.no)
	case 3:
		return fmt.Sprintf("update cus where id is '%s' set g = '%s'", id, g)
	case 4:
		return fmt.Sprintf("delete cus where id is '%s'", id)
	case 5, 6:
		return fmt.Sprintf("insert { ono: 'o%03d', id: '%s' } into ord", h.no, id)
	case 7:
		return fmt.Sprintf("delete ord where id is '%s'", id)
	default:
		if h.r.Intn(2) == 0 {
			return fmt.Sprintf("update grp where g is '%s' set gname = 'G%d'", g, h.no)
		}
		return fmt.Sprintf("insert { g: '%s', gname: 'x%d' } into grp", g, h.no)
	}
}

func (h *c2qHist) act(th *Thread, ut *db19.UpdateTran, s string) {
	msg := lib.Catch(func() { DoAction(th, ut, s) })
	if msg != "" {
		h.note("%s -> %q", s, msg)
		if strings.Contains(msg, "aborted") || strings.Contains(msg, "ended") {
			h.dead = true
		}
	} else {
		h.note("%s", s)
	}
	h.tr.Count("c2q action ok=" + fmt.Sprint(msg == ""))
}

func (h *c2qHist) commitActions(n int) {
	th := &Thread{}
	ut := h.db.NewUpdateTran()
	for i := 0; i < n; i++ {
		h.act(th, ut, h.action())
	}
	if msg := lib.Catch(func() { h.db.CommitMerge(ut) }); msg != "" {
		ut.Abort()
		h.note("(commit failed: %s)", msg)
	} else {
		h.note("commit")
	}
}

func c2qDiff(got, want []string) string {
	return fmt.Sprintf("got %d rows %q, the transaction's own view gives %d rows %q", len(got), got, len(want), want)
}

func (h *c2qHist) run() {
	h.db = db19.CreateDb(stor.HeapStor(64 * 1024))
	h.db.CheckerSync()
	DoAdmin(h.db, "create cus (id, name, g) key(id) index(g)", nil)
	DoAdmin(h.db, "create ord (ono, id) key(ono) index(id)", nil)
	DoAdmin(h.db, "create grp (g, gname) key(g)", nil)
	for i := 0; i < 3; i++ {
		h.commitActions(4)
	}
	th := &Thread{}
	for round := 0; round < 6 && !h.bad; round++ {
		qq := c2qQueries[h.r.Intn(len(c2qQueries))]
		if h.r.Intn(2) == 0 {
			// A. an update transaction reading a query interleaved with its own writes
			ut := h.db.NewUpdateTran()
			h.dead = false
			h.note("begin update tran, query %q", qq.text)
			q := ParseQuery(qq.text, ut, nil)
			q, _, _ = Setup(q, UpdateMode, ut)
			hdr := q.Header()
			// a temporary index is, by design, a copy of its source made at first use: a strategy
			// with one does not promise to show later writes; only the final fresh read is judged
			strict := !strings.Contains(Strategy(q), "tempindex")
			h.tr.Count(fmt.Sprint("c2q update-tran query strict=", strict))
			// The iterated (outer) table's row may have been read before a later own write: its
			// columns may be those of any version the transaction has seen since the query
			// started.  Everything that is LOOKED UP for it must be the transaction's current view.
			var outerSeen []c2qRow
			seen := map[string]bool{}
			addOuter := func() {
				for _, r := range c2qScan(ut, qq.outer, UpdateMode) {
					if k := fmt.Sprint(r); !seen[k] {
						seen[k] = true
						outerSeen = append(outerSeen, r)
					}
				}
			}
			addOuter()
			for fetched := 0; fetched < 40 && !h.bad; fetched++ {
				for i := h.r.Intn(3); i > 0; i-- {
					h.act(th, ut, h.action())
					if !h.dead {
						addOuter()
					}
				}
				if h.dead {
					break
				}
				row := q.Get(th, Next)
				if row == nil {
					break
				}
				r := c2qRow{}
				for _, c := range hdr.Columns {
					r[c] = ToStr(row.GetVal(hdr, c, th, nil))
				}
				got := c2qShow(hdr.Columns, r)
				h.note("fetch -> %s", strings.TrimSpace(got))
				h.tr.Count("c2q fetch inside update tran")
				want := c2qExpectOuter(qq, ut, UpdateMode, hdr.Columns, outerSeen)
				if i := sort.SearchStrings(want, got); strict && (i >= len(want) || want[i] != got) {
					h.fail("join-stale-own-write", fmt.Sprintf("[strategy %s] query %q inside an update transaction returned the row {%s} which is not a row of the query over the transaction's own view (its own writes included): %q",
						strings.ReplaceAll(Strategy(q), "\n", " / "), qq.text, strings.TrimSpace(got), want))
				}
			}
			if !h.bad && !h.dead {
				// completeness: a fresh read of the same query = the recomputation
				q2 := ParseQuery(qq.text, ut, nil)
				q2, _, _ = Setup(q2, UpdateMode, ut)
				got := c2qReadAll(q2, th)
				want := c2qExpect(qq, ut, UpdateMode, q2.Header().Columns)
				if fmt.Sprint(got) != fmt.Sprint(want) {
					h.fail("query-differs-from-own-view", fmt.Sprintf("query %q read in full inside the update transaction: %s", qq.text, c2qDiff(got, want)))
				}
			}
			if h.r.Intn(2) == 0 {
				if lib.Catch(func() { h.db.CommitMerge(ut) }) != "" {
					ut.Abort()
				}
				h.note("commit")
			} else {
				ut.Abort()
				h.note("abort")
			}
		} else {
			// B. a cursor across transactions
			rt1 := h.db.NewReadTran()
			h.note("cursor %q, read transaction 1", qq.text)
			q := ParseQuery(qq.text, rt1, nil)
			q, _, _ = Setup(q, CursorMode, rt1)
			cols := q.Header().Columns
			read := func(tran QueryTran) []string {
				q.SetTran(tran)
				q.Rewind()
				return c2qReadAll(q, th)
			}
			first := read(rt1)
			if want := c2qExpect(qq, rt1, ReadMode, cols); fmt.Sprint(first) != fmt.Sprint(want) {
				h.fail("query-differs-from-own-view", fmt.Sprintf("cursor %q in its first transaction: %s", qq.text, c2qDiff(first, want)))
			}
			for k := 0; k < 3 && !h.bad; k++ {
				h.commitActions(1 + h.r.Intn(3))
				rt2 := h.db.NewReadTran()
				got := read(rt2)
				h.tr.Count("c2q cursor read in a new transaction")
				if want := c2qExpect(qq, rt2, ReadMode, cols); fmt.Sprint(got) != fmt.Sprint(want) {
					h.fail("cursor-stale-across-transactions", fmt.Sprintf("cursor %q read in a NEW read transaction (after other transactions committed): %s", qq.text, c2qDiff(got, want)))
				}
				if again := read(rt1); fmt.Sprint(again) != fmt.Sprint(first) {
					h.fail("join-read-not-repeatable", fmt.Sprintf("cursor %q read again in its first transaction: first %q now %q", qq.text, first, again))
				}
			}
		}
	}
}

func TestVerifC02Query(t *testing.T) {
	prev, prev19, prevRev := MakeSuTran, db19.MakeSuTran, joinRev
	defer func() { MakeSuTran, db19.MakeSuTran, joinRev = prev, prev19, prevRev }()
	joinRev = impossible // joins are executed as written: left side iterated, right side looked up
	// as dbms does: update transactions get an updatable SuTran
	MakeSuTran = func(qt QueryTran) *SuTran {
		_, update := qt.(*db19.UpdateTran)
		return NewSuTran(nil, update)
	}
	db19.MakeSuTran = func(ut *db19.UpdateTran) *SuTran { return NewSuTran(nil, true) }
	tr := lib.Open()
	defer tr.Close()
	n := lib.N(60)
	for i := 0; i < n; i++ {
		h := &c2qHist{tr: tr, r: rand.New(rand.NewSource(lib.Seed()*1000003 + int64(i))), hid: i}
		if msg := lib.Catch(h.run); msg != "" {
			h.fail("impl-panic", "uncaught panic of the implementation: "+msg)
		}
		if i < 2 && len(h.log) > 8 {
			tr.Sample(strings.Join(h.log[:8], "; ") + " …")
		}
	}
}
