//go:build verif

package query

// C31 (query compiler side): a displayed string is accepted as a constant in a query and every
// proper prefix of it — an unterminated literal, with or without escapes — is a syntax error,
// never a query. The query lexer's items on the same inputs are replayed by the Lean mirror.

import (
	"fmt"
	"strings"
	"testing"

	"github.com/apmckinlay/gsuneido/compile/lexer"
	tok "github.com/apmckinlay/gsuneido/compile/tokens"
	"github.com/apmckinlay/gsuneido/core"
	lib "github.com/apmckinlay/gsuneido/util/zzverif"
)

func verifC31Items(src string) string {
	lx := lexer.NewQueryLexer(src)
	var sb strings.Builder
	for k := 0; k < len(src)+5; k++ {
		it := lx.Next()
		if k > 0 {
			sb.WriteByte(' ')
		}
		fmt.Fprintf(&sb, "%s@%d:%s", it.Token.String(), it.Pos, lib.X(it.Text))
		if it.Token == tok.Eof {
			break
		}
	}
	return sb.String()
}

func TestVerifC31QueryTruncated(t *testing.T) {
	tr := lib.Open()
	defer tr.Close()
	MakeSuTran = func(qt QueryTran) *core.SuTran { return nil }
	r := lib.Rand()
	n := lib.N(1500)
	parse := func(src string) (ok bool, msg string) {
		msg = lib.Catch(func() { ParseQuery(src, testTran{}, nil) })
		return msg == "", msg
	}
	for i := 0; i < n; i++ {
		m := r.Intn(7)
		b := make([]byte, m)
		for j := range b {
			switch r.Intn(6) {
			case 0:
				b[j] = byte(r.Intn(256))
			case 1, 2:
				b[j] = "\"'`\\\n\t\x00\xff"[r.Intn(8)]
			default:
				b[j] = byte('a' + r.Intn(3))
			}
		}
		s := string(b)
		th := &core.Thread{}
		th.Quote = r.Intn(3)
		d := core.SuStr(s).Display(th)
		tr.Count("quote=" + d[:1])
		const prefix = "table where a is "
		if ok, msg := parse(prefix + d); !ok {
			tr.Fail("query-displayed-string-rejected", fmt.Sprintf("ParseQuery(%q): %s", prefix+d, msg))
		}
		tr.Q("lex q "+lib.X(prefix+d), verifC31Items(prefix+d))
		for cut := 1; cut < len(d); cut++ {
			p := prefix + d[:cut]
			tr.Count("truncated")
			tr.Q("lex q "+lib.X(p), verifC31Items(p))
			if ok, _ := parse(p); ok {
				tr.Fail("unterminated-string-accepted", fmt.Sprintf(
					"ParseQuery(%q) (a truncated string literal) returned a query instead of a syntax error", p))
			}
		}
		if i < 3 {
			tr.Sample(prefix + d)
		}
	}
}
