//go:build verif

package query

// C24: query update statements change exactly the selected rows.
// Action strings (insert record / insert query / delete / update) are parsed by ParseAction and
// executed by DoAction in a transaction on t, u (k, a, b) key(k) index(a) and w (a, d) key(a); the
// reported count and the table contents are replayed by the Lean model Gsu.Model.Act, and checked
// directly (signature action:<kind>):
//   [count] reported count != number of rows the statement's query selects
//   [rows]  table afterwards != (unselected rows unchanged, selected rows changed only as stated)
//   [error] the statement failed although the result has no duplicate key
// update / delete go through a bare table or through rename / project / extend / where
// compositions of it (kind <stmt>-through-<view>); the harness translates such a statement to the
// base table for the model (renamed column = stored column, extended column = column + constant).
// insert-from-query sources: t where P, (t join w) where P, (w join t) where P with w small or
// large (so that the optimiser picks either join order).
// `set` lists include the key column the statement iterates by (k = k + d, k = k - d), the
// indexed column, constants, a swap, and expressions over an extended column.

import (
	"fmt"
	"math/rand"
	"sort"
	"strings"
	"testing"
	"time"

	. "github.com/apmckinlay/gsuneido/core"
	"github.com/apmckinlay/gsuneido/db19"
	"github.com/apmckinlay/gsuneido/db19/index"
	"github.com/apmckinlay/gsuneido/db19/stor"
	lib "github.com/apmckinlay/gsuneido/util/zzverif"
)

type vaRow struct{ k, a, b int }

func (r vaRow) get(c string) int {
	switch c {
	case "k":
		return r.k
	case "a":
		return r.a
	}
	return r.b
}

func (r vaRow) set(c string, v int) vaRow {
	switch c {
	case "k":
		r.k = v
	case "a":
		r.a = v
	default:
		r.b = v
	}
	return r
}

// vaRef: a column visible through a view: value = stored column `base` + off
type vaRef struct {
	name, base string
	off        int
}

func (c vaRef) val(x vaRow) int { return x.get(c.base) + c.off }

type vaPred struct {
	src, enc string
	f        func(vaRow) bool
}

var vaAll = vaPred{"", "all", func(vaRow) bool { return true }}

func vaAnd(p, q vaPred) vaPred {
	if p.enc == "all" {
		return q
	}
	if q.enc == "all" {
		return p
	}
	return vaPred{"(" + p.src + " and " + q.src + ")", "and " + p.enc + " " + q.enc,
		func(x vaRow) bool { return p.f(x) && q.f(x) }}
}

func vaGenPred(r *rand.Rand, cols []vaRef, depth int) vaPred {
	if depth > 0 && r.Intn(3) == 0 {
		p, q := vaGenPred(r, cols, depth-1), vaGenPred(r, cols, depth-1)
		if r.Intn(2) == 0 {
			return vaAnd(p, q)
		}
		return vaPred{"(" + p.src + " or " + q.src + ")", "or " + p.enc + " " + q.enc,
			func(x vaRow) bool { return p.f(x) || q.f(x) }}
	}
	col := cols[r.Intn(len(cols))]
	v := r.Intn(14) - 1
	if col.base == "k" && r.Intn(3) == 0 {
		v = 15 + r.Intn(40)
	}
	ops := []struct {
		src, enc string
		f        func(a, b int) bool
	}{
		{"is", "eq", func(a, b int) bool { return a == b }},
		{"isnt", "ne", func(a, b int) bool { return a != b }},
		{"<", "lt", func(a, b int) bool { return a < b }},
		{">=", "ge", func(a, b int) bool { return a >= b }},
		{"<=", "le", func(a, b int) bool { return a <= b }},
		{">", "gt", func(a, b int) bool { return a > b }},
	}
	op := ops[r.Intn(len(ops))]
	enc := fmt.Sprintf("c %s %s %d", col.base, op.enc, v)
	if col.off != 0 {
		enc = fmt.Sprintf("cp %s %d %s %d", col.base, col.off, op.enc, v)
	}
	return vaPred{fmt.Sprintf("%s %s %d", col.name, op.src, v), enc,
		func(x vaRow) bool { return op.f(col.val(x), v) }}
}

// vaView: a table or an updateable composition over it
type vaView struct {
	src, kind string
	cols      []vaRef
	inner     vaPred // where inside the view (on the base table)
}

func vaBase() []vaRef { return []vaRef{{"k", "k", 0}, {"a", "a", 0}, {"b", "b", 0}} }

func vaGenView(r *rand.Rand, table string) vaView {
	base := vaBase()
	rename := func(cols []vaRef, c, to string) []vaRef {
		out := append([]vaRef{}, cols...)
		for i := range out {
			if out[i].name == c {
				out[i].name = to
			}
		}
		return out
	}
	switch r.Intn(12) {
	case 0, 1, 2, 3:
		return vaView{table, "bare", base, vaAll}
	case 4:
		c := []string{"a", "b", "k"}[r.Intn(3)]
		return vaView{fmt.Sprintf("(%s rename %s to x)", table, c), "rename", rename(base, c, "x"), vaAll}
	case 5:
		c := []string{"a", "b"}[r.Intn(2)]
		var cols []vaRef
		for _, x := range base {
			if x.name == "k" || x.name == c {
				cols = append(cols, x)
			}
		}
		return vaView{fmt.Sprintf("(%s project k, %s)", table, c), "project", cols, vaAll}
	case 6:
		c := []string{"a", "b", "k"}[r.Intn(3)]
		n := 1 + r.Intn(3)
		return vaView{fmt.Sprintf("(%s extend z = %s + %d)", table, c, n), "extend", append(base, vaRef{"z", c, n}), vaAll}
	case 7:
		p := vaGenPred(r, base, 0)
		return vaView{fmt.Sprintf("(%s where %s)", table, p.src), "where", base, p}
	case 8: // rename, then project away the other column
		return vaView{fmt.Sprintf("(%s rename b to x project k, x)", table), "rename+project",
			[]vaRef{{"k", "k", 0}, {"x", "b", 0}}, vaAll}
	case 9:
		p := vaGenPred(r, base, 0)
		return vaView{fmt.Sprintf("(%s where %s rename a to y)", table, p.src), "where+rename", rename(base, "a", "y"), p}
	case 10:
		n := 1 + r.Intn(3)
		return vaView{fmt.Sprintf("(%s rename a to y extend z = y + %d)", table, n), "rename+extend",
			append(rename(base, "a", "y"), vaRef{"z", "a", n}), vaAll}
	default:
		return vaView{fmt.Sprintf("(%s extend z = b + 2 project k, a, z)", table), "extend+project",
			[]vaRef{{"k", "k", 0}, {"a", "a", 0}, {"z", "b", 2}}, vaAll}
	}
}

// sigKind: every composition that contains a project counts as "project" in the F signature
func (v vaView) sigKind() string {
	if strings.Contains(v.kind, "project") {
		return "project"
	}
	return v.kind
}

func (v vaView) ref(base string) (vaRef, bool) {
	for _, c := range v.cols {
		if c.base == base && c.off == 0 {
			return c, true
		}
	}
	return vaRef{}, false
}

// vaAsg: visible column `col` (stored as base) = constant v, or = src + v
type vaAsg struct {
	col vaRef
	src *vaRef
	v   int
}

func vaDump(db *db19.Database, table string) ([]vaRow, string) {
	rt := db.NewReadTran()
	var per []string
	var rows []vaRow
	for ix := 0; ix < 2; ix++ {
		it := index.NewOverIter(table, ix)
		var rs []vaRow
		for it.Next(rt); !it.Eof(); it.Next(rt) {
			rec := rt.GetRecord(it.CurOff())
			rs = append(rs, vaRow{vaInt(rec, 0), vaInt(rec, 1), vaInt(rec, 2)})
		}
		per = append(per, vaText(rs))
		rows = rs
	}
	if per[0] != per[1] {
		return rows, "INDEX-MISMATCH " + per[0] + " / " + per[1]
	}
	return rows, per[0]
}

// vaInt: a field as integer; an empty (blanked) field shows as -999
func vaInt(rec Record, i int) int {
	if rec.GetRaw(i) == "" {
		return -999
	}
	return ToInt(rec.GetVal(i))
}

func vaText(rows []vaRow) string {
	rs := append([]vaRow{}, rows...)
	sort.Slice(rs, func(i, j int) bool { return rs[i].k < rs[j].k })
	ss := make([]string, len(rs))
	for i, x := range rs {
		ss[i] = fmt.Sprintf("%d,%d,%d", x.k, x.a, x.b)
	}
	return strings.Join(ss, " ")
}

func TestVerifC24Actions(t *testing.T) {
	tr := lib.Open()
	defer tr.Close()
	db19.MakeSuTran = func(ut *db19.UpdateTran) *SuTran { return NewSuTran(nil, true) }
	MakeSuTran = func(qt QueryTran) *SuTran { return nil }
	th := &Thread{}
	r := lib.Rand()
	n := lib.N(150)
	tables := []string{"t", "u"}
	for hi := 0; hi < n; hi++ {
		db := db19.CreateDb(stor.HeapStor(64 * 1024))
		db19.StartConcur(db, time.Hour)
		DoAdmin(db, "create t (k, a, b) key(k) index(a)", nil)
		DoAdmin(db, "create u (k, a, b) key(k) index(a)", nil)
		DoAdmin(db, "create w (a, d) key(a)", nil)
		tr.Q("reset", "ok")
		hist := ""
		// w: small or large, so that a join with t is executed in either order
		wkeys := map[int]bool{}
		nw := []int{0, 1, 2, 7, 8, 30}[r.Intn(6)]
		for i := 0; i < nw; i++ {
			a := r.Intn(8)
			if i >= 8 {
				a = 100 + i
			}
			if wkeys[a] {
				continue
			}
			wkeys[a] = true
			ut := db.NewUpdateTran()
			DoAction(th, ut, fmt.Sprintf("insert { a: %d, d: %d } into w", a, i))
			ut.Commit()
			tr.Q(fmt.Sprintf("insw %d %d", a, i), "1")
		}
		hist += fmt.Sprintf(" w has %d rows", len(wkeys))
		tr.Count(fmt.Sprint("w-rows=", len(wkeys)))
		failed := false
		fail := func(sig, desc string) {
			failed = true
			tr.Fail(sig, desc+" history:"+hist)
		}
		for step := 0; step < 25 && !failed; step++ {
			ti := 0
			if r.Intn(4) == 0 {
				ti = 1
			}
			table := tables[ti]
			before, _ := vaDump(db, table)
			beforeT, _ := vaDump(db, "t")
			var action, enc, kind string
			viewKind := "-"
			var want []vaRow // expected rows of `table` when the statement succeeds
			wantN := 0
			switch c := r.Intn(10); {
			case c < 3:
				kind = "insert"
				x := vaRow{r.Intn(12), r.Intn(8), r.Intn(8)}
				action = fmt.Sprintf("insert { k: %d, a: %d, b: %d } into %s", x.k, x.a, x.b, table)
				enc = fmt.Sprintf("ins %d %d %d %d", ti, x.k, x.a, x.b)
				want = append(append([]vaRow{}, before...), x)
				wantN = 1
			case c < 5:
				view := vaGenView(r, table)
				viewKind = view.kind
				kind = "delete"
				if view.kind != "bare" {
					kind = "delete-through-" + view.sigKind()
				}
				p := vaAll
				action = "delete " + view.src
				if r.Intn(6) != 0 {
					p = vaGenPred(r, view.cols, 1)
					action += " where " + p.src
				}
				p = vaAnd(view.inner, p)
				enc = fmt.Sprintf("del %d %s", ti, p.enc)
				for _, x := range before {
					if p.f(x) {
						wantN++
					} else {
						want = append(want, x)
					}
				}
			case c < 8:
				view := vaGenView(r, table)
				viewKind = view.kind
				p := vaAll
				where := ""
				if r.Intn(5) != 0 {
					p = vaGenPred(r, view.cols, 1)
					where = " where " + p.src
				}
				p = vaAnd(view.inner, p)
				kcol, _ := view.ref("k")
				acol, hasA := view.ref("a")
				bcol, hasB := view.ref("b")
				var asgs []vaAsg
				kind = "update"
				switch r.Intn(7) {
				case 0: // key column, increasing: the statement iterates by the column it changes
					asgs = []vaAsg{{kcol, &kcol, 20 + r.Intn(3)}}
					kind = "update-key-up"
				case 1: // key column, decreasing
					asgs = []vaAsg{{kcol, &kcol, -(20 + r.Intn(3))}}
					kind = "update-key-down"
				case 2: // indexed column, both directions
					if hasA {
						asgs = []vaAsg{{acol, &acol, r.Intn(7) - 3}}
						kind = "update-index-col"
					}
				case 3:
					if hasA && hasB {
						asgs = []vaAsg{{acol, nil, r.Intn(8)}, {bcol, &bcol, 1}}
					}
				case 4: // swap: every expression reads the selected row
					if hasA && hasB {
						asgs = []vaAsg{{acol, &bcol, 0}, {bcol, &acol, 0}}
						kind = "update-swap"
					}
				case 5: // from any visible column (an extended one included)
					src := view.cols[r.Intn(len(view.cols))]
					if hasB {
						asgs = []vaAsg{{bcol, &src, r.Intn(3)}}
					} else if hasA {
						asgs = []vaAsg{{acol, &src, r.Intn(3)}}
					}
				default:
					asgs = []vaAsg{{kcol, &kcol, 1 - 2*r.Intn(2)}}
					if hasB {
						asgs = append(asgs, vaAsg{bcol, nil, r.Intn(8)})
					}
					kind = "update-key-step"
				}
				if asgs == nil { // the view does not show the column: set whatever non-key column it shows
					for _, c := range view.cols {
						if c.off == 0 && c.base != "k" {
							asgs = []vaAsg{{c, nil, r.Intn(8)}}
						}
					}
				}
				if view.kind != "bare" {
					kind = "update-through-" + view.sigKind()
				}
				var ss, es []string
				for _, a := range asgs {
					if a.src == nil {
						ss = append(ss, fmt.Sprintf("%s = %d", a.col.name, a.v))
						es = append(es, fmt.Sprintf("%s k %d", a.col.base, a.v))
					} else {
						ss = append(ss, fmt.Sprintf("%s = %s + %d", a.col.name, a.src.name, a.v))
						es = append(es, fmt.Sprintf("%s p %s %d", a.col.base, a.src.base, a.src.off+a.v))
					}
				}
				action = "update " + view.src + where + " set " + strings.Join(ss, ", ")
				enc = fmt.Sprintf("upd %d %d %s %s", ti, len(asgs), strings.Join(es, " "), p.enc)
				oldSel := map[int]bool{}
				for _, x := range before {
					if p.f(x) {
						oldSel[x.k] = true
					}
				}
				transient := false
				for _, x := range before {
					if p.f(x) {
						y := x
						for _, a := range asgs {
							if a.src == nil {
								y = y.set(a.col.base, a.v)
							} else {
								y = y.set(a.col.base, a.src.val(x)+a.v)
							}
						}
						if y.k != x.k && oldSel[y.k] {
							transient = true // new key = old key of another selected row: order dependent
						}
						want = append(want, y)
						wantN++
					} else {
						want = append(want, x)
					}
				}
				if transient {
					tr.Count("skipped-transient-key-collision")
					continue
				}
			default:
				kind = "insert-query"
				ti, table = 1, "u"
				before, _ = vaDump(db, "u")
				p := vaGenPred(r, vaBase(), 1)
				j := r.Intn(3)
				switch j {
				case 0:
					action = "insert t where " + p.src + " into u"
				case 1:
					action = "insert t join w where " + p.src + " into u"
					kind = "insert-query-join"
				default:
					action = "insert w join t where " + p.src + " into u"
					kind = "insert-query-join"
				}
				enc = fmt.Sprintf("insq %d %s", j, p.enc)
				want = append([]vaRow{}, before...)
				for _, x := range beforeT {
					if p.f(x) && (j == 0 || wkeys[x.a]) {
						want = append(want, x)
						wantN++
					}
				}
			}
			wantDup := false
			seen := map[int]bool{}
			for _, x := range want {
				if seen[x.k] {
					wantDup = true
				}
				seen[x.k] = true
			}
			hist += " ; " + action
			tr.Count("kind=" + kind)
			tr.Count("view=" + viewKind)
			ut := db.NewUpdateTran()
			got := 0
			msg := lib.Catch(func() { got = DoAction(th, ut, action) })
			if msg != "" {
				ut.Abort()
				out := "!other:" + msg
				if strings.HasPrefix(msg, "duplicate key") {
					out = "!dup"
				}
				tr.Count("outcome=" + strings.SplitN(out, ":", 2)[0])
				tr.Q(enc, out)
				if !wantDup {
					fail("action:"+kind, fmt.Sprintf("[error] %q failed with %q; rows before: %s; the result %s has no duplicate key;", action, msg, vaText(before), vaText(want)))
				}
			} else {
				if res := ut.Complete(); res != "" {
					tr.Q(enc, "!commit:"+res)
					fail("action:"+kind, fmt.Sprintf("[error] %q commit failed %q", action, res))
					continue
				}
				tr.Count("outcome=ok")
				tr.CountN("rows-selected", wantN)
				tr.Q(enc, fmt.Sprint(got))
				_, after := vaDump(db, table)
				if got != wantN {
					fail("action:"+kind, fmt.Sprintf("[count] %q reported %d, its query selects %d rows; %s before: %s;", action, got, wantN, table, vaText(before)))
				} else if wantDup || after != vaText(want) {
					fail("action:"+kind, fmt.Sprintf("[rows] %q on %s gave %s, expected %s;", action, vaText(before), after, vaText(want)))
				}
			}
			_, st := vaDump(db, "t")
			_, su := vaDump(db, "u")
			tr.Q("state", st+" | "+su)
			if hi < 2 && step == 5 {
				tr.Sample(hist)
			}
		}
		db.Close()
	}
}
