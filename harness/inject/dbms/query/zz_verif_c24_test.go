//go:build verif

package query

// C24: query update statements change exactly the selected rows.
// Action strings (insert record / insert query / delete / update) are parsed by ParseAction and
// executed by DoAction in a transaction on t, u (k, a, b) key(k) index(a); the reported count
// and the table contents are replayed by the Lean model Gsu.Model.Act, and checked directly:
//   action:<kind>  [count] reported count != number of rows the predicate selects
//                  [rows]  table afterwards != (unselected rows unchanged, selected rows changed as stated)
//                  [error] the statement failed although the result has no duplicate key
// The generator includes `set` expressions on the key column the statement iterates by
// (k = k + d, k = k - d), on the indexed column a, and plain columns.

import (
	"fmt"
	"math/rand"
	"sort"
	"strings"
	"testing"
	"time"

	. "github.com/apmckinlay/gsuneido/core"
	"github.com/apmckinlay/gsuneido/db19"
	"github.com/apmckinlay/gsuneido/db19/index"
	"github.com/apmckinlay/gsuneido/db19/stor"
	lib "github.com/apmckinlay/gsuneido/util/zzverif"
)

type vaRow struct{ k, a, b int }

func (r vaRow) get(c string) int {
	switch c {
	case "k":
		return r.k
	case "a":
		return r.a
	}
	return r.b
}

func (r vaRow) set(c string, v int) vaRow {
	switch c {
	case "k":
		r.k = v
	case "a":
		r.a = v
	default:
		r.b = v
	}
	return r
}

type vaPred struct {
	src, enc string
	f        func(vaRow) bool
}

var vaCols = []string{"k", "a", "b"}

func vaGenPred(r *rand.Rand, depth int) vaPred {
	if depth > 0 && r.Intn(3) == 0 {
		p, q := vaGenPred(r, depth-1), vaGenPred(r, depth-1)
		if r.Intn(2) == 0 {
			return vaPred{"(" + p.src + " and " + q.src + ")", "and " + p.enc + " " + q.enc,
				func(x vaRow) bool { return p.f(x) && q.f(x) }}
		}
		return vaPred{"(" + p.src + " or " + q.src + ")", "or " + p.enc + " " + q.enc,
			func(x vaRow) bool { return p.f(x) || q.f(x) }}
	}
	col := vaCols[r.Intn(3)]
	v := r.Intn(14) - 1
	if col == "k" && r.Intn(3) == 0 {
		v = 15 + r.Intn(40)
	}
	ops := []struct {
		src, enc string
		f        func(a, b int) bool
	}{
		{"is", "eq", func(a, b int) bool { return a == b }},
		{"isnt", "ne", func(a, b int) bool { return a != b }},
		{"<", "lt", func(a, b int) bool { return a < b }},
		{">=", "ge", func(a, b int) bool { return a >= b }},
		{"<=", "le", func(a, b int) bool { return a <= b }},
		{">", "gt", func(a, b int) bool { return a > b }},
	}
	op := ops[r.Intn(len(ops))]
	return vaPred{fmt.Sprintf("%s %s %d", col, op.src, v), fmt.Sprintf("c %s %s %d", col, op.enc, v),
		func(x vaRow) bool { return op.f(x.get(col), v) }}
}

type vaAsg struct {
	col, src string // src "" = constant
	v        int
}

func vaDump(db *db19.Database, table string) ([]vaRow, string) {
	rt := db.NewReadTran()
	var per []string
	var rows []vaRow
	for ix := 0; ix < 2; ix++ {
		it := index.NewOverIter(table, ix)
		var rs []vaRow
		for it.Next(rt); !it.Eof(); it.Next(rt) {
			rec := rt.GetRecord(it.CurOff())
			rs = append(rs, vaRow{ToInt(rec.GetVal(0)), ToInt(rec.GetVal(1)), ToInt(rec.GetVal(2))})
		}
		sort.Slice(rs, func(i, j int) bool { return rs[i].k < rs[j].k })
		ss := make([]string, len(rs))
		for i, x := range rs {
			ss[i] = fmt.Sprintf("%d,%d,%d", x.k, x.a, x.b)
		}
		per = append(per, strings.Join(ss, " "))
		rows = rs
	}
	if per[0] != per[1] {
		return rows, "INDEX-MISMATCH " + per[0] + " / " + per[1]
	}
	return rows, per[0]
}

func vaText(rows []vaRow) string {
	rs := append([]vaRow{}, rows...)
	sort.Slice(rs, func(i, j int) bool { return rs[i].k < rs[j].k })
	ss := make([]string, len(rs))
	for i, x := range rs {
		ss[i] = fmt.Sprintf("%d,%d,%d", x.k, x.a, x.b)
	}
	return strings.Join(ss, " ")
}

func TestVerifC24Actions(t *testing.T) {
	tr := lib.Open()
	defer tr.Close()
	db19.MakeSuTran = func(ut *db19.UpdateTran) *SuTran { return NewSuTran(nil, true) }
	MakeSuTran = func(qt QueryTran) *SuTran { return nil }
	th := &Thread{}
	r := lib.Rand()
	n := lib.N(150)
	tables := []string{"t", "u"}
	for hi := 0; hi < n; hi++ {
		db := db19.CreateDb(stor.HeapStor(64 * 1024))
		db19.StartConcur(db, time.Hour)
		DoAdmin(db, "create t (k, a, b) key(k) index(a)", nil)
		DoAdmin(db, "create u (k, a, b) key(k) index(a)", nil)
		tr.Q("reset", "ok")
		hist := ""
		failed := false
		fail := func(sig, desc string) {
			failed = true
			tr.Fail(sig, desc+" history:"+hist)
		}
		for step := 0; step < 25 && !failed; step++ {
			ti := 0
			if r.Intn(4) == 0 {
				ti = 1
			}
			table := tables[ti]
			before, _ := vaDump(db, table)
			beforeT, _ := vaDump(db, "t")
			var action, enc, kind string
			var want []vaRow // expected rows of `table` when the statement succeeds
			wantN := 0
			switch c := r.Intn(10); {
			case c < 4:
				kind = "insert"
				x := vaRow{r.Intn(12), r.Intn(8), r.Intn(8)}
				action = fmt.Sprintf("insert { k: %d, a: %d, b: %d } into %s", x.k, x.a, x.b, table)
				enc = fmt.Sprintf("ins %d %d %d %d", ti, x.k, x.a, x.b)
				want = append(append([]vaRow{}, before...), x)
				wantN = 1
			case c < 6:
				kind = "delete"
				p := vaGenPred(r, 1)
				action = "delete " + table + " where " + p.src
				enc = fmt.Sprintf("del %d %s", ti, p.enc)
				if r.Intn(6) == 0 {
					action, enc = "delete "+table, fmt.Sprintf("del %d all", ti)
					p.f = func(vaRow) bool { return true }
				}
				for _, x := range before {
					if p.f(x) {
						wantN++
					} else {
						want = append(want, x)
					}
				}
			case c < 9:
				kind = "update"
				p := vaGenPred(r, 1)
				where, penc := " where "+p.src, p.enc
				if r.Intn(5) == 0 {
					where, penc = "", "all"
					p.f = func(vaRow) bool { return true }
				}
				var asgs []vaAsg
				switch r.Intn(6) {
				case 0: // key column, increasing: the statement iterates by the column it changes
					asgs = []vaAsg{{"k", "k", 20 + r.Intn(3)}}
					kind = "update-key-up"
				case 1: // key column, decreasing
					asgs = []vaAsg{{"k", "k", -(20 + r.Intn(3))}}
					kind = "update-key-down"
				case 2: // indexed column, both directions
					asgs = []vaAsg{{"a", "a", r.Intn(7) - 3}}
					kind = "update-index-col"
				case 3:
					asgs = []vaAsg{{"a", "", r.Intn(8)}, {"b", "b", 1}}
				case 4: // swap: every expression reads the selected row
					asgs = []vaAsg{{"a", "b", 0}, {"b", "a", 0}}
					kind = "update-swap"
				default:
					asgs = []vaAsg{{"k", "k", 1 - 2*r.Intn(2)}, {"b", "", r.Intn(8)}}
					kind = "update-key-step"
				}
				var ss, es []string
				for _, a := range asgs {
					if a.src == "" {
						ss = append(ss, fmt.Sprintf("%s = %d", a.col, a.v))
						es = append(es, fmt.Sprintf("%s k %d", a.col, a.v))
					} else {
						ss = append(ss, fmt.Sprintf("%s = %s + %d", a.col, a.src, a.v))
						es = append(es, fmt.Sprintf("%s p %s %d", a.col, a.src, a.v))
					}
				}
				action = "update " + table + where + " set " + strings.Join(ss, ", ")
				enc = fmt.Sprintf("upd %d %d %s %s", ti, len(asgs), strings.Join(es, " "), penc)
				oldSel := map[int]bool{}
				for _, x := range before {
					if p.f(x) {
						oldSel[x.k] = true
					}
				}
				transient := false
				for _, x := range before {
					if p.f(x) {
						y := x
						for _, a := range asgs {
							if a.src == "" {
								y = y.set(a.col, a.v)
							} else {
								y = y.set(a.col, x.get(a.src)+a.v)
							}
						}
						if y.k != x.k && oldSel[y.k] {
							transient = true // new key = old key of another selected row: order dependent
						}
						want = append(want, y)
						wantN++
					} else {
						want = append(want, x)
					}
				}
				if transient {
					tr.Count("skipped-transient-key-collision")
					continue
				}
			default:
				kind = "insert-query"
				ti, table = 1, "u"
				before, _ = vaDump(db, "u")
				p := vaGenPred(r, 1)
				action = "insert t where " + p.src + " into u"
				enc = "insq " + p.enc
				want = append([]vaRow{}, before...)
				for _, x := range beforeT {
					if p.f(x) {
						want = append(want, x)
						wantN++
					}
				}
			}
			wantDup := false
			seen := map[int]bool{}
			for _, x := range want {
				if seen[x.k] {
					wantDup = true
				}
				seen[x.k] = true
			}
			hist += " ; " + action
			tr.Count("kind=" + kind)
			ut := db.NewUpdateTran()
			got := 0
			msg := lib.Catch(func() { got = DoAction(th, ut, action) })
			if msg != "" {
				ut.Abort()
				out := "!other:" + msg
				if strings.HasPrefix(msg, "duplicate key") {
					out = "!dup"
				}
				tr.Count("outcome=" + strings.SplitN(out, ":", 2)[0])
				tr.Q(enc, out)
				if !wantDup {
					fail("action:"+kind, fmt.Sprintf("[error] %q failed with %q; rows before: %s; the result %s has no duplicate key;", action, msg, vaText(before), vaText(want)))
				}
			} else {
				if res := ut.Complete(); res != "" {
					tr.Q(enc, "!commit:"+res)
					fail("action:"+kind, fmt.Sprintf("[error] %q commit failed %q", action, res))
					continue
				}
				tr.Count("outcome=ok")
				tr.CountN("rows-selected", wantN)
				tr.Q(enc, fmt.Sprint(got))
				_, after := vaDump(db, table)
				if got != wantN {
					fail("action:"+kind, fmt.Sprintf("[count] %q reported %d, the predicate selects %d of: %s;", action, got, wantN, vaText(before)))
				} else if wantDup || after != vaText(want) {
					fail("action:"+kind, fmt.Sprintf("[rows] %q on %s gave %s, expected %s;", action, vaText(before), after, vaText(want)))
				}
			}
			_, st := vaDump(db, "t")
			_, su := vaDump(db, "u")
			tr.Q("state", st+" | "+su)
			if hi < 2 && step == 5 {
				tr.Sample(hist)
			}
		}
		db.Close()
	}
}
