//go:build verif

package query

// C23 — query access operations honour their contracts.
//
// For every (db, query as written) of the wide generator: the query is transformed and optimised
// under a random requirement (none / order / group / unique, as the package's fuzzQuery does) and
// its access operations are exercised; every observation is compared with the rows of a FRESH
// untransformed instance (`Simple()`), and replayed by the Lean model (cursor protocol, select,
// lookup over evalQ of the query as written; order of the rows read).
// Direct oracles (F lines):
//   prev-not-reverse      reading backwards after Rewind is not the reverse of reading forwards
//   not-sticky-at-eof     a Get after a Get that returned nothing returns a row (no Rewind between)
//   order-not-respected   rows not in the order of the requested index
//   select-spec / lookup-spec   result differs from the matching rows of the query as written
//   keys-not-unique / fixed-violated   Keys()/Fixed() of the query (as written and transformed)
//                         contradicted by the rows as written
//   contract-rows         plain forward read differs from the rows as written (also a C22 matter)

import (
	"fmt"
	"sort"
	"strconv"
	"strings"
	"testing"

	. "github.com/apmckinlay/gsuneido/core"
	lib "github.com/apmckinlay/gsuneido/util/zzverif"
)

func TestVerifC23(t *testing.T) {
	tr := lib.Open()
	defer tr.Close()
	r := lib.Rand()
	n := lib.N(300)
	vCorpusC23(tr, func(msg string) { t.Fatal(msg) })
	done := 0
	for done < n {
		g := newVdb(r)
		g.emitTables(tr)
		for i := 0; i < 8 && done < n; i++ {
			q := g.build(r.Intn(4))
			switch r.Intn(10) {
			case 0:
				if s := g.singletonJoin(); s != nil && g.valid(s) {
					q = s
				}
			case 3:
				if s := g.fixedRightJoin(); s != nil {
					q = s
				}
			case 4:
				if s := g.inListGroup(); s != nil {
					q = s
				}
			case 1, 2:
				// a table (with indexes, often the string table) restricted to fixed values, under
				// one operator: selections against fixed values, '' selections on index columns
				t := g.tableNode()
				for range 4 {
					if len(t.tbl.indexes) > 0 && (t.tbl.id == 3 || r.Intn(2) == 0) {
						break
					}
					t = g.tableNode()
				}
				q = t
				if w := g.indexWhere(t, false); w != nil && r.Intn(3) != 0 && g.valid(w) {
					q = w
				}
				if u := g.unary(q, []string{"extend", "extend", "rename", "project", "summarize", "where"}[r.Intn(6)]); u != nil && r.Intn(4) != 0 && g.valid(u) {
					q = u
				}
				g.note("fixed-under-unary")
			}
			if r.Intn(5) == 0 {
				if s := g.unary(q, "sort"); s != nil && g.valid(s) {
					q = s
				}
			}
			done++
			if msg := lib.Catch(func() { g.checkC23(tr, q) }); msg != "" {
				if strings.Contains(msg, "verif") {
					t.Fatal(msg)
				}
				tr.Count("panic")
				tr.Fail("contract-panic:"+verrSig(msg), "db: "+g.describe()+" query: "+q.src()+" panic: "+vtrunc(msg, 300))
			}
		}
		g.close()
	}
}

// vkeysMirrored: every operator of the (untransformed) query is in the fragment keysQ mirrors:
// no where is contradictory or a singleton found by the index analysis over a table, and the
// fixed values it depends on are mirrored too
func vkeysMirrored(q Query) bool {
	if w, ok := q.(*Where); ok {
		w.Keys() // optInit decides singleton
		if _, onTable := w.source.(*Table); w.conflict || (w.singleton && onTable) {
			return false
		}
	}
	if q2, ok := q.(q2i); ok {
		return vkeysMirrored(q2.Source()) && vkeysMirrored(q2.Source2())
	}
	if q1, ok := q.(q1i); ok {
		return vkeysMirrored(q1.Source())
	}
	_, isTable := q.(*Table)
	return isTable
}

// vplainExprs: the expressions of the query are left by the parser in the shape the Lean mirror
// recognises (it mirrors Fixed(), not the parser): a constant operand under and/or/not/if makes
// the parser fold part of the expression (x and false -> false, ...), and `col <= ""` fixes the
// column to "" in the code, a rule the mirror does not have
func vplainExprs(n *vnode) bool {
	if (n.op == "where" || n.op == "extend") && n.expr != nil && !vplainExpr(n.expr) {
		return false
	}
	for _, k := range n.kids {
		if !vplainExprs(k) {
			return false
		}
	}
	return true
}

func vhasCol(e *vexpr) bool {
	m := map[string]bool{}
	e.columns(m)
	return len(m) > 0
}

func vplainExpr(e *vexpr) bool {
	if !vhasCol(e) || e.op == "col" {
		return true // folded to a constant as a whole / a column
	}
	switch e.op {
	case "and", "or", "not", "if", "add", "sub", "mul": // (0 * x -> 0, ...)
		for _, k := range e.kids {
			if !vhasCol(k) {
				return false
			}
		}
	case "le", "ge", "lt", "gt":
		for _, k := range e.kids {
			if k.op == "const" && k.val == EmptyStr {
				return false
			}
		}
	}
	for _, k := range e.kids {
		if !vplainExpr(k) {
			return false
		}
	}
	return true
}

// vnoConflict: no where of the (untransformed) query was found contradictory
func vnoConflict(q Query) bool {
	if w, ok := q.(*Where); ok && w.conflict {
		return false
	}
	if q2, ok := q.(q2i); ok {
		return vnoConflict(q2.Source()) && vnoConflict(q2.Source2())
	}
	if q1, ok := q.(q1i); ok {
		return vnoConflict(q1.Source())
	}
	return true
}

// vfixedText is the canonical text of fixed values (as Drive/C23 showFixed)
func vfixedText(ids *vids, fixed Fixed) (string, bool) {
	if len(fixed) == 0 {
		return "-", true
	}
	es := make([]string, len(fixed))
	for i, f := range fixed {
		vs := make([]string, len(f.values))
		for j, v := range f.values {
			vs[j] = vshow(Unpack(v))
			if vs[j][0] == '?' {
				return "", false
			}
		}
		sort.Strings(vs)
		es[i] = strconv.Itoa(ids.id(f.col)) + ":" + strings.Join(vs, "|")
	}
	sort.Strings(es)
	return strings.Join(es, ";"), true
}

// vkeysText is the canonical text of a list of keys (as Drive/C23 showKeys)
func vkeysText(ids *vids, keys [][]string) string {
	ss := make([]string, len(keys))
	for i, k := range keys {
		ns := make([]int, len(k))
		for j, c := range k {
			ns[j] = ids.id(c)
		}
		sort.Ints(ns)
		cs := make([]string, len(ns))
		for j, x := range ns {
			cs[j] = strconv.Itoa(x)
		}
		if len(cs) == 0 {
			ss[i] = "-"
		} else {
			ss[i] = strings.Join(cs, ",")
		}
	}
	sort.Strings(ss)
	return strings.Join(ss, "/")
}

// vdeclKeys is the keys of the schema of every table, as the Table operator sees them
func (g *vdb) vdeclKeys() string {
	var ps []string
	for _, t := range g.tables {
		tbl, ok := ParseQuery(t.name, g.rt, nil).(*Table)
		if !ok {
			panic("verif: not a table: " + t.name)
		}
		ks := make([]string, len(tbl.allKeys))
		for i, k := range tbl.allKeys {
			ks[i] = g.ids.list(k)
		}
		ps = append(ps, strconv.Itoa(t.id)+"="+strings.Join(ks, "/"))
	}
	if len(ps) == 0 {
		return "-"
	}
	return strings.Join(ps, ";")
}

func vsortedCopy(ss []string) []string {
	out := append([]string{}, ss...)
	sort.Strings(out)
	return out
}

// vorderKind names the family of an ordering failure: a summary column named like a source
// column somewhere below (the order requirement on it is passed to the source's column), else a
// union below single-source operators, else the operator itself
func vorderKind(n *vnode) string {
	for x := n; ; x = x.kids[0] {
		if x.op == "summarize" {
			for _, a := range x.aggs {
				if _, in := x.kids[0].find(a.col); in {
					return "summary-named-like-source"
				}
			}
		}
		if x.op == "union" {
			return "union"
		}
		if len(x.kids) != 1 {
			break
		}
	}
	return n.kind()
}

func vselsText(ids *vids, hdr *Header, sels Sels) (string, bool) {
	ss := make([]string, len(sels))
	for i, s := range sels {
		v := vshow(Unpack(s.val))
		if v[0] == '?' {
			return "", false
		}
		ss[i] = strconv.Itoa(ids.id(s.col)) + ":" + v
	}
	if len(ss) == 0 {
		return "-", true
	}
	return strings.Join(ss, ","), true
}

func (g *vdb) checkC23(tr *lib.Trace, n *vnode) {
	r := g.r
	src := n.src()
	th := &Thread{}
	// a where with '' in an in-list anywhere in the query (known: its index point overlaps the
	// ranges of the other values) gets its own signature
	inEmpty := ""
	var walk func(x *vnode)
	walk = func(x *vnode) {
		if x.op == "where" && vinEmpty(x.expr) {
			inEmpty = "+in-empty"
		}
		for _, k := range x.kids {
			walk(k)
		}
	}
	walk(n)
	where := func() string { return "db: " + g.describe() + " query: " + src + " | columns " + strings.Join(g.ids.names, ",") }

	// the rows as written
	q0 := ParseQuery(src, g.rt, nil)
	q0.SetTran(g.rt)
	hdr0 := q0.Header()
	cols0 := append([]string{}, q0.Columns()...)
	sort.Slice(cols0, func(i, j int) bool { return g.ids.id(cols0[i]) < g.ids.id(cols0[j]) })
	var keys0 [][]string
	var fixed0 Fixed
	if n.op != "sort" { // Sort does not report keys/indexes (it is only ever the top node)
		keys0, fixed0 = q0.Keys(), q0.Fixed()
	}
	rows0 := q0.Simple(th)
	exp := vcanon(&g.ids, q0.Columns(), hdr0, rows0, th)

	checkMeta := func(what string, keys [][]string, fixed Fixed) {
		for _, key := range keys {
			seen := map[string]bool{}
			for _, row := range rows0 {
				k := ""
				for _, c := range key {
					k += row.GetRawVal(hdr0, c, th, nil) + "\x00\x00"
				}
				if seen[k] {
					tr.Fail("keys-not-unique:"+what+":"+vshape(n), where()+fmt.Sprintf(" | reported key %v has duplicate values in the rows as written", key))
					break
				}
				seen[k] = true
			}
		}
		for _, fx := range fixed {
			if !vhasStr(q0.Columns(), fx.col) {
				continue
			}
			for _, row := range rows0 {
				raw := row.GetRawVal(hdr0, fx.col, th, nil)
				if !vhasStr(fx.values, raw) {
					tr.Fail("fixed-violated:"+what+":"+vshape(n), where()+fmt.Sprintf(" | reported fixed %s has value %v in the rows as written", fx.col, Unpack(raw)))
					break
				}
			}
		}
		tr.CountN("keys-checked", len(keys))
		tr.CountN("fixed-checked", len(fixed))
	}
	checkMeta("aswritten", keys0, fixed0)
	// the Keys() derivation itself against its Lean mirror keysQ (Model/QKeys.lean), for the
	// queries the mirror covers exactly (see vkeysMirrored)
	// the Fixed() derivation against its Lean mirror fixedQ (Model/QFixed.lean); a where the code
	// found contradictory (several analyses, only the fixed-value one is mirrored) is left out
	plain := vplainExprs(n)
	if n.op != "sort" {
		if fx, ok := vfixedText(&g.ids, fixed0); ok && plain && vnoConflict(q0) {
			tr.Q("fixed "+n.toks(&g.ids), fx)
			tr.Count("fixed-mirrored")
		} else {
			tr.Count("fixed-not-mirrored")
		}
	}
	if n.op != "sort" {
		if plain && vkeysMirrored(q0) {
			tr.Q("keys "+g.vdeclKeys()+" "+n.toks(&g.ids), vkeysText(&g.ids, keys0))
			tr.Count("keys-mirrored")
		} else {
			tr.Count("keys-not-mirrored")
		}
	}

	// the executed instance, under a random requirement (as fuzzQuery chooses it)
	q := ParseQuery(src, g.rt, nil)
	use := []Use{ReqNone, ReqOrder, ReqGroup, ReqUnique}[r.Intn(4)]
	var indexes [][]string
	if n.op != "sort" {
		indexes = q.Indexes()
	}
	var index []string
	if n.op == "sort" || len(indexes) == 0 || isEmptyKey(indexes) {
		use = ReqNone
	} else if use == ReqUnique {
		if kis := keyIndexes(q); len(kis) > 0 {
			index = kis[r.Intn(len(kis))]
		} else {
			index = q.Columns()
		}
	} else {
		index = indexes[r.Intn(len(indexes))]
	}
	var req Require
	switch use {
	case ReqNone:
		req = NoneReq(1)
	case ReqOrder:
		index = index[:1+r.Intn(len(index))]
		req = OrderReq(index, 1)
	case ReqGroup:
		req = GroupReq(append([]string{}, index...), 1/float32(1+r.Intn(4)), int32(1+r.Intn(10)))
	case ReqUnique:
		index = append([]string{}, index...)
		for range r.Intn(len(index)) {
			c := q.Columns()[r.Intn(len(q.Columns()))]
			if !vhasStr(index, c) {
				index = append(index, c)
			}
		}
		req = UniqueReq(index, int32(1+r.Intn(10)))
	}
	q = q.Transform()
	if _, isSort := q.(*Sort); !isSort {
		checkMeta("transformed", q.Keys(), q.Fixed())
	}
	if fix, vr := Optimize(q, ReadMode, req); fix+vr >= impossible {
		use, req, index = ReqNone, NoneReq(1), nil
		if fix, vr = Optimize(q, ReadMode, req); fix+vr >= impossible {
			tr.Count("impossible")
			return
		}
	}
	q = SetApproach(q, req, g.rt)
	q.SetTran(g.rt)
	plan := String(q)
	hdr := q.Header()
	tr.Count("use=" + use.String())
	at := func() string { return where() + " | " + use.String() + fmt.Sprint(index) + " executes: " + vtrunc(plan, 300) }

	readAll := func(dir Dir) []Row {
		q.Rewind()
		var rows []Row
		for row := q.Get(th, dir); row != nil; row = q.Get(th, dir) {
			rows = append(rows, row)
			if len(rows) > 100000 {
				panic("verif: runaway result")
			}
		}
		return rows
	}
	canon := func(rows []Row) *vresult { return vcanon(&g.ids, cols0, hdr, rows, th) }
	if ec, xc := vsortedCopy(vnoDeps(q0.Columns())), vsortedCopy(vnoDeps(hdr.Columns)); strings.Join(ec, ",") != strings.Join(xc, ",") {
		// the executed query has other result columns than the query as written
		tr.Fail("contract-cols:"+vshape(g.vlocalise(n, 1)), at()+fmt.Sprintf(" | columns as written %v | executed %v", ec, xc))
		return
	}
	next := canon(readAll(Next))
	if strings.Join(next.rows, ";") != strings.Join(exp.rows, ";") {
		tr.Fail("contract-rows:"+vshape(g.vlocalise(n, 1)), at()+" | as written "+vtrunc(exp.show(&g.ids), 300)+" | read "+vtrunc(next.show(&g.ids), 300))
		return // the remaining checks compare with the rows as written
	}
	prev := canon(readAll(Prev))
	rev := make([]string, len(next.seq))
	for i, s := range next.seq {
		rev[len(rev)-1-i] = s
	}
	if strings.Join(prev.seq, ";") != strings.Join(rev, ";") {
		tr.Fail("prev-not-reverse:"+vorderKind(n), at()+" | forwards "+vtrunc(strings.Join(next.seq, ";"), 300)+" | backwards "+vtrunc(strings.Join(prev.seq, ";"), 300))
	}
	// a sort as written: the rows read forwards are in that order (reverse: descending)
	if n.op == "sort" && len(next.seq) > 0 {
		tr.Count("sort-as-written")
		var ordRows []string
		okOrder := true
		var last []string
		q.Rewind()
		for row := q.Get(th, Next); row != nil; row = q.Get(th, Next) {
			cur := make([]string, len(n.list))
			vs := make([]Value, len(n.list))
			for j, c := range n.list {
				cur[j] = row.GetRawVal(hdr, c, th, nil)
				vs[j] = Unpack(cur[j])
			}
			if last != nil {
				for j := range cur {
					if c := strings.Compare(last[j], cur[j]); c != 0 {
						if (c > 0) != n.rev {
							okOrder = false
						}
						break
					}
				}
			}
			last = cur
			ordRows = append(ordRows, vshowVals(vs))
		}
		if !okOrder {
			tr.Fail("sort-order-not-respected:"+vorderKind(n.kids[0]), at()+" | "+vtrunc(strings.Join(ordRows, ";"), 300))
		} else {
			tr.Q("sorted "+lib.B(n.rev)+" "+g.ids.list(n.list)+" "+strings.Join(ordRows, " "), lib.B(okOrder))
		}
	}
	// requested order
	if use == ReqOrder && len(next.seq) > 0 {
		ordRows := make([]string, len(next.seq))
		q.Rewind()
		i := 0
		okOrder := true
		var last []string
		for row := q.Get(th, Next); row != nil; row = q.Get(th, Next) {
			cur := make([]string, len(index))
			vs := make([]Value, len(index))
			for j, c := range index {
				cur[j] = row.GetRawVal(hdr, c, th, nil)
				vs[j] = Unpack(cur[j])
			}
			if last != nil {
				for j := range cur {
					if c := strings.Compare(last[j], cur[j]); c != 0 {
						if c > 0 {
							okOrder = false
						}
						break
					}
				}
			}
			last = cur
			ordRows[i] = vshowVals(vs)
			i++
		}
		if !okOrder {
			tr.Fail("order-not-respected:"+vorderKind(n), at()+" | "+vtrunc(strings.Join(ordRows, ";"), 300))
		} else {
			tr.Q("sorted f "+g.ids.list(index)+" "+strings.Join(ordRows, " "), lib.B(okOrder))
		}
	}
	// cursor walk; positions are indices into the forward order (rows must be distinct for that)
	pos := map[string]int{}
	for i, s := range next.seq {
		pos[s] = i
	}
	if len(pos) == len(next.seq) {
		nops := 4 + r.Intn(24)
		var ops, outs []string
		q.Rewind()
		lastNil := false
		for range nops {
			switch k := r.Intn(12); {
			case k == 0:
				q.Rewind()
				ops = append(ops, "R")
				lastNil = false
			default:
				dir, name := Next, "N"
				if k%2 == 0 {
					dir, name = Prev, "P"
				}
				row := q.Get(th, dir)
				ops = append(ops, name)
				if row == nil {
					outs = append(outs, "-")
					lastNil = true
				} else {
					if lastNil {
						tr.Fail("not-sticky-at-eof:"+use.String(), at()+" | calls "+strings.Join(ops, ""))
					}
					p, ok := pos[vrowText(hdr, row, next.cols, th, nil)]
					if !ok {
						p = -1
					}
					outs = append(outs, strconv.Itoa(p))
				}
			}
		}
		tr.Q("walk "+strconv.Itoa(len(next.seq))+" "+strings.Join(ops, ""), strings.Join(outs, " "))
		tr.CountN("walk-calls", nops)
	} else {
		tr.Count("walk-skipped-duplicate-rows")
	}
	q.Rewind()
	selected := false
	defer func() {
		if selected {
			q.Select(nil)
		}
	}()
	// select / lookup with selections taken from a row as written, or made to match nothing
	if (use == ReqOrder || use == ReqGroup || use == ReqUnique) && len(index) > 0 {
		nsel := 6
		if len(fixed0) > 0 {
			nsel = 10 // selections that conflict with fixed values, then ones that do not
		}
		for range nsel {
			srcRow := make(Row, len(hdr0.Fields))
			if len(rows0) > 0 {
				srcRow = rows0[r.Intn(len(rows0))]
				if r.Intn(4) == 0 {
					// the row with the most empty values on the index columns
					best := -1
					for _, row := range rows0 {
						n := 0
						for _, c := range index {
							if row.GetRawVal(hdr0, c, th, nil) == "" {
								n++
							}
						}
						if n > best {
							best, srcRow = n, row
						}
					}
				}
			}
			selCols := append([]string{}, index...)
			r.Shuffle(len(selCols), func(i, j int) { selCols[i], selCols[j] = selCols[j], selCols[i] })
			sels := makeSels(hdr0, srcRow, selCols, th, nil)
			kind := "existing"
			if len(rows0) == 0 || r.Intn(3) == 0 {
				kind = "absent"
				i := r.Intn(len(sels))
				// prefer a column the query reports as fixed (a selection that conflicts with it)
				for j, sl := range sels {
					for _, fx := range fixed0 {
						if fx.col == sl.col && r.Intn(2) == 0 {
							i = j
						}
					}
				}
				switch r.Intn(3) {
				case 0:
					sels[i].val = Pack(SuStr("nonexistent"))
				case 1:
					sels[i].val = Pack(IntVal(77))
				default:
					sels[i].val = ""
				}
			}
			selS, ok := vselsText(&g.ids, hdr0, sels)
			if !ok {
				continue
			}
			// the matching rows as written
			var match []Row
			for _, row := range rows0 {
				m := true
				for _, s := range sels {
					if row.GetRawVal(hdr0, s.col, th, nil) != s.val {
						m = false
					}
				}
				if m {
					match = append(match, row)
				}
			}
			want := vcanon(&g.ids, cols0, hdr0, match, th)
			if use == ReqUnique {
				tr.Count("lookup=" + kind)
				row := lookup(q, sels, th, nil)
				got, wantS := "-", "-"
				if row != nil {
					got = vrowText(hdr, row, want.cols, th, nil)
				}
				if len(want.rows) > 0 {
					wantS = want.rows[0]
				}
				if len(want.rows) > 1 {
					tr.Count("lookup-ambiguous")
					continue
				}
				if got != wantS {
					tr.Fail("lookup-spec:"+kind+inEmpty, at()+" | lookup "+selS+" | as written "+wantS+" | returned "+got)
				} else {
					tr.Q("lookup "+selS+" "+n.toks(&g.ids), got)
				}
			} else {
				tr.Count("select=" + kind)
				selected = true
				q.Select(sels)
				var rows []Row
				for row := q.Get(th, Next); row != nil; row = q.Get(th, Next) {
					rows = append(rows, row)
				}
				got := canon(rows)
				if strings.Join(got.rows, ";") != strings.Join(want.rows, ";") {
					tr.Fail("select-spec:"+kind+inEmpty, at()+" | select "+selS+" | as written "+vtrunc(want.show(&g.ids), 300)+" | read "+vtrunc(got.show(&g.ids), 300))
				} else {
					tr.Q("select "+selS+" "+n.toks(&g.ids), got.show(&g.ids))
				}
				// a join selects again without clearing; clear only sometimes
				if r.Intn(3) == 0 {
					q.Select(nil)
					tr.Count("select-cleared-between")
				}
			}
		}
	}
}
