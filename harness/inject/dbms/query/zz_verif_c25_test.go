//go:build verif

package query

// C25 — query expressions evaluate like language expressions.
//
// Random typed expressions x random rows. Three evaluations of the same expression:
//   language : ast Eval after ast.Unraw (what Where.Simple uses)
//   engine   : ast Eval after CanEvalRaw(flds) with a random set of stored fields
//              (what Where.filter / Extend use: comparisons on stored encodings where possible)
//   compiled : the expression compiled as `function (a, b, c, d) { return … }` and called
// Q lines: language value, engine value and the CanEvalRaw flag against Gsu.QExpr eval/evalX/canRaw;
// pack of every value against Gsu.QVal.pack.
// F lines: compiled != language; engine != language outside the two known exceptions
// ("" ordered against a non-string: documented; prefix-related negative numbers: finding 9).

import (
	"fmt"
	"math/rand"
	"os"
	"sort"
	"strconv"
	"strings"
	"testing"

	"github.com/apmckinlay/gsuneido/compile"
	"github.com/apmckinlay/gsuneido/compile/ast"
	tok "github.com/apmckinlay/gsuneido/compile/tokens"
	. "github.com/apmckinlay/gsuneido/core"
	lib "github.com/apmckinlay/gsuneido/util/zzverif"
)

var v25names = []string{"a", "b", "c", "d"}

func v25parse(src string) ast.Expr {
	p := NewQueryParser(src, nil, nil)
	p.EqToIs = true
	return p.Expression()
}

type v25row struct {
	vals []Value
	hdr  *Header
	row  Row
}

func v25mkrow(vals []Value) *v25row {
	var rb RecordBuilder
	for _, v := range vals {
		rb.Add(v.(Packable))
	}
	return &v25row{vals: vals, hdr: NewHeader([][]string{v25names}, v25names),
		row: Row{DbRec{Record: rb.Build()}}}
}

// language value of an expression text on a row ("" + error class on panic)
func (r *v25row) language(src string, th *Thread) (v Value, err string) {
	err = lib.Catch(func() {
		e := v25parse(src)
		ast.Unraw(e)
		v = e.Eval(&ast.RowContext{Th: th, Hdr: r.hdr, Row: r.row})
	})
	return
}

func v25errClass(msg string) string {
	switch {
	case strings.Contains(msg, "can't convert"):
		return "convert"
	case strings.Contains(msg, "StrictCompare"):
		return "strict"
	}
	return "panic"
}

func v25negPrefix(x, y Value) bool {
	px, py := Pack(x.(Packable)), Pack(y.(Packable))
	if len(px) == 0 || len(py) == 0 || px[0] != PackMinus || py[0] != PackMinus || px == py {
		return false
	}
	return strings.HasPrefix(px, py) || strings.HasPrefix(py, px)
}

func v25isStr(v Value) bool { _, ok := v.(SuStr); return ok }

// exceptions walks the expression: does an order comparison meet "" against a non-string, or
// two prefix-related negative numbers (operands evaluated by the language)?
func (r *v25row) exceptions(e *vexpr, th *Thread) (empty, negprefix bool) {
	for _, k := range e.kids {
		e1, n1 := r.exceptions(k, th)
		empty, negprefix = empty || e1, negprefix || n1
	}
	switch e.op {
	case "lt", "le", "gt", "ge":
		x, ex := r.language(e.kids[0].src(), th)
		y, ey := r.language(e.kids[1].src(), th)
		if ex != "" || ey != "" {
			return
		}
		if (x == EmptyStr && !v25isStr(y)) || (y == EmptyStr && !v25isStr(x)) {
			empty = true
		}
		if v25negPrefix(x, y) {
			negprefix = true
		}
	}
	return
}

var v25cmpTok = map[tok.Token]string{tok.Is: "is", tok.Isnt: "ne", tok.Lt: "lt", tok.Lte: "le", tok.Gt: "gt", tok.Gte: "ge"}

// v25toks prints the expression the engine evaluates (after the parser's constant folding) in
// the model's prefix notation; ok=false for node kinds outside the model
func v25toks(e ast.Expr, ids *vids) (s string, ok bool) {
	nest := func(op string, parts []string) string {
		s := parts[len(parts)-1]
		for i := len(parts) - 2; i >= 0; i-- {
			s = op + " " + parts[i] + " " + s
		}
		return s
	}
	switch e := e.(type) {
	case *ast.Constant:
		if sh := vshow(e.Val); sh[0] != '?' {
			return "k" + sh, true
		}
	case *ast.Ident:
		return "c" + strconv.Itoa(ids.id(e.Name)), true
	case *ast.Unary:
		x, ok := v25toks(e.E, ids)
		switch {
		case !ok:
		case e.Tok == tok.Not:
			return "not " + x, true
		case e.Tok == tok.Sub:
			return "neg " + x, true
		case e.Tok == tok.LParen:
			return x, true
		}
	case *ast.Binary:
		x, ok1 := v25toks(e.Lhs, ids)
		y, ok2 := v25toks(e.Rhs, ids)
		if op, ok := v25cmpTok[e.Tok]; ok && ok1 && ok2 {
			return op + " " + x + " " + y, true
		}
	case *ast.Trinary:
		c, ok1 := v25toks(e.Cond, ids)
		x, ok2 := v25toks(e.T, ids)
		y, ok3 := v25toks(e.F, ids)
		if ok1 && ok2 && ok3 {
			return "if " + c + " " + x + " " + y, true
		}
	case *ast.In:
		x, ok := v25toks(e.E, ids)
		var vals []Value
		for _, v := range e.Exprs {
			c, isc := v.(*ast.Constant)
			if !isc {
				return "", false
			}
			vals = append(vals, c.Val)
		}
		if ok {
			return "in " + vshowVals(vals) + " " + x, true
		}
	case *ast.InRange:
		x, ok1 := v25toks(e.E, ids)
		o, ok2 := v25toks(e.Org, ids)
		n, ok3 := v25toks(e.End, ids)
		if ok1 && ok2 && ok3 {
			return "and " + v25cmpTok[e.OrgTok] + " " + x + " " + o + " " + v25cmpTok[e.EndTok] + " " + x + " " + n, true
		}
	case *ast.Nary:
		parts := make([]string, len(e.Exprs))
		for i, x := range e.Exprs {
			p, ok := v25toks(x, ids)
			if !ok {
				return "", false
			}
			parts[i] = p
		}
		switch e.Tok {
		case tok.And:
			return nest("and", parts), true
		case tok.Or:
			return nest("or", parts), true
		case tok.Add: // a - b is Add[a, Unary(Sub, b)]
			return nest("add", parts), true
		case tok.Mul:
			for _, x := range e.Exprs {
				if u, ok := x.(*ast.Unary); ok && u.Tok == tok.Div {
					return "", false
				}
			}
			return nest("mul", parts), true
		}
	}
	return "", false
}

// ---------------------------------------------------------------------------------------------
// query level: `table where <terms>` through the real Where (index selection, index filters on
// the key, raw evaluation, InRange folding) against the language evaluation of the same
// expression on every row of the table

type v25term struct {
	e    *vexpr
	kind string
}

func v25cmpVals(x, y Value) int { return x.Compare(y) }

// v25terms builds 1-4 conjuncts over table t; ix is one of its keys/indexes (may be empty)
func (g *vdb) v25terms(t *vtable, ix []string) []v25term {
	r := g.r
	val := func(ci int) Value { return t.rows[r.Intn(len(t.rows))][ci] }
	nonEmpty := func(ci int) Value {
		for range 4 {
			if v := val(ci); v != EmptyStr {
				return v
			}
		}
		if t.cols[ci].typ == vtInt {
			return IntVal(g.randInt())
		}
		return SuStr("a")
	}
	pickCol := func(in bool) int { // a column inside / outside the index
		var cs []int
		for i, c := range t.cols {
			if vhasStr(ix, c.name) == in {
				cs = append(cs, i)
			}
		}
		if len(cs) == 0 {
			return r.Intn(len(t.cols))
		}
		return cs[r.Intn(len(cs))]
	}
	var terms []v25term
	add := func(kind string, es ...*vexpr) {
		for _, e := range es {
			terms = append(terms, v25term{e, kind})
		}
	}
	nt := 1 + r.Intn(3)
	for len(terms) < nt {
		switch k := r.Intn(10); {
		case k < 3: // point / in-list on an index column (no '' in lists: known KF-C22-3)
			ci := pickCol(true)
			if r.Intn(2) == 0 {
				add("point", &vexpr{op: "is", kids: []*vexpr{vcolx(t.cols[ci].name), vconst(val(ci))}})
			} else {
				vals := []Value{nonEmpty(ci)}
				for range 1 + r.Intn(2) {
					v := nonEmpty(ci)
					dup := false
					for _, o := range vals {
						if o.Equal(v) {
							dup = true
						}
					}
					if !dup {
						vals = append(vals, v)
					}
				}
				add("in", &vexpr{op: "in", kids: []*vexpr{vcolx(t.cols[ci].name)}, vals: vals})
			}
		case k < 6: // a pair of bounds on one column, rows exactly on both bounds, all strictness combinations
			ci := pickCol(r.Intn(2) == 0)
			lo, hi := val(ci), val(ci)
			if v25cmpVals(lo, hi) > 0 {
				lo, hi = hi, lo
			}
			lower := &vexpr{op: []string{"gt", "ge"}[r.Intn(2)], kids: []*vexpr{vcolx(t.cols[ci].name), vconst(lo)}}
			upper := &vexpr{op: []string{"lt", "le"}[r.Intn(2)], kids: []*vexpr{vcolx(t.cols[ci].name), vconst(hi)}}
			if r.Intn(4) == 0 {
				lower, upper = upper, lower
			}
			add("range-"+lower.op+"-"+upper.op, lower, upper)
		case k < 8: // a term that cannot be evaluated on encodings
			ci := pickCol(r.Intn(2) == 0)
			if t.cols[ci].typ != vtInt {
				continue
			}
			n, _ := val(ci).ToInt()
			e := &vexpr{op: "add", kids: []*vexpr{vcolx(t.cols[ci].name), vconst(IntVal(0))}}
			if r.Intn(2) == 0 {
				e = &vexpr{op: "mul", kids: []*vexpr{vcolx(t.cols[ci].name), vconst(IntVal(1))}}
			}
			add("nonraw", &vexpr{op: []string{"is", "ge", "le", "ne"}[r.Intn(4)], kids: []*vexpr{e, vconst(IntVal(n))}})
		default: // a term that mixes an index column with a column outside the index
			c1, c2 := pickCol(true), pickCol(false)
			if c1 == c2 || t.cols[c1].typ != t.cols[c2].typ {
				continue
			}
			if r.Intn(2) == 0 {
				c1, c2 = c2, c1
			}
			add("mixed", &vexpr{op: []string{"is", "ne", "lt", "le", "gt", "ge"}[r.Intn(6)],
				kids: []*vexpr{vcolx(t.cols[c1].name), vcolx(t.cols[c2].name)}})
		}
	}
	// keep the two halves of a range adjacent most of the time, otherwise any order
	if r.Intn(3) == 0 {
		r.Shuffle(len(terms), func(i, j int) { terms[i], terms[j] = terms[j], terms[i] })
	} else if len(terms) > 1 && r.Intn(2) == 0 {
		// rotate: non-raw / mixed terms in front of the index terms
		k := r.Intn(len(terms))
		terms = append(terms[k:], terms[:k]...)
	}
	return terms
}

// checkWhere25: `t where e` through the real Where under every strategy against the language
// evaluation of e on every row of t (direct oracle) and the Lean evalQ replay
func (g *vdb) checkWhere25(tr *lib.Trace, th *Thread, t *vtable, e *vexpr, ks []string, ix []string) {
	tn := &vnode{op: "table", tbl: t, cols: append([]vcol{}, t.cols...)}
	q := &vnode{op: "where", kids: []*vnode{tn}, cols: tn.cols, expr: e}
	if !g.valid(q) {
		tr.Count("query-rejected")
		return
	}
	// the language on every row
	names := tn.colNames()
	hdr := NewHeader([][]string{names}, names)
	cols := append([]string{}, names...)
	sort.Slice(cols, func(a, b int) bool { return g.ids.id(cols[a]) < g.ids.id(cols[b]) })
	var want []string
	lerr := ""
	for _, vals := range t.rows {
		var rb RecordBuilder
		for _, v := range vals {
			rb.Add(v.(Packable))
		}
		row := Row{DbRec{Record: rb.Build()}}
		var v Value
		if msg := lib.Catch(func() {
			x := v25parse(e.src())
			ast.Unraw(x)
			v = x.Eval(&ast.RowContext{Th: th, Hdr: hdr, Row: row})
		}); msg != "" {
			lerr = msg
			break
		}
		if v == True {
			want = append(want, vrowText(hdr, row, cols, th, nil))
		}
	}
	if lerr != "" {
		tr.Count("language-error")
		return
	}
	sort.Strings(want)
	wantS := g.ids.list(cols) + " " + strconv.Itoa(len(want)) + " " + strings.Join(want, ";")
	firstGot, firstPlan, failed := "", "", false
	for _, st := range vstrategies {
		res, plan := g.execute(q.src(), st, g.r.Uint64())
		if res.err == "skip" {
			return
		}
		got := res.show(&g.ids)
		if firstGot == "" {
			firstGot, firstPlan = got, plan
		}
		if got != wantS {
			failed = true
			tr.Fail("where-vs-language:"+strings.Join(ks, "+"),
				"db: "+g.describe()+" query: "+q.src()+" | index considered "+fmt.Sprint(ix)+" | strategy "+st.name+
					" executes: "+vtrunc(plan, 300)+" | rows on which the language evaluates the expression to true: "+
					vtrunc(wantS, 300)+" | executed: "+vtrunc(got, 300)+" | columns "+strings.Join(g.ids.names, ","))
			break
		}
	}
	// the model replay only where the direct oracle is silent (no double report)
	if !failed && firstGot != "" {
		tr.Q("eval "+q.toks(&g.ids), firstGot)
		tr.Sample(q.src() + "  =>  " + vtrunc(firstPlan, 160))
	}
}

func vC25Query(tr *lib.Trace, r *rand.Rand, n int) {
	th := &Thread{}
	done := 0
	for done < n {
		g := newVdb(r)
		g.emitTables(tr)
		for i := 0; i < 10 && done < n; i++ {
			t := g.tables[r.Intn(len(g.tables))]
			if len(t.rows) == 0 {
				continue
			}
			done++
			var ix []string
			all := append(append([][]string{}, t.keys...), t.indexes...)
			if c := all[r.Intn(len(all))]; len(c) > 0 {
				ix = c[:1+r.Intn(len(c))]
			}
			terms := g.v25terms(t, ix)
			e := terms[len(terms)-1].e
			kinds := map[string]bool{terms[len(terms)-1].kind: true}
			for j := len(terms) - 2; j >= 0; j-- {
				e = &vexpr{op: "and", kids: []*vexpr{terms[j].e, e}}
				kinds[terms[j].kind] = true
			}
			var ks []string
			for k := range kinds {
				ks = append(ks, k)
				tr.Count("term=" + k)
			}
			sort.Strings(ks)
			g.checkWhere25(tr, th, t, e, ks, ix)
		}
		g.close()
	}
}

func TestVerifC25(t *testing.T) {
	tr := lib.Open()
	defer tr.Close()
	r := lib.Rand()
	n := lib.N(3000)
	vCorpusC25(tr)
	defer vC25Query(tr, r, max(200, n/5))
	reportNeg := os.Getenv("VERIF_NEGPREFIX") == "1"
	g := &vdb{r: r}
	ids := &g.ids
	for _, c := range v25names {
		ids.id(c)
	}
	th := &Thread{}
	packed := map[string]bool{}
	intVals := []int{0, 1, 2, 5, 9, 10, 15, 99, 100, 105, 150, 155, 1500, 1550, -1, -2, -9, -10, -13, -15,
		-150, -155, -1500, -1550, 1 << 20, -(1 << 20)}
	for i := 0; i < n; i++ {
		// row: a,b,c integers (sometimes ""), d,e strings
		vals := make([]Value, 4)
		cols := make([]vcol, 4)
		for j := 0; j < 3; j++ {
			switch k := r.Intn(10); {
			case k == 0:
				vals[j] = EmptyStr
			case k < 5:
				vals[j] = IntVal(intVals[r.Intn(len(intVals))])
			default:
				vals[j] = IntVal(g.randInt())
			}
			// declared as plain integer columns with a harmless range: the expression generator
			// then produces order comparisons on them, and "" / prefix-related negatives in the
			// data reach the raw comparison
			cols[j] = vcol{name: v25names[j], typ: vtInt, lo: 0, hi: 100}
		}
		for j := 3; j < 4; j++ {
			vals[j] = SuStr(g.randStr())
			cols[j] = vcol{name: v25names[j], typ: vtStr}
		}
		row := v25mkrow(vals)
		for _, v := range vals {
			k := vshow(v)
			if !packed[k] {
				packed[k] = true
				tr.Q("pack "+k, lib.X(Pack(v.(Packable))))
			}
		}
		e := g.boolExpr(cols, 2+r.Intn(2))
		if r.Intn(4) == 0 {
			e, _, _ = g.intExpr(cols, 2)
		}
		src := e.src()
		// stored fields the engine may read raw
		var flds []string
		for _, c := range v25names {
			if r.Intn(4) != 0 {
				flds = append(flds, c)
			}
		}
		lang, lerr := row.language(src, th)
		var eng Value
		var canraw, modelled bool
		var toks string
		eerr := lib.Catch(func() {
			x := v25parse(src)
			toks, modelled = v25toks(x, ids)
			canraw = x.CanEvalRaw(flds)
			eng = x.Eval(&ast.RowContext{Th: th, Hdr: row.hdr, Row: row.row})
		})
		var comp Value
		cerr := lib.Catch(func() {
			fn := compile.Constant("function (a, b, c, d) { return " + src + " }")
			comp = th.Call(fn, vals...)
		})
		tr.Count("top=" + e.op)
		tr.Count("canraw=" + lib.B(canraw))
		desc := func() string {
			return fmt.Sprintf("expr: %s | row a..d = %s | stored fields %v | language %v%s | engine %v%s | compiled %v%s",
				src, vshowVals(vals), flds, lang, lerr, eng, eerr, comp, cerr)
		}
		if lerr != "" || eerr != "" || cerr != "" {
			tr.Count("error=" + v25errClass(lerr+eerr+cerr))
			if v25errClass(lerr) != v25errClass(eerr) && (lerr == "") != (eerr == "") {
				tr.Fail("engine-error-vs-language", desc())
			}
			if (lerr == "") != (cerr == "") {
				tr.Fail("compiled-error-vs-language", desc())
			}
			continue
		}
		if !comp.Equal(lang) || vshow(comp) != vshow(lang) {
			tr.Fail("compiled-vs-language:"+e.op, desc())
		}
		rowS := make([]string, 4)
		for j, v := range vals {
			rowS[j] = strconv.Itoa(j) + ":" + vshow(v)
		}
		if modelled {
			tr.Q("ev "+ids.list(flds)+" "+strings.Join(rowS, ",")+" "+toks,
				vshow(lang)+" "+vshow(eng)+" "+lib.B(canraw))
		} else {
			tr.Count("outside-model")
		}
		if vshow(eng) != vshow(lang) {
			empty, neg := row.exceptions(e, th)
			switch {
			case empty:
				tr.Count("documented-empty-order-exception")
			case neg:
				tr.Count("neg-prefix-order-observed")
				if reportNeg {
					tr.Fail("neg-prefix-order", desc())
				}
			default:
				tr.Fail("raw-vs-language:"+e.op, desc())
			}
		}
		if i < 3 {
			tr.Sample(desc())
		}
	}
	// order of encodings against language order on value pairs
	all := []Value{True, False, EmptyStr, SuStr("a"), SuStr("ab"), SuStr("\x00"), SuStr("\xff")}
	for _, n := range intVals {
		all = append(all, IntVal(n))
	}
	for _, x := range all {
		for _, y := range all {
			px, py := Pack(x.(Packable)), Pack(y.(Packable))
			rc, lc := strings.Compare(px, py), x.Compare(y)
			if lc < 0 {
				lc = -1
			} else if lc > 0 {
				lc = 1
			}
			tr.Q("rawcmp "+vshow(x)+" "+vshow(y), strconv.Itoa(rc)+" "+strconv.Itoa(lc))
			if rc != lc {
				switch {
				case (x == EmptyStr && !v25isStr(y)) || (y == EmptyStr && !v25isStr(x)):
					tr.Count("pair-documented-empty-order-exception")
				case v25negPrefix(x, y):
					tr.Count("pair-neg-prefix-order-observed")
					if reportNeg {
						tr.Fail("neg-prefix-order", fmt.Sprintf("Pack(%v) vs Pack(%v): bytes %d, values %d", x, y, rc, lc))
					}
				default:
					tr.Fail("packed-order", fmt.Sprintf("Pack(%v) vs Pack(%v): bytes %d, values %d", x, y, rc, lc))
				}
			}
		}
	}
}
