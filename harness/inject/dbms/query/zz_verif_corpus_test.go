//go:build verif

package query

// Deterministic corpus for the M-QRY suites: one scripted database and one or two scripted queries
// per class of behaviour the random generators were widened for, run at the start of every suite
// through the SAME generic oracles (checkC22 / checkC23 / checkWhere25) — independent of VERIF_SEED.
// Nothing here knows about any particular defect: every case is an ordinary query whose result on
// the unchanged tree equals the query as written.

import (
	"math/rand"
	"strconv"
	"strings"

	. "github.com/apmckinlay/gsuneido/core"
	"github.com/apmckinlay/gsuneido/db19"
	"github.com/apmckinlay/gsuneido/db19/stor"
	lib "github.com/apmckinlay/gsuneido/util/zzverif"
)

type vspec struct {
	name    string
	cols    string // comma separated
	keys    []string
	indexes []string
	rows    [][]any
}

func vval(x any) Value {
	switch x := x.(type) {
	case int:
		return IntVal(x)
	case string:
		return SuStr(x)
	}
	panic("verif corpus: value")
}

func vsplit(s string) []string {
	if s == "" {
		return []string{}
	}
	return strings.Split(s, ",")
}

// newVdbFixed builds a database from explicit table specifications
func newVdbFixed(r *rand.Rand, specs []vspec) *vdb {
	st := stor.HeapStor(64 * 1024)
	st.Alloc(1)
	db := db19.CreateDb(st)
	db.CheckerSync()
	g := &vdb{db: db, r: r, maxops: 3}
	for ti, sp := range specs {
		t := &vtable{id: ti, name: sp.name}
		for i, c := range vsplit(sp.cols) {
			col := vcol{name: c, typ: vtInt, lo: -3, hi: 105}
			if len(sp.rows) > 0 {
				if _, ok := sp.rows[0][i].(string); ok {
					col = vcol{name: c, typ: vtStr}
				}
			}
			t.cols = append(t.cols, col)
		}
		for _, k := range sp.keys {
			t.keys = append(t.keys, vsplit(k))
		}
		for _, k := range sp.indexes {
			t.indexes = append(t.indexes, vsplit(k))
		}
		for _, row := range sp.rows {
			vals := make([]Value, len(row))
			for i, x := range row {
				vals[i] = vval(x)
			}
			t.rows = append(t.rows, vals)
		}
		sb := "create " + t.name + " (" + sp.cols + ")"
		for _, k := range sp.keys {
			sb += " key(" + k + ")"
		}
		for _, k := range sp.indexes {
			sb += " index(" + k + ")"
		}
		DoAdmin(db, sb, nil)
		ut := db.NewUpdateTran()
		for _, row := range t.rows {
			var rb RecordBuilder
			for _, v := range row {
				rb.Add(v.(Packable))
			}
			ut.Output(nil, t.name, rb.Build())
		}
		db.CommitMerge(ut)
		g.tables = append(g.tables, t)
	}
	g.rt = db.NewReadTran()
	return g
}

var vcorpusSpecs = []vspec{
	{name: "one", cols: "k,n", keys: []string{"k"},
		rows: [][]any{{1, "one"}, {2, "two"}}},
	{name: "many", cols: "m,k,x", keys: []string{"m"}, indexes: []string{"k"},
		rows: [][]any{{1, 1, "a"}, {2, 1, "b"}, {3, 1, "a"}, {4, 2, "c"}, {5, 3, "d"}}},
	{name: "wide", cols: "a,b,c,d,e", keys: []string{"a,b,c,d"},
		rows: [][]any{{1, 2, 3, 4, "p"}, {1, 2, 3, 5, "q"}, {1, 2, 3, 6, "r"}, {1, 2, 4, 4, "s"}, {2, 2, 3, 5, "t"}, {0, 1, 3, 4, "u"}}},
	{name: "u1", cols: "a,b", keys: []string{"a"},
		rows: [][]any{{1, 2}, {3, 4}}},
	{name: "u2", cols: "a,b,s", keys: []string{"a"},
		rows: [][]any{{1, 2, ""}, {5, 6, "x"}, {3, 4, "y"}}},
	{name: "lft", cols: "x,c,d", keys: []string{"x"},
		rows: [][]any{{1, 2, "k"}, {2, 1, "k"}, {3, 1, "m"}, {4, 3, "m"}, {5, 1, "k"}}},
	{name: "rgt", cols: "y,c,d,f", keys: []string{"y"}, indexes: []string{"d"},
		rows: [][]any{{10, 1, "k", 1}, {11, 1, "k", 2}, {12, 1, "m", 1}, {13, 2, "n", 1}, {14, 2, "k", 1}, {15, 1, "p", 1}}},
	{name: "rgn", cols: "y,c,d,f", keys: []string{"y"}, // the same without an index on the join columns
		rows: [][]any{{10, 1, "k", 1}, {11, 1, "k", 2}, {12, 1, "m", 1}, {13, 2, "n", 1}, {14, 2, "k", 1}, {15, 1, "p", 1}}},
	{name: "tt", cols: "t,u,v", keys: []string{"t"}, indexes: []string{"u"},
		rows: [][]any{{"", "", 1}, {"x", "", 2}, {"y", "z", 3}}},
	{name: "mix", cols: "g,h,i", keys: []string{"g,h"},
		rows: [][]any{{1, 0, 1}, {1, 1, 1}, {1, 2, 1}, {2, 0, 0}, {2, 3, 5}}},
}

// query construction helpers (plain vnode / vexpr values, checked by g.valid like generated ones)

func (g *vdb) cT(name string) *vnode {
	for _, t := range g.tables {
		if t.name == name {
			return &vnode{op: "table", tbl: t, cols: append([]vcol{}, t.cols...)}
		}
	}
	panic("verif corpus: table " + name)
}

func cK(x any) *vexpr { return vconst(vval(x)) }

func cCmp(op, col string, x any) *vexpr {
	return &vexpr{op: op, kids: []*vexpr{vcolx(col), cK(x)}}
}

func cCols(op, c1, c2 string) *vexpr {
	return &vexpr{op: op, kids: []*vexpr{vcolx(c1), vcolx(c2)}}
}

func cIn(col string, xs ...any) *vexpr {
	vals := make([]Value, len(xs))
	for i, x := range xs {
		vals[i] = vval(x)
	}
	return &vexpr{op: "in", kids: []*vexpr{vcolx(col)}, vals: vals}
}

func cAnd(es ...*vexpr) *vexpr {
	e := es[len(es)-1]
	for i := len(es) - 2; i >= 0; i-- {
		e = &vexpr{op: "and", kids: []*vexpr{es[i], e}}
	}
	return e
}

func cWhere(src *vnode, e *vexpr) *vnode {
	return &vnode{op: "where", kids: []*vnode{src}, cols: src.cols, expr: e}
}

func cProject(src *vnode, cols ...string) *vnode {
	n := &vnode{op: "project", kids: []*vnode{src}, list: cols}
	for _, name := range cols {
		c, _ := src.find(name)
		n.cols = append(n.cols, c)
	}
	return n
}

func cSummCount(src *vnode, by ...string) *vnode {
	n := &vnode{op: "summarize", kids: []*vnode{src}, list: by, aggs: []vagg{{col: "count", op: "count"}}}
	for _, name := range by {
		c, _ := src.find(name)
		n.cols = append(n.cols, c)
	}
	n.cols = append(n.cols, vcol{name: "count", typ: vtInt, lo: 0, hi: vBig})
	return n
}

func cSort(src *vnode, rev bool, cols ...string) *vnode {
	return &vnode{op: "sort", kids: []*vnode{src}, cols: src.cols, list: cols, rev: rev}
}

func cExtend(src *vnode, col string, e *vexpr) *vnode {
	n := &vnode{op: "extend", kids: []*vnode{src}, newcol: col, expr: e}
	n.cols = append(append([]vcol{}, src.cols...), vcol{name: col, typ: vtInt, lo: 0, hi: 100})
	return n
}

// vcorpusQueries: the scripted queries, by class
func (g *vdb) vcorpusQueries() []*vnode {
	one1 := func() *vnode { return cWhere(g.cT("one"), cCmp("is", "k", 1)) }
	lj := func() *vnode { return g.binary(one1(), g.cT("many"), "leftjoin") }
	var qs []*vnode
	// a single-row source joined 1:n, under operators that need grouped / duplicate-free input
	qs = append(qs, cProject(lj(), "x"), cSummCount(lj(), "x"), cSort(lj(), false, "x"), cSort(lj(), true, "x"),
		cProject(g.binary(one1(), g.cT("many"), "join"), "x"))
	// equalities on a 3-column prefix of a 4-column key and an in-list on the 4th
	qs = append(qs,
		cWhere(g.cT("wide"), cAnd(cCmp("is", "a", 1), cCmp("is", "b", 2), cCmp("is", "c", 3), cIn("d", 4, 5))),
		cWhere(g.cT("wide"), cAnd(cIn("a", 1, 0), cCmp("is", "b", 2), cIn("c", 3, 4), cIn("d", 6, 4, 9))))
	// set operations where the column one source lacks is restricted to ''
	for _, op := range []string{"union", "minus", "intersect"} {
		qs = append(qs, g.binary(g.cT("u1"), cWhere(g.cT("u2"), cCmp("is", "s", "")), op),
			g.binary(g.cT("u1"), cWhere(g.cT("u2"), cIn("s", "", "zz")), op))
	}
	// joins whose second source is restricted on a join column; first-source rows agree / contradict;
	// with an index on the other join column, and without (temp index)
	for _, right := range []string{"rgt", "rgn"} {
		for _, kind := range []string{"leftjoin", "join"} {
			qs = append(qs, g.binary(g.cT("lft"), cWhere(g.cT(right), cCmp("is", "c", 1)), kind))
		}
		qs = append(qs, g.binary(g.cT("lft"), cWhere(g.cT(right), cAnd(cCmp("is", "c", 1), cCmp("is", "f", 1))), "leftjoin"),
			cSummCount(g.binary(g.cT("lft"), cWhere(g.cT(right), cCmp("is", "c", 1)), "leftjoin"), "c"))
	}
	// a multi-value in-list, then project / summarize by that column (the index order does not group it)
	qs = append(qs, cProject(cWhere(g.cT("wide"), cIn("d", 4, 5)), "d"),
		cSummCount(cWhere(g.cT("wide"), cIn("d", 4, 5)), "d"),
		cProject(cWhere(g.cT("wide"), cIn("c", 3, 4)), "c", "b"),
		cSummCount(cWhere(g.cT("many"), cIn("k", 1, 2)), "x"))
	// fixed values under an extend; the table with all-empty index entries
	qs = append(qs, cExtend(cWhere(g.cT("many"), cIn("k", 1, 2)), "z", cK(1)),
		cWhere(g.cT("many"), cIn("k", 1, 2)), g.cT("tt"), g.binary(g.cT("tt"), cProject(g.cT("tt"), "u"), "join"))
	for _, q := range qs {
		if q == nil || !g.valid(q) {
			src := "<nil>"
			if q != nil {
				src = q.src()
			}
			panic("verif corpus: query rejected: " + src)
		}
	}
	return qs
}

// vcorpusRand: the corpus does not depend on VERIF_SEED
func vcorpusRand() *rand.Rand { return rand.New(rand.NewSource(20260922)) }

func vCorpusC22(tr *lib.Trace) {
	r := vcorpusRand()
	g := newVdbFixed(r, vcorpusSpecs)
	defer g.close()
	g.emitTables(tr)
	for _, q := range g.vcorpusQueries() {
		tr.Count("corpus")
		g.checkC22(tr, q, r.Uint64())
	}
}

// vCorpusC23 runs every corpus query several times: checkC23 draws the requirement, the index
// and the selections from g.r (fixed stream)
func vCorpusC23(tr *lib.Trace, fatal func(string)) {
	r := vcorpusRand()
	g := newVdbFixed(r, vcorpusSpecs)
	defer g.close()
	g.emitTables(tr)
	for _, q := range g.vcorpusQueries() {
		for i := 0; i < 12; i++ {
			tr.Count("corpus")
			if msg := lib.Catch(func() { g.checkC23(tr, q) }); msg != "" {
				if strings.Contains(msg, "verif") {
					fatal(msg)
				}
				tr.Fail("contract-panic:"+verrSig(msg), "db: "+g.describe()+" query: "+q.src()+" panic: "+vtrunc(msg, 300))
			}
		}
	}
}

// vCorpusC25: where-terms through the real Where: bound pairs with every strictness combination and
// rows exactly on both bounds (on an index column and off it), terms mixing an index column with a
// column outside the index, a term that cannot be evaluated raw in front of index terms
func vCorpusC25(tr *lib.Trace) {
	r := vcorpusRand()
	g := newVdbFixed(r, vcorpusSpecs)
	defer g.close()
	g.emitTables(tr)
	th := &Thread{}
	tbl := func(name string) *vtable { return g.cT(name).tbl }
	type wc struct {
		t    string
		e    *vexpr
		kind string
	}
	var cases []wc
	for _, lo := range []string{"gt", "ge"} {
		for _, hi := range []string{"lt", "le"} {
			k := "range-" + lo + "-" + hi
			cases = append(cases,
				wc{"many", cAnd(cCmp(lo, "k", 1), cCmp(hi, "k", 2)), k}, // index column
				wc{"many", cAnd(cCmp(lo, "m", 2), cCmp(hi, "m", 4)), k}, // key
				wc{"many", cAnd(cCmp(lo, "x", "a"), cCmp(hi, "x", "c")), k}, // no index
				wc{"wide", cAnd(cCmp("is", "a", 1), cCmp(lo, "d", 4), cCmp(hi, "d", 6)), k},
				wc{"many", cAnd(cCmp(hi, "x", "c"), cCmp(lo, "x", "a"), cCmp("is", "k", 1)), k})
		}
	}
	arith := func(col string, op string, n int) *vexpr {
		return &vexpr{op: op, kids: []*vexpr{{op: "add", kids: []*vexpr{vcolx(col), cK(0)}}, cK(n)}}
	}
	cases = append(cases,
		wc{"many", cAnd(arith("m", "is", 3), cCmp("is", "k", 1)), "nonraw"},
		wc{"many", cAnd(arith("m", "ge", 2), cIn("k", 1, 2), cCmp("is", "x", "a")), "nonraw"},
		wc{"many", cAnd(cCmp("is", "k", 1), arith("m", "is", 3)), "nonraw"},
		wc{"mix", cAnd(cCmp("is", "g", 1), cCols("lt", "h", "i")), "mixed"},
		wc{"mix", cAnd(cCmp("ge", "g", 1), cCols("le", "i", "h"), cCmp("le", "g", 2)), "mixed"},
		wc{"mix", cAnd(cCols("is", "h", "i"), cCmp("is", "g", 1)), "mixed"},
		wc{"many", cAnd(cCmp("is", "k", 1), cCols("le", "m", "k")), "mixed"},
		wc{"many", cAnd(cCmp("lt", "k", 3), cCols("gt", "m", "k"), cCmp("ge", "k", 1)), "mixed"})
	for i, c := range cases {
		t := tbl(c.t)
		tr.Count("corpus")
		g.checkWhere25(tr, th, t, c.e, []string{"corpus-" + c.kind}, []string{strconv.Itoa(i)})
	}
}
