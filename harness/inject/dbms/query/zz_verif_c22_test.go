//go:build verif

package query

// C22 — query results do not depend on optimization or strategy.
//
// TestVerifC22 part 1 (vC22Model): wide typed generator (zz_verif_qlib_test.go). For every (db, query as
// written): the db and the structured AST go to the Lean model (Q lines, Gsu.Model.Qry.evalQ),
// Go executes the query after Transform + Optimize under several strategies/directions.
// Direct oracle (F lines): every executed result must equal `Simple()` of a FRESH, untransformed
// instance of the same query (multiset of rows and set of result columns).
//
// part 2 (vC22AsWritten, 4x as many cases): the package's own generators (newFT / fuzzRandom) with the same direct
// oracle (no model replay: those queries use rules and 1000-value domains).

import (
	"fmt"
	"math/rand"
	randv2 "math/rand/v2"
	"reflect"
	"sort"
	"strings"
	"testing"

	. "github.com/apmckinlay/gsuneido/core"
	lib "github.com/apmckinlay/gsuneido/util/zzverif"
)

func vtrunc(s string, n int) string {
	if len(s) > n {
		return s[:n] + "…"
	}
	return s
}

// differs compares an executed result with the as-written one: "" | "rows" | "cols" | "error"
func vdiffers(exp, got *vresult) string {
	switch {
	case got.err != "":
		return "error"
	case strings.Join(exp.cols, ",") != strings.Join(got.cols, ","):
		return "cols"
	case strings.Join(exp.rows, ";") != strings.Join(got.rows, ";"):
		return "rows"
	}
	return ""
}

// vmismatch runs every strategy on the query text; returns the first difference
func (g *vdb) vmismatch(src string, seed uint64) (kind string, s vstrategy, plan string, exp, got *vresult) {
	exp = g.simple(src)
	if exp.err != "" {
		return "", vstrategy{}, "", exp, nil
	}
	for _, s := range vstrategies {
		res, plan := g.execute(src, s, seed)
		if res.err == "skip" {
			continue
		}
		if k := vdiffers(exp, res); k != "" {
			return k, s, plan, exp, res
		}
	}
	return "", vstrategy{}, "", exp, nil
}

// vlocalise descends to the smallest sub-query that still shows a difference
func (g *vdb) vlocalise(n *vnode, seed uint64) *vnode {
	for _, k := range n.kids {
		if kind, _, _, _, _ := g.vmismatch(k.src(), seed); kind != "" {
			return g.vlocalise(k, seed)
		}
	}
	return n
}

// vunderWhole: following single-source operators down from n, is there a whole-row summarize?
func vunderWhole(n *vnode) bool {
	for len(n.kids) == 1 {
		if n.op == "summarize" && n.whole {
			return true
		}
		n = n.kids[0]
	}
	return false
}

func vshape(n *vnode) (s string) {
	if n.op == "where" && vunderWhole(n.kids[0]) {
		// a restriction above a whole-row min/max (open known finding: Where.Transform still
		// moves conditions on non-by source columns below it) — distinct from the
		// name-collision case `where-over-summarize`, which stays a regression
		return "where-over-wholerow-summarize"
	}
	if len(n.kids) == 2 && (vhasWhole(n.kids[0]) || vhasWhole(n.kids[1])) {
		// a two-source operator that reads a whole-row summarize through Select/Lookup
		return "select-into-wholerow-summarize"
	}
	s = n.kind()
	defer func() {
		if vsubOrLtEmpty(n) {
			// `x >= "" or x < ""`: the impossible alternative makes the whole `or` a conflict
			s += "+or-lt-empty"
		}
		if vsubInEmpty(n) {
			// an in-list with '' among its values somewhere below (its index point is a prefix
			// of the other values' points: rows come twice)
			s += "+in-empty"
		}
	}()
	for i, k := range n.kids {
		if i == 0 {
			s += "-over-" + k.kind()
		} else {
			s += "+" + k.kind()
		}
	}
	return s
}

// TestVerifC22 runs both parts into one trace (one compilation of the package's tests)
func TestVerifC22(t *testing.T) {
	tr := lib.Open()
	defer tr.Close()
	r := lib.Rand()
	n := lib.N(300)
	vCorpusC22(tr)
	vC22Model(tr, r, n)
	vC22AsWritten(t, tr, r, 4*n)
}

func vC22Model(tr *lib.Trace, r *rand.Rand, n int) {
	done := 0
	for done < n {
		g := newVdb(r)
		g.emitTables(tr)
		for i := 0; i < 8 && done < n; i++ {
			q := g.build(1 + r.Intn(4))
			switch r.Intn(10) {
			case 0:
				if s := g.singletonJoin(); s != nil && g.valid(s) {
					q = s
				}
			case 2, 4:
				if s := g.fixedRightJoin(); s != nil {
					q = s
				}
			case 3:
				if s := g.inListGroup(); s != nil {
					q = s
				}
			case 1:
				// a restriction on a (deep) key/index prefix of the widest table, alone or under
				// one more operator
				t := g.tableNode()
				for _, o := range g.tables {
					if len(o.keys[0]) > len(t.tbl.keys[0]) {
						t = &vnode{op: "table", tbl: o, cols: append([]vcol{}, o.cols...)}
					}
				}
				if w := g.indexWhere(t, false); w != nil && g.valid(w) {
					q = w
					if u := g.unary(w, vunaryKinds[r.Intn(len(vunaryKinds))]); u != nil && r.Intn(2) == 0 && g.valid(u) {
						q = u
					}
				}
			}
			if r.Intn(6) == 0 {
				if s := g.unary(q, "sort"); s != nil && g.valid(s) {
					q = s
				}
			}
			done++
			g.checkC22(tr, q, r.Uint64())
		}
		g.close()
	}
}

func (g *vdb) checkC22(tr *lib.Trace, q *vnode, seed uint64) {
	src := q.src()
	tr.Count("top=" + q.op)
	tr.Count(fmt.Sprintf("operators=%d", q.size()))
	exp := g.simple(src)
	if exp.err != "" {
		tr.Count("aswritten-error=" + vtrunc(exp.err, 40))
		tr.Fail("aswritten-error:"+vshape(q), "db: "+g.describe()+" query: "+src+" Simple(): "+exp.err)
		return
	}
	tr.Count(fmt.Sprintf("rows=%s", vbucket(len(exp.rows))))
	setopOK := g.setopOracle(tr, q, seed)
	// run every strategy first: the model replay (Q line) is emitted only when the direct oracle
	// found nothing for this case — a reported failing input is not reported a second time as a
	// disagreement with the model
	type run struct {
		s    vstrategy
		res  *vresult
		plan string
	}
	var runs []run
	for _, s := range vstrategies {
		res, plan := g.execute(src, s, seed)
		if res.err == "skip" {
			tr.Count("skip=" + s.name)
			continue
		}
		tr.Count("strategy=" + s.name)
		runs = append(runs, run{s, res, plan})
	}
	for _, rn := range runs {
		kind := vdiffers(exp, rn.res)
		if kind == "" {
			continue
		}
		m := g.vlocalise(q, seed)
		kind2, s2, plan2, exp2, got2 := g.vmismatch(m.src(), seed)
		if kind2 == "" { // not reproducible on the sub-query alone: report the whole
			m, kind2, s2, plan2, exp2, got2 = q, kind, rn.s, rn.plan, exp, rn.res
		}
		gotS := ""
		if got2 != nil {
			gotS = got2.show(&g.ids)
		}
		sig := "aswritten-" + kind2 + ":" + vshape(m)
		if kind2 == "error" && got2 != nil {
			// one signature per kind of failure, whatever operator it shows under
			sig = "aswritten-error:" + verrSig(got2.err)
		}
		tr.Fail(sig,
			"db: "+g.describe()+" query: "+m.src()+" | strategy "+s2.name+" executes: "+vtrunc(plan2, 300)+
				" | as written (Simple of the untransformed query): "+vtrunc(exp2.show(&g.ids), 300)+
				" | executed: "+vtrunc(gotS, 300)+" | columns "+strings.Join(g.ids.names, ","))
		tr.Count("model-replay-skipped-after-F")
		return
	}
	if !setopOK {
		tr.Count("model-replay-skipped-after-F")
		return
	}
	if len(runs) > 0 {
		tr.Q("eval "+q.toks(&g.ids), runs[0].res.show(&g.ids))
		tr.Sample(src + "  =>  " + vtrunc(runs[0].plan, 200))
	}
}

func vinEmpty(e *vexpr) bool {
	if e.op == "in" {
		for _, v := range e.vals {
			if v == EmptyStr {
				return true
			}
		}
	}
	for _, k := range e.kids {
		if vinEmpty(k) {
			return true
		}
	}
	return false
}

// vltEmpty: a comparison that nothing satisfies: x < "" (or its negated form not (x >= ""))
func vltEmpty(e *vexpr) bool {
	isEmpty := func(k *vexpr) bool { return k.op == "const" && k.val == EmptyStr }
	switch {
	case e.op == "lt" && isEmpty(e.kids[1]), e.op == "gt" && isEmpty(e.kids[0]):
		return true
	case e.op == "not" && e.kids[0].op == "ge" && isEmpty(e.kids[0].kids[1]):
		return true
	case e.op == "not" && e.kids[0].op == "le" && isEmpty(e.kids[0].kids[0]):
		return true
	}
	return false
}

func vorLtEmpty(e *vexpr, underOr bool) bool {
	if underOr && vltEmpty(e) {
		return true
	}
	for _, k := range e.kids {
		if vorLtEmpty(k, underOr || e.op == "or") {
			return true
		}
	}
	return false
}

func vsubOrLtEmpty(n *vnode) bool {
	if n.op == "where" && vorLtEmpty(n.expr, false) {
		return true
	}
	for _, k := range n.kids {
		if vsubOrLtEmpty(k) {
			return true
		}
	}
	return false
}

func vsubInEmpty(n *vnode) bool {
	if n.op == "where" && vinEmpty(n.expr) {
		return true
	}
	for _, k := range n.kids {
		if vsubInEmpty(k) {
			return true
		}
	}
	return false
}

func vhasWhole(n *vnode) bool {
	if n.op == "summarize" && n.whole {
		return true
	}
	for _, k := range n.kids {
		if vhasWhole(k) {
			return true
		}
	}
	return false
}

func verrSig(err string) string {
	switch {
	case strings.Contains(err, "cannot do math on String literal"):
		return "math-on-string-literal"
	case strings.Contains(err, "ASSERT FAILED"):
		return "assert-failed"
	case strings.Contains(err, "Sels.Get can't find"):
		return "sels-get-missing-column"
	case strings.Contains(err, "invalid"):
		return "invalid-query"
	}
	return "panic"
}

// setopOracle: union / intersect / minus executed as a whole against the same operation done
// here on the separately executed sources (rows compared over the union of the column sets, a
// missing column reading as ""). Independent of Simple(), which shares Compatible with the
// executed operators.
func (g *vdb) setopOracle(tr *lib.Trace, n *vnode, seed uint64) (ok bool) {
	if n.op != "union" && n.op != "intersect" && n.op != "minus" {
		return true
	}
	whole, plan := g.execute(n.src(), vstrategies[0], seed)
	ra, _ := g.execute(n.kids[0].src(), vstrategies[0], seed)
	rb, _ := g.execute(n.kids[1].src(), vstrategies[0], seed)
	if whole.err != "" || ra.err != "" || rb.err != "" {
		return true
	}
	all := append([]string{}, ra.cols...)
	for _, c := range rb.cols {
		if !vhasStr(all, c) {
			all = append(all, c)
		}
	}
	sort.Slice(all, func(i, j int) bool { return g.ids.id(all[i]) < g.ids.id(all[j]) })
	pad := func(r *vresult) []string {
		out := make([]string, len(r.rows))
		for i, row := range r.rows {
			vals := strings.Split(row, ",")
			ss := make([]string, len(all))
			for j, c := range all {
				ss[j] = "s" // ""
				for k, rc := range r.cols {
					if rc == c && k < len(vals) {
						ss[j] = vals[k]
					}
				}
			}
			out[i] = strings.Join(ss, ",")
		}
		return out
	}
	pa, pb := pad(ra), pad(rb)
	inB := map[string]bool{}
	for _, r := range pb {
		inB[r] = true
	}
	inA := map[string]bool{}
	for _, r := range pa {
		inA[r] = true
	}
	var want []string
	switch n.op {
	case "union":
		want = append(want, pa...)
		for _, r := range pb {
			if !inA[r] {
				want = append(want, r)
			}
		}
	case "intersect":
		for _, r := range pa {
			if inB[r] {
				want = append(want, r)
			}
		}
	case "minus":
		for _, r := range pa {
			if !inB[r] {
				want = append(want, r)
			}
		}
	}
	// compare over the columns of the whole result
	proj := func(rows []string) []string {
		out := make([]string, len(rows))
		for i, row := range rows {
			vals := strings.Split(row, ",")
			var ss []string
			for _, c := range whole.cols {
				for j, ac := range all {
					if ac == c {
						ss = append(ss, vals[j])
					}
				}
			}
			out[i] = strings.Join(ss, ",")
		}
		sort.Strings(out)
		return out
	}
	tr.Count("setop-oracle=" + n.op)
	if got, exp := strings.Join(whole.rows, ";"), strings.Join(proj(want), ";"); got != exp {
		sig := "setop-vs-sources:" + n.op
		if vhasWhole(n) {
			sig = "aswritten-rows:select-into-wholerow-summarize"
		} else if vsubInEmpty(n) {
			sig += "+in-empty"
		}
		tr.Fail(sig, "db: "+g.describe()+" query: "+n.src()+" | executes: "+vtrunc(plan, 300)+
			" | the operation on the separately executed sources: "+vtrunc(exp, 300)+" | executed: "+vtrunc(got, 300))
		return false
	}
	return true
}

func vbucket(n int) string {
	switch {
	case n == 0:
		return "0"
	case n == 1:
		return "1"
	case n < 5:
		return "2-4"
	case n < 20:
		return "5-19"
	}
	return "20+"
}

//-------------------------------------------------------------------------------------------
// the package's own generators

func vrawCanon(hdr *Header, row Row, th *Thread, cols []string) string {
	var sb strings.Builder
	for _, c := range cols {
		if strings.HasSuffix(c, "_deps") {
			continue
		}
		fmt.Fprintf(&sb, "%s=%x ", c, row.GetRawVal(hdr, c, th, nil))
	}
	return sb.String()
}

func vtypeName(q Query) string {
	s := strings.ToLower(reflect.TypeOf(q).Elem().Name())
	return s
}

func vqshape(q Query) string {
	if w, ok := q.(*Where); ok {
		// a restriction above a whole-row min/max (through single-source operators)
		for src := w.source; src != nil; {
			if su, ok := src.(*Summarize); ok && su.wholeRow {
				return "where-over-wholerow-summarize"
			}
			q1, ok := src.(q1i)
			if !ok {
				break
			}
			src = q1.Source()
		}
	}
	s := vtypeName(q)
	switch q := q.(type) {
	case q2i:
		s += "-over-" + vtypeName(q.Source()) + "+" + vtypeName(q.Source2())
	case q1i:
		s += "-over-" + vtypeName(q.Source())
	}
	return s
}

func vC22AsWritten(t *testing.T, tr *lib.Trace, r *rand.Rand, n int) {
	defer func(jr int, rb *randv2.Rand) { joinRev, randomBest = jr, rb }(joinRev, randomBest)
	joinRev = impossible
	for i := 0; i < n; i++ {
		s1, s2 := r.Uint64(), r.Uint64()
		var before, after, shape string
		ruleCol := false
		msg := lib.Catch(func() {
			ftS := newFT(s1, s2)
			defer ftS.db.Close()
			randomBest = ftS.rnd
			qS := fuzzRandom(ftS)
			before = String(qS)
			shape = vqshape(qS)
			// the query mentions a rule column of the generator (Rule_<col> is global: it is
			// evaluated for any row, also of a source that does not have the column, and without
			// dependencies that a rewrite projected away): one signature suffix for the family
			for rule := range ftS.rules {
				col := strings.TrimPrefix(rule, "Rule_")
				for _, w := range strings.FieldsFunc(before, func(c rune) bool {
					return !(c == '_' || c >= '0' && c <= '9' || c >= 'a' && c <= 'z' || c >= 'A' && c <= 'Z')
				}) {
					if w == col {
						ruleCol = true
					}
				}
			}
			tr.Count("own-top=" + vtypeName(qS))
			th := &Thread{}
			qS.SetTran(ftS.rt)
			hdr0 := qS.Header()
			cols0 := append([]string{}, hdr0.Columns...)
			sort.Strings(cols0)
			var exp []string
			for _, row := range qS.Simple(th) {
				exp = append(exp, vrawCanon(hdr0, row, th, cols0))
			}
			sort.Strings(exp)
			ft := newFT(s1, s2)
			defer ft.db.Close()
			randomBest = ft.rnd
			q := fuzzRandom(ft)
			if String(q) != before {
				panic("verif: generator not deterministic")
			}
			q = q.Transform()
			fix, vr := Optimize(q, ReadMode, NoneReq(1))
			if fix+vr >= impossible {
				tr.Count("impossible")
				return
			}
			q = SetApproach(q, NoneReq(1), ft.rt)
			q.SetTran(ft.rt)
			after = String(q)
			hdr := q.Header()
			cols := append([]string{}, hdr.Columns...)
			sort.Strings(cols)
			q.Rewind()
			var got []string
			for row := q.Get(th, Next); row != nil; row = q.Get(th, Next) {
				got = append(got, vrawCanon(hdr, row, th, cols0))
			}
			sort.Strings(got)
			tr.Count("own-rows=" + vbucket(len(exp)))
			if strings.Join(exp, "\n") != strings.Join(got, "\n") {
				tr.Fail("aswritten-rows:"+shape+vruleSuffix(ruleCol), fmt.Sprintf("newFT(%d,%d) fuzzRandom: %s | executes: %s | as written %d rows, executed %d rows; first as-written row: %s; first executed row: %s",
					s1, s2, vtrunc(before, 300), vtrunc(after, 300), len(exp), len(got), vtrunc(vfirst(exp), 200), vtrunc(vfirst(got), 200)))
			} else if strings.Join(vnoDeps(cols0), ",") != strings.Join(vnoDeps(cols), ",") {
				tr.Fail("aswritten-cols:"+shape+vruleSuffix(ruleCol), fmt.Sprintf("newFT(%d,%d) fuzzRandom: %s | executes: %s | as-written columns %v, executed columns %v",
					s1, s2, vtrunc(before, 300), vtrunc(after, 300), cols0, cols))
			}
			if i < 2 {
				tr.Sample(vtrunc(before, 150) + "  =>  " + vtrunc(after, 150))
			}
		})
		if msg != "" {
			if strings.Contains(msg, "verif:") {
				t.Fatal(msg)
			}
			tr.Count("panic")
			tr.Fail("aswritten-panic:"+shape, fmt.Sprintf("newFT(%d,%d) fuzzRandom: %s | executes: %s | panic %s", s1, s2,
				vtrunc(before, 300), vtrunc(after, 300), vtrunc(msg, 200)))
		}
	}
}

func vruleSuffix(ruleCol bool) string {
	if ruleCol {
		return "+rulecol"
	}
	return ""
}

func vnoDeps(cols []string) []string {
	var out []string
	for _, c := range cols {
		if !strings.HasSuffix(c, "_deps") {
			out = append(out, c)
		}
	}
	return out
}

func vfirst(xs []string) string {
	if len(xs) == 0 {
		return "(none)"
	}
	return xs[0]
}
