//go:build verif

package query

// C04 suite "reopen": histories of admin requests, views, inserts/updates/deletes in many
// transactions with intermediate persists over a REAL FILE database, then
// Persist / Close / CheckDatabase / OpenDatabase (repeated), comparing everything visible
// before and after: schema texts (String2, prints FkToHere), views, per-index scans
// (record contents in index order), Nrows / Size. Model-free direct oracle (F lines only).

import (
	"encoding/binary"
	"fmt"
	"slices"
	"math/rand"
	"os"
	"path/filepath"
	"sort"
	"strings"
	"testing"
	"time"

	"github.com/apmckinlay/gsuneido/core"
	"github.com/apmckinlay/gsuneido/db19"
	"github.com/apmckinlay/gsuneido/db19/index"
	"github.com/apmckinlay/gsuneido/db19/meta"
	"github.com/apmckinlay/gsuneido/db19/stor"
	"github.com/apmckinlay/gsuneido/util/cksum"
	lib "github.com/apmckinlay/gsuneido/util/zzverif"
)

// a table was renamed to the name of a dropped table in this history (discriminates the
// signature of a checksum mismatch: RenameTable copying `created`, finding 45)
var c04renamedOverDropped bool

// c04opens counts file database opens of this process: on non-Windows Stor.Close never unmaps, so
// each Create/Open/Check leaks a 64 MB mapping and mmap fails (ENOMEM, vm.max_map_count) after
// about 60000 opens. The suite stops cleanly before that; the thorough tier is sharded.
var c04opens int

const c04openBudget = 24000

var c04tables = []string{"ta", "tb", "tc"}
var c04cols = []string{"a", "b", "c", "d"}

// c04snapshot is everything C04 says must survive a clean close
func c04snapshot(db *db19.Database) (schema, views, data, info string) {
	rt := db.NewReadTran()
	var ss, dd, ii, ff []string
	for _, ts := range rt.GetAllSchema() {
		ss = append(ss, db.Schema(ts.Table))
		for i := range ts.Indexes {
			// the links in both directions, with index positions and modes
			// (String2 prints the mode only from the referencing side)
			ix := &ts.Indexes[i]
			if ix.Fk.Table != "" {
				ff = append(ff, fmt.Sprintf("%s[%d]->%s(%s)#%d/m%d", ts.Table, i, ix.Fk.Table,
					strings.Join(ix.Fk.Columns, ","), ix.Fk.IIndex, ix.Fk.Mode))
			}
			for _, fk := range ix.FkToHere {
				ff = append(ff, fmt.Sprintf("%s[%d]<-%s(%s)#%d/m%d", ts.Table, i, fk.Table,
					strings.Join(fk.Columns, ","), fk.IIndex, fk.Mode))
			}
			it := index.NewOverIter(ts.Table, i)
			var rows []string
			for it.Next(rt); !it.Eof(); it.Next(rt) {
				_, off := it.Cur()
				rec := rt.GetRecord(off)
				rows = append(rows, fmt.Sprintf("%x", string(rec)))
			}
			dd = append(dd, fmt.Sprintf("%s[%d]:%s", ts.Table, i, strings.Join(rows, ",")))
		}
		ti := rt.GetInfo(ts.Table)
		if ti == nil {
			ii = append(ii, ts.Table+":no-info")
		} else {
			ii = append(ii, fmt.Sprintf("%s:nrows=%d,size=%d,nidx=%d", ts.Table, ti.Nrows, ti.Size, len(ti.Indexes)))
		}
	}
	for _, ti := range rt.GetAllInfo() {
		ii = append(ii, "info:"+ti.Table)
	}
	sort.Strings(ss)
	sort.Strings(dd)
	sort.Strings(ii)
	sort.Strings(ff)
	vs := rt.GetAllViews()
	var vv []string
	for i := 0; i+1 < len(vs); i += 2 {
		vv = append(vv, vs[i]+"="+vs[i+1])
	}
	sort.Strings(vv)
	return strings.Join(ss, " | "), strings.Join(vv, " | "), strings.Join(dd, " | "), strings.Join(ii, " | ") + " ## fk: " + strings.Join(ff, " | ")
}

// c04quiesce waits until the background merger has applied every pending merge, so that an
// index build never races a merge (that race is finding 15, owned by C06/C16, and would make
// this suite timing dependent)
func c04quiesce(db *db19.Database, tr *lib.Trace) {
	for i := 0; i < 5000; i++ {
		busy := false
		rt := db.NewReadTran()
		for _, ti := range rt.GetAllInfo() {
			for _, ov := range ti.Indexes {
				if ov.Nlayers() != 1 {
					busy = true
				}
			}
		}
		if !busy {
			return
		}
		time.Sleep(time.Millisecond)
	}
	tr.Count("quiesce.timeout")
}

func c04tableNames(schema string) map[string]bool {
	m := map[string]bool{}
	for _, s := range strings.Split(schema, " | ") {
		if s != "" {
			m[strings.SplitN(s, " ", 2)[0]] = true
		}
	}
	return m
}

// signature prefix and the generator styles in use (C15's `meta` suite runs the metadata-focused
// styles of the same generator: schema/info items through the real Meta operations)
var c04prefix = "c04"
var c04styles = []int{0, 1, 2, 3, 4, 5}

// TestVerifC15Meta is C15's second suite (db19/meta level through the real admin operations):
// schema and info chains with independently ticking clocks (view-only and data-only persists),
// metadata-only changes, several sessions with drops right after a reopen, renames over dropped names.
func TestVerifC15Meta(t *testing.T) {
	c04prefix = "c15meta"
	c04styles = []int{1, 2, 3, 2, 3, 0}
	TestVerifC04Reopen(t)
}


// ---- corpus: deterministic scripted histories, one per class of defect / seeded change that
// depends on a rare random history. Each script is run twice on fresh file databases: once
// straight through, once with Persist/Close/Check/Open (the reopen oracle above) after every
// command. The oracle is generic: "a clean close and reopen is transparent" — every command must
// have the same outcome (ok / error class) and the final visible state must be identical.
// Commands: plain text = admin request, "!" = action (own transaction), "persist".

var c04corpus = map[string][]string{
	"fk-modes-after-reopen": { // cascade / cascade update / block behave the same in a new session
		"create hdr (a,b) key(a)",
		"create lin1 (k,a) key(k) index(a) in hdr cascade",
		"create lin2 (k,a) key(k) index(a) in hdr cascade update",
		"create lin3 (k,a) key(k) index(a) in hdr",
		"!insert { a: 1 } into hdr", "!insert { a: 2 } into hdr", "!insert { a: 3 } into hdr", "!insert { a: 4 } into hdr",
		"!insert { k: 1, a: 1 } into lin1", "!insert { k: 2, a: 2 } into lin1",
		"!insert { k: 1, a: 2 } into lin2", "!insert { k: 2, a: 4 } into lin2",
		"!insert { k: 1, a: 3 } into lin3",
		"!delete hdr where a = 1",            // cascades into lin1
		"!delete hdr where a = 3",            // blocked by lin3
		"!update hdr where a = 4 set a = 40", // cascade update into lin2
		"!delete hdr where a = 2",            // blocked by lin2 (cascade update only)
		"!delete lin3 where k = 1",
		"!delete hdr where a = 3",
	},
	"self-and-composite-fk": {
		"create tree (id,parent,x) key(id) index(parent) in tree(id) cascade",
		"create hdr (b,a) key(b,a)",
		"create lin (k,e,c) key(k) index(e,c) in hdr(b,a) cascade",
		"!insert { id: 1 } into tree", "!insert { id: 2, parent: 1 } into tree", "!insert { id: 3, parent: 2 } into tree",
		"!insert { b: 1, a: 1 } into hdr", "!insert { b: 2 } into hdr",
		"!insert { k: 1, e: 1, c: 1 } into lin", "!insert { k: 2, e: 2 } into lin", "!insert { k: 3 } into lin",
		"!delete tree where id = 1",
		"!delete hdr where b = 2",
		"!delete hdr where b = 1",
	},
	"drop-last-table-and-view": { // finding 21
		"create t (a,b) key(a)", "persist", "drop t", "persist",
		"view v = t", "persist", "drop v", "persist",
		"create t (a,c) key(a)", "!insert { a: 1, c: 2 } into t",
	},
	"skewed-clocks-drop": { // finding 12, seeded C15-2
		"view v1 = t", "persist", "view v2 = t", "persist",
		"create t (a,b) key(a)", "!insert { a: 1 } into t", "persist",
		"create u (a,b) key(a)", "!insert { a: 1 } into u", "persist",
		"!insert { a: 2 } into u", "persist", "!insert { a: 3 } into u", "persist", "!insert { a: 4 } into u", "persist",
		"create w (a) key(a)", "persist", "drop t", "!insert { a: 5 } into u", "persist", "drop w", "persist",
	},
	"rename-over-dropped-name": { // finding 45
		"create aa (k,old) key(k)", "persist", "create cc (k) key(k)", "persist",
		"drop aa", "create bb (k,new) key(k)", "rename bb to aa", "drop aa", "persist",
		"create aa (k,z) key(k)", "rename aa to dd", "rename dd to aa", "drop aa", "persist",
	},
	"drop-in-new-session": { // seeded C15-3: runs with a reopen before every command
		"create t (a,b) key(a)", "create u (a,b) key(a)", "!insert { a: 1 } into u", "persist",
		"drop t", "persist", "drop u", "persist", "create t (a) key(a)",
	},
	"codec-shapes": { // item codec shapes: derived columns, unique index, empty key, composite best key, long names
		"create cs (a,b,c,D,E_lower!) key(a) index unique(b) index(c,a)",
		"create one (x) key()",
		"create ck2 (a,b,c) key(a,b) index(c) index unique(c,b)",
		"create a_rather_long_table_name_for_the_two_byte_length_prefix (first_column_name, second_column_name) key(first_column_name)",
		"!insert { a: 1, b: 2, c: 3 } into cs", "!insert { x: 1 } into one", "persist",
		"create lin (k,b) key(k) index(b) in cs(b) cascade", "!insert { k: 1, b: 2 } into lin", "persist",
	},
	"alter-with-data": {
		"create t (a,b,c) key(a) index(b)", "!insert { a: 1, b: 2, c: 3 } into t", "!insert { a: 2, b: 2 } into t",
		"alter t create index(c)", "alter t rename b to bx", "alter t drop index(c)", "ensure t (a,bx,c,d) key(a) index(c,d)",
		"rename t to t2", "alter t2 create (e)", "!insert { a: 3, e: 5 } into t2", "alter t2 drop (c)",
	},
}

func c04errClass(msg string) string {
	switch {
	case msg == "":
		return "ok"
	case strings.Contains(msg, "blocked by foreign key"):
		return "!fk-blocked"
	case strings.Contains(msg, "duplicate"):
		return "!dup"
	default:
		return "!err"
	}
}

// c04script runs one script; returns the outcomes, the final snapshot, and false if an F was emitted
func c04script(tr *lib.Trace, name string, script []string, path string, reopenEvery bool) ([]string, string, bool) {
	os.Remove(path)
	defer os.Remove(path)
	var db *db19.Database
	var err error
	c04opens++
	if msg := lib.Catch(func() { db, err = db19.CreateDatabase(path) }); msg != "" || err != nil {
		tr.Fail(c04prefix+"-create-fail", fmt.Sprint("CreateDatabase: ", msg, err))
		return nil, "", false
	}
	db19.StartConcur(db, time.Hour)
	defer func() { lib.Catch(func() { db.Close() }) }()
	hist := []string{"corpus " + name}
	fail := func(sig, what string) {
		tr.Fail(strings.Replace(sig, "c04-", c04prefix+"-", 1), what+"; "+strings.Join(hist, "; "))
	}
	dropped := map[string]bool{}
	var outcomes []string
	for _, cmd := range script {
		var msg string
		switch {
		case cmd == "persist":
			msg = lib.Catch(func() { c04bytes(tr, db, db.Persist()) })
		case strings.HasPrefix(cmd, "!"):
			msg = lib.Catch(func() {
				ut := db.NewUpdateTran()
				defer ut.Abort()
				DoAction(nil, ut, cmd[1:])
				if s := ut.Complete(); s != "" {
					panic(s)
				}
			})
		default:
			c04quiesce(db, tr)
			msg = lib.Catch(func() { DoAdmin(db, cmd, nil) })
			if msg == "" && strings.HasPrefix(cmd, "drop ") {
				dropped[strings.Fields(cmd)[1]] = true
			} else if msg == "" && (strings.HasPrefix(cmd, "create ") || strings.HasPrefix(cmd, "view ")) {
				delete(dropped, strings.Fields(cmd)[1])
			}
		}
		hist = append(hist, cmd+" => "+c04errClass(msg))
		outcomes = append(outcomes, cmd+" => "+c04errClass(msg))
		if reopenEvery {
			if !c04reopen(tr, &db, path, &hist, fail, dropped) {
				return outcomes, "", false
			}
		}
	}
	s1, v1, d1, i1 := c04snapshot(db)
	return outcomes, s1 + " ## " + v1 + " ## " + d1 + " ## " + i1, true
}

func c04runCorpus(tr *lib.Trace, dir string) {
	names := make([]string, 0, len(c04corpus))
	for n := range c04corpus {
		names = append(names, n)
	}
	sort.Strings(names)
	for _, name := range names {
		script := c04corpus[name]
		o1, f1, ok1 := c04script(tr, name, script, filepath.Join(dir, "c04-corpus-a.db"), false)
		o2, f2, ok2 := c04script(tr, name, script, filepath.Join(dir, "c04-corpus-b.db"), true)
		tr.Count("corpus.script")
		if !ok1 || !ok2 {
			continue
		}
		for i := range o1 {
			if o1[i] != o2[i] {
				tr.Fail(c04prefix+"-reopen-behaviour", fmt.Sprintf(
					"corpus %s: with a close/reopen before it the request behaves differently: one session: %s; reopened: %s; script: %s",
					name, o1[i], o2[i], strings.Join(o2[:i+1], "; ")))
				break
			}
		}
		if f1 != f2 {
			tr.Fail(c04prefix+"-reopen-behaviour", fmt.Sprintf(
				"corpus %s: final state differs between one session {%s} and a session per request {%s}; script: %s",
				name, f1, f2, strings.Join(o2, "; ")))
		}
	}
}

func TestVerifC04Reopen(t *testing.T) {
	tr := lib.Open()
	defer tr.Close()
	r := lib.Rand()
	n := lib.N(60)
	dir := os.Getenv("VERIF_SCRATCH")
	if dir == "" {
		dir = t.TempDir()
	}
	db19.MakeSuTran = func(ut *db19.UpdateTran) *core.SuTran { return core.NewSuTran(nil, true) }
	MakeSuTran = func(qt QueryTran) *core.SuTran { return core.NewSuTran(nil, true) }
	c04runCorpus(tr, dir)
	for h := 0; h < n; h++ {
		if c04openBudget-c04opens < 200 {
			tr.Count("stopped: mmap budget of the process reached")
			break
		}
		c04history(tr, r, h, filepath.Join(dir, fmt.Sprintf("c04-%d.db", h)))
	}
}

func c04history(tr *lib.Trace, r *rand.Rand, hno int, path string) {
	os.Remove(path)
	defer os.Remove(path)
	var db *db19.Database
	var err error
	c04opens++
	if msg := lib.Catch(func() { db, err = db19.CreateDatabase(path) }); msg != "" || err != nil {
		tr.Fail(c04prefix+"-create-fail", fmt.Sprint("CreateDatabase: ", msg, err))
		return
	}
	db19.StartConcur(db, time.Hour)
	defer func() { lib.Catch(func() { db.Close() }) }()
	var hist []string
	fail := func(sig, what string) {
		tr.Fail(strings.Replace(sig, "c04-", c04prefix+"-", 1), fmt.Sprintf("%s; history %d: %s", what, hno, strings.Join(hist, "; ")))
	}
	rcols := func(n int) string {
		p := r.Perm(len(c04cols))
		var out []string
		for _, i := range p[:n] {
			out = append(out, c04cols[i])
		}
		return strings.Join(out, ",")
	}
	// 0: few tables/views, drop-heavy; 1: schema clock ahead (views + persists);
	// 2: info clock ahead (data-only persist cycles), then metadata-only changes;
	// 3: many sessions, admin requests right after a reopen (before any data write); others: general
	style := c04styles[r.Intn(len(c04styles))]
	tr.Count(fmt.Sprintf("history.style=%d", style))
	nsteps := 25 + r.Intn(40)
	nview := 0
	dropped := map[string]bool{}
	c04renamedOverDropped = false
	var script []string // admin commands queued by a schedule
	var forced []int // op selectors queued by a schedule (e.g. drop, persist, reopen right after a reopen)
	existing := func() []string {
		var out []string
		for _, ts := range db.NewReadTran().GetAllSchema() {
			out = append(out, ts.Table)
		}
		sort.Strings(out)
		return out
	}
	allNames := []string{"ta", "tb", "tc", "tar", "tbr", "tcr"}
	if style == 2 {
		// data-only persists: only the info chain is written, its clock runs ahead of the schema chain's
		for _, cmd := range []string{"create ta (a,b,c,d) key(a) index(b)", "create tb (a,b,c,d) key(a)"} {
			lib.Catch(func() { DoAdmin(db, cmd, nil) })
			hist = append(hist, cmd)
		}
		for i := 2 + r.Intn(5); i > 0; i-- {
			act := fmt.Sprintf("insert { a: %d, b: %d, c: %d, d: %d } into ta", 100+i, r.Intn(8), r.Intn(8), r.Intn(8))
			lib.Catch(func() {
				ut := db.NewUpdateTran()
				defer ut.Abort()
				DoAction(nil, ut, act)
				ut.Complete()
			})
			db.Persist()
			hist = append(hist, act, "persist")
		}
		tr.Count("history.info-clock-ahead")
	}
	if style == 1 {
		// views + persists: the schema chain's clock runs ahead of the info chain's
		for i := 1 + r.Intn(3); i > 0; i-- {
			nview++
			cmd := fmt.Sprintf("view v%d = ta", nview)
			lib.Catch(func() { DoAdmin(db, cmd, nil) })
			db.Persist()
			hist = append(hist, cmd, "persist")
		}
		tr.Count("history.skewed-clocks")
	}
	for step := 0; step < nsteps; step++ {
		tb := c04tables[r.Intn(len(c04tables))]
		if style == 0 {
			tb = c04tables[r.Intn(2)]
		}
		t2 := c04tables[r.Intn(len(c04tables))]
		for t2 == tb {
			t2 = c04tables[r.Intn(len(c04tables))]
		}
		var cmd string
		x := r.Intn(100)
		if len(script) == 0 && r.Intn(16) == 0 {
			// life cycle of a name: a fresh table is renamed onto the name of a dropped table
			// (whose tombstone or old entry may be on disk) and is then usually dropped again
			var dn, free []string
			ex := existing()
			for _, n := range allNames {
				if dropped[n] && !slices.Contains(ex, n) {
					dn = append(dn, n)
				} else if !slices.Contains(ex, n) {
					free = append(free, n)
				}
			}
			if len(dn) > 0 && len(free) > 0 {
				d, f := dn[r.Intn(len(dn))], free[r.Intn(len(free))]
				script = []string{fmt.Sprintf("create %s (a,b,c,d) key(a) index(%s)", f, rcols(1)),
					fmt.Sprintf("rename %s to %s", f, d)}
				if r.Intn(3) != 0 {
					script = append(script, "drop "+d)
				}
				tr.Count("op.script-rename-onto-dropped")
			}
		}
		if len(script) > 0 {
			cmd, script = script[0], script[1:]
			x = 1000
		}
		if (style == 2 || style == 3) && r.Intn(2) == 0 {
			// metadata-only changes (a data write would re-stamp the info entry), persists, reopens
			x = []int{5, 5, 40, 40, 55, 55, 65, 30, 18}[r.Intn(9)]
		}
		if len(forced) > 0 {
			x, forced = forced[0], forced[1:]
		}
		if style == 1 && r.Intn(2) == 0 {
			// create / persist / drop cycles while the clocks are skewed (finding 12 needs the
			// schema item's `created` to coincide with the info clock at the drop)
			x = []int{5, 55, 55, 40, 40}[r.Intn(5)]
		}
		switch {
		case x == 1000: // scripted command
		case x < 12:
			cmd = fmt.Sprintf("create %s (a,b,c,d) key(a) index(%s)", tb, rcols(1+r.Intn(2)))
			if r.Intn(3) == 0 {
				cmd = fmt.Sprintf("create %s (a,b,c,d) key(a) index(b) in %s(a)%s", tb, t2,
					[]string{"", " cascade", " cascade update"}[r.Intn(3)])
			}
			if r.Intn(8) == 0 {
				// composite foreign key from a non-unique index (its key also carries the key fields)
				cmd = fmt.Sprintf("create %s (a,b,c,d) key(a) key(b,c) index(c,d) in %s(b,c)", tb, t2)
			}
			if style == 0 && r.Intn(2) == 0 {
				cmd = fmt.Sprintf("create %s (a,b) key(a)", tb)
			}
		case x < 17:
			cmd = fmt.Sprintf("ensure %s (a,b,c,d,e) key(a) index(%s)", tb, rcols(1))
		case x < 22:
			cmd = fmt.Sprintf("alter %s create index(%s)", tb, rcols(1+r.Intn(2)))
			if r.Intn(3) == 0 {
				cmd = fmt.Sprintf("alter %s create (e%d)", tb, r.Intn(3))
			}
		case x < 26:
			cmd = fmt.Sprintf("alter %s drop index(%s)", tb, rcols(1+r.Intn(2)))
		case x < 30:
			c1 := c04cols[1+r.Intn(3)]
			if r.Intn(2) == 0 {
				cmd = fmt.Sprintf("alter %s rename %s to %sx", tb, c1, c1)
			} else {
				cmd = fmt.Sprintf("alter %s rename %sx to %s", tb, c1, c1)
			}
		case x < 35:
			switch r.Intn(4) {
			case 0:
				cmd = fmt.Sprintf("rename %s to %sr", tb, tb)
			case 1:
				cmd = fmt.Sprintf("rename %sr to %s", tb, tb)
			default:
				// any existing table to any name, in particular to the name of a dropped table
				from := allNames[r.Intn(len(allNames))]
				if ex := existing(); len(ex) > 0 && r.Intn(4) != 0 {
					from = ex[r.Intn(len(ex))]
				}
				to := allNames[r.Intn(len(allNames))]
				var dn []string
				for _, n := range allNames {
					if dropped[n] {
						dn = append(dn, n)
					}
				}
				if len(dn) > 0 && r.Intn(2) == 0 {
					to = dn[r.Intn(len(dn))]
					tr.Count("op.rename-to-dropped-name")
				}
				cmd = fmt.Sprintf("rename %s to %s", from, to)
			}
		case x < 45 || (style == 0 && x < 55):
			cmd = "drop " + tb
			if ex := existing(); len(ex) > 0 && r.Intn(3) != 0 {
				cmd = "drop " + ex[r.Intn(len(ex))]
			} else if r.Intn(5) == 0 {
				cmd = "drop " + tb + "r"
			}
		case x < 50:
			nview++
			cmd = fmt.Sprintf("view v%d = %s", nview, tb)
			if nview > 1 && r.Intn(3) == 0 {
				cmd = fmt.Sprintf("drop v%d", 1+r.Intn(nview))
			}
		case x < 62: // persist (the clocks of schema and info tick independently)
			hist = append(hist, "persist")
			tr.Count("op.persist")
			if msg := lib.Catch(func() { c04bytes(tr, db, db.Persist()) }); msg != "" {
				fail("c04-persist-panic", msg)
				return
			}
			continue
		case x < 72: // close / reopen / compare
			if !c04reopen(tr, &db, path, &hist, fail, dropped) {
				return
			}
			if style == 3 || r.Intn(4) == 0 {
				// a new session starts with admin requests: the chain clocks are 0 again and every
				// entry read back has created == 0
				forced = [][]int{{40, 65}, {40, 55, 65}, {5, 40, 65}, {30, 40, 55, 65}, {40, 40, 65}}[r.Intn(5)]
				tr.Count("op.admin-first-after-reopen")
			}
			continue
		default: // data
			var act string
			switch r.Intn(6) {
			case 0:
				act = fmt.Sprintf("delete %s where a = %d", tb, r.Intn(8))
			case 1:
				act = fmt.Sprintf("update %s where a = %d set c = %d", tb, r.Intn(8), r.Intn(8))
			default:
				act = fmt.Sprintf("insert { a: %d, b: %d, c: %d, d: %d } into %s", r.Intn(8), r.Intn(8), r.Intn(8), r.Intn(8), tb)
				if r.Intn(3) == 0 {
					// some fields left empty (an empty foreign key references nothing)
					var fs []string
					for _, c := range c04cols {
						if r.Intn(3) != 0 {
							fs = append(fs, fmt.Sprintf("%s: %d", c, r.Intn(8)))
						}
					}
					act = fmt.Sprintf("insert { %s } into %s", strings.Join(fs, ", "), tb)
					tr.Count("op.insert-with-empty-fields")
				}
			}
			msg := lib.Catch(func() {
				ut := db.NewUpdateTran()
				defer ut.Abort()
				DoAction(nil, ut, act)
				ut.Complete()
			})
			if msg == "" {
				hist = append(hist, act)
				tr.Count("op.data-ok")
			} else {
				tr.Count("op.data-rejected")
			}
			continue
		}
		c04quiesce(db, tr)
		msg := lib.Catch(func() { DoAdmin(db, cmd, nil) })
		kind := strings.SplitN(cmd, " ", 2)[0]
		if kind == "alter" {
			kind = "alter-" + strings.Fields(cmd)[2]
		}
		if msg == "" {
			hist = append(hist, cmd)
			tr.Count("admin.ok." + kind)
			if kind == "drop" {
				dropped[strings.Fields(cmd)[1]] = true
			} else if kind == "create" {
				delete(dropped, strings.Fields(cmd)[1])
			} else if kind == "rename" {
				f := strings.Fields(cmd)
				if dropped[f[len(f)-1]] {
					c04renamedOverDropped = true
				}
				dropped[f[1]] = true // the old name is gone
				delete(dropped, f[len(f)-1])
			} else if kind == "ensure" {
				delete(dropped, strings.Fields(cmd)[1])
			}
		} else {
			tr.Count("admin.rejected." + kind)
		}
	}
	c04reopen(tr, &db, path, &hist, fail, dropped)
}

func c04cksumSig() string {
	if c04renamedOverDropped {
		return "c04-f45-rename-over-dropped-cksum"
	}
	return "c04-f12-cksum-mismatch"
}

func c04reopen(tr *lib.Trace, pdb **db19.Database, path string, hist *[]string,
	fail func(sig, what string), dropped map[string]bool) bool {
	db := *pdb
	s1, v1, d1, i1 := c04snapshot(db)
	*hist = append(*hist, "persist+close+reopen")
	tr.Count("op.reopen")
	if msg := lib.Catch(func() { c04bytes(tr, db, db.Persist()); db.Close() }); msg != "" {
		fail("c04-close-panic", msg)
		lib.Catch(func() { db.Close() })
		return false
	}
	c04opens += 2
	var err error
	if msg := lib.Catch(func() { err = db19.CheckDatabase(path, true) }); msg != "" {
		fail("c04-check-panic", "CheckDatabase after a clean close panicked: "+msg)
		return false
	}
	if err != nil {
		if strings.Contains(err.Error(), "metadata checksum mismatch") {
			fail(c04cksumSig(), "CheckDatabase after a clean close: "+err.Error())
		} else if strings.Contains(err.Error(), "foreign key not found") && strings.HasSuffix(err.Error(), `""`) {
			// full check looks up a foreign key whose trailing fields are empty (finding 46)
			fail("c04-f46-checkdb-fk-trailing-empty", "CheckDatabase after a clean close: "+err.Error())
		} else {
			fail("c04-check-fail", "CheckDatabase after a clean close: "+err.Error())
		}
		return false
	}
	var db2 *db19.Database
	if msg := lib.Catch(func() { db2, err = db19.OpenDatabase(path) }); msg != "" {
		fail("c04-reopen-panic", "OpenDatabase after a clean close panicked: "+msg)
		return false
	}
	if err != nil {
		if strings.Contains(err.Error(), "metadata checksum mismatch") {
			fail(c04cksumSig(), "OpenDatabase after a clean close: "+err.Error())
		} else {
			fail("c04-reopen-fail", "OpenDatabase after a clean close: "+err.Error())
		}
		return false
	}
	db19.StartConcur(db2, time.Hour)
	*pdb = db2
	s2, v2, d2, i2 := c04snapshot(db2)
	tr.Count("reopen.compared")
	if c04prefix == "c04" {
		tr.Q("snapshot "+fmt.Sprint(len(s1)), fmt.Sprint(len(s2))) // not replayed (C04 has no driver); counts as an evaluation
	}
	if s1 != s2 {
		before, after := c04tableNames(s1), c04tableNames(s2)
		for tb := range after {
			if !before[tb] && dropped[tb] {
				fail("c04-f21-resurrected", fmt.Sprintf("dropped table %s exists again after reopen; before {%s} after {%s}", tb, s1, s2))
				return false
			}
		}
		fail("c04-reopen-schema", fmt.Sprintf("schema before {%s} after {%s}", s1, s2))
		return false
	}
	if v1 != v2 {
		for _, x := range strings.Split(v2, " | ") {
			name := strings.SplitN(x, "=", 2)[0]
			if x != "" && !strings.Contains(" | "+v1+" | ", " | "+x+" | ") && dropped[name] {
				fail("c04-f21-resurrected", fmt.Sprintf("dropped view %s exists again after reopen; before {%s} after {%s}", name, v1, v2))
				return false
			}
		}
		fail("c04-reopen-views", fmt.Sprintf("views before {%s} after {%s}", v1, v2))
		return false
	}
	if d1 != d2 {
		fail("c04-reopen-data", fmt.Sprintf("index scans before {%s} after {%s}", d1, d2))
		return false
	}
	if i1 != i2 {
		for _, x := range strings.Split(strings.SplitN(i2, " ## fk: ", 2)[0], " | ") {
			if strings.HasPrefix(x, "info:") && !strings.Contains(" | "+strings.SplitN(i1, " ## fk: ", 2)[0]+" | ", " | "+x+" | ") && dropped[x[5:]] {
				fail("c04-f21-resurrected", fmt.Sprintf("info of dropped table %s exists again after reopen; before {%s} after {%s}", x[5:], i1, i2))
				return false
			}
		}
		if strings.SplitN(i1, " ## fk: ", 2)[0] == strings.SplitN(i2, " ## fk: ", 2)[0] {
			fail("c04-reopen-fkeys", fmt.Sprintf("foreign key links (table[index] -> target / <- source, #position, /mode) before {%s} after {%s}",
				strings.SplitN(i1, " ## fk: ", 2)[1], strings.SplitN(i2, " ## fk: ", 2)[1]))
			return false
		}
		fail("c04-reopen-info", fmt.Sprintf("info before {%s} after {%s}", i1, i2))
		return false
	}
	return true
}

// ---- byte-level tie of the metadata path to the Lean mirrors (Drive/C04.lean):
// after every persist the 36 bytes of the state record, the newest schema and info chunks (frame
// and items, read with the real ReadSchema / ReadInfo) and the live items (real Write) are
// replayed through Gsu.StateRec / Gsu.MetaItem.

var c04seen = map[string]bool{}

func c04q(tr *lib.Trace, kind, in, out string) {
	if c04seen[in] {
		tr.Count("bytes.dup." + kind)
		return
	}
	c04seen[in] = true
	tr.Count("bytes." + kind)
	tr.Q(in, out)
}

func c04strs(ss []string) string {
	var sb strings.Builder
	fmt.Fprint(&sb, len(ss))
	for _, s := range ss {
		sb.WriteString(" " + lib.X(s))
	}
	return sb.String()
}

func c04schemaText(ts *meta.Schema) string {
	var sb strings.Builder
	fmt.Fprintf(&sb, "%s %s %s %d", lib.X(ts.Table), c04strs(ts.Columns), c04strs(ts.Derived), len(ts.Indexes))
	for i := range ts.Indexes {
		ix := &ts.Indexes[i]
		best := "-"
		if ix.BestKey != nil {
			best = c04strs(ix.BestKey)
		}
		fmt.Fprintf(&sb, " %d %s %s %s %d %s", ix.Mode, c04strs(ix.Columns), best,
			lib.X(ix.Fk.Table), ix.Fk.Mode, c04strs(ix.Fk.Columns))
	}
	return sb.String()
}

// root offset and tree levels of an overlay's btree (the root has no accessor: it is taken from
// the 6 bytes the real Overlay.Write produces, the levels from BtreeLevels)
func c04ovText(ti *meta.Info) string {
	var sb strings.Builder
	for _, ov := range ti.Indexes {
		b := make([]byte, 8)
		ov.Write(stor.NewWriter(b))
		fmt.Fprintf(&sb, " %d %d", stor.NewReader(b).Get5(), ov.BtreeLevels()-1)
	}
	return sb.String()
}

func c04infoText(ti *meta.Info) string {
	return fmt.Sprintf("%s %d %d %d%s", lib.X(ti.Table), ti.Nrows, ti.Size, len(ti.Indexes), c04ovText(ti))
}

// c04chunk replays the newest chunk of a chain: frame, then the items
func c04chunk(tr *lib.Trace, db *db19.Database, off uint64, schema bool) {
	if off == 0 {
		tr.Count("bytes.chain-empty")
		return
	}
	buf := db.Store.Data(off)
	size := stor.NewReader(buf).Get3()
	chunk := string(buf[:size])
	out := "!invalid"
	var body []byte
	if size >= 14 && cksum.Check([]byte(chunk)) {
		r := stor.NewReader([]byte(chunk[3 : size-cksum.Len]))
		prev := r.Get5()
		ck := r.Get4()
		body = []byte(chunk[3+5+4 : size-cksum.Len])
		out = fmt.Sprintf("%d %d %s", prev, ck, lib.X(string(body)))
	}
	c04q(tr, "chunkr", "chunkr "+lib.X(chunk), out)
	if out == "!invalid" {
		return
	}
	var items []string
	msg := lib.Catch(func() {
		r := stor.NewReader(body)
		for r.Remaining() > 0 {
			if schema {
				items = append(items, c04schemaText(meta.ReadSchema(db.Store, r)))
			} else {
				items = append(items, c04infoText(meta.ReadInfo(db.Store, r)))
			}
		}
	})
	out = fmt.Sprintf("%d %s", len(items), strings.Join(items, " ; "))
	if msg != "" {
		out = "!short"
	}
	if schema {
		c04q(tr, "schitems", "schitems "+lib.X(string(body)), out)
	} else {
		c04q(tr, "infitems", "infitems "+lib.X(string(body)), out)
	}
}

func c04bytes(tr *lib.Trace, db *db19.Database, st *db19.DbState) {
	if c04prefix != "c04" || st == nil {
		return
	}
	off := st.Off
	if off == 0 {
		// nothing has changed since CreateDatabase: Persist returns the initial state, no record yet
		tr.Count("bytes.no-state-record-yet")
		return
	}
	offS, offI := st.Meta.Offsets()
	rec := string(db.Store.Data(off)[:36])
	// the real decoder (ReadState = readState + ReadMeta); a metadata checksum mismatch of the
	// chains (findings 12/45, reported by the reopen oracle) makes it panic: then the time is taken
	// from the bytes and the decoder is not replayed for this record
	var rs *db19.DbState
	msg := lib.Catch(func() { rs = db19.ReadState(db.Store, off) })
	t := int64(binary.BigEndian.Uint64([]byte(rec[8:])))
	if msg == "" && rs != nil {
		t = rs.Asof
		s2, i2 := rs.Meta.Offsets()
		c04q(tr, "stdec", fmt.Sprintf("stdec %d %s", off, lib.X(rec)), fmt.Sprintf("%d %d %d", s2, i2, rs.Asof))
	} else {
		tr.Count("bytes.readstate-panic")
	}
	c04q(tr, "stenc", fmt.Sprintf("stenc %d %d %d", t, offS, offI), lib.X(rec))
	// the same record (and single byte corruptions of it) placed at a small offset of a heap stor:
	// invalid because of the offset guard / checksum / magic, valid only when both chains are empty
	// (ReadState also reads the chains, which are not on the heap: the uncorrupted record is placed
	// at or below one of its chain offsets unless both are 0)
	pad := 36 + int(off%1000)
	if m := int(max(offS, offI)); m > 0 {
		pad = min(pad, m)
	}
	c04heapState(tr, rec, pad, -1)
	c04heapState(tr, rec, 36+int(off%1000), int((off+uint64(t))%36))
	c04chunk(tr, db, offS, true)
	c04chunk(tr, db, offI, false)
	// the live items through the real writers
	rt := db.NewReadTran()
	for _, ts := range rt.GetAllSchema() {
		in := "schw " + c04schemaText(ts)
		if !c04seen[in] {
			wb := make([]byte, ts.StorSize()+8)
			w := stor.NewWriter(wb)
			out := "!panic"
			if lib.Catch(func() { ts.Write(w) }) == "" {
				if w.Len() != ts.StorSize() {
					tr.Fail(c04prefix+"-storsize", "Schema.StorSize != bytes written: "+in)
				}
				out = lib.X(string(wb[:w.Len()]))
			}
			c04q(tr, "schw", in, out)
			if out != "!panic" {
				// read back with the real reader, followed by trailing bytes
				b := append(wb[:w.Len():w.Len()], 0xee, 0xff)
				r := stor.NewReader(b)
				var txt string
				if lib.Catch(func() { txt = c04schemaText(meta.ReadSchema(db.Store, r)) }) == "" {
					c04q(tr, "schr", "schr "+lib.X(string(b)), txt+" "+lib.X(string(b[len(b)-r.Remaining():])))
				}
			}
		} else {
			tr.Count("bytes.dup.schw")
		}
		if ti := rt.GetInfo(ts.Table); ti != nil {
			in := fmt.Sprintf("infw %s %d %d %d %d %d%s", lib.X(ti.Table), ti.Nrows, ti.Size,
				ti.BtreeNrows, ti.BtreeSize, len(ti.Indexes), c04ovText(ti))
			if !c04seen[in] {
				wb := make([]byte, ti.StorSize()+8)
				w := stor.NewWriter(wb)
				out := "!panic"
				if lib.Catch(func() { ti.Write(w) }) == "" {
					if w.Len() != ti.StorSize() {
						tr.Fail(c04prefix+"-storsize", "Info.StorSize != bytes written: "+in)
					}
					out = lib.X(string(wb[:w.Len()]))
				}
				c04q(tr, "infw", in, out)
				if out != "!panic" {
					b := append(wb[:w.Len():w.Len()], 0xee)
					r := stor.NewReader(b)
					var txt string
					if lib.Catch(func() { txt = c04infoText(meta.ReadInfo(db.Store, r)) }) == "" {
						c04q(tr, "infr", "infr "+lib.X(string(b)), txt+" "+lib.X(string(b[len(b)-r.Remaining():])))
					}
				}
			} else {
				tr.Count("bytes.dup.infw")
			}
		}
	}
}

// c04heapState puts rec (with byte `flip` corrupted, if >= 0) after `pad` bytes of a heap stor and
// runs the real ReadState on it
func c04heapState(tr *lib.Trace, rec string, pad int, flip int) {
	b := []byte(rec)
	if flip >= 0 {
		b[flip] ^= byte(1 + (pad+flip)%255)
	}
	hs := stor.HeapStor(8192)
	hs.Alloc(pad)
	off, buf := hs.Alloc(len(b) + 64) // readState slices [:stateLen] of the data from off
	copy(buf, b)
	out := "!invalid"
	var rs *db19.DbState
	if msg := lib.Catch(func() { rs = db19.ReadState(hs, off) }); msg == "" && rs != nil {
		s2, i2 := rs.Meta.Offsets()
		out = fmt.Sprintf("%d %d %d", s2, i2, rs.Asof)
	}
	kind := "stdec-heap"
	if flip >= 0 {
		kind = "stdec-corrupt"
	}
	c04q(tr, kind+"."+out[:1], fmt.Sprintf("stdec %d %s", off, lib.X(string(b))), out)
}
