//go:build verif

package query

// Shared by the M-QRY suites (C22, C23, C25): a typed generator of small databases and of
// queries *as written* (own AST → Suneido query text for ParseQuery and → prefix tokens for the
// Lean model Gsu.Model.Qry), execution helpers, canonical printing of results.
//
// Types are tracked per column so that generated expressions never raise type errors and never
// hit the two documented/known exceptions of ordering on stored encodings:
//   - "" against non-strings (documented exception of C25): order comparisons, min/max and sort
//     only on columns that cannot mix "" with numbers
//   - negative numbers whose digit strings are prefix related (known finding 9, owned by C13):
//     order-sensitive operations only on integer columns whose range is within [-9, +inf)

import (
	"fmt"
	"math/rand"
	randv2 "math/rand/v2"
	"sort"
	"strconv"
	"strings"

	. "github.com/apmckinlay/gsuneido/core"
	"github.com/apmckinlay/gsuneido/db19"
	"github.com/apmckinlay/gsuneido/db19/stor"
	lib "github.com/apmckinlay/gsuneido/util/zzverif"
)

const (
	vtInt  = iota // integer, never ""
	vtIntE        // integer or ""
	vtStr         // string (may be "")
	vtBool        // true/false, never ""
	vtAny         // mixed: equality only
)

const vBig = 1 << 40

type vcol struct {
	name   string
	typ    int
	lo, hi int // range of an integer column
}

func (c vcol) orderable() bool {
	return c.typ == vtStr || (c.typ == vtInt && c.lo >= -9)
}

type vtable struct {
	id      int
	name    string
	cols    []vcol
	keys    [][]string
	indexes [][]string
	rows    [][]Value
}

type vexpr struct {
	op   string // const col is ne lt le gt ge not and or if in add sub mul neg
	kids []*vexpr
	val  Value
	col  string
	vals []Value
}

type vagg struct{ col, op, on string }

type vnode struct {
	op     string // table where project remove rename extend summarize sort join leftjoin times union intersect minus
	kids   []*vnode
	cols   []vcol
	tbl    *vtable
	expr   *vexpr
	list   []string // project/remove/sort columns, rename from, summarize by
	list2  []string // rename to
	newcol string   // extend
	aggs   []vagg
	rev    bool
	whole  bool // summarize: su.wholeRow of the query as constructed
}

// column ids for the model ----------------------------------------------------

type vids struct {
	ids   map[string]int
	names []string
}

func (v *vids) id(name string) int {
	if v.ids == nil {
		v.ids = map[string]int{}
	}
	if i, ok := v.ids[name]; ok {
		return i
	}
	i := len(v.names)
	v.ids[name] = i
	v.names = append(v.names, name)
	return i
}

func (v *vids) list(names []string) string {
	if len(names) == 0 {
		return "-"
	}
	ss := make([]string, len(names))
	for i, n := range names {
		ss[i] = strconv.Itoa(v.id(n))
	}
	return strings.Join(ss, ",")
}

// values -----------------------------------------------------------------------

func vshow(v Value) string {
	if v == True {
		return "t"
	}
	if v == False {
		return "f"
	}
	if s, ok := v.(SuStr); ok {
		return "s" + lib.X(string(s))[1:]
	}
	if n, ok := v.ToInt(); ok {
		return "i" + strconv.Itoa(n)
	}
	return "?" + v.String()
}

func vlit(v Value) string {
	if s, ok := v.(SuStr); ok {
		return strconv.Quote(string(s))
	}
	return v.String()
}

func vshowVals(vs []Value) string {
	if len(vs) == 0 {
		return "-"
	}
	ss := make([]string, len(vs))
	for i, v := range vs {
		ss[i] = vshow(v)
	}
	return strings.Join(ss, ",")
}

// expressions --------------------------------------------------------------------

var vsymbol = map[string]string{"is": "is", "ne": "isnt", "lt": "<", "le": "<=", "gt": ">", "ge": ">=",
	"and": "and", "or": "or", "add": "+", "sub": "-", "mul": "*"}

// src renders the expression with as few parentheses as the grammar needs: the optimiser looks
// for plain `column op constant` conjuncts (fixed values, index ranges, in-lists) and does not see
// through parenthesised ones
func (e *vexpr) src() string { return e.render(0) }

// precedence levels: 1 ?:, 2 or, 3 and, 4 in / comparison, 5 + -, 6 *, 7 unary
func (e *vexpr) render(parent int) string {
	var s string
	var prec int
	switch e.op {
	case "const":
		if n, ok := e.val.ToInt(); ok && n < 0 {
			s, prec = strconv.Itoa(n), 7
			if parent >= 5 {
				return "(" + s + ")"
			}
			return s
		}
		return vlit(e.val)
	case "col":
		return e.col
	case "not":
		s, prec = "not "+e.kids[0].render(7), 7
	case "neg":
		s, prec = "-"+e.kids[0].render(8), 7
	case "if":
		s, prec = e.kids[0].render(2)+" ? "+e.kids[1].render(2)+" : "+e.kids[2].render(2), 1
	case "in":
		ss := make([]string, len(e.vals))
		for i, v := range e.vals {
			ss[i] = vlit(v)
		}
		s, prec = e.kids[0].render(5)+" in ("+strings.Join(ss, ", ")+")", 4
	case "or":
		s, prec = e.kids[0].render(2)+" or "+e.kids[1].render(2), 2
	case "and":
		s, prec = e.kids[0].render(3)+" and "+e.kids[1].render(3), 3
	case "add", "sub":
		// the right operand of - must not be re-associated
		s, prec = e.kids[0].render(5)+" "+vsymbol[e.op]+" "+e.kids[1].render(6), 5
	case "mul":
		s, prec = e.kids[0].render(6)+" * "+e.kids[1].render(7), 6
	default: // comparisons do not chain
		s, prec = e.kids[0].render(5)+" "+vsymbol[e.op]+" "+e.kids[1].render(5), 4
	}
	if prec < parent || (prec == parent && prec != 2 && prec != 3 && prec != 5 && prec != 6) {
		return "(" + s + ")"
	}
	return s
}

func (e *vexpr) toks(ids *vids) string {
	switch e.op {
	case "const":
		return "k" + vshow(e.val)
	case "col":
		return "c" + strconv.Itoa(ids.id(e.col))
	case "in":
		return "in " + vshowVals(e.vals) + " " + e.kids[0].toks(ids)
	}
	s := e.op
	for _, k := range e.kids {
		s += " " + k.toks(ids)
	}
	return s
}

func (e *vexpr) columns(into map[string]bool) {
	if e.op == "col" {
		into[e.col] = true
	}
	for _, k := range e.kids {
		k.columns(into)
	}
}

// queries ------------------------------------------------------------------------

func (n *vnode) sub(i int) string {
	k := n.kids[i]
	if k.op == "table" {
		return k.tbl.name
	}
	return "(" + k.src() + ")"
}

func (n *vnode) src() string {
	switch n.op {
	case "table":
		return n.tbl.name
	case "where":
		return n.sub(0) + " where " + n.expr.src()
	case "project", "remove":
		return n.sub(0) + " " + n.op + " " + strings.Join(n.list, ", ")
	case "rename":
		ss := make([]string, len(n.list))
		for i := range n.list {
			ss[i] = n.list[i] + " to " + n.list2[i]
		}
		return n.sub(0) + " rename " + strings.Join(ss, ", ")
	case "extend":
		return n.sub(0) + " extend " + n.newcol + " = " + n.expr.src()
	case "summarize":
		s := n.sub(0) + " summarize "
		for _, b := range n.list {
			s += b + ", "
		}
		for i, a := range n.aggs {
			if i > 0 {
				s += ", "
			}
			if a.col != defaultColName(a.op, a.on) {
				s += a.col + " = "
			}
			s += a.op
			if a.op != "count" {
				s += " " + a.on
			}
		}
		return s
	case "sort":
		s := n.sub(0) + " sort "
		if n.rev {
			s += "reverse "
		}
		return s + strings.Join(n.list, ", ")
	}
	return n.sub(0) + " " + n.op + " " + n.sub(1)
}

var vbinTok = map[string]string{"join": "J", "leftjoin": "L", "times": "M", "union": "U",
	"intersect": "I", "minus": "D"}

func (n *vnode) toks(ids *vids) string {
	switch n.op {
	case "table":
		return "T " + strconv.Itoa(n.tbl.id)
	case "where":
		return "W " + n.kids[0].toks(ids) + " " + n.expr.toks(ids)
	case "project":
		return "P " + ids.list(n.list) + " " + n.kids[0].toks(ids)
	case "remove":
		var keep []string
		for _, c := range n.kids[0].cols {
			if !vhasStr(n.list, c.name) {
				keep = append(keep, c.name)
			}
		}
		return "P " + ids.list(keep) + " " + n.kids[0].toks(ids)
	case "rename":
		return "N " + ids.list(n.list) + " " + ids.list(n.list2) + " " + n.kids[0].toks(ids)
	case "extend":
		return "X " + strconv.Itoa(ids.id(n.newcol)) + " " + n.kids[0].toks(ids) + " " + n.expr.toks(ids)
	case "summarize":
		s := "S " + lib.B(n.whole) + " " + ids.list(n.list) + " " + strconv.Itoa(len(n.aggs))
		for _, a := range n.aggs {
			on := 0
			if a.op != "count" {
				on = ids.id(a.on)
			}
			s += " " + strconv.Itoa(ids.id(a.col)) + " " + a.op + " " + strconv.Itoa(on)
		}
		return s + " " + n.kids[0].toks(ids)
	case "sort":
		return "O " + lib.B(n.rev) + " " + ids.list(n.list) + " " + n.kids[0].toks(ids)
	}
	return vbinTok[n.op] + " " + n.kids[0].toks(ids) + " " + n.kids[1].toks(ids)
}

func (n *vnode) colNames() []string {
	ss := make([]string, len(n.cols))
	for i, c := range n.cols {
		ss[i] = c.name
	}
	return ss
}

func (n *vnode) find(name string) (vcol, bool) {
	for _, c := range n.cols {
		if c.name == name {
			return c, true
		}
	}
	return vcol{}, false
}

func (n *vnode) size() int {
	s := 1
	for _, k := range n.kids {
		s += k.size()
	}
	return s
}

// shape is used for finding signatures: the operator and those below it (unary chain)
func (n *vnode) kind() string {
	if n.op == "remove" {
		return "project"
	}
	return n.op
}

func vhasStr(list []string, s string) bool {
	for _, x := range list {
		if x == s {
			return true
		}
	}
	return false
}

// database -----------------------------------------------------------------------

type vdb struct {
	db     *db19.Database
	rt     *db19.ReadTran
	tables []*vtable
	ids    vids
	r      *rand.Rand
	maxops int
	shapes map[string]int // generator choices, flushed into the trace histogram by close
	tr     *lib.Trace
}

func (g *vdb) note(tag string) {
	if g.shapes == nil {
		g.shapes = map[string]int{}
	}
	g.shapes[tag]++
}

var vintPool = []string{"a", "b", "c", "k"}
var vstrPool = []string{"d", "e"}
var vstrVals = []string{"", "a", "b", "ab", "b0", "A", "a\x00"}

func (g *vdb) randInt() int {
	switch g.r.Intn(8) {
	case 0:
		return []int{10, 15, 100, 105, 99}[g.r.Intn(5)]
	case 1:
		return -1 - g.r.Intn(3)
	}
	return g.r.Intn(7)
}

func (g *vdb) randStr() string {
	if g.r.Intn(4) == 0 {
		return "" // stored as the empty encoding: index entries whose fields are all empty, '' selections
	}
	return vstrVals[g.r.Intn(len(vstrVals))]
}

func vmergeTyp(a, b vcol) vcol {
	c := a
	c.lo, c.hi = min(a.lo, b.lo), max(a.hi, b.hi)
	switch {
	case a.typ == b.typ:
	case (a.typ == vtInt || a.typ == vtIntE) && (b.typ == vtInt || b.typ == vtIntE):
		c.typ = vtIntE
	default:
		c.typ = vtAny
	}
	return c
}

func vmayEmpty(c vcol) vcol {
	switch c.typ {
	case vtInt:
		c.typ = vtIntE
	case vtBool:
		c.typ = vtAny
	}
	return c
}

// newVdb creates a heap database with three small tables and returns the generator state
func newVdb(r *rand.Rand) *vdb {
	st := stor.HeapStor(64 * 1024)
	st.Alloc(1)
	db := db19.CreateDb(st)
	db.CheckerSync()
	g := &vdb{db: db, r: r, maxops: 3}
	specs := [][2][]string{
		{vintPool, {"d"}},
		{vintPool, {"e", "d"}},
		{{"p", "a"}, {"q"}},
		{{"k", "b"}, {"d", "e"}},
	}
	for ti, sp := range specs {
		t := &vtable{id: ti, name: "t" + strconv.Itoa(ti)}
		// wide: all the columns, a key/index of 4+ columns over a two-value domain (deep index
		// prefixes that match several rows); table 3 always has both string columns
		wide := ti < 2 && r.Intn(3) == 0
		// columns: a non-empty random subset of the pools
		for _, c := range sp[0] {
			if wide || (ti != 3 && r.Intn(3) != 0) || (ti == 3 && r.Intn(3) == 0) {
				t.cols = append(t.cols, vcol{name: c, typ: vtInt, lo: -3, hi: 105})
			}
		}
		for _, c := range sp[1] {
			if wide || ti == 3 || r.Intn(2) == 0 {
				t.cols = append(t.cols, vcol{name: c, typ: vtStr})
			}
		}
		if len(t.cols) == 0 {
			t.cols = append(t.cols, vcol{name: sp[0][0], typ: vtInt, lo: -3, hi: 105})
		}
		if ti == 2 {
			// keep t2 disjoint from the others more often (times needs it)
			var cs []vcol
			for _, c := range t.cols {
				if c.name != "a" || r.Intn(4) == 0 {
					cs = append(cs, c)
				}
			}
			if len(cs) > 0 {
				t.cols = cs
			}
		}
		r.Shuffle(len(t.cols), func(i, j int) { t.cols[i], t.cols[j] = t.cols[j], t.cols[i] })
		names := make([]string, len(t.cols))
		for i, c := range t.cols {
			names[i] = c.name
		}
		// a small value domain gives index prefixes that match several rows
		small := wide || r.Intn(3) == 0
		// keys
		nrows := 1 + r.Intn(6)
		if small {
			nrows = 4 + r.Intn(9)
		}
		if r.Intn(8) == 0 {
			nrows = 0
		}
		kcase := r.Intn(8)
		if wide {
			kcase = 1
		}
		switch kcase {
		case 0:
			t.keys = [][]string{{}}
			nrows = r.Intn(2)
		case 1, 2, 3:
			if len(names) >= 2 {
				// composite key of 2 to 5 columns
				p := r.Perm(len(names))
				nk := 2 + r.Intn(min(4, len(names)-1))
				if wide {
					nk = min(len(names), 4+r.Intn(2))
				}
				key := make([]string, nk)
				for i := range key {
					key[i] = names[p[i]]
				}
				t.keys = [][]string{key}
				break
			}
			fallthrough
		default:
			t.keys = [][]string{{names[r.Intn(len(names))]}}
			if len(names) >= 2 && r.Intn(4) == 0 {
				k2 := names[r.Intn(len(names))]
				if k2 != t.keys[0][0] {
					t.keys = append(t.keys, []string{k2})
				}
			}
		}
		if ti == 3 && r.Intn(2) == 0 {
			// string key, string index: index entries (index column + key) can be all empty
			t.keys = [][]string{{"d"}}
			t.indexes = [][]string{{"e"}}
			if r.Intn(2) == 0 {
				t.keys, t.indexes = [][]string{{"e"}}, [][]string{{"d"}}
			}
			if nrows == 0 {
				nrows = 3
			}
		} else if len(t.keys[0]) > 0 {
			for range r.Intn(3) {
				n := 1 + r.Intn(min(2, len(names)))
				if r.Intn(3) == 0 {
					n = 1 + r.Intn(min(5, len(names)))
				}
				p := r.Perm(len(names))
				ix := make([]string, n)
				for i := range ix {
					ix[i] = names[p[i]]
				}
				dup := false
				for _, o := range append(append([][]string{}, t.keys...), t.indexes...) {
					if strings.Join(o, ",") == strings.Join(ix, ",") {
						dup = true
					}
				}
				if !dup {
					t.indexes = append(t.indexes, ix)
				}
			}
		}
		// rows, unique on every key
		seen := make([]map[string]bool, len(t.keys))
		for i := range seen {
			seen[i] = map[string]bool{}
		}
	rows:
		for range nrows {
			row := make([]Value, len(t.cols))
			// sometimes repeat a row of an earlier table on the common columns
			// (union / intersect / minus of different tables then have rows in common)
			var share *vtable
			var shareRow []Value
			if ti > 0 && r.Intn(2) == 0 {
				if o := g.tables[r.Intn(ti)]; len(o.rows) > 0 {
					share, shareRow = o, o.rows[r.Intn(len(o.rows))]
				}
			}
			for i, c := range t.cols {
				switch {
				case c.typ == vtInt && wide:
					row[i] = IntVal(r.Intn(2))
				case c.typ == vtInt && small:
					row[i] = IntVal(r.Intn(3))
				case wide:
					row[i] = SuStr([]string{"b", "a"}[r.Intn(2)])
				case c.typ == vtInt:
					row[i] = IntVal(g.randInt())
				default:
					row[i] = SuStr(g.randStr())
				}
				if share != nil {
					for j, oc := range share.cols {
						if oc.name == c.name && oc.typ == c.typ {
							row[i] = shareRow[j]
						}
					}
				}
			}
			if ti == 3 && len(t.rows) == 0 && r.Intn(2) == 0 {
				for i, c := range t.cols {
					if c.typ == vtStr {
						row[i] = EmptyStr // index entries whose fields are all empty
					}
				}
			}
			var ks []string
			for ki, key := range t.keys {
				k := ""
				for _, kc := range key {
					for i, c := range t.cols {
						if c.name == kc {
							k += vshow(row[i]) + "|"
						}
					}
				}
				if seen[ki][k] {
					continue rows
				}
				ks = append(ks, k)
			}
			for ki, k := range ks {
				seen[ki][k] = true
			}
			t.rows = append(t.rows, row)
		}
		sb := "create " + t.name + " (" + strings.Join(names, ",") + ")"
		for _, k := range t.keys {
			sb += " key(" + strings.Join(k, ",") + ")"
		}
		for _, ix := range t.indexes {
			sb += " index(" + strings.Join(ix, ",") + ")"
		}
		DoAdmin(db, sb, nil)
		ut := db.NewUpdateTran()
		for _, row := range t.rows {
			var rb RecordBuilder
			for _, v := range row {
				rb.Add(v.(Packable))
			}
			ut.Output(nil, t.name, rb.Build())
		}
		db.CommitMerge(ut)
		g.tables = append(g.tables, t)
	}
	g.rt = db.NewReadTran()
	return g
}

func (g *vdb) close() {
	if g.tr != nil {
		for k, n := range g.shapes {
			g.tr.CountN("shape="+k, n)
		}
	}
	g.db.Close()
}

// describe prints the schema and data (for F descriptions)
func (g *vdb) describe() string {
	var sb strings.Builder
	for _, t := range g.tables {
		sb.WriteString(t.name + "(")
		for i, c := range t.cols {
			if i > 0 {
				sb.WriteString(",")
			}
			sb.WriteString(c.name)
		}
		sb.WriteString(")")
		for _, k := range t.keys {
			sb.WriteString(" key(" + strings.Join(k, ",") + ")")
		}
		for _, k := range t.indexes {
			sb.WriteString(" index(" + strings.Join(k, ",") + ")")
		}
		sb.WriteString(" rows:")
		for _, row := range t.rows {
			sb.WriteString(" [")
			for i, v := range row {
				if i > 0 {
					sb.WriteString(",")
				}
				sb.WriteString(vlit(v))
			}
			sb.WriteString("]")
		}
		sb.WriteString("; ")
	}
	return sb.String()
}

// emitTables writes the database as Q lines for the model
func (g *vdb) emitTables(tr *lib.Trace) {
	g.tr = tr
	tr.Q("reset", "ok")
	for _, t := range g.tables {
		s := "table " + strconv.Itoa(t.id) + " "
		names := make([]string, len(t.cols))
		for i, c := range t.cols {
			names[i] = c.name
		}
		s += g.ids.list(names)
		for _, row := range t.rows {
			s += " " + vshowVals(row)
		}
		tr.Q(s, "ok")
	}
}

// generator ---------------------------------------------------------------------

func (g *vdb) tableNode() *vnode {
	t := g.tables[g.r.Intn(len(g.tables))]
	return &vnode{op: "table", tbl: t, cols: append([]vcol{}, t.cols...)}
}

func (g *vdb) pick(cols []vcol, ok func(vcol) bool) (vcol, bool) {
	var cs []vcol
	for _, c := range cols {
		if ok(c) {
			cs = append(cs, c)
		}
	}
	if len(cs) == 0 {
		return vcol{}, false
	}
	return cs[g.r.Intn(len(cs))], true
}

func vconst(v Value) *vexpr  { return &vexpr{op: "const", val: v} }
func vcolx(name string) *vexpr { return &vexpr{op: "col", col: name} }

// intExpr returns an integer valued expression (never "") and its range
func (g *vdb) intExpr(cols []vcol, depth int) (*vexpr, int, int) {
	c, ok := g.pick(cols, func(c vcol) bool { return c.typ == vtInt })
	ce, cok := g.pick(cols, func(c vcol) bool { return c.typ == vtIntE })
	switch k := g.r.Intn(10); {
	case k < 3 || (!ok && !cok):
		n := g.randInt()
		return vconst(IntVal(n)), n, n
	case k < 6 && ok:
		return vcolx(c.name), c.lo, c.hi
	case depth > 0 && k < 9:
		x, xl, xh := g.intExpr(cols, depth-1)
		if cok && g.r.Intn(3) == 0 {
			// arithmetic reads "" as 0
			x, xl, xh = vcolx(ce.name), min(ce.lo, 0), max(ce.hi, 0)
		}
		y, yl, yh := g.intExpr(cols, depth-1)
		switch g.r.Intn(4) {
		case 0:
			return &vexpr{op: "add", kids: []*vexpr{x, y}}, xl + yl, xh + yh
		case 1:
			return &vexpr{op: "sub", kids: []*vexpr{x, y}}, xl - yh, xh - yl
		case 2:
			if max(-xl, xh, -yl, yh) > 1000 {
				return x, xl, xh
			}
			ps := []int{xl * yl, xl * yh, xh * yl, xh * yh}
			return &vexpr{op: "mul", kids: []*vexpr{x, y}}, min(ps[0], ps[1], ps[2], ps[3]), max(ps[0], ps[1], ps[2], ps[3])
		default:
			return &vexpr{op: "neg", kids: []*vexpr{x}}, -xh, -xl
		}
	case depth > 0:
		b := g.boolExpr(cols, depth-1)
		x, xl, xh := g.intExpr(cols, depth-1)
		y, yl, yh := g.intExpr(cols, depth-1)
		return &vexpr{op: "if", kids: []*vexpr{b, x, y}}, min(xl, yl), max(xh, yh)
	}
	if ok {
		return vcolx(c.name), c.lo, c.hi
	}
	n := g.randInt()
	return vconst(IntVal(n)), n, n
}

var vordOps = []string{"lt", "le", "gt", "ge"}
var veqOps = []string{"is", "ne"}

func (g *vdb) boolExpr(cols []vcol, depth int) *vexpr {
	k := g.r.Intn(12)
	if depth > 0 && k < 3 {
		x, y := g.boolExpr(cols, depth-1), g.boolExpr(cols, depth-1)
		switch k {
		case 0:
			return &vexpr{op: "and", kids: []*vexpr{x, y}}
		case 1:
			return &vexpr{op: "or", kids: []*vexpr{x, y}}
		default:
			return &vexpr{op: "not", kids: []*vexpr{x}}
		}
	}
	switch {
	case k < 6: // integer comparison
		x, xl, _ := g.intExpr(cols, depth)
		y, yl, _ := g.intExpr(cols, depth)
		if g.r.Intn(3) == 0 || xl < -9 || yl < -9 {
			return &vexpr{op: veqOps[g.r.Intn(2)], kids: []*vexpr{x, y}}
		}
		if x.op == "const" && y.op != "const" {
			x, y = y, x // the parser's folder puts the constant on the right anyway
			return &vexpr{op: vordOps[g.r.Intn(4)], kids: []*vexpr{x, y}}
		}
		return &vexpr{op: vordOps[g.r.Intn(4)], kids: []*vexpr{x, y}}
	case k < 8: // string comparison
		if c, ok := g.pick(cols, func(c vcol) bool { return c.typ == vtStr }); ok {
			var y *vexpr
			if c2, ok := g.pick(cols, func(c vcol) bool { return c.typ == vtStr }); ok && g.r.Intn(3) == 0 {
				y = vcolx(c2.name)
			} else {
				y = vconst(SuStr(g.randStr()))
			}
			ops := append(append([]string{}, vordOps...), veqOps...)
			return &vexpr{op: ops[g.r.Intn(6)], kids: []*vexpr{vcolx(c.name), y}}
		}
	case k < 10: // equality / in on any column, any constant type
		if c, ok := g.pick(cols, func(c vcol) bool { return true }); ok {
			val := func() Value {
				switch c.typ {
				case vtStr:
					return SuStr(g.randStr())
				case vtBool:
					return SuBool(g.r.Intn(2) == 0)
				case vtInt:
					return IntVal(g.randInt())
				}
				if g.r.Intn(3) == 0 {
					return EmptyStr
				}
				return IntVal(g.randInt())
			}
			if g.r.Intn(2) == 0 {
				vals := make([]Value, 1+g.r.Intn(3))
				for i := range vals {
					vals[i] = val()
				}
				return &vexpr{op: "in", kids: []*vexpr{vcolx(c.name)}, vals: vals}
			}
			return &vexpr{op: veqOps[g.r.Intn(2)], kids: []*vexpr{vcolx(c.name), vconst(val())}}
		}
	case k < 11: // a boolean column as the condition
		if c, ok := g.pick(cols, func(c vcol) bool { return c.typ == vtBool }); ok {
			return vcolx(c.name)
		}
	}
	x, _, _ := g.intExpr(cols, 0)
	y, _, _ := g.intExpr(cols, 0)
	return &vexpr{op: veqOps[g.r.Intn(2)], kids: []*vexpr{x, y}}
}

func (t *vtable) colIndex(name string) int {
	for i, c := range t.cols {
		if c.name == name {
			return i
		}
	}
	return -1
}

// indexWhere restricts a table on a prefix of one of its keys/indexes with values taken from
// the data: equalities on the leading columns, an in-list (or equality) on the last one;
// singleton: equalities on all columns of a key (at most one row)
func (g *vdb) indexWhere(src *vnode, singleton bool) *vnode {
	return g.indexWhereOn(src, singleton, nil, nil)
}

func (g *vdb) indexWhereOn(src *vnode, singleton bool, useKey []string, useRow []Value) *vnode {
	t := src.tbl
	if src.op != "table" || len(t.rows) == 0 {
		return nil
	}
	var cands [][]string
	for _, k := range t.keys {
		if len(k) > 0 {
			cands = append(cands, k)
		}
	}
	if !singleton {
		cands = append(cands, t.indexes...)
	}
	if len(cands) == 0 {
		return nil
	}
	ix := cands[g.r.Intn(len(cands))]
	if useKey != nil {
		ix = useKey
	}
	n := len(ix)
	if !singleton {
		n = 1 + g.r.Intn(len(ix))
		if len(ix) >= 4 && g.r.Intn(2) == 0 {
			n = len(ix) - g.r.Intn(2) // the deep columns of a wide index
		}
	}
	row := t.rows[g.r.Intn(len(t.rows))]
	if useRow != nil {
		row = useRow
	}
	var e *vexpr
	for i := n - 1; i >= 0; i-- {
		ci := t.colIndex(ix[i])
		var c *vexpr
		if !singleton && (i == n-1 || g.r.Intn(4) == 0) && g.r.Intn(4) != 0 {
			// in-list: the row's value, other values of the column, sometimes an absent one
			vals := []Value{row[ci]}
			for range 1 + g.r.Intn(3) {
				v := t.rows[g.r.Intn(len(t.rows))][ci]
				if g.r.Intn(5) == 0 {
					if t.cols[ci].typ == vtInt {
						v = IntVal(g.randInt())
					} else {
						v = SuStr(g.randStr())
					}
				}
				dup := false
				for _, o := range vals {
					if o.Equal(v) {
						dup = true
					}
				}
				if !dup {
					vals = append(vals, v)
				}
			}
			g.r.Shuffle(len(vals), func(i, j int) { vals[i], vals[j] = vals[j], vals[i] })
			c = &vexpr{op: "in", kids: []*vexpr{vcolx(ix[i])}, vals: vals}
		} else {
			c = &vexpr{op: "is", kids: []*vexpr{vcolx(ix[i]), vconst(row[ci])}}
		}
		if e == nil {
			e = c
		} else {
			e = &vexpr{op: "and", kids: []*vexpr{c, e}}
		}
	}
	g.note(fmt.Sprintf("index-where-cols=%d", n))
	return &vnode{op: "where", kids: []*vnode{src}, cols: src.cols, expr: e}
}

// emptyWhere restricts src to the rows where a string column that `other` does not have is ''
// (or in a list with ''): the fixed value '' is what a missing column reads as
func (g *vdb) emptyWhere(src, other *vnode) *vnode {
	c, ok := g.pick(src.cols, func(c vcol) bool {
		_, in := other.find(c.name)
		return !in && c.typ == vtStr
	})
	if !ok {
		return nil
	}
	var e *vexpr
	if g.r.Intn(2) == 0 {
		e = &vexpr{op: "is", kids: []*vexpr{vcolx(c.name), vconst(EmptyStr)}}
	} else {
		e = &vexpr{op: "in", kids: []*vexpr{vcolx(c.name)}, vals: []Value{EmptyStr, SuStr(vstrVals[1+g.r.Intn(len(vstrVals)-1)])}}
	}
	return &vnode{op: "where", kids: []*vnode{src}, cols: src.cols, expr: e}
}

// simpleCmp is a comparison of one column with a constant of its type
func (g *vdb) simpleCmp(c vcol) *vexpr {
	var k Value
	switch c.typ {
	case vtStr:
		k = SuStr(g.randStr())
	case vtBool:
		return &vexpr{op: veqOps[g.r.Intn(2)], kids: []*vexpr{vcolx(c.name), vconst(SuBool(g.r.Intn(2) == 0))}}
	default:
		k = IntVal(g.randInt())
	}
	op := veqOps[g.r.Intn(2)]
	if c.orderable() && g.r.Intn(4) != 0 {
		op = vordOps[g.r.Intn(4)]
	}
	return &vexpr{op: op, kids: []*vexpr{vcolx(c.name), vconst(k)}}
}

var vnewNames = []string{"x", "y", "z", "a", "b", "c", "d", "k", "p"}

func (g *vdb) newName(cols []vcol) (string, bool) {
	for range 8 {
		n := vnewNames[g.r.Intn(len(vnewNames))]
		used := false
		for _, c := range cols {
			if c.name == n {
				used = true
			}
		}
		if !used {
			return n, true
		}
	}
	return "", false
}

func (g *vdb) subset(cols []vcol, minN int) []string {
	p := g.r.Perm(len(cols))
	n := minN
	if len(cols) > minN {
		n += g.r.Intn(len(cols) - minN + 1)
	}
	ss := make([]string, 0, n)
	for _, i := range p[:min(n, len(cols))] {
		ss = append(ss, cols[i].name)
	}
	return ss
}

// unary wraps src in one random unary operator (nil if it could not)
func (g *vdb) unary(src *vnode, kind string) *vnode {
	cols := src.cols
	switch kind {
	case "where":
		return &vnode{op: "where", kids: []*vnode{src}, cols: cols, expr: g.boolExpr(cols, 2)}
	case "project":
		if len(cols) == 0 {
			return nil
		}
		list := g.subset(cols, 1)
		n := &vnode{op: "project", kids: []*vnode{src}, list: list}
		for _, name := range list {
			c, _ := src.find(name)
			n.cols = append(n.cols, c)
		}
		return n
	case "remove":
		if len(cols) < 2 {
			return nil
		}
		list := g.subset(cols, 1)
		if len(list) == len(cols) {
			list = list[1:]
		}
		n := &vnode{op: "remove", kids: []*vnode{src}, list: list}
		for _, c := range cols {
			if !vhasStr(list, c.name) {
				n.cols = append(n.cols, c)
			}
		}
		return n
	case "rename":
		if len(cols) == 0 {
			return nil
		}
		n := &vnode{op: "rename", kids: []*vnode{src}, cols: append([]vcol{}, cols...)}
		for range 1 + g.r.Intn(2) {
			to, ok := g.newName(n.cols)
			if !ok {
				break
			}
			i := g.r.Intn(len(n.cols))
			n.list = append(n.list, n.cols[i].name)
			n.list2 = append(n.list2, to)
			n.cols[i].name = to
		}
		if len(n.list) == 0 {
			return nil
		}
		return n
	case "extend":
		name, ok := g.newName(cols)
		if !ok {
			return nil
		}
		n := &vnode{op: "extend", kids: []*vnode{src}, newcol: name}
		var c vcol
		switch g.r.Intn(5) {
		case 0:
			if sc, ok := g.pick(cols, func(c vcol) bool { return c.typ == vtStr }); ok && g.r.Intn(2) == 0 {
				n.expr, c = vcolx(sc.name), vcol{typ: vtStr}
			} else {
				n.expr, c = vconst(SuStr(g.randStr())), vcol{typ: vtStr}
			}
		case 1:
			n.expr, c = g.boolExpr(cols, 1), vcol{typ: vtBool}
		default:
			e, lo, hi := g.intExpr(cols, 2)
			n.expr, c = e, vcol{typ: vtInt, lo: lo, hi: hi}
		}
		c.name = name
		n.cols = append(append([]vcol{}, cols...), c)
		return n
	case "summarize":
		n := &vnode{op: "summarize", kids: []*vnode{src}}
		if len(cols) > 0 && g.r.Intn(4) != 0 {
			n.list = g.subset(cols, 0)
			if len(n.list) > 2 {
				n.list = n.list[:2]
			}
		}
		for _, b := range n.list {
			c, _ := src.find(b)
			n.cols = append(n.cols, c)
		}
		used := map[string]bool{}
		for _, b := range n.list {
			used[b] = true
		}
		nops := 1 + g.r.Intn(2)
		if len(n.list) == 0 && g.r.Intn(2) == 0 {
			nops = 1 // whole-row candidates
		}
		var ons []string
		for range nops {
			var a vagg
			var oc vcol
			switch g.r.Intn(5) {
			case 0:
				a = vagg{op: "count"}
				oc = vcol{typ: vtInt, lo: 0, hi: vBig}
			case 1:
				c, ok := g.pick(cols, func(c vcol) bool {
					return !vhasStr(n.list, c.name) && (c.typ == vtInt || c.typ == vtIntE)
				})
				if !ok {
					continue
				}
				a = vagg{op: "total", on: c.name}
				oc = vcol{typ: vtInt, lo: min(0, c.lo) * 1000, hi: max(0, c.hi) * 1000}
			default:
				c, ok := g.pick(cols, func(c vcol) bool { return !vhasStr(n.list, c.name) && c.orderable() })
				if !ok {
					continue
				}
				a = vagg{op: []string{"min", "max"}[g.r.Intn(2)], on: c.name}
				oc = c
			}
			a.col = defaultColName(a.op, a.on)
			if g.r.Intn(3) == 0 {
				// explicit output name: may collide with a source column that is neither by nor on
				a.col = vnewNames[g.r.Intn(len(vnewNames))]
			}
			if used[a.col] {
				continue
			}
			used[a.col] = true
			oc.name = a.col
			n.aggs = append(n.aggs, a)
			n.cols = append(n.cols, oc)
			ons = append(ons, a.on)
		}
		if len(n.aggs) == 0 {
			return nil
		}
		for _, a := range n.aggs {
			if vhasStr(ons, a.col) {
				return nil
			}
		}
		return n
	case "sort":
		var list []string
		for _, name := range g.subset(cols, 1) {
			if c, _ := src.find(name); c.orderable() {
				list = append(list, name)
			}
		}
		if len(list) == 0 {
			return nil
		}
		return &vnode{op: "sort", kids: []*vnode{src}, cols: cols, list: list, rev: g.r.Intn(2) == 0}
	}
	return nil
}

func (g *vdb) binary(a, b *vnode, kind string) *vnode {
	n := &vnode{op: kind, kids: []*vnode{a, b}}
	switch kind {
	case "join", "leftjoin", "union":
		common := 0
		n.cols = append([]vcol{}, a.cols...)
		for i, c := range n.cols {
			if c2, ok := b.find(c.name); ok {
				common++
				n.cols[i] = vmergeTyp(c, c2)
				if kind == "leftjoin" {
					n.cols[i] = c
				}
			} else if kind == "union" {
				n.cols[i] = vmayEmptyStrict(c)
			}
		}
		for _, c := range b.cols {
			if _, ok := a.find(c.name); !ok {
				if kind != "join" {
					c = vmayEmptyStrict(c)
				}
				n.cols = append(n.cols, c)
			}
		}
		if kind != "union" && common == 0 {
			return nil
		}
	case "times":
		for _, c := range b.cols {
			if _, ok := a.find(c.name); ok {
				return nil
			}
		}
		n.cols = append(append([]vcol{}, a.cols...), b.cols...)
	case "intersect":
		for _, c := range a.cols {
			if c2, ok := b.find(c.name); ok {
				n.cols = append(n.cols, vmergeTyp(c, c2))
			}
		}
		if len(n.cols) == 0 {
			// an intersect of sources without a common column has no columns at all; not generated
			// (a Lookup into it panics with "Sels.Get can't find …", see findings/C22.md)
			return nil
		}
	case "minus":
		n.cols = append([]vcol{}, a.cols...)
	}
	return n
}

// a column filled with "" for some rows: integer columns become int-or-empty, booleans mixed;
// a string column stays a string column
func vmayEmptyStrict(c vcol) vcol { return vmayEmpty(c) }

var vunaryKinds = []string{"where", "where", "project", "project", "remove", "rename", "extend", "extend",
	"summarize", "summarize", "summarize"}
var vbinaryKinds = []string{"join", "join", "leftjoin", "times", "union", "union", "intersect", "minus"}

// singletonJoin: a single-row source (key = constants) joined on its key with a source that has
// several partners (1:n), under an operator that needs its input grouped / without duplicates
func (g *vdb) singletonJoin() *vnode {
	type cand struct {
		x, y *vtable
		key  []string
		row  []Value
		n    int
	}
	var best *cand
	for _, xi := range g.r.Perm(len(g.tables)) {
		for _, yi := range g.r.Perm(len(g.tables)) {
			x, y := g.tables[xi], g.tables[yi]
			if x == y {
				continue
			}
			for _, key := range x.keys {
				ok := len(key) > 0
				for _, kc := range key {
					if y.colIndex(kc) < 0 {
						ok = false
					}
				}
				if !ok {
					continue
				}
				for _, row := range x.rows {
					n := 0
					for _, yrow := range y.rows {
						m := true
						for _, kc := range key {
							if !row[x.colIndex(kc)].Equal(yrow[y.colIndex(kc)]) {
								m = false
							}
						}
						if m {
							n++
						}
					}
					if best == nil || n > best.n {
						best = &cand{x, y, key, row, n}
					}
				}
			}
		}
	}
	if best == nil {
		return nil
	}
	g.note(fmt.Sprintf("singleton-partners=%d", min(best.n, 3)))
	xn := &vnode{op: "table", tbl: best.x, cols: append([]vcol{}, best.x.cols...)}
	b := &vnode{op: "table", tbl: best.y, cols: append([]vcol{}, best.y.cols...)}
	a := g.indexWhereOn(xn, true, best.key, best.row)
	if a == nil || !g.valid(a) {
		return nil
	}
	// the other source keeps, of the common columns, only the key columns
	var drop []string
	for _, c := range b.cols {
		if _, in := a.find(c.name); in && !vhasStr(best.key, c.name) {
			drop = append(drop, c.name)
		}
	}
	if len(drop) > 0 && len(drop) < len(b.cols) && g.r.Intn(4) != 0 {
		p := &vnode{op: "remove", kids: []*vnode{b}, list: drop}
		for _, c := range b.cols {
			if !vhasStr(drop, c.name) {
				p.cols = append(p.cols, c)
			}
		}
		if g.valid(p) {
			b = p
		}
	}
	kind := []string{"leftjoin", "leftjoin", "join"}[g.r.Intn(3)]
	j := g.binary(a, b, kind)
	if j == nil || !g.valid(j) {
		return nil
	}
	g.note("singleton-" + kind)
	// project / remove on the other source's columns (duplicates), summarize by them, or as is
	var right []vcol
	for _, c := range j.cols {
		if _, in := a.find(c.name); !in {
			right = append(right, c)
		}
	}
	switch k := g.r.Intn(5); {
	case k < 2 && len(right) > 0:
		list := g.subset(right, 1)
		n := &vnode{op: "project", kids: []*vnode{j}, list: list}
		for _, name := range list {
			c, _ := j.find(name)
			n.cols = append(n.cols, c)
		}
		return n
	case k < 4:
		if n := g.unary(j, []string{"summarize", "project", "remove"}[g.r.Intn(3)]); n != nil {
			return n
		}
	}
	return j
}

// fixedRightJoin: a join / leftjoin whose second source is restricted to a fixed value of a join
// column, the value taken from the first source's data, so that some rows of the first source
// agree with it and others contradict it (selections against fixed values, with or without an
// index on the join columns: temp index)
// fixedRightPlan searches the data for (x, y, c, d, v): y restricted to c = v, joined with x on
// (c, d), such that some row of x contradicts c = v and another agrees and has a partner in y
func (g *vdb) fixedRightPlan() (x, y *vtable, c, d string, v Value, ok bool) {
	for _, xi := range g.r.Perm(len(g.tables)) {
		for _, yi := range g.r.Perm(len(g.tables)) {
			x, y := g.tables[xi], g.tables[yi]
			if x == y || len(x.rows) < 2 || len(y.rows) == 0 {
				continue
			}
			var common []string
			for _, col := range x.cols {
				if y.colIndex(col.name) >= 0 {
					common = append(common, col.name)
				}
			}
			// d: preferably a column that leads a key/index of y (the join then reads y through it)
			var dlist []string
			for pass := 0; pass < 2; pass++ {
				for _, di := range g.r.Perm(len(common)) {
					leads := false
					for _, ix := range append(append([][]string{}, y.keys...), y.indexes...) {
						if len(ix) > 0 && ix[0] == common[di] {
							leads = true
						}
					}
					if leads == (pass == 0) {
						dlist = append(dlist, common[di])
					}
				}
			}
			// c: preferably not in the index that d leads (the restriction on c is then a plain
			// filter, the selections of the join go to the source's index)
			type cd struct{ c, d string }
			var first, rest []cd
			for _, ci := range g.r.Perm(len(common)) {
				for _, d := range dlist {
					c := common[ci]
					if c == d {
						continue
					}
					pref := false
					for _, ix := range append(append([][]string{}, y.keys...), y.indexes...) {
						if len(ix) > 0 && ix[0] == d && !vhasStr(ix, c) {
							pref = true
						}
					}
					if pref {
						first = append(first, cd{c, d})
					} else {
						rest = append(rest, cd{c, d})
					}
				}
			}
			for _, p := range append(first, rest...) {
				{
					c, d := p.c, p.d
					for _, yr := range y.rows {
						v := yr[y.colIndex(c)]
						agree, contra := false, false
						for _, xr := range x.rows {
							if !xr[x.colIndex(c)].Equal(v) {
								contra = true
							} else if xr[x.colIndex(d)].Equal(yr[y.colIndex(d)]) {
								agree = true
							}
						}
						if agree && contra {
							return x, y, c, d, v, true
						}
					}
				}
			}
		}
	}
	return nil, nil, "", "", nil, false
}

func (g *vdb) fixedRightJoin() *vnode {
	if px, py, pc, pd, pv, ok := g.fixedRightPlan(); ok && g.r.Intn(3) != 0 {
		a := &vnode{op: "table", tbl: px, cols: append([]vcol{}, px.cols...)}
		yb := &vnode{op: "table", tbl: py, cols: append([]vcol{}, py.cols...)}
		var b *vnode = &vnode{op: "where", kids: []*vnode{yb}, cols: yb.cols,
			expr: &vexpr{op: "is", kids: []*vexpr{vcolx(pc), vconst(pv)}}}
		// the other common columns are removed from one side: mostly from the first source, so
		// that the restricted source is read directly by the join (Select / Lookup on the Where)
		var drop []string
		for _, cc := range py.cols {
			if _, in := a.find(cc.name); in && cc.name != pc && cc.name != pd {
				drop = append(drop, cc.name)
			}
		}
		if len(drop) > 0 {
			side := b
			if g.r.Intn(4) != 0 && len(drop) < len(a.cols) {
				side = a
			}
			p := &vnode{op: "remove", kids: []*vnode{side}, list: drop}
			for _, cc := range side.cols {
				if !vhasStr(drop, cc.name) {
					p.cols = append(p.cols, cc)
				}
			}
			if side == a {
				a = p
			} else {
				b = p
			}
		}
		kind := []string{"leftjoin", "leftjoin", "leftjoin", "leftjoin", "leftjoin", "join"}[g.r.Intn(6)]
		if g.valid(b) && g.valid(a) {
			if j := g.binary(a, b, kind); j != nil && g.valid(j) {
				g.note("fixed-right-planned-" + kind)
				return j
			}
		}
	}
	for range 6 {
		x, y := g.tables[g.r.Intn(len(g.tables))], g.tables[g.r.Intn(len(g.tables))]
		if x == y || len(x.rows) < 2 || len(y.rows) == 0 {
			continue
		}
		var common []string
		for _, c := range x.cols {
			if y.colIndex(c.name) >= 0 {
				common = append(common, c.name)
			}
		}
		if len(common) == 0 {
			continue
		}
		c := common[g.r.Intn(len(common))]
		v := x.rows[g.r.Intn(len(x.rows))][x.colIndex(c)]
		if g.r.Intn(3) == 0 {
			v = y.rows[g.r.Intn(len(y.rows))][y.colIndex(c)]
		}
		a := &vnode{op: "table", tbl: x, cols: append([]vcol{}, x.cols...)}
		yb := &vnode{op: "table", tbl: y, cols: append([]vcol{}, y.cols...)}
		e := &vexpr{op: "is", kids: []*vexpr{vcolx(c), vconst(v)}}
		if g.r.Intn(4) == 0 && v != EmptyStr {
			e = &vexpr{op: "in", kids: []*vexpr{vcolx(c)}, vals: []Value{v}}
		}
		var b *vnode = &vnode{op: "where", kids: []*vnode{yb}, cols: yb.cols, expr: e}
		if !g.valid(b) {
			continue
		}
		// often join on few columns: drop the other common columns from the second source
		if g.r.Intn(4) != 0 {
			var drop []string
			// join on the restricted column alone, on it and one more column (preferably one the
			// second source has an index on), or on a random subset
			mode := g.r.Intn(3)
			keep := ""
			if mode == 1 {
				for _, ix := range y.indexes {
					if ix[0] != c && vhasStr(common, ix[0]) {
						keep = ix[0]
					}
				}
				if keep == "" || g.r.Intn(3) == 0 {
					keep = common[g.r.Intn(len(common))]
				}
			}
			for _, cc := range common {
				if cc != c && cc != keep && (mode < 2 || g.r.Intn(2) == 0) {
					drop = append(drop, cc)
				}
			}
			if len(drop) > 0 && len(drop) < len(b.cols) {
				p := &vnode{op: "remove", kids: []*vnode{b}, list: drop}
				for _, cc := range b.cols {
					if !vhasStr(drop, cc.name) {
						p.cols = append(p.cols, cc)
					}
				}
				if g.valid(p) {
					b = p
				}
			}
		}
		kind := []string{"leftjoin", "leftjoin", "join"}[g.r.Intn(3)]
		if g.r.Intn(5) == 0 {
			a, b = b, a
		}
		j := g.binary(a, b, kind)
		if j == nil || !g.valid(j) {
			continue
		}
		g.note("fixed-right-" + kind)
		if u := g.unary(j, vunaryKinds[g.r.Intn(len(vunaryKinds))]); u != nil && g.r.Intn(3) == 0 && g.valid(u) {
			return u
		}
		return j
	}
	return nil
}

// inListGroup: a table restricted by a multi-value in-list on one column, then projected on /
// summarized by that column (alone or with others): the column has several values, the operator
// above must still see each group once
func (g *vdb) inListGroup() *vnode {
	for range 6 {
		t := g.tables[g.r.Intn(len(g.tables))]
		if len(t.rows) < 2 {
			continue
		}
		ci := g.r.Intn(len(t.cols))
		var vals []Value
		for range 2 + g.r.Intn(2) {
			v := t.rows[g.r.Intn(len(t.rows))][ci]
			dup := v == EmptyStr // no '' in lists (KF-C22-3)
			for _, o := range vals {
				if o.Equal(v) {
					dup = true
				}
			}
			if !dup {
				vals = append(vals, v)
			}
		}
		if len(vals) < 2 {
			continue
		}
		tn := &vnode{op: "table", tbl: t, cols: append([]vcol{}, t.cols...)}
		w := &vnode{op: "where", kids: []*vnode{tn}, cols: tn.cols,
			expr: &vexpr{op: "in", kids: []*vexpr{vcolx(t.cols[ci].name)}, vals: vals}}
		if !g.valid(w) {
			continue
		}
		cols := []string{t.cols[ci].name}
		if g.r.Intn(2) == 0 && len(t.cols) > 1 {
			if o := t.cols[g.r.Intn(len(t.cols))].name; o != cols[0] {
				cols = append(cols, o)
				if g.r.Intn(2) == 0 {
					cols[0], cols[1] = cols[1], cols[0]
				}
			}
		}
		var n *vnode
		if g.r.Intn(2) == 0 {
			n = &vnode{op: "project", kids: []*vnode{w}, list: cols}
			for _, name := range cols {
				c, _ := w.find(name)
				n.cols = append(n.cols, c)
			}
		} else {
			n = &vnode{op: "summarize", kids: []*vnode{w}, list: cols, aggs: []vagg{{col: "count", op: "count"}}}
			for _, name := range cols {
				c, _ := w.find(name)
				n.cols = append(n.cols, c)
			}
			n.cols = append(n.cols, vcol{name: "count", typ: vtInt, lo: 0, hi: vBig})
			if _, clash := w.find("count"); clash {
				continue
			}
		}
		if g.valid(n) {
			g.note("inlist-group-" + n.op)
			return n
		}
	}
	return nil
}

// build generates a query with at most budget operators; every node is checked by parsing it
func (g *vdb) build(budget int) *vnode {
	if budget <= 0 || g.r.Intn(6) == 0 {
		t := g.tableNode()
		if g.r.Intn(3) == 0 {
			// a restriction on a key/index prefix (index range selection, in-lists, points)
			if w := g.indexWhere(t, g.r.Intn(4) == 0); w != nil && g.valid(w) {
				g.note("index-where")
				return w
			}
		}
		return t
	}
	for range 6 {
		var n *vnode
		if k := g.r.Intn(16); k == 0 && budget >= 2 {
			n = g.singletonJoin()
		} else if k == 2 && budget >= 2 {
			n = g.fixedRightJoin()
		} else if k == 3 && budget >= 2 {
			n = g.inListGroup()
		} else if k == 1 && budget >= 2 {
			// union/intersect/minus of sources with different columns where the column the other
			// side lacks is restricted to '' (what the missing column reads as)
			a, b0 := g.tableNode(), g.tableNode()
			if g.r.Intn(2) == 0 {
				// the same table without one of its string columns: every row has a counterpart
				if c, ok := g.pick(b0.cols, func(c vcol) bool { return c.typ == vtStr }); ok && len(b0.cols) > 1 {
					a = &vnode{op: "remove", kids: []*vnode{b0}, list: []string{c.name}}
					for _, x := range b0.cols {
						if x.name != c.name {
							a.cols = append(a.cols, x)
						}
					}
					if !g.valid(a) {
						a = g.tableNode()
					}
				}
			}
			if b := g.emptyWhere(b0, a); b != nil && g.valid(b) {
				if g.r.Intn(2) == 0 {
					a, b = b, a
				}
				n = g.binary(a, b, []string{"union", "union", "intersect", "minus"}[g.r.Intn(4)])
				if n != nil {
					g.note("empty-fixed-" + n.op)
				}
			}
		} else if budget >= 2 && g.r.Intn(6) == 0 {
			// an operator directly above a summarize (the rewrites past a summarize)
			if s := g.unary(g.build(budget-2), "summarize"); s != nil && g.valid(s) {
				n = g.unary(s, []string{"where", "where", "project", "remove", "rename"}[g.r.Intn(5)])
				if n != nil && n.op == "where" && g.r.Intn(3) != 0 {
					// a restriction on a result column that is also a source column but not a by column
					// (whole-row min/max, or a summary named like a source column)
					c, ok := g.pick(s.cols, func(c vcol) bool {
						_, insrc := s.kids[0].find(c.name)
						return insrc && !vhasStr(s.list, c.name)
					})
					if ok {
						n.expr = g.simpleCmp(c)
					}
				}
			}
		} else if g.r.Intn(3) == 0 && budget >= 1 {
			lb := g.r.Intn(budget)
			a := g.build(lb)
			b := g.build(budget - 1 - lb)
			kind := vbinaryKinds[g.r.Intn(len(vbinaryKinds))]
			if (kind == "intersect" || kind == "minus" || kind == "union") && g.r.Intn(2) == 0 {
				// compatible operands: two restrictions of the same source
				b = g.unary(a, "where")
				if g.r.Intn(2) == 0 {
					a, b = b, a
				}
			}
			n = g.binary(a, b, kind)
		} else {
			src := g.build(budget - 1)
			n = g.unary(src, vunaryKinds[g.r.Intn(len(vunaryKinds))])
		}
		if n != nil && g.valid(n) {
			return n
		}
	}
	return g.tableNode()
}

// valid parses the node (the constructors reject what the language rejects), records
// su.wholeRow and cross-checks the generator's column bookkeeping with Columns()
func (g *vdb) valid(n *vnode) bool {
	var q Query
	if msg := lib.Catch(func() { q = ParseQuery(n.src(), g.rt, nil) }); msg != "" {
		return false
	}
	if su, ok := q.(*Summarize); ok && n.op == "summarize" {
		// the text must parse to the summarize that was meant (a by column called "count"
		// reads as the count operation)
		if strings.Join(su.by, ",") != strings.Join(n.list, ",") || len(su.cols) != len(n.aggs) {
			return false
		}
		n.whole = su.wholeRow
		if n.whole {
			src := n.kids[0]
			cols := append([]vcol{}, src.cols...)
			for _, a := range n.aggs {
				if _, ok := src.find(a.col); ok {
					return false // header with the same column twice: not generated
				}
				c, _ := n.find(a.col)
				cols = append(cols, c)
			}
			n.cols = cols
		}
	}
	got := append([]string{}, q.Columns()...)
	exp := n.colNames()
	sort.Strings(got)
	sort.Strings(exp)
	if strings.Join(got, ",") != strings.Join(exp, ",") {
		panic("verif generator: column bookkeeping differs for " + n.src() + ": " +
			strings.Join(exp, ",") + " vs Columns() " + strings.Join(got, ","))
	}
	return true
}

// execution ------------------------------------------------------------------------

type vresult struct {
	cols []string // sorted
	rows []string // sorted, one string per row over cols (multiset)
	seq  []string // rows in the order read
	err  string
}

func vrowText(hdr *Header, row Row, cols []string, th *Thread, st *SuTran) string {
	ss := make([]string, len(cols))
	for i, c := range cols {
		ss[i] = vshow(row.GetVal(hdr, c, th, st))
	}
	return strings.Join(ss, ",")
}

// canon orders the columns by model id and prints the result like Gsu.QParse.showResult
func vcanon(ids *vids, hdrCols []string, hdr *Header, rows []Row, th *Thread) *vresult {
	cols := append([]string{}, hdrCols...)
	sort.Slice(cols, func(i, j int) bool { return ids.id(cols[i]) < ids.id(cols[j]) })
	res := &vresult{cols: cols}
	for _, row := range rows {
		res.seq = append(res.seq, vrowText(hdr, row, cols, th, nil))
	}
	res.rows = append([]string{}, res.seq...)
	sort.Strings(res.rows)
	return res
}

func (r *vresult) show(ids *vids) string {
	if r.err != "" {
		return "!" + r.err
	}
	return ids.list(r.cols) + " " + strconv.Itoa(len(r.rows)) + " " + strings.Join(r.rows, ";")
}

// simple evaluates the query as written with the operators' reference evaluators
func (g *vdb) simple(src string) *vresult {
	var res *vresult
	msg := lib.Catch(func() {
		q := ParseQuery(src, g.rt, nil)
		th := &Thread{}
		q.SetTran(g.rt)
		hdr := q.Header()
		rows := q.Simple(th)
		res = vcanon(&g.ids, q.Columns(), hdr, rows, th)
	})
	if msg != "" {
		return &vresult{err: verrClass(msg)}
	}
	return res
}

type vstrategy struct {
	name   string
	order  int  // 0: no requirement, k>0: order by the k-th index of the transformed query
	prev   bool // read backwards
	noTemp bool // discourage temp indexes
	noRev  bool // keep joins as written
	random bool // random choice among the candidate strategies
}

// execute runs the query the way the engine does: Transform, Optimize, SetApproach, Get
func (g *vdb) execute(src string, s vstrategy, seed uint64) (res *vresult, plan string) {
	defer func(jr, ti int, rb *randv2.Rand) { joinRev, ticostAdj, randomBest = jr, ti, rb }(joinRev, ticostAdj, randomBest)
	joinRev, ticostAdj, randomBest = 0, 0, nil
	if s.noRev {
		joinRev = impossible
	}
	if s.noTemp {
		ticostAdj = 9999999
	}
	if s.random {
		randomBest = randv2.New(randv2.NewPCG(seed, 77))
	}
	msg := lib.Catch(func() {
		q := ParseQuery(src, g.rt, nil)
		asWritten := q.Columns()
		q = q.Transform()
		req := NoneReq(1)
		if s.order > 0 {
			if _, ok := q.(*Sort); ok {
				res = &vresult{err: "skip"}
				return
			}
			idxs := q.Indexes()
			if len(idxs) == 0 || isEmptyKey(idxs) {
				res = &vresult{err: "skip"}
				return
			}
			ix := idxs[(s.order-1)%len(idxs)]
			if len(ix) == 0 {
				res = &vresult{err: "skip"}
				return
			}
			req = OrderReq(ix, 1)
		}
		fix, vr := Optimize(q, ReadMode, req)
		if fix+vr >= impossible {
			res = &vresult{err: "skip"}
			return
		}
		q = SetApproach(q, req, g.rt)
		q.SetTran(g.rt)
		plan = String(q)
		hdr := q.Header()
		th := &Thread{}
		q.Rewind()
		dir := Next
		if s.prev {
			dir = Prev
		}
		var rows []Row
		for row := q.Get(th, dir); row != nil; row = q.Get(th, dir) {
			rows = append(rows, row)
			if len(rows) > 100000 {
				panic("verif: runaway result")
			}
		}
		_ = asWritten
		res = vcanon(&g.ids, hdr.Columns, hdr, rows, th)
	})
	if msg != "" {
		return &vresult{err: verrClass(msg)}, plan
	}
	return res, plan
}

func verrClass(msg string) string {
	switch {
	case strings.Contains(msg, "invalid query"):
		return "invalid"
	case strings.Contains(msg, "can't convert"):
		return "convert"
	}
	return "panic:" + msg
}

var vstrategies = []vstrategy{
	{name: "none"},
	{name: "none-prev", prev: true},
	{name: "notemp", noTemp: true},
	{name: "random", random: true},
	{name: "random-prev-notemp", random: true, prev: true, noTemp: true},
	{name: "order1", order: 1, noRev: true},
	{name: "order2-prev-random", order: 2, prev: true, random: true},
}
