//go:build verif

package query

// C21 "Schema changes keep metadata consistent".
//
// Random histories of admin request *strings* (ParseAdmin/DoAdmin) over tables ta/tb/tc with
// data rows and foreign keys (self references included) on real file databases.
// After every admin step:
//   Q  the op in the encoding of lean/Drive/C21.lean + canonical dump of the real metadata
//   F  direct oracles: schema_wf on the real metadata, rejected_is_noop, per-index scans,
//      and the model-free reopen oracle (String2 texts + scans identical before and after
//      Persist; Close; CheckDatabase; OpenDatabase; the reopened metadata is also sent to the
//      model as `relink` = linkFkeys).

import (
	"fmt"
	"math/rand"
	"os"
	"path/filepath"
	"slices"
	"sort"
	"strings"
	"testing"
	"time"

	"github.com/apmckinlay/gsuneido/core"
	"github.com/apmckinlay/gsuneido/db19"
	"github.com/apmckinlay/gsuneido/db19/index"
	"github.com/apmckinlay/gsuneido/db19/meta"
	"github.com/apmckinlay/gsuneido/db19/meta/schema"
	lib "github.com/apmckinlay/gsuneido/util/zzverif"
)

type c21spec struct {
	mode   byte
	cols   []string
	fkTbl  string
	fkCols []string // nil = not written in the request (parser uses cols)
	fkMode int      // 0 block, 3 cascade, 1 cascade update
}

func c21cs(cols []string) string {
	if len(cols) == 0 {
		return "."
	}
	return strings.Join(cols, ",")
}

func (s c21spec) admin() string {
	m := map[byte]string{'k': "key", 'i': "index", 'u': "index unique"}[s.mode]
	r := m + "(" + strings.Join(s.cols, ",") + ")"
	if s.fkTbl != "" {
		r += " in " + s.fkTbl
		if s.fkCols != nil {
			r += "(" + strings.Join(s.fkCols, ",") + ")"
		}
		r += map[int]string{0: "", 3: " cascade", 1: " cascade update"}[s.fkMode]
	}
	return r
}

func (s c21spec) enc() string {
	r := string(s.mode) + ":" + c21cs(s.cols)
	if s.fkTbl != "" {
		fc := s.fkCols
		if fc == nil {
			fc = s.cols
		}
		r += ">" + s.fkTbl + ":" + c21cs(fc) + ":" + fmt.Sprint(s.fkMode)
	}
	return r
}

func c21fk(fk *meta.Fkey) string {
	return fmt.Sprintf("%s:%s:%d:%d", fk.Table, strings.Join(fk.Columns, ","), fk.IIndex, fk.Mode)
}

// c21dump is the canonical text of Gsu.SchemaAlg.schemaText computed from the real metadata
func c21dump(schemas []*meta.Schema) string {
	if len(schemas) == 0 {
		return "-"
	}
	var ts []string
	for _, sc := range schemas {
		s := sc.Table + "(" + strings.Join(sc.Columns, ",") + ")"
		for i := range sc.Indexes {
			ix := &sc.Indexes[i]
			s += "|" + string(ix.Mode) + ":" + strings.Join(ix.Columns, ",") + "~" + strings.Join(ix.BestKey, ",")
			if ix.Fk.Table != "" {
				s += ">" + c21fk(&ix.Fk)
			}
			var th []string
			for j := range ix.FkToHere {
				th = append(th, c21fk(&ix.FkToHere[j]))
			}
			sort.Strings(th)
			for _, x := range th {
				s += "<" + x
			}
		}
		ts = append(ts, s)
	}
	sort.Strings(ts)
	return strings.Join(ts, ";")
}

// c21wf evaluates schema_wf on the real metadata; returns (signature, description) or "".
func c21wf(schemas []*meta.Schema) (string, string) {
	get := func(name string) *meta.Schema {
		for _, s := range schemas {
			if s.Table == name {
				return s
			}
		}
		return nil
	}
	for _, ts := range schemas {
		haskey := false
		for i := range ts.Indexes {
			ix := &ts.Indexes[i]
			if ix.Mode == 'k' {
				haskey = true
			}
			for _, c := range ix.Columns {
				if !slices.Contains(ts.Columns, c) {
					return "c21-wf-idxcol", ts.Table + " index column " + c + " does not exist"
				}
			}
			for j := range i {
				if slices.Equal(ts.Indexes[j].Columns, ix.Columns) {
					return "c21-wf-dupidx", ts.Table + " duplicate index " + strings.Join(ix.Columns, ",")
				}
			}
			if ix.Fk.Table != "" {
				fk := &ix.Fk
				tg := get(fk.Table)
				fkCols := fk.Columns
				if len(fkCols) == 0 {
					fkCols = ix.Columns
				}
				if tg == nil || fk.IIndex < 0 || fk.IIndex >= len(tg.Indexes) ||
					tg.Indexes[fk.IIndex].Mode != 'k' ||
					!slices.Equal(tg.Indexes[fk.IIndex].Columns, fkCols) {
					return "c21-wf-fk-target", fmt.Sprintf("%s(%s) Fk %s does not designate a key with these columns",
						ts.Table, strings.Join(ix.Columns, ","), c21fk(fk))
				}
				n := 0
				for _, e := range tg.Indexes[fk.IIndex].FkToHere {
					if e.Table == ts.Table && slices.Equal(e.Columns, ix.Columns) && e.IIndex == i && e.Mode == fk.Mode {
						n++
					}
				}
				if n != 1 {
					// is there an entry for these columns with another IIndex?
					for _, e := range tg.Indexes[fk.IIndex].FkToHere {
						if e.Table == ts.Table && slices.Equal(e.Columns, ix.Columns) {
							return "c21-wf-fktohere-iindex", fmt.Sprintf("%s(%s) is index %d but the FkToHere entry in %s says %s",
								ts.Table, strings.Join(ix.Columns, ","), i, fk.Table, c21fk(&e))
						}
					}
					return "c21-wf-fk-noback", fmt.Sprintf("%s(%s) Fk %s has %d matching FkToHere entries in the target",
						ts.Table, strings.Join(ix.Columns, ","), c21fk(fk), n)
				}
			}
		}
		if !haskey {
			return "c21-wf-nokey", ts.Table + " has no key"
		}
		// FkToHere → Fk
		for j := range ts.Indexes {
			for _, e := range ts.Indexes[j].FkToHere {
				src := get(e.Table)
				ok := src != nil && e.IIndex >= 0 && e.IIndex < len(src.Indexes)
				if ok {
					six := &src.Indexes[e.IIndex]
					ok = slices.Equal(six.Columns, e.Columns) && six.Fk.Table == ts.Table &&
						six.Fk.IIndex == j && six.Fk.Mode == e.Mode
				}
				if ok {
					continue
				}
				desc := fmt.Sprintf("%s(%s) has FkToHere %s without the matching Fk", ts.Table,
					strings.Join(ts.Indexes[j].Columns, ","), c21fk(&e))
				// which defect?
				var six *meta.Schema = src
				found := false
				if six != nil {
					for k := range six.Indexes {
						if slices.Equal(six.Indexes[k].Columns, e.Columns) && six.Indexes[k].Fk.Table == ts.Table {
							found = true
						}
					}
				}
				switch {
				case !found && e.Table == ts.Table:
					return "c21-f20-selfref-fktohere", desc
				case found:
					return "c21-wf-fktohere-iindex", desc
				default:
					return "c21-wf-fktohere-stale", desc
				}
			}
		}
	}
	return "", ""
}

// c21scan: per table the sorted offsets through index 0; every other index must give the same set
func c21scan(db *db19.Database) (map[string]string, string) {
	res := map[string]string{}
	rt := db.NewReadTran()
	for _, ts := range rt.GetAllSchema() {
		first := ""
		for i := range ts.Indexes {
			it := index.NewOverIter(ts.Table, i)
			var offs []uint64
			for it.Next(rt); !it.Eof(); it.Next(rt) {
				offs = append(offs, it.CurOff())
			}
			slices.Sort(offs)
			s := fmt.Sprint(offs)
			if i == 0 {
				first = s
			} else if s != first {
				return res, fmt.Sprintf("%s index %d (%s) scans %s but index 0 scans %s", ts.Table, i,
					strings.Join(ts.Indexes[i].Columns, ","), s, first)
			}
		}
		res[ts.Table] = first
	}
	return res, ""
}

func c21texts(db *db19.Database) map[string]string {
	res := map[string]string{}
	rt := db.NewReadTran()
	for _, ts := range rt.GetAllSchema() {
		res[ts.Table] = db.Schema(ts.Table)
	}
	return res
}

func c21mapstr(m map[string]string) string {
	keys := make([]string, 0, len(m))
	for k := range m {
		keys = append(keys, k)
	}
	sort.Strings(keys)
	var sb strings.Builder
	for _, k := range keys {
		sb.WriteString(k + "=" + m[k] + "; ")
	}
	return sb.String()
}

type c21op struct {
	admin string // request string
	enc   string // driver encoding
	kind  string
	// for the scan oracle
	renFrom, renTo string
	dropped        string
}

type c21gen struct {
	r    *rand.Rand
	db   *db19.Database
	hist *[]string // successful inserts are part of the reported history
}

// c21opens counts file database opens of this process. On non-Windows Stor.Close never unmaps
// (mmap_nonwin.go close: "could Munmap but doesn't seem necessary"), so every Create/Open/Check
// leaks one 64 MB mapping; vm.max_map_count (65530) then makes mmap fail with ENOMEM after ~60000
// opens. The suite stops cleanly before that; the thorough tier is sharded into processes.
var c21opens int

const c21openBudget = 24000


var c21tables = []string{"ta", "tb", "tc"}

func (g *c21gen) schemas() []*meta.Schema {
	return g.db.NewReadTran().GetAllSchema()
}

func (g *c21gen) pick(l []string) string { return l[g.r.Intn(len(l))] }

func (g *c21gen) tableName() string {
	// mostly an existing table
	ss := g.schemas()
	if len(ss) > 0 && g.r.Intn(8) != 0 {
		return ss[g.r.Intn(len(ss))].Table
	}
	n := g.pick(c21tables)
	if g.r.Intn(6) == 0 {
		n += "r"
	}
	return n
}

func (g *c21gen) newTableName() string {
	have := map[string]bool{}
	for _, s := range g.schemas() {
		have[s.Table] = true
	}
	var free []string
	for _, n := range c21tables {
		if !have[n] {
			free = append(free, n)
		}
	}
	if len(free) > 0 && g.r.Intn(10) != 0 {
		return g.pick(free)
	}
	return g.pick(c21tables)
}

func (g *c21gen) colsOf(t string) []string {
	for _, s := range g.schemas() {
		if s.Table == t {
			var cs []string
			for _, c := range s.Columns {
				if c != "-" {
					cs = append(cs, c)
				}
			}
			if len(cs) > 0 {
				return cs
			}
		}
	}
	return []string{"a", "b", "c", "d"}
}

func (g *c21gen) someCols(from []string, n int) []string {
	p := g.r.Perm(len(from))
	if n > len(from) {
		n = len(from)
	}
	out := make([]string, n)
	for i := range out {
		out[i] = from[p[i]]
	}
	return out
}

var c21modes = []int{0, 0, 3, 1}

// fkFor decorates spec s (of table t with keys selfKeys) with a foreign key, mostly a valid one
func (g *c21gen) fkFor(s *c21spec, t string, selfKeys [][]string) {
	type tk struct {
		t string
		k []string
	}
	var cands []tk
	for _, sc := range g.schemas() {
		if sc.Table == t {
			continue
		}
		for i := range sc.Indexes {
			if sc.Indexes[i].Mode == 'k' && len(sc.Indexes[i].Columns) == len(s.cols) {
				cands = append(cands, tk{sc.Table, sc.Indexes[i].Columns})
			}
		}
	}
	for _, k := range selfKeys {
		if len(k) == len(s.cols) {
			cands = append(cands, tk{t, k}, tk{t, k}) // self references are interesting
		}
	}
	s.fkMode = c21modes[g.r.Intn(len(c21modes))]
	if len(cands) > 0 && g.r.Intn(8) != 0 {
		c := cands[g.r.Intn(len(cands))]
		s.fkTbl = c.t
		s.fkCols = c.k
		if slices.Equal(c.k, s.cols) && g.r.Intn(2) == 0 {
			s.fkCols = nil
		}
		return
	}
	if len(cands) == 0 && g.r.Intn(4) != 0 {
		return
	}
	// probably invalid
	s.fkTbl = g.pick(c21tables)
	if g.r.Intn(2) == 0 {
		s.fkCols = g.someCols([]string{"a", "b", "c", "d"}, len(s.cols))
	}
}

func (g *c21gen) keysOf(t string) [][]string {
	var ks [][]string
	for _, sc := range g.schemas() {
		if sc.Table == t {
			for i := range sc.Indexes {
				if sc.Indexes[i].Mode == 'k' {
					ks = append(ks, sc.Indexes[i].Columns)
				}
			}
		}
	}
	return ks
}

func (g *c21gen) randSpec(t string, cols []string, selfKeys [][]string, fkProb int) c21spec {
	s := c21spec{mode: "iiiuk"[g.r.Intn(5)]}
	s.cols = g.someCols(cols, 1+g.r.Intn(2))
	for try := 0; try < 4 && g.taken(t, selfKeys, s.cols); try++ {
		s.cols = g.someCols(cols, 1+g.r.Intn(2))
	}
	if g.r.Intn(25) == 0 {
		s.cols = append(s.cols, "z") // nonexistent column
	}
	if g.r.Intn(100) < fkProb {
		g.fkFor(&s, t, selfKeys)
	}
	return s
}

// taken: an index with these columns exists already (or is one of the keys being created)
func (g *c21gen) taken(t string, selfKeys [][]string, cols []string) bool {
	for _, k := range selfKeys {
		if slices.Equal(k, cols) {
			return true
		}
	}
	for _, sc := range g.schemas() {
		if sc.Table == t && sc.FindIndex(cols) != nil {
			return true
		}
	}
	return false
}

func c21specs(ss []c21spec) (admin, enc string) {
	for _, s := range ss {
		admin += " " + s.admin()
		enc += " " + s.enc()
	}
	return
}

func (g *c21gen) hasData(t string) bool {
	ti := g.db.NewReadTran().GetInfo(t)
	return ti != nil && ti.Nrows > 0
}

func (g *c21gen) next() c21op {
	r := g.r
	k := r.Intn(20)
	if n := len(g.schemas()); n == 0 && r.Intn(6) != 0 || n == 1 && r.Intn(3) == 0 {
		k = 0
	}
	switch {
	case k < 4: // create
		t := g.newTableName()
		cols := []string{"a", "b", "c", "d"}
		if r.Intn(3) == 0 {
			cols = cols[:3]
		}
		var ss []c21spec
		if r.Intn(6) == 0 {
			// the shape of finding 20
			ss = []c21spec{{mode: 'k', cols: []string{"a"}},
				{mode: 'i', cols: []string{"b"}, fkTbl: t, fkCols: []string{"a"}, fkMode: c21modes[r.Intn(4)]},
				{mode: 'i', cols: []string{"c"}}}
		} else {
			key := c21spec{mode: 'k', cols: g.someCols(cols, 1+r.Intn(5)/4)}
			if r.Intn(15) == 0 {
				key.mode = 'i' // no key
			}
			ss = append(ss, key)
			selfKeys := [][]string{key.cols}
			n := r.Intn(4)
			for i := 0; i < n; i++ {
				s := g.randSpec(t, cols, selfKeys, 60)
				if s.mode == 'k' {
					selfKeys = append(selfKeys, s.cols)
				}
				ss = append(ss, s)
			}
			if r.Intn(3) == 0 {
				r.Shuffle(len(ss), func(i, j int) { ss[i], ss[j] = ss[j], ss[i] })
			}
		}
		a, e := c21specs(ss)
		return c21op{kind: "create", admin: "create " + t + " (" + strings.Join(cols, ",") + ")" + a,
			enc: "create " + t + " " + c21cs(cols) + e}
	case k < 8: // alter create
		t := g.tableName()
		cols := g.colsOf(t)
		var newCols []string
		if r.Intn(4) == 0 {
			newCols = []string{g.pick([]string{"e", "f", "b", "d"})}
		}
		var ss []c21spec
		n := 1
		if newCols != nil {
			n = r.Intn(2)
		} else if r.Intn(5) == 0 {
			n = 2
		}
		for i := 0; i < n; i++ {
			ss = append(ss, g.randSpec(t, append(slices.Clone(cols), newCols...), g.keysOf(t), 60))
		}
		a, e := c21specs(ss)
		ac, ec := "", "_"
		if newCols != nil {
			ac, ec = " ("+strings.Join(newCols, ",")+")", c21cs(newCols)
		}
		return c21op{kind: "altercreate", admin: "alter " + t + " create" + ac + a,
			enc: "altercreate " + t + " " + lib.B(g.hasData(t)) + " " + ec + e}
	case k < 11: // alter drop
		t := g.tableName()
		var idxs [][]string
		var dcols []string
		for _, sc := range g.schemas() {
			if sc.Table == t && r.Intn(8) != 0 {
				n := 1 + r.Intn(5)/4
				for _, i := range r.Perm(len(sc.Indexes)) {
					if n > 0 && len(sc.Indexes[i].Columns) > 0 && (sc.Indexes[i].Mode != 'k' || r.Intn(4) == 0) {
						idxs = append(idxs, sc.Indexes[i].Columns)
						n--
					}
				}
			}
		}
		if idxs == nil {
			idxs = [][]string{g.someCols(g.colsOf(t), 1+r.Intn(2))}
		}
		if r.Intn(4) == 0 {
			dcols = []string{g.pick(g.colsOf(t))}
			if r.Intn(2) == 0 {
				idxs = nil
			}
		}
		a, e := "", ""
		ac, ec := "", "_"
		if dcols != nil {
			ac, ec = " ("+strings.Join(dcols, ",")+")", c21cs(dcols)
		}
		for _, ix := range idxs {
			// the mode word is irrelevant for drop
			a += " " + g.pick([]string{"index", "key"}) + "(" + strings.Join(ix, ",") + ")"
			e += " " + c21cs(ix)
		}
		return c21op{kind: "alterdrop", admin: "alter " + t + " drop" + ac + a,
			enc: "alterdrop " + t + " " + ec + e}
	case k < 13: // rename column(s)
		t := g.tableName()
		cols := g.colsOf(t)
		from := []string{g.pick(cols)}
		to := []string{}
		if strings.HasSuffix(from[0], "x") && r.Intn(3) != 0 {
			to = append(to, strings.TrimSuffix(from[0], "x"))
		} else if r.Intn(8) == 0 {
			to = append(to, g.pick(cols)) // existing
		} else {
			to = append(to, from[0]+"x")
		}
		if r.Intn(5) == 0 {
			f2 := g.pick(cols)
			from = append(from, f2)
			to = append(to, f2+"y")
		}
		if r.Intn(15) == 0 {
			from[0] = "q" // nonexistent
		}
		a := ""
		for i := range from {
			if i > 0 {
				a += ","
			}
			a += " " + from[i] + " to " + to[i]
		}
		return c21op{kind: "renamecol", admin: "alter " + t + " rename" + a,
			enc: "renamecol " + t + " " + c21cs(from) + " " + c21cs(to)}
	case k < 15: // rename table
		t := g.tableName()
		to := t + "r"
		if strings.HasSuffix(t, "r") && r.Intn(3) != 0 {
			to = strings.TrimSuffix(t, "r")
		} else if r.Intn(5) == 0 {
			to = g.pick(c21tables)
		}
		return c21op{kind: "renametable", admin: "rename " + t + " to " + to,
			enc: "renametable " + t + " " + to, renFrom: t, renTo: to}
	case k < 17: // drop
		t := g.tableName()
		if r.Intn(6) == 0 {
			t = g.pick([]string{"v1", "v2"})
		}
		return c21op{kind: "drop", admin: "drop " + t, enc: "drop " + t, dropped: t}
	case k < 19: // ensure
		t := g.tableName()
		if r.Intn(4) == 0 {
			t = g.newTableName()
		}
		cols := []string{"a", "b", "c", "d"}
		if r.Intn(3) == 0 {
			cols = append(cols, "e")
		}
		if r.Intn(3) == 0 {
			cols = g.colsOf(t)
		}
		var ss []c21spec
		// mostly restate an existing key, then maybe something new
		ks := g.keysOf(t)
		if len(ks) > 0 && r.Intn(4) != 0 {
			ss = append(ss, c21spec{mode: 'k', cols: ks[0]})
		} else {
			ss = append(ss, c21spec{mode: 'k', cols: g.someCols(cols, 1)})
		}
		n := r.Intn(3)
		if r.Intn(2) == 0 {
			// the usual "full definition" style: every existing index (with its foreign key) is
			// restated, then something new (a column and/or indexes) is added
			for _, sc := range g.schemas() {
				if sc.Table != t {
					continue
				}
				cols = g.colsOf(t)
				if r.Intn(2) == 0 && !slices.Contains(cols, "e") {
					cols = append(cols, "e")
				}
				ss = ss[:0]
				for i := range sc.Indexes {
					ix := &sc.Indexes[i]
					sp := c21spec{mode: ix.Mode, cols: ix.Columns, fkTbl: ix.Fk.Table, fkMode: int(ix.Fk.Mode)}
					if ix.Fk.Table != "" {
						sp.fkCols = ix.Fk.Columns
					}
					ss = append(ss, sp)
				}
				ks = nil
				for _, sp := range ss {
					ks = append(ks, sp.cols)
				}
			}
			if len(ss) == 0 {
				ss = append(ss, c21spec{mode: 'k', cols: g.someCols(cols, 1)})
			}
		}
		for i := 0; i < n; i++ {
			ss = append(ss, g.randSpec(t, cols, append(ks, ss[0].cols), 50))
		}
		a, e := c21specs(ss)
		return c21op{kind: "ensure", admin: "ensure " + t + " (" + strings.Join(cols, ",") + ")" + a,
			enc: "ensure " + t + " " + lib.B(g.hasData(t)) + " " + c21cs(cols) + e}
	default: // view
		v := g.pick([]string{"v1", "v2"})
		return c21op{kind: "view", admin: "view " + v + " = ta", enc: "view " + v}
	}
}

func (g *c21gen) insert(tr *lib.Trace) {
	ss := g.schemas()
	if len(ss) == 0 {
		return
	}
	sc := ss[g.r.Intn(len(ss))]
	var flds []string
	for _, c := range sc.Columns {
		if c != "-" && g.r.Intn(5) != 0 { // sometimes a field is left empty
			flds = append(flds, fmt.Sprintf("%s: %d", c, g.r.Intn(6)))
		}
	}
	act := "insert { " + strings.Join(flds, ", ") + " } into " + sc.Table
	var ut *db19.UpdateTran
	e := lib.Catch(func() {
		ut = g.db.NewUpdateTran()
		DoAction(&core.Thread{}, ut, act)
		if s := ut.Complete(); s != "" {
			panic(s)
		}
		ut = nil
	})
	if ut != nil {
		lib.Catch(func() { ut.Abort() })
	}
	if e == "" {
		if g.hist != nil {
			*g.hist = append(*g.hist, act)
		}
		tr.Count("insert ok")
	} else {
		tr.Count("insert refused")
	}
}


// ---- corpus: deterministic scripted histories for classes that depend on a rare random history
// (a request that is rejected only by the final validation, after the foreign key bookkeeping ran;
// foreign-key checked deletes afterwards). Direct oracles only (derived `_lower!` columns are not in
// the Lean model, so nothing is replayed): schema_wf, rejected_is_noop, data_unchanged, and the
// generic foreign key semantics: with `block` links a delete of a target row is refused exactly
// when a row references it.
// "!" = action in its own transaction; "?del <table> <col> <val>" = probe delete (rolled back).

var c21corpusScripts = map[string][]string{
	"rejected-by-final-validation": {
		"create hdr (a,b) key(a)",
		"create two (e,a,f,g,g_lower!) key(e) index(f) index(a) in hdr",
		"!insert { a: 1 } into hdr", "!insert { a: 2 } into hdr",
		"!insert { e: 5, a: 1, f: 2, g: 'x' } into two",
		"alter two drop (g) index(f)", // rejected: g_lower! still needs g
		"?del hdr a 1", "?del hdr a 2",
		"alter two drop (g_lower!) index(f)",
		"?del hdr a 1", "?del hdr a 2",
		"alter two drop (q)", "alter two drop index(e)", "alter two drop key(e)",
		"?del hdr a 1", "?del hdr a 2",
	},
	"two-fks-same-target-alter": {
		"create hdr (a,b) key(a)",
		"create lin (k,x,y,z) key(k) index(z) index(x) in hdr(a) index(y) in hdr(a)",
		"!insert { a: 1 } into hdr", "!insert { a: 2 } into hdr", "!insert { a: 3 } into hdr",
		"!insert { k: 1, x: 1, y: 2 } into lin",
		"alter lin rename x to xx",
		"?del hdr a 1", "?del hdr a 2", "?del hdr a 3",
		"alter lin drop index(z)",
		"?del hdr a 1", "?del hdr a 2", "?del hdr a 3",
		"ensure lin (k,xx,y,z,w) key(k) index(xx) in hdr(a) index(y) in hdr(a) index(w)",
		"?del hdr a 1", "?del hdr a 2", "?del hdr a 3",
		"alter lin drop index(xx)",
		"?del hdr a 1", "?del hdr a 2", "?del hdr a 3",
	},
	"selfref-drop-index": {
		"create tb (a,b,c) key(a) index(b) in tb(a) index(c)",
		"!insert { a: 1 } into tb", "!insert { a: 2, b: 1, c: 2 } into tb",
		"alter tb drop index(b)",
		"?del tb a 2", "?del tb a 1",
	},
}

// c21refCount: number of rows of block-mode referencing tables whose single-column foreign key has value val
func c21blockRefs(db *db19.Database, table, col, val string) int {
	rt := db.NewReadTran()
	n := 0
	for _, ts := range rt.GetAllSchema() {
		for i := range ts.Indexes {
			ix := &ts.Indexes[i]
			fkc := ix.Fk.Columns
			if len(fkc) == 0 {
				fkc = ix.Columns
			}
			if ix.Fk.Table != table || ix.Fk.Mode&schema.CascadeDeletes != 0 || len(ix.Columns) != 1 ||
				len(fkc) != 1 || fkc[0] != col {
				continue
			}
			fld := slices.Index(ts.Columns, ix.Columns[0])
			it := index.NewOverIter(ts.Table, 0)
			for it.Next(rt); !it.Eof(); it.Next(rt) {
				_, off := it.Cur()
				rec := rt.GetRecord(off)
				if fld >= 0 && fmt.Sprint(rec.GetVal(fld)) == val {
					n++
				}
			}
		}
	}
	return n
}

func c21runCorpus(tr *lib.Trace, path string) {
	names := make([]string, 0, len(c21corpusScripts))
	for n := range c21corpusScripts {
		names = append(names, n)
	}
	sort.Strings(names)
	for _, name := range names {
		os.Remove(path)
		var db *db19.Database
		var err error
		c21opens++
		if msg := lib.Catch(func() { db, err = db19.CreateDatabase(path) }); msg != "" || err != nil {
			tr.Fail("c21-create-fail", fmt.Sprint("CreateDatabase: ", msg, err))
			return
		}
		db19.StartConcur(db, time.Hour)
		g := &c21gen{db: db}
		hist := []string{"corpus " + name}
		fail := func(sig, desc string) {
			tr.Fail(sig, desc+" || history: "+strings.Join(hist, " ; "))
			tr.Count("F " + sig)
		}
		tr.Count("corpus script")
	script:
		for _, cmd := range c21corpusScripts[name] {
			switch {
			case strings.HasPrefix(cmd, "!"):
				e := lib.Catch(func() {
					ut := db.NewUpdateTran()
					defer ut.Abort()
					DoAction(&core.Thread{}, ut, cmd[1:])
					if s := ut.Complete(); s != "" {
						panic(s)
					}
				})
				hist = append(hist, cmd[1:]+c21errSuffix(e))
			case strings.HasPrefix(cmd, "?del "):
				f := strings.Fields(cmd)
				refs := c21blockRefs(db, f[1], f[2], f[3])
				e := lib.Catch(func() {
					ut := db.NewUpdateTran()
					defer ut.Abort() // probe only
					DoAction(&core.Thread{}, ut, fmt.Sprintf("delete %s where %s = %s", f[1], f[2], f[3]))
				})
				blocked := strings.Contains(e, "blocked by foreign key")
				hist = append(hist, fmt.Sprintf("probe delete %s where %s = %s (%d blocking references)%s", f[1], f[2], f[3], refs, c21errSuffix(e)))
				if e != "" && !blocked {
					continue // e.g. the table or column is gone
				}
				if blocked != (refs > 0) {
					fail("c21-fk-block-semantics", fmt.Sprintf(
						"delete %s where %s = %s: blocked=%v but %d rows reference it through block foreign keys",
						f[1], f[2], f[3], blocked, refs))
					break script
				}
			default:
				beforeDump := c21dump(g.schemas())
				beforeTexts := c21texts(db)
				beforeScan, bad := c21scan(db)
				if bad != "" {
					fail("c21-index-scan", bad)
					break script
				}
				e := lib.Catch(func() { DoAdmin(db, cmd, nil) })
				hist = append(hist, cmd+c21errSuffix(e))
				schemas := g.schemas()
				if sig, desc := c21wf(schemas); sig != "" {
					fail(sig, desc)
					break script
				}
				afterScan, bad := c21scan(db)
				if bad != "" {
					fail("c21-index-scan", bad)
					break script
				}
				if e != "" {
					if dump := c21dump(schemas); dump != beforeDump || c21mapstr(c21texts(db)) != c21mapstr(beforeTexts) {
						fail("c21-rejected-changed", "metadata changed by a rejected request: "+beforeDump+" -> "+dump)
						break script
					}
					if c21mapstr(afterScan) != c21mapstr(beforeScan) {
						fail("c21-index-scan", "rows changed by a rejected request")
						break script
					}
				}
			}
		}
		lib.Catch(func() { db.Close() })
	}
	os.Remove(path)
}

func c21errSuffix(e string) string {
	if e == "" {
		return ""
	}
	return " => ERR " + e
}

func TestVerifC21Admin(t *testing.T) {
	tr := lib.Open()
	defer tr.Close()
	r := lib.Rand()
	nhist := lib.N(150)
	steps := 25
	db19.MakeSuTran = func(ut *db19.UpdateTran) *core.SuTran { return core.NewSuTran(nil, true) }
	MakeSuTran = func(qt QueryTran) *core.SuTran { return core.NewSuTran(nil, true) }
	scratch := os.Getenv("VERIF_SCRATCH")
	if scratch == "" {
		scratch = t.TempDir()
	}
	path := filepath.Join(scratch, "c21.db")
	c21runCorpus(tr, path)
	for h := 0; h < nhist; h++ {
		if c21opens+2*steps+2 > c21openBudget {
			tr.Count("stopped: mmap budget of the process reached")
			break
		}
		os.Remove(path)
		var db *db19.Database
		var err error
		if msg := lib.Catch(func() { db, err = db19.CreateDatabase(path) }); msg != "" || err != nil {
			tr.Fail("c21-create-fail", fmt.Sprint("CreateDatabase: ", msg, err))
			break
		}
		c21opens++
		db19.StartConcur(db, time.Hour)
		var hist []string
		g := &c21gen{r: r, db: db, hist: &hist}
		tr.Q("reset", "-")
		fail := func(sig, desc string) {
			tr.Fail(sig, desc+" || history: "+strings.Join(hist, " ; "))
			tr.Count("F " + sig)
		}
		ok := true
		for step := 0; step < steps && ok; step++ {
			if r.Intn(4) == 0 {
				g.insert(tr)
				if r.Intn(2) == 0 {
					g.insert(tr)
				}
				continue
			}
			op := g.next()
			beforeDump := c21dump(g.schemas())
			beforeTexts := c21texts(db)
			beforeScan, bad := c21scan(db)
			if bad != "" {
				fail("c21-index-scan", bad)
				break
			}
			e := lib.Catch(func() { DoAdmin(db, op.admin, nil) })
			tr.Count("op " + op.kind)
			schemas := g.schemas()
			dump := c21dump(schemas)
			if e == "" {
				hist = append(hist, op.admin)
				tr.Count("accepted " + op.kind)
			} else {
				hist = append(hist, op.admin+" => ERR "+e)
				switch {
				case strings.Contains(e, "nil pointer") || strings.Contains(e, "ASSERT FAILED") ||
					strings.Contains(e, "index out of range"):
					tr.Count("rejected-noise " + op.kind)
				default:
					tr.Count("rejected " + op.kind)
				}
			}
			// ---- direct oracles
			if sig, desc := c21wf(schemas); sig != "" {
				fail(sig, desc)
				break
			}
			afterScan, bad := c21scan(db)
			if bad != "" {
				fail("c21-index-scan", bad)
				break
			}
			if e != "" {
				// rejected_is_noop
				if dump != beforeDump || c21mapstr(c21texts(db)) != c21mapstr(beforeTexts) {
					fail("c21-rejected-changed", "metadata changed by a rejected request: "+beforeDump+" -> "+dump)
					break
				}
				if c21mapstr(afterScan) != c21mapstr(beforeScan) {
					fail("c21-index-scan", "rows changed by a rejected request")
					break
				}
			} else {
				// data_unchanged for every table that is kept
				exp := map[string]string{}
				for k, v := range beforeScan {
					exp[k] = v
				}
				switch op.kind {
				case "renametable":
					exp[op.renTo] = exp[op.renFrom]
					delete(exp, op.renFrom)
				case "drop":
					delete(exp, op.dropped)
				}
				for k := range afterScan {
					if _, have := exp[k]; !have {
						exp[k] = "[]" // created
					}
				}
				if c21mapstr(afterScan) != c21mapstr(exp) {
					fail("c21-index-scan", "rows through the indexes changed: "+c21mapstr(exp)+" -> "+c21mapstr(afterScan))
					break
				}
			}
			// ---- model correspondence
			if e != "" && strings.Contains(e, "cannot build index") {
				// rejected because of the rows (duplicate value / blocked by foreign key)
				tr.Count("rejected-data " + op.kind)
				tr.Q("skip", dump)
			} else if e != "" {
				tr.Q(op.enc, "!err")
			} else {
				tr.Q(op.enc, dump)
			}
			// ---- reopen oracle
			texts := c21texts(db)
			pe := lib.Catch(func() { db.Persist(); db.Close() })
			if pe != "" {
				fail("c21-persist-panic", pe)
				ok = false
				lib.Catch(func() { db.Close() })
				db = nil
				break
			}
			db = nil
			c21opens += 2
			var ce error
			if msg := lib.Catch(func() { ce = db19.CheckDatabase(path, true) }); msg != "" {
				fail("c21-reopen-check-panic", "CheckDatabase after clean close panicked: "+msg)
				ok = false
				break
			}
			if ce != nil {
				if strings.Contains(ce.Error(), "checksum mismatch") {
					fail("c21-f12-cksum-mismatch", "CheckDatabase after clean close: "+ce.Error())
				} else {
					sig := "c21-reopen-check"
					if strings.Contains(ce.Error(), "foreign key not found") && strings.HasSuffix(ce.Error(), `""`) {
						// full check looks up a foreign key whose trailing fields are empty (finding 46)
						sig = "c21-f46-checkdb-fk-trailing-empty"
					}
					fail(sig, "CheckDatabase after clean close: "+ce.Error())
				}
				ok = false
				break
			}
			if msg := lib.Catch(func() { db, err = db19.OpenDatabase(path) }); msg != "" {
				db = nil
				fail("c21-reopen-open-panic", "OpenDatabase after clean close panicked: "+msg)
				ok = false
				break
			}
			if err != nil {
				db = nil
				if strings.Contains(err.Error(), "checksum mismatch") {
					fail("c21-f12-cksum-mismatch", "OpenDatabase after clean close: "+err.Error())
				} else {
					fail("c21-reopen-open", "OpenDatabase after clean close: "+err.Error())
				}
				ok = false
				break
			}
			db19.StartConcur(db, time.Hour)
			g.db = db
			texts2 := c21texts(db)
			if c21mapstr(texts) != c21mapstr(texts2) {
				sig := "c21-reopen-diff"
				for k := range texts2 {
					if _, had := texts[k]; !had {
						sig = "c21-f21-resurrected"
					}
				}
				if sig == "c21-reopen-diff" {
					// a self-referencing " from t(…)" that disappears is finding 20
					for k, v := range texts {
						if strings.Contains(v, " from "+k+"(") && !strings.Contains(texts2[k], " from "+k+"(") {
							sig = "c21-f20-selfref-fktohere"
						}
					}
				}
				fail(sig, "schema text before reopen: "+c21mapstr(texts)+" after: "+c21mapstr(texts2))
				break
			}
			scan2, bad := c21scan(db)
			if bad != "" || c21mapstr(scan2) != c21mapstr(afterScan) {
				fail("c21-index-scan", "rows differ after reopen: "+bad+c21mapstr(afterScan)+" -> "+c21mapstr(scan2))
				break
			}
			schemas = g.schemas()
			if sig, desc := c21wf(schemas); sig != "" {
				fail(sig, "after reopen: "+desc)
				break
			}
			tr.Q("relink", c21dump(schemas))
		}
		if db != nil {
			lib.Catch(func() { db.Close() })
		}
		tr.Count(fmt.Sprintf("history ok=%v", ok))
	}
	os.Remove(path)
}
