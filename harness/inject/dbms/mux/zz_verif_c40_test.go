//go:build verif

package mux

// C40 (framing): the real WriteBuf and conn.reader against Gsu.Model.Mux.
//   wb  random Write/WriteString/Write1/EndMsg sequences (sizes around the buffer boundaries);
//       the frames handed to the connection are compared with the model
//   rd  generated wire streams (several sessions, arbitrary fragmentation incl. empty frames,
//       arbitrary interleaving, delivered in random small chunks; malformed: bad final byte,
//       oversize, truncated) through the real reader; deliveries + end status compared
//   echo  real ClientConn <-> ServerConn over net.Pipe with a fragmenting wrapper, concurrent
//       sessions, random message sizes (direct oracle only)
// Direct oracles: mux-writebuf:* (payloads of a message's frames = concatenation of the writes,
// only the last frame final), mux-reassembly:* (every session gets exactly its messages, in
// order), mux-empty-message-panic, mux-echo:*.

import (
	"bytes"
	"encoding/binary"
	"fmt"
	"hash/fnv"
	"io"
	"math/rand"
	"net"
	"strings"
	"sync"
	"testing"

	"github.com/apmckinlay/gsuneido/core"
	lib "github.com/apmckinlay/gsuneido/util/zzverif"
)

func v40blk(seed, n int) []byte {
	b := make([]byte, n)
	for j := range b {
		b[j] = byte((seed + j*7) % 251)
	}
	return b
}

func v40fnv(b []byte) uint32 {
	h := fnv.New32a()
	h.Write(b)
	return h.Sum32()
}

// capture is the underlying connection of a writer under test
type v40capture struct{ bytes.Buffer }

func (*v40capture) Close() error { return nil }

type v40frame struct {
	sid     uint32
	final   byte
	payload []byte
}

func v40parse(b []byte) (fs []v40frame, ok bool) {
	for len(b) > 0 {
		if len(b) < HeaderSize {
			return fs, false
		}
		n := int(binary.BigEndian.Uint32(b))
		if len(b) < HeaderSize+n {
			return fs, false
		}
		fs = append(fs, v40frame{binary.BigEndian.Uint32(b[4:]), b[8], b[HeaderSize : HeaderSize+n]})
		b = b[HeaderSize+n:]
	}
	return fs, true
}

// chunked reader: hands the stream out in random pieces, then EOF
type v40chunks struct {
	b []byte
	r *rand.Rand
}

func (c *v40chunks) Read(p []byte) (int, error) {
	if len(c.b) == 0 {
		return 0, io.EOF
	}
	n := 1 + c.r.Intn(40)
	if c.r.Intn(4) == 0 {
		n = 1 + c.r.Intn(5000)
	}
	n = min(n, len(p), len(c.b))
	copy(p, c.b[:n])
	c.b = c.b[n:]
	return n, nil
}
func (c *v40chunks) Write(p []byte) (int, error) { return len(p), nil }
func (c *v40chunks) Close() error                { return nil }

var v40sizes = []int{0, 1, 2, 8, 9, 10, 100, bufSize - HeaderSize - 1, bufSize - HeaderSize,
	bufSize - HeaderSize + 1, bufSize - 2, bufSize - 1, bufSize, bufSize + 1, 2 * bufSize, 3*bufSize + 7}

func TestVerifC40Mux(t *testing.T) {
	tr := lib.Open()
	defer tr.Close()
	r := lib.Rand()
	n := lib.N(400)
	nfail := map[string]int{}
	fail := func(sig, desc string) {
		nfail[sig]++
		tr.Count("F:" + sig)
		if nfail[sig] <= 3 {
			tr.Fail(sig, desc)
		}
	}

	// ---- wb ----
	for i := 0; i < n; i++ {
		sid := uint32(1 + r.Intn(5))
		if r.Intn(10) == 0 {
			sid = uint32(r.Uint32())
		}
		seed := r.Intn(1000)
		cp := &v40capture{}
		c := &conn{rw: cp}
		wb := newWriteBuf(c, sid)
		k := seed
		var msgs []string
		var want [][]byte // per message: concatenation of the writes
		nmsg := 1 + r.Intn(3)
		for m := 0; m < nmsg; m++ {
			var ops []string
			var cat []byte
			nops := r.Intn(6)
			if r.Intn(8) == 0 {
				nops = 20 + r.Intn(30)
			}
			for o := 0; o < nops; o++ {
				switch r.Intn(5) {
				case 0:
					b := byte(k % 251)
					wb.Write1(b)
					cat = append(cat, b)
					ops = append(ops, "b")
					tr.Count("wb:write1")
				default:
					sz := v40sizes[r.Intn(len(v40sizes))]
					if r.Intn(3) == 0 {
						sz = r.Intn(600)
					}
					d := v40blk(k, sz)
					if r.Intn(2) == 0 {
						wb.Write(d)
						ops = append(ops, fmt.Sprint("w", sz))
					} else {
						wb.WriteString(string(d))
						ops = append(ops, fmt.Sprint("s", sz))
					}
					cat = append(cat, d...)
					switch {
					case sz >= bufSize:
						tr.Count("wb:write-direct")
					case sz > bufSize-HeaderSize:
						tr.Count("wb:write-over-capacity")
					default:
						tr.Count("wb:write-buffered")
					}
				}
				k++
			}
			wb.EndMsg()
			if len(ops) == 0 {
				msgs = append(msgs, "-")
			} else {
				msgs = append(msgs, strings.Join(ops, ","))
			}
			want = append(want, cat)
		}
		fs, ok := v40parse(cp.Bytes())
		var outs []string
		for _, f := range fs {
			outs = append(outs, fmt.Sprintf("%d:%d:%d", f.final, len(f.payload), v40fnv(f.payload)))
		}
		op := fmt.Sprintf("wb %d %d %s", sid, seed, strings.Join(msgs, " "))
		tr.Q(op, strings.Join(outs, " "))
		// direct oracle: writebuf_concat
		if !ok {
			fail("mux-writebuf:unparsable", op)
			continue
		}
		mi := 0
		var cur []byte
		for _, f := range fs {
			if f.sid != sid {
				fail("mux-writebuf:wrong-session", op)
			}
			cur = append(cur, f.payload...)
			if f.final == 1 {
				if mi >= len(want) || !bytes.Equal(cur, want[mi]) {
					fail("mux-writebuf:content", fmt.Sprintf("%s: message %d is not the concatenation of its writes", op, mi))
				}
				mi++
				cur = nil
			}
		}
		if mi != len(want) || len(cur) != 0 {
			fail("mux-writebuf:message-count", op)
		}
	}

	// ---- rd ----
	type fdesc struct {
		sid, fb, n, seed int
	}
	runReader := func(stream []byte) (status string, got []v40frame) {
		c := &conn{rw: &v40chunks{b: stream, r: r}}
		msg := lib.Catch(func() {
			c.reader(func(sid uint32, data []byte) {
				if data != nil {
					got = append(got, v40frame{sid: sid, payload: append([]byte{}, data...)})
				}
			})
		})
		switch e := c.err.Load(); {
		case strings.Contains(msg, "ASSERT"):
			status = "assert"
		case msg != "":
			status = "panic:" + msg
		case e == "EOF" || e == "unexpected EOF":
			status = "eof"
		case e == "message size greater than max":
			status = "toobig"
		case e == "bad final byte":
			status = "badfinal"
		default:
			status = "err:" + e
		}
		return
	}
	for i := 0; i < n; i++ {
		nsess := 1 + r.Intn(4)
		kind := "wellformed"
		switch c := r.Intn(20); {
		case c == 0:
			kind = "badfinal"
		case c == 1:
			kind = "truncated"
		case c == 2 && i%8 == 2:
			kind = "toobig"
		case c == 3:
			kind = "emptymsg"
		}
		// per session: messages, each fragmented
		sess := make([][]fdesc, nsess)
		intended := make([][][]byte, nsess)
		sids := make([]int, nsess)
		for s := range sess {
			sids[s] = s + 1
			if r.Intn(6) == 0 {
				sids[s] = int(r.Uint32())
			}
			for m := r.Intn(4); m > 0; m-- {
				nfr := 1 + r.Intn(4)
				empty := kind == "emptymsg" && m == 1 && s == 0
				if empty {
					nfr = 1 + r.Intn(2)
				}
				var msg []byte
				for f := 0; f < nfr; f++ {
					sz := r.Intn(30)
					if r.Intn(5) == 0 {
						sz = r.Intn(6000)
					}
					if r.Intn(4) == 0 && nfr > 1 {
						sz = 0 // empty fragment
					}
					if empty {
						sz = 0
					} else if f == nfr-1 && len(msg) == 0 && sz == 0 {
						sz = 1 // empty messages only in the emptymsg kind
					}
					fd := fdesc{sids[s], 0, sz, r.Intn(1000)}
					if f == nfr-1 {
						fd.fb = 1
					}
					sess[s] = append(sess[s], fd)
					msg = append(msg, v40blk(fd.seed, sz)...)
				}
				intended[s] = append(intended[s], msg)
				tr.Count(fmt.Sprintf("rd:frames-per-msg:%d", nfr))
			}
		}
		if kind == "toobig" {
			// session 0: a message that reaches maxSize exactly, then one more byte
			sess[0] = append(sess[0], fdesc{sids[0], 0, maxSize - 10, 3}, fdesc{sids[0], 0, 10, 4})
			if r.Intn(2) == 0 {
				sess[0] = append(sess[0], fdesc{sids[0], 1, 0, 0}) // exactly maxSize: fine
				intended[0] = append(intended[0], append(v40blk(3, maxSize-10), v40blk(4, 10)...))
				kind = "maxsize-exact"
			} else {
				sess[0] = append(sess[0], fdesc{sids[0], 1, 1, 0})
			}
		}
		// interleave
		var frames []fdesc
		idx := make([]int, nsess)
		for {
			var live []int
			for s := range sess {
				if idx[s] < len(sess[s]) {
					live = append(live, s)
				}
			}
			if len(live) == 0 {
				break
			}
			s := live[r.Intn(len(live))]
			frames = append(frames, sess[s][idx[s]])
			idx[s]++
		}
		if kind == "badfinal" && len(frames) > 0 {
			frames[r.Intn(len(frames))].fb = 2 + r.Intn(254)
		}
		var stream []byte
		var descs []string
		for _, f := range frames {
			hdr := make([]byte, HeaderSize)
			binary.BigEndian.PutUint32(hdr, uint32(f.n))
			binary.BigEndian.PutUint32(hdr[4:], uint32(f.sid))
			hdr[8] = byte(f.fb)
			stream = append(append(stream, hdr...), v40blk(f.seed, f.n)...)
			descs = append(descs, fmt.Sprintf("%d:%d:%d:%d", f.sid, f.fb, f.n, f.seed))
		}
		cut := 0
		if kind == "truncated" && len(stream) > 0 {
			cut = 1 + r.Intn(min(len(stream), 30))
			stream = stream[:len(stream)-cut]
		}
		status, got := runReader(stream)
		outs := []string{status}
		for _, g := range got {
			outs = append(outs, fmt.Sprintf("%d:%d:%d", g.sid, len(g.payload), v40fnv(g.payload)))
		}
		op := fmt.Sprintf("rd %d %s", cut, strings.Join(descs, " "))
		tr.Q(op, strings.Join(outs, " "))
		tr.Count("rd:" + kind + ":" + status)
		// direct oracle: frames_reassemble
		if kind == "wellformed" || kind == "emptymsg" || kind == "maxsize-exact" {
			if status == "assert" {
				fail("mux-empty-message-panic", "the reader panics (assert.That(buf != nil)) on a complete empty message: "+op[:min(len(op), 300)])
				continue
			}
			if status != "eof" {
				fail("mux-reassembly:stopped:"+status, op[:min(len(op), 300)])
				continue
			}
			for s := range sess {
				var mine [][]byte
				for _, g := range got {
					if int(g.sid) == sids[s] {
						mine = append(mine, g.payload)
					}
				}
				dup := false
				for s2 := 0; s2 < s; s2++ {
					dup = dup || sids[s2] == sids[s]
				}
				if dup {
					continue
				}
				if len(mine) != len(intended[s]) {
					fail("mux-reassembly:count", fmt.Sprintf("session %d got %d messages, sent %d: %s", sids[s], len(mine), len(intended[s]), op[:min(len(op), 300)]))
					continue
				}
				for m := range mine {
					if !bytes.Equal(mine[m], intended[s][m]) {
						fail("mux-reassembly:content", fmt.Sprintf("session %d message %d differs: %s", sids[s], m, op[:min(len(op), 300)]))
					}
				}
			}
		}
	}

	// ---- echo: concurrent sessions over one connection, fragmenting transport ----
	core.Exit = func(int) { select {} } // a lost connection at the end must not end the process
	p1, p2 := net.Pipe()
	client := NewClientConn(&v40frag{Conn: p1, r: rand.New(rand.NewSource(r.Int63()))})
	workers := NewWorkers(func(wb *WriteBuf, _ *core.Thread, id uint64, data []byte) {
		if data == nil {
			return
		}
		out := make([]byte, len(data))
		for i, b := range data {
			out[i] = b ^ 0x5a
		}
		// answer in two writes to exercise the writer on the server side too
		h := len(out) / 2
		wb.Write(out[:h]).Write(out[h:]).EndMsg()
	})
	msc := NewServerConn(&v40frag{Conn: p2, r: rand.New(rand.NewSource(r.Int63()))})
	go msc.Run(workers.Submit)
	nthreads := 6
	per := max(n/20, 5)
	var wg sync.WaitGroup
	var mu sync.Mutex
	for th := 0; th < nthreads; th++ {
		rr := rand.New(rand.NewSource(r.Int63()))
		wg.Add(1)
		go func(th int) {
			defer wg.Done()
			session := client.NewClientSession()
			for m := 0; m < per; m++ {
				sz := 1 + rr.Intn(300)
				switch rr.Intn(6) {
				case 0:
					sz = v40sizes[1+rr.Intn(len(v40sizes)-1)]
				case 1:
					sz = 1 + rr.Intn(200000)
				}
				d := v40blk(rr.Intn(1000), sz)
				a := rr.Intn(sz + 1)
				session.Write(d[:a])
				session.WriteString(string(d[a:]))
				session.EndMsg()
				resp := session.read()
				good := len(resp) == len(d)
				for i := 0; good && i < len(d); i++ {
					good = resp[i] == d[i]^0x5a
				}
				mu.Lock()
				tr.Count("echo:msgs")
				if !good {
					fail("mux-echo:wrong-response", fmt.Sprintf("session %d message %d of %d bytes: response of %d bytes is not the echo of its own request", th, m, sz, len(resp)))
				}
				mu.Unlock()
			}
		}(th)
	}
	wg.Wait()
}

// v40frag splits every write into random pieces (the peer sees arbitrary fragmentation)
type v40frag struct {
	net.Conn
	r  *rand.Rand
	mu sync.Mutex
}

func (f *v40frag) Write(p []byte) (int, error) {
	total := 0
	for len(p) > 0 {
		f.mu.Lock()
		n := 1 + f.r.Intn(64)
		if f.r.Intn(3) == 0 {
			n = 1 + f.r.Intn(8192)
		}
		f.mu.Unlock()
		n = min(n, len(p))
		m, err := f.Conn.Write(p[:n])
		total += m
		if err != nil {
			return total, err
		}
		p = p[n:]
	}
	return total, nil
}
