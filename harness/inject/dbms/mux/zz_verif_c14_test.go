//go:build verif

package mux

// C14 (client-server encodings): WriteBuf.PutInt64/PutStr_/PutStrs/PutInts and
// ReadBuf.GetInt64/GetStr/GetStrs against Gsu.Model.MuxEnc, plus the direct oracles
// "what was written is what is read" and len == varint.Len.
// The WriteBuf writes through a conn whose rw collects the frames; the payloads are
// concatenated again (header = size, id, final), so strings larger than the 4 KB buffer are covered.

import (
	"encoding/binary"
	"fmt"
	"math"
	"math/rand"
	"strings"
	"testing"

	"github.com/apmckinlay/gsuneido/options"
	"github.com/apmckinlay/gsuneido/util/varint"
	lib "github.com/apmckinlay/gsuneido/util/zzverif"
)

type c14sink struct{ data []byte }

func (s *c14sink) Write(p []byte) (int, error) { s.data = append(s.data, p...); return len(p), nil }
func (s *c14sink) Read(p []byte) (int, error)  { return 0, fmt.Errorf("no read") }
func (s *c14sink) Close() error                { return nil }

// c14payload runs f on a fresh WriteBuf and returns the bytes of the message it produced
func c14payload(f func(wb *WriteBuf)) (payload string, errc string) {
	sink := &c14sink{}
	c := &conn{rw: sink}
	wb := newWriteBuf(c, 7)
	msg := lib.Catch(func() {
		f(wb)
		wb.EndMsg()
	})
	if msg != "" {
		switch {
		case strings.Contains(msg, "io too large"):
			return "", "!toolarge"
		case strings.Contains(strings.ToLower(msg), "assert"):
			return "", "!neg"
		}
		return "", "!other:" + msg
	}
	var out []byte
	d := sink.data
	for len(d) > 0 {
		if len(d) < HeaderSize {
			return "", "!frame"
		}
		size := int(binary.BigEndian.Uint32(d))
		id := binary.BigEndian.Uint32(d[4:])
		final := d[8]
		d = d[HeaderSize:]
		if size > len(d) || id != 7 || (final == 1) != (size == len(d)) {
			return "", "!frame"
		}
		out = append(out, d[:size]...)
		d = d[size:]
	}
	return string(out), ""
}

func c14cksum(s string) uint32 {
	h := uint64(7)
	for i := 0; i < len(s); i++ {
		h = (h*31 + uint64(s[i])) % 4294967296
	}
	return uint32(h)
}

func c14pat(sz int) string {
	b := make([]byte, sz)
	for p := range b {
		b[p] = byte(p)
	}
	return string(b)
}

func c14readErr(msg string) string {
	switch {
	case strings.Contains(msg, "io too large"):
		return "!toolarge"
	case strings.Contains(strings.ToLower(msg), "assert"):
		return "!neg"
	case strings.Contains(msg, "makeslice"):
		return "!neg"
	case strings.Contains(msg, "out of range"):
		return "!short"
	}
	return "!other:" + msg
}

func TestVerifC14Mux(t *testing.T) {
	tr := lib.Open()
	defer tr.Close()
	r := lib.Rand()
	n := lib.N(2000)
	options.Action = "server" // oversize panics instead of Fatal
	alphabet := []byte{0, 1, 0x7f, 0x80, 0xff, 'a'}
	rstr := func(n int) string {
		b := make([]byte, n)
		for i := range b {
			if r.Intn(3) == 0 {
				b[i] = byte(r.Intn(256))
			} else {
				b[i] = alphabet[r.Intn(len(alphabet))]
			}
		}
		return string(b)
	}
	xs := func(ss []string) string {
		var sb strings.Builder
		for _, s := range ss {
			sb.WriteString(" " + lib.X(s))
		}
		return sb.String()
	}

	// ---- integers
	ints := []int64{0, 1, -1, 2, -2, 63, 64, -64, -65, 127, 128, 8191, 8192, -8192, -8193,
		math.MaxInt32, math.MinInt32, math.MaxInt64, math.MinInt64, math.MaxInt64 - 1, math.MinInt64 + 1}
	for k := uint(0); k < 63; k++ {
		ints = append(ints, int64(1)<<k, int64(1)<<k-1, -(int64(1) << k), -(int64(1) << k) - 1)
	}
	for c := 0; c < n; c++ {
		v := int64(r.Uint64()) >> uint(r.Intn(64)) // every magnitude, both signs
		ints = append(ints, v)
	}
	for _, v := range ints {
		b, errc := c14payload(func(wb *WriteBuf) { wb.PutInt64(v) })
		if errc != "" {
			tr.Fail("mux-putint-panic", fmt.Sprintf("%d: %s", v, errc))
			continue
		}
		tr.Q(fmt.Sprintf("mputint %d", v), lib.X(b))
		tr.Count(fmt.Sprintf("mux.int.bytes=%d", len(b)))
		zz := uint64((v << 1) ^ (v >> 63))
		if len(b) != varint.Len(zz) {
			tr.Fail("mux-varint-len", fmt.Sprintf("PutInt64(%d) wrote %d bytes, varint.Len=%d", v, len(b), varint.Len(zz)))
		}
		suffix := rstr(r.Intn(3))
		rb := ReadBuf{}
		rb.SetBuf([]byte(b + suffix))
		var got int64
		msg := lib.Catch(func() { got = rb.GetInt64() })
		if msg != "" || got != v || rb.Remaining() != len(suffix) {
			tr.Fail("mux-int-roundtrip", fmt.Sprintf("PutInt64(%d) → %x → GetInt64 = %d remaining %d %s", v, b, got, rb.Remaining(), msg))
		}
		tr.Q("mgetint "+lib.X(b+suffix), fmt.Sprintf("%d %s", got, lib.X(suffix)))
	}
	// malformed varints: arbitrary bytes, over-long encodings, missing terminator
	for c := 0; c < n/2; c++ {
		var m string
		switch r.Intn(3) {
		case 0:
			m = rstr(r.Intn(12))
		case 1:
			m = strings.Repeat("\x80", r.Intn(14)) + rstr(r.Intn(2))
		default:
			m = strings.Repeat("\xff", r.Intn(12)) + string([]byte{byte(r.Intn(128))}) + rstr(r.Intn(2))
		}
		rb := ReadBuf{}
		rb.SetBuf([]byte(m))
		var got int64
		if msg := lib.Catch(func() { got = rb.GetInt64() }); msg != "" {
			tr.Q("mgetint "+lib.X(m), c14readErr(msg))
			tr.Count("mux.getint.!short")
		} else {
			tr.Q("mgetint "+lib.X(m), fmt.Sprintf("%d %s", got, lib.X(m[len(m)-rb.Remaining():])))
			tr.Count("mux.getint.malformed-ok")
		}
	}
	// PutInts
	for c := 0; c < n/8; c++ {
		l := make([]int, r.Intn(5))
		var sb strings.Builder
		for i := range l {
			l[i] = int(int64(r.Uint64()) >> uint(r.Intn(64)))
			fmt.Fprintf(&sb, " %d", l[i])
		}
		b, errc := c14payload(func(wb *WriteBuf) { wb.PutInts(l) })
		if errc != "" {
			tr.Fail("mux-putints-panic", errc)
			continue
		}
		tr.Q("mputints"+sb.String(), lib.X(b))
		rb := ReadBuf{}
		rb.SetBuf([]byte(b))
		ok := rb.GetInt() == len(l)
		for i := 0; ok && i < len(l); i++ {
			ok = rb.GetInt() == l[i]
		}
		if !ok || rb.Remaining() != 0 {
			tr.Fail("mux-ints-roundtrip", fmt.Sprintf("%v → %x", l, b))
		}
		tr.Count("mux.ints")
	}

	// ---- size prefixed strings
	for c := 0; c < n/2; c++ {
		s := rstr(r.Intn(40))
		if r.Intn(10) == 0 {
			s = rstr(60 + r.Intn(200)) // two byte size prefix
		}
		b, errc := c14payload(func(wb *WriteBuf) { wb.PutStr_(s) })
		if errc != "" {
			tr.Fail("mux-putstr-panic", errc)
			continue
		}
		tr.Q("mputstr "+lib.X(s), lib.X(b))
		suffix := rstr(r.Intn(3))
		rb := ReadBuf{}
		rb.SetBuf([]byte(b + suffix))
		var got string
		msg := lib.Catch(func() { got = rb.GetStr() })
		if msg != "" || got != s || rb.Remaining() != len(suffix) {
			tr.Fail("mux-str-roundtrip", fmt.Sprintf("PutStr(%q) → %x → %q %s", s, b, got, msg))
		}
		tr.Q("mgetstr "+lib.X(b+suffix), lib.X(got)+" "+lib.X(suffix))
		tr.Count("mux.str")
		// same through PutRec/GetRec (same encoding)
		rb.SetBuf([]byte(b))
		if rec := rb.GetRec(); string(rec) != s {
			tr.Fail("mux-rec-roundtrip", fmt.Sprintf("%q", s))
		}
	}
	// sizes around the write buffer (4096 incl. 9 byte header) and the 1 MB limit
	for _, sz := range []int{4080, 4084, 4085, 4086, 4087, 4088, 4095, 4096, 4097, 8192, 20000,
		maxio - 1, maxio, maxio + 1, maxio + 5000} {
		s := c14pat(sz)
		b, errc := c14payload(func(wb *WriteBuf) { wb.PutByte(5).PutStr_(s).PutByte(6) })
		if (errc == "") != (sz <= maxio) {
			tr.Fail("mux-putstr-limit", fmt.Sprintf("len %d: %q", sz, errc))
		}
		if errc != "" {
			tr.Q(fmt.Sprintf("mputstrn %d", sz), errc)
			tr.Count("mux.str.big." + errc)
			continue
		}
		if len(b) < 2 || b[0] != 5 || b[len(b)-1] != 6 {
			tr.Fail("mux-str-framing", fmt.Sprintf("len %d", sz))
			continue
		}
		b = b[1 : len(b)-1]
		tr.Q(fmt.Sprintf("mputstrn %d", sz), fmt.Sprintf("%d %d", len(b), c14cksum(b)))
		rb := ReadBuf{}
		rb.SetBuf([]byte(b))
		if got := rb.GetStr_(); got != s || rb.Remaining() != 0 {
			tr.Fail("mux-str-roundtrip", fmt.Sprintf("pattern string of %d bytes", sz))
		}
		tr.Count("mux.str.big")
	}
	// malformed size-prefixed strings: negative size, size beyond the limit, size beyond the buffer
	for c := 0; c < n/2; c++ {
		var sz int64
		switch r.Intn(6) {
		case 0:
			sz = -int64(r.Intn(1000)) - 1
		case 1:
			sz = maxio + int64(r.Intn(3))
		case 2:
			sz = int64(r.Uint64())
		default:
			sz = int64(r.Intn(12))
		}
		hdr, _ := c14payload(func(wb *WriteBuf) { wb.PutInt64(sz) })
		m := hdr + rstr(r.Intn(10))
		if r.Intn(6) == 0 {
			m = rstr(r.Intn(6))
		}
		rb := ReadBuf{}
		rb.SetBuf([]byte(m))
		var got string
		if msg := lib.Catch(func() { got = rb.GetStr() }); msg != "" {
			e := c14readErr(msg)
			tr.Q("mgetstr "+lib.X(m), e)
			tr.Count("mux.getstr." + e)
		} else {
			tr.Q("mgetstr "+lib.X(m), lib.X(got)+" "+lib.X(m[len(m)-rb.Remaining():]))
			tr.Count("mux.getstr.malformed-ok")
		}
	}
	// lists of strings
	for c := 0; c < n/4; c++ {
		ss := make([]string, r.Intn(5))
		for i := range ss {
			ss[i] = rstr(r.Intn(6))
		}
		b, errc := c14payload(func(wb *WriteBuf) { wb.PutStrs(ss) })
		if errc != "" {
			tr.Fail("mux-putstrs-panic", errc)
			continue
		}
		tr.Q("mputstrs"+xs(ss), lib.X(b))
		suffix := rstr(r.Intn(3))
		rb := ReadBuf{}
		rb.SetBuf([]byte(b + suffix))
		got := rb.GetStrs()
		same := len(got) == len(ss)
		for i := 0; same && i < len(ss); i++ {
			same = got[i] == ss[i]
		}
		if !same || rb.Remaining() != len(suffix) {
			tr.Fail("mux-strs-roundtrip", fmt.Sprintf("%q → %x → %q", ss, b, got))
		}
		tr.Q("mgetstrs "+lib.X(b+suffix), fmt.Sprintf("%d%s %s", len(got), xs(got), lib.X(suffix)))
		// malformed: small (possibly negative) count then arbitrary bytes
		cnt := int64(r.Intn(8)) - 2
		hdr, _ := c14payload(func(wb *WriteBuf) { wb.PutInt64(cnt) })
		m := hdr + rstr(r.Intn(10))
		rb.SetBuf([]byte(m))
		var g2 []string
		if msg := lib.Catch(func() { g2 = rb.GetStrs() }); msg != "" {
			e := c14readErr(msg)
			tr.Q("mgetstrs "+lib.X(m), e)
			tr.Count("mux.getstrs." + e)
		} else {
			tr.Q("mgetstrs "+lib.X(m), fmt.Sprintf("%d%s %s", len(g2), xs(g2), lib.X(m[len(m)-rb.Remaining():])))
			tr.Count("mux.getstrs.malformed-ok")
		}
		tr.Count("mux.strs")
	}
	tr.Sample(fmt.Sprintf("PutInt64(-300) = %x", func() string { b, _ := c14payload(func(wb *WriteBuf) { wb.PutInt64(-300) }); return b }()))
	_ = rand.Int
}
