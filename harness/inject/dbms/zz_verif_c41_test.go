//go:build verif && !gui

package dbms

// C41: a real dbms server (newServerConn over net.Pipe + TLS, options.Action = "server", a
// `users` table so that connections start behind DbmsUnauth) driven by a raw protocol client.
// Several connections per history; every command of the table is sent with generated
// arguments on unauthenticated connections, interleaved with Nonce/Auth/Token traffic and an
// authenticated connection doing real work.
//
// Q lines replay the history through Gsu.Srv.step (auth machine + interpretation of the
// regenerated command table).  Direct oracles (F lines), independent of the model:
//   unauth-answered:<cmd>            a command outside the allowed list was answered
//   unauth-effect:<what>             db / tokens / other connections / own handles changed
//   auth-without-credentials:<kind>  Auth returned true for something that is not a credential

import (
	"crypto/sha1"
	"crypto/tls"
	"encoding/binary"
	"fmt"
	"hash/fnv"
	"io"
	"math/rand"
	"net"
	"sort"
	"strings"
	"sync"
	"testing"
	"time"

	. "github.com/apmckinlay/gsuneido/core"
	"github.com/apmckinlay/gsuneido/db19"
	"github.com/apmckinlay/gsuneido/db19/stor"
	"github.com/apmckinlay/gsuneido/dbms/commands"
	"github.com/apmckinlay/gsuneido/dbms/mux"
	qry "github.com/apmckinlay/gsuneido/dbms/query"
	"github.com/apmckinlay/gsuneido/options"
	lib "github.com/apmckinlay/gsuneido/util/zzverif"
	"golang.org/x/time/rate"
)

// ---- raw protocol client ------------------------------------------------------------------

type v41conn struct {
	c       net.Conn
	id      uint32 // server side connection id
	dead    bool
	authed  bool // what the harness believes (from Auth responses)
	everOK  bool // ever got Auth == true
	nonce   string
	nonceO  bool
	lastErr string
}

// generous: the suites run on loaded machines; only a request that gets NO response within
// this time counts as "no response"
const v41deadline = 180 * time.Second

func (k *v41conn) timedOut() bool { return strings.Contains(k.lastErr, "timeout") }

type v41msg struct{ b []byte }

func (m *v41msg) byte_(b byte) *v41msg { m.b = append(m.b, b); return m }
func (m *v41msg) bool_(b bool) *v41msg {
	if b {
		return m.byte_(1)
	}
	return m.byte_(0)
}
func (m *v41msg) int_(i int64) *v41msg {
	n := uint64((i << 1) ^ (i >> 63))
	for n > 0x7f {
		m.b = append(m.b, byte(n|0x80))
		n >>= 7
	}
	m.b = append(m.b, byte(n))
	return m
}
func (m *v41msg) str(s string) *v41msg { m.int_(int64(len(s))); m.b = append(m.b, s...); return m }

// request sends one message (possibly fragmented into several frames) and reads the reply.
// returns (ok, rest-of-reply, closed)
func (k *v41conn) request(r *rand.Rand, sid uint32, payload []byte, wantReply bool) (ok bool, rest []byte, closed bool) {
	if k.dead {
		return false, nil, true
	}
	// fragment into 1..3 frames
	parts := [][]byte{payload}
	if len(payload) > 1 && r.Intn(3) == 0 {
		i := 1 + r.Intn(len(payload)-1)
		parts = [][]byte{payload[:i], payload[i:]}
	}
	for i, p := range parts {
		hdr := make([]byte, mux.HeaderSize)
		binary.BigEndian.PutUint32(hdr, uint32(len(p)))
		binary.BigEndian.PutUint32(hdr[4:], sid)
		if i == len(parts)-1 {
			hdr[8] = 1
		}
		k.c.SetWriteDeadline(time.Now().Add(v41deadline))
		if _, err := k.c.Write(append(hdr, p...)); err != nil {
			k.lastErr = "write: " + err.Error()
			k.dead = true
			return false, nil, true
		}
	}
	if !wantReply {
		return true, nil, false
	}
	var buf []byte
	for {
		hdr := make([]byte, mux.HeaderSize)
		k.c.SetReadDeadline(time.Now().Add(v41deadline))
		if _, err := io.ReadFull(k.c, hdr); err != nil {
			k.lastErr = "read header: " + err.Error()
			k.dead = true
			return false, nil, true
		}
		p := make([]byte, binary.BigEndian.Uint32(hdr))
		if _, err := io.ReadFull(k.c, p); err != nil {
			k.lastErr = "read body: " + err.Error()
			k.dead = true
			return false, nil, true
		}
		buf = append(buf, p...)
		if hdr[8] == 1 {
			break
		}
	}
	if len(buf) == 0 {
		return false, nil, false
	}
	return buf[0] == 1, buf[1:], false
}

func v41getStr(b []byte) string {
	rb := mux.ReadBuf{}
	rb.SetBuf(b)
	return rb.GetStr_()
}

// ---- server side ----------------------------------------------------------------------------

type v41srv struct {
	db   *db19.Database
	dl   *DbmsLocal
	cfg  *tls.Config
	th   *Thread
	seq  int
	tbls []string
}

func v41setup(withUsers bool) *v41srv {
	options.BuiltDate = "Dec 29 2020 12:34"
	options.Action = "server"
	Exit = func(int) { panic("core.Exit called") }
	authLimiter = rate.NewLimiter(rate.Inf, 1) // the limiter only slows attempts down
	db := db19.CreateDb(stor.HeapStor(64 * 1024))
	db19.StartConcur(db, 50*time.Millisecond)
	v41tsOnce.Do(db19.StartTimestamps) // as openDbms does; without it Timestamp() runs off the zero date
	db19.MakeSuTran = func(ut *db19.UpdateTran) *SuTran { return NewSuTran(nil, true) }
	qry.MakeSuTran = func(qt qry.QueryTran) *SuTran { return NewSuTran(nil, true) }
	for _, s := range []string{
		"create users (user, passhash) key(user)",
		"create secret (k, v) key(k)",
		"create scratch (k, v) key(k)",
		"create stdlib (name, group, text) key(name, group)",
	} {
		qry.DoAdmin(db, s, nil)
	}
	ut := db.NewUpdateTran()
	th := &Thread{}
	if withUsers {
		qry.DoAction(th, ut, "insert { user: 'fred', passhash: '123' } into users")
		qry.DoAction(th, ut, "insert { user: 'nopass', passhash: '' } into users")
	}
	qry.DoAction(th, ut, "insert { k: 1, v: 'top secret' } into secret")
	qry.DoAction(th, ut, "insert { name: 'Foo', group: -1, text: 'function () { 123 }' } into stdlib")
	ut.Commit()
	dl := NewDbmsLocal(db)
	GetDbms = func() IDbms { return dl }
	workers = mux.NewWorkers(doRequest)
	cert, err := tls.X509KeyPair(ServerCert, ServerKey)
	if err != nil {
		panic(err)
	}
	return &v41srv{db: db, dl: dl, th: th, cfg: &tls.Config{Certificates: []tls.Certificate{cert}},
		tbls: []string{"tables", "columns", "indexes", "users", "secret", "scratch", "stdlib"}}
}

var v41tsOnce sync.Once

func v41connIds() map[uint32]bool {
	serverConnsLock.Lock()
	defer serverConnsLock.Unlock()
	m := map[uint32]bool{}
	for id := range serverConns {
		m[id] = true
	}
	return m
}

func (s *v41srv) connect() *v41conn {
	before := v41connIds()
	p1, p2 := net.Pipe()
	go newServerConn(s.dl, p1, s.cfg)
	if msg := checkHello(p2); msg != "" {
		panic(msg)
	}
	p2.Write(hello())
	tc := tls.Client(p2, &tls.Config{InsecureSkipVerify: true})
	if err := tc.Handshake(); err != nil {
		panic(err)
	}
	k := &v41conn{c: tc}
	for i := 0; i < 2000; i++ { // the server registers the connection right after its handshake
		for id := range v41connIds() {
			if !before[id] {
				k.id = id
				return k
			}
		}
		time.Sleep(time.Millisecond)
	}
	panic("server connection did not register")
}

// digest of everything an unauthenticated request must not change
func (s *v41srv) digest(conns []*v41conn, self int) string {
	h := fnv.New64a()
	t := s.dl.Transaction(false)
	for _, tb := range s.tbls {
		q := t.Query(tb, nil)
		for {
			row, _ := q.Get(s.th, Next)
			if row == nil {
				break
			}
			for _, dr := range row {
				io.WriteString(h, string(dr.Record))
			}
			h.Write([]byte{0xfe})
		}
		q.Close()
		h.Write([]byte{0xff})
	}
	t.Complete()
	dbd := h.Sum64()
	tokensLock.Lock()
	ntok := len(tokens)
	tokensLock.Unlock()
	var sb strings.Builder
	fmt.Fprintf(&sb, "db=%x tokens=%d", dbd, ntok)
	serverConnsLock.Lock()
	for i, k := range conns {
		sc := serverConns[k.id]
		if sc == nil {
			fmt.Fprintf(&sb, " c%d=gone", i)
			continue
		}
		_, un := sc.dbms.(*DbmsUnauth)
		sc.sessionsLock.Lock()
		var ss []string
		for sid, se := range sc.sessions {
			if i == self {
				// own sessions: may be created, closed, renamed; only their handles matter
				ss = append(ss, fmt.Sprintf("%d:h%d/%d/%d", sid, len(se.trans), len(se.queries), len(se.cursors)))
			} else {
				ss = append(ss, fmt.Sprintf("%d:%s:h%d/%d/%d", sid, se.sessionId.Load(), len(se.trans), len(se.queries), len(se.cursors)))
			}
		}
		sc.sessionsLock.Unlock()
		sort.Strings(ss)
		if i == self || un {
			// sessions without handles of unauthenticated connections come and go: own ones by
			// the request itself, those of other unauthenticated connections because EndSession
			// is not answered and is carried out asynchronously by a worker
			var keep []string
			for _, x := range ss {
				if !strings.HasSuffix(x, ":h0/0/0") {
					keep = append(keep, x)
				}
			}
			ss = keep
		}
		fmt.Fprintf(&sb, " c%d=unauth:%v,%s", i, un, strings.Join(ss, ","))
	}
	serverConnsLock.Unlock()
	return sb.String()
}

// ---- command argument generation -------------------------------------------------------------

// argument signature per command: T tran number governed by tn0, i int, I int64, s string,
// b bool, c q/c char, d direction byte, g GetOne mode char, v packed value, r record
var v41sig = map[string]string{
	"Abort": "i", "Admin": "s", "Auth": "s", "Check": "b", "Close": "ic", "Commit": "i",
	"Connections": "", "Cursor": "s", "Cursors": "", "Erase": "TsI", "Exec": "v",
	"Strategy": "icb", "Final": "", "Get": "dTi", "GetOne": "gTv", "Header": "ic", "Info": "",
	"Keys": "ic", "Kill": "s", "LibGet": "s", "Libraries": "", "Log": "s", "Nonce": "",
	"Order": "ic", "Output": "ir", "Query": "Ts", "ReadCount": "T", "Action": "Ts",
	"Rewind": "ic", "Run": "s", "SessionId": "s", "Size": "", "Timestamp": "", "Token": "",
	"Transaction": "b", "Transactions": "", "Update": "TsIr", "WriteCount": "T",
	"EndSession": "", "Asof": "iI",
}

// meaningful string arguments: if the command were not refused these would do something
var v41str = map[string][]string{
	"Admin":     {"create hack (a) key(a)", "drop secret", "ensure scratch (k, v, w) key(k)"},
	"Cursor":    {"secret", "users", "tables"},
	"Erase":     {"secret", "scratch"},
	"Kill":      {"victim", "other", "127.0.0.1"},
	"LibGet":    {"Foo", "Bar"},
	"Log":       {"x", "hello from nobody"},
	"Query":     {"secret", "users"},
	"Action":    {"insert { k: 9, v: 'pwned' } into secret", "delete secret", "update users set passhash = 'x'"},
	"Run":       {"1 + 1", "Database('drop secret')", "Suneido.x = 1"},
	"SessionId": {"", "me", "victim"},
	"Update":    {"secret", "scratch"},
}

type v41gen struct {
	r       *rand.Rand
	handles []int // numbers of trans/queries/cursors owned by *other* connections
}

func (g *v41gen) num() int64 {
	switch g.r.Intn(4) {
	case 0:
		if len(g.handles) > 0 {
			return int64(g.handles[g.r.Intn(len(g.handles))])
		}
		return 1
	case 1:
		return int64(1 + g.r.Intn(8))
	case 2:
		return int64(g.r.Intn(100000)) + 1
	}
	return -int64(g.r.Intn(5)) - 1
}

func (g *v41gen) packed(variation int) string {
	switch variation % 4 {
	case 0:
		return Pack(SuObjectOf(SuStr("secret")))
	case 1:
		return Pack(SuObjectOf(SuStr("Database.Schema"), SuStr("secret"))) // Exec
	case 2:
		return Pack(SuStr("users"))
	}
	b := make([]byte, g.r.Intn(6))
	g.r.Read(b)
	return string(b) // usually malformed
}

// build makes a well-formed request for command idx. variation 0 = meaningful arguments,
// 1 = empty/zero arguments, >= 2 random.
func (g *v41gen) build(idx int, tn0 bool, variation int) []byte {
	name := commands.Command(idx).String()
	sig, ok := v41sig[name]
	if !ok {
		panic("zz_verif_c41: no argument signature for command " + name + " - update v41sig")
	}
	m := &v41msg{}
	m.byte_(byte(idx))
	for _, a := range sig {
		switch a {
		case 'T':
			if tn0 {
				m.int_(0)
			} else {
				m.int_(g.num())
			}
		case 'i':
			if variation == 1 {
				m.int_(0)
			} else {
				m.int_(g.num())
			}
		case 'I':
			if variation == 1 {
				m.int_(0)
			} else {
				m.int_(int64(g.r.Intn(5000)))
			}
		case 's':
			switch {
			case variation == 1:
				m.str("")
			case variation == 0 || g.r.Intn(2) == 0:
				if l := v41str[name]; len(l) > 0 {
					m.str(l[(variation/2+g.r.Intn(len(l)))%len(l)])
				} else {
					m.str("secret")
				}
			default:
				b := make([]byte, 1+g.r.Intn(12))
				for i := range b {
					b[i] = "abc {}()'\x00\xff1"[g.r.Intn(12)]
				}
				m.str(string(b))
			}
		case 'b':
			m.bool_(variation%2 == 0)
		case 'c':
			m.byte_("qcqx"[variation%4])
		case 'd':
			m.byte_([]byte{byte(Next), byte(Prev), byte(Next), 'z'}[variation%4])
		case 'g':
			m.byte_("+-1@?!"[(variation+g.r.Intn(2))%6])
		case 'v':
			m.str(g.packed(variation))
		case 'r':
			var rb RecordBuilder
			rb.Add(SuInt(9))
			rb.Add(SuStr("pwned"))
			m.str(string(rb.Build()))
		}
	}
	return m.b
}

var v41allowed = map[string]bool{"Auth": true, "Nonce": true, "SessionId": true, "LibGet": true,
	"Libraries": true, "EndSession": true}

// v41trace reports each failure signature at most 3 times (and counts all of them)
type v41trace struct {
	*lib.Trace
	seen map[string]int
}

func (t *v41trace) Fail(sig, desc string) {
	t.seen[sig]++
	t.Count("F:" + sig)
	if t.seen[sig] <= 3 {
		t.Trace.Fail(sig, desc)
	}
}

// v41lateUsers: "when the database has users" must be decided when a connection is made, not
// once: a client connects while the users table is still empty (such a connection is open by
// design), then the first user is created, then NEW connections are made. Those must be behind
// the wrapper like on any server with users.
func v41lateUsers(tr *v41trace, r *rand.Rand) {
	s := v41setup(false)
	early := s.connect()
	if ok, _, _ := early.request(r, 1, (&v41msg{}).byte_(byte(commands.GetOne)).byte_('+').int_(0).
		str(Pack(SuObjectOf(SuStr("secret")))).b, true); ok {
		tr.Count("late-users:open-before-users")
	}
	// the first user appears: directly, or through the early (open) connection
	if r.Intn(2) == 0 {
		ut := s.db.NewUpdateTran()
		qry.DoAction(s.th, ut, "insert { user: 'fred', passhash: '123' } into users")
		ut.Commit()
		tr.Count("late-users:created-locally")
	} else {
		ok, rest, _ := early.request(r, 1, (&v41msg{}).byte_(byte(commands.Transaction)).bool_(true).b, true)
		if !ok {
			panic("late-users: early connection cannot start a transaction")
		}
		rb := mux.ReadBuf{}
		rb.SetBuf(rest)
		tn := int64(rb.GetInt())
		early.request(r, 1, (&v41msg{}).byte_(byte(commands.Action)).int_(tn).str("insert { user: 'fred', passhash: '123' } into users").b, true)
		early.request(r, 1, (&v41msg{}).byte_(byte(commands.Commit)).int_(tn).b, true)
		tr.Count("late-users:created-by-client")
	}
	if !s.db.HaveUsers() {
		panic("late-users: user not created")
	}
	tr.Q("reset "+lib.Xs([]string{"fred", "123"}), "ok")
	g := &v41gen{r: r}
	for ci := 0; ci < 2; ci++ {
		k := s.connect()
		serverConnsLock.Lock()
		_, wrapped := serverConns[k.id].dbms.(*DbmsUnauth)
		serverConnsLock.Unlock()
		if !wrapped {
			tr.Fail("unauth-after-users-created:not-wrapped", fmt.Sprintf("the users table has a user but new connection #%d is not behind DbmsUnauth (an earlier connection was made while users was empty)", ci))
		}
		for idx := 0; idx < len(cmds)-1; idx++ {
			name := commands.Command(idx).String()
			if v41allowed[name] || name == "Token" || name == "Log" {
				continue
			}
			for _, tn0 := range []bool{true, false} {
				nAns := 0
				for v := 0; v < 4 && !k.dead; v++ {
					payload := g.build(idx, tn0, v)
					ok, rest, _ := k.request(r, 2, payload, true)
					if ok {
						nAns++
						tr.Fail("unauth-answered:cmd"+name, fmt.Sprintf("users were created after the first connection; NEW unauthenticated connection, request %x (%s) answered ok, reply %x", payload, name, v41tail(rest, 40)))
					}
				}
				cls := "!refused"
				if nAns == 4 {
					cls = "answered"
				} else if nAns > 0 {
					cls = "mixed"
				}
				tr.Q(fmt.Sprintf("u %d %d %s", ci, idx, lib.B(tn0)), cls)
				tr.Count("late-users:u:" + cls)
			}
		}
		// and it can authenticate the normal way
		_, rest, _ := k.request(r, 1, (&v41msg{}).byte_(byte(commands.Nonce)).b, true)
		nonce := v41getStr(rest)
		tr.Q(fmt.Sprintf("nonce %d %s", ci, lib.X(nonce)), "ok")
		h := sha1.Sum([]byte(nonce + "123"))
		cred := "fred\x00" + string(h[:])
		ok, rest, _ := k.request(r, 1, (&v41msg{}).byte_(byte(commands.Auth)).str(cred).b, true)
		out := "!already"
		if ok {
			out = lib.B(len(rest) == 1 && rest[0] == 1)
		}
		tr.Q(fmt.Sprintf("auth %d %s", ci, lib.X(cred)), out)
		k.c.Close()
	}
	early.c.Close()
	for i := 0; i < 2000 && len(v41connIds()) > 0; i++ {
		time.Sleep(time.Millisecond)
	}
}

// ---- the suite ------------------------------------------------------------------------------

type v41tok struct {
	old          bool
	minterAuthed bool
}

func TestVerifC41Unauth(t *testing.T) {
	tr0 := lib.Open()
	defer tr0.Close()
	tr := &v41trace{Trace: tr0, seen: map[string]int{}}
	r := lib.Rand()
	n := lib.N(60)
	v41lateUsers(tr, r)
	s := v41setup(true)
	ncmds := len(cmds)
	users := []string{"fred", "123", "nopass", ""}

	for hist := 0; hist < n; hist++ {
		// every history: fresh connections; tokens are global → flush them
		tokensLock.Lock()
		for k := range tokens {
			delete(tokens, k)
		}
		tokensLock.Unlock()
		toks := map[string]*v41tok{}
		nconn := 3
		conns := make([]*v41conn, nconn)
		for i := range conns {
			conns[i] = s.connect()
		}
		g := &v41gen{r: r}
		tr.Q("reset "+lib.Xs(users), "ok")
		// connection 0 is the legitimate user: authenticates properly, names its session, works
		victim := conns[0]
		legit := func(k *v41conn, ci int) {
			_, rest, _ := k.request(r, 1, (&v41msg{}).byte_(byte(commands.Nonce)).b, true)
			k.nonce = v41getStr(rest)
			k.nonceO = false
			tr.Q(fmt.Sprintf("nonce %d %s", ci, lib.X(k.nonce)), "ok")
			h := sha1.Sum([]byte(k.nonce + "123"))
			cred := "fred\x00" + string(h[:])
			ok, rest, _ := k.request(r, 1, (&v41msg{}).byte_(byte(commands.Auth)).str(cred).b, true)
			res := ok && len(rest) == 1 && rest[0] == 1
			tr.Q(fmt.Sprintf("auth %d %s", ci, lib.X(cred)), lib.B(res))
			k.nonce = ""
			if !res {
				tr.Fail("valid-credential-rejected", "Auth with fred's hash over the fresh nonce returned false")
			}
			k.authed = res
			k.everOK = res
		}
		legit(victim, 0)
		victim.request(r, 1, (&v41msg{}).byte_(byte(commands.SessionId)).str("victim").b, true)
		// real work on the authenticated connection: handles the others will try to use
		var openTrans []int // ended when the history ends (the server keeps them otherwise)
		work := func() {
			if victim.dead {
				return
			}
			ok, rest, _ := victim.request(r, 1, (&v41msg{}).byte_(byte(commands.Transaction)).bool_(true).b, true)
			if !ok {
				return
			}
			rb := mux.ReadBuf{}
			rb.SetBuf(rest)
			tn := rb.GetInt()
			g.handles = append(g.handles, tn)
			openTrans = append(openTrans, tn)
			ok, rest, _ = victim.request(r, 1, (&v41msg{}).byte_(byte(commands.Query)).int_(int64(tn)).str("scratch").b, true)
			if ok {
				rb.SetBuf(rest)
				g.handles = append(g.handles, rb.GetInt())
			}
			s.seq++
			victim.request(r, 1, (&v41msg{}).byte_(byte(commands.Action)).int_(int64(tn)).
				str(fmt.Sprintf("insert { k: %d, v: 'work' } into scratch", s.seq)).b, true)
			if r.Intn(2) == 0 {
				victim.request(r, 1, (&v41msg{}).byte_(byte(commands.Commit)).int_(int64(tn)).b, true)
				openTrans = openTrans[:len(openTrans)-1]
			}
			ok, rest, _ = victim.request(r, 1, (&v41msg{}).byte_(byte(commands.Cursor)).str("secret").b, true)
			if ok {
				rb.SetBuf(rest)
				g.handles = append(g.handles, rb.GetInt())
			}
			tr.Count("victim:work")
		}
		work()

		alive := true
		// the unauthenticated connection itself went away during a request. The server may drop
		// a misbehaving unauthenticated connection (it does so for invalid command numbers); what
		// the property forbids is an effect on anything else, and a request that is never answered.
		lostOwn := func(ci int, name string, payload []byte, before string) {
			alive = false
			k := conns[ci]
			tr.Count("u:own-connection-lost:" + name)
			if k.timedOut() {
				tr.Fail("unauth-effect:no-response:cmd"+name, fmt.Sprintf("history %d: request %x on unauthenticated connection got no response within %v (%s)", hist, payload, v41deadline, k.lastErr))
				return
			}
			for i := 0; i < 2000 && v41connIds()[k.id]; i++ {
				time.Sleep(time.Millisecond)
			}
			strip := func(x string) string {
				i := strings.Index(x, fmt.Sprintf(" c%d=", ci))
				if i < 0 {
					return x
				}
				j := strings.Index(x[i+1:], " c")
				if j < 0 {
					return x[:i]
				}
				return x[:i] + x[i+1+j:]
			}
			if after := s.digest(conns, ci); strip(before) != strip(after) {
				tr.Fail("unauth-effect:others-affected:cmd"+name, fmt.Sprintf("history %d: request %x: the unauthenticated connection was dropped (%s) and %s -> %s", hist, payload, k.lastErr, before, after))
			}
		}
		// u: one command on an unauthenticated connection, several argument variations
		doU := func(ci, idx int, tn0 bool) {
			k := conns[ci]
			name := "?"
			if idx < ncmds-1 {
				name = commands.Command(idx).String()
			}
			if idx >= ncmds {
				before := s.digest(conns, ci)
				_, _, closed := k.request(r, 2, []byte{byte(idx), 0, 0}, true)
				out := "answered"
				if closed {
					out = "closed"
				}
				tr.Q(fmt.Sprintf("u %d %d %s", ci, idx, lib.B(tn0)), out)
				tr.Count("u:invalid-command")
				// the server drops the connection asynchronously; wait for it to be gone
				for i := 0; i < 2000 && v41connIds()[k.id]; i++ {
					time.Sleep(time.Millisecond)
				}
				after := s.digest(conns, ci)
				strip := func(x string) string { // own connection is expected to be gone
					i := strings.Index(x, fmt.Sprintf(" c%d=", ci))
					j := strings.Index(x[i+1:], " c")
					if j < 0 {
						return x[:i]
					}
					return x[:i] + x[i+1+j:]
				}
				if strip(before) != strip(after) {
					tr.Fail("unauth-effect:invalid-command", before+" -> "+after)
				}
				return
			}
			nRef, nAns := 0, 0
			nvar := 4
			for v := 0; v < nvar; v++ {
				var payload []byte
				if idx == ncmds-1 {
					payload = []byte{byte(idx)} // the nil entry
				} else {
					payload = g.build(idx, tn0, v)
				}
				before := s.digest(conns, ci)
				ok, rest, closed := k.request(r, uint32(2+r.Intn(2)), payload, true)
				after := s.digest(conns, ci)
				if closed {
					lostOwn(ci, name, payload, before)
					return
				}
				if ok {
					nAns++
				} else {
					nRef++
				}
				quiet := name == "Log" && (v == 1) // Log(""): answered without logging
				if ok && !v41allowed[name] && !quiet {
					tr.Fail("unauth-answered:cmd"+name, fmt.Sprintf("unauthenticated connection, request %x (%s, tn0=%v, variation %d) answered ok, reply %x", payload, name, tn0, v, rest))
				}
				if before != after {
					what := "state"
					switch {
					case strings.Contains(after, "=gone") && !strings.Contains(before, "=gone"):
						what = "killed-connection"
						alive = false
					case strings.Split(before, " ")[1] != strings.Split(after, " ")[1]:
						what = "token-minted"
					case strings.Split(before, " ")[0] != strings.Split(after, " ")[0]:
						what = "database-changed"
					}
					tr.Fail("unauth-effect:"+what+":cmd"+name, fmt.Sprintf("request %x (%s) on unauthenticated connection: %s -> %s", payload, name, before, after))
					if what == "token-minted" && ok {
						// keep the harness view in step with the server
						toks[v41getStr(rest)] = &v41tok{}
					}
					if !alive {
						break
					}
				}
			}
			cls := "mixed"
			if nAns == 0 {
				cls = "!refused"
			} else if nRef == 0 {
				cls = "answered"
			}
			tr.Q(fmt.Sprintf("u %d %d %s", ci, idx, lib.B(tn0)), cls)
			tr.Count("u:" + name + ":" + cls)
			// malformed requests: truncated / trailing garbage. Only the direct oracles apply.
			if idx < ncmds-1 && r.Intn(3) == 0 {
				p := g.build(idx, tn0, 2)
				if r.Intn(2) == 0 && len(p) > 1 {
					p = p[:1+r.Intn(len(p)-1)]
				} else {
					p = append(p, byte(r.Intn(256)), 7)
				}
				before := s.digest(conns, ci)
				ok, rest, closed := k.request(r, 3, p, true)
				after := s.digest(conns, ci)
				tr.Count("u:malformed")
				if closed {
					lostOwn(ci, name, p, before)
					return
				}
				if ok && !v41allowed[name] && name != "Log" {
					tr.Fail("unauth-answered:cmd"+name, fmt.Sprintf("malformed request %x answered ok %x", p, rest))
				}
				if before != after {
					tr.Fail("unauth-effect:state:cmd"+name, fmt.Sprintf("malformed request %x: %s -> %s", p, before, after))
				}
			}
		}

		doNonce := func(ci int) {
			k := conns[ci]
			ok, rest, closed := k.request(r, 1, (&v41msg{}).byte_(byte(commands.Nonce)).b, true)
			if closed || !ok {
				alive = !closed
				return
			}
			k.nonce = v41getStr(rest)
			k.nonceO = false
			if len(k.nonce) != nonceSize {
				tr.Fail("nonce-size", fmt.Sprintf("nonce of %d bytes", len(k.nonce)))
			}
			tr.Q(fmt.Sprintf("nonce %d %s", ci, lib.X(k.nonce)), "ok")
			tr.Count("nonce")
		}

		doToken := func(ci int) {
			k := conns[ci]
			before := s.digest(conns, ci)
			ok, rest, closed := k.request(r, 1, (&v41msg{}).byte_(byte(commands.Token)).b, true)
			if closed {
				alive = false
				return
			}
			after := s.digest(conns, ci)
			if ok {
				tok := v41getStr(rest)
				toks[tok] = &v41tok{minterAuthed: k.everOK}
				tr.Q(fmt.Sprintf("token %d %s", ci, lib.X(tok)), "ok")
				tr.Count("token:ok")
				if !k.everOK {
					tr.Fail("unauth-answered:cmdToken", fmt.Sprintf("unauthenticated connection obtained a token (%d bytes); %s -> %s", len(tok), before, after))
				}
			} else {
				tr.Q(fmt.Sprintf("token %d x", ci), "!refused")
				tr.Count("token:refused")
				if before != after {
					tr.Fail("unauth-effect:state:cmdToken", before+" -> "+after)
				}
			}
		}

		lastNonce := map[int]string{}
		var usedToks []string
		doAuth := func(ci int) {
			k := conns[ci]
			var cred, kind string
			valid := false
			hashOver := func(user, nonce, ph string) string {
				h := sha1.Sum([]byte(nonce + ph))
				return user + "\x00" + string(h[:])
			}
			switch c := r.Intn(10); c {
			case 0: // the real thing
				kind = "valid"
				cred = hashOver("fred", k.nonce, "123")
				valid = k.nonce != ""
			case 1:
				kind = "wrong-password"
				cred = hashOver("fred", k.nonce, "1234")
			case 2: // finding 7b: unknown user, hash over the nonce alone
				kind = "unknown-user"
				cred = hashOver("nobody", k.nonce, "")
			case 3: // a user whose passhash is empty
				kind = "empty-passhash-user"
				cred = hashOver("nopass", k.nonce, "")
			case 4: // right hash, but over a nonce that was already consumed / another connection's
				kind = "stale-nonce"
				old := lastNonce[ci]
				if r.Intn(2) == 0 {
					old = conns[(ci+1)%nconn].nonce
				}
				if old == "" {
					old = "12345678"
				}
				cred = hashOver("fred", old, "123")
				valid = old == k.nonce && k.nonce != ""
			case 6: // a token that was already used (or expired)
				kind = "used-token"
				if len(usedToks) > 0 {
					cred = usedToks[r.Intn(len(usedToks))]
					if _, again := toks[cred]; again {
						valid = true
					}
				} else {
					cred = "fedcba9876543210"
				}
			case 5: // an outstanding token
				kind = "token"
				for _, tk := range v41keys(toks) {
					ti := toks[tk]
					cred = tk
					valid = true
					kind = "token-minted-by-authed"
					if !ti.minterAuthed {
						kind = "self-minted-token"
					}
					break
				}
				if cred == "" {
					cred = "0123456789abcdef"
				}
			case 7:
				kind = "random"
				b := make([]byte, r.Intn(30))
				r.Read(b)
				cred = string(b)
			case 8:
				kind = "user-only"
				cred = "fred"
			default:
				kind = "hash-without-user"
				h := sha1.Sum([]byte(k.nonce + "123"))
				cred = "\x00" + string(h[:])
			}
			before := s.digest(conns, ci)
			ok, rest, closed := k.request(r, 1, (&v41msg{}).byte_(byte(commands.Auth)).str(cred).b, true)
			if closed {
				alive = false
				return
			}
			out := "!already"
			res := false
			if ok {
				res = len(rest) == 1 && rest[0] == 1
				out = lib.B(res)
			}
			tr.Q(fmt.Sprintf("auth %d %s", ci, lib.X(cred)), out)
			tr.Count("auth:" + kind + ":" + out)
			if k.authed && ok {
				tr.Fail("auth-on-authed-answered", "Auth answered on an already authorized connection")
			}
			if !ok {
				return
			}
			_, isTok := toks[cred]
			tokenOK := isTok && toks[cred].minterAuthed
			if k.nonce != "" {
				lastNonce[ci] = k.nonce
			}
			k.nonce = "" // consumed whatever the result
			if res {
				if isTok {
					delete(toks, cred)
					usedToks = append(usedToks, cred)
				}
				k.authed = true
				if isTok {
					// token_single_use: the same token on another unauthenticated connection
					for cj, k2 := range conns {
						if cj == ci || k2.authed || k2.dead {
							continue
						}
						ok2, rest2, closed2 := k2.request(r, 1, (&v41msg{}).byte_(byte(commands.Auth)).str(cred).b, true)
						if closed2 {
							break
						}
						res2 := ok2 && len(rest2) == 1 && rest2[0] == 1
						tr.Q(fmt.Sprintf("auth %d %s", cj, lib.X(cred)), lib.B(res2))
						tr.Count("auth:token-reuse:" + lib.B(res2))
						if k2.nonce != "" {
							lastNonce[cj] = k2.nonce
						}
						k2.nonce = ""
						if res2 {
							k2.authed = true
							tr.Fail("auth-without-credentials:token-reused", fmt.Sprintf("token %x authenticated connection %d and then again connection %d", cred, ci, cj))
						}
						break
					}
				}
				if !(valid && (kind == "valid" || kind == "stale-nonce")) && !tokenOK {
					// concrete consequence: read the secret table
					_, row, _ := k.request(r, 1, (&v41msg{}).byte_(byte(commands.GetOne)).byte_('+').int_(0).
						str(Pack(SuObjectOf(SuStr("secret")))).b, true)
					tr.Fail("auth-without-credentials:"+kind, fmt.Sprintf("Auth(%x) returned true on connection %d without a valid credential (%s); then GetOne('secret') -> ...%q", cred, ci, kind, v41tail(row, 24)))
				} else {
					k.everOK = true
				}
			} else {
				if valid && (kind == "valid" || tokenOK) {
					tr.Fail("valid-credential-rejected", fmt.Sprintf("Auth(%x) kind %s returned false", cred, kind))
				}
				// nonce_single_use: the failed attempt consumed the nonce; the right hash over
				// that same nonce must not be accepted afterwards
				if old := lastNonce[ci]; old != "" && r.Intn(2) == 0 {
					c2 := hashOver("fred", old, "123")
					ok2, rest2, closed2 := k.request(r, 1, (&v41msg{}).byte_(byte(commands.Auth)).str(c2).b, true)
					if closed2 {
						alive = false
						return
					}
					res2 := ok2 && len(rest2) == 1 && rest2[0] == 1
					tr.Q(fmt.Sprintf("auth %d %s", ci, lib.X(c2)), lib.B(res2))
					tr.Count("auth:replay-consumed-nonce:" + lib.B(res2))
					if res2 {
						k.authed = true
						tr.Fail("auth-without-credentials:consumed-nonce", fmt.Sprintf("connection %d: after a failed Auth, Auth with fred's hash over the already consumed nonce %x returned true", ci, old))
					}
				}
				after := s.digest(conns, ci)
				if before != after {
					tr.Fail("unauth-effect:state:cmdAuth", "failed Auth changed state: "+before+" -> "+after)
				}
			}
		}

		doExpire := func() {
			expireTokens()
			expireNonces()
			for _, tk := range v41keys(toks) {
				ti := toks[tk]
				if ti.old {
					delete(toks, tk)
					usedToks = append(usedToks, tk)
				} else {
					ti.old = true
				}
			}
			for _, k := range conns {
				if k.nonceO {
					k.nonce, k.nonceO = "", false
				} else if k.nonce != "" {
					k.nonceO = true
				}
			}
			tr.Q("expire", "ok")
			tr.Count("expire")
		}

		if hist == 0 {
			// systematic sweep: every table entry, both kinds of transaction number
			for idx := 0; idx < ncmds && alive; idx++ {
				name := commands.Command(idx).String()
				if name == "Auth" || name == "Nonce" || name == "Token" || name == "EndSession" {
					continue
				}
				doU(1, idx, true)
				if alive {
					doU(1, idx, false)
				}
				if idx%7 == 0 {
					work()
				}
			}
			if alive {
				doToken(1)
				doToken(0)
			}
		}
		nops := 25 + r.Intn(20)
		for op := 0; op < nops && alive; op++ {
			ci := 1 + r.Intn(nconn-1)
			if r.Intn(8) == 0 {
				ci = 0
			}
			k := conns[ci]
			if k.dead {
				continue
			}
			switch c := r.Intn(20); {
			case c < 9:
				if k.authed {
					continue
				}
				idx := r.Intn(ncmds)
				name := commands.Command(idx).String()
				if name == "Auth" || name == "Nonce" || name == "Token" {
					continue
				}
				if name == "EndSession" {
					before := s.digest(conns, ci)
					k.request(r, 2, []byte{byte(idx)}, false)
					// no reply. The protocol allows one outstanding request per session, so the
					// session must not be used again until the server has carried EndSession out
					// (a worker does that asynchronously): wait until the session is gone
					for i := 0; i < 5000; i++ {
						serverConnsLock.Lock()
						sc := serverConns[k.id]
						gone := sc == nil
						if sc != nil {
							sc.sessionsLock.Lock()
							gone = sc.sessions[2] == nil
							sc.sessionsLock.Unlock()
						}
						serverConnsLock.Unlock()
						if gone {
							break
						}
						time.Sleep(time.Millisecond)
					}
					if after := s.digest(conns, ci); before != after {
						tr.Fail("unauth-effect:state:cmdEndSession", before+" -> "+after)
					}
					tr.Count("u:EndSession")
					continue
				}
				doU(ci, idx, r.Intn(2) == 0)
			case c < 12:
				doNonce(ci)
			case c < 16:
				doAuth(ci)
			case c < 18:
				if r.Intn(3) == 0 && !conns[0].dead {
					doToken(0)
				} else {
					doToken(ci)
				}
			case c < 19:
				doExpire()
			default:
				work()
			}
		}
		if alive && r.Intn(4) == 0 {
			ci := 1 + r.Intn(nconn-1)
			if !conns[ci].authed && !conns[ci].dead {
				doU(ci, ncmds+r.Intn(200-ncmds), true)
			}
		}
		if !victim.dead {
			if ok, rest, closed := victim.request(r, 1, (&v41msg{}).byte_(byte(commands.Timestamp)).b, true); closed || !ok {
				why := "connection closed: " + victim.lastErr
				if !closed {
					why = "Timestamp refused: " + v41getStr(rest)
				}
				tr.Fail("unauth-effect:victim-unusable", fmt.Sprintf("history %d: the authenticated connection no longer answers (%s)", hist, why))
			}
		}
		for _, tn := range openTrans {
			if !victim.dead {
				victim.request(r, 1, (&v41msg{}).byte_(byte(commands.Abort)).int_(int64(tn)).b, true)
			}
		}
		for _, k := range conns {
			k.c.Close()
		}
		for i := 0; i < 2000 && len(v41connIds()) > 0; i++ {
			time.Sleep(time.Millisecond)
		}
	}
}

func v41keys(m map[string]*v41tok) []string {
	ks := make([]string, 0, len(m))
	for k := range m {
		ks = append(ks, k)
	}
	sort.Strings(ks)
	return ks
}

func v41tail(b []byte, n int) string {
	if len(b) > n {
		b = b[len(b)-n:]
	}
	return string(b)
}
