//go:build verif && !gui

package dbms

// C40 (client/server = local): the same generated request scripts are run
//   A: through DbmsClient sessions multiplexed over ONE real server connection
//      (newServerConn over net.Pipe + TLS, client writes split into random fragments),
//      all sessions concurrently, and
//   B: directly on a DbmsLocal over an identically initialised database.
// Every request's result (rows, headers, keys, counts, errors) is canonicalised and compared
// (direct oracle, F lines `cs-diff:<request>`); the final table contents are compared too.
// No model replay: the command handlers are tied only differentially (see checks/C40.json).
// Documented differences that are part of the comparison: errors carry " (from server)";
// transaction numbers are server assigned; DisableTrigger / Unuse / Use(new) are refused by a client.

import (
	"crypto/tls"
	"fmt"
	"math/rand"
	"net"
	"regexp"
	"sort"
	"strings"
	"sync"
	"testing"
	"time"

	"github.com/apmckinlay/gsuneido/compile"
	. "github.com/apmckinlay/gsuneido/core"
	"github.com/apmckinlay/gsuneido/db19"
	"github.com/apmckinlay/gsuneido/db19/stor"
	"github.com/apmckinlay/gsuneido/dbms/mux"
	qry "github.com/apmckinlay/gsuneido/dbms/query"
	"github.com/apmckinlay/gsuneido/options"
	lib "github.com/apmckinlay/gsuneido/util/zzverif"
)

type vcsFrag struct {
	net.Conn
	r  *rand.Rand
	mu sync.Mutex
}

func (f *vcsFrag) Write(p []byte) (int, error) {
	total := 0
	for len(p) > 0 {
		f.mu.Lock()
		n := 1 + f.r.Intn(48)
		if f.r.Intn(3) == 0 {
			n = 1 + f.r.Intn(6000)
		}
		f.mu.Unlock()
		n = min(n, len(p))
		m, err := f.Conn.Write(p[:n])
		total += m
		if err != nil {
			return total, err
		}
		p = p[n:]
	}
	return total, nil
}

type vcsOp struct {
	kind string
	a, b int
	s    string
}

type vcsRow struct {
	off   uint64
	table string
}

type vcsSide struct {
	d     IDbms
	th    *Thread
	trans []ITran
	qs    []IQuery
	curs  []ICursor
	rows  []vcsRow // the row fetched last from the session's own table (usable once)
	cols  []string
	own   string
	sv    *Sviews     // session views (local side; the server keeps the client's per connection)
	ms    *muxSession // client side only: to inspect what is left of a response
	left  int         // bytes of the last response the client stub did not consume
}

var vcsDigits = regexp.MustCompile(`[0-9]+`)

// the strategy text carries cost / row estimates ({0.800x 10 0+1_240}, [nrecs~ 8 cost~ 1_240])
// that depend on index statistics of the moment (btree shape, background merges), not on the
// request: only the structure of the strategy (indexes chosen, operations, modes) is compared
var vcsEstBlock = regexp.MustCompile(`\{[^{}]*\}\s*`)
var vcsEstNum = regexp.MustCompile(`(nrecs|cost|fixcost|varcost)~?\s*[0-9_.]+`)

func vcsStrategy(s string) string {
	s = vcsEstBlock.ReplaceAllString(s, "")
	return vcsEstNum.ReplaceAllString(s, "$1~#")
}

func vcsErr(msg string) string {
	msg = strings.TrimSuffix(msg, " (from server)")
	if strings.Contains(msg, "Packable") {
		return "!unpackable"
	}
	return "!" + vcsDigits.ReplaceAllString(msg, "#")
}

func (sd *vcsSide) row(row Row, hdr *Header, tbl string) string {
	if row == nil {
		return "eof"
	}
	var sb strings.Builder
	sb.WriteString(tbl)
	for _, c := range sd.cols {
		if hdr.HasField(c) {
			fmt.Fprintf(&sb, " %s=%q", c, row.GetRaw(hdr, c))
		}
	}
	if tbl == sd.own && len(row) == 1 {
		sd.rows = []vcsRow{{row[0].Off, tbl}}
	}
	return sb.String()
}

var vcsAdminLock sync.Mutex // schema changes are not allowed concurrently (on either side)

func (sd *vcsSide) exec(op vcsOp) (out string) {
	if op.kind == "Admin" {
		vcsAdminLock.Lock()
		defer vcsAdminLock.Unlock()
	}
	defer func() {
		if e := recover(); e != nil {
			msg := errToStr(e) // the conversion the server applies to errors
			if i := strings.IndexByte(msg, '\n'); i >= 0 {
				msg = msg[:i]
			}
			out = vcsErr(msg)
		}
	}()
	out = sd.exec1(op)
	sd.left = 0
	if sd.ms != nil && out != "skip" { // "skip": no request was sent
		sd.left = sd.ms.Remaining()
	}
	return out
}

func vcsPick[T any](l []T, i int) (T, bool) {
	var z T
	if len(l) == 0 {
		return z, false
	}
	if i < 0 || i >= len(l) {
		return z, false
	}
	return l[i], true
}

func vcsPickMod[T any](l []T, i int) (T, bool) {
	var z T
	if len(l) == 0 {
		return z, false
	}
	return l[i%len(l)], true
}

func (sd *vcsSide) exec1(op vcsOp) string {
	switch op.kind {
	case "Transaction":
		t := sd.d.Transaction(op.a == 1)
		sd.trans = append(sd.trans, t)
		return "ok"
	case "Complete":
		if t, ok := vcsPick(sd.trans, op.a); ok {
			return "complete:" + vcsDigits.ReplaceAllString(t.Complete(), "#")
		}
	case "Abort":
		if t, ok := vcsPick(sd.trans, op.a); ok {
			return "abort:" + t.Abort()
		}
	case "Action":
		if t, ok := vcsPick(sd.trans, op.a); ok {
			sd.rows = nil
			return fmt.Sprint("n=", t.Action(sd.th, op.s))
		}
	case "ReadCount":
		if t, ok := vcsPick(sd.trans, op.a); ok {
			return fmt.Sprint("n=", t.ReadCount())
		}
	case "WriteCount":
		if t, ok := vcsPick(sd.trans, op.a); ok {
			return fmt.Sprint("n=", t.WriteCount())
		}
	case "Query":
		if t, ok := vcsPick(sd.trans, op.a); ok {
			sd.qs = append(sd.qs, nil) // the slot exists even when the request fails
			sd.qs[len(sd.qs)-1] = t.Query(op.s, sd.sv)
			return "ok"
		}
	case "TranGet":
		if t, ok := vcsPick(sd.trans, op.a); ok {
			row, hdr, tbl := t.Get(sd.th, SuObjectOf(SuStr(op.s)), Dir(op.b))
			return sd.row(row, hdr, tbl)
		}
	case "DbmsGet":
		row, hdr, tbl := sd.d.Get(sd.th, SuObjectOf(SuStr(op.s)), Dir(op.b))
		return sd.row(row, hdr, tbl)
	case "QGet":
		if q, ok := vcsPick(sd.qs, op.a); ok && q != nil {
			row, tbl := q.Get(sd.th, Dir(op.b))
			return sd.row(row, q.Header(), tbl)
		}
	case "QHeader":
		if q, ok := vcsPick(sd.qs, op.a); ok && q != nil {
			h := q.Header()
			cols := append([]string{}, h.Columns...)
			sort.Strings(cols)
			return strings.Join(cols, ",")
		}
	case "QKeys":
		if q, ok := vcsPick(sd.qs, op.a); ok && q != nil {
			return strings.Join(q.Keys(), "|")
		}
	case "QOrder":
		if q, ok := vcsPick(sd.qs, op.a); ok && q != nil {
			return strings.Join(q.Order(), ",")
		}
	case "QStrategy":
		if q, ok := vcsPick(sd.qs, op.a); ok && q != nil {
			return vcsStrategy(q.Strategy(op.b == 1))
		}
	case "QRewind":
		if q, ok := vcsPick(sd.qs, op.a); ok && q != nil {
			q.Rewind()
			return "ok"
		}
	case "QClose":
		if q, ok := vcsPick(sd.qs, op.a); ok && q != nil {
			q.Close()
			return "ok"
		}
	case "QOutput":
		if q, ok := vcsPick(sd.qs, op.a); ok && q != nil {
			var rb RecordBuilder
			rb.Add(SuInt(op.b))
			rb.Add(SuStr(op.s))
			q.Output(sd.th, rb.Build())
			return "ok"
		}
	case "Cursor":
		sd.curs = append(sd.curs, nil)
		sd.curs[len(sd.curs)-1] = sd.d.Cursor(op.s, sd.sv)
		return "ok"
	case "CGet":
		c, ok1 := vcsPick(sd.curs, op.a)
		t, ok2 := vcsPick(sd.trans, op.b)
		if ok1 && ok2 && c != nil {
			row, tbl := c.Get(sd.th, t, Next)
			return sd.row(row, c.Header(), tbl)
		}
	case "CClose":
		if c, ok := vcsPick(sd.curs, op.a); ok && c != nil {
			c.Close()
			return "ok"
		}
	case "Update":
		t, ok1 := vcsPick(sd.trans, op.a)
		rw, ok2 := vcsPickMod(sd.rows, op.b)
		if ok1 && ok2 {
			var rb RecordBuilder
			rb.Add(SuInt(1000 + op.b))
			rb.Add(SuStr(op.s))
			sd.rows = nil
			t.Update(sd.th, rw.table, rw.off, rb.Build())
			return "ok"
		}
	case "Erase":
		t, ok1 := vcsPick(sd.trans, op.a)
		rw, ok2 := vcsPickMod(sd.rows, op.b)
		if ok1 && ok2 {
			sd.rows = nil
			t.Delete(sd.th, rw.table, rw.off)
			return "ok"
		}
	case "Admin":
		sd.d.Admin(op.s, sd.sv)
		return "ok"
	case "Check":
		return sd.d.Check(op.a == 1)
	case "Libraries":
		return strings.Join(sd.d.Libraries(), ",")
	case "LibGet":
		return fmt.Sprintf("%q", sd.d.LibGet(op.s))
	case "Run":
		return vcsVal(sd.d.Run(sd.th, op.s))
	case "Exec":
		return vcsVal(sd.d.Exec(sd.th, SuObjectOf(SuStr("VerifExec"), SuStr(op.s))))
	case "Cursors":
		return "ok" // number is per session on a server, 0 locally: documented difference
	case "Transactions":
		return fmt.Sprint("n=", sd.d.Transactions().Size() >= 0)
	case "Final":
		return fmt.Sprint(sd.d.Final() >= 0)
	}
	return "skip"
}

// vcsVal canonicalises the result of Run/Exec. A value that cannot be packed (function, class)
// exists only locally; through the protocol the request must fail (documented difference).
func vcsVal(v Value) string {
	if v == nil {
		return "nil"
	}
	if _, ok := v.(Packable); !ok {
		return "!unpackable"
	}
	return v.String()
}

const vcsExecFn = `function (what) {
	if what is 'num'
		return 123
	if what is 'str'
		return 'abc'
	if what is 'big'
		return 'x'.Repeat(9000)
	if what is 'obj'
		return #(1, 'two', a: 3)
	if what is 'fn'
		return function () { 1 }
	if what is 'class'
		return class { X: 1 }
	if what is 'nil'
		return
	throw 'verif exec error: ' $ what
	}`

func vcsScript(r *rand.Rand, tbl string, n int) []vcsOp {
	dirs := []int{int(Next), int(Prev)}
	one := []int{int(Next), int(Prev), int(Only), int(Any)}
	queries := []string{tbl, tbl + " where k > 3", tbl + " where k = 5", tbl + " sort v", tbl + " project k",
		tbl + " extend z = k + 1", tbl + " where v = 'zz'", "tables where table = '" + tbl + "'", tbl + " rename v to w",
		tbl + " summarize count", "nosuch", tbl + " where",
		// the session view (defined by an Admin request of this script, see below)
		"sv" + tbl, "sv" + tbl + " where k > 4", "sv" + tbl + " sort v", "sv" + tbl + " where k = 6"}
	// the script respects the protocol: an ended transaction, its queries, a closed query or
	// cursor are never used again (SuTran/SuQuery enforce that above this interface)
	var ops []vcsOp
	type tranInfo struct{ update, live bool }
	var trans []tranInfo
	type qInfo struct {
		tran int
		live bool
	}
	var qs []qInfo
	var curs []bool
	liveTran := func(update bool) int {
		var l []int
		for i, t := range trans {
			if t.live && (!update || t.update) {
				l = append(l, i)
			}
		}
		if len(l) == 0 {
			return -1
		}
		return l[r.Intn(len(l))]
	}
	liveQ := func() int {
		var l []int
		for i, q := range qs {
			if q.live && trans[q.tran].live {
				l = append(l, i)
			}
		}
		if len(l) == 0 {
			return -1
		}
		return l[r.Intn(len(l))]
	}
	liveCur := func() int {
		var l []int
		for i, c := range curs {
			if c {
				l = append(l, i)
			}
		}
		if len(l) == 0 {
			return -1
		}
		return l[r.Intn(len(l))]
	}
	newTran := func(update bool) {
		a := 0
		if update {
			a = 1
		}
		ops = append(ops, vcsOp{kind: "Transaction", a: a})
		trans = append(trans, tranInfo{update, true})
	}
	newTran(true)
	newTran(false)
	if r.Intn(4) != 0 { // usually defined early, sometimes only later or never
		ops = append(ops, vcsOp{kind: "Admin", s: "sview sv" + tbl + " = " + tbl + " where k > 2"})
	}
	key := 100
	for i := 0; i < n; i++ {
		if liveTran(true) < 0 {
			newTran(true)
		}
		if liveTran(false) < 0 {
			newTran(false)
		}
		switch c := r.Intn(40); {
		case c < 3:
			// several read transactions, but one update transaction at a time: which of two
			// conflicting transactions the checker aborts is timing dependent (C01's subject)
			newTran(false)
		case c < 6:
			t := liveTran(false)
			k := "Complete"
			if c == 5 {
				k = "Abort"
			}
			ops = append(ops, vcsOp{kind: k, a: t})
			trans[t].live = false
		case c < 11:
			key++
			acts := []string{
				fmt.Sprintf("insert { k: %d, v: 'v%d' } into %s", key, r.Intn(5), tbl),
				fmt.Sprintf("insert { k: %d, v: '%s' } into %s", key, strings.Repeat("x", r.Intn(9000)), tbl),
				fmt.Sprintf("update %s where k = %d set v = 'u%d'", tbl, 1+r.Intn(12), i),
				fmt.Sprintf("delete %s where k = %d", tbl, 1+r.Intn(12)),
				fmt.Sprintf("insert { k: %d, v: 'dup' } into %s", 1+r.Intn(5), tbl),
				"insert { k: 1 } into nosuch",
			}
			t := liveTran(r.Intn(8) != 0)
			ops = append(ops, vcsOp{kind: "Action", a: t, s: acts[r.Intn(len(acts))]})
		case c < 14:
			ops = append(ops, vcsOp{kind: []string{"ReadCount", "WriteCount"}[r.Intn(2)], a: liveTran(false)})
		case c < 18:
			t := liveTran(false)
			ops = append(ops, vcsOp{kind: "Query", a: t, s: queries[r.Intn(len(queries))]})
			// a failed Query creates no handle on either side: the script only knows after the
			// fact, so query handles are addressed by creation order among *successful* ones
			qs = append(qs, qInfo{t, true})
		case c < 24:
			if q := liveQ(); q >= 0 {
				ops = append(ops, vcsOp{kind: "QGet", a: q, b: dirs[r.Intn(2)]})
			}
		case c < 26:
			ops = append(ops, vcsOp{kind: "TranGet", a: liveTran(false), b: one[r.Intn(4)], s: queries[r.Intn(len(queries))]})
		case c < 28:
			ops = append(ops, vcsOp{kind: "DbmsGet", b: one[r.Intn(4)], s: queries[r.Intn(len(queries))]})
		case c < 32:
			if q := liveQ(); q >= 0 {
				k := []string{"QHeader", "QKeys", "QOrder", "QStrategy", "QRewind", "QClose"}[r.Intn(6)]
				ops = append(ops, vcsOp{kind: k, a: q, b: r.Intn(2)})
				if k == "QClose" {
					qs[q].live = false
				}
			}
		case c < 33:
			if q := liveQ(); q >= 0 {
				key++
				ops = append(ops, vcsOp{kind: "QOutput", a: q, b: key, s: "out"})
			}
		case c < 34:
			ops = append(ops, vcsOp{kind: "Cursor", s: queries[r.Intn(4)]})
			curs = append(curs, true)
		case c < 36:
			if cu := liveCur(); cu >= 0 {
				ops = append(ops, vcsOp{kind: "CGet", a: cu, b: liveTran(false)})
			}
		case c < 37:
			// Update/Erase by record offset are not scripted: a stale or foreign offset is a
			// protocol misuse that trips assertions in the checker (not this property's subject);
			// updates and deletes go through Action
			ops = append(ops, vcsOp{kind: "Action", a: liveTran(true), s: fmt.Sprintf("update %s where k > %d set v = 'w%d'", tbl, r.Intn(12), i)})
		case c < 38:
			// schema changes of a table with open transactions race with them (exclusive access
			// is released asynchronously), so only other tables are created/dropped
			adm := []string{"sview sv" + tbl + " = " + tbl + " where k > 2", "sview sv" + tbl + " = " + tbl + " where k > 2", "drop sv" + tbl,
				"sview sw" + tbl + fmt.Sprint(i) + " = sv" + tbl + " extend z = 1",
				"create " + tbl + "y" + fmt.Sprint(i) + " (a, b) key(a) index(b)", "create " + tbl + "x" + fmt.Sprint(i) + " (a) key(a)", "drop nosuch", "bad admin"}
			ops = append(ops, vcsOp{kind: "Admin", s: adm[r.Intn(len(adm))]})
		default:
			k := []string{"Check", "Libraries", "LibGet", "Run", "Run", "Exec", "Exec", "Transactions", "Final", "CClose"}[r.Intn(10)]
			a := r.Intn(2)
			if k == "CClose" {
				a = liveCur()
				if a < 0 {
					continue
				}
				curs[a] = false
			}
			arg := []string{"Foo", "1 + 2 * 3", "'a' $ 'b'", "throw 'x'", "#(1, a: 2)", "#20200131", "function () { }", "class { }", "1 +", "x"}[r.Intn(10)]
			if k == "Exec" {
				arg = []string{"num", "str", "big", "obj", "fn", "class", "nil", "boom"}[r.Intn(8)]
			}
			ops = append(ops, vcsOp{kind: k, a: a, s: arg})
		}
	}
	// end every transaction so that the final states are comparable
	for i, t := range trans {
		if t.live {
			ops = append(ops, vcsOp{kind: "Abort", a: i})
		}
	}
	return ops
}

func vcsNewDb(tables []string) (*db19.Database, *DbmsLocal) {
	db := db19.CreateDb(stor.HeapStor(64 * 1024))
	db19.StartConcur(db, 50*time.Millisecond)
	qry.DoAdmin(db, "create stdlib (name, group, text) key(name, group)", nil)
	for _, t := range tables {
		qry.DoAdmin(db, "create "+t+" (k, v) key(k)", nil)
		ut := db.NewUpdateTran()
		for k := 1; k <= 10; k++ {
			qry.DoAction(&Thread{}, ut, fmt.Sprintf("insert { k: %d, v: 'v%d' } into %s", k, k%3, t))
		}
		ut.Commit()
	}
	return db, NewDbmsLocal(db)
}

func vcsDump(dl *DbmsLocal, tables []string) string {
	var sb strings.Builder
	t := dl.Transaction(false)
	defer t.Complete()
	th := &Thread{}
	for _, tb := range tables {
		q := t.Query(tb, nil)
		for {
			row, _ := q.Get(th, Next)
			if row == nil {
				break
			}
			fmt.Fprintf(&sb, "%s:%q\n", tb, string(row[0].Record))
		}
		q.Close()
	}
	return sb.String()
}

func TestVerifC40ClientServer(t *testing.T) {
	tr := lib.Open()
	defer tr.Close()
	r := lib.Rand()
	n := lib.N(6)
	options.BuiltDate = "Dec 29 2020 12:34"
	options.Action = "server"
	Exit = func(int) { select {} }
	db19.MakeSuTran = func(ut *db19.UpdateTran) *SuTran { return NewSuTran(nil, true) }
	qry.MakeSuTran = func(qt qry.QueryTran) *SuTran { return NewSuTran(nil, true) }
	workers = mux.NewWorkers(doRequest)
	Global.TestDef("VerifExec", compile.Constant(vcsExecFn))
	cert, err := tls.X509KeyPair(ServerCert, ServerKey)
	if err != nil {
		panic(err)
	}
	nfail := map[string]int{}
	var mu sync.Mutex
	fail := func(sig, desc string) {
		mu.Lock()
		defer mu.Unlock()
		nfail[sig]++
		tr.Count("F:" + sig)
		if nfail[sig] <= 3 {
			tr.Fail(sig, desc)
		}
	}
	for round := 0; round < n; round++ {
		nsess := 2 + r.Intn(3)
		var tables []string
		for s := 0; s < nsess; s++ {
			tables = append(tables, fmt.Sprintf("t%d", s))
		}
		_, dlA := vcsNewDb(tables)
		_, dlB := vcsNewDb(tables)
		GetDbms = func() IDbms { return dlA }
		p1, p2 := net.Pipe()
		go newServerConn(dlA, p1, &tls.Config{Certificates: []tls.Certificate{cert}})
		if msg := checkHello(p2); msg != "" {
			panic(msg)
		}
		p2.Write(hello())
		tc := tls.Client(p2, &tls.Config{InsecureSkipVerify: true})
		if err := tc.Handshake(); err != nil {
			panic(err)
		}
		client := NewDbmsClient(&vcsFrag{Conn: tc, r: rand.New(rand.NewSource(r.Int63()))})
		scripts := make([][]vcsOp, nsess)
		for s := range scripts {
			scripts[s] = vcsScript(rand.New(rand.NewSource(r.Int63())), tables[s], 60+r.Intn(60))
		}
		resA := make([][]string, nsess)
		resB := make([][]string, nsess)
		var wg sync.WaitGroup
		for s := 0; s < nsess; s++ {
			wg.Add(1)
			go func(s int) { // A: all sessions concurrently over the one connection
				defer wg.Done()
				ms := client.NewSession()
				sd := &vcsSide{own: tables[s], d: ms, ms: ms, th: &Thread{}, cols: []string{"k", "v", "w", "z", "count", "table"}}
				for i, op := range scripts[s] {
					resA[s] = append(resA[s], sd.exec(op))
					if sd.left != 0 {
						fail("cs-response-trailing-bytes:"+op.kind, fmt.Sprintf("round %d session %d request #%d %+v: the client stub left %d bytes of the response unread (result %q)", round, s, i, op, sd.left, vcsClip(resA[s][i])))
					}
				}
			}(s)
		}
		wg.Wait()
		for s := 0; s < nsess; s++ { // B: local
			th := &Thread{}
			sv := &Sviews{}
			th.SetSviews(sv)
			sd := &vcsSide{own: tables[s], d: dlB, sv: sv, th: th, cols: []string{"k", "v", "w", "z", "count", "table"}}
			for _, op := range scripts[s] {
				resB[s] = append(resB[s], sd.exec(op))
			}
		}
		for s := 0; s < nsess; s++ {
			for i, op := range scripts[s] {
				a, b := resA[s][i], resB[s][i]
				cls := "ok"
				if strings.HasPrefix(b, "!") {
					cls = "err"
				} else if b == "skip" {
					cls = "skip"
				}
				tr.Count("cs:" + op.kind + ":" + cls)
				if a != b {
					fail("cs-diff:"+op.kind, fmt.Sprintf("round %d session %d request #%d %+v: client/server %q, local %q", round, s, i, op, vcsClip(a), vcsClip(b)))
				}
			}
		}
		if a, b := vcsDump(dlA, tables), vcsDump(dlB, tables); a != b {
			fail("cs-diff:final-state", fmt.Sprintf("round %d: table contents differ after the same scripts (%d vs %d bytes)", round, len(a), len(b)))
		}
		// documented client-side restrictions
		ses := client.NewSession()
		if m := lib.Catch(func() { ses.DisableTrigger("t0") }); !strings.Contains(m, "can't be used by a client") {
			fail("cs-restriction:DisableTrigger", m)
		}
		if m := lib.Catch(func() { ses.Unuse("stdlib") }); !strings.Contains(m, "can't Unuse(") {
			fail("cs-restriction:Unuse", m)
		}
		if m := lib.Catch(func() { ses.Use("otherlib") }); !strings.Contains(m, "can't Use(") {
			fail("cs-restriction:Use", m)
		}
		tc.Close()
	}
}

func vcsClip(s string) string {
	if len(s) > 200 {
		return s[:200] + "…"
	}
	return s
}
