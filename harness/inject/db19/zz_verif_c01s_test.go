//go:build verif

package db19

// C01 suite "serial" (and the engine of the C07 suite "keys"): real UpdateTrans over a
// CheckerSync database.  Every Lookup, partial scan (both directions, every index) and every
// insert/update/delete outcome INCLUDING "duplicate key" errors is an observation; the committed
// transactions are replayed in commit order on a plain list-of-rows model that knows the schema;
// every observation must be what the serial replay gives (oracle 1).  After every commit, before
// any merge, a fresh read transaction is scanned on every index: no two live rows share a key /
// a non-empty unique value, all indexes list the same rows (oracle 2, C07).  No model replay.

import (
	"fmt"
	"math/rand"
	"sort"
	"strings"
	"testing"

	"github.com/apmckinlay/gsuneido/core"
	"github.com/apmckinlay/gsuneido/db19/index"
	"github.com/apmckinlay/gsuneido/db19/meta"
	"github.com/apmckinlay/gsuneido/db19/meta/schema"
	"github.com/apmckinlay/gsuneido/db19/stor"
	lib "github.com/apmckinlay/gsuneido/util/zzverif"
)

type c01sRow struct{ k, a, b string } // b is only used by the 3-column schema kind

func (r c01sRow) String() string {
	if r.b != "" {
		return fmt.Sprintf("%q=%q/%q", r.k, r.a, r.b)
	}
	return fmt.Sprintf("%q=%q", r.k, r.a)
}

type c01sOp struct {
	kind   string // look scan ins del upd
	row    c01sRow
	to     c01sRow // upd: new row
	ix     int
	fwd    bool
	limit  int
	obs    string
	hasRow bool
}

func (o c01sOp) String() string {
	switch o.kind {
	case "look":
		return fmt.Sprintf("look(%v)->%s", o.row, o.obs)
	case "scan":
		return fmt.Sprintf("scan(ix%d fwd=%v n=%d)->[%s]", o.ix, o.fwd, o.limit, o.obs)
	case "ins":
		return fmt.Sprintf("ins(%v)->%s", o.row, o.obs)
	case "del":
		return fmt.Sprintf("del(%v)->%s", o.row, o.obs)
	}
	return fmt.Sprintf("upd(%v=>%v)->%s", o.row, o.to, o.obs)
}

type c01sTran struct {
	ut   *UpdateTran
	ops  []c01sOp
	dead bool
	id   int
}

type c01sSchema struct {
	kind int // 0 key(k) index(a); 1 key(k) unique(a); 2 key(k,a) index(a); 3 key() index(k); 4 (k,a,b) key(k) unique(a,b)
	ts   *meta.Schema
}

var c01sKinds = []string{"key(k)+index(a)", "key(k)+unique(a)", "key(k,a)+index(a)", "key()+index(k)", "key(k)+unique(a,b)"}

func c01sMakeSchema(kind int) *schema.Schema {
	var ixs []schema.Index
	switch kind {
	case 0:
		ixs = []schema.Index{{Mode: 'k', Columns: []string{"k"}}, {Mode: 'i', Columns: []string{"a"}}}
	case 1:
		ixs = []schema.Index{{Mode: 'k', Columns: []string{"k"}}, {Mode: 'u', Columns: []string{"a"}}}
	case 2:
		ixs = []schema.Index{{Mode: 'k', Columns: []string{"k", "a"}}, {Mode: 'i', Columns: []string{"a"}}}
	case 3:
		ixs = []schema.Index{{Mode: 'k', Columns: []string{}}, {Mode: 'i', Columns: []string{"k"}}}
	case 4:
		ixs = []schema.Index{{Mode: 'k', Columns: []string{"k"}}, {Mode: 'u', Columns: []string{"a", "b"}}}
		return &schema.Schema{Table: "t", Columns: []string{"k", "a", "b"}, Indexes: ixs}
	}
	return &schema.Schema{Table: "t", Columns: []string{"k", "a"}, Indexes: ixs}
}

func c01sRec(r c01sRow) core.Record {
	var b core.RecordBuilder
	b.Add(core.SuStr(r.k))
	b.Add(core.SuStr(r.a))
	if r.b != "" {
		b.Add(core.SuStr(r.b))
	}
	return b.Build()
}

// sameKey: do two rows collide on the key index of this schema kind
func (s *c01sSchema) sameKey(x, y c01sRow) bool {
	switch s.kind {
	case 0, 1, 4:
		return x.k == y.k
	case 2:
		return x.k == y.k && x.a == y.a
	}
	return true // key(): any two rows collide
}

// emptyKey: is the key value of the row empty (finding 1 territory)
func (s *c01sSchema) emptyKey(x c01sRow) bool {
	switch s.kind {
	case 0, 1, 4:
		return x.k == ""
	case 2:
		return x.k == "" && x.a == ""
	}
	return true
}

// sameUnique: do two rows share a non-empty value of the unique index (kinds 1 and 4).
// A composite value is empty only when ALL its columns are empty.
func (s *c01sSchema) sameUnique(x, y c01sRow) bool {
	switch s.kind {
	case 1:
		return x.a != "" && x.a == y.a
	case 4:
		return (x.a != "" || x.b != "") && x.a == y.a && x.b == y.b
	}
	return false
}

type c01sModel struct {
	s    *c01sSchema
	rows []c01sRow
}

func (m *c01sModel) clone() *c01sModel {
	return &c01sModel{s: m.s, rows: append([]c01sRow(nil), m.rows...)}
}

func (m *c01sModel) find(x c01sRow) int {
	for i, r := range m.rows {
		if m.s.sameKey(r, x) {
			return i
		}
	}
	return -1
}

// dup: would adding row x (ignoring row index skip) violate key / unique
func (m *c01sModel) dup(x c01sRow, skip int, checkKey, checkUniq bool) bool {
	for i, r := range m.rows {
		if i == skip {
			continue
		}
		if checkKey && m.s.sameKey(r, x) {
			return true
		}
		if checkUniq && m.s.sameUnique(r, x) {
			return true
		}
	}
	return false
}

func (m *c01sModel) sorted(ix int) []c01sRow {
	rows := append([]c01sRow(nil), m.rows...)
	is := m.s.ts.Indexes[ix].Ixspec
	sort.SliceStable(rows, func(i, j int) bool {
		return is.Key(c01sRec(rows[i])) < is.Key(c01sRec(rows[j]))
	})
	return rows
}

func c01sShow(rows []c01sRow) string {
	ss := make([]string, len(rows))
	for i, r := range rows {
		ss[i] = r.String()
	}
	return strings.Join(ss, ",")
}

func (m *c01sModel) replay(o *c01sOp) string {
	switch o.kind {
	case "look":
		if i := m.find(o.row); i >= 0 {
			return m.rows[i].String()
		}
		return "nil"
	case "scan":
		rows := m.sorted(o.ix)
		if !o.fwd {
			for i, j := 0, len(rows)-1; i < j; i, j = i+1, j-1 {
				rows[i], rows[j] = rows[j], rows[i]
			}
		}
		if len(rows) > o.limit {
			rows = rows[:o.limit]
		}
		return c01sShow(rows)
	case "ins":
		if m.dup(o.row, -1, true, true) {
			return "dup"
		}
		m.rows = append(m.rows, o.row)
		return "ok"
	case "del":
		i := m.find(o.row)
		if i < 0 {
			return "nil"
		}
		m.rows = append(m.rows[:i], m.rows[i+1:]...)
		return "ok"
	case "upd":
		i := m.find(o.row)
		if i < 0 {
			return "nil"
		}
		old := m.rows[i]
		if old == o.to {
			return "ok"
		}
		is := m.s.ts.Indexes
		keyCh := is[0].Ixspec.Key(c01sRec(old)) != is[0].Ixspec.Key(c01sRec(o.to))
		uniCh := is[1].Ixspec.Key(c01sRec(old)) != is[1].Ixspec.Key(c01sRec(o.to))
		if m.dup(o.to, i, keyCh, uniCh) {
			return "dup"
		}
		m.rows[i] = o.to
		return "ok"
	}
	panic("bad op")
}

var c01sVals = []string{"", "a", "b", "c", "a\x00"}

// c01sForce presets the choices of one operation (structured scenarios)
type c01sForce struct {
	kind    int // 0 look, 1 scan, 2 ins, 3 del, 4 upd
	row, to *c01sRow
	ix      int
	fwd     bool
	limit   int
}

type c01sCfg struct {
	name    string
	collide bool // C07: few key values, mostly inserts/updates
}

func c01sRun(t *testing.T, cfg c01sCfg) {
	MakeSuTran = func(ut *UpdateTran) *core.SuTran { return core.NewSuTran(nil, true) }
	tr := lib.Open()
	defer tr.Close()
	r := lib.Rand()
	n := lib.N(1500)
	defer func(a bool) { checkerAbortT1 = a }(checkerAbortT1)
	checkerAbortT1 = true // deterministic victim
	for h := 0; h < n; h++ {
		c01sHistory(tr, r, h, cfg)
	}
}

func TestVerifC01Serial(t *testing.T) { c01sRun(t, c01sCfg{name: "serial"}) }

func c01sScanAll(rt *ReadTran, ix int) []c01sRow {
	it := index.NewOverIter("t", ix)
	var out []c01sRow
	for it.Next(rt); !it.Eof(); it.Next(rt) {
		rec := rt.GetRecord(it.CurOff())
		out = append(out, c01sRow{rec.GetStr(0), rec.GetStr(1), rec.GetStr(2)})
		if len(out) > 1000 {
			break
		}
	}
	return out
}

func c01sHistory(tr *lib.Trace, r *rand.Rand, h int, cfg c01sCfg) {
	pre := cfg.name + "."
	db := CreateDb(stor.HeapStor(256 * 1024))
	db.CheckerSync()
	ck := db.ck.(*Check)
	sc := &c01sSchema{kind: r.Intn(5)}
	db.Create(c01sMakeSchema(sc.kind))
	db.Create(&schema.Schema{Table: "u", Columns: []string{"k"},
		Indexes: []schema.Index{{Mode: 'k', Columns: []string{"k"}}}}) // only for unrelated commits
	tr.Count(pre + "schema=" + c01sKinds[sc.kind])
	nvals := len(c01sVals)
	if cfg.collide {
		nvals = 1 + r.Intn(3) // "", a, b
	}
	val := func() string { return c01sVals[r.Intn(nvals)] }
	valAB := func() string { return []string{"", "x", "y"}[r.Intn(2+r.Intn(2))] } // composite unique columns
	committed := &c01sModel{s: sc}
	var log []*c01sTran
	var open []*c01sTran
	nid := 0
	pending := 0
	emptyInvolved := sc.kind == 3
	desc := func(sts ...*c01sTran) string {
		var sb strings.Builder
		fmt.Fprintf(&sb, "history %d schema %s;", h, c01sKinds[sc.kind])
		for _, st := range sts {
			fmt.Fprintf(&sb, " ut#%d(start %d):%v", st.id, st.ut.ct.start, st.ops)
		}
		return sb.String()
	}
	suffix := func(involved bool) string {
		if involved {
			return "-emptykey"
		}
		return ""
	}
	safely := func(st *c01sTran, f func()) (dup bool) {
		defer func() {
			if e := recover(); e != nil {
				s := fmt.Sprint(e)
				if strings.Contains(s, "duplicate key") {
					dup = true
					tr.Count(pre + "outcome.dup")
					return
				}
				st.dead = true
				switch {
				case strings.Contains(s, "conflict"):
					tr.Count(pre + "killed.conflict")
				case strings.Contains(s, "transaction aborted"), strings.Contains(s, "already ended"):
					tr.Count(pre + "killed.aborted")
				default:
					tr.Count(pre + "killed.other")
					tr.Fail("serial-panic"+suffix(emptyInvolved), fmt.Sprintf("%s: panic %q", desc(st), s))
				}
			}
		}()
		f()
		return false
	}
	abandoned := false
	doOp := func(st *c01sTran, f *c01sForce) {
		if st.dead {
			return
		}
		ut := st.ut
		if sc.ts == nil {
			sc.ts = ut.getSchema("t")
		}
		row := c01sRow{k: val(), a: val()}
		if sc.kind == 4 {
			row.a, row.b = valAB(), valAB()
		}
		if f != nil && f.row != nil {
			row = *f.row
		}
		if sc.emptyKey(row) {
			emptyInvolved = true
		}
		key := sc.ts.Indexes[0].Ixspec.Key(c01sRec(row))
		// op kind: 0 look, 1 scan, 2 ins, 3 del, 4 upd
		c := []int{0, 0, 1, 1, 2, 2, 2, 3, 3, 4, 4, 4}[r.Intn(12)]
		if cfg.collide {
			c = []int{0, 1, 2, 2, 2, 2, 2, 3, 4, 4, 4, 4}[r.Intn(12)]
		}
		if f != nil {
			c = f.kind
		}
		lookup := func() (c01sRow, uint64, bool) {
			dr := ut.Lookup("t", 0, key)
			if dr == nil {
				return c01sRow{}, 0, false
			}
			return c01sRow{dr.Record.GetStr(0), dr.Record.GetStr(1), dr.Record.GetStr(2)}, dr.Off, true
		}
		switch {
		case c == 0: // lookup
			safely(st, func() {
				obs := "nil"
				if x, _, ok := lookup(); ok {
					obs = x.String()
				}
				st.ops = append(st.ops, c01sOp{kind: "look", row: row, obs: obs})
			})
			tr.Count(pre + "op.look")
		case c == 1: // partial scan
			safely(st, func() {
				o := c01sOp{kind: "scan", ix: r.Intn(2), fwd: r.Intn(2) == 0, limit: 1 + r.Intn(4)}
				if f != nil && f.limit > 0 {
					o.ix, o.fwd, o.limit = f.ix, f.fwd, f.limit
				}
				it := index.NewOverIter("t", o.ix)
				var out []c01sRow
				for len(out) < o.limit {
					if o.fwd {
						it.Next(ut)
					} else {
						it.Prev(ut)
					}
					if it.Eof() {
						break
					}
					rec := ut.GetRecord(it.CurOff())
					out = append(out, c01sRow{rec.GetStr(0), rec.GetStr(1), rec.GetStr(2)})
				}
				o.obs = c01sShow(out)
				st.ops = append(st.ops, o)
			})
			tr.Count(pre + "op.scan")
		case c == 2: // insert
			o := c01sOp{kind: "ins", row: row, obs: "ok"}
			if safely(st, func() { ut.Output(nil, "t", c01sRec(row)) }) {
				o.obs = "dup"
			}
			if !st.dead {
				st.ops = append(st.ops, o)
			}
			tr.Count(pre + "op.ins")
		case c == 3: // delete
			safely(st, func() {
				_, off, ok := lookup()
				if !ok {
					st.ops = append(st.ops, c01sOp{kind: "del", row: row, obs: "nil"})
					return
				}
				ut.Delete(nil, "t", off)
				st.ops = append(st.ops, c01sOp{kind: "del", row: row, obs: "ok"})
			})
			tr.Count(pre + "op.del")
		default: // update, often changing the key
			to := c01sRow{k: row.k, a: val()}
			if sc.kind == 4 {
				to.a, to.b = valAB(), valAB()
			}
			if r.Intn(2) == 0 {
				to.k = val()
			}
			if f != nil && f.to != nil {
				to = *f.to
			}
			if sc.emptyKey(to) {
				emptyInvolved = true
			}
			o := c01sOp{kind: "upd", row: row, to: to}
			var off uint64
			var ok bool
			safely(st, func() { _, off, ok = lookup() })
			if st.dead {
				return
			}
			if !ok {
				o.obs = "nil"
			} else if safely(st, func() { ut.Update(nil, "t", off, c01sRec(to)) }) {
				o.obs = "dup"
			} else {
				o.obs = "ok"
			}
			if !st.dead {
				st.ops = append(st.ops, o)
			}
			tr.Count(pre + "op.upd")
		}
	}
	// oracle 2 (C07): after every commit
	checkState := func(last *c01sTran) bool {
		rt := db.NewReadTran()
		var rows0 []c01sRow
		var listings [][]c01sRow
		ok := true
		for ix := 0; ix < 2; ix++ {
			rows := c01sScanAll(rt, ix)
			sorted := append([]c01sRow(nil), rows...)
			sort.Slice(sorted, func(i, j int) bool {
				return sorted[i].k < sorted[j].k || sorted[i].k == sorted[j].k && sorted[i].a < sorted[j].a
			})
			listings = append(listings, sorted)
			if ix == 0 {
				rows0 = sorted
			} else if fmt.Sprint(sorted) != fmt.Sprint(rows0) {
				tr.Fail("index-mismatch"+suffix(emptyInvolved), fmt.Sprintf("%s: after commit of ut#%d index 0 lists %v, index 1 lists %v",
					desc(log...), last.id, rows0, sorted))
				ok = false
			}
		}
		// duplicates among the rows any index lists (a duplicate key can hide one of the rows
		// from the key index itself)
		for _, rows := range listings {
			found := false
			for i := range rows {
				for j := i + 1; j < len(rows) && !found; j++ {
					if sc.sameKey(rows[i], rows[j]) {
						sig := "dup-key"
						if sc.emptyKey(rows[i]) {
							sig = "dup-key-empty"
						}
						tr.Fail(sig, fmt.Sprintf("%s: after commit of ut#%d two live rows share the key: %v and %v",
							desc(log...), last.id, rows[i], rows[j]))
						ok, found = false, true
					} else if sc.sameUnique(rows[i], rows[j]) {
						tr.Fail("dup-unique", fmt.Sprintf("%s: after commit of ut#%d two live rows share unique value: %v and %v",
							desc(log...), last.id, rows[i], rows[j]))
						ok, found = false, true
					}
				}
			}
			if found {
				break
			}
		}
		if n := rt.GetInfo("t").Nrows; n != len(rows0) {
			tr.Fail("nrows-mismatch"+suffix(emptyInvolved), fmt.Sprintf("%s: after commit of ut#%d Nrows=%d but %d rows listed",
				desc(log...), last.id, n, len(rows0)))
			ok = false
		}
		return ok
	}
	commit := func(st *c01sTran) {
		if st.dead {
			st.ut.Abort()
			return
		}
		tables := ck.commit(st.ut)
		if tables == nil {
			tr.Count(pre + "commit.gone")
			return
		}
		if len(tables) > 0 {
			log = append(log, st)
			if msg := lib.Catch(func() { st.ut.commit() }); msg != "" {
				tr.Fail("commit-panic"+suffix(emptyInvolved), fmt.Sprintf("%s: commit of ut#%d panics: %s", desc(log...), st.id, msg))
				abandoned = true
				return
			}
			pending++
			tr.Count(pre + "commit.update")
			ok := false
			if msg := lib.Catch(func() { ok = checkState(st) }); msg != "" {
				tr.Fail("scan-panic"+suffix(emptyInvolved), fmt.Sprintf("%s: scanning the committed state after ut#%d panics: %s", desc(log...), st.id, msg))
			}
			if !ok {
				abandoned = true
			}
		} else {
			tr.Count(pre + "commit.readonly")
		}
	}
	// structured prefix (1 history in 8): the table is made exclusive, as Ensure / AlterCreate do
	// around an index build; unrelated transactions on another table commit (each the only active
	// update transaction); then a new transaction writes to the exclusive table: it must be refused.
	if r.Intn(8) == 0 {
		tr.Count(pre + "scenario.exclusive")
		if ck.AddExclusive("t") {
			for i := 1 + r.Intn(2); i > 0; i-- {
				u := db.NewUpdateTran()
				var b core.RecordBuilder
				b.Add(core.SuStr(fmt.Sprint("u", h, i)))
				if lib.Catch(func() { u.Output(nil, "u", b.Build()) }) != "" {
					u.Abort()
				} else if r.Intn(3) == 0 {
					u.Abort()
				} else if tables := ck.commit(u); len(tables) > 0 {
					u.commit()
				}
			}
			for i := 1 + r.Intn(2); i > 0; i-- {
				nid++
				w := &c01sTran{ut: db.NewUpdateTran(), id: nid}
				x := c01sRow{k: val(), a: val()}
				accepted := false
				msg := lib.Catch(func() { w.ut.Output(nil, "t", c01sRec(x)); accepted = true })
				if accepted {
					tr.Fail("exclusive-write", fmt.Sprintf("history %d schema %s: table t is exclusive (AddExclusive, as during an index build); "+
						"after unrelated commits on table u, ut#%d (start %d) inserts %v into t and is accepted",
						h, c01sKinds[sc.kind], w.id, w.ut.ct.start, x))
				} else if !strings.Contains(msg, "exclusive") {
					tr.Count(pre + "scenario.exclusive.other-refusal")
				} else {
					tr.Count(pre + "scenario.exclusive.refused")
				}
				w.ut.Abort()
			}
			ck.EndExclusive("t")
		}
	}
	// structured prefix (1 history in 4): some committed rows, then a reader that scans / looks up
	// on the secondary index and writes something else, and a writer that inserts, deletes, or
	// updates a row KEEPING its key while moving its secondary-index value; reads before or after
	// the write; both commit, in either order.  Random but for the shape.
	if r.Intn(4) == 0 && sc.kind != 3 {
		tr.Count(pre + "scenario.skew")
		newTran := func() *c01sTran {
			nid++
			return &c01sTran{ut: db.NewUpdateTran(), id: nid}
		}
		wide := []string{"", "a", "b", "c", "a\x00", "d", "e", "f", "g"}
		mkrow := func() c01sRow {
			x := c01sRow{k: wide[r.Intn(len(wide))], a: wide[r.Intn(len(wide))]}
			if sc.kind == 4 {
				x.a, x.b = valAB(), valAB()
			}
			return x
		}
		seed := newTran()
		var have []c01sRow
		for i := 3 + r.Intn(5); i > 0; i-- {
			x := mkrow()
			doOp(seed, &c01sForce{kind: 2, row: &x})
			if n := len(seed.ops); n > 0 && seed.ops[n-1].obs == "ok" && seed.ops[n-1].row == x {
				have = append(have, x)
			}
		}
		commit(seed)
		if len(have) > 0 && !abandoned {
			rd, wr := newTran(), newTran()
			steps := []func(){
				func() {
					if r.Intn(4) == 0 {
						x := mkrow()
						doOp(rd, &c01sForce{kind: 0, row: &x})
					} else {
						doOp(rd, &c01sForce{kind: 1, ix: 1, fwd: r.Intn(2) == 0, limit: 1 + r.Intn(2)})
					}
				},
				func() { x := mkrow(); doOp(rd, &c01sForce{kind: 2, row: &x}) },
				func() {
					old := have[r.Intn(len(have))]
					switch r.Intn(4) {
					case 0:
						x := mkrow()
						doOp(wr, &c01sForce{kind: 2, row: &x})
					case 1:
						doOp(wr, &c01sForce{kind: 3, row: &old})
					default:
						to := mkrow()
						to.k = old.k
						doOp(wr, &c01sForce{kind: 4, row: &old, to: &to})
					}
				},
			}
			r.Shuffle(len(steps), func(i, j int) { steps[i], steps[j] = steps[j], steps[i] })
			for _, f := range steps {
				f()
			}
			if r.Intn(2) == 0 {
				rd, wr = wr, rd
			}
			commit(rd)
			if !abandoned {
				commit(wr)
			}
			inLog := 0
			for _, st := range log {
				if st == rd || st == wr {
					inLog++
				}
			}
			tr.Count(fmt.Sprintf(pre+"scenario.skew.committed-updates=%d", inLog))
		}
	}
	nsteps := 20 + r.Intn(40)
	maxOpen := 2 + r.Intn(4)
	for step := 0; step < nsteps && !abandoned; step++ {
		c := r.Intn(10)
		switch {
		case (c < 2 || len(open) == 0) && len(open) < maxOpen:
			nid++
			open = append(open, &c01sTran{ut: db.NewUpdateTran(), id: nid})
		case c < 7 && len(open) > 0:
			doOp(open[r.Intn(len(open))], nil)
		case c < 9 && len(open) > 0:
			i := r.Intn(len(open))
			commit(open[i])
			open = append(open[:i], open[i+1:]...)
		case pending > 0:
			merges := &mergeList{}
			merges.tn = []tableCount{{table: "t", nmerge: pending}}
			if msg := lib.Catch(func() { db.Merge(mergeSingle, merges) }); msg != "" {
				tr.Fail("merge-panic"+suffix(emptyInvolved), fmt.Sprintf("%s: merge of committed layers panics: %s", desc(log...), msg))
				abandoned = true
			}
			pending = 0
			tr.Count(pre + "merge")
		}
	}
	for _, st := range open {
		st.ut.Abort()
	}
	// oracle 1: serial replay in commit order
	for _, st := range log {
		m := committed.clone()
		for i := range st.ops {
			o := &st.ops[i]
			got := m.replay(o)
			if got != o.obs {
				sig := "serial-read"
				switch {
				case (o.kind == "ins" || o.kind == "upd") && o.obs == "dup":
					sig = "serial-dup-observation"
				case o.kind == "ins" || o.kind == "upd" || o.kind == "del":
					sig = "serial-write-outcome"
				}
				emp := sc.kind == 3 || sc.emptyKey(o.row) || (o.kind == "upd" && sc.emptyKey(o.to))
				if o.kind == "scan" {
					emp = sc.kind == 3 || strings.HasPrefix(o.obs, `""=`) || strings.Contains(o.obs, `,""=`) ||
						strings.HasPrefix(got, `""=`) || strings.Contains(got, `,""=`)
				}
				tr.Fail(sig+suffix(emp), fmt.Sprintf("%s: op %d of ut#%d %v observed %q but serial replay in commit order gives %q; committed before: %v",
					desc(log...), i, st.id, *o, o.obs, got, committed.rows))
				return
			}
		}
		committed = m
	}
	if abandoned {
		tr.Count(pre + "abandoned")
		return
	}
	var got []c01sRow
	if msg := lib.Catch(func() { got = c01sScanAll(db.NewReadTran(), 0) }); msg != "" {
		tr.Fail("scan-panic"+suffix(emptyInvolved), fmt.Sprintf("%s: final scan panics: %s", desc(log...), msg))
		return
	}
	exp := committed.sorted(0)
	if c01sShow(got) != c01sShow(exp) {
		tr.Fail("serial-final"+suffix(emptyInvolved), fmt.Sprintf("%s: final rows %v but serial replay gives %v", desc(log...), got, exp))
	}
	tr.Count(fmt.Sprintf(pre+"committed-updates=%d", min(len(log), 6)))
}
