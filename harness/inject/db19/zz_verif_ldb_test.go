//go:build verif

package db19

// Shared by the C08 (foreign keys) and C44 (triggers) suites: schema shapes, history
// generator, the trace for the Lean model Gsu.Model.LDb (driver protocol in
// lean/Gsu/Model/LDbDrive.lean) and the direct oracles.

import (
	"fmt"
	"math/rand"
	"sort"
	"strings"
	"time"

	"github.com/apmckinlay/gsuneido/core"
	"github.com/apmckinlay/gsuneido/db19/index"
	"github.com/apmckinlay/gsuneido/db19/meta/schema"
	"github.com/apmckinlay/gsuneido/db19/stor"
	lib "github.com/apmckinlay/gsuneido/util/zzverif"
)

type vFk struct {
	table, index int
	mode         byte
}

type vIndex struct {
	mode byte // 'k' 'i' 'u'
	cols []int
	fk   *vFk
}

type vTable struct {
	ncols int
	idxs  []vIndex
}

type vSchema struct {
	name   string
	tables []vTable
}

func vTname(t int) string { return fmt.Sprint("t", t) }
func vCname(c int) string { return fmt.Sprint("c", c) }

func vCols(cs []int) []string {
	out := make([]string, len(cs))
	for i, c := range cs {
		out[i] = vCname(c)
	}
	return out
}

var vModes = []byte{schema.Block, schema.CascadeUpdates, schema.Cascade}

func vModeName(m byte) string {
	return map[byte]string{schema.Block: "block", schema.CascadeUpdates: "cascade-update",
		schema.Cascade: "cascade"}[m]
}

// vShapes: the schema shapes of the generator; fk modes are chosen at random per history
func vShape(r *rand.Rand) vSchema {
	m := func() byte { return vModes[r.Intn(len(vModes))] }
	k := func(cols ...int) vIndex { return vIndex{mode: 'k', cols: cols} }
	fk := func(mode byte, cols []int, t, i int) vIndex {
		return vIndex{mode: mode, cols: cols, fk: &vFk{t, i, m()}}
	}
	switch r.Intn(8) {
	case 0: // composite key target, composite fk
		return vSchema{"composite", []vTable{
			{3, []vIndex{k(0, 1)}},
			{3, []vIndex{k(0), fk('i', []int{1, 2}, 0, 0)}}}}
	case 1: // self-referencing
		return vSchema{"self", []vTable{
			{3, []vIndex{k(0), fk('i', []int{1}, 0, 0)}}}}
	case 2: // chain: the fk source of t1 is its key, which t2 references
		return vSchema{"chain", []vTable{
			{2, []vIndex{k(0)}},
			{2, []vIndex{fk('k', []int{0}, 0, 0)}},
			{2, []vIndex{k(0), fk('i', []int{1}, 1, 0)}}}}
	case 3: // two sources (one through a unique index) with independent modes
		return vSchema{"two-sources", []vTable{
			{2, []vIndex{k(0)}},
			{2, []vIndex{k(0), fk('i', []int{1}, 0, 0)}},
			{2, []vIndex{k(0), fk('u', []int{1}, 0, 0)}}}}
	case 4: // self-referencing with a child table
		return vSchema{"self+child", []vTable{
			{2, []vIndex{k(0), fk('i', []int{1}, 0, 0)}},
			{2, []vIndex{k(0), fk('i', []int{1}, 0, 0)}}}}
	case 5: // one target key referenced through an encoded index (earlier link) AND a raw single-column key (later link)
		return vSchema{"mixed-sources", []vTable{
			{2, []vIndex{k(0)}},
			{2, []vIndex{k(0), fk('i', []int{1}, 0, 0)}},
			{2, []vIndex{fk('k', []int{0}, 0, 0)}}}}
	case 6: // fan + chain: a cascade over several referencing rows whose last step can be refused deeper down
		return vSchema{"fan+chain", []vTable{
			{2, []vIndex{k(0)}},
			{2, []vIndex{k(0), fk('i', []int{1}, 0, 0)}},
			{2, []vIndex{fk('k', []int{0}, 0, 0)}},
			{2, []vIndex{k(0), fk('i', []int{1}, 2, 0)}}}}
	default: // single column
		return vSchema{"simple", []vTable{
			{2, []vIndex{k(0)}},
			{3, []vIndex{k(0), fk('i', []int{1}, 0, 0)}}}}
	}
}

// vSpec is the schema as the `reset` op of the model driver reads it
func (s vSchema) vSpec() string {
	var sb strings.Builder
	sb.WriteString("reset")
	for _, tb := range s.tables {
		fmt.Fprintf(&sb, " %d", tb.ncols)
		for _, ix := range tb.idxs {
			cs := make([]string, len(ix.cols))
			for i, c := range ix.cols {
				cs[i] = fmt.Sprint(c)
			}
			f := "-"
			if ix.fk != nil {
				f = fmt.Sprintf("%d.%d.%d", ix.fk.table, ix.fk.index, ix.fk.mode)
			}
			fmt.Fprintf(&sb, "/%d:%s:%s", map[byte]int{'k': 0, 'i': 1, 'u': 2}[ix.mode],
				strings.Join(cs, "."), f)
		}
	}
	return sb.String()
}

func (s vSchema) create(db *Database) {
	for t, tb := range s.tables {
		cols := make([]int, tb.ncols)
		for i := range cols {
			cols[i] = i
		}
		sc := &schema.Schema{Table: vTname(t), Columns: vCols(cols)}
		for _, ix := range tb.idxs {
			si := schema.Index{Mode: ix.mode, Columns: vCols(ix.cols)}
			if ix.fk != nil {
				si.Fk = schema.Fkey{Table: vTname(ix.fk.table),
					Columns: vCols(s.tables[ix.fk.table].idxs[ix.fk.index].cols), Mode: ix.fk.mode}
			}
			sc.Indexes = append(sc.Indexes, si)
		}
		db.Create(sc)
	}
}

// vRawSafe: values with zero bytes (encoded form differs from the raw form) such that no value
// lies in the raw range [v, v\0\0\xff…] of another one (KF-C08-2: a single-column key used as
// foreign key source is iterated by a range on the unencoded key)
var vRawSafe = []string{"", "", "a", "b", "\x00", "a\x00b", "\x00\x01", "c\x00"}

func (s vSchema) hasRawSource() bool {
	for _, tb := range s.tables {
		for _, ix := range tb.idxs {
			if ix.fk != nil && ix.mode == 'k' && len(ix.cols) == 1 {
				return true
			}
		}
	}
	return false
}

type vRow []string

func (r vRow) String() string {
	parts := make([]string, len(r))
	for i, f := range r {
		parts[i] = lib.X(f)
	}
	return strings.Join(parts, ",")
}

func vProj(r vRow, cols []int) string {
	parts := make([]string, len(cols))
	for i, c := range cols {
		parts[i] = lib.X(r[c])
	}
	return strings.Join(parts, ",")
}

func vEmpty(r vRow, cols []int) bool {
	for _, c := range cols {
		if r[c] != "" {
			return false
		}
	}
	return true
}

// vHarness runs histories against one database
type vHarness struct {
	tr     *lib.Trace
	r      *rand.Rand
	raw    bool // rows hold raw bytes (AddRaw) instead of packed strings
	sch    vSchema
	db     *Database
	th     *core.Thread
	alpha  []string
	failed bool // an F line was written for this history
	emptyKeyUpd bool // a target row with an all-empty key was given a non-empty key
	corrupt bool // an index oracle failed: do not Close (persist would panic)
}

func (h *vHarness) mkrec(r vRow) core.Record {
	var b core.RecordBuilder
	for _, f := range r {
		if h.raw {
			b.AddRaw(f)
		} else {
			b.Add(core.SuStr(f))
		}
	}
	return b.Trim().Build()
}

func (h *vHarness) field(rec core.Record, i int) string {
	if h.raw {
		return rec.GetRaw(i)
	}
	return rec.GetStr(i)
}

type vReader interface {
	GetIndexI(table string, iIndex int) *index.Overlay
	Read(table string, iIndex int, from, to string)
	Num() int
	GetRecord(off uint64) core.Record
}

type vLive struct {
	row vRow
	off uint64
}

func (h *vHarness) scan(rt vReader, t int) []vLive {
	var out []vLive
	it := index.NewOverIter(vTname(t), 0)
	for it.Next(rt); !it.Eof(); it.Next(rt) {
		rec := rt.GetRecord(it.CurOff())
		row := make(vRow, h.sch.tables[t].ncols)
		for i := range row {
			row[i] = h.field(rec, i)
		}
		out = append(out, vLive{row, it.CurOff()})
	}
	return out
}

// scanIdx returns the rows as index i sees them (sorted text), to compare the indexes of a table
func (h *vHarness) scanIdx(rt vReader, t, i int) string {
	var out []string
	it := index.NewOverIter(vTname(t), i)
	for it.Next(rt); !it.Eof(); it.Next(rt) {
		rec := rt.GetRecord(it.CurOff())
		row := make(vRow, h.sch.tables[t].ncols)
		for j := range row {
			row[j] = h.field(rec, j)
		}
		out = append(out, row.String())
	}
	sort.Strings(out)
	return strings.Join(out, " ")
}

func (h *vHarness) snapshot(rt vReader) [][]vLive {
	out := make([][]vLive, len(h.sch.tables))
	for t := range h.sch.tables {
		out[t] = h.scan(rt, t)
	}
	return out
}

func vStateText(snap [][]vLive) string {
	tabs := make([]string, len(snap))
	for t, rows := range snap {
		ss := make([]string, len(rows))
		for i, l := range rows {
			ss[i] = l.row.String()
		}
		sort.Strings(ss)
		tabs[t] = strings.Join(ss, " ")
	}
	return strings.Join(tabs, " | ")
}

// dangling returns a description of the first non-empty foreign key value without a target row
func (h *vHarness) dangling(snap [][]vLive) (desc string, mode byte, target int) {
	for s, tb := range h.sch.tables {
		for _, ix := range tb.idxs {
			if ix.fk == nil {
				continue
			}
			tcols := h.sch.tables[ix.fk.table].idxs[ix.fk.index].cols
			have := map[string]bool{}
			for _, l := range snap[ix.fk.table] {
				have[vProj(l.row, tcols)] = true
			}
			for _, l := range snap[s] {
				if !vEmpty(l.row, ix.cols) && !have[vProj(l.row, ix.cols)] {
					return fmt.Sprintf("row %s of %s: foreign key (%s) in %s (%s) has no target row",
						l.row, vTname(s), vProj(l.row, ix.cols), vTname(ix.fk.table), vModeName(ix.fk.mode)), ix.fk.mode, ix.fk.table
				}
			}
		}
	}
	return "", 0, 0
}

func (h *vHarness) value() string { return h.alpha[h.r.Intn(len(h.alpha))] }

// newRow: random row; foreign key columns mostly copy an existing target key
func (h *vHarness) newRow(t int, snap [][]vLive, base vRow) vRow {
	tb := h.sch.tables[t]
	row := make(vRow, tb.ncols)
	if base != nil {
		copy(row, base)
		n := 1 + h.r.Intn(2)
		for i := 0; i < n; i++ {
			row[h.r.Intn(tb.ncols)] = h.value()
		}
	} else {
		for i := range row {
			row[i] = h.value()
		}
	}
	for _, ix := range tb.idxs {
		if ix.fk == nil || h.r.Intn(10) >= 6 {
			continue
		}
		if base != nil && h.r.Intn(2) == 0 {
			continue
		}
		tg := snap[ix.fk.table]
		if len(tg) == 0 {
			continue
		}
		trow := tg[h.r.Intn(len(tg))].row
		tcols := h.sch.tables[ix.fk.table].idxs[ix.fk.index].cols
		for j, c := range ix.cols {
			row[c] = trow[tcols[j]]
		}
	}
	return row
}

type vOp struct {
	kind     string // out del upd
	t        int
	old, new vRow
	off      uint64
}

func (o vOp) line() string {
	switch o.kind {
	case "out":
		return fmt.Sprintf("out %d %s", o.t, lib.Xs(o.new))
	case "del":
		return fmt.Sprintf("del %d %s", o.t, lib.Xs(o.old))
	}
	return fmt.Sprintf("upd %d %d %s %s", o.t, len(o.old), lib.Xs(o.old), lib.Xs(o.new))
}

func (h *vHarness) genOp(snap [][]vLive) vOp {
	t := h.r.Intn(len(h.sch.tables))
	k := h.r.Intn(10)
	if len(snap[t]) == 0 || k < 4 {
		return vOp{kind: "out", t: t, new: h.newRow(t, snap, nil)}
	}
	l := snap[t][h.r.Intn(len(snap[t]))]
	if k < 7 {
		if h.onCycle(snap, t, l.row) {
			// deleting a row that (transitively) references itself through cascading keys
			// recurses until writeMax (10000 nested deletes, ~1 s): keep these few
			if vCycBudget == 0 {
				return vOp{kind: "out", t: t, new: h.newRow(t, snap, nil)}
			}
			vCycBudget--
			h.tr.Count("delete-on-cascade-cycle")
		}
		return vOp{kind: "del", t: t, old: l.row, off: l.off}
	}
	op := vOp{kind: "upd", t: t, old: l.row, new: h.newRow(t, snap, l.row), off: l.off}
	if h.selfLoopKeyUpdate(op) {
		// changing the key of a row that references itself: see selfLoopUpdateProbe (C08 findings)
		h.tr.Count("skipped-self-loop-key-update")
		op.new = append(vRow{}, op.old...)
		op.new[len(op.new)-1] = h.value()
		if h.selfLoopKeyUpdate(op) {
			return vOp{kind: "out", t: t, new: h.newRow(t, snap, nil)}
		}
	}
	return op
}

// selfLoopKeyUpdate: the row references itself and the update changes the referenced key
func (h *vHarness) selfLoopKeyUpdate(op vOp) bool {
	for _, ix := range h.sch.tables[op.t].idxs {
		if ix.fk == nil || ix.fk.table != op.t {
			continue
		}
		tcols := h.sch.tables[op.t].idxs[ix.fk.index].cols
		if !vEmpty(op.old, ix.cols) && vProj(op.old, ix.cols) == vProj(op.old, tcols) &&
			vProj(op.old, tcols) != vProj(op.new, tcols) {
			return true
		}
	}
	return false
}

// classify maps a panic of a row operation to the outcome enum of the model
func vClassify(ut *UpdateTran, msg string) string {
	// Abort is queued to the checker goroutine; a synchronous request of the same
	// transaction (the queue keeps per-transaction order) makes the outcome deterministic
	ut.ReadCount()
	if ut.ct.Failed() {
		return "!abort"
	}
	switch {
	case strings.HasPrefix(msg, "duplicate key"):
		return "!dup"
	case strings.HasPrefix(msg, "output blocked by foreign key"):
		return "!fkout"
	case strings.HasPrefix(msg, "delete blocked by foreign key"):
		return "!fkdel"
	}
	return "!other:" + msg
}

func (h *vHarness) apply(ut *UpdateTran, op vOp) string {
	return lib.Catch(func() {
		switch op.kind {
		case "out":
			ut.Output(h.th, vTname(op.t), h.mkrec(op.new))
		case "del":
			ut.Delete(h.th, vTname(op.t), op.off)
		case "upd":
			ut.Update(h.th, vTname(op.t), op.off, h.mkrec(op.new))
		}
	})
}

func vOpen() *Database {
	db := CreateDb(stor.HeapStor(64 * 1024))
	StartConcur(db, time.Hour)
	return db
}


var vCycBudget = 3

// onCycle: does the cascade of deleting row reach row again?
func (h *vHarness) onCycle(snap [][]vLive, t int, row vRow) bool {
	type node struct {
		t   int
		key string
	}
	start := node{t, row.String()}
	seen := map[node]bool{}
	todo := []struct {
		t   int
		row vRow
	}{{t, row}}
	for len(todo) > 0 {
		cur := todo[len(todo)-1]
		todo = todo[:len(todo)-1]
		for i, ix := range h.sch.tables[cur.t].idxs {
			if vEmpty(cur.row, ix.cols) {
				continue
			}
			for s, stb := range h.sch.tables {
				for _, six := range stb.idxs {
					if six.fk == nil || six.fk.table != cur.t || six.fk.index != i || six.fk.mode&2 == 0 {
						continue
					}
					for _, l := range snap[s] {
						if vProj(l.row, six.cols) != vProj(cur.row, ix.cols) {
							continue
						}
						n := node{s, l.row.String()}
						if n == start {
							return true
						}
						if !seen[n] {
							seen[n] = true
							todo = append(todo, struct {
								t   int
								row vRow
							}{s, l.row})
						}
					}
				}
			}
		}
	}
	return false
}
