//go:build verif

package db19

// C12 (range-end helper): db19.rangeEnd against Gsu.Model.Ixkey.rangeEnd and the direct oracle
// "key <= k <= rangeEnd(key,n) iff the first n fields of k equal those of key".

import (
	"fmt"
	"math/rand"
	"strings"
	"testing"

	"github.com/apmckinlay/gsuneido/db19/index/ixkey"
	lib "github.com/apmckinlay/gsuneido/util/zzverif"
)

func TestVerifC12RangeEnd(t *testing.T) {
	tr := lib.Open()
	defer tr.Close()
	r := lib.Rand()
	n := lib.N(2000)
	alphabet := []byte{0, 1, 2, 0xff, 'a'}
	fld := func(r *rand.Rand) string {
		b := make([]byte, r.Intn(3))
		for i := range b {
			b[i] = alphabet[r.Intn(len(alphabet))]
		}
		return string(b)
	}
	for i := 0; i < n; i++ {
		nf := 2 + r.Intn(3)
		vals := make([]string, nf)
		for j := range vals {
			vals[j] = fld(r)
		}
		m := 1 + r.Intn(nf-1) // prefix length in fields
		// the prefix key as the callers build it: encoded, NOT trimmed of trailing empty fields
		var enc ixkey.Encoder
		for _, v := range vals[:m] {
			enc.Add(v)
		}
		pk := enc.String()
		re := rangeEnd(pk, m)
		tr.Q(fmt.Sprintf("rangeend %s %d", lib.X(pk), m), lib.X(re))
		tr.Count(fmt.Sprintf("prefixfields=%d", m))
		// oracle: a full key k is within [pk, re] iff its first m fields equal vals[:m]
		other := make([]string, nf)
		copy(other, vals)
		if r.Intn(2) == 0 {
			other[r.Intn(nf)] = fld(r)
		}
		k := ixkey.CompKey(other...)
		same := true
		for j := 0; j < m; j++ {
			if other[j] != vals[j] {
				same = false
			}
		}
		in := strings.Compare(pk, k) <= 0 && strings.Compare(k, re) <= 0
		if in != same {
			tr.Fail("rangeend", fmt.Sprintf("prefix %q (n=%d) rangeEnd %q key %q of %q: in-range=%v same-prefix=%v",
				pk, m, re, k, other, in, same))
		}
		if i < 2 {
			tr.Sample(fmt.Sprintf("prefix=%q n=%d rangeEnd=%q probe=%q", pk, m, re, k))
		}
	}
}
