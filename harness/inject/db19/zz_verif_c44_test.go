//go:build verif

package db19

// C44: triggers see every row change of their table.
// The history generator of C08 (same schema shapes, cascades included) with a Go-defined
// Trigger_<table> global per table: none / recording / recording and throwing when the row
// contains the field "!"; nested DisableTrigger/EnableTrigger between transactions.
// Every operation (outcome + the trigger calls it made) is replayed by the Lean model
// Gsu.Model.LDb; direct oracles on the implementation:
//   trigger-calls-differ:<op>        the calls made do not add up to the row changes of the table
//   trigger-while-disabled           a disabled (or undefined) trigger was called
//   trigger-wrong-tran               the trigger did not get the changing transaction
//   trigger-exception-committed      the trigger threw, the caller caught it and Complete() succeeded

import (
	"fmt"
	"sort"
	"strings"
	"testing"

	"github.com/apmckinlay/gsuneido/core"
	lib "github.com/apmckinlay/gsuneido/util/zzverif"
)

type vTrig struct {
	h       *vHarness
	kind    []int // per table
	dis     []int
	log     []string // calls of the current operation
	threw   bool
	made    *UpdateTran // last transaction passed to MakeSuTran
	cur     *UpdateTran
	wrongTr bool
	whileDis bool
}

func (g *vTrig) rowOf(t int, v core.Value) (vRow, bool) {
	if v == core.False {
		return nil, false
	}
	rec := v.(*core.SuRecord)
	row := make(vRow, g.h.sch.tables[t].ncols)
	for i := range row {
		x := rec.Get(g.h.th, core.SuStr(vCname(i)))
		if x != nil {
			row[i] = core.ToStr(x)
		}
	}
	return row, true
}

func (g *vTrig) define(t int) {
	name := "Trigger_" + vTname(t)
	if g.kind[t] == 0 {
		core.Global.TestDef(name, nil)
		core.Global.SetNoDef(name)
		return
	}
	fn := &core.SuBuiltin{Fn: func(th *core.Thread, args []core.Value) core.Value {
		if g.dis[t] != 0 {
			g.whileDis = true
		}
		if g.made != g.cur {
			g.wrongTr = true
		}
		old, hasOld := g.rowOf(t, args[1])
		nw, hasNew := g.rowOf(t, args[2])
		so, sn := "-", "-"
		if hasOld {
			so = old.String()
		}
		if hasNew {
			sn = nw.String()
		}
		g.log = append(g.log, fmt.Sprintf("%d:%s>%s", t, so, sn))
		bad := nw
		if !hasNew {
			bad = old
		}
		if g.kind[t] == 2 {
			for _, f := range bad {
				if f == "!" {
					g.threw = true
					panic("trigger says no")
				}
			}
		}
		return nil
	}, BuiltinParams: core.BuiltinParams{ParamSpec: core.ParamSpec{Nparams: 3,
		Flags: []core.Flag{0, 0, 0}, Names: []string{"t", "oldrec", "newrec"}}}}
	core.Global.TestDef(name, fn)
}

func TestVerifC44Triggers(t *testing.T) {
	tr := lib.Open()
	defer tr.Close()
	r := lib.Rand()
	n := lib.N(200)
	for hi := 0; hi < n; hi++ {
		h := &vHarness{tr: tr, r: r, raw: false, th: &core.Thread{},
			alpha: []string{"", "", "a", "b", "c", "d\x00", "ab", "!"}}
		h.sch = vShape(r)
		g := &vTrig{h: h, kind: make([]int, len(h.sch.tables)), dis: make([]int, len(h.sch.tables))}
		MakeSuTran = func(ut *UpdateTran) *core.SuTran { g.made = ut; return core.NewSuTran(nil, true) }
		h.db = vOpen()
		h.sch.create(h.db)
		tr.Q(h.sch.vSpec(), "ok")
		tr.Count("shape=" + h.sch.name)
		for t := range h.sch.tables {
			g.kind[t] = []int{0, 1, 1, 1, 2, 2}[r.Intn(6)]
			g.define(t)
			tr.Q(fmt.Sprintf("trig %d %d", t, g.kind[t]), "ok")
			tr.Count(fmt.Sprint("trigger-kind=", g.kind[t]))
		}
		g.run(hi)
		for t := range h.sch.tables { // leave the database's counters balanced
			for ; g.dis[t] > 0; g.dis[t]-- {
				h.db.EnableTrigger(vTname(t))
			}
		}
		if !h.corrupt {
			h.db.Close()
		}
	}
}

func vMultiset(xs []string) string {
	ys := append([]string{}, xs...)
	sort.Strings(ys)
	return strings.Join(ys, " ")
}

func (g *vTrig) run(hi int) {
	h := g.h
	tr := h.tr
	hist := h.sch.vSpec() + fmt.Sprint(" kinds=", g.kind)
	for step := 0; step < 25 && !h.failed; step++ {
		// trigger switches between transactions
		for k := h.r.Intn(3); k > 0; k-- {
			t := h.r.Intn(len(h.sch.tables))
			if g.dis[t] > 0 && h.r.Intn(2) == 0 {
				h.db.EnableTrigger(vTname(t))
				g.dis[t]--
				tr.Q(fmt.Sprintf("ena %d", t), "ok")
				hist += fmt.Sprintf(" ; ena %d", t)
				tr.Count("switch=enable")
			} else if h.r.Intn(3) == 0 {
				h.db.DisableTrigger(vTname(t))
				g.dis[t]++
				tr.Q(fmt.Sprintf("dis %d", t), "ok")
				hist += fmt.Sprintf(" ; dis %d", t)
				tr.Count(fmt.Sprint("switch=disable depth=", g.dis[t]))
			}
		}
		ut := h.db.NewUpdateTran()
		g.cur = ut
		tr.Q("begin", "ok")
		hist += " ; begin"
		nops := 1 + h.r.Intn(3)
		alive := true
		threwOp := ""
		for k := 0; k < nops && alive && !h.failed; k++ {
			before := h.snapshot(ut)
			op := h.genOp(before)
			if op.kind == "upd" && vEmpty(op.old, h.sch.tables[op.t].idxs[0].cols) && !vEmpty(op.new, h.sch.tables[op.t].idxs[0].cols) {
				h.emptyKeyUpd = true
			}
			hist += " ; " + op.line()
			g.log, g.threw, g.wrongTr, g.whileDis = nil, false, false, false
			msg := h.apply(ut, op)
			tr.Count("op=" + op.kind)
			if g.wrongTr {
				h.fail("trigger-wrong-tran", hist)
			}
			if g.whileDis {
				h.fail("trigger-while-disabled", hist)
			}
			if msg != "" {
				out := vClassify(ut, msg)
				if g.threw {
					tr.Count("trigger-threw")
					threwOp = op.kind
					if out != "!abort" {
						out = "!trigger-not-aborted"
					}
				}
				tr.Count("outcome=" + out)
				tr.Q(op.line(), out)
				if out == "!abort" || g.threw {
					alive = false
				}
				continue
			}
			tr.Count("outcome=ok")
			tr.CountN("trigger-calls", len(g.log))
			if len(g.log) > 1 {
				tr.Count("op-with-cascade-calls")
			}
			entries := append([]string{}, g.log...)
			sort.Strings(entries)
			tr.Q(op.line(), strings.Join(append([]string{"ok"}, entries...), " "))
			g.diffOracle(op, before, h.snapshot(ut), hist)
		}
		if threwOp != "" {
			// the caller caught the trigger's exception and commits anyway
			res := ut.Complete()
			if res == "" {
				tr.Q("commit", "ok")
				h.fail("trigger-exception-committed", "Trigger threw in "+threwOp+", caller caught it, Complete() succeeded: "+hist+" ; commit")
			} else {
				tr.Q("commit", "!aborted")
			}
			hist += " ; commit"
		} else if alive && h.r.Intn(8) != 0 {
			if res := ut.Complete(); res != "" {
				tr.Q("commit", "!"+res)
			} else {
				tr.Q("commit", "ok")
			}
			hist += " ; commit"
		} else {
			ut.Abort()
			tr.Q("abort", "ok")
			hist += " ; abort"
		}
		rt := h.db.NewReadTran()
		tr.Q("state", vStateText(h.snapshot(rt)))
		h.indexOracle(rt, hist)
		if hi < 2 && step == 3 {
			tr.Sample(hist)
		}
	}
}

// diffOracle: per table with an enabled trigger, old rows of the calls + rows that appeared
// == new rows of the calls + rows that disappeared (as multisets): every change was reported
// exactly once; tables without an enabled trigger have no calls.
func (g *vTrig) diffOracle(op vOp, before, after [][]vLive, hist string) {
	h := g.h
	for t := range h.sch.tables {
		var left, right []string
		ncalls := 0
		for _, e := range g.log {
			var et int
			var rest string
			fmt.Sscanf(e, "%d:", &et)
			rest = e[strings.IndexByte(e, ':')+1:]
			if et != t {
				continue
			}
			ncalls++
			parts := strings.SplitN(rest, ">", 2)
			if parts[0] != "-" {
				left = append(left, parts[0])
			}
			if parts[1] != "-" {
				right = append(right, parts[1])
			}
		}
		enabled := g.kind[t] != 0 && g.dis[t] == 0
		if !enabled {
			if ncalls > 0 {
				h.fail("trigger-while-disabled", hist)
			}
			continue
		}
		b := map[uint64]vRow{}
		for _, l := range before[t] {
			b[l.off] = l.row
		}
		a := map[uint64]bool{}
		for _, l := range after[t] {
			a[l.off] = true
			if _, ok := b[l.off]; !ok {
				left = append(left, l.row.String()) // appeared
			}
		}
		for off, row := range b {
			if !a[off] {
				right = append(right, row.String()) // disappeared
			}
		}
		if vMultiset(left) != vMultiset(right) {
			h.fail("trigger-calls-differ:"+op.kind, fmt.Sprintf("table %s: calls %v do not add up to the row changes (old+appeared: %s; new+disappeared: %s) after: %s",
				vTname(t), g.log, vMultiset(left), vMultiset(right), hist))
			return
		}
	}
}
