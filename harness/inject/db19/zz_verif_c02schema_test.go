//go:build verif

package db19

// C02, schema view: transactions held open ACROSS SCHEMA CHANGES.
//
// A transaction's snapshot is a *Meta whose schema/info hash tries, Schema structs, Indexes
// slices and FkToHere slices are shared with later states; the only thing that keeps the
// snapshot stable is that every schema mutator copies what it writes (path copy in util/hamt,
// slc.Clone of Indexes / FkToHere in db19/meta).  This suite holds read and update
// transactions open across create / drop (also of not yet persisted tables, with table names
// that collide in the hash trie) / rename table / alter create / alter drop / alter rename /
// views / persists and committed data changes, and after EVERY step re-observes everything that
// is observable through each open transaction:
//
//	table list, schema text (String2), every index (columns, fields, mode, best key, fk target
//	with its index position, every FkToHere entry with its index position), views, Info
//	(existence, Nrows, number of indexes), the rows through every index.
//
// Direct oracle (model free): the observation is the same string for the whole life of the
// transaction (`snapshot-changed`).  In addition old update transactions perform foreign key
// checked writes (delete of a parent row, output of a child row) and the outcome must be the
// one their own snapshot dictates (`fk-check-through-old-snapshot`).
//
// The Q lines (`sh-…`) tie the heap model Gsu/Model/Share.lean: for the two slice mutators
// (updateOtherFkToHere via alter drop, AlterRename) the real functions are run on real schemas
// and the *sharing signature* (which backing arrays of the new state are the arrays of the old
// state) plus "old observation unchanged" are compared with what the model computes.

import (
	"fmt"
	"math/rand"
	"slices"
	"sort"
	"strings"
	"testing"
	"unsafe"

	"github.com/apmckinlay/gsuneido/core"
	"github.com/apmckinlay/gsuneido/db19/meta"
	"github.com/apmckinlay/gsuneido/db19/meta/schema"
	"github.com/apmckinlay/gsuneido/db19/stor"
	"github.com/apmckinlay/gsuneido/util/hash"
	lib "github.com/apmckinlay/gsuneido/util/zzverif"
)

type scTran struct {
	id    int
	ut    *UpdateTran
	rt    *ReadTran
	first string
	born  int
}

type scHist struct {
	tr        *lib.Trace
	r         *rand.Rand
	db        *Database
	ck        *Check
	hid       int
	pool      []string // table names, groups of them collide in the hash trie
	used      map[string]bool
	trans     []*scTran
	nextId    int
	ncol      int
	created   []string // table names in creation order
	wPersist  int      // weight of persist steps in this history (0 = never)
	dropNext  string   // first table of the last burst of colliding names
	forceName string
	log       []string
	failed    bool
}

func (h *scHist) note(format string, args ...any) {
	h.log = append(h.log, fmt.Sprintf(format, args...))
}

func (h *scHist) fail(sig, msg string) {
	if h.failed {
		return
	}
	h.failed = true
	hist := strings.Join(h.log, "; ")
	if len(hist) > 1800 {
		hist = "…" + hist[len(hist)-1800:]
	}
	h.tr.Fail(sig, fmt.Sprintf("seed %d history %d: %s | steps: %s", lib.Seed(), h.hid, msg, hist))
}

// scPool returns table names in groups that share the root slot of the hamt (low 5 bits of
// the hash), some of them also the next level, plus a few unrelated ones
func scPool(r *rand.Rand) []string {
	bySlot := map[uint64][]string{}
	for i := 0; i < 600; i++ {
		s := fmt.Sprint("t", i)
		k := hash.String(s) & 31
		bySlot[k] = append(bySlot[k], s)
	}
	var pool []string
	slots := r.Perm(32)
	for _, s := range slots[:5] {
		g := bySlot[uint64(s)]
		r.Shuffle(len(g), func(i, j int) { g[i], g[j] = g[j], g[i] })
		if len(g) > 4 {
			g = g[:4]
		}
		pool = append(pool, g...)
	}
	pool = append(pool, "alpha", "beta", "gamma")
	return pool
}

func scSlot(name string) uint64 { return hash.String(name) & 31 }

// freeName prefers names that collide (same root slot of the hash trie) with tables that
// exist, so that child nodes with several entries below an occupied slot come into being
func (h *scHist) freeName() string {
	if h.forceName != "" && !h.used[h.forceName] {
		return h.forceName
	}
	var free []string
	inUse := map[uint64]int{}
	for _, n := range h.pool {
		if h.used[n] {
			inUse[scSlot(n)]++
		}
	}
	best := -1
	for _, n := range h.pool {
		if !h.used[n] {
			free = append(free, n)
			if c := inUse[scSlot(n)]; c > best {
				best = c
			}
		}
	}
	if len(free) == 0 {
		return ""
	}
	if h.r.Intn(10) < 7 {
		var cands []string
		for _, n := range free {
			if inUse[scSlot(n)] == best {
				cands = append(cands, n)
			}
		}
		return cands[h.r.Intn(len(cands))]
	}
	return free[h.r.Intn(len(free))]
}

// dropCandidate prefers the table that was created first among several colliding ones (its
// entry sits in the slot above the child node that holds the others)
func (h *scHist) dropCandidate() *meta.Schema {
	ts := h.tables()
	if len(ts) == 0 {
		return nil
	}
	if h.r.Intn(2) == 0 {
		count := map[uint64]int{}
		for _, t := range ts {
			count[scSlot(t.Table)]++
		}
		for _, name := range h.created {
			if h.used[name] && count[scSlot(name)] >= 3 {
				for _, t := range ts {
					if t.Table == name {
						return t
					}
				}
			}
		}
	}
	return ts[h.r.Intn(len(ts))]
}

func (h *scHist) tables() []*meta.Schema {
	var ts []*meta.Schema
	for s := range h.db.GetState().Meta.Tables() {
		ts = append(ts, s)
	}
	sort.Slice(ts, func(i, j int) bool { return ts[i].Table < ts[j].Table })
	return ts
}

func scFk(fk *schema.Fkey) string {
	return fmt.Sprintf("%s(%s)#%d/%d", fk.Table, strings.Join(fk.Columns, ","), fk.IIndex, fk.Mode)
}

// scDump is everything observable through a transaction
func scDump(rt *ReadTran) (res string) {
	var sb strings.Builder
	msg := lib.Catch(func() {
		all := rt.GetAllSchema()
		sort.Slice(all, func(i, j int) bool { return all[i].Table < all[j].Table })
		for _, ts := range all {
			fmt.Fprintf(&sb, "T %s cols=%v derived=%v\n", ts.String2(), ts.Columns, ts.Derived)
			for i := range ts.Indexes {
				ix := &ts.Indexes[i]
				fmt.Fprintf(&sb, "  %s ix%d %c(%s) fields=%v best=%v spec=%v/%v primary=%v fk=%s fkToHere=[",
					ts.Table, i, ix.Mode, strings.Join(ix.Columns, ","), ix.Fields, ix.BestKey,
					ix.Ixspec.Fields, ix.Ixspec.Fields2, ix.Primary, scFk(&ix.Fk))
				for j := range ix.FkToHere {
					sb.WriteString(scFk(&ix.FkToHere[j]) + " ")
				}
				sb.WriteString("]\n")
				// the same index found by its columns, as queries do
				if ov := rt.GetIndex(ts.Table, ix.Columns); ov == nil {
					fmt.Fprintf(&sb, "  %s ix%d GetIndex(%v)=nil\n", ts.Table, i, ix.Columns)
				}
			}
			ti := rt.GetInfo(ts.Table)
			if ti == nil {
				fmt.Fprintf(&sb, "  %s info=nil\n", ts.Table)
				continue
			}
			fmt.Fprintf(&sb, "  %s info nrows=%d size=%d nidx=%d\n", ts.Table, ti.Nrows, ti.Size, len(ti.Indexes))
			for i := range ts.Indexes {
				if i >= len(ti.Indexes) {
					break
				}
				es, e := dpScan(rt, ts.Table, i, false)
				fmt.Fprintf(&sb, "  %s ix%d rows %s %s\n", ts.Table, i, dpShow(es), e)
			}
		}
		vs := rt.GetAllViews()
		fmt.Fprintf(&sb, "views %v\n", vs)
	})
	if msg != "" {
		fmt.Fprintf(&sb, "PANIC %s\n", msg)
	}
	return sb.String()
}

func scFirstDiff(a, b string) string {
	la, lb := strings.Split(a, "\n"), strings.Split(b, "\n")
	for i := 0; i < len(la) || i < len(lb); i++ {
		x, y := "<missing>", "<missing>"
		if i < len(la) {
			x = la[i]
		}
		if i < len(lb) {
			y = lb[i]
		}
		if x != y {
			return fmt.Sprintf("at start: %q  now: %q", strings.TrimSpace(x), strings.TrimSpace(y))
		}
	}
	return "?"
}

func (h *scHist) begin(update bool, step int) {
	t := &scTran{id: h.nextId, born: step}
	h.nextId++
	if update {
		t.ut = h.db.NewUpdateTran()
		t.rt = &t.ut.ReadTran
		h.tr.Count("sc begin:update")
	} else {
		t.rt = h.db.NewReadTran()
		h.tr.Count("sc begin:read")
	}
	t.first = scDump(t.rt)
	h.trans = append(h.trans, t)
	h.note("begin t%d(%s)", t.id, map[bool]string{true: "update", false: "read"}[update])
}

func (h *scHist) end(t *scTran) {
	if t.ut != nil {
		t.ut.Abort()
	}
	i := slices.Index(h.trans, t)
	h.trans = slices.Delete(h.trans, i, i+1)
	h.note("end t%d", t.id)
}

// observe: every open transaction must still see what it saw when it started
func (h *scHist) observe() {
	for _, t := range h.trans {
		if t.ut != nil && t.ut.ct.failure.Load() != "" {
			continue // aborted by the checker (exclusive); checked until then
		}
		now := scDump(t.rt)
		h.tr.Count("sc observations")
		if now != t.first {
			kind := "read"
			if t.ut != nil {
				kind = "update"
			}
			h.fail("snapshot-changed", fmt.Sprintf("%s transaction t%d no longer sees its start snapshot: %s",
				kind, t.id, scFirstDiff(t.first, now)))
			return
		}
	}
}

func (h *scHist) ddl(what string, f func()) bool {
	msg := lib.Catch(f)
	ok := msg == ""
	h.tr.Count(fmt.Sprintf("sc ddl %s ok=%v", strings.SplitN(what, " ", 2)[0], ok))
	if ok {
		h.note("%s", what)
	}
	return ok
}

func scRec(vals ...string) core.Record {
	var rb core.RecordBuilder
	for _, v := range vals {
		rb.Add(core.SuStr(v))
	}
	return rb.Build()
}

func (h *scHist) createTable() { h.createTable2(true) }

func (h *scHist) createTable2(mayFk bool) string {
	name := h.freeName()
	if name == "" {
		return ""
	}
	sch := &schema.Schema{Table: name, Columns: []string{"k", "x", "p"},
		Indexes: []schema.Index{{Mode: 'k', Columns: []string{"k"}}}}
	if h.r.Intn(2) == 0 {
		sch.Indexes = append(sch.Indexes, schema.Index{Mode: 'i', Columns: []string{"x"}})
	}
	// a foreign key to an existing table's key, deliberately NOT the first index
	ts := h.tables()
	if mayFk && len(ts) > 0 && h.r.Intn(3) != 0 {
		parent := ts[h.r.Intn(len(ts))]
		if len(parent.Indexes) > 0 && parent.Indexes[0].Mode == 'k' && len(parent.Indexes[0].Columns) == 1 {
			mode := byte(schema.Block)
			if h.r.Intn(4) == 0 {
				mode = schema.Cascade
			}
			sch.Indexes = append(sch.Indexes, schema.Index{Mode: 'i', Columns: []string{"p"},
				Fk: schema.Fkey{Table: parent.Table, Columns: slices.Clone(parent.Indexes[0].Columns), Mode: mode}})
		}
	}
	if h.ddl(fmt.Sprintf("create %s %d indexes", name, len(sch.Indexes)), func() { h.db.Create(sch) }) {
		h.used[name] = true
		h.created = append(h.created, name)
		return name
	}
	return ""
}

func (h *scHist) pickTable() *meta.Schema {
	ts := h.tables()
	if len(ts) == 0 {
		return nil
	}
	return ts[h.r.Intn(len(ts))]
}

func (h *scHist) schemaChange() {
	ts := h.pickTable()
	if ts == nil {
		h.createTable()
		return
	}
	if h.dropNext != "" && h.used[h.dropNext] && h.r.Intn(2) == 0 {
		// the first of a burst of colliding tables goes away again (maybe before any persist)
		name := h.dropNext
		h.dropNext = ""
		if h.ddl("drop "+name, func() {
			if err := h.db.Drop(name); err != nil {
				panic(err)
			}
		}) {
			h.used[name] = false
		}
		return
	}
	switch h.r.Intn(10) {
	case 9: // a burst of tables whose names collide in the hash tries, in a slot nobody uses yet
		inUse := map[uint64]int{}
		free := map[uint64][]string{}
		for _, n := range h.pool {
			if h.used[n] {
				inUse[scSlot(n)]++
			} else {
				free[scSlot(n)] = append(free[scSlot(n)], n)
			}
		}
		var group []string
		for _, n := range h.pool { // deterministic order
			if g := free[scSlot(n)]; inUse[scSlot(n)] == 0 && len(g) >= 3 && n != "alpha" && n != "beta" && n != "gamma" {
				group = g
				break
			}
		}
		first := ""
		for i := 0; i < 3; i++ {
			h.forceName = ""
			if i < len(group) {
				h.forceName = group[i]
			}
			if n := h.createTable2(false); n != "" && first == "" {
				first = n
			}
		}
		h.forceName = ""
		h.dropNext = first
	case 0:
		h.createTable()
	case 1: // drop table (persisted or not)
		if dc := h.dropCandidate(); dc != nil {
			ts = dc
		}
		if h.ddl("drop "+ts.Table, func() {
			if err := h.db.Drop(ts.Table); err != nil {
				panic(err)
			}
		}) {
			h.used[ts.Table] = false
		}
	case 2: // rename table
		if to := h.freeName(); to != "" {
			if h.ddl(fmt.Sprintf("rename %s to %s", ts.Table, to), func() {
				if !h.db.RenameTable(ts.Table, to) {
					panic("rename failed")
				}
			}) {
				h.used[ts.Table] = false
				h.used[to] = true
				h.created = append(h.created, to)
			}
		}
	case 3: // alter create column and/or index
		h.ncol++
		col := fmt.Sprint("c", h.ncol)
		ac := &schema.Schema{Table: ts.Table, Columns: []string{col}}
		switch h.r.Intn(3) {
		case 0:
			ac.Indexes = []schema.Index{{Mode: 'i', Columns: []string{col}}}
		case 1:
			ac.Columns = nil
			ac.Indexes = []schema.Index{{Mode: 'i', Columns: []string{ts.Columns[h.r.Intn(len(ts.Columns))], ts.Indexes[0].Columns[0]}}}
		}
		h.ddl(fmt.Sprintf("alter %s create %v %d idx", ts.Table, ac.Columns, len(ac.Indexes)), func() { h.db.AlterCreate(ac) })
	case 4, 5: // alter drop an index (an earlier one shifts the foreign key index positions)
		if len(ts.Indexes) > 1 {
			i := 1 + h.r.Intn(len(ts.Indexes)-1)
			cols := slices.Clone(ts.Indexes[i].Columns)
			h.ddl(fmt.Sprintf("alter %s drop index(%s) [position %d of %d]", ts.Table, strings.Join(cols, ","), i, len(ts.Indexes)), func() {
				if !h.db.AlterDrop(&schema.Schema{Table: ts.Table, Indexes: []schema.Index{{Columns: cols}}}) {
					panic("alter drop failed")
				}
			})
		}
	case 6, 7: // alter rename a column (indexed ones, fk columns and fk target columns included)
		var cands []string
		for _, c := range ts.Columns {
			if c != "-" {
				cands = append(cands, c)
			}
		}
		if len(cands) > 0 {
			from := cands[h.r.Intn(len(cands))]
			h.ncol++
			to := fmt.Sprint(strings.TrimRight(from, "0123456789"), h.ncol)
			h.ddl(fmt.Sprintf("alter %s rename %s to %s", ts.Table, from, to), func() {
				if !h.db.AlterRename(ts.Table, []string{from}, []string{to}) {
					panic("alter rename failed")
				}
			})
		}
	case 8: // views
		if h.r.Intn(2) == 0 {
			h.ncol++
			v := fmt.Sprint("v", h.ncol)
			h.ddl("view "+v, func() { h.db.AddView(v, ts.Table) })
		} else {
			vs := h.db.NewReadTran().GetAllViews()
			if len(vs) >= 2 {
				v := vs[2*h.r.Intn(len(vs)/2)]
				h.ddl("drop view "+v, func() {
					if err := h.db.Drop(v); err != nil {
						panic(err)
					}
				})
			}
		}
	}
}

// colIndex returns the position of the index's single column in the record
func scField(ts *schema.Schema, ix *schema.Index) int {
	if len(ix.Columns) != 1 {
		return -1
	}
	return slices.Index(ts.Columns, ix.Columns[0])
}

// dataChange commits a small transaction: parent rows, child rows that reference them
func (h *scHist) dataChange() {
	ts := h.pickTable()
	if ts == nil {
		return
	}
	ut := h.db.NewUpdateTran()
	msg := lib.Catch(func() {
		for n := 1 + h.r.Intn(3); n > 0; n-- {
			vals := make([]string, len(ts.Columns))
			for i := range vals {
				vals[i] = fmt.Sprint(h.r.Intn(12))
			}
			// make the fk columns reference an existing parent row if there is one
			for i := range ts.Indexes {
				fk := &ts.Indexes[i].Fk
				if f := scField(&ts.Schema, &ts.Indexes[i]); fk.Table != "" && f >= 0 {
					vals[f] = ""
					es, _ := dpScan(&ut.ReadTran, fk.Table, fk.IIndex, false)
					if len(es) > 0 {
						prec := ut.GetRecord(es[h.r.Intn(len(es))].off)
						pts := ut.GetSchema(fk.Table)
						if pf := scField(pts, &pts.Indexes[fk.IIndex]); pf >= 0 {
							vals[f] = prec.GetStr(pf)
						}
					}
				}
			}
			ut.Output(nil, ts.Table, scRec(vals...))
		}
		h.db.CommitMerge(ut)
	})
	if msg != "" {
		ut.Abort()
	} else {
		h.note("commit rows into %s", ts.Table)
	}
	h.tr.Count(fmt.Sprintf("sc data commit ok=%v", msg == ""))
}

// fkWrite: a foreign key checked write through an OLD update transaction; the outcome must
// be the one its own snapshot dictates
func (h *scHist) fkWrite(t *scTran) {
	ut := t.ut
	all := ut.GetAllSchema()
	sort.Slice(all, func(i, j int) bool { return all[i].Table < all[j].Table })
	type cand struct {
		parent *meta.Schema
		ix     int
	}
	var cands []cand
	for _, ts := range all {
		for i := range ts.Indexes {
			if len(ts.Indexes[i].FkToHere) > 0 && len(ts.Indexes[i].Columns) == 1 {
				cands = append(cands, cand{ts, i})
			}
		}
	}
	if len(cands) == 0 {
		return
	}
	c := cands[h.r.Intn(len(cands))]
	pts := c.parent
	pf := scField(&pts.Schema, &pts.Indexes[c.ix])
	rows, _ := dpScan(&ut.ReadTran, pts.Table, c.ix, false)
	if len(rows) == 0 || pf < 0 {
		return
	}
	row := rows[h.r.Intn(len(rows))]
	pval := ut.GetRecord(row.off).GetStr(pf)
	// expectation from the transaction's own snapshot, computed without the fk machinery:
	// is there a row in a referencing table (as its snapshot's schema names it) with that value?
	referenced, onlyBlock := false, true
	for j := range pts.Indexes[c.ix].FkToHere {
		fk := &pts.Indexes[c.ix].FkToHere[j]
		if fk.Mode != schema.Block {
			onlyBlock = false
		}
		cts := ut.GetSchema(fk.Table)
		cf := -1
		if len(fk.Columns) == 1 {
			cf = slices.Index(cts.Columns, fk.Columns[0])
		}
		if cf < 0 {
			return
		}
		crows, _ := dpScan(&ut.ReadTran, fk.Table, 0, false)
		for _, cr := range crows {
			if ut.GetRecord(cr.off).GetStr(cf) == pval && pval != "" {
				referenced = true
			}
		}
	}
	if !onlyBlock {
		return
	}
	msg := lib.Catch(func() {
		dr := ut.Lookup(pts.Table, c.ix, pts.Indexes[c.ix].Ixspec.Key(ut.GetRecord(row.off)))
		if dr == nil {
			panic("verif: row of own snapshot not found by Lookup")
		}
		ut.Delete(nil, pts.Table, dr.Off)
	})
	h.note("t%d deletes %s row %s=%q (referenced in its snapshot: %v) -> %q", t.id, pts.Table, pts.Indexes[c.ix].Columns[0], pval, referenced, msg)
	h.tr.Count(fmt.Sprintf("sc fk delete through old tran referenced=%v", referenced))
	switch {
	case strings.Contains(msg, "transaction aborted"), strings.Contains(msg, "already ended"):
		// exclusive conflict etc.: no outcome to judge
	case referenced && !strings.Contains(msg, "blocked by foreign key"):
		h.fail("fk-check-through-old-snapshot", fmt.Sprintf("update transaction t%d (started at step %d): delete of %s row %q which its snapshot shows referenced from %v was not blocked (result %q)",
			t.id, t.born, pts.Table, pval, pts.Indexes[c.ix].FkToHere, msg))
	case !referenced && msg != "":
		h.fail("fk-check-through-old-snapshot", fmt.Sprintf("update transaction t%d (started at step %d): delete of unreferenced %s row %q failed: %s",
			t.id, t.born, pts.Table, pval, msg))
	}
	h.end(t) // its own view has changed now
}

func (h *scHist) run(steps int) {
	h.db = CreateDb(stor.HeapStor(64 * 1024))
	h.db.CheckerSync()
	h.ck = h.db.ck.(*Check)
	h.used = map[string]bool{}
	h.pool = scPool(h.r)
	h.wPersist = []int{0, 1, 2, 3}[h.r.Intn(4)]
	for i := 0; i < 3; i++ {
		h.createTable()
	}
	if h.r.Intn(4) != 0 {
		// tables created from now on are "new since the last persist"
		h.db.persist(&execPersistSingle{}, false)
		h.note("persist")
	}
	for step := 0; step < steps && !h.failed; step++ {
		switch x := h.r.Intn(20); {
		case x < 3:
			if len(h.trans) < 6 {
				h.begin(h.r.Intn(2) == 0, step)
			}
		case x < 4:
			if len(h.trans) > 0 {
				h.end(h.trans[h.r.Intn(len(h.trans))])
			}
		case x < 11:
			h.schemaChange()
		case x < 15:
			h.dataChange()
		case x < 15+h.wPersist:
			if msg := lib.Catch(func() { h.db.persist(&execPersistSingle{}, false) }); msg != "" {
				h.fail("persist-panic", msg)
			}
			h.note("persist")
			h.tr.Count("sc persist")
		default:
			var uts []*scTran
			for _, t := range h.trans {
				if t.ut != nil && t.ut.ct.failure.Load() == "" {
					uts = append(uts, t)
				}
			}
			if len(uts) > 0 {
				h.fkWrite(uts[h.r.Intn(len(uts))])
			}
		}
		h.observe()
	}
	for len(h.trans) > 0 {
		h.end(h.trans[0])
	}
}

//-------------------------------------------------------------------
// sharing signatures of the slice mutators (Q lines for Gsu/Model/Share.lean)

func scSame[T any](a, b []T) bool {
	return len(a) > 0 && len(b) > 0 && unsafe.SliceData(a) == unsafe.SliceData(b)
}

// shRename: AlterRename on a table with nIdx indexes, renaming the column of index `which`.
// Reports: does the new schema share its Indexes array with the old one; is the old schema's
// observation unchanged.
func shRename(tr *lib.Trace, r *rand.Rand) {
	nIdx := 1 + r.Intn(4)
	which := r.Intn(nIdx)
	db := CreateDb(stor.HeapStor(8192))
	cols := []string{"k"}
	idxs := []schema.Index{{Mode: 'k', Columns: []string{"k"}}}
	for i := 1; i < nIdx; i++ {
		c := fmt.Sprint("c", i)
		cols = append(cols, c)
		idxs = append(idxs, schema.Index{Mode: 'i', Columns: []string{c}})
	}
	db.Create(&schema.Schema{Table: "t", Columns: cols, Indexes: idxs})
	oldM := db.GetState().Meta
	old := oldM.GetRoSchema("t")
	before := scSchemaObs(old)
	from := idxs[which].Columns[0]
	newM := oldM.AlterRename("t", []string{from}, []string{"z"})
	nw := newM.GetRoSchema("t")
	shared := scSame(old.Indexes, nw.Indexes)
	unchanged := scSchemaObs(old) == before
	renamed := nw.Indexes[which].Columns[0] == "z"
	tr.Q(fmt.Sprintf("sh-rename %d %d", nIdx, which),
		fmt.Sprintf("shared=%s old-unchanged=%s new-renamed=%s", lib.B(shared), lib.B(unchanged), lib.B(renamed)))
	tr.Count("sh-rename")
	if !unchanged {
		tr.Fail("snapshot-changed", fmt.Sprintf("AlterRename(t, %s -> z) on a table with %d indexes changed the Schema value of the OLD state: %q -> %q",
			from, nIdx, before, scSchemaObs(old)))
	}
}

func scSchemaObs(ts *meta.Schema) string {
	var sb strings.Builder
	sb.WriteString(ts.String2())
	for i := range ts.Indexes {
		ix := &ts.Indexes[i]
		fmt.Fprintf(&sb, " |%d %v %s [", i, ix.Columns, scFk(&ix.Fk))
		for j := range ix.FkToHere {
			sb.WriteString(scFk(&ix.FkToHere[j]) + " ")
		}
		sb.WriteString("]")
	}
	return sb.String()
}

// shDropIdx: parent with nChild child tables whose foreign key index is at position 2;
// alter drop of index 1 of child `which` renumbers that foreign key (updateFkeysIIndex →
// updateOtherFkToHere on the parent).  Reports the sharing signature of the parent schema:
// Indexes array shared?, FkToHere array of the key shared?, old observation unchanged?,
// new IIndex.
func shDropIdx(tr *lib.Trace, r *rand.Rand) {
	nChild := 1 + r.Intn(3)
	which := r.Intn(nChild)
	db := CreateDb(stor.HeapStor(8192))
	db.Create(&schema.Schema{Table: "p", Columns: []string{"k", "v"},
		Indexes: []schema.Index{{Mode: 'k', Columns: []string{"k"}}}})
	for i := 0; i < nChild; i++ {
		db.Create(&schema.Schema{Table: fmt.Sprint("c", i), Columns: []string{"k", "x", "p"},
			Indexes: []schema.Index{{Mode: 'k', Columns: []string{"k"}}, {Mode: 'i', Columns: []string{"x"}},
				{Mode: 'i', Columns: []string{"p"}, Fk: schema.Fkey{Table: "p", Columns: []string{"k"}}}}})
	}
	oldM := db.GetState().Meta
	old := oldM.GetRoSchema("p")
	before := scSchemaObs(old)
	newM := oldM.AlterDrop(&schema.Schema{Table: fmt.Sprint("c", which), Indexes: []schema.Index{{Columns: []string{"x"}}}})
	nw := newM.GetRoSchema("p")
	idxShared := scSame(old.Indexes, nw.Indexes)
	fkShared := scSame(old.Indexes[0].FkToHere, nw.Indexes[0].FkToHere)
	unchanged := scSchemaObs(old) == before
	tr.Q(fmt.Sprintf("sh-dropidx %d %d", nChild, which),
		fmt.Sprintf("idx-shared=%s fk-shared=%s old-unchanged=%s new-iindex=%d", lib.B(idxShared), lib.B(fkShared), lib.B(unchanged),
			nw.Indexes[0].FkToHere[which].IIndex))
	tr.Count("sh-dropidx")
	if !unchanged {
		tr.Fail("snapshot-changed", fmt.Sprintf("alter c%d drop index(x) (of %d children) changed the Schema value of table p in the OLD state: %q -> %q",
			which, nChild, before, scSchemaObs(old)))
	}
}

func TestVerifC02Schema(t *testing.T) {
	MakeSuTran = func(ut *UpdateTran) *core.SuTran { return core.NewSuTran(nil, true) }
	checkerAbortT1 = true
	tr := lib.Open()
	defer tr.Close()
	r := lib.Rand()
	n := lib.N(60)
	for i := 0; i < n; i++ {
		h := &scHist{tr: tr, r: r, hid: i}
		if msg := lib.Catch(func() { h.run(60) }); msg != "" {
			h.fail("impl-panic", "uncaught panic of the implementation: "+msg)
		}
		if i < 2 && len(h.log) > 10 {
			tr.Sample(strings.Join(h.log[:10], "; ") + " …")
		}
	}
	for i := 0; i < 4*n; i++ {
		if msg := lib.Catch(func() {
			shRename(tr, r)
			shDropIdx(tr, r)
		}); msg != "" {
			tr.Fail("impl-panic", "sharing scenario: "+msg)
		}
	}
}
