//go:build verif

package db19

// C34: db19.Timestamp, the ticker's critical section (replayed on the package variable with a
// simulated clock), core.Thread.Timestamp through a fake IDbms that calls db19.Timestamp, and the
// body of core.tsExpire — single-stepped in generated orders for several simulated client
// processes, against the Lean machine Gsu.Model.Ts, plus the direct oracle "all stamps
// distinct, each caller's stamps increasing".
//
// A client process is the triple of package variables (tsCount, tsLimit, tsLast) of package
// core; several processes are simulated by swapping saved triples into those variables (under
// core's own tsLock) around each call. The variables are reached with go:linkname: this file
// adds nothing to and replaces nothing in /repo.

import (
	"fmt"
	"sync"
	"testing"
	"time"
	_ "unsafe"

	"github.com/apmckinlay/gsuneido/core"
	lib "github.com/apmckinlay/gsuneido/util/zzverif"
)

//go:linkname vc34Count github.com/apmckinlay/gsuneido/core.tsCount
var vc34Count int

//go:linkname vc34Limit github.com/apmckinlay/gsuneido/core.tsLimit
var vc34Limit int

//go:linkname vc34Last github.com/apmckinlay/gsuneido/core.tsLast
var vc34Last core.SuDate

//go:linkname vc34Lock github.com/apmckinlay/gsuneido/core.tsLock
var vc34Lock sync.Mutex

type vc34Dbms struct {
	core.IDbms
	fetches *int
}

func (f vc34Dbms) Unwrap() core.IDbms { return f }

func (f vc34Dbms) Timestamp() core.SuDate {
	*f.fetches++
	return Timestamp()
}

type vc34Client struct {
	count, limit int
	last         core.SuDate
}

func TestVerifC34(t *testing.T) {
	tr := lib.Open()
	defer tr.Close()
	r := lib.Rand()
	nh := lib.N(150)
	fetches := 0
	th := core.NewThread(nil)
	th.SetDbms(vc34Dbms{fetches: &fetches})

	// origin: a whole second shortly before a year end, so that AddMs' slow path crosses
	// minute/hour/day/year boundaries in some histories
	origin := core.NewDate(2025, 12, 31, 23, 59, 30, 0)
	goMs := func(d core.SuDate) int64 {
		return time.Date(d.Year(), time.Month(d.Month()), d.Day(), d.Hour(), d.Minute(), d.Second(),
			d.Millisecond()*1000000, time.UTC).UnixMilli()
	}
	originMs := goMs(origin)
	ms := func(d core.SuDate) int64 { return goMs(d) - originMs }
	at := func(m int) core.SuDate { return origin.Plus(0, 0, 0, 0, 0, m/1000, m%1000) }
	stamp := func(v core.Value) (core.SuDate, int) {
		switch x := v.(type) {
		case core.SuDate:
			return x, 0
		case core.SuTimestamp:
			p := core.PackValue(x)
			return x.SuDate, int(p[len(p)-1])
		}
		panic(fmt.Sprintf("unexpected timestamp type %T", v))
	}
	starts := []int{0, 990, 494, 495, 499, 500, 501, 998, 999, 29_990, 29_999, 29_494, 12_345}
	for h := 0; h < nh; h++ {
		ts0 := starts[r.Intn(len(starts))]
		if r.Intn(3) == 0 {
			ts0 = r.Intn(40_000)
		}
		ncl := 1 + r.Intn(4)
		clients := make([]vc34Client, ncl) // limit 0: nothing fetched yet
		tsLock.Lock()
		timestamp = at(ts0)
		tsLock.Unlock()
		clock := ts0 - r.Intn(1500) // the simulated wall clock (ms from origin, may be behind the server)
		if clock < 0 {
			clock = 0
		}
		tr.Qf("ok", "reset %d %d", ts0, ncl)
		seen := map[string]string{}
		var lastSrv core.Value
		lastCl := make([]core.Value, ncl)
		check := func(who string, v core.Value, last *core.Value, desc string) {
			key := core.PackValue(v)
			if prev, dup := seen[key]; dup {
				tr.Fail("duplicate", fmt.Sprintf("timestamp %v handed out to %s was already handed out to %s (history %d: start ms %d, %d clients, %s)", v, who, prev, h, ts0, ncl, desc))
			}
			seen[key] = who
			if *last != nil && v.Compare(*last) <= 0 {
				tr.Fail("not-increasing", fmt.Sprintf("%s received %v after %v (history %d: start ms %d, %d clients, %s)", who, v, *last, h, ts0, ncl, desc))
			}
			*last = v
		}
		nops := 50 + r.Intn(1500)
		// weights differ per history so that some histories exhaust batches and others expire early
		wClient, wServer, wTick := 40+r.Intn(50), 5+r.Intn(40), 1+r.Intn(15)
		wExpire := 1 + r.Intn(10)
		tot := wClient + wServer + wTick + wExpire
		for op := 0; op < nops; op++ {
			x := r.Intn(tot)
			switch {
			case x < wClient:
				i := r.Intn(ncl)
				if r.Intn(3) > 0 && i > 0 {
					i = 0 // one busy client uses its batches up
				}
				c := &clients[i]
				vc34Lock.Lock()
				vc34Count, vc34Limit, vc34Last = c.count, c.limit, c.last
				vc34Lock.Unlock()
				before := fetches
				v := th.Timestamp()
				vc34Lock.Lock()
				c.count, c.limit, c.last = vc34Count, vc34Limit, vc34Last
				vc34Lock.Unlock()
				refilled := fetches != before
				d, extra := stamp(v)
				tr.Qf(fmt.Sprintf("%d %d", ms(d), extra), "client %d %s", i, lib.B(refilled))
				check(fmt.Sprintf("client %d", i), v, &lastCl[i], fmt.Sprintf("op %d", op))
				if refilled {
					tr.Count("client-fetch")
				} else if extra == 0 {
					tr.Count("client-fast-batch")
				} else {
					tr.Count("client-fast-extra")
				}
			case x < wClient+wServer:
				v := Timestamp()
				tr.Qf(fmt.Sprintf("%d 0", ms(v)), "server")
				check("server caller", v, &lastSrv, fmt.Sprintf("op %d", op))
				tr.Count("server")
			case x < wClient+wServer+wTick:
				switch r.Intn(10) {
				case 0:
					clock -= r.Intn(3000) // clock set back
					if clock < 0 {
						clock = 0
					}
				case 1:
					clock += r.Intn(20000) // time skip
				default:
					clock += r.Intn(1500)
				}
				tt := at(clock).WithoutMs()
				// ticker(): the statements between tsLock.Lock() and tsLock.Unlock()
				tsLock.Lock()
				if tt.Compare(timestamp) > 0 {
					timestamp = tt
				}
				tsLock.Unlock()
				tr.Qf("-", "tick %d", ms(tt))
				tr.Count("tick")
			default:
				i := r.Intn(ncl)
				c := &clients[i]
				// tsExpire(): tsCount = tsLimit + 1
				c.count = c.limit + 1
				tr.Qf("-", "expire %d", i)
				tr.Count("expire")
			}
		}
	}
}

// TestVerifC34Live executes the REAL ticker goroutine (StartTimestamps) in real time: bursts of
// requests run the timestamp ahead of the wall clock, then real one-second ticks happen while it
// is ahead, while requests continue (direct callers and the real batching client, whose real
// tsExpire goroutine also runs). No model replay (wall clock); the direct oracle is the property:
// all stamps distinct, each caller's stamps increasing. On a correct implementation the outcome
// does not depend on timing; a ticker that moves the timestamp backwards shows as `duplicate`.
func TestVerifC34Live(t *testing.T) {
	tr := lib.Open()
	defer tr.Close()
	r := lib.Rand()
	fetches := 0
	th := core.NewThread(nil)
	th.SetDbms(vc34Dbms{fetches: &fetches})
	StartTimestamps()
	seen := map[string]string{}
	var lastSrv, lastCl core.Value
	n := 0
	check := func(who string, v core.Value, last *core.Value, phase string) {
		n++
		key := core.PackValue(v)
		if prev, dup := seen[key]; dup {
			tr.Fail("duplicate", fmt.Sprintf("live ticker: timestamp %v handed out to %s was already handed out to %s (%s, request %d; wall clock %v)", v, who, prev, phase, n, core.Now()))
		}
		seen[key] = who
		if *last != nil && v.Compare(*last) <= 0 {
			tr.Fail("not-increasing", fmt.Sprintf("live ticker: %s received %v after %v (%s, request %d; wall clock %v)", who, v, *last, phase, n, core.Now()))
		}
		*last = v
	}
	take := func(phase string) {
		if r.Intn(3) == 0 {
			check("client", th.Timestamp(), &lastCl, phase)
		} else {
			check("server caller", Timestamp(), &lastSrv, phase)
		}
	}
	rounds := 2
	if lib.Tier() == "thorough" {
		rounds = 8
	}
	for round := 0; round < rounds; round++ {
		// burst: several seconds worth of stamps (about 600 direct requests use up one second)
		burst := 2000 + r.Intn(3000)
		for i := 0; i < burst; i++ {
			take(fmt.Sprintf("round %d burst of %d", round, burst))
		}
		tr.CountN("live-burst-requests", burst)
		if ahead := lastSrv.(core.SuDate).MinusMs(core.Now()); ahead > 1000 {
			tr.Count("live-ahead-of-clock")
		}
		// real ticks while the timestamp is ahead; keep requesting across them
		deadline := time.Now().Add(time.Duration(1250+r.Intn(500)) * time.Millisecond)
		for time.Now().Before(deadline) {
			take(fmt.Sprintf("round %d across ticks", round))
			tr.Count("live-requests-across-ticks")
			time.Sleep(time.Duration(1+r.Intn(20)) * time.Millisecond)
		}
		for i := 0; i < 300; i++ {
			take(fmt.Sprintf("round %d after ticks", round))
		}
	}
}
