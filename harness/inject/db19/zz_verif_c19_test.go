//go:build verif

package db19

// C19: ReadTran.Asof / StateAsof / PrevState / NextState against Gsu.Model.Asof, plus the direct
// oracles of the property on the implementation:
//   - a time request shows the most recent persisted state at or before that time,
//     a time before the first state shows the first state;
//   - the transaction's offset is always the offset of the state it shows, so that
//     -1 / +1 visit the persisted states in file order without skipping or repeating.
// Every history builds a heap-stor database with k persists (each preceded by at least one
// committed row, so the row count identifies the state), optionally forged *invalid* state
// candidates (magic1 present, readState says invalid), and then runs arbitrary request
// sequences on read transactions.

import (
	"encoding/binary"
	"fmt"
	"math/rand"
	"strconv"
	"strings"
	"testing"
	"time"

	"github.com/apmckinlay/gsuneido/db19/index"
	"github.com/apmckinlay/gsuneido/db19/stor"
	"github.com/apmckinlay/gsuneido/util/cksum"
	lib "github.com/apmckinlay/gsuneido/util/zzverif"
)

type c19cand struct {
	off   uint64
	t     int64 // 0 = invalid candidate
	rows  int
	valid bool
}

func c19rows(rt *ReadTran) int {
	ti := rt.meta.GetRoInfo("mytable")
	if ti == nil {
		return 0
	}
	it := index.NewOverIter("mytable", 0)
	n := 0
	for it.Next(rt); !it.Eof(); it.Next(rt) {
		n++
	}
	if n != ti.Nrows {
		return -1000 - n
	}
	return n
}

func c19setTime(store *stor.Stor, off uint64, t int64) {
	buf := store.Data(off)[:stateLen]
	binary.BigEndian.PutUint64(buf[len(magic1):], uint64(t))
	cksum.Update(buf[:magic2at])
}

// c19forge writes a candidate that readState reports as invalid (without panicking)
func c19forge(store *stor.Stor, r *rand.Rand, t int64) uint64 {
	off, buf := store.Alloc(stateLen)
	copy(buf, magic1)
	i := len(magic1)
	binary.BigEndian.PutUint64(buf[i:], uint64(t))
	i += dateSize
	if r.Intn(2) == 0 {
		// offsets not below the state itself
		stor.WriteSmallOffset(buf[i:], off+uint64(r.Intn(3)))
		stor.WriteSmallOffset(buf[i+stor.SmallOffsetLen:], 8)
		cksum.Update(buf[:magic2at])
		copy(buf[magic2at:], magic2)
	} else {
		// valid checksum, wrong trailing magic
		stor.WriteSmallOffset(buf[i:], 8)
		stor.WriteSmallOffset(buf[i+stor.SmallOffsetLen:], 8)
		cksum.Update(buf[:magic2at])
		copy(buf[magic2at:], "notmagic")
	}
	return off
}

func TestVerifC19Asof(t *testing.T) {
	tr := lib.Open()
	defer tr.Close()
	r := lib.Rand()
	n := lib.N(150)
	for h := 0; h < n; h++ {
		c19history(tr, r, h)
	}
}

func c19history(tr *lib.Trace, r *rand.Rand, h int) {
	chunk := []int{8192, 8192, 16384, 65536}[r.Intn(4)]
	store := stor.HeapStor(chunk)
	db := CreateDb(store)
	db.CheckerSync()
	createTbl(db)
	realClock := r.Intn(10) == 0
	backwards := !realClock && r.Intn(12) == 0 // outside the property's hypothesis; model only
	forging := r.Intn(4) == 0
	k := 1 + r.Intn(7)
	if r.Intn(6) == 0 {
		k = 8 + r.Intn(10)
	}
	tr.Count(fmt.Sprintf("persists=%d", min(k, 8)))
	tr.Count(fmt.Sprintf("chunk=%d", chunk))
	var cands []c19cand
	rows := 0
	tm := int64(1_600_000_000_000) + int64(r.Intn(1000))
	nextTime := func() int64 {
		switch r.Intn(6) {
		case 0: // tie
		case 1:
			tm++
		case 2:
			tm += 2
		default:
			tm += int64(1 + r.Intn(100000))
		}
		if backwards && r.Intn(3) == 0 {
			tm -= int64(1 + r.Intn(50))
		}
		return tm
	}
	addRows := func() {
		for i := 1 + r.Intn(3); i > 0; i-- {
			rows++
			ut := db.NewUpdateTran()
			fill := strings.Repeat("x", []int{0, 10, 300, 1500}[r.Intn(4)])
			ut.Output(nil, "mytable", mkrec("k"+strconv.Itoa(1000000+rows), fill))
			db.CommitMerge(ut)
		}
	}
	if forging && r.Intn(3) == 0 { // an invalid candidate before the first state
		cands = append(cands, c19cand{off: c19forge(store, r, nextTime())})
		tr.Count("forged-before-first")
	}
	for p := 0; p < k; p++ {
		addRows()
		st := db.persist(&execPersistSingle{}, false)
		c := c19cand{off: st.Off, rows: rows, valid: true}
		if realClock {
			if r.Intn(2) == 0 {
				time.Sleep(time.Millisecond)
			}
			c.t = int64(binary.BigEndian.Uint64(store.Data(st.Off)[len(magic1):]))
		} else {
			c.t = nextTime()
			c19setTime(store, st.Off, c.t)
		}
		cands = append(cands, c)
		if forging && r.Intn(3) == 0 {
			cands = append(cands, c19cand{off: c19forge(store, r, nextTime())})
			tr.Count("forged")
		}
	}
	if r.Intn(3) == 0 { // current state ahead of the newest persisted one
		addRows()
		tr.Count("cur-ahead")
	}
	if realClock {
		time.Sleep(5 * time.Millisecond) // every recorded time (+1) is now strictly in the past
		tr.Count("real-clock")
	}
	if backwards {
		tr.Count("clock-backwards")
	}
	cur := db.GetState()
	var valid []c19cand
	var sb strings.Builder
	for i, c := range cands {
		if i > 0 {
			sb.WriteByte(',')
		}
		fmt.Fprintf(&sb, "%d:%d:%d", c.off, c.t, c.rows)
		if c.valid {
			valid = append(valid, c)
		}
	}
	tr.Qf(fmt.Sprintf("ok %d", len(cands)), "reset %d %d %d %d %s",
		store.Size(), cur.Off, cur.Asof, rows, sb.String())
	idxOf := func(off uint64) int {
		for i, c := range valid {
			if c.off == off {
				return i
			}
		}
		return -1
	}
	monotone := true
	for i := 1; i < len(valid); i++ {
		if valid[i].t < valid[i-1].t {
			monotone = false
		}
	}
	pickTime := func() int64 {
		c := valid[r.Intn(len(valid))]
		var a int64
		switch r.Intn(8) {
		case 0:
			a = valid[0].t - 1 - int64(r.Intn(1000)) // before the first state
			tr.Count("req-before-first")
		case 1, 2:
			a = c.t
		case 3:
			a = c.t - 1
		case 4:
			a = c.t + 1
		case 5:
			a = valid[len(valid)-1].t + 1
		default:
			a = c.t + int64(r.Intn(5000)) - 2000
		}
		if last := valid[len(valid)-1].t + 1; a > last {
			a = last
		}
		return a
	}

	// the functions themselves
	for i := 0; i < 4; i++ {
		a := pickTime()
		var st *DbState
		msg := lib.Catch(func() { st = stateAsof(asofArgs{store: store, asof: a}) })
		out := "!nostate"
		if msg == "" {
			out = fmt.Sprintf("%d %d %d", st.Off, st.Asof, c19rows(&ReadTran{tran: tran{db: db, meta: st.Meta}}))
		} else if msg != "no state found" {
			out = "!panic"
			tr.Fail("stateasof-panic", fmt.Sprintf("history %d stateAsof(%d): %s", h, a, msg))
		}
		tr.Qf(out, "stateasof %d", a)
		off := uint64(0)
		if r.Intn(4) != 0 {
			off = cands[r.Intn(len(cands))].off
		}
		show := func(st *DbState) string {
			if st == nil {
				return "nil"
			}
			return fmt.Sprintf("%d %d %d", st.Off, st.Asof, c19rows(&ReadTran{tran: tran{db: db, meta: st.Meta}}))
		}
		tr.Qf(show(PrevState(store, off)), "prev %d", off)
		tr.Qf(show(NextState(store, off)), "next %d", off)
	}

	// request sequences on read transactions
	rt := db.NewReadTran()
	tr.Q("new", "ok")
	nreq := 5 + r.Intn(25)
	for q := 0; q < nreq; q++ {
		if r.Intn(20) == 0 {
			rt = db.NewReadTran()
			tr.Q("new", "ok")
		}
		var a int64
		future := false
		switch x := r.Intn(100); {
		case x < 30:
			a = -1
		case x < 58:
			a = 1
		case x < 61:
			a = 0
		case x < 66:
			a = 4_000_000_000_000 // year 2096: always >= now
			future = true
		default:
			a = pickTime()
		}
		before := *rt
		var ret int64
		msg := lib.Catch(func() { ret = rt.Asof(a) })
		kind := "time"
		if a == -1 || a == 0 || a == 1 {
			kind = strconv.Itoa(int(a))
		} else if future {
			kind = "future"
		}
		tr.Count("req=" + kind)
		desc := func() string {
			return fmt.Sprintf("history %d states(off:time:rows)=%s request Asof(%d) from off=%d asof=%d -> ret=%d off=%d asof=%d rows=%d",
				h, sb.String(), a, before.off, before.asof, ret, rt.off, rt.asof, c19rows(rt))
		}
		if msg != "" {
			if msg == "no state found" {
				tr.Qf("!nostate", "asof %d %s", a, lib.B(future))
			} else {
				tr.Qf("!panic", "asof %d %s", a, lib.B(future))
			}
			tr.Fail("asof-panic", desc()+" panic: "+msg)
			continue
		}
		nrows := c19rows(rt)
		if kind == "future" {
			// ret is GetState().Asof; off/asof as the code leaves them
			tr.Qf(fmt.Sprintf("%d %d %d %d", ret, rt.off, rt.asof, nrows), "asof %d t", a)
		} else {
			tr.Qf(fmt.Sprintf("%d %d %d %d", ret, rt.off, rt.asof, nrows), "asof %d f", a)
		}

		// ---- direct oracles (independent of the Lean model) ----
		if nrows < 0 {
			tr.Fail("asof-unreadable", desc())
		}
		switch kind {
		case "time":
			j := idxOf(rt.off)
			if j < 0 || valid[j].t != rt.asof || valid[j].rows != nrows || ret != rt.asof {
				if rt.off == 0 && a < valid[0].t {
					tr.Fail("before-first-off-not-state", desc()+
						" : time before the first state: the transaction's offset is not the offset of the state shown")
				} else {
					tr.Fail("asof-off-not-state", desc())
				}
			}
			if monotone {
				// expected: last state with t <= a, else the first
				e := 0
				for i, c := range valid {
					if c.t <= a {
						e = i
					}
				}
				if nrows != valid[e].rows || rt.asof != valid[e].t {
					tr.Fail("asof-wrong-state", desc()+fmt.Sprintf(" expected state #%d", e))
				}
				if a < valid[0].t {
					tr.Count("oracle-before-first")
				}
			}
		case "-1", "1":
			// position before the request, by offset; off 0 is "current" only for a fresh tran
			// or after a future request
			var want int
			stay := false
			if before.off == 0 {
				if before.asof != 0 {
					// off 0 although a state is shown: locate it by what was shown
					jb := -1
					for i, c := range valid {
						if c.t == before.asof {
							jb = i
							break
						}
					}
					if a == -1 {
						want, stay = jb-1, jb <= 0
					} else {
						want, stay = jb+1, jb+1 >= len(valid)
					}
				} else if a == -1 {
					want = len(valid) - 1
				} else {
					want = 0
				}
			} else {
				jb := idxOf(before.off)
				if jb < 0 {
					break // already reported
				}
				if a == -1 {
					want, stay = jb-1, jb == 0
				} else {
					want, stay = jb+1, jb+1 >= len(valid)
				}
			}
			if stay {
				if ret != 0 || rt.off != before.off || rt.asof != before.asof {
					tr.Fail("step-past-end", desc()+" : no state in that direction, expected return 0 and no move")
				}
			} else if rt.off != valid[want].off || nrows != valid[want].rows || ret != valid[want].t {
				tr.Fail("step-not-adjacent", desc()+fmt.Sprintf(" expected state #%d (off %d)", want, valid[want].off))
			}
		}
	}

	// ---- a time that is still in the future when it is first asked for and in the past later:
	// Asof(T) [future: current state, must not be remembered], more persists before T,
	// then Asof(T) again once T has passed: the latest state with time <= T
	if !backwards && r.Intn(4) == 0 {
		T := time.Now().UnixMilli() + 60
		rtB := db.NewReadTran()
		var ret int64
		msg := lib.Catch(func() { ret = rtB.Asof(T) })
		if msg != "" || time.Now().UnixMilli() >= T {
			tr.Count("future-then-past=skipped")
			return
		}
		tr.Q("new", "ok")
		tr.Qf(fmt.Sprintf("%d %d %d %d", ret, rtB.off, rtB.asof, c19rows(rtB)), "asof %d t", T)
		more := 1 + r.Intn(3)
		for p := more; p > 0; p-- {
			addRows()
			st := db.persist(&execPersistSingle{}, false)
			t := int64(binary.BigEndian.Uint64(store.Data(st.Off)[len(magic1):]))
			c := c19cand{off: st.Off, t: t, rows: rows, valid: true}
			cands = append(cands, c)
			valid = append(valid, c)
		}
		for time.Now().UnixMilli() <= T+1 {
			time.Sleep(5 * time.Millisecond)
		}
		cur = db.GetState()
		sb.Reset()
		for i, c := range cands {
			if i > 0 {
				sb.WriteByte(',')
			}
			fmt.Fprintf(&sb, "%d:%d:%d", c.off, c.t, c.rows)
		}
		tr.Qf(fmt.Sprintf("ok %d", len(cands)), "reset %d %d %d %d %s",
			store.Size(), cur.Off, cur.Asof, rows, sb.String())
		rt2 := db.NewReadTran()
		var ret2 int64
		if msg := lib.Catch(func() { ret2 = rt2.Asof(T) }); msg != "" {
			tr.Qf("!panic", "asof %d f", T)
			tr.Fail("asof-panic", fmt.Sprintf("history %d: Asof(%d) after it was first requested as a future time: %s", h, T, msg))
			return
		}
		n2 := c19rows(rt2)
		tr.Qf(fmt.Sprintf("%d %d %d %d", ret2, rt2.off, rt2.asof, n2), "asof %d f", T)
		e := 0
		for i, c := range valid {
			if c.t <= T {
				e = i
			}
		}
		if rt2.off != valid[e].off || n2 != valid[e].rows || ret2 != valid[e].t {
			tr.Fail("asof-stale-after-future-request", fmt.Sprintf(
				"history %d states(off:time:rows)=%s: Asof(%d) was first requested while that time was in the future, then %d more states were persisted before it; asked again after it had passed it shows off=%d time=%d rows=%d, expected the latest state at or before it: off=%d time=%d rows=%d",
				h, sb.String(), T, more, rt2.off, ret2, n2, valid[e].off, valid[e].t, valid[e].rows))
		}
		tr.Count("future-then-past=done")
	}
}
