//go:build verif

package db19

// C07 suite "keys": the serial-replay engine of zz_verif_c01s_test.go with a colliding-key
// generator: 2-5 concurrent transactions that mostly insert / update rows to the same one to
// three key values ("" included) on tables with a single key, a composite key, the empty key
// `key()` and a unique index.  Direct oracle after every commit: no two live rows share a key
// (at most one row for `key()`), no two share a non-empty unique value, every index lists the
// same rows, Nrows agrees.

import (
	"fmt"
	"strings"
	"testing"

	"github.com/apmckinlay/gsuneido/core"
	"github.com/apmckinlay/gsuneido/db19/index/ixkey"
	"github.com/apmckinlay/gsuneido/db19/meta/schema"
	"github.com/apmckinlay/gsuneido/db19/stor"
	lib "github.com/apmckinlay/gsuneido/util/zzverif"
)

func TestVerifC07Keys(t *testing.T) { c01sRun(t, c01sCfg{name: "keys", collide: true}) }

// ---------------------------------------------------------------------------------------------
// suite "dup": the point reads Output/Update register for their duplicate checks, and
// needsDupCheck itself, replayed by the Lean mirror Gsu.Model.Dup (driver drv_c07).

func TestVerifC07Dup(t *testing.T) {
	MakeSuTran = func(ut *UpdateTran) *core.SuTran { return core.NewSuTran(nil, true) }
	tr := lib.Open()
	defer tr.Close()
	r := lib.Rand()
	n := lib.N(1500)
	// needsDupCheck on all 16 combinations
	for m := 0; m < 16; m++ {
		p, u, c, e := m&1 != 0, m&2 != 0, m&4 != 0, m&8 != 0
		ix := schema.Index{Mode: 'i', Primary: p, ContainsKey: c, Ixspec: ixkey.Spec{Fields: []int{0}}}
		if u {
			ix.Mode = 'u'
		}
		v := "x"
		if e {
			v = ""
		}
		res := needsDupCheck(ix, c01sRec(c01sRow{k: v, a: "y"}))
		tr.Q(fmt.Sprintf("needsdup %s %s %s %s", lib.B(p), lib.B(u), lib.B(c), lib.B(e)), lib.B(res))
	}
	// uniqueIndexEmpty on composite specs: every emptiness pattern of 1-3 fields
	for nf := 1; nf <= 3; nf++ {
		for m := 0; m < 1<<nf; m++ {
			var b core.RecordBuilder
			spec := ixkey.Spec{}
			for i := 0; i < nf; i++ {
				if m&(1<<i) != 0 {
					b.Add(core.SuStr(""))
				} else {
					b.Add(core.SuStr("x"))
				}
				spec.Fields = append(spec.Fields, i)
			}
			rec := b.Build()
			tr.Q("uniqempty "+c07FieldsEmpty(rec, spec), lib.B(uniqueIndexEmpty(rec, spec)))
		}
	}
	val := func() string { return c01sVals[r.Intn(3)] }
	for h := 0; h < n; h++ {
		kind := r.Intn(5)
		mkrow := func() c01sRow {
			x := c01sRow{k: val(), a: val()}
			if kind == 4 {
				x.a, x.b = []string{"", "x"}[r.Intn(2)], []string{"", "x"}[r.Intn(2)]
			}
			return x
		}
		db := CreateDb(stor.HeapStor(64 * 1024))
		db.CheckerSync()
		ck := db.ck.(*Check)
		db.Create(c01sMakeSchema(kind))
		// 0-2 committed rows
		broken := false
		for i, nr := 0, r.Intn(3); i < nr; i++ {
			ut := db.NewUpdateTran()
			if lib.Catch(func() { ut.Output(nil, "t", c01sRec(mkrow())) }) != "" {
				ut.Abort()
				continue
			}
			if msg := lib.Catch(func() { db.CommitMerge(ut) }); msg != "" {
				tr.Fail("merge-panic", fmt.Sprintf("dup history %d schema %s: commit+merge of a sequentially inserted row panics: %s", h, c01sKinds[kind], msg))
				broken = true
				break
			}
		}
		if broken {
			continue
		}
		existing := c01sScanAll(db.NewReadTran(), 1)
		upd := r.Intn(2) == 0 && len(existing) > 0
		ut := db.NewUpdateTran()
		ts := ut.getSchema("t")
		ti := ut.GetInfo("t")
		newrow := mkrow()
		newrec := c01sRec(newrow)
		var oldrec core.Record
		var oldoff uint64
		if upd {
			old := existing[r.Intn(len(existing))]
			oldrec = c01sRec(old)
			dr := db.NewReadTran().Lookup("t", 0, ts.Indexes[0].Ixspec.Key(oldrec))
			if dr == nil {
				ut.Abort()
				continue
			}
			oldoff = dr.Off
			if r.Intn(3) == 0 {
				newrow.k = old.k
				newrec = c01sRec(newrow)
			}
		}
		var sb strings.Builder
		fmt.Fprintf(&sb, "dup %s", lib.B(upd))
		for i, ix := range ts.Indexes {
			key := ix.Ixspec.Key(newrec)
			empty := ix.Mode == 'k' && len(ix.Columns) == 0
			present := ti.Indexes[i].Lookup(key) != 0
			if empty && !upd {
				present = ti.Nrows > 0
			}
			changed := true
			if upd {
				changed = ix.Ixspec.Key(oldrec) != key
			}
			fmt.Fprintf(&sb, " %s%s%s%s%s%s:%s:%s", lib.B(empty), lib.B(ix.Primary), lib.B(ix.Mode == 'u'),
				lib.B(ix.ContainsKey), lib.B(changed), lib.B(present), c07FieldsEmpty(newrec, ix.Ixspec), lib.X(key))
		}
		res := "ok"
		msg := lib.Catch(func() {
			if upd {
				ut.Update(nil, "t", oldoff, newrec)
			} else {
				ut.Output(nil, "t", newrec)
			}
		})
		if strings.Contains(msg, "duplicate key") {
			res = "dup"
		} else if msg != "" {
			res = "!panic"
		}
		if acts := ck.bytable["t"][ut.ct.start]; acts != nil {
			for i, rs := range acts.reads {
				if rs == nil {
					continue
				}
				for _, rg := range strings.Split(rs.String(), " ") {
					ft := strings.SplitN(rg, "->", 2)
					if len(ft) == 2 {
						res += fmt.Sprintf(" %d:%s-%s", i, lib.X(ft[0]), lib.X(ft[1]))
					}
				}
			}
		}
		tr.Q(sb.String(), res)
		tr.Count(fmt.Sprintf("dup.%s.upd=%v.%s", c01sKinds[kind], upd, strings.SplitN(res, " ", 2)[0]))
		ut.Abort()
	}
}

// c07FieldsEmpty: per field of the index spec, is the raw value empty ("-" for no fields)
func c07FieldsEmpty(rec core.Record, is ixkey.Spec) string {
	if len(is.Fields) == 0 {
		return "-"
	}
	var sb strings.Builder
	for _, f := range is.Fields {
		sb.WriteString(lib.B(rec.GetRaw(f) == ""))
	}
	return sb.String()
}
