//go:build verif

package db19

// C07 suite "keys": the serial-replay engine of zz_verif_c01s_test.go with a colliding-key
// generator: 2-5 concurrent transactions that mostly insert / update rows to the same one to
// three key values ("" included) on tables with a single key, a composite key, the empty key
// `key()` and a unique index.  Direct oracle after every commit: no two live rows share a key
// (at most one row for `key()`), no two share a non-empty unique value, every index lists the
// same rows, Nrows agrees.

import "testing"

func TestVerifC07Keys(t *testing.T) { c01sRun(t, c01sCfg{name: "keys", collide: true}) }
