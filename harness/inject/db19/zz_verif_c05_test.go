//go:build verif

package db19

// C05 (search): repair.search against Gsu.Model.Repair.search on REAL good vectors.
// A heap-stor database with k persisted states is damaged in place (records, state records),
// the real vector good[i] = (repair.check(i, offsets[i]) != nil) is computed for every state
// offset the scanner finds (newest first), and repair.search() is run on the same store.
// Direct oracles: search never panics (including when there is no state at all), the state it
// returns passed the check, and when good and bad states are not mixed it is the newest good one.

import (
	"fmt"
	"math/rand"
	"os"
	"sort"
	"strconv"
	"strings"
	"testing"
	"time"

	"github.com/apmckinlay/gsuneido/db19/index"
	"github.com/apmckinlay/gsuneido/db19/meta"
	"github.com/apmckinlay/gsuneido/db19/stor"
	lib "github.com/apmckinlay/gsuneido/util/zzverif"
)

type c05row struct {
	key      string
	insState int // first state that contains the row
	delState int // first state that no longer contains it (-1: never deleted)
	off      uint64
	deleted  bool // a delete has been committed (merged or not)
}

func TestVerifC05Search(t *testing.T) {
	tr := lib.Open()
	defer tr.Close()
	r := lib.Rand()
	n := lib.N(300)
	// repair.search / check print progress lines
	stdout := os.Stdout
	if devnull, err := os.OpenFile(os.DevNull, os.O_WRONLY, 0); err == nil {
		os.Stdout = devnull
		defer func() { os.Stdout = stdout }()
	}
	for h := 0; h < n; h++ {
		c05history(tr, r, h)
	}
}

// c05op is a committed change of one row, merged or still waiting for the merger
type c05op struct {
	row      *c05row
	del      bool
	merges   *mergeList // nil once merged
	assigned bool       // a persist has happened since it was merged
}

type c05drv struct {
	db        *Database
	r         *rand.Rand
	tr        *lib.Trace
	rows      []*c05row
	ops       []*c05op
	pending   []*c05op // committed, not merged, oldest first
	nkey      int
	stateOffs []uint64
	expected  [][]string // keys visible in each persisted state
	pendAt    []int      // committed-but-unmerged transactions when the state was persisted
	live      map[string]bool
}

// commit the transaction the way checkco does; merge at once or leave it to "the merger"
func (d *c05drv) commit(ut *UpdateTran, op *c05op, mergeNow bool) {
	tables := d.db.ck.(*Check).commit(ut)
	ut.commit()
	merges := &mergeList{}
	merges.add(tables)
	op.merges = merges
	d.ops = append(d.ops, op)
	d.pending = append(d.pending, op)
	if mergeNow {
		d.mergeAll()
	}
}

func (d *c05drv) mergeOne() {
	if len(d.pending) == 0 {
		return
	}
	op := d.pending[0]
	d.pending = d.pending[1:]
	d.db.Merge(mergeSingle, op.merges)
	op.merges = nil
	if op.del {
		delete(d.live, op.row.key)
	} else {
		d.live[op.row.key] = true
	}
}

func (d *c05drv) mergeAll() {
	for len(d.pending) > 0 {
		d.mergeOne()
	}
}

// change commits one insert or delete; lazy = leave the merge to later
func (d *c05drv) change(lazy bool) {
	var candidates []*c05row
	for _, rw := range d.rows {
		if !rw.deleted {
			candidates = append(candidates, rw)
		}
	}
	if len(candidates) > 0 && d.r.Intn(4) == 0 {
		rw := candidates[d.r.Intn(len(candidates))]
		ut := d.db.NewUpdateTran()
		ut.Delete(nil, "mytable", rw.off)
		rw.deleted = true
		d.commit(ut, &c05op{row: rw, del: true}, !lazy)
		return
	}
	d.nkey++
	key := "k" + strconv.Itoa(100000+d.nkey)
	ut := d.db.NewUpdateTran()
	ut.Output(nil, "mytable", mkrec(key, "data-"+strings.Repeat("z", d.r.Intn(40))))
	rw := &c05row{key: key, insState: -1, delState: -1}
	d.commit(ut, &c05op{row: rw}, !lazy)
	rec := d.db.NewReadTran().Lookup("mytable", 0, string(mkrec(key).GetRaw(0)))
	rw.off = rec.Off
	d.rows = append(d.rows, rw)
}

type c05exec struct {
	results []meta.PersistUpdate
	between func()
}

func (ep *c05exec) Submit(fn func() meta.PersistUpdate) { ep.results = append(ep.results, fn()) }
func (ep *c05exec) Results() []meta.PersistUpdate {
	ep.between()
	return ep.results
}

// persist, optionally with commits between its compute and apply phases
func (d *c05drv) persist(interleave bool) {
	p := len(d.stateOffs)
	for _, op := range d.ops {
		if op.merges == nil && !op.assigned {
			op.assigned = true
			if op.del {
				op.row.delState = p
			} else {
				op.row.insState = p
			}
		}
	}
	var keys []string
	for k := range d.live {
		keys = append(keys, k)
	}
	sort.Strings(keys)
	d.pendAt = append(d.pendAt, len(d.pending))
	if len(d.pending) > 0 {
		d.tr.Count("persist-with-unmerged-commits")
	}
	st := d.db.persist(&c05exec{between: func() {
		if interleave && d.r.Intn(4) == 0 {
			d.change(true) // a commit while the persist is being computed
			d.tr.Count("commit-during-persist")
		}
	}}, false)
	d.stateOffs = append(d.stateOffs, st.Off)
	d.expected = append(d.expected, keys)
}

// run produces k persisted states; interleave = the merger lags behind the commits
func (d *c05drv) run(k int, interleave bool) {
	d.live = map[string]bool{}
	for p := 0; p < k; p++ {
		for i := 1 + d.r.Intn(2); i > 0; i-- {
			d.change(interleave && d.r.Intn(2) == 0)
			if interleave && d.r.Intn(3) == 0 {
				d.mergeOne()
			}
		}
		if !interleave || d.r.Intn(3) == 0 {
			d.mergeAll()
		}
		d.persist(interleave)
		if interleave && d.r.Intn(2) == 0 {
			d.mergeOne()
		}
	}
}

func c05history(tr *lib.Trace, r *rand.Rand, h int) {
	store := stor.HeapStor(64 * 1024)
	db := CreateDb(store)
	db.CheckerSync()
	k := 0
	switch x := r.Intn(20); {
	case x == 0:
		k = 0 // the file has the magic but no state
	case x < 8:
		k = 1 + r.Intn(5)
	case x < 16:
		k = 4 + r.Intn(16)
	default:
		k = 16 + r.Intn(30)
	}
	tr.Count("states=" + c05bucket(k))
	interleave := r.Intn(2) == 0
	tr.Count(fmt.Sprintf("merger-lags=%v", interleave))
	if k > 0 {
		createTbl(db)
	} else {
		// something other than a state after the magic
		_, buf := store.Alloc(40)
		copy(buf, "some record bytes but no state yet")
	}
	d := &c05drv{db: db, r: r, tr: tr}
	d.run(k, interleave)
	rows, stateOffs := d.rows, d.stateOffs

	// ---- damage
	kind := "none"
	var damaged *c05row
	flip := func(off uint64, at int) {
		store.Data(off)[at] ^= 0x5a
	}
	if k > 0 {
		switch x := r.Intn(10); {
		case x < 2:
			// nothing damaged
		case x < 6:
			// a row that is never deleted: every state from its insertion on is bad
			var c []*c05row
			for _, rw := range rows {
				if rw.delState < 0 && rw.insState >= 0 {
					c = append(c, rw)
				}
			}
			if len(c) > 0 {
				rw := c[r.Intn(len(c))]
				flip(rw.off, 3+r.Intn(8))
				kind = "monotone"
				damaged = rw
			}
		case x < 8:
			// a row deleted later: the states in between are bad (good and bad mixed)
			var c []*c05row
			for _, rw := range rows {
				if rw.insState >= 0 && rw.delState > rw.insState {
					c = append(c, rw)
				}
			}
			if len(c) > 0 {
				rw := c[r.Intn(len(c))]
				flip(rw.off, 3+r.Intn(8))
				kind = "mixed"
				damaged = rw
			}
		case x < 9:
			// damaged state records (isolated bad states)
			for i := 1 + r.Intn(3); i > 0; i-- {
				flip(stateOffs[r.Intn(len(stateOffs))], len(magic1)+r.Intn(dateSize))
			}
			kind = "state-records"
		default:
			// the first row: every state is bad
			if len(rows) > 0 && rows[0].delState < 0 && rows[0].insState == 0 {
				flip(rows[0].off, 3+r.Intn(8))
				kind = "all"
			}
		}
	}
	tr.Count("damage=" + kind)

	// ---- the real good vector, newest first
	// (the offsets are collected the way scanner.scanner does, without its goroutine:
	// getUpTo can miss the scanner's last wake-up, see findings/C05.md)
	var offsets []uint64
	for off := store.Size(); ; {
		off = store.LastOffset(off, magic1, nil)
		if off == 0 {
			break
		}
		buf := store.Data(off)
		if len(buf) < stateLen || string(buf[magic2at:magic2at+len(magic2)]) != magic2 {
			continue
		}
		offsets = append(offsets, off)
	}
	rp := repair{store: store}
	var bits strings.Builder
	good := make([]bool, len(offsets))
	for i, off := range offsets {
		msg := lib.Catch(func() { good[i] = rp.check(i, off) != nil })
		if msg != "" {
			tr.Fail("check-panic", fmt.Sprintf("history %d: repair.check(%d) panics: %s", h, i, msg))
		}
		if good[i] {
			bits.WriteByte('1')
		} else {
			bits.WriteByte('0')
		}
	}
	vec := bits.String()
	if vec == "" {
		vec = "-"
	}
	if len(offsets) != k {
		tr.Count("scanner-count-differs")
	}
	mono := true
	for i := 1; i < len(good); i++ {
		if good[i-1] && !good[i] {
			mono = false
		}
	}
	tr.Count(fmt.Sprintf("vector-monotone=%v", mono))
	// direct oracle: with nothing damaged every completely written state must pass the check
	// (otherwise a crash right after it makes repair fall back to an older state)
	if kind == "none" && len(offsets) == k {
		for i := range good {
			if !good[i] {
				p := k - 1 - i
				tr.Fail("check-rejects-intact-state", fmt.Sprintf("history %d: %d states, nothing damaged: state %d (persisted while %d committed transactions were not yet merged) fails repair.check: %v (good, newest first = %s)",
					h, k, p, d.pendAt[p], rp.ec, vec))
				break
			}
		}
		tr.Count("oracle=intact-states-check")
	}
	// direct oracle on the check itself: a state passes iff it does not contain the damaged row
	if damaged != nil && len(offsets) == k {
		for i := range good {
			p := k - 1 - i // state number from the oldest
			contains := p >= damaged.insState && (damaged.delState < 0 || p < damaged.delState)
			if good[i] == contains {
				what := "passes the check although it contains the damaged record"
				if !good[i] {
					what = "fails the check although it does not contain the damaged record"
				}
				tr.Fail("check-wrong-verdict", fmt.Sprintf("history %d: %d states, damaged record %s inserted before state %d deleted before state %d: state %d %s (good, newest first = %s)",
					h, k, damaged.key, damaged.insState, damaged.delState, p, what, vec))
				break
			}
		}
		tr.Count("oracle=check-verdict")
	}

	// ---- repair.search on the same store
	rs := repair{store: store}
	var idx int
	var off uint64
	var st *DbState
	desc := fmt.Sprintf("history %d: %d states, damage %s, good (newest first) = %s", h, k, kind, vec)
	var msg string
	finished := make(chan struct{})
	go func() {
		msg = lib.Catch(func() { idx, off, st = rs.search() })
		close(finished)
	}()
	select {
	case <-finished:
	case <-time.After(60 * time.Second):
		tr.Qf("!hang", "search %s", vec)
		tr.Fail("repair-search-hang", desc+" : repair.search did not return within 60 s")
		return
	}
	if msg != "" {
		tr.Qf("!panic", "search %s", vec)
		sig := "search-panic"
		if len(offsets) == 0 {
			sig = "repair-panic-no-states"
		}
		tr.Fail(sig, desc+" : repair.search panics: "+msg)
		return
	}
	out := "none"
	if off != 0 {
		out = strconv.Itoa(idx)
	}
	tr.Qf(out, "search %s", vec)
	if off != 0 {
		if idx < 0 || idx >= len(offsets) || offsets[idx] != off || st == nil {
			tr.Fail("search-index-offset-mismatch", desc+fmt.Sprintf(" : returned index %d offset %d", idx, off))
		} else if !good[idx] {
			tr.Fail("search-picked-bad", desc+fmt.Sprintf(" : returned index %d, which does not pass the check", idx))
		} else if mono {
			for j := 0; j < idx; j++ {
				if good[j] {
					tr.Fail("search-not-newest", desc+fmt.Sprintf(" : returned index %d but %d is good", idx, j))
					break
				}
			}
		}
		tr.Count("result=found")
	} else {
		if mono {
			for j := range good {
				if good[j] {
					tr.Fail("search-missed-good", desc+fmt.Sprintf(" : reported no valid state but %d is good", j))
					break
				}
			}
		}
		tr.Count("result=none")
	}
}

func c05bucket(k int) string {
	switch {
	case k == 0:
		return "0"
	case k <= 5:
		return "1-5"
	case k <= 15:
		return "6-15"
	case k <= 30:
		return "16-30"
	}
	return "31+"
}

// TestVerifC05CrashMix: the same commit / merge / persist interleavings on a REAL file, then the
// crash itself: the file is cut right after a persisted state (preferably one that was persisted
// while committed transactions were still waiting for the merger), OpenDatabase must refuse it,
// Repair must restore exactly that state (the latest completely persisted one) with exactly the
// rows that had been merged when it was persisted, and CheckDatabase(full) must pass.
func TestVerifC05CrashMix(t *testing.T) {
	tr := lib.Open()
	defer tr.Close()
	r := lib.Rand()
	n := lib.N(6)
	scratch := os.Getenv("VERIF_SCRATCH")
	if scratch == "" {
		scratch = t.TempDir()
	}
	// Repair creates its temporary file in the current directory
	wd, _ := os.Getwd()
	if err := os.Chdir(scratch); err != nil {
		t.Fatal(err)
	}
	defer os.Chdir(wd)
	stdout := os.Stdout
	if devnull, err := os.OpenFile(os.DevNull, os.O_WRONLY, 0); err == nil {
		os.Stdout = devnull
		defer func() { os.Stdout = stdout }()
	}
	for h := 0; h < n; h++ {
		c05crashmix(tr, r, h)
	}
}

func c05keys(db *Database) []string {
	rt := db.NewReadTran()
	if rt.GetInfo("mytable") == nil {
		return nil
	}
	it := index.NewOverIter("mytable", 0)
	var keys []string
	for it.Next(rt); !it.Eof(); it.Next(rt) {
		keys = append(keys, rt.GetRecord(it.CurOff()).GetStr(0))
	}
	return keys
}

func c05crashmix(tr *lib.Trace, r *rand.Rand, h int) {
	const file, crash = "mix.db", "mixcrash.db"
	for _, f := range []string{file, crash, crash + ".bak"} {
		os.Remove(f)
	}
	db, err := CreateDatabase(file)
	if err != nil {
		panic(err)
	}
	db.CheckerSync()
	createTbl(db)
	d := &c05drv{db: db, r: r, tr: tr}
	k := 2 + r.Intn(8)
	d.run(k, true)
	d.mergeAll()
	db.persist(&execPersistSingle{}, false)
	db.Close()
	full, err := os.ReadFile(file)
	if err != nil {
		panic(err)
	}
	var ends []string
	for _, off := range d.stateOffs {
		ends = append(ends, strconv.Itoa(int(off)+stateLen))
	}
	// cut after states persisted with unmerged commits pending first, then any other
	var order []int
	for p := range d.stateOffs {
		if d.pendAt[p] > 0 {
			order = append(order, p)
		}
	}
	r.Shuffle(len(order), func(i, j int) { order[i], order[j] = order[j], order[i] })
	order = append(order, r.Intn(k))
	if len(order) > 3 {
		order = order[:3]
	}
	for _, p := range order {
		cut := int(d.stateOffs[p]) + stateLen
		desc := fmt.Sprintf("history %d: %d persisted states (ends %s), file cut at %d = end of state %d, which was persisted while %d committed transactions were not yet merged",
			h, k, strings.Join(ends, ","), cut, p, d.pendAt[p])
		tr.Count(fmt.Sprintf("cut-after-state-with-unmerged=%v", d.pendAt[p] > 0))
		os.Remove(crash)
		os.Remove(crash + ".bak")
		os.WriteFile(crash, full[:cut], 0644)
		out := "!error"
		func() {
			cdb, err := OpenDatabase(crash)
			if err == nil {
				cdb.Close()
				tr.Fail("open-accepted-damaged", desc)
				return
			}
			var rerr error
			if msg := lib.Catch(func() { _, rerr = Repair(crash, err) }); msg != "" {
				tr.Fail("repair-panic", desc+" : "+msg)
				out = "!panic"
				return
			}
			if rerr != nil {
				tr.Fail("repair-no-state-found", desc+" : Repair: "+rerr.Error())
				out = "none"
				return
			}
			cdb, err = OpenDatabase(crash)
			if err != nil {
				tr.Fail("reopen-failed", desc+" : "+err.Error())
				return
			}
			got := cdb.GetState().Off
			keys := c05keys(cdb)
			cdb.Close()
			idx := -1
			for i, off := range d.stateOffs {
				if off == got {
					idx = i
				}
			}
			out = strconv.Itoa(idx)
			if got != d.stateOffs[p] {
				tr.Fail("restored-wrong-state", desc+fmt.Sprintf(" : repair restored state %d (offset %d), not the latest completely persisted state %d (offset %d)",
					idx, got, p, d.stateOffs[p]))
				return
			}
			if fmt.Sprint(keys) != fmt.Sprint(d.expected[p]) {
				tr.Fail("restored-wrong-rows", desc+fmt.Sprintf(" : rows %v, expected %v", keys, d.expected[p]))
			}
			if ce := CheckDatabase(crash, true); ce != nil {
				tr.Fail("check-after-repair", desc+" : "+ce.Error())
			}
		}()
		tr.Qf(out, "crash %d %s", cut, strings.Join(ends, ","))
	}
	for _, f := range []string{file, crash, crash + ".bak"} {
		os.Remove(f)
	}
}
