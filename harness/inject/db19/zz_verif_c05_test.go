//go:build verif

package db19

// C05 (search): repair.search against Gsu.Model.Repair.search on REAL good vectors.
// A heap-stor database with k persisted states is damaged in place (records, state records),
// the real vector good[i] = (repair.check(i, offsets[i]) != nil) is computed for every state
// offset the scanner finds (newest first), and repair.search() is run on the same store.
// Direct oracles: search never panics (including when there is no state at all), the state it
// returns passed the check, and when good and bad states are not mixed it is the newest good one.

import (
	"fmt"
	"math/rand"
	"os"
	"strconv"
	"strings"
	"testing"

	"github.com/apmckinlay/gsuneido/db19/stor"
	lib "github.com/apmckinlay/gsuneido/util/zzverif"
)

type c05row struct {
	key      string
	insState int // first state that contains the row
	delState int // first state that no longer contains it (-1: never deleted)
	off      uint64
}

func TestVerifC05Search(t *testing.T) {
	tr := lib.Open()
	defer tr.Close()
	r := lib.Rand()
	n := lib.N(300)
	// repair.search / check print progress lines
	stdout := os.Stdout
	if devnull, err := os.OpenFile(os.DevNull, os.O_WRONLY, 0); err == nil {
		os.Stdout = devnull
		defer func() { os.Stdout = stdout }()
	}
	for h := 0; h < n; h++ {
		c05history(tr, r, h)
	}
}

func c05history(tr *lib.Trace, r *rand.Rand, h int) {
	store := stor.HeapStor(64 * 1024)
	db := CreateDb(store)
	db.CheckerSync()
	k := 0
	switch x := r.Intn(20); {
	case x == 0:
		k = 0 // the file has the magic but no state
	case x < 8:
		k = 1 + r.Intn(5)
	case x < 16:
		k = 4 + r.Intn(16)
	default:
		k = 16 + r.Intn(30)
	}
	tr.Count("states=" + c05bucket(k))
	var rows []*c05row
	var stateOffs []uint64
	if k > 0 {
		createTbl(db)
	} else {
		// something other than a state after the magic
		_, buf := store.Alloc(40)
		copy(buf, "some record bytes but no state yet")
	}
	nkey := 0
	for p := 0; p < k; p++ {
		for i := 1 + r.Intn(2); i > 0; i-- {
			if len(rows) > 0 && r.Intn(4) == 0 {
				// delete a live row
				var live []*c05row
				for _, rw := range rows {
					if rw.delState < 0 {
						live = append(live, rw)
					}
				}
				if len(live) > 0 {
					rw := live[r.Intn(len(live))]
					ut := db.NewUpdateTran()
					ut.Delete(nil, "mytable", rw.off)
					db.CommitMerge(ut)
					rw.delState = p
					continue
				}
			}
			nkey++
			key := "k" + strconv.Itoa(100000+nkey)
			ut := db.NewUpdateTran()
			ut.Output(nil, "mytable", mkrec(key, "data-"+strings.Repeat("z", r.Intn(40))))
			db.CommitMerge(ut)
			rec := db.NewReadTran().Lookup("mytable", 0, string(mkrec(key).GetRaw(0)))
			rows = append(rows, &c05row{key: key, insState: p, delState: -1, off: rec.Off})
		}
		st := db.persist(&execPersistSingle{}, false)
		stateOffs = append(stateOffs, st.Off)
	}

	// ---- damage
	kind := "none"
	var damaged *c05row
	flip := func(off uint64, at int) {
		store.Data(off)[at] ^= 0x5a
	}
	if k > 0 {
		switch x := r.Intn(10); {
		case x < 2:
			// nothing damaged
		case x < 6:
			// a row that is never deleted: every state from its insertion on is bad
			var c []*c05row
			for _, rw := range rows {
				if rw.delState < 0 {
					c = append(c, rw)
				}
			}
			if len(c) > 0 {
				rw := c[r.Intn(len(c))]
				flip(rw.off, 3+r.Intn(8))
				kind = "monotone"
				damaged = rw
			}
		case x < 8:
			// a row deleted later: the states in between are bad (good and bad mixed)
			var c []*c05row
			for _, rw := range rows {
				if rw.delState > rw.insState {
					c = append(c, rw)
				}
			}
			if len(c) > 0 {
				rw := c[r.Intn(len(c))]
				flip(rw.off, 3+r.Intn(8))
				kind = "mixed"
				damaged = rw
			}
		case x < 9:
			// damaged state records (isolated bad states)
			for i := 1 + r.Intn(3); i > 0; i-- {
				flip(stateOffs[r.Intn(len(stateOffs))], len(magic1)+r.Intn(dateSize))
			}
			kind = "state-records"
		default:
			// the first row: every state is bad
			if len(rows) > 0 && rows[0].delState < 0 {
				flip(rows[0].off, 3+r.Intn(8))
				kind = "all"
			}
		}
	}
	tr.Count("damage=" + kind)

	// ---- the real good vector, newest first
	scnr := newScanner(store)
	offsets, _ := scnr.getUpTo(1 << 30)
	offsets = append([]uint64{}, offsets...)
	scnr.close()
	rp := repair{store: store}
	var bits strings.Builder
	good := make([]bool, len(offsets))
	for i, off := range offsets {
		msg := lib.Catch(func() { good[i] = rp.check(i, off) != nil })
		if msg != "" {
			tr.Fail("check-panic", fmt.Sprintf("history %d: repair.check(%d) panics: %s", h, i, msg))
		}
		if good[i] {
			bits.WriteByte('1')
		} else {
			bits.WriteByte('0')
		}
	}
	vec := bits.String()
	if vec == "" {
		vec = "-"
	}
	if len(offsets) != k {
		tr.Count("scanner-count-differs")
	}
	mono := true
	for i := 1; i < len(good); i++ {
		if good[i-1] && !good[i] {
			mono = false
		}
	}
	tr.Count(fmt.Sprintf("vector-monotone=%v", mono))
	// direct oracle on the check itself: a state passes iff it does not contain the damaged row
	if damaged != nil && len(offsets) == k {
		for i := range good {
			p := k - 1 - i // state number from the oldest
			contains := p >= damaged.insState && (damaged.delState < 0 || p < damaged.delState)
			if good[i] == contains {
				what := "passes the check although it contains the damaged record"
				if !good[i] {
					what = "fails the check although it does not contain the damaged record"
				}
				tr.Fail("check-wrong-verdict", fmt.Sprintf("history %d: %d states, damaged record %s inserted before state %d deleted before state %d: state %d %s (good, newest first = %s)",
					h, k, damaged.key, damaged.insState, damaged.delState, p, what, vec))
				break
			}
		}
		tr.Count("oracle=check-verdict")
	}

	// ---- repair.search on the same store
	rs := repair{store: store}
	var idx int
	var off uint64
	var st *DbState
	msg := lib.Catch(func() { idx, off, st = rs.search() })
	desc := fmt.Sprintf("history %d: %d states, damage %s, good (newest first) = %s", h, k, kind, vec)
	if msg != "" {
		tr.Qf("!panic", "search %s", vec)
		sig := "search-panic"
		if len(offsets) == 0 {
			sig = "repair-panic-no-states"
		}
		tr.Fail(sig, desc+" : repair.search panics: "+msg)
		return
	}
	out := "none"
	if off != 0 {
		out = strconv.Itoa(idx)
	}
	tr.Qf(out, "search %s", vec)
	if off != 0 {
		if idx < 0 || idx >= len(offsets) || offsets[idx] != off || st == nil {
			tr.Fail("search-index-offset-mismatch", desc+fmt.Sprintf(" : returned index %d offset %d", idx, off))
		} else if !good[idx] {
			tr.Fail("search-picked-bad", desc+fmt.Sprintf(" : returned index %d, which does not pass the check", idx))
		} else if mono {
			for j := 0; j < idx; j++ {
				if good[j] {
					tr.Fail("search-not-newest", desc+fmt.Sprintf(" : returned index %d but %d is good", idx, j))
					break
				}
			}
		}
		tr.Count("result=found")
	} else {
		if mono {
			for j := range good {
				if good[j] {
					tr.Fail("search-missed-good", desc+fmt.Sprintf(" : reported no valid state but %d is good", j))
					break
				}
			}
		}
		tr.Count("result=none")
	}
}

func c05bucket(k int) string {
	switch {
	case k == 0:
		return "0"
	case k <= 5:
		return "1-5"
	case k <= 15:
		return "6-15"
	case k <= 30:
		return "16-30"
	}
	return "31+"
}
