//go:build verif

package db19

// Correspondence + direct oracles for the M-DB physical layer (C06, C03, C16, C02).
//
// One history engine, four entry points (TestVerifC06 / C03 / C16 / C02) that differ in the
// operation mix.  A history drives the real db19 code single-threaded under a generated
// schedule: N read transactions and M update transactions held open across commits,
// Database.Merge with commits performed *inside* the compute step, Database.persist with commits
// between Save and apply, and index creation on a populated table through the real
// AlterCreate/Ensure with a wrapped Checker that runs the pending Merge between buildIndexes and
// the final UpdateState (DESIGN §6 finding 15).
//
// Every state change is a Q line replayed by Gsu.Db.step; after every step every open
// transaction is re-read through every index (forward and backward) and compared with the
// model (Q) and with the harness's own shadow of the committed rows (F = direct oracle).

import (
	"fmt"
	"math/rand"
	"os"
	"slices"
	"sort"
	"strings"
	"sync"
	"sync/atomic"
	"testing"
	"time"

	"github.com/apmckinlay/gsuneido/core"
	"github.com/apmckinlay/gsuneido/db19/index"
	"github.com/apmckinlay/gsuneido/db19/meta"
	"github.com/apmckinlay/gsuneido/db19/meta/schema"
	"github.com/apmckinlay/gsuneido/db19/stor"
	lib "github.com/apmckinlay/gsuneido/util/zzverif"
)

type dpCfg struct {
	name      string
	steps     int
	wMerge    int // weights of the step kinds
	wPersist  int
	wBuild    int
	wTranOp   int
	wBegin    int
	wRead     int
	inCompute int  // percent of merges/persists with commits inside the compute step
	bigTran   bool // one history with a transaction that reaches writeMax
	longTran  bool // bursts of many writes by one update transaction
}

type dpRow struct {
	off     uint64
	size    int
	k, a, b string
}

type dpTran struct {
	id        int
	ut        *UpdateTran // nil for a read transaction
	rt        *ReadTran
	dead      bool               // aborted (by the checker or explicitly)
	view      []map[uint64]dpRow // shadow: rows this transaction must see, per table
	startView []map[uint64]dpRow // shadow: the committed rows when it started
	first     map[string]string  // first result of every scan (repeatable reads)
	wrote     []bool
	stale     [][]dpRow       // per table: row versions this transaction itself replaced or deleted
	held      map[int]*dpHeld // iterators kept open across the transaction\'s own writes
}

type dpHist struct {
	tr         *lib.Trace
	r          *rand.Rand
	cfg        dpCfg
	db         *Database
	ck         *Check
	tables     []string
	live       []map[uint64]dpRow // shadow of the committed rows per table (serial application)
	pending    []int              // committed, unmerged layers per table
	trans      []*dpTran
	nextId     int
	newIdx     [][][]string // candidate new indexes per table
	failed     bool
	soft       bool
	nNoOff     int
	forceRow   *dpRow // the next tranOp1 writes this row (of table forceTn)
	forceTn    int
	plainBuild bool // scripted history: index build without any generated extras
	hid        int
	log        []string // op lines of this history (for failure descriptions)
}

func dpRec(k, a, b string) core.Record {
	var rb core.RecordBuilder
	rb.Add(core.SuStr(k))
	rb.Add(core.SuStr(a))
	rb.Add(core.SuStr(b))
	return rb.Build()
}

// dpRecN builds a record of string fields
func dpRecN(vals ...string) core.Record {
	var rb core.RecordBuilder
	for _, v := range vals {
		rb.Add(core.SuStr(v))
	}
	return rb.Build()
}

func (h *dpHist) q(op, out string) {
	h.tr.Q(op, out)
	h.log = append(h.log, op)
}

func (h *dpHist) fail(sig, msg string) {
	// one report per history is enough; the structural defect "index-extra-layer" does not stop
	// the history so that its consequences (lost rows after a reopen) are exhibited too
	if h.failed || (sig == "index-extra-layer" && h.soft) {
		return
	}
	if sig == "index-extra-layer" {
		h.soft = true
	} else {
		h.failed = true
	}
	var ops []string
	for _, l := range h.log {
		if !strings.HasPrefix(l, "scan ") && !strings.HasPrefix(l, "info ") && !strings.HasPrefix(l, "dscan ") &&
			!strings.HasPrefix(l, "dinfo ") && !strings.HasPrefix(l, "look ") {
			ops = append(ops, l)
		}
	}
	hist := strings.Join(ops, "; ")
	if len(hist) > 1500 {
		hist = "…" + hist[len(hist)-1500:]
	}
	h.tr.Fail(sig, fmt.Sprintf("seed %d history %d (%s): %s | ops: %s", lib.Seed(), h.hid, h.cfg.name, msg, hist))
}

// noOff is the record offset reported for a write the implementation refused (no row was
// stored): a number no real offset can have (offsets are < 2^40), different every time, so that
// the model's "record offsets are never reused" hypothesis holds for refused writes too
func (h *dpHist) noOff() uint64 {
	h.nNoOff++
	return 1<<40 + uint64(h.nNoOff)
}

func (h *dpHist) tblNo(table string) int { return slices.Index(h.tables, table) }

func (h *dpHist) keysOf(ts *meta.Schema, rec core.Record) []string {
	keys := make([]string, len(ts.Indexes))
	for i := range ts.Indexes {
		keys[i] = ts.Indexes[i].Ixspec.Key(rec)
	}
	return keys
}

// outcome classification of an implementation panic
func dpClass(msg string) string {
	switch {
	case msg == "":
		return "ok"
	case strings.Contains(msg, "duplicate key"):
		return "!dup"
	case strings.Contains(msg, "too many writes"):
		return "!toomany"
	case strings.Contains(msg, "on same record"):
		// a write through the offset of a row version this transaction has already replaced or
		// deleted ("update & update / update & delete / delete & update on same record")
		return "!norow"
	case strings.Contains(msg, "transaction aborted"), strings.Contains(msg, "transaction already ended"):
		return "aborted"
	}
	return "!panic:" + msg
}

// sweep reports every update transaction the checker has aborted since the last look
func (h *dpHist) sweep() {
	for _, t := range h.trans {
		if t.ut != nil && !t.dead && t.ut.ct.failure.Load() != "" {
			t.dead = true
			h.q(fmt.Sprintf("abort %d", t.id), "ok")
			h.tr.Count("abort:" + dpReason(t.ut.ct.failure.Load()))
		}
	}
}

func dpReason(s string) string {
	switch {
	case strings.Contains(s, "exclusive"):
		return "exclusive"
	case strings.Contains(s, "conflicted"):
		return "conflict"
	case strings.Contains(s, "max age"):
		return "maxage"
	case s == "aborted":
		return "explicit"
	}
	return "other"
}

func (h *dpHist) begin(update bool) {
	t := &dpTran{id: h.nextId, first: map[string]string{}}
	h.nextId++
	if update {
		t.ut = h.db.NewUpdateTran()
		t.rt = &t.ut.ReadTran
	} else {
		t.rt = h.db.NewReadTran()
	}
	for _, lv := range h.live {
		m := make(map[uint64]dpRow, len(lv))
		for o, r := range lv {
			m[o] = r
		}
		t.view = append(t.view, m)
		t.startView = append(t.startView, lv2(lv))
	}
	t.wrote = make([]bool, len(h.tables))
	t.stale = make([][]dpRow, len(h.tables))
	h.trans = append(h.trans, t)
	h.q(fmt.Sprintf("begin %d", t.id), "ok")
	if update {
		h.tr.Count("begin:update")
	} else {
		h.tr.Count("begin:read")
	}
}

var dpKs = []string{"k0", "k1", "k2", "k3", "k4", "k5", "k6", "k7", "k8", "k9"}

func (h *dpHist) randRow() (k, a, b string) {
	k = dpKs[h.r.Intn(len(dpKs))]
	if h.r.Intn(8) == 0 {
		k += "\x00x" // a key value with an embedded zero (escaped in composite keys)
	}
	a = fmt.Sprint("a", h.r.Intn(3))
	if h.r.Intn(5) == 0 {
		a = "" // partly (or, with b, entirely) empty values of the composite unique index
	}
	b = strings.Repeat("b", h.r.Intn(4))
	return
}

// pick a row the transaction sees (from its shadow view)
func (h *dpHist) pickRow(t *dpTran, tn int) (dpRow, bool) {
	if h.forceRow != nil && tn == h.forceTn {
		if row, ok := t.view[tn][h.forceRow.off]; ok {
			return row, true
		}
	}
	if len(t.view[tn]) == 0 {
		return dpRow{}, false
	}
	offs := make([]uint64, 0, len(t.view[tn]))
	for o := range t.view[tn] {
		offs = append(offs, o)
	}
	slices.Sort(offs)
	return t.view[tn][offs[h.r.Intn(len(offs))]], true
}

// addStale remembers a replaced/deleted row version for later writes through its stale offset.
// Only rows of the snapshot: a row the transaction itself added and removed again leaves no
// entry in its buffers (add+delete cancel), and the implementation does not detect a write
// through such an offset at all (noted in the report, not judged by this check).
func (t *dpTran) addStale(tn int, row dpRow) {
	if _, ok := t.startView[tn][row.off]; ok {
		t.stale[tn] = append(t.stale[tn], row)
	}
}

// readRow reads the row through the transaction (registering the read with the conflict
// checker, as every caller of Delete/Update must) and returns false if that aborted it
func (h *dpHist) readRow(t *dpTran, tn int, row dpRow) bool {
	table := h.tables[tn]
	ts := t.ut.getSchema(table)
	key := ts.Indexes[0].Ixspec.Key(OffToRec(h.db.Store, row.off))
	var dr *core.DbRec
	msg := lib.Catch(func() { dr = t.ut.Lookup(table, 0, key) })
	if msg != "" {
		h.tr.Count("read:aborted")
		h.sweep()
		return false
	}
	if dr == nil || dr.Off != row.off {
		h.fail("stale-read", fmt.Sprintf("t%d Lookup(%s, %q) = %v, its snapshot + own writes has offset %d", t.id, table, key, dr, row.off))
		return false
	}
	h.q(fmt.Sprintf("look %d %d 0 %s", t.id, tn, lib.X(key)), fmt.Sprint(dr.Off))
	h.sweep()
	return !t.dead
}

type dpHeld struct {
	it   *index.OverIter
	last string
	has  bool
}

// tranOp performs one write on an open update transaction and then advances one of the index
// iterators the transaction keeps open across its own writes
func (h *dpHist) tranOp(t *dpTran) {
	h.forceRow = nil
	if t.ut != nil && !t.dead && len(t.held) > 0 && h.r.Intn(3) == 0 {
		// write just AHEAD of an open iterator: the row the iterator will reach next (possibly one
		// this transaction has already written) is updated or deleted before the iterator gets there
		keys := make([]int, 0, len(t.held))
		for k := range t.held {
			keys = append(keys, k)
		}
		slices.Sort(keys)
		hk := keys[h.r.Intn(len(keys))]
		tn, i := hk/16, hk%16
		hd := t.held[hk]
		if ts := t.rt.meta.GetRoSchema(h.tables[tn]); ts != nil && i < len(ts.Indexes) && hd.has {
			// any row AHEAD of the iterator (not only the very next one: the look-ahead of the
			// transaction's own buffer is its next entry, however many other rows lie between),
			// preferably one this transaction has already written
			var ahead, own []dpRow
			for o, row := range t.view[tn] {
				if ts.Indexes[i].Ixspec.Key(OffToRec(h.db.Store, o)) > hd.last {
					ahead = append(ahead, row)
					if _, snap := t.startView[tn][o]; !snap {
						own = append(own, row)
					}
				}
			}
			keyOf := func(r dpRow) string { return ts.Indexes[i].Ixspec.Key(OffToRec(h.db.Store, r.off)) }
			sort.Slice(ahead, func(x, y int) bool { return keyOf(ahead[x]) < keyOf(ahead[y]) })
			sort.Slice(own, func(x, y int) bool { return keyOf(own[x]) < keyOf(own[y]) })
			var best *dpRow
			if len(own) > 0 && h.r.Intn(3) != 0 {
				// mostly the FIRST own entry ahead: that is where the sub-iterator over the
				// transaction's own buffer is waiting
				best = &own[0]
				if h.r.Intn(4) == 0 {
					best = &own[h.r.Intn(len(own))]
				}
			} else if len(ahead) > 0 {
				best = &ahead[h.r.Intn(len(ahead))]
			}
			if best != nil {
				h.forceRow, h.forceTn = best, tn
				h.tr.Count("write ahead of an open iterator")
			}
		}
	}
	h.tranOp1(t)
	h.forceRow = nil
	if t.ut != nil && !t.dead && !h.failed && h.r.Intn(2) == 0 {
		if msg := lib.Catch(func() { h.stepHeld(t) }); msg != "" {
			h.fail("iter-panic", fmt.Sprintf("t%d: iterator kept open across its own writes: %s", t.id, msg))
		}
	}
}

// stepHeld: "an update transaction sees its own changes" through ITERATION: an iterator that was
// opened earlier and is advanced after the transaction has written again (also to keys it had
// already written) must yield exactly the next key of the transaction's current view, with the
// current version of the row.
func (h *dpHist) stepHeld(t *dpTran) {
	tn := h.r.Intn(len(h.tables))
	table := h.tables[tn]
	ts := t.rt.meta.GetRoSchema(table)
	ti := t.rt.meta.GetRoInfo(table)
	if ts == nil || ti == nil || len(ts.Indexes) == 0 {
		return
	}
	i := h.r.Intn(len(ts.Indexes))
	if t.held == nil {
		t.held = map[int]*dpHeld{}
	}
	hd := t.held[tn*16+i]
	if hd == nil {
		hd = &dpHeld{it: index.NewOverIter(table, i)}
		t.held[tn*16+i] = hd
	}
	// expectation from the shadow view: the smallest key greater than the last one returned
	var wantKey string
	var wantOff uint64
	for o := range t.view[tn] {
		k := ts.Indexes[i].Ixspec.Key(OffToRec(h.db.Store, o))
		if (!hd.has || k > hd.last) && (wantOff == 0 || k < wantKey) {
			wantKey, wantOff = k, o
		}
	}
	hd.it.Next(t.rt)
	lastShown := "-"
	if hd.has {
		lastShown = lib.X(hd.last)
	}
	got := "-"
	if !hd.it.Eof() {
		k, o := hd.it.Cur()
		got = fmt.Sprintf("%s:%d", lib.X(k), o)
	}
	h.q(fmt.Sprintf("next %d %d %d %s", t.id, tn, i, lastShown), got)
	h.tr.Count("held-iterator step")
	want := "-"
	if wantOff != 0 {
		want = fmt.Sprintf("%s:%d", lib.X(wantKey), wantOff)
	}
	if got != want {
		h.fail("iter-stale", fmt.Sprintf("update transaction t%d, iterator on %s index %d (%v) opened before its later writes, positioned after %s: Next returned %s, the transaction's own view has %s next",
			t.id, table, i, ts.Indexes[i].Columns, lastShown, got, want))
		return
	}
	if hd.it.Eof() {
		delete(t.held, tn*16+i)
		return
	}
	hd.last, hd.has = wantKey, true
}

// tranOp1 performs one Output/Delete/Update on an open update transaction
func (h *dpHist) tranOp1(t *dpTran) {
	if t.ut == nil || t.dead {
		return
	}
	tn := h.r.Intn(len(h.tables))
	if h.forceRow != nil {
		tn = h.forceTn
	}
	table := h.tables[tn]
	ut := t.ut
	ts := ut.getSchema(table)
	ncols := len(ts.Columns)
	if len(t.stale[tn]) > 0 && h.r.Intn(3) == 0 {
		// a write through a STALE offset (an old record object / cursor): the row version was
		// already replaced or deleted by this same transaction.  The implementation must refuse
		// it and must not leave a half applied change behind that could still be committed.
		row := t.stale[tn][h.r.Intn(len(t.stale[tn]))]
		if _, still := t.view[tn][row.off]; still {
			return
		}
		var msg string
		if h.r.Intn(2) == 0 {
			rec := dpRec(row.k, row.a, row.b+"s").Truncate(ncols) // same key, other data
			keys := h.keysOf(ts, rec)
			msg = lib.Catch(func() { ut.Update(nil, table, row.off, rec) })
			cls := dpClass(msg)
			h.tr.Count("stale-upd:" + strings.SplitN(cls, ":", 2)[0])
			if cls == "ok" {
				h.fail("stale-write-accepted", fmt.Sprintf("t%d Update through the stale offset %d (row version it had already replaced/deleted) succeeded", t.id, row.off))
				return
			}
			if cls != "aborted" {
				h.q(fmt.Sprintf("upd %d %d %d %d %d %s", t.id, tn, row.off, h.noOff(), rec.Len(), lib.Xs(keys)), cls)
			}
		} else {
			msg = lib.Catch(func() { ut.Delete(nil, table, row.off) })
			cls := dpClass(msg)
			h.tr.Count("stale-del:" + strings.SplitN(cls, ":", 2)[0])
			if cls == "ok" {
				h.fail("stale-write-accepted", fmt.Sprintf("t%d Delete through the stale offset %d succeeded", t.id, row.off))
				return
			}
			if cls != "aborted" {
				h.q(fmt.Sprintf("del %d %d %d", t.id, tn, row.off), cls)
			}
		}
		h.sweep()
		return
	}
	kind := h.r.Intn(10)
	if h.forceRow != nil {
		kind = 5 + h.r.Intn(5)
	}
	switch {
	case kind < 5: // output
		k, a, b := h.randRow()
		rec := dpRec(k, a, b).Truncate(ncols)
		keys := h.keysOf(ts, rec)
		msg := lib.Catch(func() { ut.Output(nil, table, rec) })
		cls := dpClass(msg)
		h.tr.Count("out:" + strings.SplitN(cls, ":", 2)[0])
		if cls == "aborted" {
			h.sweep()
			return
		}
		off := h.noOff()
		if cls == "ok" {
			dr := ut.ReadTran.Lookup(table, 0, keys[0])
			if dr == nil {
				h.fail("own-write-not-visible", fmt.Sprintf("t%d output %q not found by its own Lookup", t.id, k))
				return
			}
			off = dr.Off
			t.view[tn][off] = dpRow{off, rec.Len(), k, a, b}
			t.wrote[tn] = true
		}
		h.q(fmt.Sprintf("out %d %d %d %d %s", t.id, tn, off, rec.Len(), lib.Xs(keys)), cls)
	case kind < 7: // delete
		row, ok := h.pickRow(t, tn)
		if !ok || !h.readRow(t, tn, row) {
			return
		}
		msg := lib.Catch(func() { ut.Delete(nil, table, row.off) })
		cls := dpClass(msg)
		h.tr.Count("del:" + strings.SplitN(cls, ":", 2)[0])
		if cls == "aborted" {
			h.sweep()
			return
		}
		if cls == "ok" {
			delete(t.view[tn], row.off)
			t.wrote[tn] = true
			t.addStale(tn, row)
		}
		h.q(fmt.Sprintf("del %d %d %d", t.id, tn, row.off), cls)
	default: // update (sometimes changing the key)
		row, ok := h.pickRow(t, tn)
		if !ok || !h.readRow(t, tn, row) {
			return
		}
		k, a, b := row.k, row.a, row.b
		switch h.r.Intn(3) {
		case 0:
			k, _, _ = h.randRow()
			if k == row.k {
				a += "'"
			}
		case 1:
			a += "'"
		default:
			b += "b"
		}
		rec := dpRec(k, a, b).Truncate(ncols)
		keys := h.keysOf(ts, rec)
		var newoff uint64
		msg := lib.Catch(func() { newoff = ut.Update(nil, table, row.off, rec) })
		cls := dpClass(msg)
		if cls != "ok" {
			newoff = h.noOff()
		}
		h.tr.Count("upd:" + strings.SplitN(cls, ":", 2)[0])
		if cls == "aborted" {
			h.sweep()
			return
		}
		if cls == "ok" {
			delete(t.view[tn], row.off)
			t.view[tn][newoff] = dpRow{newoff, rec.Len(), k, a, b}
			t.wrote[tn] = true
			t.addStale(tn, row)
		}
		h.q(fmt.Sprintf("upd %d %d %d %d %d %s", t.id, tn, row.off, newoff, rec.Len(), lib.Xs(keys)), cls)
	}
	h.sweep()
}

// finish commits or aborts an open transaction
func (h *dpHist) finish(t *dpTran, commit bool) {
	i := slices.Index(h.trans, t)
	h.trans = slices.Delete(h.trans, i, i+1)
	if t.ut == nil {
		h.q(fmt.Sprintf("abort %d", t.id), "ok") // a read transaction just ends
		return
	}
	if !commit {
		if !t.dead {
			t.ut.Abort()
			h.q(fmt.Sprintf("abort %d", t.id), "ok")
			h.tr.Count("abort:explicit")
		}
		return
	}
	tables := h.ck.commit(t.ut)
	if tables == nil {
		// Complete() would return the failure string
		h.q(fmt.Sprintf("commit %d", t.id), "!aborted")
		h.tr.Count("commit:aborted")
		if !t.dead {
			h.fail("commit-failed-unannounced", fmt.Sprintf("t%d: commit refused but failure=%q", t.id, t.ut.ct.failure.Load()))
		}
		return
	}
	if t.dead {
		h.fail("commit-after-abort", fmt.Sprintf("t%d was aborted (%q) but its commit succeeded", t.id, t.ut.ct.failure.Load()))
	}
	if len(tables) > 0 {
		t.ut.commit()
	}
	h.q(fmt.Sprintf("commit %d", t.id), "ok")
	h.tr.Count(fmt.Sprint("commit:ok tables=", len(tables)))
	for tn := range h.tables {
		if !t.wrote[tn] {
			continue
		}
		if slices.Contains(tables, h.tables[tn]) {
			h.pending[tn]++
		}
		// serial application of the transaction's net effect on the committed rows
		for o := range t.startView[tn] {
			if _, ok := t.view[tn][o]; !ok {
				delete(h.live[tn], o)
			}
		}
		for o, r := range t.view[tn] {
			if _, ok := t.startView[tn][o]; !ok {
				h.live[tn][o] = r
			}
		}
	}
}

func lv2(m map[uint64]dpRow) map[uint64]dpRow {
	c := make(map[uint64]dpRow, len(m))
	for o, r := range m {
		c[o] = r
	}
	return c
}

//-------------------------------------------------------------------
// observations

type dpEntry struct {
	key string
	off uint64
}

func dpScan(rt *ReadTran, table string, iIndex int, back bool) (res []dpEntry, err string) {
	err = lib.Catch(func() {
		it := index.NewOverIter(table, iIndex)
		step := func() { it.Next(rt) }
		if back {
			step = func() { it.Prev(rt) }
		}
		for step(); !it.Eof(); step() {
			k, o := it.Cur()
			res = append(res, dpEntry{k, o})
			if len(res) > 100000 {
				panic("scan does not terminate")
			}
		}
	})
	return
}

func dpShow(es []dpEntry) string {
	if len(es) == 0 {
		return "-"
	}
	var sb strings.Builder
	for i, e := range es {
		if i > 0 {
			sb.WriteByte(' ')
		}
		sb.WriteString(lib.X(e.key))
		sb.WriteByte(':')
		fmt.Fprint(&sb, e.off)
	}
	return sb.String()
}

// readAll re-reads `who` ("-" = a fresh read transaction on the latest state) through every
// index of every table, forward and backward; Q lines for the model, direct oracles against
// the shadow rows `want`.
func (h *dpHist) readAll(who string, rt *ReadTran, want []map[uint64]dpRow, t *dpTran) {
	for tn, table := range h.tables {
		ts := rt.meta.GetRoSchema(table)
		ti := rt.meta.GetRoInfo(table)
		if ts == nil || ti == nil {
			continue
		}
		wantOffs := make([]uint64, 0, len(want[tn]))
		size := 0
		for o, r := range want[tn] {
			wantOffs = append(wantOffs, o)
			size += r.size
		}
		slices.Sort(wantOffs)
		for i := range ts.Indexes {
			fwd, e1 := dpScan(rt, table, i, false)
			bwd, e2 := dpScan(rt, table, i, true)
			if e1 != "" || e2 != "" {
				h.fail("scan-panic", fmt.Sprintf("%s table %s index %d: %s %s", who, table, i, e1, e2))
				return
			}
			h.q(fmt.Sprintf("scan %s %d %d f", who, tn, i), dpShow(fwd))
			h.q(fmt.Sprintf("scan %s %d %d b", who, tn, i), dpShow(bwd))
			// F: exactly one entry per visible row, under that row's key, in key order
			got := make([]uint64, 0, len(fwd))
			for j, e := range fwd {
				got = append(got, e.off)
				if j > 0 && fwd[j-1].key >= e.key {
					h.fail("scan-order", fmt.Sprintf("%s %s index %d not ascending at %q", who, table, i, e.key))
				}
				rec := rt.GetRecord(e.off)
				if k := ts.Indexes[i].Ixspec.Key(rec); k != e.key {
					h.fail("index-wrong-key", fmt.Sprintf("%s %s index %d entry %q -> off %d whose key is %q", who, table, i, e.key, e.off, k))
				}
			}
			slices.Sort(got)
			if !slices.Equal(got, wantOffs) {
				sig := "index-disagrees"
				if t != nil {
					sig = "stale-read" // an open transaction no longer sees its snapshot (+ own writes)
				}
				h.fail(sig, fmt.Sprintf("%s %s index %d (%v) yields offsets %v, visible rows are %v",
					who, table, i, ts.Indexes[i].Columns, got, wantOffs))
			}
			for j := range fwd {
				if len(bwd) != len(fwd) || bwd[len(fwd)-1-j] != fwd[j] {
					h.fail("scan-backward", fmt.Sprintf("%s %s index %d backward scan is not the reverse of forward", who, table, i))
					break
				}
			}
			if t != nil {
				key := fmt.Sprint(tn, ":", i)
				cur := dpShow(fwd)
				if t.ut == nil { // a read transaction must repeat its first answer for ever
					if f, ok := t.first[key]; ok && f != cur {
						h.fail("read-not-repeatable", fmt.Sprintf("%s %s index %d: first %s now %s", who, table, i, f, cur))
					}
					t.first[key] = cur
				}
			}
		}
		// F: row count and size equal the actual rows and bytes
		if ti.Nrows != len(wantOffs) {
			h.fail("info-nrows", fmt.Sprintf("%s %s Nrows %d, actual rows %d", who, table, ti.Nrows, len(wantOffs)))
		}
		if ti.Size != int64(size) {
			h.fail("info-size", fmt.Sprintf("%s %s Size %d, actual bytes %d", who, table, ti.Size, size))
		}
		if who == "-" {
			nl := make([]string, len(ti.Indexes))
			for i, ov := range ti.Indexes {
				nl[i] = fmt.Sprint(ov.Nlayers())
				if ov.Nlayers() != len(ti.Deltas) {
					h.fail("index-extra-layer", fmt.Sprintf("%s index %d (%v) has %d layers, the table has %d deltas (other indexes: %d layers)",
						table, i, ts.Indexes[i].Columns, ov.Nlayers(), len(ti.Deltas), ti.Indexes[0].Nlayers()))
				}
			}
			ds := make([]string, len(ti.Deltas))
			sn, ss := ti.BtreeNrows, ti.BtreeSize
			for i, d := range ti.Deltas {
				ds[i] = fmt.Sprint(d.Nrows, ":", d.Size)
				sn += d.Nrows
				ss += d.Size
			}
			if sn != ti.Nrows || ss != ti.Size {
				h.fail("info-deltas", fmt.Sprintf("%s btree %d/%d + deltas %v != %d/%d", table, ti.BtreeNrows, ti.BtreeSize, ds, ti.Nrows, ti.Size))
			}
			h.q(fmt.Sprintf("info - %d", tn), fmt.Sprintf("%d %d %d %d %s %s", ti.Nrows, ti.Size, ti.BtreeNrows, ti.BtreeSize,
				strings.Join(nl, ","), strings.Join(ds, ",")))
		} else {
			h.q(fmt.Sprintf("info %s %d", who, tn), fmt.Sprintf("%d %d", ti.Nrows, ti.Size))
		}
	}
}

// observe: the latest state and every open transaction
func (h *dpHist) observe() {
	// a panic while reading (e.g. an index entry that points nowhere) is an outcome, not a crash
	if msg := lib.Catch(func() { h.readAll("-", h.db.NewReadTran(), h.live, nil) }); msg != "" {
		h.fail("read-panic", "reading the latest state: "+msg)
	}
	for _, t := range h.trans {
		if t.dead || h.failed {
			continue
		}
		if msg := lib.Catch(func() { h.readAll(fmt.Sprint(t.id), t.rt, t.view, t) }); msg != "" {
			h.fail("read-panic", fmt.Sprintf("reading through t%d: %s", t.id, msg))
		}
	}
}

//-------------------------------------------------------------------
// background steps

// activity is what may run between the compute and the apply of a merge/persist/index build
func (h *dpHist) activity() {
	n := h.r.Intn(3)
	for i := 0; i < n; i++ {
		switch h.r.Intn(3) {
		case 0: // a whole small transaction
			h.begin(true)
			t := h.trans[len(h.trans)-1]
			for j := h.r.Intn(3); j >= 0; j-- {
				h.tranOp(t)
			}
			h.finish(t, true)
		case 1: // advance an open one
			if len(h.trans) > 0 {
				h.tranOp(h.trans[h.r.Intn(len(h.trans))])
			}
		case 2: // commit an open one
			if len(h.trans) > 0 {
				t := h.trans[h.r.Intn(len(h.trans))]
				if t.ut != nil {
					h.finish(t, true)
				}
			}
		}
	}
	h.tr.Count(fmt.Sprint("in-compute-activity=", n))
}

func (h *dpHist) merge(tn, n int, race bool) {
	merges := &mergeList{}
	merges.tn = []tableCount{{table: h.tables[tn], nmerge: n}}
	msg := lib.Catch(func() {
		h.db.Merge(func(m *meta.Meta, ml *mergeList) []meta.MergeUpdate {
			res := mergeSingle(m, ml) // compute on the snapshot, outside UpdateState
			h.q(fmt.Sprintf("mergec %d %d", tn, n), "ok")
			if race {
				h.activity() // commits between compute and apply
			}
			return res
		}, merges)
	})
	if msg != "" {
		h.fail("merge-panic", fmt.Sprintf("Merge(%s,%d): %s", h.tables[tn], n, msg))
		return
	}
	h.q("mergea", "ok")
	h.pending[tn] -= n
	h.tr.Count(fmt.Sprint("merge n=", n, " race=", race))
}

// readDisk reads a persisted state back from storage (what OpenDatabase does); a panic of the
// implementation is an outcome (F line), not a suite crash
func (h *dpHist) readDisk(off uint64) (st *DbState) {
	msg := lib.Catch(func() { st = ReadState(h.db.Store, off) })
	if msg != "" {
		sig := "reopen-panic"
		if strings.Contains(msg, "checksum") {
			sig = "reopen-metadata-cksum"
		}
		h.fail(sig, fmt.Sprintf("the state persisted at offset %d cannot be read back (ReadState): %s", off, msg))
		return nil
	}
	return st
}

type dpExec struct {
	results []meta.PersistUpdate
	between func()
}

func (ep *dpExec) Submit(fn func() meta.PersistUpdate) { ep.results = append(ep.results, fn()) }
func (ep *dpExec) Results() []meta.PersistUpdate {
	ep.between()
	return ep.results
}

func (h *dpHist) persist(race bool) {
	var st *DbState
	msg := lib.Catch(func() {
		st = h.db.persist(&dpExec{between: func() {
			h.q("persistc", "ok")
			if race {
				h.activity()
			}
		}}, false)
	})
	if msg != "" || st == nil {
		h.fail("persist-panic", "persist: "+msg)
		return
	}
	h.q("persista", "ok")
	h.tr.Count(fmt.Sprint("persist race=", race))
	// what a reopen of this persisted state reads
	disk := h.readDisk(st.Off)
	if disk == nil {
		return
	}
	rt := &ReadTran{tran: tran{db: h.db, meta: disk.Meta}}
	for tn, table := range h.tables {
		ts := disk.Meta.GetRoSchema(table)
		ti := disk.Meta.GetRoInfo(table)
		if ts == nil || ti == nil {
			h.fail("reopen-table-missing", table)
			continue
		}
		for i := range ts.Indexes {
			es, e := dpScan(rt, table, i, false)
			if e != "" {
				h.fail("reopen-scan-panic", e)
				continue
			}
			h.q(fmt.Sprintf("dscan %d %d", tn, i), dpShow(es))
		}
		h.q(fmt.Sprintf("dinfo %d", tn), fmt.Sprintf("%d %d", ti.Nrows, ti.Size))
	}
}

// quiesce: merge everything, persist, and check that a reopen would see exactly the committed
// rows through every index, and that the repository's own full check passes
func (h *dpHist) quiesce() {
	for tn := range h.tables {
		if h.pending[tn] > 0 {
			h.merge(tn, h.pending[tn], false)
		}
	}
	if h.failed {
		return
	}
	var st *DbState
	msg := lib.Catch(func() {
		st = h.db.persist(&dpExec{between: func() { h.q("persistc", "ok") }}, false)
	})
	if msg != "" || st == nil {
		h.fail("persist-panic", "persist: "+msg)
		return
	}
	h.q("persista", "ok")
	disk := h.readDisk(st.Off)
	if disk == nil {
		return
	}
	rt := &ReadTran{tran: tran{db: h.db, meta: disk.Meta}}
	for tn, table := range h.tables {
		ts := disk.Meta.GetRoSchema(table)
		want := make([]uint64, 0)
		for o := range h.live[tn] {
			want = append(want, o)
		}
		slices.Sort(want)
		for i := range ts.Indexes {
			es, _ := dpScan(rt, table, i, false)
			h.q(fmt.Sprintf("dscan %d %d", tn, i), dpShow(es))
			got := make([]uint64, 0)
			for _, e := range es {
				got = append(got, e.off)
			}
			slices.Sort(got)
			if !slices.Equal(got, want) {
				h.fail("index-lost-row-after-reopen", fmt.Sprintf("after merging everything and persisting, a reopen reads %s index %d (%v) as offsets %v; committed rows are %v",
					table, i, ts.Indexes[i].Columns, got, want))
			}
		}
		ti := disk.Meta.GetRoInfo(table)
		h.q(fmt.Sprintf("dinfo %d", tn), fmt.Sprintf("%d %d", ti.Nrows, ti.Size))
		if ti.Nrows != len(want) {
			h.fail("reopen-nrows", fmt.Sprintf("%s persisted Nrows %d, committed rows %d", table, ti.Nrows, len(want)))
		}
	}
	if h.failed {
		return
	}
	var ec *errCorrupt
	msg = lib.Catch(func() { ec = checkState(h.db.GetState(), checkTableFull, "", nil) })
	if msg != "" || ec != nil {
		h.fail("dbcheck", fmt.Sprintf("Database.Check(full) on the quiescent state: %v %s", ec, msg))
	}
	h.tr.Count("quiesce+reopen+dbcheck")
}

// dpHook wraps the checker so that `between` runs after buildIndexes and before the final
// UpdateState of the real AlterCreate / Ensure.
type dpHook struct {
	*Check
	added   func(table string)
	between func()
}

func (hk *dpHook) AddExclusive(table string) bool {
	ok := hk.Check.AddExclusive(table)
	if ok {
		hk.added(table)
	}
	return ok
}

func (hk *dpHook) RunEndExclusive(table string, fn func()) any {
	hk.between()
	return hk.Check.RunEndExclusive(table, fn)
}

// build creates an index on a (usually populated) table while other transactions are open,
// optionally with a pending merge applied between buildIndexes and the final UpdateState
func (h *dpHist) build(tn int, midMerge bool) {
	if len(h.newIdx[tn]) == 0 {
		return
	}
	cols := h.newIdx[tn][0]
	h.newIdx[tn] = h.newIdx[tn][1:]
	table := h.tables[tn]
	if !h.plainBuild && h.r.Intn(3) != 0 {
		// a commit just before AddExclusive whose merge is still queued
		h.begin(true)
		t := h.trans[len(h.trans)-1]
		for j := h.r.Intn(3); j >= 0 && !t.dead; j-- {
			k, a, b := h.randRow()
			ts := t.ut.getSchema(table)
			rec := dpRec(k, a, b).Truncate(len(ts.Columns))
			keys := h.keysOf(ts, rec)
			cls := dpClass(lib.Catch(func() { t.ut.Output(nil, table, rec) }))
			if cls == "aborted" {
				h.sweep()
				break
			}
			off := h.noOff()
			if cls == "ok" {
				off = t.ut.ReadTran.Lookup(table, 0, keys[0]).Off
				t.view[tn][off] = dpRow{off, rec.Len(), k, a, b}
				t.wrote[tn] = true
			}
			h.q(fmt.Sprintf("out %d %d %d %d %s", t.id, tn, off, rec.Len(), lib.Xs(keys)), cls)
			h.sweep()
		}
		h.finish(t, true)
	}
	mode := byte('i')
	if cols[0] == "!u" {
		mode, cols = 'u', cols[1:]
	}
	sch := &schema.Schema{Table: table, Indexes: []schema.Index{{Mode: mode, Columns: cols}}}
	emitted := false
	emitBuildc := func() {
		// the state buildIndexes reads (single threaded: nothing runs in between)
		st := h.db.GetState()
		ts := *st.Meta.GetRoSchema(table)
		nold := len(ts.Indexes)
		ts.Indexes = append(slices.Clone(ts.Indexes), sch.Indexes...)
		spec := ts.SetupNewIndexes(nold)[0].Ixspec
		offs := make([]uint64, 0, len(h.live[tn]))
		for o := range h.live[tn] {
			offs = append(offs, o)
		}
		slices.Sort(offs)
		var sb strings.Builder
		for _, o := range offs {
			fmt.Fprintf(&sb, " %d %s", o, lib.X(spec.Key(OffToRec(h.db.Store, o))))
		}
		h.q(fmt.Sprintf("buildc %d%s", tn, sb.String()), "ok")
		emitted = true
		h.sweep() // AddExclusive aborts the transactions that wrote to the table
	}
	if !h.plainBuild && h.r.Intn(2) == 0 {
		// a moment with no active update transaction
		for _, t := range slices.Clone(h.trans) {
			if t.ut != nil {
				h.finish(t, h.r.Intn(2) == 0)
			}
		}
		h.tr.Count("build:no-active-update-tran")
	}
	useEnsure := !h.plainBuild && h.r.Intn(2) == 0
	// a unique index cannot be built over existing duplicates: the build must be refused and
	// leave everything as it was (expectation from the committed rows, not from the build)
	dupExpected := false
	if mode == 'u' {
		st := h.db.GetState()
		ts := *st.Meta.GetRoSchema(table)
		nold := len(ts.Indexes)
		ts.Indexes = append(slices.Clone(ts.Indexes), sch.Indexes...)
		spec := ts.SetupNewIndexes(nold)[0].Ixspec
		seen := map[string]bool{}
		for o := range h.live[tn] {
			k := spec.Key(OffToRec(h.db.Store, o))
			if seen[k] {
				dupExpected = true
				if os.Getenv("VERIF_DEBUG") != "" {
					fmt.Printf("DEBUG dup key %q off %d fields %v %v\n", k, o, spec.Fields, spec.Fields2)
					for o2 := range h.live[tn] {
						fmt.Printf("DEBUG   live %d %q rec %v\n", o2, spec.Key(OffToRec(h.db.Store, o2)), OffToRec(h.db.Store, o2))
					}
				}
			}
			seen[k] = true
		}
	}
	if dupExpected {
		emitBuildc = func() { h.sweep() } // refused build: only the preempted transactions change
	}
	hook := &dpHook{Check: h.ck, added: func(string) { emitBuildc() },
		between: func() {
			if midMerge && h.pending[tn] > 0 {
				// the merge of a commit made just before AddExclusive, still queued
				h.merge(tn, 1+h.r.Intn(h.pending[tn]), false)
				h.tr.Count("build:merge-between-build-and-apply")
			}
			if !h.plainBuild && h.r.Intn(2) == 0 {
				// transactions starting, writing (also to the table being built) and
				// committing while the index is being built
				h.activity()
				h.activity()
			}
		}}
	if useEnsure {
		// Ensure's first phase runs RunExclusive on the real checker; only the second
		// AddExclusive (the one followed by buildIndexes) goes through the hook
		hook.added = func(string) {}
		n := 0
		hook.added = func(string) {
			n++
			emitBuildc()
		}
	}
	h.db.ck = hook
	msg := lib.Catch(func() {
		if useEnsure {
			h.db.Ensure(sch)
		} else {
			h.db.AlterCreate(sch)
		}
	})
	h.db.ck = h.ck
	if dupExpected {
		h.sweep()
		h.tr.Count(fmt.Sprint("build unique over duplicates refused=", strings.Contains(msg, "duplicate value")))
		if !strings.Contains(msg, "duplicate value") && os.Getenv("VERIF_DEBUG") != "" {
			rt := h.db.NewReadTran()
			ts := rt.meta.GetRoSchema(table)
			for i := range ts.Indexes {
				es, e := dpScan(rt, table, i, false)
				fmt.Printf("DEBUG after build index %d %v mode %c: %s %s useEnsure=%v\n", i, ts.Indexes[i].Columns, ts.Indexes[i].Mode, dpShow(es), e, useEnsure)
			}
		}
		if !strings.Contains(msg, "duplicate value") {
			h.fail("unique-build-accepted-duplicates", fmt.Sprintf("create unique index %v on %s whose committed rows have duplicate values for it: result %q (must be refused)", cols, table, msg))
		}
		return
	}
	if msg != "" {
		h.fail("build-panic", fmt.Sprintf("create index %c%v on %s: %s", mode, cols, table, msg))
		return
	}
	if !emitted {
		emitBuildc() // Ensure on an empty table: done inside its first UpdateState
	}
	h.q("builda", "ok")
	h.sweep()
	h.tr.Count(fmt.Sprint("build ensure=", useEnsure, " rows>0=", len(h.live[tn]) > 0, " midMerge=", midMerge))
}

//-------------------------------------------------------------------

func (h *dpHist) run() {
	h.db = CreateDb(stor.HeapStor(64 * 1024))
	h.db.CheckerSync()
	h.ck = h.db.ck.(*Check)
	h.q("reset", "ok")
	nt := 1 + h.r.Intn(2)
	for i := 0; i < nt; i++ {
		name := fmt.Sprint("t", i)
		h.tables = append(h.tables, name)
		idxs := []schema.Index{{Mode: 'k', Columns: []string{"k"}}, {Mode: 'i', Columns: []string{"a"}}}
		switch h.r.Intn(4) {
		case 0:
			idxs = idxs[:1]
		case 1:
			// a composite unique index: equal values are duplicates unless ALL columns are empty
			idxs = append(idxs, schema.Index{Mode: 'u', Columns: []string{"a", "b"}})
		}
		h.db.Create(&schema.Schema{Table: name, Columns: []string{"k", "a", "b"}, Indexes: idxs})
		h.q(fmt.Sprintf("table %d", len(idxs)), "ok")
		h.live = append(h.live, map[uint64]dpRow{})
		h.pending = append(h.pending, 0)
		// candidate new indexes; "!u" = unique (refused when the existing rows have duplicates)
		cands := [][]string{{"b"}, {"!u", "b", "a"}, {"a", "b"}, {"!u", "a", "k"}}
		h.r.Shuffle(len(cands), func(i, j int) { cands[i], cands[j] = cands[j], cands[i] })
		if len(idxs) == 3 { // already has unique(a,b)
			cands = slices.DeleteFunc(cands, func(c []string) bool { return slices.Equal(c, []string{"a", "b"}) })
		}
		h.newIdx = append(h.newIdx, cands)
	}
	c := h.cfg
	total := c.wMerge + c.wPersist + c.wBuild + c.wTranOp + c.wBegin + c.wRead
	for step := 0; step < c.steps && !h.failed; step++ {
		x := h.r.Intn(total)
		if c.longTran && h.r.Intn(5) == 0 {
			// a long update transaction: many writes in a row (also to rows it has already
			// written, also just ahead of the iterators it keeps open), re-read as it goes
			var t *dpTran
			for _, t2 := range h.trans {
				if t2.ut != nil && !t2.dead {
					t = t2
				}
			}
			if t == nil && len(h.trans) < 5 {
				h.begin(true)
				t = h.trans[len(h.trans)-1]
			}
			for j := 0; t != nil && j < 12 && !t.dead && !h.failed; j++ {
				h.tranOp(t)
				if j%4 == 3 && !t.dead && !h.failed {
					h.readAll(fmt.Sprint(t.id), t.rt, t.view, t)
				}
			}
			h.tr.Count("long-transaction burst")
			if !h.failed {
				h.observe()
			}
			continue
		}
		switch {
		case x < c.wMerge:
			tn := h.r.Intn(len(h.tables))
			if h.pending[tn] > 0 {
				h.merge(tn, 1+h.r.Intn(h.pending[tn]), h.r.Intn(100) < c.inCompute)
			}
		case x < c.wMerge+c.wPersist:
			h.persist(h.r.Intn(100) < c.inCompute)
		case x < c.wMerge+c.wPersist+c.wBuild:
			h.build(h.r.Intn(len(h.tables)), h.r.Intn(3) != 0)
		case x < c.wMerge+c.wPersist+c.wBuild+c.wTranOp:
			if len(h.trans) > 0 {
				t := h.trans[h.r.Intn(len(h.trans))]
				if t.ut == nil || t.dead || h.r.Intn(4) == 0 {
					h.finish(t, h.r.Intn(5) != 0)
				} else {
					h.tranOp(t)
				}
			} else {
				h.begin(true)
			}
		case x < c.wMerge+c.wPersist+c.wBuild+c.wTranOp+c.wBegin:
			if len(h.trans) < 5 {
				h.begin(true)
			}
		default:
			if len(h.trans) < 5 {
				h.begin(false)
			}
		}
		if !h.failed {
			h.observe()
		}
	}
	if h.failed {
		return
	}
	for len(h.trans) > 0 {
		h.finish(h.trans[0], h.r.Intn(2) == 0)
	}
	h.observe()
	if !h.failed {
		h.quiesce()
	}
}

// runScripted: the minimal schedules of the defects this check has found, played first
// (regression inputs; they pass on a repaired tree).
//
//  1. a row that exists only in ixbuf layers when an index is built (so the new index has it
//     in its btree), deleted before it was ever persisted, merged, persisted, reopened
//     (findings/C06.md "persist skips a table whose first index has an empty base layer")
func (h *dpHist) runScripted() {
	h.db = CreateDb(stor.HeapStor(64 * 1024))
	h.db.CheckerSync()
	h.ck = h.db.ck.(*Check)
	h.q("reset", "ok")
	h.tables = []string{"t0"}
	h.db.Create(&schema.Schema{Table: "t0", Columns: []string{"k", "a", "b"},
		Indexes: []schema.Index{{Mode: 'k', Columns: []string{"k"}}, {Mode: 'i', Columns: []string{"a"}}}})
	h.q("table 2", "ok")
	h.live = []map[uint64]dpRow{{}}
	h.pending = []int{0}
	h.newIdx = [][][]string{{{"b", "a"}}}
	h.plainBuild = true
	// commit one row; it stays in the ixbuf layers
	h.begin(true)
	t := h.trans[0]
	ts := t.ut.getSchema("t0")
	rec := dpRec("k1", "a1", "b").Truncate(len(ts.Columns))
	keys := h.keysOf(ts, rec)
	t.ut.Output(nil, "t0", rec)
	off := t.ut.ReadTran.Lookup("t0", 0, keys[0]).Off
	t.view[0][off] = dpRow{off, rec.Len(), "k1", "a1", "b"}
	t.wrote[0] = true
	h.q(fmt.Sprintf("out %d 0 %d %d %s", t.id, off, rec.Len(), lib.Xs(keys)), "ok")
	h.finish(t, true)
	h.observe()
	// build an index: the row goes into the new index's btree
	h.build(0, false)
	h.observe()
	h.merge(0, h.pending[0], false)
	h.observe()
	// delete the row before it was ever persisted
	h.begin(true)
	t = h.trans[0]
	if h.readRow(t, 0, t.view[0][off]) {
		t.ut.Delete(nil, "t0", off)
		delete(t.view[0], off)
		t.wrote[0] = true
		h.q(fmt.Sprintf("del %d 0 %d", t.id, off), "ok")
	}
	h.finish(t, true)
	h.observe()
	if !h.failed {
		h.quiesce() // merge everything, persist, reopen view, full check
	}
	h.tr.Count("scripted: build, delete of a never persisted row, persist, reopen")
}

// runStaleClock (scripted, regression input of findings/C16.md "LayeredOnto stamps lastMod with
// the clock of the transaction's snapshot"): a transaction that started several persists ago
// commits a change to a table (here a net-empty one: output + delete) while the table's current
// persisted version sits in a newer chunk of the metadata chain; persists go on before that
// commit is merged.  Every persisted state must be readable.  Played for a few placements of the
// old transaction's start (r0) and of the table's last save (r1) relative to the chain's merge
// rhythm.
func (h *dpHist) runStaleClock(r0, r1 int) {
	h.db = CreateDb(stor.HeapStor(64 * 1024))
	h.db.CheckerSync()
	h.ck = h.db.ck.(*Check)
	h.q("reset", "ok")
	h.tables = []string{"t0", "t1"}
	for range h.tables {
		h.live = append(h.live, map[uint64]dpRow{})
		h.pending = append(h.pending, 0)
	}
	for _, name := range h.tables {
		h.db.Create(&schema.Schema{Table: name, Columns: []string{"k", "a", "b"},
			Indexes: []schema.Index{{Mode: 'k', Columns: []string{"k"}}}})
		h.q("table 1", "ok")
	}
	n := 0
	outRow := func(t *dpTran, tn int) uint64 {
		n++
		ts := t.ut.getSchema(h.tables[tn])
		k := fmt.Sprintf("k%03d", n)
		rec := dpRec(k, "a", "").Truncate(len(ts.Columns))
		keys := h.keysOf(ts, rec)
		t.ut.Output(nil, h.tables[tn], rec)
		off := t.ut.ReadTran.Lookup(h.tables[tn], 0, keys[0]).Off
		t.view[tn][off] = dpRow{off, rec.Len(), k, "a", ""}
		t.wrote[tn] = true
		h.q(fmt.Sprintf("out %d %d %d %d %s", t.id, tn, off, rec.Len(), lib.Xs(keys)), "ok")
		return off
	}
	round := func(tn int) { // one committed row, merged, persisted
		h.begin(true)
		t := h.trans[len(h.trans)-1]
		outRow(t, tn)
		h.finish(t, true)
		h.merge(tn, h.pending[tn], false)
		h.persist(false)
	}
	var old *dpTran
	for r := 0; r < r1+14 && !h.failed; r++ {
		switch {
		case r == r0:
			h.begin(true)
			old = h.trans[len(h.trans)-1]
		case r == r1:
			round(0) // table t0 saved: its persisted version is now in a recent chunk
		case r == r1+1:
			off := outRow(old, 0)
			old.ut.Delete(nil, "t0", off)
			delete(old.view[0], off)
			h.q(fmt.Sprintf("del %d 0 %d", old.id, off), "ok")
			h.finish(old, true) // committed, NOT merged before the following persists
		default:
			round(1)
		}
	}
	if !h.failed {
		h.observe()
		h.quiesce()
	}
	h.tr.Count("scripted: commit of an old transaction, persists before its merge")
}

// bigTran: one transaction that reaches writeMax
func (h *dpHist) runBig() {
	h.db = CreateDb(stor.HeapStor(256 * 1024))
	h.db.CheckerSync()
	h.ck = h.db.ck.(*Check)
	h.q("reset", "ok")
	h.tables = []string{"t0"}
	h.db.Create(&schema.Schema{Table: "t0", Columns: []string{"k", "a", "b"},
		Indexes: []schema.Index{{Mode: 'k', Columns: []string{"k"}}}})
	h.q("table 1", "ok")
	h.live = []map[uint64]dpRow{{}}
	h.pending = []int{0}
	h.begin(true)
	t := h.trans[0]
	ts := t.ut.getSchema("t0")
	for i := 0; i < writeMax+2 && !t.dead; i++ {
		rec := dpRec(fmt.Sprintf("k%05d", i), "a", "")
		keys := h.keysOf(ts, rec)
		msg := lib.Catch(func() { t.ut.Output(nil, "t0", rec) })
		cls := dpClass(msg)
		off := h.noOff()
		if cls == "ok" {
			off = t.ut.ReadTran.Lookup("t0", 0, keys[0]).Off
			t.view[0][off] = dpRow{off, rec.Len(), "", "", ""}
		}
		if cls == "aborted" {
			h.sweep()
			break
		}
		h.q(fmt.Sprintf("out %d 0 %d %d %s", t.id, off, rec.Len(), lib.Xs(keys)), cls)
		if cls == "!toomany" {
			h.tr.Count(fmt.Sprint("write-limit hit at write ", i+1))
			t.dead = true // Abort() inside write()
			break
		}
	}
	// the completion of the over-limit transaction must fail and leave nothing
	tables := h.ck.commit(t.ut)
	if tables != nil {
		h.fail("write-limit-commit", "a transaction that exceeded the write limit committed")
	}
	if tables != nil {
		if len(tables) > 0 {
			t.ut.commit()
		}
		h.q(fmt.Sprintf("commit %d", t.id), "ok")
	} else {
		h.q(fmt.Sprintf("commit %d", t.id), "!aborted")
	}
	h.trans = nil
	h.observe()
}

func dpMain(t *testing.T, cfg dpCfg) {
	MakeSuTran = func(ut *UpdateTran) *core.SuTran { return core.NewSuTran(nil, true) }
	checkerAbortT1 = true // deterministic victim
	tr := lib.Open()
	defer tr.Close()
	n := lib.N(100)
	only, steps := -1, 0
	fmt.Sscan(os.Getenv("VERIF_HIST"), &only)   // replay a single history
	fmt.Sscan(os.Getenv("VERIF_STEPS"), &steps) // … cut after this many steps (shrinking)
	if steps > 0 {
		cfg.steps = steps
	}
	for i := 0; i < n; i++ {
		if only >= 0 && i != only {
			continue
		}
		// every history has its own stream, so that it can be replayed and shrunk alone
		r := rand.New(rand.NewSource(lib.Seed()*1000003 + int64(i)))
		h := &dpHist{tr: tr, r: r, cfg: cfg, hid: i}
		// no panic of the implementation may crash the suite: it becomes a failing input
		if msg := lib.Catch(func() {
			if cfg.bigTran && i == 0 {
				h.runBig()
			} else if cfg.wBuild > 0 && i == 0 {
				h.runScripted()
			} else if cfg.name == "c16" && i >= 1 && i <= 9 {
				h.runStaleClock(1+(i-1)%3, 1+(i-1)%3+2+(i-1)/3)
			} else {
				h.run()
			}
		}); msg != "" {
			h.fail("impl-panic", "uncaught panic of the implementation: "+msg)
		}
		if i < 2 && len(h.log) > 12 {
			tr.Sample(strings.Join(h.log[:12], "; ") + " …")
		}
		tr.Count(fmt.Sprint("history-steps≈", (len(h.log)/100)*100))
	}
	_ = sort.Strings
}

// C06: index creation and every kind of write, merges and persists interleaved
func TestVerifC06(t *testing.T) {
	dpMain(t, dpCfg{name: "c06", steps: 40, wMerge: 3, wPersist: 2, wBuild: 2, wTranOp: 8, wBegin: 2, wRead: 1, inCompute: 40})
}

// C03: commit outcomes (commit / explicit abort / conflict abort / exclusive abort / write limit), Info
func TestVerifC03(t *testing.T) {
	dpMain(t, dpCfg{name: "c03", steps: 40, wMerge: 2, wPersist: 1, wBuild: 0, wTranOp: 10, wBegin: 4, wRead: 1, inCompute: 30, bigTran: true})
}

// C16: merges and persists with commits inside the compute step
func TestVerifC16(t *testing.T) {
	dpMain(t, dpCfg{name: "c16", steps: 40, wMerge: 6, wPersist: 4, wBuild: 1, wTranOp: 6, wBegin: 2, wRead: 1, inCompute: 80})
}

// C02: many long-lived read and update transactions re-read after every step
func TestVerifC02(t *testing.T) {
	dpMain(t, dpCfg{name: "c02", steps: 40, wMerge: 3, wPersist: 2, wBuild: 0, wTranOp: 6, wBegin: 3, wRead: 4, inCompute: 50, longTran: true})
}

//-------------------------------------------------------------------
// C03, the real asynchronous pipeline (StartConcur: CheckCo + merger goroutines)

// TestVerifC03Async: "changes become visible to later transactions … if its completion reports
// success".  With the real checker goroutine the reply to Complete() and the publication of the
// new state are two steps; a read transaction takes db.GetState() directly.  The harness holds
// the state mutex (as a concurrent merge/persist UpdateState would) while Complete() runs in
// another goroutine: a correct implementation cannot report success before it has published the
// state, so Complete() must still be blocked when the wait ends.  The wall clock only limits the
// detection power (a reply that is later than the wait goes unnoticed); it never produces a
// failure on a correct implementation.
func TestVerifC03Async(t *testing.T) {
	MakeSuTran = func(ut *UpdateTran) *core.SuTran { return core.NewSuTran(nil, true) }
	tr := lib.Open()
	defer tr.Close()
	r := lib.Rand()
	n := lib.N(40)
	db := CreateDb(stor.HeapStor(64 * 1024))
	StartConcur(db, time.Hour)
	defer db.Close()
	db.Create(&schema.Schema{Table: "t", Columns: []string{"k", "a", "b"},
		Indexes: []schema.Index{{Mode: 'k', Columns: []string{"k"}}, {Mode: 'i', Columns: []string{"a"}}}})
	visible := func(key string) bool {
		rt := db.NewReadTran()
		ts := rt.GetSchema("t")
		return rt.Lookup("t", 0, ts.Indexes[0].Ixspec.Key(dpRec(key, "", ""))) != nil
	}
	for i := 0; i < n; i++ {
		if msg := lib.Catch(func() {
			key := fmt.Sprintf("k%04d", i)
			ut := db.NewUpdateTran()
			if ut == nil {
				return
			}
			if msg := lib.Catch(func() { ut.Output(nil, "t", dpRec(key, fmt.Sprint("a", r.Intn(3)), "")) }); msg != "" {
				tr.Fail("async-output-panic", msg)
				return
			}
			hold := r.Intn(4) != 0
			before := db.GetState()
			nrowsBefore := db.NewReadTran().GetInfo("t").Nrows
			done := make(chan string, 1)
			if hold {
				db.state.mutex.Lock()
			}
			go func() {
				res := ""
				if msg := lib.Catch(func() { res = ut.Complete() }); msg != "" {
					res = "!panic: " + msg
				}
				done <- res
			}()
			res, early := "", false
			if hold {
				select {
				case res = <-done:
					early = true // replied while the state could not have been published
				case <-time.After(40 * time.Millisecond):
				}
				if early && res == "" {
					if db.GetState() == before && !visible(key) {
						tr.Fail("commit-acked-before-visible", fmt.Sprintf("commit %d: Complete() reported success while the state mutex was held (no UpdateState possible): a read transaction started after the reply does not see row %q (Nrows still %d)",
							i, key, nrowsBefore))
					}
				}
				db.state.mutex.Unlock()
				if !early {
					res = <-done
				}
			} else {
				res = <-done
			}
			tr.Count(fmt.Sprintf("async commit hold=%v early=%v ok=%v", hold, early, res == ""))
			if res == "" {
				// truthfulness after the reply, without any help from the scheduler
				if !visible(key) {
					tr.Fail("commit-acked-before-visible", fmt.Sprintf("commit %d: Complete() returned success but a read transaction started afterwards does not see row %q", i, key))
				}
				if got := db.NewReadTran().GetInfo("t").Nrows; got != nrowsBefore+1 {
					tr.Fail("info-nrows", fmt.Sprintf("commit %d: Nrows %d after a successful commit of one row, was %d", i, got, nrowsBefore))
				}
			} else if visible(key) {
				tr.Fail("failed-commit-visible", fmt.Sprintf("commit %d: Complete() = %q but row %q is visible", i, res, key))
			}
			// an aborted transaction leaves nothing
			if r.Intn(4) == 0 {
				ut2 := db.NewUpdateTran()
				k2 := key + "x"
				lib.Catch(func() { ut2.Output(nil, "t", dpRec(k2, "a", "")) })
				ut2.Abort()
				if res := ut2.Complete(); res == "" {
					tr.Fail("commit-after-abort", "Complete() after Abort() reported success")
				}
				if visible(k2) {
					tr.Fail("failed-commit-visible", fmt.Sprintf("row %q of an aborted transaction is visible", k2))
				}
				tr.Count("async abort")
			}
		}); msg != "" {
			tr.Fail("impl-panic", fmt.Sprintf("async commit %d: %s", i, msg))
			break
		}
	}
}

//-------------------------------------------------------------------
// C06, foreign key cascades (model free): the rows a cascade rewrites go through the same
// index maintenance as direct writes; after every operation, inside the transaction and after
// commit, all indexes of every table must hold exactly the same rows under their own keys.

func fkAgree(tr *lib.Trace, rt *ReadTran, where string, hist func() string) bool {
	ok := true
	fail := func(sig, msg string) {
		if ok {
			tr.Fail(sig, fmt.Sprintf("seed %d %s: %s | ops: %s", lib.Seed(), where, msg, hist()))
		}
		ok = false
	}
	for _, ts := range rt.GetAllSchema() {
		ti := rt.GetInfo(ts.Table)
		if ti == nil {
			continue
		}
		var first []uint64
		for i := range ts.Indexes {
			es, e := dpScan(rt, ts.Table, i, false)
			if e != "" {
				fail("scan-panic", fmt.Sprintf("%s index %d: %s", ts.Table, i, e))
				return false
			}
			offs := make([]uint64, 0, len(es))
			for j, en := range es {
				offs = append(offs, en.off)
				if k := ts.Indexes[i].Ixspec.Key(rt.GetRecord(en.off)); k != en.key {
					fail("index-wrong-key", fmt.Sprintf("%s index %d (%v): entry %q -> row %v whose key is %q", ts.Table, i, ts.Indexes[i].Columns, en.key, rt.GetRecord(en.off), k))
				}
				if j > 0 && es[j-1].key >= en.key {
					fail("scan-order", fmt.Sprintf("%s index %d not ascending", ts.Table, i))
				}
			}
			slices.Sort(offs)
			if i == 0 {
				first = offs
				if ti.Nrows != len(offs) {
					fail("info-nrows", fmt.Sprintf("%s Nrows %d, index 0 yields %d rows", ts.Table, ti.Nrows, len(offs)))
				}
			} else if !slices.Equal(offs, first) {
				rows := func(os []uint64) string {
					var sb strings.Builder
					for _, o := range os {
						fmt.Fprintf(&sb, "%d%v ", o, rt.GetRecord(o))
					}
					return sb.String()
				}
				fail("index-disagrees", fmt.Sprintf("%s: index 0 (%v) yields %s but index %d (%v) yields %s",
					ts.Table, ts.Indexes[0].Columns, rows(first), i, ts.Indexes[i].Columns, rows(offs)))
			}
		}
	}
	return ok
}

func TestVerifC06Fk(t *testing.T) {
	MakeSuTran = func(ut *UpdateTran) *core.SuTran { return core.NewSuTran(nil, true) }
	checkerAbortT1 = true
	tr := lib.Open()
	defer tr.Close()
	n := lib.N(60)
	vals := []string{"1", "2", "3"}
	for hi := 0; hi < n; hi++ {
		r := rand.New(rand.NewSource(lib.Seed()*1000003 + int64(hi)))
		var log []string
		hist := func() string { return strings.Join(log, "; ") }
		note := func(f string, a ...any) { log = append(log, fmt.Sprintf(f, a...)) }
		msg := lib.Catch(func() {
			db := CreateDb(stor.HeapStor(64 * 1024))
			db.CheckerSync()
			mode := []byte{schema.Block, schema.CascadeUpdates, schema.Cascade, schema.CascadeUpdates}[r.Intn(4)]
			db.Create(&schema.Schema{Table: "hdr", Columns: []string{"a", "b", "x"},
				Indexes: []schema.Index{{Mode: 'k', Columns: []string{"a", "b"}}}})
			lin := []schema.Index{{Mode: 'k', Columns: []string{"d"}}}
			// a second key / unique index that contains some of the foreign key columns
			switch r.Intn(3) {
			case 0:
				lin = append(lin, schema.Index{Mode: 'k', Columns: []string{"b", "c"}})
			case 1:
				lin = append(lin, schema.Index{Mode: 'u', Columns: []string{"b", "c"}})
			}
			lin = append(lin, schema.Index{Mode: 'i', Columns: []string{"a", "b"},
				Fk: schema.Fkey{Table: "hdr", Columns: []string{"a", "b"}, Mode: mode}})
			db.Create(&schema.Schema{Table: "lin", Columns: []string{"d", "a", "b", "c"}, Indexes: lin})
			note("hdr key(a,b); lin %d indexes, fk mode %d", len(lin), mode)
			tr.Count(fmt.Sprint("fk family mode=", mode, " lin indexes=", len(lin)))
			nd := 0
			var ut *UpdateTran
			pick := func(table string) (core.Record, uint64, bool) {
				es, _ := dpScan(&ut.ReadTran, table, 0, false)
				if len(es) == 0 {
					return "", 0, false
				}
				e := es[r.Intn(len(es))]
				var dr *core.DbRec
				if lib.Catch(func() { dr = ut.Lookup(table, 0, e.key) }) != "" || dr == nil {
					return "", 0, false
				}
				return dr.Record, dr.Off, true
			}
			for step := 0; step < 40; step++ {
				if ut == nil {
					ut = db.NewUpdateTran()
					note("begin")
				}
				var res string
				switch x := r.Intn(10); {
				case x < 2:
					a, b := vals[r.Intn(3)], vals[r.Intn(3)]
					res = lib.Catch(func() { ut.Output(nil, "hdr", dpRecN(a, b, "x")) })
					note("out hdr(%s,%s) %q", a, b, res)
				case x < 5:
					nd++
					a, b := vals[r.Intn(3)], vals[r.Intn(3)]
					if hr, _, ok := pick("hdr"); ok && r.Intn(4) != 0 {
						a, b = hr.GetStr(0), hr.GetStr(1)
					}
					c := []string{"8", "9"}[r.Intn(2)]
					res = lib.Catch(func() { ut.Output(nil, "lin", dpRecN(fmt.Sprint("d", nd), a, b, c)) })
					note("out lin(d%d,%s,%s,%s) %q", nd, a, b, c, res)
				case x < 8: // update a parent key: cascades into the children
					if hr, off, ok := pick("hdr"); ok {
						a, b := hr.GetStr(0), hr.GetStr(1)
						if r.Intn(2) == 0 {
							a = vals[r.Intn(3)]
						} else {
							b = vals[r.Intn(3)]
						}
						res = lib.Catch(func() { ut.Update(nil, "hdr", off, dpRecN(a, b, hr.GetStr(2)+"'")) })
						note("upd hdr(%s,%s)->(%s,%s) %q", hr.GetStr(0), hr.GetStr(1), a, b, res)
					}
				case x < 9:
					if lr, off, ok := pick("lin"); ok {
						c := []string{"8", "9"}[r.Intn(2)]
						res = lib.Catch(func() { ut.Update(nil, "lin", off, dpRecN(lr.GetStr(0), lr.GetStr(1), lr.GetStr(2), c)) })
						note("upd lin %s c->%s %q", lr.GetStr(0), c, res)
					}
				default:
					tbl := []string{"hdr", "lin"}[r.Intn(2)]
					if rec, off, ok := pick(tbl); ok {
						res = lib.Catch(func() { ut.Delete(nil, tbl, off) })
						note("del %s %v %q", tbl, rec, res)
					}
				}
				tr.Count("fk op " + map[bool]string{true: "ok", false: "refused"}[res == ""])
				if ut.ct.failure.Load() != "" {
					ut = nil // aborted by the implementation
					note("(aborted)")
					continue
				}
				// inside the transaction
				if !fkAgree(tr, &ut.ReadTran, fmt.Sprintf("fk history %d step %d (inside the transaction)", hi, step), hist) {
					return
				}
				if r.Intn(4) == 0 {
					if lib.Catch(func() { db.CommitMerge(ut) }) != "" {
						ut.Abort()
					}
					note("commit")
					ut = nil
					if !fkAgree(tr, db.NewReadTran(), fmt.Sprintf("fk history %d step %d (committed state)", hi, step), hist) {
						return
					}
				}
			}
		})
		if msg != "" {
			tr.Fail("impl-panic", fmt.Sprintf("fk history %d: %s | ops: %s", hi, msg, hist()))
		}
	}
}

//-------------------------------------------------------------------
// C16, the real pipeline: clean shutdown + reopen, forced persists under load

// TestVerifC16Async (direct oracles only):
//
//	(a) StartConcur, commits of every kind — also ones that append nothing to the file after the
//	    last persist (delete-only transactions, drop, rename) — Close, reopen from the same
//	    storage: tables and rows must be exactly the committed ones, Check(full) must pass;
//	    several open/close cycles per history.
//	(b) Database.Persist() ("returns a persisted state with all ixbuf layers merged") while
//	    writer goroutines commit: the returned state must have everything merged and check clean.
//	    Scheduling decides only how often a wrong implementation is caught.
func TestVerifC16Async(t *testing.T) {
	MakeSuTran = func(ut *UpdateTran) *core.SuTran { return core.NewSuTran(nil, true) }
	tr := lib.Open()
	defer tr.Close()
	n := lib.N(30)
	for hi := 0; hi < n; hi++ {
		r := rand.New(rand.NewSource(lib.Seed()*1000003 + int64(hi)))
		var log []string
		note := func(f string, a ...any) { log = append(log, fmt.Sprintf(f, a...)) }
		fail := func(sig, msg string) {
			tr.Fail(sig, fmt.Sprintf("seed %d close/reopen history %d: %s | ops: %s", lib.Seed(), hi, msg, strings.Join(log, "; ")))
		}
		msg := lib.Catch(func() {
			st := stor.HeapStor(64 * 1024)
			db := CreateDb(st)
			StartConcur(db, time.Hour)             // no periodic persist
			rows := map[string]map[string]string{} // table -> k -> a
			names := []string{"ta", "tb", "tc", "td"}
			create := func(name string) {
				db.Create(&schema.Schema{Table: name, Columns: []string{"k", "a"},
					Indexes: []schema.Index{{Mode: 'k', Columns: []string{"k"}}, {Mode: 'i', Columns: []string{"a"}}}})
				rows[name] = map[string]string{}
				note("create %s", name)
			}
			create("ta")
			create("tb")
			nk := 0
			anyTable := func() string {
				var ts []string
				for tname := range rows {
					ts = append(ts, tname)
				}
				sort.Strings(ts)
				if len(ts) == 0 {
					return ""
				}
				return ts[r.Intn(len(ts))]
			}
			op := func(kind int) {
				tname := anyTable()
				switch kind {
				case 0: // appending commit
					if tname == "" {
						return
					}
					ut := db.NewUpdateTran()
					nk++
					k, a := fmt.Sprintf("k%03d", nk), fmt.Sprint("a", r.Intn(3))
					ut.Output(nil, tname, dpRecN(k, a))
					if res := ut.Complete(); res == "" {
						rows[tname][k] = a
					}
					note("insert %s %s", tname, k)
				case 1: // delete-only commit (appends nothing)
					if tname == "" || len(rows[tname]) == 0 {
						return
					}
					var ks []string
					for k := range rows[tname] {
						ks = append(ks, k)
					}
					sort.Strings(ks)
					k := ks[r.Intn(len(ks))]
					ut := db.NewUpdateTran()
					ts := ut.getSchema(tname)
					dr := ut.Lookup(tname, 0, ts.Indexes[0].Ixspec.Key(dpRecN(k, "")))
					if dr == nil {
						fail("committed-row-missing", fmt.Sprintf("%s row %s not found", tname, k))
						return
					}
					ut.Delete(nil, tname, dr.Off)
					if res := ut.Complete(); res == "" {
						delete(rows[tname], k)
					}
					note("delete %s %s", tname, k)
				case 2: // drop
					if tname == "" || len(rows) < 2 {
						return
					}
					if err := db.Drop(tname); err == nil {
						delete(rows, tname)
						note("drop %s", tname)
					}
				case 3: // rename
					if tname == "" {
						return
					}
					for _, to := range names {
						if _, used := rows[to]; !used {
							if db.RenameTable(tname, to) {
								rows[to] = rows[tname]
								delete(rows, tname)
								note("rename %s to %s", tname, to)
							}
							break
						}
					}
				case 4:
					for _, nm := range names {
						if _, used := rows[nm]; !used {
							create(nm)
							break
						}
					}
				case 5:
					db.Persist()
					note("persist")
				}
			}
			for cycle := 0; cycle < 3; cycle++ {
				for i := 3 + r.Intn(6); i > 0; i-- {
					op([]int{0, 0, 0, 1, 1, 2, 3, 4, 5}[r.Intn(9)])
				}
				if r.Intn(3) != 0 {
					op(5) // "the once a minute persist" …
				}
				// … followed only by a few commits, mostly ones that append nothing
				for i := r.Intn(3); i > 0; i-- {
					op([]int{1, 1, 2, 3, 0}[r.Intn(5)])
				}
				db.Close()
				note("close")
				var err error
				db, err = OpenDbStor(st, stor.Update, true)
				if err != nil {
					fail("reopen-failed", fmt.Sprint("OpenDbStor after a clean Close: ", err))
					return
				}
				note("reopen")
				tr.Count("close+reopen")
				rt := db.NewReadTran()
				var got []string
				for _, ts := range rt.GetAllSchema() {
					got = append(got, ts.Table)
				}
				sort.Strings(got)
				var want []string
				for tname := range rows {
					want = append(want, tname)
				}
				sort.Strings(want)
				if !slices.Equal(got, want) {
					fail("close-reopen-lost-commit", fmt.Sprintf("tables after reopen %v, committed %v", got, want))
					return
				}
				for _, tname := range want {
					ts := rt.getSchema(tname)
					for i := range ts.Indexes {
						es, e := dpScan(rt, tname, i, false)
						var ks []string
						for _, en := range es {
							ks = append(ks, rt.GetRecord(en.off).GetStr(0))
						}
						sort.Strings(ks)
						var wk []string
						for k := range rows[tname] {
							wk = append(wk, k)
						}
						sort.Strings(wk)
						if e != "" || !slices.Equal(ks, wk) {
							fail("close-reopen-lost-commit", fmt.Sprintf("%s index %d after a clean Close and reopen holds rows %v %s, committed rows are %v", tname, i, ks, e, wk))
							return
						}
					}
					if ti := rt.GetInfo(tname); ti.Nrows != len(rows[tname]) {
						fail("info-nrows", fmt.Sprintf("%s Nrows %d after reopen, committed rows %d", tname, ti.Nrows, len(rows[tname])))
						return
					}
				}
				var ec *errCorrupt
				if m := lib.Catch(func() { ec = checkState(db.GetState(), checkTableFull, "", nil) }); m != "" || ec != nil {
					fail("dbcheck", fmt.Sprintf("full check after reopen: %v %s", ec, m))
					return
				}
				StartConcur(db, time.Hour)
			}
			db.Close()
		})
		if msg != "" {
			fail("impl-panic", msg)
		}
	}

	// (b) forced persists while transactions commit
	msg := lib.Catch(func() {
		db := CreateDb(stor.HeapStor(64 * 1024))
		StartConcur(db, time.Hour)
		defer db.Close()
		const ntables = 4
		for i := 0; i < ntables; i++ {
			db.Create(&schema.Schema{Table: fmt.Sprint("w", i), Columns: []string{"k", "a"},
				Indexes: []schema.Index{{Mode: 'k', Columns: []string{"k"}}, {Mode: 'i', Columns: []string{"a"}}}})
		}
		var stop atomic.Bool
		var next, ncommits atomic.Int64
		var wg sync.WaitGroup
		for w := 0; w < 4; w++ {
			wg.Add(1)
			go func() {
				defer wg.Done()
				for !stop.Load() && !db.IsCorrupted() {
					lib.Catch(func() {
						ut := db.NewUpdateTran()
						if ut == nil {
							return
						}
						k := next.Add(1)
						ut.Output(nil, fmt.Sprint("w", k%ntables), dpRecN(fmt.Sprintf("k%07d", k), fmt.Sprint("a", w)))
						if ut.Complete() == "" {
							ncommits.Add(1)
						}
					})
				}
			}()
		}
		rounds := 60 * n / 30
		for i := 0; i < rounds; i++ {
			state := db.Persist()
			if m := lib.Catch(func() { state.Meta.CheckAllMerged() }); m != "" {
				tr.Fail("forced-persist-unmerged", fmt.Sprintf("Database.Persist() call %d (4 goroutines committing meanwhile, %d commits so far) returned a state with unmerged/unsaved changes: %s", i, ncommits.Load(), m))
				break
			}
			var ec *errCorrupt
			if m := lib.Catch(func() { ec = checkState(state, checkTable, "", nil) }); m != "" || ec != nil {
				tr.Fail("forced-persist-unmerged", fmt.Sprintf("Database.Persist() call %d: check of the returned state of a healthy database: %v %s", i, ec, m))
				break
			}
		}
		stop.Store(true)
		wg.Wait()
		tr.CountN("forced persists under load", rounds)
		tr.Count(fmt.Sprint("commits during forced persists >= 100: ", ncommits.Load() >= 100))
	})
	if msg != "" {
		tr.Fail("impl-panic", "forced persist under load: "+msg)
	}
}
