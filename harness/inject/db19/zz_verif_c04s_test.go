//go:build verif

package db19

// C04 suite "staterec": writeState / readState of db19/state.go on a heap stor against the Lean
// mirror Gsu.StateRec (encodeReal / decodeReal): full width 40-bit offsets, offsets at / around
// the record's own offset (the `offSchema >= off || offInfo >= off` guard), single byte
// corruptions at every position (magics, time, offsets, checksum).

import (
	"encoding/binary"
	"fmt"
	"testing"

	"github.com/apmckinlay/gsuneido/db19/stor"
	lib "github.com/apmckinlay/gsuneido/util/zzverif"
)

func TestVerifC04StateRec(t *testing.T) {
	tr := lib.Open()
	defer tr.Close()
	r := lib.Rand()
	n := lib.N(300)
	hs := stor.HeapStor(64 * 1024)
	hs.Alloc(1 + r.Intn(100))
	rd := func(off uint64) string {
		var s, i uint64
		var tm int64
		if msg := lib.Catch(func() { s, i, tm = readState(hs, off) }); msg != "" || tm == 0 {
			return "!invalid"
		}
		return fmt.Sprintf("%d %d %d", s, i, tm)
	}
	for c := 0; c < n; c++ {
		if hs.Size() > 60*1024 {
			hs = stor.HeapStor(64 * 1024)
			hs.Alloc(1 + r.Intn(100))
		}
		hs.Alloc(1 + r.Intn(50))
		at := hs.Size() // where the record will go
		pick := func() uint64 {
			switch r.Intn(6) {
			case 0:
				return 0
			case 1:
				return at - uint64(r.Intn(3)) // just below / at the record
			case 2:
				return at + uint64(r.Intn(3))
			case 3:
				return uint64(r.Int63n(1 << 40)) // full width
			case 4:
				return 1<<40 - 1 - uint64(r.Intn(2))
			default:
				return uint64(r.Int63n(int64(at) + 1))
			}
		}
		offS, offI := pick(), pick()
		off := writeState(hs, offS, offI)
		buf := hs.Data(off)[:stateLen]
		tm := binary.BigEndian.Uint64(buf[len(magic1):])
		tr.Q(fmt.Sprintf("stenc %d %d %d", tm, offS, offI), lib.X(string(buf)))
		out := rd(off)
		tr.Q(fmt.Sprintf("stdec %d %s", off, lib.X(string(buf))), out)
		tr.Count("valid=" + lib.B(out != "!invalid"))
		if out != "!invalid" && out != fmt.Sprintf("%d %d %d", offS, offI, tm) {
			tr.Fail("c04-staterec-roundtrip", fmt.Sprintf("readState(writeState(%d,%d)) at %d = %s", offS, offI, off, out))
		}
		if (offS < off && offI < off) != (out != "!invalid") {
			tr.Fail("c04-staterec-guard", fmt.Sprintf("offsets %d %d record at %d: %s", offS, offI, off, out))
		}
		// corrupt one byte (restored afterwards): must be rejected
		p := r.Intn(stateLen)
		old := buf[p]
		buf[p] ^= byte(1 + r.Intn(255))
		out2 := rd(off)
		tr.Q(fmt.Sprintf("stdec %d %s", off, lib.X(string(buf))), out2)
		// (a 16 bit checksum: an accepted corruption is possible in principle, so it is only counted;
		// the model must agree either way)
		tr.Count("corrupt.rejected=" + lib.B(out2 == "!invalid"))
		tr.Count(fmt.Sprintf("corrupt.field=%s", []string{"magic1", "time", "offSchema", "offInfo", "cksum", "magic2"}[
			c04b2i(p >= 8)+c04b2i(p >= 16)+c04b2i(p >= 21)+c04b2i(p >= 26)+c04b2i(p >= 28)]))
		buf[p] = old
	}
}

func c04b2i(b bool) int {
	if b {
		return 1
	}
	return 0
}
