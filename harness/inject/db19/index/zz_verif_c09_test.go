//go:build verif

package index

// C09: OverIter over random layer stacks (btree via Builder + layer ixbufs + mut) driven by random
// Next/Prev/Rewind/Range/SkipScan interleaved with Insert/Update/Delete on mut and overlay
// replacement. Every step is (1) replayed through the Lean mirror + spec (Q lines: OverIter
// state/key/offset, the spec answer, and the state/key/offset of every per-layer iterator) and
// (2) checked by a direct oracle against a sorted map kept in Go (F lines).

import (
	"fmt"
	"math/rand"
	"sort"
	"strings"
	"testing"

	"github.com/apmckinlay/gsuneido/db19/index/btree"
	"github.com/apmckinlay/gsuneido/db19/index/iface"
	"github.com/apmckinlay/gsuneido/db19/index/ixbuf"
	"github.com/apmckinlay/gsuneido/db19/index/ixkey"
	"github.com/apmckinlay/gsuneido/db19/stor"
	lib "github.com/apmckinlay/gsuneido/util/zzverif"
)

type c09tran struct{ ov *Overlay }

func (t *c09tran) GetIndexI(string, int) *Overlay        { return t.ov }
func (t *c09tran) Read(_ string, _ int, from, to string) {}
func (t *c09tran) Num() int                               { return 0 }

type c09case struct {
	r       *rand.Rand
	tr      *lib.Trace
	dom     []string
	live    map[string]uint64
	nextOff uint64
	st      *stor.Stor
}

func c09dom(r *rand.Rand) ([]string, string) {
	set := map[string]bool{}
	kind := ""
	switch r.Intn(4) {
	case 0: // simple keys
		kind = "simple"
		n := 4 + r.Intn(30)
		for i := 0; i < n; i++ {
			set[fmt.Sprintf("k%02d", r.Intn(40))] = true
		}
	case 1: // raw byte strings over a nasty alphabet (prefix related, empty key, 0 and 0xff bytes)
		kind = "bytes"
		alpha := []byte{0, 1, 'a', 'b', 0xff}
		n := 3 + r.Intn(25)
		for i := 0; i < n; i++ {
			b := make([]byte, r.Intn(4))
			for j := range b {
				b[j] = alpha[r.Intn(len(alpha))]
			}
			if len(b) > 0 && b[0] == 0xff { // keep keys below ixkey.Max
				b[0] = 'c'
			}
			set[string(b)] = true
		}
	default: // composite keys (2-3 fields) for skip-scan
		kind = "composite"
		flds := []string{"", "a", "b", "a\x00", "\x00", "ab", "b\xff", "c"}
		nf := 2 + r.Intn(2)
		n := 4 + r.Intn(40)
		nv := 2 + r.Intn(len(flds)-1)
		for i := 0; i < n; i++ {
			vals := make([]string, nf)
			for j := range vals {
				vals[j] = flds[r.Intn(nv)]
			}
			set[ixkey.CompKey(vals...)] = true
		}
	}
	dom := make([]string, 0, len(set))
	for k := range set {
		dom = append(dom, k)
	}
	sort.Strings(dom)
	return dom, kind
}

// change applies one valid change to ib (valid w.r.t. the content below = c.live)
func (c *c09case) change(ib *ixbuf.T) string {
	k := c.dom[c.r.Intn(len(c.dom))]
	if off, ok := c.live[k]; ok {
		if c.r.Intn(2) == 0 {
			ib.Delete(k, off)
			delete(c.live, k)
			return "del"
		}
		c.nextOff++
		ib.Update(k, c.nextOff)
		c.live[k] = c.nextOff
		return "upd"
	}
	c.nextOff++
	ib.Insert(k, c.nextOff)
	c.live[k] = c.nextOff
	return "add"
}

func (c *c09case) stack(withMut bool) *Overlay {
	c.live = map[string]uint64{}
	b := btree.NewBuilder(c.st)
	p := 1 + c.r.Intn(4)
	for _, k := range c.dom {
		if c.r.Intn(p) == 0 {
			c.nextOff++
			b.Add(k, c.nextOff)
			c.live[k] = c.nextOff
		}
	}
	bt := b.Finish()
	nl := 1 + c.r.Intn(3)
	layers := make([]*ixbuf.T, nl)
	for i := range layers {
		layers[i] = &ixbuf.T{}
		for j := c.r.Intn(10); j > 0; j-- {
			c.change(layers[i])
		}
	}
	ov := &Overlay{bt: bt, layers: layers}
	if withMut {
		ov.mut = &ixbuf.T{}
		for j := c.r.Intn(4); j > 0; j-- {
			c.change(ov.mut)
		}
	}
	c.tr.Count(fmt.Sprintf("btreeLevels=%d", bt.TreeLevels()))
	c.tr.Count(fmt.Sprintf("nlayers=%d", nl))
	return ov
}

func c09ib(sb *strings.Builder, ib *ixbuf.T) {
	it := ib.Iter()
	for k, o, ok := it(); ok; k, o, ok = it() {
		fmt.Fprintf(sb, " %s %d", lib.X(k), o)
	}
}

func c09ov(ov *Overlay) string {
	var sb strings.Builder
	sb.WriteString("ov")
	it := ov.bt.Iterator()
	for it.Next(); !it.Eof(); it.Next() {
		k, o := it.Cur()
		fmt.Fprintf(&sb, " %s %d", lib.X(k), o)
	}
	sb.WriteString(" /")
	for _, ib := range ov.layers {
		c09ib(&sb, ib)
		sb.WriteString(" /")
	}
	if ov.mut != nil {
		c09ib(&sb, ov.mut)
		sb.WriteString(" /")
	}
	return sb.String()
}

func c09mut(ov *Overlay) string {
	var sb strings.Builder
	sb.WriteString("mut")
	c09ib(&sb, ov.mut)
	return sb.String()
}

// c09state prints what the Lean driver prints for a step
func c09state(oi *OverIter) string {
	var sb strings.Builder
	switch oi.state {
	case rewound:
		sb.WriteString("r")
	case eof:
		sb.WriteString("e")
	default:
		fmt.Fprintf(&sb, "w %s %d", lib.X(oi.curKey), oi.curOff)
	}
	sb.WriteString(" S ")
	if oi.state == within {
		fmt.Fprintf(&sb, "%s %d", lib.X(oi.curKey), oi.curOff)
	} else {
		sb.WriteString("-")
	}
	sb.WriteString(" C ")
	for i, it := range oi.iters {
		if i > 0 {
			sb.WriteString(" ")
		}
		switch {
		case it.Eof():
			sb.WriteString("e")
		case !it.HasCur():
			sb.WriteString("r")
		default:
			fmt.Fprintf(&sb, "w:%s:%d", lib.X(it.Key()), it.Offset())
		}
	}
	return sb.String()
}

func TestVerifC09(t *testing.T) {
	tr := lib.Open()
	defer tr.Close()
	r := lib.Rand()
	n := lib.N(1500)
	for ci := 0; ci < n; ci++ {
		split := []int{3, 4, 7, 50}[r.Intn(4)]
		old := btree.SetSplit(split)
		c09one(tr, r, ci)
		btree.SetSplit(old)
	}
}

func c09one(tr *lib.Trace, r *rand.Rand, ci int) {
	c := &c09case{r: r, tr: tr, nextOff: 100}
	c.st = stor.HeapStor(64 * 1024)
	c.st.Alloc(1)
	var kind string
	c.dom, kind = c09dom(r)
	tr.Count("dom=" + kind)
	withMut := r.Intn(8) != 0
	ov := c.stack(withMut)
	tran := &c09tran{ov: ov}
	oi := NewOverIter("t", 0)
	tr.Q("reset", "ok")
	tr.Q(c09ov(ov), "ok")

	org, end := ixkey.Min, ixkey.Max
	skip := 0
	var srng iface.Range
	state := "rewound"
	cur := ""
	hist := fmt.Sprintf("case %d %s: %s", ci, kind, c09ov(ov))
	visible := func(k string) bool {
		if skip == 0 {
			return org <= k && k < end
		}
		p, s := ixkey.SplitPrefixSuffix(k, skip)
		return org <= p && p < end && srng.Org <= s && s < srng.End
	}
	sorted := func() []string {
		var ks []string
		for k := range c.live {
			if visible(k) {
				ks = append(ks, k)
			}
		}
		sort.Strings(ks)
		return ks
	}
	pick := func() string { return c.dom[r.Intn(len(c.dom))] }
	mode := func() string {
		if skip != 0 && end == "" {
			// degenerate empty prefix range (End == ""): its own signature
			return "skip-emptyprefixrange-"
		}
		if skip != 0 {
			return "skip-"
		}
		return ""
	}
	nsteps := 10 + r.Intn(50)
	for step := 0; step < nsteps; step++ {
		switch op := r.Intn(20); {
		case op < 7 || op < 12 && r.Intn(3) > 0 && step%7 < 4: // Next (runs of the same direction)
			var panicked string
			panicked = lib.Catch(func() { oi.Next(tran) })
			hist += " N"
			if panicked != "" {
				tr.Fail(mode()+"next-panic", hist+" : "+panicked)
				return
			}
			tr.Q("next", c09state(oi))
			tr.Count(mode() + "next")
			if state == "eof" {
				if !oi.Eof() {
					tr.Fail(mode()+"eof-not-sticky", hist)
					return
				}
				continue
			}
			exp, found := "", false
			for _, k := range sorted() {
				if state == "rewound" || k > cur {
					exp, found = k, true
					break
				}
			}
			if !found {
				if !oi.Eof() {
					tr.Fail(mode()+"next-wrong", fmt.Sprintf("%s : expected eof got %q", hist, oi.curKey))
					return
				}
				state = "eof"
				tr.Count("result=eof")
			} else {
				if oi.Eof() || oi.curKey != exp || oi.curOff != c.live[exp] {
					tr.Fail(mode()+"next-wrong", fmt.Sprintf("%s : expected %q/%d got %s", hist, exp, c.live[exp], c09state(oi)))
					return
				}
				cur, state = exp, "within"
				tr.Count("result=key")
			}
		case op < 14: // Prev
			panicked := lib.Catch(func() { oi.Prev(tran) })
			hist += " P"
			if panicked != "" {
				tr.Fail(mode()+"prev-panic", hist+" : "+panicked)
				return
			}
			tr.Q("prev", c09state(oi))
			tr.Count(mode() + "prev")
			if state == "eof" {
				if !oi.Eof() {
					tr.Fail(mode()+"eof-not-sticky", hist)
					return
				}
				continue
			}
			ks := sorted()
			exp, found := "", false
			for i := len(ks) - 1; i >= 0; i-- {
				if state == "rewound" || ks[i] < cur {
					exp, found = ks[i], true
					break
				}
			}
			if !found {
				if !oi.Eof() {
					tr.Fail(mode()+"prev-wrong", fmt.Sprintf("%s : expected eof got %q", hist, oi.curKey))
					return
				}
				state = "eof"
				tr.Count("result=eof")
			} else {
				if oi.Eof() || oi.curKey != exp || oi.curOff != c.live[exp] {
					tr.Fail(mode()+"prev-wrong", fmt.Sprintf("%s : expected %q/%d got %s", hist, exp, c.live[exp], c09state(oi)))
					return
				}
				cur, state = exp, "within"
				tr.Count("result=key")
			}
		case op == 14:
			oi.Rewind()
			state, cur = "rewound", ""
			hist += " R"
			tr.Q("rewind", "ok")
			tr.Count("rewind")
		case op == 15:
			a, b := pick(), pick()
			if a > b {
				a, b = b, a
			}
			switch r.Intn(5) {
			case 0:
				a, b = ixkey.Min, ixkey.Max
			case 1:
				b = ixkey.Max
			case 2:
				a = ixkey.Min
			}
			org, end, skip = a, b, 0
			oi.Range(Range{Org: org, End: end})
			state, cur = "rewound", ""
			hist += fmt.Sprintf(" Range(%q,%q)", org, end)
			tr.Q(fmt.Sprintf("range %s %s", lib.X(org), lib.X(end)), "ok")
			tr.Count("range")
		case op == 16 && kind == "composite":
			n := 1 + r.Intn(2)
			pa, sa := ixkey.SplitPrefixSuffix(pick(), n)
			pb, sb := ixkey.SplitPrefixSuffix(pick(), n)
			if pa > pb {
				pa, pb = pb, pa
			}
			if sa > sb {
				sa, sb = sb, sa
			}
			switch r.Intn(4) {
			case 0:
				pa, pb = ixkey.Min, ixkey.Max
			case 1:
				pb = ixkey.Max
			}
			switch r.Intn(4) {
			case 0:
				sa, sb = ixkey.Min, ixkey.Max
			case 1:
				sb = ixkey.Max
			case 2:
				sb += "\x00"
			}
			org, end, skip = pa, pb, n
			srng = iface.Range{Org: sa, End: sb}
			oi.SkipScan(Range{Org: org, End: end}, srng, n)
			state, cur = "rewound", ""
			hist += fmt.Sprintf(" SkipScan(%q,%q,%q,%q,%d)", org, end, sa, sb, n)
			tr.Q(fmt.Sprintf("skipscan %s %s %s %s %d", lib.X(org), lib.X(end), lib.X(sa), lib.X(sb), n), "ok")
			tr.Count("skipscan")
		case op == 17 || op == 18:
			if ov.mut == nil {
				continue
			}
			what := c.change(ov.mut)
			hist += " [" + what + " -> " + c09mut(ov) + "]"
			tr.Q(c09mut(ov), "ok")
			tr.Count("mut-" + what)
		case op == 19:
			// the transaction (or a cursor's next transaction) presents a different overlay
			if r.Intn(2) == 0 {
				ov = c.stack(withMut)
			} else {
				// same content so far plus one more layer of changes
				ib := &ixbuf.T{}
				for j := 1 + r.Intn(5); j > 0; j-- {
					c.change(ib)
				}
				layers := append([]*ixbuf.T{}, ov.layers...)
				if ov.mut != nil {
					layers = append(layers, ov.mut)
				}
				layers = append(layers, ib)
				nov := &Overlay{bt: ov.bt, layers: layers}
				if withMut {
					nov.mut = &ixbuf.T{}
				}
				ov = nov
			}
			tran.ov = ov
			hist += " {" + c09ov(ov) + "}"
			tr.Q(c09ov(ov), "ok")
			tr.Count("new-overlay")
		}
	}
	if ci < 3 {
		tr.Sample(hist)
	}
}
