//go:build verif

package ixbuf

// C11: ixbuf.Insert / ixbuf.Merge / ixbuf.Combine against the Lean mirror Gsu.Model.Ixbuf
// (chunk boundaries included) and against direct oracles evaluated on the implementation:
//
//	combine-table        Combine differs from the five-case table (or panics / fails to panic)
//	insert-not-sequential buffer built by Insert != per-key fold of its ops (reference table)
//	insert-unsorted      Check() panics on an Insert-built buffer / empty chunk / size field wrong
//	merge-not-sequential Merge result != per-key fold of the input buffers in order, or applying the
//	                     merged changes to a key→offset map != applying the buffers one after another
//	merge-unsorted       result keys not strictly increasing / empty chunk / Check() panics
//	merge-size           size field != number of slots
//	merge-input-mutated  an input buffer differs from the snapshot taken before Merge
//	merge-result-mutated the result of an EARLIER Merge differs from its snapshot after a later Merge that
//	                     re-uses some of the same inputs (persistence / aliasing between result and inputs)
//	merge-panic          Merge panicked on valid input

import (
	"fmt"
	"io"
	"log"
	"math/rand"
	"sort"
	"strings"
	"testing"
	"unsafe"

	lib "github.com/apmckinlay/gsuneido/util/zzverif"
)

type vop struct {
	key  string
	flag byte // 'a' 'u' 'd'
	off  uint64
}

func vEnc(flag byte, off uint64) uint64 {
	switch flag {
	case 'u':
		return off | Update
	case 'd':
		return off | Delete
	}
	return off
}

// vDec renders an ixbuf offset as a12 / u12 / d12 ("?<hex>" for anything else)
func vDec(off uint64) string {
	o := off & Mask
	switch off &^ Mask {
	case 0:
		return fmt.Sprintf("a%d", o)
	case Update:
		return fmt.Sprintf("u%d", o)
	case Delete:
		return fmt.Sprintf("d%d", o)
	}
	return fmt.Sprintf("?%x", off)
}

func vBufStr(ib *ixbuf) string {
	var sb strings.Builder
	fmt.Fprintf(&sb, "%d;", ib.size)
	if len(ib.chunks) == 0 {
		sb.WriteByte('-')
	}
	for i, c := range ib.chunks {
		if i > 0 {
			sb.WriteByte('|')
		}
		for j, s := range c {
			if j > 0 {
				sb.WriteByte(',')
			}
			sb.WriteString(lib.X(s.key))
			sb.WriteByte(':')
			sb.WriteString(vDec(s.off))
		}
	}
	return sb.String()
}

// vchg is a change in the reference model: flag 0 = no entry
type vchg struct {
	flag byte
	off  uint64
}

// vRefCombine is the five-case table, written independently of Combine.
// ok=false: the pair is not a legal sequence.
func vRefCombine(c1, c2 vchg) (r vchg, old uint64, ok bool) {
	switch {
	case c1.flag == 'a' && c2.flag == 'u':
		return vchg{'a', c2.off}, 0, true
	case c1.flag == 'a' && c2.flag == 'd':
		return vchg{}, 0, true
	case c1.flag == 'u' && c2.flag == 'u':
		return vchg{'u', c2.off}, c1.off, true
	case c1.flag == 'u' && c2.flag == 'd':
		return vchg{'d', c2.off}, c1.off, true
	case c1.flag == 'd' && c2.flag == 'a':
		return vchg{'u', c2.off}, 0, true
	}
	return vchg{}, 0, false
}

// vFold folds one more change of a key into the accumulated one (restart after removal)
func vFold(acc vchg, c vchg) (vchg, bool) {
	if acc.flag == 0 {
		return c, true
	}
	r, _, ok := vRefCombine(acc, c)
	return r, ok
}

func vFlat(ib *ixbuf) []slot {
	var out []slot
	for _, c := range ib.chunks {
		out = append(out, c...)
	}
	return out
}

func vSlotsStr(ss []slot) string {
	var sb strings.Builder
	for i, s := range ss {
		if i > 0 {
			sb.WriteByte(' ')
		}
		sb.WriteString(lib.X(s.key) + ":" + vDec(s.off))
	}
	return sb.String()
}

// vExpected renders a key→change map as a sorted slot list
func vExpected(m map[string]vchg) []slot {
	keys := make([]string, 0, len(m))
	for k, c := range m {
		if c.flag != 0 {
			keys = append(keys, k)
		}
	}
	sort.Strings(keys)
	out := make([]slot, len(keys))
	for i, k := range keys {
		out[i] = slot{key: k, off: vEnc(m[k].flag, m[k].off)}
	}
	return out
}

func vEqSlots(a, b []slot) bool {
	if len(a) != len(b) {
		return false
	}
	for i := range a {
		if a[i] != b[i] {
			return false
		}
	}
	return true
}

// vStructure checks sortedness/uniqueness, no empty chunk, size field; returns "" or the problem
func vStructure(ib *ixbuf) (unsorted, size string) {
	n := 0
	first := true
	prev := ""
	for ci, c := range ib.chunks {
		if len(c) == 0 {
			unsorted = fmt.Sprintf("empty chunk %d", ci)
		}
		for _, s := range c {
			if !first && !(prev < s.key) {
				unsorted = fmt.Sprintf("key %s after %s", lib.X(s.key), lib.X(prev))
			}
			if s.off == 0 || (s.off&Update != 0 && s.off&Delete != 0) {
				unsorted = fmt.Sprintf("bad offset %x for key %s", s.off, lib.X(s.key))
			}
			first = false
			prev = s.key
			n++
		}
	}
	if int(ib.size) != n {
		size = fmt.Sprintf("size field %d, %d slots", ib.size, n)
	}
	return
}

// vCheck runs ixbuf.Check(). Check() itself starts with prev = "" and so reports a (false)
// "invalid duplicate key" when the first key is the empty string; it is skipped for such buffers
// (vStructure has already checked them).
func vCheck(tr *lib.Trace, ib *ixbuf) string {
	if len(ib.chunks) > 0 && len(ib.chunks[0]) > 0 && ib.chunks[0][0].key == "" {
		tr.Count("check-skipped:first-key-empty")
		return ""
	}
	return lib.Catch(func() { ib.Check() })
}

type vsnap struct {
	chunks [][]slot
	size   int32
}

func vSnapshot(ib *ixbuf) vsnap {
	s := vsnap{size: ib.size}
	if ib.chunks != nil {
		s.chunks = make([][]slot, len(ib.chunks))
		for i, c := range ib.chunks {
			s.chunks[i] = append([]slot(nil), c...)
		}
	}
	return s
}

func (s vsnap) same(ib *ixbuf) bool {
	if s.size != ib.size || len(s.chunks) != len(ib.chunks) {
		return false
	}
	for i, c := range ib.chunks {
		if !vEqSlots(s.chunks[i], c) {
			return false
		}
	}
	return true
}

var vSizes = []int{0, 0, 1, 2, 3, 5, 8, 11, 12, 13, 14, 20, 23, 24, 25, 26, 30, 36, 37, 47, 48, 49, 50, 60, 75, 100}

func vKeyOf(mode string, r *rand.Rand, j, i int) string {
	switch mode {
	case "collide": // tiny shared alphabet
		return string([]byte{byte('a' + r.Intn(6))}) + string([]byte{byte('0' + r.Intn(6))})
	case "disjoint": // every buffer its own range
		return fmt.Sprintf("%c%03d", 'a'+j, r.Intn(400))
	case "blocks": // ranges of 40 keys handed to buffers at random: pass-through in the middle of a merge
		blk := r.Intn(12)
		own := (blk*7 + j) % 3 // a block is shared by only some of the buffers
		if own != 0 {
			blk = (blk + own) % 12
		}
		return fmt.Sprintf("b%02d%02d", blk, r.Intn(40))
	case "prefix": // long common prefix, bytes 0x00 and 0xff, the empty key
		switch r.Intn(12) {
		case 0:
			return ""
		case 1:
			return "commonprefix/commonprefix/"
		}
		suf := []string{"", "\x00", "\x00\x00", "\xff", "\xff\xff", "a", "a\x00", "b", "\x01"}
		return "commonprefix/commonprefix/" + suf[r.Intn(len(suf))] + suf[r.Intn(len(suf))]
	}
	// mixed: medium alphabet
	return fmt.Sprintf("k%02d", r.Intn(70))
}

// vAliased returns the index of an input buffer such that a chunk of res extends into the SPARE CAPACITY
// of one of its chunks (memory behind the input chunk's length), or -1. Sharing the live part of an
// input chunk (pass-through of a whole chunk or of its remaining suffix) is what Merge is meant to do.
func vAliased(res *ixbuf, bufs []*ixbuf) int {
	sz := unsafe.Sizeof(slot{})
	for _, oc := range res.chunks {
		if len(oc) == 0 {
			continue
		}
		olo := uintptr(unsafe.Pointer(&oc[0]))
		ohi := olo + uintptr(len(oc))*sz
		for j, ib := range bufs {
			for _, ic := range ib.chunks {
				if cap(ic) == 0 {
					continue
				}
				full := ic[:cap(ic)]
				ilo := uintptr(unsafe.Pointer(&full[0]))
				ihi := ilo + uintptr(cap(ic))*sz
				slo := ilo + uintptr(len(ic))*sz // spare capacity of the input chunk: [slo, ihi)
				if olo < ihi && slo < ohi {
					return j
				}
			}
		}
	}
	return -1
}

// vAltBuf builds a buffer of valid ops w.r.t. st (which it updates); keys of buffer index j of the mode.
func vAltBuf(mode string, r *rand.Rand, j, nops int, st map[string]uint64, nextOff *uint64) (*ixbuf, map[string]vchg, bool) {
	ib := &ixbuf{}
	exp := map[string]vchg{}
	ok := true
	for i := 0; i < nops; i++ {
		k := vKeyOf(mode, r, j, i)
		cur, present := st[k]
		var c vchg
		switch {
		case !present:
			c = vchg{'a', *nextOff}
			*nextOff++
			st[k] = c.off
		case r.Intn(5) < 3:
			c = vchg{'u', *nextOff}
			*nextOff++
			st[k] = c.off
		default:
			c = vchg{'d', cur}
			delete(st, k)
		}
		if lib.Catch(func() { ib.Insert(k, vEnc(c.flag, c.off)) }) != "" {
			return ib, exp, false
		}
		var ok1 bool
		exp[k], ok1 = vFold(exp[k], c)
		ok = ok && ok1
	}
	return ib, exp, ok
}

func TestVerifC11Merge(t *testing.T) {
	log.SetOutput(io.Discard) // Combine logs before panicking on an invalid pair
	tr := lib.Open()
	defer tr.Close()
	r := lib.Rand()
	n := lib.N(2000)

	// ---- goal thresholds (ties the generated `goal` to the compiled one)
	for _, g := range []int32{0, 1, 255, 256, 1023, 1024, 4095, 4096, 16383, 16384, 65535, 65536, 1 << 20} {
		tr.Q(fmt.Sprintf("goal %d", g), fmt.Sprint(goal(g)))
	}

	// ---- Combine: all 9 flag pairs, several offsets
	offs := []uint64{1, 2, 12345, Mask, Mask - 1}
	flags := []byte{'a', 'u', 'd'}
	for _, f1 := range flags {
		for _, f2 := range flags {
			for k := 0; k < 6; k++ {
				o1, o2 := offs[r.Intn(len(offs))], offs[r.Intn(len(offs))]
				var res, old uint64
				msg := lib.Catch(func() { res, old = Combine(vEnc(f1, o1), vEnc(f2, o2)) })
				out := "!panic"
				if msg == "" {
					if res == 0 {
						out = fmt.Sprintf("- %d", old)
					} else {
						out = fmt.Sprintf("%s %d", vDec(res), old)
					}
				}
				tr.Q(fmt.Sprintf("combine %c%d %c%d", f1, o1, f2, o2), out)
				tr.Count("combine:" + string(f1) + string(f2))
				want, wold, ok := vRefCombine(vchg{f1, o1}, vchg{f2, o2})
				exp := "!panic"
				if ok {
					if want.flag == 0 {
						exp = fmt.Sprintf("- %d", wold)
					} else {
						exp = fmt.Sprintf("%c%d %d", want.flag, want.off, wold)
					}
				}
				if out != exp {
					tr.Fail("combine-table", fmt.Sprintf("Combine(%c%d, %c%d) = %s, five-case table says %s", f1, o1, f2, o2, out, exp))
				}
			}
		}
	}

	modes := []string{"collide", "disjoint", "blocks", "prefix", "mixed", "mixed"}
	for cse := 0; cse < n; cse++ {
		mode := modes[r.Intn(len(modes))]
		nbuf := 2 + r.Intn(5)
		switch r.Intn(60) {
		case 0:
			nbuf = 0
		case 1:
			nbuf = 1
		}
		invalid := r.Intn(25) == 0 // malformed stream: op validity ignored
		big := r.Intn(40) == 0     // cross goal(256) / goal(1024)
		ascending := r.Intn(4) == 0
		tr.Count("mode=" + mode)
		tr.Count(fmt.Sprintf("nbuf=%d", nbuf))
		if invalid {
			tr.Count("invalid-stream")
		}

		// state of the world before the buffers: key -> offset (absent = not in map)
		state := map[string]uint64{}
		nextOff := uint64(1 + r.Intn(1000))
		if r.Intn(8) == 0 {
			nextOff = Mask - 3000
		}
		for i := 0; i < 40; i++ {
			if r.Intn(2) == 0 {
				state[vKeyOf(mode, r, r.Intn(6), i)] = nextOff
				nextOff++
			}
		}
		base := map[string]uint64{}
		for k, v := range state {
			base[k] = v
		}

		bufs := make([]*ixbuf, nbuf)
		exps := make([]map[string]vchg, nbuf)           // per buffer: expected key -> change (reference fold of its ops)
		stateAfter := make([]map[string]uint64, nbuf+1) // state of the world after the first j buffers
		stateAfter[0] = base
		aborted := false
		total := 0
		for j := 0; j < nbuf && !aborted; j++ {
			nops := vSizes[r.Intn(len(vSizes))]
			if big && r.Intn(2) == 0 {
				nops = 150 + r.Intn(500)
			}
			ops := make([]vop, 0, nops)
			keys := make([]string, nops)
			for i := range keys {
				keys[i] = vKeyOf(mode, r, j, i)
			}
			if ascending {
				sort.Strings(keys)
			}
			exp := map[string]vchg{}
			for _, k := range keys {
				cur, present := state[k]
				var op vop
				if invalid && r.Intn(4) == 0 {
					op = vop{k, "aud"[r.Intn(3)], nextOff}
					nextOff++
				} else if !present {
					op = vop{k, 'a', nextOff}
					nextOff++
				} else if r.Intn(5) < 3 {
					op = vop{k, 'u', nextOff}
					nextOff++
				} else {
					op = vop{k, 'd', cur}
					if r.Intn(6) == 0 {
						op.off = nextOff
						nextOff++
					}
				}
				switch op.flag {
				case 'a', 'u':
					state[k] = op.off
				case 'd':
					delete(state, k)
				}
				ops = append(ops, op)
			}
			// build with Insert
			ib := &ixbuf{}
			var sb, olds strings.Builder
			sb.WriteString("ins")
			panicked := ""
			expOK := true
			for i, op := range ops {
				fmt.Fprintf(&sb, " %s:%c%d", lib.X(op.key), op.flag, op.off)
				if panicked != "" {
					continue
				}
				var old uint64
				panicked = lib.Catch(func() { old = ib.Insert(op.key, vEnc(op.flag, op.off)) })
				if old != 0 {
					if olds.Len() > 0 {
						olds.WriteByte(',')
					}
					fmt.Fprintf(&olds, "%d:%d", i, old)
				}
				if expOK {
					exp[op.key], expOK = vFold(exp[op.key], vchg{op.flag, op.off})
				}
			}
			if panicked != "" {
				tr.Q(sb.String(), "!panic")
				tr.Count("insert:!panic")
				if !invalid {
					tr.Fail("insert-panic", fmt.Sprintf("Insert panicked (%s) on a valid op sequence: %s", panicked, sb.String()))
				}
				aborted = true
				break
			}
			if olds.Len() == 0 {
				olds.WriteByte('-')
			}
			tr.Q(sb.String(), vBufStr(ib)+" old="+olds.String())
			tr.Count(fmt.Sprintf("insert:chunks=%d", min(len(ib.chunks), 6)))
			// direct oracles on the Insert-built buffer
			if u, s := vStructure(ib); u != "" || s != "" {
				tr.Fail("insert-unsorted", fmt.Sprintf("%s %s after %s: %s", u, s, sb.String(), vBufStr(ib)))
			} else if msg := vCheck(tr, ib); msg != "" {
				tr.Fail("insert-unsorted", fmt.Sprintf("Check() panics (%s) after %s", msg, sb.String()))
			}
			if expOK {
				if want := vExpected(exp); !vEqSlots(want, vFlat(ib)) {
					tr.Fail("insert-not-sequential", fmt.Sprintf("%s gives %s, per-key fold gives %s", sb.String(), vSlotsStr(vFlat(ib)), vSlotsStr(want)))
				}
			} else if !invalid {
				tr.Fail("insert-not-sequential", "generator produced an invalid sequence: "+sb.String())
			}
			bufs[j] = ib
			exps[j] = exp
			total += int(ib.size)
			stateAfter[j+1] = map[string]uint64{}
			for k, v := range state {
				stateAfter[j+1][k] = v
			}
		}
		if aborted {
			continue
		}

		// ---- Merge
		snaps := make([]vsnap, nbuf)
		addr := map[*slot]bool{}
		var q strings.Builder
		q.WriteString("merge")
		for j, ib := range bufs {
			snaps[j] = vSnapshot(ib)
			q.WriteByte(' ')
			q.WriteString(vBufStr(ib))
			for _, c := range ib.chunks {
				for i := range c {
					addr[&c[i]] = true
				}
			}
		}
		var res *ixbuf
		msg := lib.Catch(func() { res = Merge(bufs...) })
		// inputs must be unchanged whatever happened
		for j, ib := range bufs {
			if !snaps[j].same(ib) {
				tr.Fail("merge-input-mutated", fmt.Sprintf("input %d of %s is now %s", j, q.String(), vBufStr(ib)))
			}
		}
		if msg != "" {
			tr.Q(q.String(), "!panic")
			tr.Count("merge:!panic")
			if !invalid && nbuf >= 2 {
				tr.Fail("merge-panic", fmt.Sprintf("Merge panicked (%s) on valid input: %s", msg, q.String()))
			}
			continue
		}
		tr.Q(q.String(), vBufStr(res)+" flat=t")
		switch {
		case total < 12:
			tr.Count("total<12")
		case total <= 24:
			tr.Count("total<=24")
		case total <= 48:
			tr.Count("total<=48")
		case total < 256:
			tr.Count("total<256")
		case total < 1024:
			tr.Count("total<1024")
		default:
			tr.Count("total>=1024")
		}
		tr.Count(fmt.Sprintf("merge:chunks=%d", min(len(res.chunks), 8)))
		shared := 0
		for _, c := range res.chunks {
			if len(c) > 0 && addr[&c[0]] {
				shared++
			}
		}
		nonEmpty := 0
		for _, ib := range bufs {
			if ib.size != 0 {
				nonEmpty++
			}
		}
		if shared > 0 && nonEmpty >= 2 {
			tr.Count("merge:passthru-shared-chunk")
		}
		if nonEmpty < 2 {
			tr.Count(fmt.Sprintf("merge:nonempty-inputs=%d", nonEmpty))
		}
		if cse < 3 {
			tr.Sample(q.String() + " -> " + vBufStr(res))
		}

		// direct oracles
		u, s := vStructure(res)
		if u != "" {
			tr.Fail("merge-unsorted", fmt.Sprintf("%s in result %s of %s", u, vBufStr(res), q.String()))
		} else if msg := vCheck(tr, res); msg != "" && s == "" {
			tr.Fail("merge-unsorted", fmt.Sprintf("Check() panics (%s) on result of %s", msg, q.String()))
		}
		if s != "" {
			tr.Fail("merge-size", fmt.Sprintf("%s in result %s of %s", s, vBufStr(res), q.String()))
		}
		if invalid {
			continue
		}
		// (1) key -> change: per-key fold of the buffers' (reference) contents, oldest first
		want := map[string]vchg{}
		ok := true
		for j := range bufs {
			for _, sl := range vExpected(exps[j]) {
				c := exps[j][sl.key]
				var ok1 bool
				want[sl.key], ok1 = vFold(want[sl.key], c)
				ok = ok && ok1
			}
		}
		got := vFlat(res)
		if !ok {
			tr.Fail("merge-not-sequential", "generator produced an invalid layer stack: "+q.String())
		} else if !vEqSlots(vExpected(want), got) {
			tr.Fail("merge-not-sequential", fmt.Sprintf("%s gives %s, per-key fold of the inputs gives %s", q.String(), vSlotsStr(got), vSlotsStr(vExpected(want))))
		}
		// (2) applying the merged changes to the starting map == the map after all buffers' ops
		m := map[string]uint64{}
		for k, v := range base {
			m[k] = v
		}
		bad := ""
		for _, sl := range got {
			_, present := m[sl.key]
			switch sl.off &^ Mask {
			case 0:
				if present {
					bad = "add of present key " + lib.X(sl.key)
				}
				m[sl.key] = sl.off & Mask
			case Update:
				if !present {
					bad = "update of absent key " + lib.X(sl.key)
				}
				m[sl.key] = sl.off & Mask
			case Delete:
				if !present {
					bad = "delete of absent key " + lib.X(sl.key)
				}
				delete(m, sl.key)
			}
		}
		if bad == "" && len(m) != len(state) {
			bad = fmt.Sprintf("%d keys present, sequential application gives %d", len(m), len(state))
		}
		if bad == "" {
			sk := make([]string, 0, len(state))
			for k := range state {
				sk = append(sk, k)
			}
			sort.Strings(sk)
			for _, k := range sk {
				if mv, ok := m[k]; !ok || mv != state[k] {
					bad = fmt.Sprintf("key %s -> %d (present %v), sequential application gives %d", lib.X(k), mv, ok, state[k])
					break
				}
			}
		}
		if bad != "" {
			tr.Fail("merge-not-sequential", fmt.Sprintf("applying the result of %s: %s; result %s", q.String(), bad, vSlotsStr(got)))
		}

		// ---- persistence: results of earlier merges and all inputs stay intact when some of the same
		// inputs take part in later merges with other partners (Merge is immutable persistent)
		if nbuf < 2 {
			continue
		}
		type vres struct {
			ib   *ixbuf
			snap vsnap
			q    string
		}
		earlier := []vres{{res, vSnapshot(res), q.String()}}
		allIn := append([]*ixbuf(nil), bufs...)
		allSnaps := append([]vsnap(nil), snaps...)
		aliased := vAliased(res, bufs)
		if aliased >= 0 {
			tr.Count("merge:result-aliases-input")
		}
		nalt := 1 + r.Intn(2)
		for a := 0; a < nalt; a++ {
			// keep the first `cut` inputs, replace the rest by fresh buffers
			cut := 1 + r.Intn(nbuf)
			if aliased >= 0 && a == 0 {
				cut = aliased + 1 + r.Intn(nbuf-aliased)
			}
			st := map[string]uint64{}
			for k, v := range stateAfter[cut] {
				st[k] = v
			}
			ins := append([]*ixbuf(nil), bufs[:cut]...)
			inExps := append([]map[string]vchg(nil), exps[:cut]...)
			ok := true
			for ti, nt := 0, 1+r.Intn(3); ti < nt; ti++ {
				jj := nbuf + r.Intn(2) // the alternative tails interleave among themselves
				if r.Intn(3) == 0 {
					jj = r.Intn(nbuf + 1)
				}
				ib, exp, ok1 := vAltBuf(mode, r, jj, vSizes[r.Intn(12)], st, &nextOff)
				ok = ok && ok1
				ins = append(ins, ib)
				inExps = append(inExps, exp)
				allIn = append(allIn, ib)
				allSnaps = append(allSnaps, vSnapshot(ib))
			}
			if !ok {
				tr.Fail("insert-panic", "alternative tail buffer could not be built for "+q.String())
				break
			}
			var q2 strings.Builder
			q2.WriteString("merge")
			for _, ib := range ins {
				q2.WriteByte(' ')
				q2.WriteString(vBufStr(ib))
			}
			var res2 *ixbuf
			msg := lib.Catch(func() { res2 = Merge(ins...) })
			tr.Count("persist:remerge")
			for j, ib := range allIn {
				if !allSnaps[j].same(ib) {
					tr.Fail("merge-input-mutated", fmt.Sprintf("after re-merge %s an input of an earlier merge is now %s", q2.String(), vBufStr(ib)))
					allSnaps[j] = vSnapshot(ib)
				}
			}
			for i := range earlier {
				if !earlier[i].snap.same(earlier[i].ib) {
					tr.Fail("merge-result-mutated", fmt.Sprintf("result of %s changed to %s after the later %s", earlier[i].q, vBufStr(earlier[i].ib), q2.String()))
					earlier[i].snap = vSnapshot(earlier[i].ib)
				}
			}
			if msg != "" {
				tr.Q(q2.String(), "!panic")
				tr.Fail("merge-panic", fmt.Sprintf("Merge panicked (%s) on valid input: %s", msg, q2.String()))
				break
			}
			tr.Q(q2.String(), vBufStr(res2)+" flat=t")
			if u, s := vStructure(res2); u != "" || s != "" {
				tr.Fail("merge-unsorted", fmt.Sprintf("%s %s in result %s of %s", u, s, vBufStr(res2), q2.String()))
			}
			want := map[string]vchg{}
			okf := true
			for j := range ins {
				for _, sl := range vExpected(inExps[j]) {
					var ok1 bool
					want[sl.key], ok1 = vFold(want[sl.key], inExps[j][sl.key])
					okf = okf && ok1
				}
			}
			if !okf {
				tr.Fail("merge-not-sequential", "generator produced an invalid layer stack: "+q2.String())
			} else if !vEqSlots(vExpected(want), vFlat(res2)) {
				tr.Fail("merge-not-sequential", fmt.Sprintf("%s gives %s, per-key fold of the inputs gives %s", q2.String(), vSlotsStr(vFlat(res2)), vSlotsStr(vExpected(want))))
			}
			if vAliased(res2, ins) >= 0 {
				tr.Count("merge:result-aliases-input")
			}
			earlier = append(earlier, vres{res2, vSnapshot(res2), q2.String()})
		}
	}
}
