//go:build verif

package btree

// C10: real btrees (bulk Builder + MergeAndSave batches, several SetSplit values) against the
// Lean models (Q lines) and direct oracles on a Go map: Lookup exact, iteration in both
// directions exact and strictly sorted, Check() passes with the right count, RangeFrac in [0,1].
// Q lines: build/merge/iter/lookup (content model), leaves (leaf packing), and — against the
// abstract B+-tree the driver keeps (bulkBuild / mergeBatch) — shape (every leaf: stored prefix
// length, key count, byte size; every separator; after every build and every merge), tlookup
// (Lookup by descent), leafcodec (stored leaf nodes byte for byte through the model's codec),
// rangefrac (RangeFrac on the rational model, 1/10000 buckets).

import (
	"fmt"
	"math"
	"math/rand"
	"sort"
	"strings"
	"testing"

	"github.com/apmckinlay/gsuneido/db19/index/ixbuf"
	"github.com/apmckinlay/gsuneido/db19/index/ixkey"
	"github.com/apmckinlay/gsuneido/db19/stor"
	lib "github.com/apmckinlay/gsuneido/util/zzverif"
)

func c10hstep(h, x uint64) uint64 { return (h*1000003 + x + 1) % 4294967291 }

type c10kv struct {
	k string
	o uint64
}

func c10hash(kvs []c10kv) uint64 {
	h := uint64(7)
	for _, kv := range kvs {
		h = c10hstep(h, uint64(len(kv.k)))
		for i := 0; i < len(kv.k); i++ {
			h = c10hstep(h, uint64(kv.k[i]))
		}
		h = c10hstep(h, kv.o)
	}
	return h
}

func c10maxlen(keys []string) int {
	m := 0
	for _, k := range keys {
		m = max(m, len(k))
	}
	return m
}

func c10summary(fwd, bwd []c10kv) string {
	return fmt.Sprintf("n %d h %d r %d", len(fwd), c10hash(fwd), c10hash(bwd))
}

func c10keys(r *rand.Rand, tr *lib.Trace, split *int) []string {
	set := map[string]bool{}
	n := r.Intn(120)
	switch r.Intn(10) {
	case 0:
		n = 0
	case 1:
		n = 1
	case 2:
		n = 200 + r.Intn(400)
	}
	kind := r.Intn(8)
	tr.Count(fmt.Sprintf("keykind=%d", kind))
	if kind >= 5 {
		return c10keysLeaf(r, tr, kind, split)
	}
	var prefix string
	if kind == 1 {
		prefix = strings.Repeat("p", 20+r.Intn(300))
	}
	alpha := []byte{0, 1, 'a', 'b', 0xfe, 0xff}
	for i := 0; i < n; i++ {
		var k string
		switch kind {
		case 0: // numeric strings
			k = fmt.Sprintf("%05d", r.Intn(3000))
		case 1: // long shared prefix
			k = prefix + fmt.Sprintf("%04d", r.Intn(2000))
		case 2: // keys near the maximum size (a node holds few of them)
			k = fmt.Sprintf("%03d", r.Intn(500)) + strings.Repeat("x", 1500+r.Intn(2400))
		case 3: // byte strings over a nasty alphabet, prefix related
			b := make([]byte, r.Intn(6))
			for j := range b {
				b[j] = alpha[r.Intn(len(alpha))]
			}
			k = string(b)
		default: // composite keys
			k = ixkey.CompKey(fmt.Sprintf("%02d", r.Intn(30)), string(alpha[r.Intn(4)]), fmt.Sprintf("%d", r.Intn(5)))
		}
		set[k] = true
	}
	keys := make([]string, 0, len(set))
	for k := range set {
		keys = append(keys, k)
	}
	sort.Strings(keys)
	return keys
}

// c10keysLeaf: key sets aimed at the byte-size logic of leaf nodes.
//
//	5: several groups, each with its own long prefix (prefix compression lets many keys into a
//	   leaf), interleaved with short keys that share nothing — the compression ratio of a leaf
//	   changes at a single add
//	6: boundary: about splitCount keys without a common prefix whose total length is within a
//	   few bytes of what a node can hold
//	7: as 6 with a common prefix of random length (0..300, straddling the 255 cap)
func c10keysLeaf(r *rand.Rand, tr *lib.Trace, kind int, split *int) []string {
	set := map[string]bool{}
	switch kind {
	case 5:
		*split = []int{20, 100, 100}[r.Intn(3)]
		ngroups := 1 + r.Intn(4)
		for g := 0; g < ngroups; g++ {
			pre := string(rune('b'+2*g)) + strings.Repeat(string(rune('p'+g)), 60+r.Intn(700))
			fill := strings.Repeat("f", r.Intn(60))
			cnt := 5 + r.Intn(90)
			for i := 0; i < cnt; i++ {
				set[pre+fmt.Sprintf("%03d", r.Intn(400))+fill] = true
			}
			// keys that sort between / after the groups and share nothing with them
			for i := r.Intn(4); i > 0; i-- {
				set[string(rune('a'+2*g+r.Intn(3)))+fmt.Sprintf("%d", r.Intn(50))] = true
			}
		}
		if r.Intn(2) == 0 {
			set["zzz"] = true
		}
	default:
		if r.Intn(3) > 0 {
			*split = 100
		}
		n := *split
		if n > 120 {
			n = 120
		}
		n += r.Intn(3) - 1
		if n < 2 {
			n = 2
		}
		pre := ""
		if kind == 7 {
			pre = strings.Repeat("q", r.Intn(300))
		}
		// total key bytes so that 4 + 7n + fields is maxNodeSize + delta
		delta := r.Intn(17) - 8
		total := maxNodeSize - 4 - 7*n + delta + (n-1)*min(255, len(pre))
		each := total / n
		if each < len(pre)+5 {
			each = len(pre) + 5
		}
		if each > 3900 { // stay below the ixkey entry limit (small splits do not reach the boundary then)
			each = 3900
		}
		extra := total - each*n
		if extra < 0 || extra > n {
			extra = 0
		}
		for i := 0; i < n; i++ {
			l := each
			if i < extra {
				l++
			}
			// distinct first bytes after pre: the common prefix of the set is exactly pre
			k := pre + string(rune('A'+i%40)) + fmt.Sprintf("%03d", i)
			if len(k) < l {
				k += strings.Repeat("v", l-len(k))
			}
			set[k] = true
		}
	}
	keys := make([]string, 0, len(set))
	for k := range set {
		keys = append(keys, k)
	}
	sort.Strings(keys)
	return keys
}

// c10sep: a separator, short ones in hex, long ones as length and checksum
func c10sep(s string) string {
	if len(s) <= 12 {
		return lib.X(s)
	}
	h := uint64(7)
	for i := 0; i < len(s); i++ {
		h = c10hstep(h, uint64(s[i]))
	}
	return fmt.Sprintf("s%d:%d", len(s), h)
}

// c10shape: the complete shape of the stored tree: "<treeLevels> <nodes>", a tree node is
// "[ child xsep child … child ]", a leaf "L<prefix length>:<keys>:<bytes>"
func c10shape(bt *T) string {
	var sb strings.Builder
	fmt.Fprintf(&sb, "%d ", bt.treeLevels)
	var walk func(level int, off uint64)
	walk = func(level int, off uint64) {
		if level < bt.treeLevels {
			nd := bt.readTree(off)
			sb.WriteString("[ ")
			for i := 0; i < nd.nkeys(); i++ {
				walk(level+1, nd.offset(i))
				sb.WriteString(" " + c10sep(string(nd.key(i))) + " ")
			}
			walk(level+1, nd.offset(nd.nkeys()))
			sb.WriteString(" ]")
		} else {
			nd := bt.readLeaf(off)
			fmt.Fprintf(&sb, "L%d:%d:%d", nd[1], nd.nkeys(), len(nd))
		}
	}
	walk(0, bt.root)
	return sb.String()
}

// c10dyadic: a float64 as "mantissa exponent" (exactly m * 2^e)
func c10dyadic(f float64) string {
	if math.IsNaN(f) || math.IsInf(f, 0) || f == 0 {
		return "0 0"
	}
	fr, ex := math.Frexp(f)
	return fmt.Sprintf("%d %d", int64(fr*(1<<53)), ex-53)
}

// c10fanouts: the two average fanouts rangeFrac computes (at the root, and after fattenRoot),
// with the expressions of rangefrac.go
func c10fanouts(bt *T) (fanA, fanB float64) {
	if bt.treeLevels == 0 {
		return 0, 0
	}
	nkeys := bt.count
	root := bt.readTree(bt.root)
	n := root.noffs()
	if bt.treeLevels == 1 {
		fanA = float64(nkeys) / (float64(n) - 0.5)
	} else {
		fanA = math.Pow(float64(nkeys)/(float64(n)-0.5), 1.0/float64(bt.treeLevels))
	}
	m := 0
	for i := 0; i < n; i++ {
		m += bt.readNode(1, root.offset(i)).noffs()
	}
	fanB = math.Pow(float64(nkeys)/(float64(m)), 1.0/float64(bt.treeLevels-1))
	return
}

// c10fracBucket: the 1/10000 bucket of a fraction (same offset as the driver)
func c10fracBucket(f float64) int64 {
	return int64(math.Floor(f*10000 + 0.3819660112501051))
}

// c10leafQ: some stored leaf nodes, byte for byte, against the leaf codec of the model
// (decode = the accessors key(i)/offset(i)/size(), encode of the decoded leaf = the stored bytes)
func c10leafQ(tr *lib.Trace, bt *T, hist string, r *rand.Rand) bool {
	var leaves []uint64
	var walk func(level int, off uint64)
	walk = func(level int, off uint64) {
		if level < bt.treeLevels {
			nd := bt.readTree(off)
			for i := 0; i < nd.noffs(); i++ {
				walk(level+1, nd.offset(i))
			}
		} else {
			leaves = append(leaves, off)
		}
	}
	ok := true
	if msg := lib.Catch(func() {
		walk(0, bt.root)
		for i := 0; i < 3 && len(leaves) > 0; i++ {
			j := r.Intn(len(leaves))
			if i == 0 && r.Intn(2) == 0 {
				j = len(leaves) - 1
			}
			nd := bt.readLeaf(leaves[j])
			if len(nd) > 20000 {
				continue
			}
			var es []c10kv
			for q := 0; q < nd.nkeys(); q++ {
				es = append(es, c10kv{nd.key(q), nd.offset(q)})
			}
			tr.Q("leafcodec "+lib.X(string(nd)),
				fmt.Sprintf("%d %d %d %d %d t", nd[1], nd.nkeys(), c10hash(es), nd.size(), len(nd)))
			tr.Count("leafcodec")
		}
	}); msg != "" {
		tr.Fail("node-walk-panic", hist+" leafcodec :: "+msg)
		ok = false
	}
	return ok
}

// c10shapeQ: the shape of the real tree against the abstract tree of the model (driver state)
func c10shapeQ(tr *lib.Trace, bt *T, hist string) bool {
	var sh string
	if msg := lib.Catch(func() { sh = c10shape(bt) }); msg != "" {
		tr.Fail("node-walk-panic", hist+" shape :: "+msg)
		return false
	}
	tr.Q("shape", sh)
	return true
}

func TestVerifC10(t *testing.T) {
	tr := lib.Open()
	defer tr.Close()
	r := lib.Rand()
	n := lib.N(400)
	for ci := 0; ci < n; ci++ {
		split := []int{3, 4, 7, 20, 100}[r.Intn(5)]
		old := SetSplit(split)
		c10one(tr, r, ci, split)
		SetSplit(old)
	}
}

func c10one(tr *lib.Trace, r *rand.Rand, ci, split int) {
	st := stor.HeapStor(256 * 1024)
	st.Alloc(1)
	keys := c10keys(r, tr, &split)
	SetSplit(split)
	tr.Count(fmt.Sprintf("split=%d", split))
	model := map[string]uint64{}
	nextOff := uint64(1000)
	hist := fmt.Sprintf("case %d split %d nkeys %d", ci, split, len(keys))
	var sb strings.Builder
	fmt.Fprintf(&sb, "build %d", split)
	var bt *T
	dupAccepted := false
	if msg := lib.Catch(func() {
		b := NewBuilder(st)
		for _, k := range keys {
			nextOff++
			b.Add(k, nextOff)
			model[k] = nextOff
			fmt.Fprintf(&sb, " %s %d", lib.X(k), nextOff)
			if r.Intn(25) == 0 { // duplicate key: must be refused and leave the tree unchanged
				tr.Count("builder-dup")
				if b.Add(k, nextOff+5000) {
					dupAccepted = true
				}
			}
		}
		bt = b.Finish()
	}); msg != "" {
		tr.Fail("builder-panic", fmt.Sprintf("%s maxkeylen %d :: %s", hist, c10maxlen(keys), msg))
		return
	}
	if dupAccepted {
		tr.Fail("builder-accepts-duplicate", hist)
		return
	}
	tr.Count(fmt.Sprintf("levels=%d", bt.TreeLevels()))
	// the builder's leaf packing (key count : byte size of every leaf) against the Lean mirror
	{
		var lv, q strings.Builder
		var walk func(level int, off uint64)
		walk = func(level int, off uint64) {
			if level < bt.treeLevels {
				nd := bt.readTree(off)
				for i := 0; i < nd.noffs(); i++ {
					walk(level+1, nd.offset(i))
				}
			} else {
				nd := bt.readLeaf(off)
				if lv.Len() > 0 {
					lv.WriteByte(' ')
				}
				fmt.Fprintf(&lv, "%d:%d", nd.nkeys(), len(nd))
			}
		}
		if msg := lib.Catch(func() { walk(0, bt.root) }); msg != "" {
			tr.Fail("node-walk-panic", hist+" after build :: "+msg)
			return
		}
		fmt.Fprintf(&q, "leaves %d", split)
		for _, k := range keys {
			q.WriteByte(' ')
			q.WriteString(lib.X(k))
		}
		tr.Q(q.String(), lv.String())
	}
	if !c10check(tr, bt, model, hist+" after build", sb.String(), r) {
		return
	}
	if !c10shapeQ(tr, bt, hist+" after build") || !c10leafQ(tr, bt, hist+" after build", r) {
		return
	}
	for i := 0; i < 4 && len(keys) > 0; i++ { // Lookup by descent through the abstract tree
		k := keys[r.Intn(len(keys))]
		switch r.Intn(4) {
		case 0:
			k += "\x00"
		case 1:
			k = k[:len(k)-len(k)/2]
		}
		tr.Q("tlookup "+lib.X(k), fmt.Sprint(bt.Lookup(k)))
	}
	nb := 1 + r.Intn(12)
	for bi := 0; bi < nb; bi++ {
		ib := &ixbuf.T{}
		touched := map[string]bool{}
		sz := 1 + r.Intn(1+len(model)/3+8)
		bad := r.Intn(60) == 0 // malformed stream: one entry violating the precondition
		desc := ""
		for j := 0; j < sz; j++ {
			var k string
			if len(keys) > 0 && r.Intn(3) > 0 {
				k = keys[r.Intn(len(keys))]
			} else {
				base := "m"
				if len(keys) > 0 {
					base = keys[r.Intn(len(keys))]
				}
				k = base + string(rune('a'+r.Intn(3)))
				if r.Intn(4) == 0 && len(base) > 0 {
					k = base[:len(base)-1]
				}
				if r.Intn(5) == 0 { // a short key that shares no prefix with its neighbours
					k = string(rune('a'+r.Intn(26))) + fmt.Sprintf("%d", r.Intn(100))
				}
			}
			if touched[k] || len(k) > 3900 {
				continue
			}
			touched[k] = true
			off, present := model[k]
			isBad := bad && j == sz/2
			switch {
			case present && !isBad && r.Intn(2) == 0:
				ib.Delete(k, off)
				delete(model, k)
				desc += " del"
				tr.Count("op=del")
			case present && !isBad:
				nextOff++
				ib.Update(k, nextOff)
				model[k] = nextOff
				desc += " upd"
				tr.Count("op=upd")
			case present && isBad: // add of an existing key
				ib.Insert(k, nextOff+7)
				desc += " BAD-add-existing"
				tr.Count("op=bad")
			case !present && isBad: // delete / update of a missing key
				if r.Intn(2) == 0 {
					ib.Delete(k, 55)
				} else {
					ib.Update(k, 55)
				}
				desc += " BAD-missing"
				tr.Count("op=bad")
			default:
				nextOff++
				ib.Insert(k, nextOff)
				model[k] = nextOff
				desc += " add"
				tr.Count("op=add")
			}
		}
		var q strings.Builder
		q.WriteString("merge")
		it := ib.Iter()
		for k, o, ok := it(); ok; k, o, ok = it() {
			fmt.Fprintf(&q, " %s %d", lib.X(k), o)
		}
		hist += fmt.Sprintf(" | batch %d:%s", bi, desc)
		var bt2 *T
		msg := lib.Catch(func() { bt2 = bt.MergeAndSave(ib.Iter()) })
		if strings.Contains(desc, "BAD") {
			if msg == "" {
				tr.Fail("merge-accepts-invalid-batch", hist+" :: "+q.String())
			} else {
				tr.Q(q.String(), "!assert")
			}
			return
		}
		if msg != "" {
			qs := q.String()
			if len(qs) > 600 {
				qs = qs[:600] + "..."
			}
			sig := "merge-panic"
			if strings.Contains(msg, "too large") {
				if c10maxlen(keys) >= 1500 {
					// keys near the maximum size sharing long prefixes (KF-C10-2)
					sig = "merge-panic-node-too-large"
				} else {
					sig = "merge-panic-oversize"
				}
			}
			tr.Fail(sig, fmt.Sprintf("%s maxkeylen %d :: %s :: %s", hist, c10maxlen(keys), msg, qs))
			return
		}
		bt = bt2
		keys = keys[:0]
		for k := range model {
			keys = append(keys, k)
		}
		sort.Strings(keys)
		if !c10check(tr, bt, model, hist, q.String(), r) {
			return
		}
		if !c10shapeQ(tr, bt, hist) || !c10leafQ(tr, bt, hist, r) {
			return
		}
		for i := 0; i < 2 && len(keys) > 0; i++ {
			k := keys[r.Intn(len(keys))]
			if r.Intn(3) == 0 {
				k += "\x01"
			}
			tr.Q("tlookup "+lib.X(k), fmt.Sprint(bt.Lookup(k)))
		}
	}
	if ci < 3 {
		tr.Sample(hist)
	}
}

// c10check: direct oracles + Q line (op answered by the iteration summary)
func c10check(tr *lib.Trace, bt *T, model map[string]uint64, hist, op string, r *rand.Rand) bool {
	keys := make([]string, 0, len(model))
	for k := range model {
		keys = append(keys, k)
	}
	sort.Strings(keys)
	// Check()
	var cnt int
	if msg := lib.Catch(func() { cnt, _, _ = bt.Check(nil) }); msg != "" {
		tr.Fail("check-panic", hist+" :: "+msg)
		return false
	}
	if cnt != len(model) {
		tr.Fail("check-count", fmt.Sprintf("%s :: Check count %d, expected %d", hist, cnt, len(model)))
		return false
	}
	// node invariants: every node holds at most splitCount entries (+1 offset for a bulk-built
	// tree node), fits maxNodeSize, and only the root of an empty tree is empty
	var nodeMsg string
	if msg := lib.Catch(func() {
		var walk func(level int, off uint64)
		walk = func(level int, off uint64) {
			nd := bt.readNode(level, off)
			n := nd.noffs()
			limit := splitCount
			if level < bt.treeLevels {
				limit = splitCount + 1
			}
			if n > limit && nodeMsg == "" {
				nodeMsg = fmt.Sprintf("node at level %d holds %d entries, limit %d", level, n, limit)
			}
			if nd.size() > maxNodeSize && nodeMsg == "" {
				nodeMsg = fmt.Sprintf("node at level %d has size %d > %d", level, nd.size(), maxNodeSize)
			}
			if n == 0 && !(level == 0 && bt.treeLevels == 0) && nodeMsg == "" {
				nodeMsg = fmt.Sprintf("empty node at level %d", level)
			}
			if level < bt.treeLevels {
				for i := 0; i < n; i++ {
					walk(level+1, nd.offset(i))
				}
			}
		}
		walk(0, bt.root)
	}); msg != "" {
		tr.Fail("node-walk-panic", hist+" :: "+msg)
		return false
	}
	if nodeMsg != "" {
		sig := "node-invariant"
		if strings.Contains(nodeMsg, "has size") {
			switch {
			case strings.HasSuffix(hist, "after build"):
				sig = "builder-oversize-node" // produced by the bulk Builder
			case c10maxlen(keys) >= 1500:
				sig = "node-too-large-stored" // MergeAndSave with near-maximum-size keys (KF-C10-2)
			default:
				sig = "merge-oversize-node" // MergeAndSave with ordinary keys
			}
		}
		tr.Fail(sig, fmt.Sprintf("%s maxkeylen %d :: %s", hist, c10maxlen(keys), nodeMsg))
		return false
	}
	// iteration, both directions
	var fwd, bwd []c10kv
	msg := lib.Catch(func() {
		it := bt.Iterator()
		for it.Next(); !it.Eof(); it.Next() {
			k, o := it.Cur()
			fwd = append(fwd, c10kv{k, o})
		}
		it = bt.Iterator()
		for it.Prev(); !it.Eof(); it.Prev() {
			k, o := it.Cur()
			bwd = append(bwd, c10kv{k, o})
		}
	})
	if msg != "" {
		tr.Fail("iter-panic", hist+" :: "+msg)
		return false
	}
	tr.Q(op, c10summary(fwd, bwd))
	if len(fwd) != len(keys) || len(bwd) != len(keys) {
		tr.Fail("iter-count", fmt.Sprintf("%s :: forward %d backward %d expected %d", hist, len(fwd), len(bwd), len(keys)))
		return false
	}
	for i, k := range keys {
		if fwd[i].k != k || fwd[i].o != model[k] {
			tr.Fail("iter-forward", fmt.Sprintf("%s :: at %d got %q/%d expected %q/%d", hist, i, fwd[i].k, fwd[i].o, k, model[k]))
			return false
		}
		j := len(keys) - 1 - i
		if bwd[j].k != k || bwd[j].o != model[k] {
			tr.Fail("iter-backward", fmt.Sprintf("%s :: at %d got %q/%d expected %q/%d", hist, j, bwd[j].k, bwd[j].o, k, model[k]))
			return false
		}
	}
	// Lookup: every present key (bounded) and some absent keys
	probe := func(k string) bool {
		var got uint64
		if msg := lib.Catch(func() { got = bt.Lookup(k) }); msg != "" {
			tr.Fail("lookup-panic", fmt.Sprintf("%s :: Lookup(%q): %s", hist, k, msg))
			return false
		}
		if got != model[k] {
			tr.Fail("lookup", fmt.Sprintf("%s :: Lookup(%q) = %d expected %d", hist, k, got, model[k]))
			return false
		}
		return true
	}
	for i, k := range keys {
		if len(keys) > 60 && i%(len(keys)/60+1) != 0 {
			continue
		}
		if !probe(k) {
			return false
		}
		if !probe(k+"\x00") || (len(k) > 0 && !probe(k[:len(k)-1])) {
			return false
		}
	}
	for i := 0; i < 3 && len(keys) > 0; i++ {
		k := keys[r.Intn(len(keys))]
		tr.Q("lookup "+lib.X(k), fmt.Sprint(bt.Lookup(k)))
		k2 := k + "z"
		tr.Q("lookup "+lib.X(k2), fmt.Sprint(bt.Lookup(k2)))
	}
	// RangeFrac
	for i := 0; i < 6; i++ {
		org, end := ixkey.Min, ixkey.Max
		if len(keys) > 0 {
			if r.Intn(4) > 0 {
				org = keys[r.Intn(len(keys))]
			}
			if r.Intn(4) > 0 {
				end = keys[r.Intn(len(keys))]
			}
		}
		var f float64
		if msg := lib.Catch(func() { f = bt.RangeFrac(org, end) }); msg != "" {
			tr.Fail("rangefrac-panic", fmt.Sprintf("%s :: RangeFrac(%q,%q): %s", hist, org, end, msg))
			return false
		}
		if !(f >= 0 && f <= 1) {
			tr.Fail("rangefrac-bounds", fmt.Sprintf("%s :: RangeFrac(%q,%q) = %v", hist, org, end, f))
			return false
		}
		if org >= end && f != 0 {
			tr.Fail("rangefrac-empty", fmt.Sprintf("%s :: RangeFrac(%q,%q) = %v for an empty range", hist, org, end, f))
			return false
		}
		// exactness for small trees: the documented result is exact when the range ends in leaves;
		// only check the two certain facts: whole range = 1
		if org == ixkey.Min && end == ixkey.Max && f != 1 {
			tr.Fail("rangefrac-all", fmt.Sprintf("%s :: RangeFrac(all) = %v", hist, f))
			return false
		}
		{ // the rational model of rangeFrac on the abstract tree
			fanA, fanB := c10fanouts(bt)
			tr.Q(fmt.Sprintf("rangefrac %d %s %s %s %s", bt.count, lib.X(org), lib.X(end),
				c10dyadic(fanA), c10dyadic(fanB)), fmt.Sprint(c10fracBucket(f)))
		}
		tr.Count("rangefrac")
	}
	return true
}
