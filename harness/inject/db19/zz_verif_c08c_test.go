//go:build verif

package db19

// C08, concurrent part: overlapping update transactions over the foreign key tables.
// A CheckerSync database (deterministic: every checker call is synchronous); rounds of 2-3
// update transactions that start on the same snapshot, run interleaved operations on source and
// target tables (inserts referencing existing targets, deletes / re-keys of referenced targets,
// ...) and commit or abort in random order. The transactions never scan (a scan would register
// a read of the whole table and hide what the foreign key code itself reads): rows and offsets
// come from a read transaction taken when the round starts.
// Direct oracles after every commit (no model replay - which transaction loses a conflict is
// C01's subject):
//   dangling-fk:concurrent:<mode>  the committed state has a non-empty foreign key without target
//   index-mismatch / index-corrupt the indexes of a table disagree

import (
	"fmt"
	"testing"

	"github.com/apmckinlay/gsuneido/core"
	"github.com/apmckinlay/gsuneido/db19/stor"
	lib "github.com/apmckinlay/gsuneido/util/zzverif"
)

type vcTran struct {
	ut   *UpdateTran
	id   int
	ops  []vOp
	dead bool
	budget int // operations left
	used map[uint64]bool // rows of the snapshot this transaction already touched
	desc string
}

func TestVerifC08Concurrent(t *testing.T) {
	tr := lib.Open()
	defer tr.Close()
	MakeSuTran = func(ut *UpdateTran) *core.SuTran { return core.NewSuTran(nil, true) }
	r := lib.Rand()
	n := lib.N(150)
	for hi := 0; hi < n; hi++ {
		h := &vHarness{tr: tr, r: r, raw: true, th: &core.Thread{}, alpha: vRawSafe}
		h.sch = vShape(r)
		for t := range h.sch.tables {
			core.Global.TestDef("Trigger_"+vTname(t), nil)
			core.Global.SetNoDef("Trigger_" + vTname(t))
		}
		tr.Count("conc.shape=" + h.sch.name)
		h.db = CreateDb(stor.HeapStor(64 * 1024))
		h.db.CheckerSync()
		h.sch.create(h.db)
		h.runConcurrent(hi)
	}
}

// vcCommit: what checkco does for a commit, synchronously. false = the transaction had been aborted
func (h *vHarness) vcCommit(ut *UpdateTran) bool {
	tables := h.db.ck.(*Check).commit(ut)
	if tables == nil {
		return false
	}
	if len(tables) > 0 {
		ut.commit()
		merges := &mergeList{}
		merges.add(tables)
		h.db.Merge(mergeSingle, merges)
	}
	return true
}

func (h *vHarness) runConcurrent(hi int) {
	tr := h.tr
	hist := h.sch.vSpec()
	nid := 0
	for round := 0; round < 12 && !h.failed; round++ {
		var snap [][]vLive
		if msg := lib.Catch(func() { snap = h.snapshot(h.db.NewReadTran()) }); msg != "" {
			h.corrupt = true
			h.fail("index-corrupt", msg+" after: "+hist)
			break
		}
		ntran := 2 + h.r.Intn(2)
		if round < 2 {
			ntran = 1 // populate
		}
		var open []*vcTran
		for i := 0; i < ntran; i++ {
			nid++
			open = append(open, &vcTran{ut: h.db.NewUpdateTran(), id: nid, used: map[uint64]bool{},
				budget: 1 + h.r.Intn(3)})
		}
		hist += fmt.Sprintf(" ; round(T%d..T%d start)", open[0].id, nid)
		for len(open) > 0 && !h.failed {
			// any open transaction may act next: operations of one interleave with the
			// operations AND the commits of the others
			i := h.r.Intn(len(open))
			vt := open[i]
			if vt.budget > 0 && !vt.dead {
				vt.budget--
				op, ok := h.genConcOp(snap, vt)
				if !ok {
					continue
				}
				msg := lib.Catch(func() {
					if op.kind != "out" {
						// a caller reads a row before it changes it (the checker relies on that):
						// a point read of the row's own key, nothing else
						rec := vt.ut.GetRecord(op.off)
						vt.ut.Lookup(vTname(op.t), 0, vt.ut.getSchema(vTname(op.t)).Indexes[0].Ixspec.Key(rec))
					}
				})
				if msg == "" {
					msg = h.apply(vt.ut, op)
				}
				out := "ok"
				if msg != "" {
					out = vClassifySync(vt.ut, msg)
					if vt.ut.ct.Failed() {
						vt.dead = true
					}
				}
				tr.Count("conc.op=" + op.kind + " " + out)
				hist += fmt.Sprintf(" ; T%d %s -> %s", vt.id, op.line(), out)
				continue
			}
			// end this transaction
			open = append(open[:i], open[i+1:]...)
			if vt.dead || h.r.Intn(6) == 0 {
				vt.ut.Abort()
				hist += fmt.Sprintf(" ; T%d abort", vt.id)
				tr.Count("conc.end=abort")
				continue
			}
			if !h.vcCommit(vt.ut) {
				hist += fmt.Sprintf(" ; T%d commit -> conflict", vt.id)
				tr.Count("conc.end=commit-refused")
				continue
			}
			hist += fmt.Sprintf(" ; T%d commit", vt.id)
			tr.Count("conc.end=commit")
			if len(open) > 0 {
				tr.Count("conc.commit-while-others-open")
			}
			rt := h.db.NewReadTran()
			h.indexOracle(rt, hist)
			if h.failed {
				break
			}
			if d, m, _ := h.dangling(h.snapshot(rt)); d != "" {
				h.fail("dangling-fk:concurrent:"+vModeName(m), d+" after: "+hist)
			}
		}
		if hi < 2 && round == 4 {
			tr.Sample(hist)
		}
	}
	if !h.corrupt {
		h.db.Close()
	}
}

// vClassifySync: outcome of a failed operation (the checker is synchronous here)
func vClassifySync(ut *UpdateTran, msg string) string {
	if ut.ct.Failed() {
		if len(msg) > 40 {
			msg = msg[:40]
		}
		return "!abort(" + msg + ")"
	}
	switch {
	case len(msg) >= 13 && msg[:13] == "duplicate key":
		return "!dup"
	case len(msg) >= 29 && msg[:29] == "output blocked by foreign key":
		return "!fkout"
	case len(msg) >= 29 && msg[:29] == "delete blocked by foreign key":
		return "!fkdel"
	}
	return "!other"
}

// genConcOp: like genOp, but rows come from the round's snapshot, a transaction touches a row of
// the snapshot at most once, and the known sequential defects (KF-C08-1, KF-C08-3) are avoided
func (h *vHarness) genConcOp(snap [][]vLive, vt *vcTran) (vOp, bool) {
	t := h.r.Intn(len(h.sch.tables))
	k := h.r.Intn(10)
	var free []vLive
	for _, l := range snap[t] {
		if !vt.used[l.off] {
			free = append(free, l)
		}
	}
	if len(free) == 0 || k < 4 {
		return vOp{kind: "out", t: t, new: h.newRow(t, snap, nil)}, true
	}
	l := free[h.r.Intn(len(free))]
	vt.used[l.off] = true
	if k < 7 {
		if h.onCycle(snap, t, l.row) {
			return vOp{}, false
		}
		return vOp{kind: "del", t: t, old: l.row, off: l.off}, true
	}
	op := vOp{kind: "upd", t: t, old: l.row, new: h.newRow(t, snap, l.row), off: l.off}
	if h.selfLoopKeyUpdate(op) || h.selfOldKey(op) {
		return vOp{}, false
	}
	return op, true
}
