//go:build verif

package db19

// C01 suite "check": drives db19.Check directly with generated action lists.
// Every call with its result and a canonical text of the checker state is a Q line that the
// Lean mirror Gsu.Model.Ck replays (nondeterminism of map order / coin resolved by a hint
// computed from the observed effect).  Direct oracle (independent of the model): at every
// commit of an updating transaction T, no committed T' with T.start < T'.end has a write key
// inside a read range of T (ck_serializable evaluated on the real checker).

import (
	"fmt"
	"math"
	"math/rand"
	"sort"
	"strconv"
	"strings"
	"testing"

	lib "github.com/apmckinlay/gsuneido/util/zzverif"
)

type c01Read struct {
	tbl, idx int
	from, to string
}
type c01Write struct {
	tbl, idx int
	key      string
}
type c01Tran struct {
	ct     *CkTran
	reads  []c01Read
	writes []c01Write
	end    int // 0 = not committed with updates
}

var c01Keys = []string{"", "a", "b", "c", "a\x00", "ab", "\x00", "d"}

func c01Digest(ck *Check) string {
	var sb strings.Builder
	tabs := func(t *CkTran) string {
		return strings.Join(t.tables, ".")
	}
	var ids []int
	for k := range ck.actvTran {
		ids = append(ids, k)
	}
	sort.Ints(ids)
	sb.WriteString("a=")
	for i, k := range ids {
		t := ck.actvTran[k]
		if i > 0 {
			sb.WriteByte(',')
		}
		sb.WriteString(strconv.Itoa(t.start))
		if t.hasUpdates {
			sb.WriteByte('u')
		}
		if t.readConflict != "" {
			sb.WriteByte('r')
		}
		fmt.Fprintf(&sb, ":%d:%s", t.readCount, tabs(t))
	}
	ids = ids[:0]
	for k := range ck.cmtdTran {
		ids = append(ids, k)
	}
	sort.Ints(ids)
	sb.WriteString(" c=")
	for i, k := range ids {
		t := ck.cmtdTran[k]
		if i > 0 {
			sb.WriteByte(',')
		}
		fmt.Fprintf(&sb, "%d-%s:%s", t.start, c01M(t.end), tabs(t))
	}
	sb.WriteString(" o=" + c01M(ck.oldest) + " x=")
	ids = ids[:0]
	for k := range ck.exclusive {
		n, _ := strconv.Atoi(k)
		ids = append(ids, n)
	}
	sort.Ints(ids)
	for i, k := range ids {
		if i > 0 {
			sb.WriteByte(',')
		}
		fmt.Fprintf(&sb, "%d:%s", k, c01M(ck.exclusive[strconv.Itoa(k)]))
	}
	fmt.Fprintf(&sb, " k=%d q=%d", ck.clock, ck.seq)
	return sb.String()
}

func c01M(n int) string {
	if n == math.MaxInt {
		return "M"
	}
	return strconv.Itoa(n)
}

type c01Snap map[int]bool // active start -> readConflict set

func c01Snapshot(ck *Check) c01Snap {
	s := c01Snap{}
	for k, t := range ck.actvTran {
		s[k] = t.readConflict != ""
	}
	return s
}

// c01Changed = the other transactions that an operation of tn flagged or aborted
func c01Changed(ck *Check, before c01Snap, tn int) []int {
	var ch []int
	for k, rc := range before {
		if k == tn {
			continue
		}
		t, ok := ck.actvTran[k]
		if !ok || (!rc && t.readConflict != "") {
			ch = append(ch, k)
		}
	}
	sort.Ints(ch)
	return ch
}

func c01InRange(from, to, k string) bool { return from <= k && k <= to }

func TestVerifC01Check(t *testing.T) {
	tr := lib.Open()
	defer tr.Close()
	r := lib.Rand()
	n := lib.N(1500)
	defer func(ma int, a bool) { MaxAge = ma; checkerAbortT1 = a }(MaxAge, checkerAbortT1)
	for h := 0; h < n; h++ {
		c01History(tr, r, h)
	}
	if lib.Tier() == "thorough" {
		c01ReadMax(tr)
	}
}

func c01Key(r *rand.Rand, nk int) string { return c01Keys[r.Intn(nk)] }

// c01Hist is one history on a fresh Check: the operations (each emits its Q line and runs the
// direct oracles) are methods so that the random walk and the structured scenarios share them.
type c01Hist struct {
	tr       *lib.Trace
	ck       *Check
	h        int
	hs       []*c01Tran
	log      []*c01Tran
	exclOn   map[int]bool // AddExclusive returned true and EndExclusive not yet called
	exclEnd  map[int]int  // sequence number assigned by the last EndExclusive
	scenario string
}

func (c *c01Hist) emit(op, res string) { c.tr.Q(op, res+" | "+c01Digest(c.ck)) }

func (c *c01Hist) start() *c01Tran {
	x := &c01Tran{ct: c.ck.StartTran()}
	c.hs = append(c.hs, x)
	c.emit("start", strconv.Itoa(x.ct.start))
	c.tr.Count("check.op.start")
	return x
}

func (c *c01Hist) read(x *c01Tran, tbl, idx int, from, to string) bool {
	ck := c.ck
	before := c01Snapshot(ck)
	rcBefore := x.ct.readConflict != ""
	var res bool
	if msg := lib.Catch(func() { res = ck.Read(x.ct, strconv.Itoa(tbl), idx, from, to) }); msg != "" {
		c.emit("read-panic", "!panic")
		return false
	}
	ch := lib.Ints(c01Changed(ck, before, x.ct.start))
	c.emit(fmt.Sprintf("read %d %d %d %s %s %s %s", x.ct.start, tbl, idx, lib.X(from), lib.X(to), ch, ch), lib.B(res))
	if res && !rcBefore {
		x.reads = append(x.reads, c01Read{tbl, idx, from, to})
	}
	c.tr.Count("check.op.read=" + lib.B(res))
	if from == "" && to == "" {
		c.tr.Count("check.read.emptykey")
	}
	return res
}

// write: kind 0 output(ks), 1 delete(ks), 2 update(ks -> ks2)
func (c *c01Hist) write(x *c01Tran, kind, tbl int, ks, ks2 []string) bool {
	ck := c.ck
	before := c01Snapshot(ck)
	var res bool
	op := []string{"output", "delete", "update"}[kind]
	msg := lib.Catch(func() {
		switch kind {
		case 0:
			res = ck.Output(x.ct, strconv.Itoa(tbl), ks)
		case 1:
			res = ck.Delete(x.ct, strconv.Itoa(tbl), 1, ks)
		case 2:
			res = ck.Update(x.ct, strconv.Itoa(tbl), 1, ks, ks2)
		}
	})
	if msg != "" {
		c.emit(op+"-panic", "!panic")
		return false
	}
	ch := lib.Ints(c01Changed(ck, before, x.ct.start))
	line := fmt.Sprintf("%s %d %d %s %s", op, x.ct.start, tbl, ch, ch)
	if kind == 2 {
		line += fmt.Sprintf(" %d %s %s", len(ks), lib.Xs(ks), lib.Xs(ks2))
		same := 0
		for i := range ks {
			if ks[i] == ks2[i] {
				same++
			}
		}
		c.tr.Count(fmt.Sprintf("check.update.unchanged-keys=%d/%d", same, len(ks)))
	} else {
		line += " " + lib.Xs(ks)
	}
	c.emit(line, lib.B(res))
	if res {
		for i, k := range ks {
			x.writes = append(x.writes, c01Write{tbl, i, k})
		}
		for i, k := range ks2 {
			x.writes = append(x.writes, c01Write{tbl, i, k})
		}
		// direct oracle: exclusive table access.  A write must be refused while the table is
		// exclusive, and after EndExclusive for every transaction that started before it.
		if c.exclOn[tbl] {
			c.tr.Fail("ck-exclusive-write", fmt.Sprintf("history %d%s: %s by ut%d on table %d accepted while the table is exclusive "+
				"(AddExclusive succeeded, EndExclusive not yet called); checker: %s", c.h, c.scenario, op, x.ct.start, tbl, c01Digest(ck)))
		} else if x.ct.start < c.exclEnd[tbl] {
			c.tr.Fail("ck-exclusive-write-after", fmt.Sprintf("history %d%s: %s by ut%d on table %d accepted although the table was "+
				"exclusive until %d (after ut%d started)", c.h, c.scenario, op, x.ct.start, tbl, c.exclEnd[tbl], x.ct.start))
		}
	}
	c.tr.Count("check.op." + op + "=" + lib.B(res))
	if ch != "-" {
		c.tr.Count("check.conflict-others")
	}
	return res
}

func (c *c01Hist) commit(x *c01Tran) {
	ck := c.ck
	wasActive := false
	if _, ok := ck.actvTran[x.ct.start]; ok {
		wasActive = true
	}
	var tw []string
	if msg := lib.Catch(func() { tw = ck.commit(&UpdateTran{ct: x.ct}) }); msg != "" {
		c.emit(fmt.Sprintf("commit %d", x.ct.start), "!panic")
		c.tr.Fail("ck-commit-panic", msg)
		return
	}
	res := "nil"
	if tw != nil {
		res = "[" + strings.Join(tw, ",") + "]"
	}
	c.emit(fmt.Sprintf("commit %d", x.ct.start), res)
	c.tr.Count("check.op.commit=" + fmt.Sprint(tw != nil))
	if tw != nil && wasActive && x.ct.hasUpdates {
		x.end = x.ct.end
		// direct oracle: ck_serializable on the real checker
		for _, y := range c.log {
			if y.end > x.ct.start {
				for _, w := range y.writes {
					for _, rd := range x.reads {
						if rd.tbl == w.tbl && rd.idx == w.idx && c01InRange(rd.from, rd.to, w.key) {
							sig := "ck-serial"
							if w.key == "" {
								sig = "ck-serial-emptykey"
							}
							c.tr.Fail(sig, fmt.Sprintf("history %d%s: ut%d (end %d) read [%q,%q] on table %d index %d, "+
								"ut%d committed at %d (after ut%d started) wrote %q, both committed",
								c.h, c.scenario, x.ct.start, x.end, rd.from, rd.to, rd.tbl, rd.idx, y.ct.start, y.end, x.ct.start, w.key))
						}
					}
				}
			}
		}
		c.log = append(c.log, x)
		c.tr.Count("check.committed-update")
	}
}

func (c *c01Hist) abort(x *c01Tran) {
	res := c.ck.Abort(x.ct, "")
	c.emit(fmt.Sprintf("abort %d", x.ct.start), lib.B(res))
	c.tr.Count("check.op.abort=" + lib.B(res))
}

func (c *c01Hist) tick() {
	c.ck.tick()
	c.emit(fmt.Sprintf("tick %d", MaxAge), "-")
	c.tr.Count("check.op.tick")
}

func (c *c01Hist) addExcl(tbl int) {
	res := c.ck.AddExclusive(strconv.Itoa(tbl))
	c.emit(fmt.Sprintf("addexcl %d", tbl), lib.B(res))
	c.tr.Count("check.op.addexcl=" + lib.B(res))
	if res {
		c.exclOn[tbl] = true
	}
}

func (c *c01Hist) endExcl(tbl int) {
	c.ck.EndExclusive(strconv.Itoa(tbl))
	c.emit(fmt.Sprintf("endexcl %d", tbl), "-")
	c.tr.Count("check.op.endexcl")
	if c.exclOn[tbl] {
		c.exclOn[tbl] = false
		c.exclEnd[tbl] = c.ck.seq
	}
}

func (c *c01Hist) live() []*c01Tran {
	var live []*c01Tran
	for _, x := range c.hs {
		if _, ok := c.ck.actvTran[x.ct.start]; ok {
			live = append(live, x)
		}
	}
	return live
}

func c01History(tr *lib.Trace, r *rand.Rand, h int) {
	c := &c01Hist{tr: tr, ck: NewCheck(&Database{}), h: h, exclOn: map[int]bool{}, exclEnd: map[int]int{}}
	ck := c.ck
	tr.Q("reset", "ok")
	checkerAbortT1 = r.Intn(3) == 0
	MaxAge = 2 + r.Intn(19)
	ntab := 1 + r.Intn(3)
	nidx := 1 + r.Intn(3)
	nk := 2 + r.Intn(len(c01Keys)-1)
	tr.Count(fmt.Sprintf("check.tables=%d", ntab))
	tr.Count(fmt.Sprintf("check.abortT1=%v", checkerAbortT1))
	keys := func() []string {
		ks := make([]string, nidx)
		for i := range ks {
			ks[i] = c01Key(r, nk)
		}
		return ks
	}
	// structured prefixes: the two families of schedules a pure random walk rarely completes
	switch r.Intn(8) {
	case 0, 1:
		nidx = 2 + r.Intn(2)
		c01Skew(c, r, ntab, nidx, nk)
	case 2:
		ntab = 2 + r.Intn(2)
		c01Exclusive(c, r, ntab, nidx, nk)
	}
	pickH := func() *c01Tran {
		// mostly live handles, sometimes dead ones
		live := c.live()
		if len(live) > 0 && r.Intn(10) != 0 {
			return live[r.Intn(len(live))]
		}
		return c.hs[r.Intn(len(c.hs))]
	}
	nsteps := 5 + r.Intn(40)
	for s := 0; s < nsteps; s++ {
		k := r.Intn(100)
		if len(c.hs) == 0 {
			k = 0
		}
		switch {
		case k < 12:
			if len(c.hs) >= 10 {
				continue
			}
			c.start()
		case k < 40: // read
			x := pickH()
			tbl, idx := r.Intn(ntab), r.Intn(nidx)
			from, to := c01Key(r, nk), c01Key(r, nk)
			if r.Intn(2) == 0 {
				to = from
			}
			if from > to {
				from, to = to, from
			}
			c.read(x, tbl, idx, from, to)
		case k < 72: // output / delete / update
			x := pickH()
			tbl := r.Intn(ntab)
			ks := keys()
			var ks2 []string
			kind := r.Intn(3)
			if kind == 2 {
				ks2 = keys()
				if r.Intn(2) == 0 {
					// an update usually leaves most keys alone: keep a random subset
					for i := range ks2 {
						if r.Intn(3) != 0 {
							ks2[i] = ks[i]
						}
					}
				}
			}
			c.write(x, kind, tbl, ks, ks2)
		case k < 84:
			c.commit(pickH())
		case k < 89:
			c.abort(pickH())
		case k < 93:
			c.tick()
		case k < 96:
			c.addExcl(r.Intn(ntab))
		case k < 98:
			c.endExcl(r.Intn(ntab))
		default:
			x := pickH()
			c.emit(fmt.Sprintf("readcount %d", x.ct.start), strconv.Itoa(ck.ReadCount(x.ct)))
		}
	}
}

// c01Skew: two (or three) overlapping transactions; one reads a point or range on some index and
// writes something unrelated, the other writes (output, delete, or an update that leaves the
// earlier index keys unchanged) a key inside that range on that index; reads before or after the
// write; both try to commit, in either order.  Everything is random but the shape.
func c01Skew(c *c01Hist, r *rand.Rand, ntab, nidx, nk int) {
	c.scenario = " (skew scenario)"
	c.tr.Count("check.scenario.skew")
	a, b := c.start(), c.start()
	tbl := r.Intn(ntab)
	j := r.Intn(nidx)
	from, to := c01Key(r, nk), c01Key(r, nk)
	if from > to {
		from, to = to, from
	}
	if r.Intn(3) == 0 {
		to = from
	}
	inside := from
	for _, k := range c01Keys[:nk] {
		if from <= k && k <= to && r.Intn(2) == 0 {
			inside = k
		}
	}
	other := func() []string {
		ks := make([]string, nidx)
		for i := range ks {
			ks[i] = "z" + c01Key(r, nk) // outside every range over c01Keys
		}
		return ks
	}
	aRead := func() { c.read(a, tbl, j, from, to) }
	aWrite := func() { c.write(a, r.Intn(2), (tbl+r.Intn(ntab))%ntab, other(), nil) }
	bWrite := func() {
		old := other()
		ks := append([]string(nil), old...)
		switch kind := r.Intn(3); kind {
		case 0, 1:
			ks[j] = inside
			c.write(b, kind, tbl, ks, nil)
		default:
			// update: keys before j unchanged, key j moves into (or out of) the range
			if r.Intn(2) == 0 {
				ks[j] = inside
				c.write(b, 2, tbl, old, ks)
			} else {
				ks[j] = inside
				c.write(b, 2, tbl, ks, old)
			}
		}
	}
	steps := []func(){aRead, aWrite, bWrite}
	r.Shuffle(len(steps), func(i, k int) { steps[i], steps[k] = steps[k], steps[i] })
	for _, f := range steps {
		f()
		if r.Intn(6) == 0 {
			c.tick()
		}
	}
	if r.Intn(2) == 0 {
		a, b = b, a
	}
	c.commit(a)
	if r.Intn(4) != 0 {
		c.commit(b)
	}
	c.scenario = ""
}

// c01Exclusive: a table is made exclusive (as Ensure / AlterCreate do around an index build);
// meanwhile transactions on other tables start and commit or abort - often leaving no update
// transaction active - other exclusives end, time passes; then transactions (started before or
// after) write to the exclusive table; finally the exclusive ends and older transactions try again.
func c01Exclusive(c *c01Hist, r *rand.Rand, ntab, nidx, nk int) {
	c.scenario = " (exclusive scenario)"
	c.tr.Count("check.scenario.exclusive")
	keys := func() []string {
		ks := make([]string, nidx)
		for i := range ks {
			ks[i] = c01Key(r, nk)
		}
		return ks
	}
	x := r.Intn(ntab)
	var early []*c01Tran
	for i := r.Intn(3); i > 0; i-- {
		early = append(early, c.start())
	}
	if r.Intn(3) == 0 {
		y := (x + 1) % ntab
		c.addExcl(y)
		defer c.endExcl(y)
	}
	c.addExcl(x)
	for i := 1 + r.Intn(4); i > 0; i-- {
		switch r.Intn(6) {
		case 0, 1, 2: // unrelated transaction runs to completion
			t := c.start()
			c.write(t, r.Intn(2), (x+1)%ntab, keys(), nil)
			if r.Intn(3) == 0 {
				c.abort(t)
			} else {
				c.commit(t)
			}
		case 3:
			if len(early) > 0 {
				k := r.Intn(len(early))
				if r.Intn(2) == 0 {
					c.commit(early[k])
				} else {
					c.abort(early[k])
				}
				early = append(early[:k], early[k+1:]...)
			}
		case 4:
			y := (x + 1) % ntab
			c.addExcl(y)
			c.endExcl(y)
		case 5:
			c.tick()
		}
	}
	// writers on the exclusive table
	for i := 1 + r.Intn(2); i > 0; i-- {
		var t *c01Tran
		if len(early) > 0 && r.Intn(2) == 0 {
			t = early[r.Intn(len(early))]
		} else {
			t = c.start()
			early = append(early, t)
		}
		kind := r.Intn(3)
		var ks2 []string
		if kind == 2 {
			ks2 = keys()
		}
		c.write(t, kind, x, keys(), ks2)
	}
	if r.Intn(3) != 0 {
		c.endExcl(x)
		for _, t := range early {
			if r.Intn(2) == 0 {
				c.write(t, 0, x, keys(), nil)
			}
		}
	}
	c.scenario = ""
}

// c01ReadMax: 2 x 10000 distinct point reads on two indexes reach readMax (thorough tier only)
func c01ReadMax(tr *lib.Trace) {
	ck := NewCheck(&Database{})
	tr.Q("reset", "ok")
	x := ck.StartTran()
	tr.Q("start", strconv.Itoa(x.start)+" | "+c01Digest(ck))
	for i := 0; i < readMax+2; i++ {
		k := fmt.Sprintf("%06d", i/2)
		res := ck.Read(x, "0", i%2, k, k)
		tr.Q(fmt.Sprintf("read %d 0 %d %s %s - -", x.start, i%2, lib.X(k), lib.X(k)), lib.B(res)+" | "+c01Digest(ck))
	}
	tr.Count("check.readmax-history")
}
