//go:build verif

package db19

// C01 suite "check": drives db19.Check directly with generated action lists.
// Every call with its result and a canonical text of the checker state is a Q line that the
// Lean mirror Gsu.Model.Ck replays (nondeterminism of map order / coin resolved by a hint
// computed from the observed effect).  Direct oracle (independent of the model): at every
// commit of an updating transaction T, no committed T' with T.start < T'.end has a write key
// inside a read range of T (ck_serializable evaluated on the real checker).

import (
	"fmt"
	"math"
	"math/rand"
	"sort"
	"strconv"
	"strings"
	"testing"

	lib "github.com/apmckinlay/gsuneido/util/zzverif"
)

type c01Read struct {
	tbl, idx int
	from, to string
}
type c01Write struct {
	tbl, idx int
	key      string
}
type c01Tran struct {
	ct     *CkTran
	reads  []c01Read
	writes []c01Write
	end    int // 0 = not committed with updates
}

var c01Keys = []string{"", "a", "b", "c", "a\x00", "ab", "\x00", "d"}

func c01Digest(ck *Check) string {
	var sb strings.Builder
	tabs := func(t *CkTran) string {
		return strings.Join(t.tables, ".")
	}
	var ids []int
	for k := range ck.actvTran {
		ids = append(ids, k)
	}
	sort.Ints(ids)
	sb.WriteString("a=")
	for i, k := range ids {
		t := ck.actvTran[k]
		if i > 0 {
			sb.WriteByte(',')
		}
		sb.WriteString(strconv.Itoa(t.start))
		if t.hasUpdates {
			sb.WriteByte('u')
		}
		if t.readConflict != "" {
			sb.WriteByte('r')
		}
		fmt.Fprintf(&sb, ":%d:%s", t.readCount, tabs(t))
	}
	ids = ids[:0]
	for k := range ck.cmtdTran {
		ids = append(ids, k)
	}
	sort.Ints(ids)
	sb.WriteString(" c=")
	for i, k := range ids {
		t := ck.cmtdTran[k]
		if i > 0 {
			sb.WriteByte(',')
		}
		fmt.Fprintf(&sb, "%d-%s:%s", t.start, c01M(t.end), tabs(t))
	}
	sb.WriteString(" o=" + c01M(ck.oldest) + " x=")
	ids = ids[:0]
	for k := range ck.exclusive {
		n, _ := strconv.Atoi(k)
		ids = append(ids, n)
	}
	sort.Ints(ids)
	for i, k := range ids {
		if i > 0 {
			sb.WriteByte(',')
		}
		fmt.Fprintf(&sb, "%d:%s", k, c01M(ck.exclusive[strconv.Itoa(k)]))
	}
	fmt.Fprintf(&sb, " k=%d q=%d", ck.clock, ck.seq)
	return sb.String()
}

func c01M(n int) string {
	if n == math.MaxInt {
		return "M"
	}
	return strconv.Itoa(n)
}

type c01Snap map[int]bool // active start -> readConflict set

func c01Snapshot(ck *Check) c01Snap {
	s := c01Snap{}
	for k, t := range ck.actvTran {
		s[k] = t.readConflict != ""
	}
	return s
}

// c01Changed = the other transactions that an operation of tn flagged or aborted
func c01Changed(ck *Check, before c01Snap, tn int) []int {
	var ch []int
	for k, rc := range before {
		if k == tn {
			continue
		}
		t, ok := ck.actvTran[k]
		if !ok || (!rc && t.readConflict != "") {
			ch = append(ch, k)
		}
	}
	sort.Ints(ch)
	return ch
}

func c01InRange(from, to, k string) bool { return from <= k && k <= to }

func TestVerifC01Check(t *testing.T) {
	tr := lib.Open()
	defer tr.Close()
	r := lib.Rand()
	n := lib.N(1500)
	defer func(ma int, a bool) { MaxAge = ma; checkerAbortT1 = a }(MaxAge, checkerAbortT1)
	for h := 0; h < n; h++ {
		c01History(tr, r, h)
	}
	if lib.Tier() == "thorough" {
		c01ReadMax(tr)
	}
}

func c01Key(r *rand.Rand, nk int) string { return c01Keys[r.Intn(nk)] }

func c01History(tr *lib.Trace, r *rand.Rand, h int) {
	ck := NewCheck(&Database{})
	tr.Q("reset", "ok")
	checkerAbortT1 = r.Intn(3) == 0
	MaxAge = 2 + r.Intn(19)
	ntab := 1 + r.Intn(3)
	nidx := 1 + r.Intn(3)
	nk := 2 + r.Intn(len(c01Keys)-1)
	var hs []*c01Tran
	var log []*c01Tran
	nsteps := 5 + r.Intn(40)
	tr.Count(fmt.Sprintf("check.tables=%d", ntab))
	tr.Count(fmt.Sprintf("check.abortT1=%v", checkerAbortT1))
	emit := func(op, res string) {
		tr.Q(op, res+" | "+c01Digest(ck))
	}
	pickH := func() *c01Tran {
		// mostly live handles, sometimes dead ones
		var live []*c01Tran
		for _, x := range hs {
			if _, ok := ck.actvTran[x.ct.start]; ok {
				live = append(live, x)
			}
		}
		if len(live) > 0 && r.Intn(10) != 0 {
			return live[r.Intn(len(live))]
		}
		return hs[r.Intn(len(hs))]
	}
	keys := func() []string {
		ks := make([]string, nidx)
		for i := range ks {
			ks[i] = c01Key(r, nk)
		}
		return ks
	}
	for s := 0; s < nsteps; s++ {
		c := r.Intn(100)
		if len(hs) == 0 {
			c = 0
		}
		switch {
		case c < 12:
			if len(hs) >= 8 {
				continue
			}
			x := &c01Tran{ct: ck.StartTran()}
			hs = append(hs, x)
			emit("start", strconv.Itoa(x.ct.start))
			tr.Count("check.op.start")
		case c < 40: // read
			x := pickH()
			tbl, idx := r.Intn(ntab), r.Intn(nidx)
			from, to := c01Key(r, nk), c01Key(r, nk)
			if r.Intn(2) == 0 {
				to = from
			}
			if from > to {
				from, to = to, from
			}
			before := c01Snapshot(ck)
			rcBefore := x.ct.readConflict != ""
			var res bool
			if msg := lib.Catch(func() { res = ck.Read(x.ct, strconv.Itoa(tbl), idx, from, to) }); msg != "" {
				emit("read-panic", "!panic")
				continue
			}
			ch := lib.Ints(c01Changed(ck, before, x.ct.start))
			emit(fmt.Sprintf("read %d %d %d %s %s %s %s", x.ct.start, tbl, idx, lib.X(from), lib.X(to), ch, ch), lib.B(res))
			if res && !rcBefore {
				x.reads = append(x.reads, c01Read{tbl, idx, from, to})
			}
			tr.Count("check.op.read=" + lib.B(res))
			if from == "" && to == "" {
				tr.Count("check.read.emptykey")
			}
		case c < 72: // output / delete / update
			x := pickH()
			tbl := r.Intn(ntab)
			before := c01Snapshot(ck)
			var res bool
			var op string
			ks := keys()
			var ks2 []string
			kind := r.Intn(3)
			msg := lib.Catch(func() {
				switch kind {
				case 0:
					op = "output"
					res = ck.Output(x.ct, strconv.Itoa(tbl), ks)
				case 1:
					op = "delete"
					res = ck.Delete(x.ct, strconv.Itoa(tbl), 1, ks)
				case 2:
					op = "update"
					ks2 = keys()
					if r.Intn(2) == 0 {
						ks2[r.Intn(nidx)] = ks[0] // often the same key
						copy(ks2, ks[:r.Intn(nidx+1)])
					}
					res = ck.Update(x.ct, strconv.Itoa(tbl), 1, ks, ks2)
				}
			})
			if msg != "" {
				emit(op+"-panic", "!panic")
				continue
			}
			ch := lib.Ints(c01Changed(ck, before, x.ct.start))
			line := fmt.Sprintf("%s %d %d %s %s", op, x.ct.start, tbl, ch, ch)
			if kind == 2 {
				line += fmt.Sprintf(" %d %s %s", len(ks), lib.Xs(ks), lib.Xs(ks2))
			} else {
				line += " " + lib.Xs(ks)
			}
			emit(line, lib.B(res))
			if res {
				for i, k := range ks {
					x.writes = append(x.writes, c01Write{tbl, i, k})
				}
				for i, k := range ks2 {
					x.writes = append(x.writes, c01Write{tbl, i, k})
				}
			}
			tr.Count("check.op." + op + "=" + lib.B(res))
			if ch != "-" {
				tr.Count("check.conflict-others")
			}
		case c < 84: // commit
			x := pickH()
			wasActive := false
			if _, ok := ck.actvTran[x.ct.start]; ok {
				wasActive = true
			}
			var tw []string
			if msg := lib.Catch(func() { tw = ck.commit(&UpdateTran{ct: x.ct}) }); msg != "" {
				emit(fmt.Sprintf("commit %d", x.ct.start), "!panic")
				tr.Fail("ck-commit-panic", msg)
				continue
			}
			res := "nil"
			if tw != nil {
				res = "[" + strings.Join(tw, ",") + "]"
			}
			emit(fmt.Sprintf("commit %d", x.ct.start), res)
			tr.Count("check.op.commit=" + fmt.Sprint(tw != nil))
			if tw != nil && wasActive && x.ct.hasUpdates {
				x.end = x.ct.end
				// direct oracle: ck_serializable on the real checker
				for _, y := range log {
					if y.end > x.ct.start {
						for _, w := range y.writes {
							for _, rd := range x.reads {
								if rd.tbl == w.tbl && rd.idx == w.idx && c01InRange(rd.from, rd.to, w.key) {
									sig := "ck-serial"
									if w.key == "" {
										sig = "ck-serial-emptykey"
									}
									tr.Fail(sig, fmt.Sprintf("history %d: ut%d (end %d) read [%q,%q] on table %d index %d, "+
										"ut%d committed at %d (after ut%d started) wrote %q, both committed",
										h, x.ct.start, x.end, rd.from, rd.to, rd.tbl, rd.idx, y.ct.start, y.end, x.ct.start, w.key))
								}
							}
						}
					}
				}
				log = append(log, x)
				tr.Count("check.committed-update")
			}
		case c < 90:
			x := pickH()
			res := ck.Abort(x.ct, "")
			emit(fmt.Sprintf("abort %d", x.ct.start), lib.B(res))
			tr.Count("check.op.abort=" + lib.B(res))
		case c < 94:
			ck.tick()
			emit(fmt.Sprintf("tick %d", MaxAge), "-")
			tr.Count("check.op.tick")
		case c < 96:
			tbl := r.Intn(ntab)
			res := ck.AddExclusive(strconv.Itoa(tbl))
			emit(fmt.Sprintf("addexcl %d", tbl), lib.B(res))
			tr.Count("check.op.addexcl=" + lib.B(res))
		case c < 98:
			tbl := r.Intn(ntab)
			ck.EndExclusive(strconv.Itoa(tbl))
			emit(fmt.Sprintf("endexcl %d", tbl), "-")
			tr.Count("check.op.endexcl")
		default:
			x := pickH()
			emit(fmt.Sprintf("readcount %d", x.ct.start), strconv.Itoa(ck.ReadCount(x.ct)))
		}
	}
}

// c01ReadMax: 2 x 10000 distinct point reads on two indexes reach readMax (thorough tier only)
func c01ReadMax(tr *lib.Trace) {
	ck := NewCheck(&Database{})
	tr.Q("reset", "ok")
	x := ck.StartTran()
	tr.Q("start", strconv.Itoa(x.start)+" | "+c01Digest(ck))
	for i := 0; i < readMax+2; i++ {
		k := fmt.Sprintf("%06d", i/2)
		res := ck.Read(x, "0", i%2, k, k)
		tr.Q(fmt.Sprintf("read %d 0 %d %s %s - -", x.start, i%2, lib.X(k), lib.X(k)), lib.B(res)+" | "+c01Digest(ck))
	}
	tr.Count("check.readmax-history")
}
